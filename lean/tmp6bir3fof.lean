import ShroudVerif.Props.C03Descr
#print axioms Shroud.PyDescr.scalar_set_good
#print axioms Shroud.PyDescr.scalar_set_bad_unchanged
#print axioms Shroud.PyDescr.arr_set_good
#print axioms Shroud.PyDescr.arr_set_bad_unchanged
#print axioms Shroud.PyDescr.ptr_set_good
#print axioms Shroud.PyDescr.ptr_set_bad_clears
#print axioms Shroud.PyDescr.ptr_set_bad_unchanged_is_false
#print axioms Shroud.PyDescr.descr_rows_canonical
#print axioms Shroud.PyDescr.getter_total
#print axioms Shroud.PyDescr.set_then_get_roundtrip
#print axioms Shroud.PyDescr.set_bad_member
#print axioms Shroud.PyDescr.lookup_in_table
#print axioms Shroud.PyDescr.lookup_selects
