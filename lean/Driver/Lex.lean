import ShroudVerif.Model.Lex
import Driver.Codec
/-
Line-protocol driver for the lexical models (property C16).
  tok  <c|f> <text>          -> "<nlines> <ntokens> <hash>"   (hash of the canonical token serialisation)
  toks <c|f> <text>          -> logical lines joined by '|', tokens by ';', characters as code points joined by ','
  cmp  <c|f> <textA> <textB> -> "same" | "diff <index of first differing logical line> <lineA> <lineB>"
                                 the verdict is `commentOnlyDiff` on the files split at newlines
  blk  <c|f> <text>          -> "1"/"0"  isCommentText
-/
namespace Driver
open Shroud.Lex

def decLang (s : String) : Lang := if s == "f" then .f else .c

def outCode : Out → Nat
  | .ch c => 2 * c.toNat + 3
  | .lit c => 2 * c.toNat + 4
  | .sp => 0
  | .nl => 0

/-- canonical serialisation: characters (code*2+3, literal +1), 1 ends a token, 2 ends a line -/
def serialise (ls : List (List Tok)) : List Nat :=
  ls.foldr (fun l acc => l.foldr (fun t acc => t.foldr (fun o acc => outCode o :: acc) (1 :: acc)) (2 :: acc)) []

def hashMod : Nat := 2305843009213693951  -- 2^61 - 1

def polyHash (xs : List Nat) : Nat := xs.foldl (fun h v => (h * 1000003 + v + 1) % hashMod) 7

def tokChars (t : Tok) : List Char := t.map (fun o => match o with | .ch c => c | .lit c => c | _ => ' ')

def encLine (l : List Tok) : String := encStrs (l.map tokChars)

/-- split a text at newlines; a final newline does not open another line -/
def splitLines (t : List Char) : List Line :=
  let r := t.foldr (fun c (acc : List Char × List Line) =>
    if c = '\n' then ([], acc.1 :: acc.2) else (c :: acc.1, acc.2)) ([], [])
  -- r.1 is the first line, r.2 the following ones; the piece after the last newline is dropped if empty
  let ls := r.1 :: r.2
  match ls.getLast? with
  | some [] => ls.dropLast
  | _ => ls

def firstDiff : Nat → List (List Tok) → List (List Tok) → String
  | _, [], [] => "same"
  | i, a :: as, b :: bs => if a == b then firstDiff (i + 1) as bs else s!"diff {i} {encLine a} {encLine b}"
  | i, a :: _, [] => s!"diff {i} {encLine a} ~"
  | i, [], b :: _ => s!"diff {i} ~ {encLine b}"

def handleLex : List String → String
  | ["tok", l, t] =>
    let ts := tokensOf (decLang l) (decStr t)
    let n := ts.foldl (fun n x => n + x.length) 0
    s!"{ts.length} {n} {polyHash (serialise ts)}"
  | ["toks", l, t] =>
    let ts := tokensOf (decLang l) (decStr t)
    if ts.isEmpty then "~" else "|".intercalate (ts.map encLine)
  | ["cmp", l, a, b] =>
    let la := splitLines (decStr a)
    let lb := splitLines (decStr b)
    let lang := decLang l
    if commentOnlyDiff lang la lb then "same"
    else
      match firstDiff 0 (tokensOf lang (joinLines la)) (tokensOf lang (joinLines lb)) with
      | "same" => "diff -1 ~ ~"
      | r => r
  | ["blk", l, t] => if isCommentText (decLang l) (decStr t) then "1" else "0"
  | _ => "bad-op"

end Driver
