import ShroudVerif.Model.StrHelpers
/-
Line protocol for the string-helper model (engine E-strhelpers, property C10).
A buffer is written as its byte values joined by ',' ("-" for an empty
buffer, "N" for a NULL pointer); 256 stands for a byte of fresh `malloc`
memory that was never written.
-/
namespace Driver.StrH
open Shroud.Str

def decBuf (s : String) : Buf :=
  if s == "-" then [] else (s.splitOn ",").map (fun t => t.toNat!)

def decPtr (s : String) : Option Buf :=
  if s == "N" then none else some (decBuf s)

def encBuf (b : Buf) : String :=
  if b.isEmpty then "-" else ",".intercalate (b.map toString)

def encBufs (bs : List Buf) : String :=
  if bs.isEmpty then "~" else ";".intercalate (bs.map encBuf)

def showBuf : Res Buf → String
  | .ok b => "ok " ++ encBuf b
  | .oob => "oob"

def handle : List String → String
  | ["lentrim", src, nsrc] =>
    match lenTrim (decBuf src) nsrc.toNat! with
    | .ok k => "ok " ++ toString k
    | .oob => "oob"
  | ["strcopy", dest, ndest, src, nsrc] =>
    showBuf (strCopy (decBuf dest) ndest.toNat! (decPtr src) nsrc.toInt!)
  | ["blankfill", dest, ndest] =>
    showBuf (strBlankFill (decBuf dest) ndest.toNat!)
  | ["stralloc", src, nsrc, ntrim] =>
    match strAlloc (decBuf src) nsrc.toNat! ntrim.toInt! with
    | .ok rv => "ok " ++ encBuf rv ++ " live=" ++ toString (strFree rv).length
    | .oob => "oob"
  | ["strarray", src, nsrc, len] =>
    match strArrayAlloc (decBuf src) nsrc.toNat! len.toNat! with
    | .ok arr =>
      match strArrayFree arr nsrc.toNat! with
      | .ok live => "ok " ++ encBufs arr ++ " live=" ++ toString live.length
      | .oob => "oob"
    | .oob => "oob"
  | ["strtoarray", s] =>
    match strToArray (decBuf s) with
    | (none, n) => "ok null " ++ toString n
    | (some _, n) => "ok ptr " ++ toString n
  | ["copystr", cxx, elemLen, cvar, cvarLen] =>
    showBuf (copyString (decPtr cxx) elemLen.toNat! (decBuf cvar) cvarLen.toNat!)
  | ["allocstring", s] =>
    showBuf (allocatableResult (strToArray (decBuf s)))
  | ["allocchar", cxx] =>
    match charResultCtx (decPtr cxx) with
    | .ok ctx => showBuf (allocatableResult ctx)
    | .oob => "oob"
  | ["charscalar", dest, len, c] =>
    showBuf (charScalarResult (decBuf dest) len.toNat! c.toNat!)
  | ["ftrim", t] => "ok " ++ encBuf (ftrimCharIn (decBuf t))
  | _ => "bad-op"

end Driver.StrH
