import ShroudVerif.Model.StrHelpers
import ShroudVerif.Gen.StrStmts
import ShroudVerif.Model.BufSelect
/-
Line protocol for the string-helper model (engine E-strhelpers, property C10).
A buffer is written as its byte values joined by ',' ("-" for an empty
buffer, "N" for a NULL pointer); 256 stands for a byte of fresh `malloc`
memory that was never written.
-/
namespace Driver.StrH
open Shroud.Str

def decBuf (s : String) : Buf :=
  if s == "-" then [] else (s.splitOn ",").map (fun t => t.toNat!)

def decPtr (s : String) : Option Buf :=
  if s == "N" then none else some (decBuf s)

def encBuf (b : Buf) : String :=
  if b.isEmpty then "-" else ",".intercalate (b.map toString)

def encBufs (bs : List Buf) : String :=
  if bs.isEmpty then "~" else ";".intercalate (bs.map encBuf)

def showBuf : Res Buf → String
  | .ok b => "ok " ++ encBuf b
  | .oob => "oob"

open Shroud.StrStmts in
/-- flow name -> (entry, descriptor?, cxx_var is c_var?, kind); mirrors FLOWS in tools/props/c10.py -/
def flowTable : List (String × Entry × Bool × Bool × String) := [
  ("char_in_buf", Gen.c_char_ptr_in_buf, false, false, "in"),
  ("char_out_buf", Gen.c_char_ptr_out_buf, false, true, "out"),
  ("char_inout_buf", Gen.c_char_ptr_inout_buf, false, false, "inout"),
  ("char_result_buf", Gen.c_char_ptr_result_buf, false, false, "result"),
  ("char_scalar_result_buf", Gen.c_char_scalar_result_buf, false, false, "cscalar"),
  ("string_in_buf", Gen.c_string_ref_in_buf, false, false, "sin"),
  ("string_ptr_in_buf", Gen.c_string_ptr_in_buf, false, false, "sin"),
  ("string_scalar_in_buf", Gen.c_string_scalar_in_buf, false, false, "sin"),
  ("string_out_buf", Gen.c_string_ref_out_buf, false, false, "sout"),
  ("string_inout_buf", Gen.c_string_ref_inout_buf, false, false, "sinout"),
  ("string_ptr_inout_buf", Gen.c_string_ptr_inout_buf, false, false, "sinout"),
  ("string_result_buf", Gen.c_string_scalar_result_buf, false, false, "sresult"),
  ("char_in_cfi", Gen.c_char_ptr_in_cfi, true, false, "in"),
  ("char_out_cfi", Gen.c_char_ptr_out_cfi, true, false, "out"),
  ("char_inout_cfi", Gen.c_char_ptr_inout_cfi, true, false, "inout"),
  ("char_result_cfi", Gen.c_char_ptr_result_cfi, true, false, "result"),
  ("char_scalar_result_cfi", Gen.c_char_scalar_result_cfi, true, false, "cscalar"),
  ("string_in_cfi", Gen.c_string_ref_in_cfi, true, false, "sin"),
  ("string_scalar_in_cfi", Gen.c_string_scalar_in_cfi, true, false, "sin"),
  ("string_out_cfi", Gen.c_string_ref_out_cfi, true, false, "sout"),
  ("string_inout_cfi", Gen.c_string_ref_inout_cfi, true, false, "sinout"),
  ("string_result_cfi", Gen.c_string_scalar_result_cfi, true, false, "sresult")]

open Shroud.StrStmts in
def libOf (kind : String) (s : String) : Option Lib :=
  match kind with
  | "in" => some .charIn
  | "out" => some (.charOut (decBuf s))
  | "inout" => some (.charInout (decBuf s))
  | "result" => some (.charResult (decPtr s))
  | "cscalar" => some (.charScalar s.toNat!)
  | "sin" => some .strIn
  | "sout" => some (.strOut (decBuf s))
  | "sinout" => some (.strInout (decBuf s))
  | "sresult" => some (.strResult (decBuf s))
  | _ => none

def encOpt : Option (List Nat) → String
  | none => "none"
  | some b => encBuf b

open Shroud.StrStmts in
def showFlow : Res Out → String
  | .ok o =>
    if o.live != 0 then "oob" else
    "ok seen=" ++ (match o.seenArr with
      | some a => encBufs a
      | none => encOpt o.seen) ++ " f=" ++ encBuf o.f
  | .oob => "oob"

open Shroud.StrStmts in
def handleFlow : List String → String
  | ["flow", name, t, s] =>
    match flowTable.find? (fun r => r.1 == name) with
    | some (_, e, cfi, aliasF, kind) =>
      match libOf kind s with
      | some l => showFlow (flow e cfi aliasF (decBuf t) l)
      | none => "bad-op"
    | none => "bad-op"
  | ["aflow", name, s] =>
    let r : Option (Res Out) :=
      match name with
      | "char_result_cfi_allocatable" =>
        some (flowAlloc Gen.c_char_ptr_result_cfi_allocatable none true (.charResult (decPtr s)))
      | "string_result_cfi_allocatable" =>
        some (flowAlloc Gen.c_string_ptr_result_cfi_allocatable none true (.strResult (decBuf s)))
      | "string_scalar_result_cfi_allocatable" =>
        some (flowAlloc Gen.c_string_scalar_result_cfi_allocatable none true (.strResult (decBuf s)))
      | "char_result_buf_allocatable" =>
        some (flowAlloc Gen.c_char_ptr_result_buf_allocatable (some Gen.f_char_ptr_result_buf_allocatable) false
          (.charResult (decPtr s)))
      | "string_result_buf_allocatable" =>
        some (flowAlloc Gen.c_string_ptr_result_buf_allocatable (some Gen.f_string_ptr_result_buf_allocatable) false
          (.strResult (decBuf s)))
      | _ => none
    match r with
    | some (.ok o) =>
      if name.endsWith "cfi_allocatable" && !o.alloc then "ok f=unallocated" else "ok f=" ++ encBuf o.f
    | some .oob => "oob"
    | none => "bad-op"
  | ["oflow", "string_scalar_result_buf_allocatable", s] =>
    -- C entry (new std::string ; ShroudStrToArray), then allocate + the helper body in its generated order, owned
    let e := Gen.c_string_scalar_result_buf_allocatable
    match (call (.strResult (decBuf s)) (init e false false [] 1 0)).bind fun st => (run e.pre st).bind (run e.post) with
    | .ok st =>
      match copyStringRun Gen.copyStringSteps st.ctxp true st.ctxlen (List.replicate st.ctxlen UNINIT) st.ctxlen with
      | .ok (b, 1) => "ok f=" ++ encBuf b
      | _ => "oob"
    | .oob => "oob"
  | ["wflow", name, t, s] =>
    -- a whole generated C wrapper with a user `final:` release, groups in the regenerated order
    let r : Option (Entry × Lib) :=
      match name with
      | "string_ptr_result_final" => some (Gen.c_string_ptr_result_buf, .strResult (decBuf s))
      | "char_ptr_result_final" => some (Gen.c_char_ptr_result_buf, .charResult (decPtr s))
      | _ => none
    match r with
    | some (e, l) =>
      match flowWith Gen.wrapOrder e [.userRelease] false false (decBuf t) l with
      | .ok (o, 1) => showFlow (.ok o)
      | _ => "oob"
    | none => "bad-op"
  | ["vflow", name, t, size, len, outs] =>
    let v : List (List Nat) := if outs == "~" then [] else (outs.splitOn ";").map decBuf
    let r : Option (Entry × Lib) :=
      match name with
      | "vector_string_in_buf" => some (Gen.c_vector_in_buf_string, .vecIn)
      | "vector_string_out_buf" => some (Gen.c_vector_out_buf_string, .vecOut v)
      | "vector_string_inout_buf" => some (Gen.c_vector_inout_buf_string, .vecInout v)
      | "char_pp_in_buf" => some (Gen.c_char_pp_in_buf, .arrIn)
      | _ => none
    match r with
    | some (e, l) => showFlow (flowArr e false false (decBuf t) size.toNat! len.toNat! l)
    | none => "bad-op"
  | _ => "bad-op"

namespace Sel
open Shroud.BufSelect

def sg : Nat → SGroup | 0 => .string | 1 => .char | 2 => .vector | 3 => .native | _ => .other
def ist : Nat → IStmt | 0 => .scalar | 1 => .ptr | 2 => .ref | 3 => .pp | 4 => .pref | _ => .other
def itn : Nat → Intent | 0 => .in_ | 1 => .out | 2 => .inout | _ => .none
def drf : Nat → Deref | 0 => .none | 1 => .raw | 2 => .allocatable | 3 => .pointer | _ => .other

def nums (s : String) : List Nat := (s.splitOn ",").map (fun t => t.toNat!)

def argOf (s : String) : Option ArgFact :=
  match nums s with
  | [a, b, c, d, e, f] => some ⟨sg a, b != 0, c, ist d, itn e, f != 0⟩
  | _ => none

def resOf (s : String) : Option ResFact :=
  match nums s with
  | [a, b, c, d, e] => some ⟨sg a, b != 0, c, drf d, e != 0⟩
  | _ => none

/-- `bufsel <F_CFI> <result facts> <argument facts>*` -> clone kind and the ftrim_char_in flags -/
def handle (cfi : String) (res : String) (args : List String) : String :=
  match resOf res, args.mapM argOf with
  | some r, some as =>
    let c := cfi == "1"
    let k := match clone c r as with | .none => "none" | .buf => "buf" | .cfi => "cfi"
    let bits := String.mk (as.map fun a => if ftrimCharIn c a then '1' else '0')
    "ok " ++ k ++ " " ++ (if bits.isEmpty then "-" else bits)
  | _, _ => "bad-op"
end Sel

/-- the helper must leave the variable AND release exactly once -/
def showRun : Res (Buf × Nat) → String
  | .ok (b, 1) => "ok " ++ encBuf b
  | _ => "oob"

def handle : List String → String
  | ["lentrim", src, nsrc] =>
    match lenTrim (decBuf src) nsrc.toNat! with
    | .ok k => "ok " ++ toString k
    | .oob => "oob"
  | ["strcopy", dest, ndest, src, nsrc] =>
    showBuf (strCopy (decBuf dest) ndest.toNat! (decPtr src) nsrc.toInt!)
  | ["blankfill", dest, ndest] =>
    showBuf (strBlankFill (decBuf dest) ndest.toNat!)
  | ["stralloc", src, nsrc, ntrim] =>
    match strAlloc (decBuf src) nsrc.toNat! ntrim.toInt! with
    | .ok rv => "ok " ++ encBuf rv ++ " live=" ++ toString (strFree rv).length
    | .oob => "oob"
  | ["strarray", src, nsrc, len] =>
    match strArrayAlloc (decBuf src) nsrc.toNat! len.toNat! with
    | .ok arr =>
      match strArrayFree arr nsrc.toNat! with
      | .ok live => "ok " ++ encBufs arr ++ " live=" ++ toString live.length
      | .oob => "oob"
    | .oob => "oob"
  | ["strtoarray", s] =>
    match strToArray (decBuf s) with
    | (none, n) => "ok null " ++ toString n
    | (some _, n) => "ok ptr " ++ toString n
  | ["copystr", cxx, elemLen, cvar, cvarLen] =>
    -- library-owned text (destructor index 0): the release is a no-op
    showRun (copyStringRun Shroud.StrStmts.Gen.copyStringSteps (decPtr cxx) false elemLen.toNat! (decBuf cvar) cvarLen.toNat!)
  | ["copystro", cxx, elemLen, cvar, cvarLen] =>
    -- text owned by the wrapper: the release frees the storage `cxx` lives in
    showRun (copyStringRun Shroud.StrStmts.Gen.copyStringSteps (decPtr cxx) true elemLen.toNat! (decBuf cvar) cvarLen.toNat!)
  | ["allocstring", s] =>
    -- std::string returned by value: `new std::string`, owned by the capsule
    let ctx := strToArray (decBuf s)
    showRun (copyStringRun Shroud.StrStmts.Gen.copyStringSteps ctx.1 true ctx.2 (List.replicate ctx.2 UNINIT) ctx.2)
  | ["allocchar", cxx] =>
    match charResultCtx (decPtr cxx) with
    | .ok ctx => showRun (copyStringRun Shroud.StrStmts.Gen.copyStringSteps ctx.1 false ctx.2 (List.replicate ctx.2 UNINIT) ctx.2)
    | .oob => "oob"
  | ["charscalar", dest, len, c] =>
    showBuf (charScalarResult (decBuf dest) len.toNat! c.toNat!)
  | "bufsel" :: cfi :: res :: args => Sel.handle cfi res args
  | ["ftrim", t] => "ok " ++ encBuf (ftrimCharIn (decBuf t))
  | l => handleFlow l

end Driver.StrH
