import ShroudVerif.Model.Capsule
import Driver.Codec
namespace Driver
open Shroud.Capsule

def natList (l : List Nat) : String := if l.isEmpty then "-" else ",".intercalate (l.map toString)

/-- `reg <n1,n2,...>`: `add_capsule_code` on the initial table (slot 0 = name 0) for the given name
    ids, the lines of request k are the number k+1.  Answer: returned indices, `capsule_order`,
    and for every `case i` the request whose lines it holds (0 = "nothing"). -/
def handleReg : List String → String
  | [ns] =>
    let names := if ns == "-" then [] else (ns.splitOn ",").map String.toNat!
    let t0 : Table Nat Nat := Table.init 0 0
    let (t, rets, _) := names.foldl (fun (acc : Table Nat Nat × List Nat × Nat) n =>
        let (t, rets, k) := acc
        let r := addCapsuleCode t n (k + 1)
        (r.1, rets ++ [r.2], k + 1)) (t0, [], 0)
    let bodies := (switchCases t).map (fun (_, _, b) => b.getD 999999)
    s!"{natList rets} {natList t.order} {natList bodies}"
  | _ => "bad-op"

def decDtor (s : String) : Dtor :=
  match s.toList with
  | 'd' :: r => .del (String.ofList r).toNat!
  | 'f' :: _ => .free
  | 'p' :: r => .pattern (String.ofList r).toNat!
  | _ => .nothing

def encDtor : Dtor → String
  | .nothing => "n"
  | .del t => s!"d{t}"
  | .free => "f"
  | .pattern p => s!"p{p}"

def decOwner (s : String) : Option Owner :=
  if s == "c" then some .caller else if s == "l" then some .library else none

def decOptNat (s : String) : Option Nat := if s == "-" then none else some s.toNat!

/-- generator events: `C:tm:nm:ty:hasDtor` (compute_idtor) and
    `F:dn:stmtDtor:ownerAttr:stmtOwner:isPtr:fpName:fpId:tm:nm:ty:c2c` (find_idtor) -/
def genEvent (w : World Nat) (ev : String) : World Nat × String :=
  match ev.splitOn ":" with
  | ["C", tm, nm, ty, hd] =>
    let w' := computeIdtor w tm.toNat! nm.toNat! ty.toNat! (hd == "1")
    (w', toString (w'.cache tm.toNat!))
  | ["F", dn, sd, oa, so, ip, fpn, fpi, tm, nm, ty, c2c] =>
    let x : FindIn Nat := {
      destructorName := decOptNat dn, stmtDtor := decDtor sd, ownerAttr := decOwner oa,
      stmtOwner := decOwner so, isPointer := ip == "1",
      freePattern := (decOptNat fpn).map (fun n => (n, fpi.toNat!)),
      tm := tm.toNat!, nm := nm.toNat!, ty := ty.toNat!, cxxToC := c2c == "1" }
    let r := findIdtor w x
    (r.1, toString r.2)
  | _ => (w, "bad-event")

def handleGen (args : List String) : String :=
  let w0 : World Nat := ⟨Table.init 0 .nothing, fun _ => 0⟩
  let (w, outs) := args.foldl (fun (acc : World Nat × List String) ev =>
      let r := genEvent acc.1 ev
      (r.1, acc.2 ++ [r.2])) (w0, [])
  let bodies := (switchCases w.tbl).map (fun (_, _, b) => encDtor (b.getD .nothing))
  let o := if outs.isEmpty then "-" else ",".intercalate outs
  s!"{o} {natList w.tbl.order} {",".intercalate bodies}"

def decKind (s : String) : Kind :=
  match s.toList with
  | 'c' :: r => .cxx (String.ofList r).toNat!
  | 'q' :: r => .pat (String.ofList r).toNat!
  | _ => .pod

def decOp (s : String) : Option Op :=
  match s.toList with
  | c :: rest =>
    let a := (String.ofList rest).splitOn "."
    match c, a with
    | 'C', [h, ty, i] => some (.construct h.toNat! ty.toNat! i.toNat!)
    | 'M', [h] => some (.method h.toNat!)
    | 'K', [s, d] => some (.copy s.toNat! d.toNat!)
    | 'D', [h, ty] => some (.delete h.toNat! ty.toNat!)
    | 'R', [h] => some (.release h.toNat!)
    | 'O', [h, k, i] => some (.owned h.toNat! (decKind k) i.toNat!)
    | 'B', [h, k] => some (.borrowed h.toNat! (decKind k))
    | 'T', [k, i] => some (.temp (decKind k) i.toNat!)
    | _, _ => none
  | [] => none

/-- `hist <dtor,dtor,...> <op> <op> ...`: after every op the number of live caller-owned and
    library-owned objects; at the end the largest free count, uaf, mismatch -/
def handleHist : List String → String
  | tb :: ops =>
    let tbl := (tb.splitOn ",").map decDtor
    let count (s : St) (lib : Bool) : Nat :=
      ((List.range s.next).filter (fun a => a ≠ 0 ∧ (s.heap a).frees = 0 ∧ (s.heap a).lib = lib)).length
    let (s, trace, bad) := ops.foldl (fun (acc : St × List String × Bool) o =>
        match decOp o with
        | none => (acc.1, acc.2.1, true)
        | some op =>
          let s' := step tbl acc.1 op
          (s', acc.2.1 ++ [s!"{count s' false}/{count s' true}"], acc.2.2)) (St.init, [], false)
    if bad then "bad-op" else
    let mx := (List.range s.next).foldl (fun m a => max m (s.heap a).frees) 0
    let t := if trace.isEmpty then "-" else ",".intercalate trace
    s!"{t} maxfrees={mx} uaf={s.uaf} mismatch={s.mismatch}"
  | _ => "bad-op"

/-- `ca <destSize> <srcSize> <elemLen>`: bytes copied by ShroudCopyArray, or `ub` -/
def handleCa : List String → String
  | [m, n, e] =>
    let (m, n, e) := (m.toNat!, n.toNat!, e.toNat!)
    match copyArray (List.replicate (m * e) 0) (List.replicate (n * e) 1) m n e with
    | some _ => toString (copyCount m n e)
    | none => "ub"
  | _ => "bad-op"

end Driver
