import Driver.Flags
open Driver

def dispatchFlags (line : String) : String :=
  match (line.trimAscii.toString.splitOn " ") with
  | "promote" :: args => handlePromote args
  | "wf" :: args => handleWf args
  | "dclone" :: args => handleDclone args
  | "run" :: args => handleRun args
  | "init" :: args => handleInit args
  | "step" :: args => handleStep args
  | "groups" :: args => handleGroups args
  | _ => "bad-op"

partial def loopFlags (h : IO.FS.Stream) (out : IO.FS.Stream) : IO Unit := do
  let line ← h.getLine
  if line.isEmpty then return ()
  out.putStrLn (dispatchFlags line)
  loopFlags h out

def main : IO Unit := do
  let out ← IO.getStdout
  loopFlags (← IO.getStdin) out
  out.flush
