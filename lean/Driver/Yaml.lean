import ShroudVerif.Model.YamlShape
import Driver.Codec
/-!
`yshape <value>`: the shape layer of `create_library_from_dictionary` on a YAML value given in
preorder: `n` | `b0` | `b1` | `i:<int>` | `r:<0|1>` | `s:<text>` | `l:<count> item*` | `m:<count> (key value)*`.
-/
namespace Driver
open Shroud.Yaml

mutual
def decY : Nat → List String → Option (YVal × List String)
  | 0, _ => none
  | f+1, t :: rest =>
    if t == "n" then some (.null, rest)
    else if t == "b0" then some (.bool false, rest)
    else if t == "b1" then some (.bool true, rest)
    else match t.splitOn ":" with
      | ["i", n] => some (.int n.toInt!, rest)
      | ["r", z] => some (.real (z == "1"), rest)
      | ["s", x] => some (.str (decStr x), rest)
      | ["l", n] => (decYList f n.toNat! rest).map (fun (l, r) => (.list l, r))
      | ["m", n] => (decYMap f n.toNat! rest).map (fun (kv, r) => (.map kv.1 kv.2, r))
      | _ => none
  | _, [] => none
def decYList : Nat → Nat → List String → Option (List YVal × List String)
  | 0, _, _ => none
  | _, 0, r => some ([], r)
  | f+1, k+1, r =>
    match decY f r with
    | some (v, r1) => (decYList f k r1).map (fun (l, r2) => (v :: l, r2))
    | none => none
def decYMap : Nat → Nat → List String → Option ((List (List Char) × List YVal) × List String)
  | 0, _, _ => none
  | _, 0, r => some (([], []), r)
  | f+1, k+1, key :: r =>
    match decY f r with
    | some (v, r1) => (decYMap f k r1).map (fun (kv, r2) => ((decStr key :: kv.1, v :: kv.2), r2))
    | none => none
  | _, _, [] => none
end

def handleYshape (args : List String) : String :=
  let a := args.filter (· ≠ "")
  match decY (a.length + 2) a with
  | some (v, _) =>
    match createLibrary v with
    | .ok _ => "ok"
    | .reject i => "reject " ++ i
    | .crash e => "crash " ++ e
  | none => "bad-value"

end Driver
