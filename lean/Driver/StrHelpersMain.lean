import Driver.StrHelpers
open Driver.StrH

partial def loop (h : IO.FS.Stream) (out : IO.FS.Stream) : IO Unit := do
  let line ← h.getLine
  if line.isEmpty then return ()
  out.putStrLn (handle (line.trimAscii.toString.splitOn " "))
  loop h out

def main : IO Unit := do
  let out ← IO.getStdout
  loop (← IO.getStdin) out
  out.flush
