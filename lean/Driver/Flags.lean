import ShroudVerif.Model.Flags
import ShroudVerif.Model.FlagGroups
import Driver.Codec
namespace Driver
open Shroud.Flags

def decWF (s : String) : WF :=
  match s.toList.map (· == '1') with
  | [a, b, c, d, e] => ⟨a, b, c, d, e⟩
  | _ => ⟨false, false, false, false, false⟩

def b2c (b : Bool) : Char := if b then '1' else '0'
def encWF (w : WF) : String := String.ofList [b2c w.fortran, b2c w.c_f, b2c w.c, b2c w.lua, b2c w.python]

/-- tokens: `L<bits>` leaf, `(<bits>` open container, `)` close.  Returns (nodes, rest). -/
def parseNodes : Nat → List String → List Node × List String
  | 0, ts => ([], ts)
  | _ + 1, [] => ([], [])
  | fuel + 1, t :: ts =>
    if t == ")" then ([], ts)
    else if t.startsWith "L" then
      let (sibs, rest) := parseNodes fuel ts
      (Node.leaf (decWF (t.drop 1).toString) :: sibs, rest)
    else if t.startsWith "(" then
      let (kids, rest) := parseNodes fuel ts
      let (sibs, rest2) := parseNodes fuel rest
      (Node.cont (decWF (t.drop 1).toString) kids :: sibs, rest2)
    else ([], ts)

mutual
def flagsPre : Node → List String
  | .leaf w => [encWF w]
  | .cont w ks => encWF w :: flagsPreList ks
def flagsPreList : List Node → List String
  | [] => []
  | k :: ks => flagsPre k ++ flagsPreList ks
end

/-- `promote <tokens...>` -> flags of the promoted tree in preorder -/
def handlePromote (ts : List String) : String :=
  match (parseNodes (ts.length + 1) ts).1 with
  | [n] => " ".intercalate (flagsPre (promote n))
  | _ => "bad-op"

def applyOp (w : WF) (op : String) : WF :=
  if op == "clear" then w.clear
  else if op.startsWith "assign:" then
    let v := decWF (op.drop 7).toString
    w.assign v.fortran v.c_f v.c v.lua v.python
  else if op.startsWith "acc:" then w.accumulate (decWF (op.drop 4).toString)
  else w

/-- `wf <wrap_fortran wrap_c wrap_lua wrap_python as 4 bits> ops...` -/
def handleWf : List String → String
  | init :: ops =>
    match init.toList.map (· == '1') with
    | [f, c, l, p] => encWF (ops.foldl applyOp (WF.init f c l p))
    | _ => "bad-op"
  | _ => "bad-op"

/-- `dclone <bits> <n>` -/
def handleDclone : List String → String
  | [w, n] => " ".intercalate ((defaultClones (decWF w) n.toNat!).map encWF)
  | _ => "bad-op"

/-- `run <bits>` -> emitter sequence -/
def handleRun : List String → String
  | [w] => " ".intercalate ((driverRun (decWF w)).map (fun e => match e with
      | .wrapc => "wrapc" | .wrapf => "wrapf" | .util => "util" | .wrapp => "wrapp" | .wrapl => "wrapl"))
  | _ => "bad-op"

def decOpt (c : Char) : Option Bool := if c == '1' then some true else if c == '0' then some false else none

/-- one options block: 4 chars over `0 1 -` in the order fortran c lua python -/
def decBlock (s : String) : WrapOpts :=
  match s.toList.map decOpt with
  | [f, c, l, p] => ⟨f, c, l, p⟩
  | _ => ⟨none, none, none, none⟩

/-- `init <block innermost> ... <block outermost>` -> flags of `WrapFlags(options)` -/
def handleInit (bs : List String) : String := encWF (initFlags (bs.map decBlock))

def decKind (s : String) : Option CloneKind :=
  if s == "cxx_template" then some .cxxTemplate
  else if s == "has_default_arg" then some .defaultArg
  else if s == "return_this" then some .returnThis
  else if s == "arg_to_cfi" then some .argToCfi
  else if s == "arg_to_buffer" then some .argToBuffer
  else if s == "fortran_generic" then some .fortranGeneric
  else none

/-- `step <kind> <nclones> <fires resultByValue vectorArg resultAsArg as 4 bits> <newC bits or -> <d> <node>`
    -> node flags afterwards followed by the clones' flags -/
def handleStep : List String → String
  | [k, n, facts, newc, d, node] =>
    match decKind k, facts.toList.map (· == '1') with
    | some kind, [fires, rbv, vec, raa] =>
      let v : Variant := ⟨n.toNat!, fires, rbv, vec, raa, if newc == "-" then [] else newc.toList.map (· == '1')⟩
      let r := step kind v (decWF d) (decWF node)
      " ".intercalate (encWF r.1 :: r.2.map encWF)
    | _, _ => "bad-op"
  | _ => "bad-op"

/-- function tokens `name:on:gen` (decimal name id, bits); `idx` = position -/
def decFns (ts : List String) : List Fn :=
  (ts.zipIdx).map (fun (t, i) =>
    match t.splitOn ":" with
    | [n, o, g] => ⟨n.toNat!, o == "1", g == "1", i⟩
    | _ => ⟨0, false, false, i⟩)

def encIdxs (ms : List Fn) : String := ",".intercalate (ms.map (fun f => toString f.idx))

def encGroups (g : Groups) : String :=
  if g.isEmpty then "-" else ";".intercalate (g.map (fun (n, ms) => toString n ++ "=" ++ encIdxs ms))

/-- `groups <lua|pytable|pydispatch|fgeneric|wrapped> <name:on:gen>...` -> the groups / wrapped functions by position -/
def handleGroups : List String → String
  | k :: ts =>
    let fs := decFns (ts.filter (· != ""))
    if k == "lua" then encGroups (luaGroups fs)
    else if k == "pytable" then encGroups (pyTable fs)
    else if k == "pydispatch" then encGroups (pyDispatch fs)
    else if k == "fgeneric" then encGroups (fGenerics fs)
    else if k == "wrapped" then (let w := wrapped fs; if w.isEmpty then "-" else encIdxs w)
    else "bad-op"
  | _ => "bad-op"

end Driver
