import ShroudVerif.Model.Enum
import Driver.Codec
/-
`enum <cpre> <fpre> <ename> <scoped 0|1> <member>*`
member  = `<name>` | `<name>=<tok>;<tok>;...`   (expression in prefix order)
tok     = `L:<str>` | `I:<str>` | `P` | `Up` | `Un` | `Ba` | `Bs` | `Bm` | `Bd`
answer  = `ok <wf 0|1> <cxx> <evalC> <evalF> <members>` with value lists `v,v,..`/`none`/`~`
members = `<cname>|<cvalue or ~>|<fname>|<fvalue>` joined by `;`
-/
namespace Driver
open Shroud.Enum

def decExprAux : Nat → List String → Option (Expr × List String)
  | 0, _ => none
  | _ + 1, [] => none
  | f + 1, t :: ts =>
    if t.startsWith "L:" then some (.lit (decStr (t.drop 2).toString), ts)
    else if t.startsWith "I:" then some (.id (decStr (t.drop 2).toString), ts)
    else if t == "P" then (decExprAux f ts).map (fun (e, r) => (.paren e, r))
    else if t == "Up" then (decExprAux f ts).map (fun (e, r) => (.un .pos e, r))
    else if t == "Un" then (decExprAux f ts).map (fun (e, r) => (.un .neg e, r))
    else
      let op? : Option Op :=
        if t == "Ba" then some .add else if t == "Bs" then some .sub
        else if t == "Bm" then some .mul else if t == "Bd" then some .div else none
      match op? with
      | none => none
      | some op =>
        match decExprAux f ts with
        | none => none
        | some (l, r1) =>
          match decExprAux f r1 with
          | none => none
          | some (r, r2) => some (.bin l op r, r2)

def decMember (s : String) : Option Member :=
  match s.splitOn "=" with
  | [n] => some (decStr n, none)
  | [n, e] =>
    let ts := e.splitOn ";"
    match decExprAux (ts.length + 1) ts with
    | some (x, []) => some (decStr n, some x)
    | _ => none
  | _ => none

def encVals : Option (List Int) → String
  | none => "none"
  | some [] => "~"
  | some vs => ",".intercalate (vs.map toString)

def encOut (o : Out) : String :=
  encStr o.cname ++ "|" ++ (match o.cvalue with | none => "~" | some t => encStr t) ++ "|" ++
    encStr o.fname ++ "|" ++ encStr o.fvalue

def handleEnum : List String → String
  | cpre :: fpre :: ename :: sc :: members =>
    match members.mapM decMember with
    | none => "bad-member"
    | some ms =>
      let c : Cfg := { cpre := decStr cpre, fpre := decStr fpre, ename := decStr ename, isScoped := sc == "1" }
      let os := enumMembers c ms
      let wf := ms.all (fun m => isIdent m.1 && (match m.2 with | none => true | some e => e.wf))
      "ok " ++ (if wf then "1" else "0") ++ " " ++ encVals (cxxEnum ms) ++ " " ++
        encVals (evalHeaderC [] 0 (header os)) ++ " " ++ encVals (evalModuleF [] (fmodule os)) ++ " " ++
        (if os.isEmpty then "~" else ";".intercalate (os.map encOut))
  | _ => "bad-op"

/-- `evc <text> (<name>:<int>)*` / `evf ...`: evaluate one emitted text in an environment -/
def decEnv (l : List String) : Env :=
  l.filterMap (fun s => match s.splitOn ":" with
    | [n, v] => some (decStr n, decInt v)
    | _ => none)

def encOI : Option Int → String
  | none => "none"
  | some v => toString v

def handleEvc : List String → String
  | t :: env => "ok " ++ encOI (evalTextC (decEnv env) (decStr t))
  | _ => "bad-op"
def handleEvf : List String → String
  | t :: env => "ok " ++ encOI (evalTextF (decEnv env) (decStr t))
  | _ => "bad-op"


/-- `block <cpre> <fpre> <ename> <scopeword> <nsscope> <inclass 0|1> <pytype> <flags c,f,py e.g. 111> <member>*`
    answer `ok <cblock> <fblock> <pyitems> <evalBlockC> <evalBlockF>`; blocks are line lists (`encStrs`) -/
def handleBlock : List String → String
  | cpre :: fpre :: ename :: sw :: nss :: ic :: pyt :: flags :: members =>
    match members.mapM decMember with
    | none => "bad-member"
    | some ms =>
      let sword := decStr sw
      let c : Cfg := { cpre := decStr cpre, fpre := decStr fpre, ename := decStr ename, isScoped := !sword.isEmpty }
      let fl (i : Nat) : Bool := flags.toList.getD i '1' == '1'
      let b : BlockCfg :=
        { cfg := c, nsScope := decStr nss, scopeWord := sword, inClass := ic == "1", pyType := decStr pyt,
          wrapC := fl 0, wrapF := fl 1, wrapPy := fl 2 }
      let os := enumMembers c ms
      let cb := cBlock b os
      let fb := fBlock b os
      "ok " ++ encStrs cb ++ " " ++ encStrs fb ++ " " ++ encStrs (pyItems b ms) ++ " " ++
        encVals (evalBlockC cb) ++ " " ++ encVals (evalBlockF fb)
  | _ => "bad-op"

/-- `evbc <line>*` / `evbf <line>*`: read back a block given as encoded lines -/
def handleEvbc (ls : List String) : String := "ok " ++ encVals (evalBlockC (ls.map decStr))
def handleEvbf (ls : List String) : String := "ok " ++ encVals (evalBlockF (ls.map decStr))

end Driver
