import Driver.WrapC
open Driver

def dispatchWrapC (line : String) : String :=
  match (line.trimAscii.toString.splitOn " ") with
  | "lookup" :: args => handleLookup args
  | "asm" :: args => handleAsm args
  | "asmx" :: args => handleAsmX args
  | "ovr" :: args => handleOvr args
  | _ => "bad-op"

partial def loopWrapC (h : IO.FS.Stream) (out : IO.FS.Stream) : IO Unit := do
  let line ← h.getLine
  if line.isEmpty then return ()
  out.putStrLn (dispatchWrapC line)
  loopWrapC h out

def main : IO Unit := do
  let out ← IO.getStdout
  loopWrapC (← IO.getStdin) out
  out.flush
