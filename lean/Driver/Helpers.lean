import ShroudVerif.Model.Helpers
import ShroudVerif.Model.FModule
import Driver.Codec
/-!
Line protocol for the C05 engine.

    gather <graph> <req>         graph: `k:d,d;k:;...` ("~" empty); req: `n,n,...` ("~" empty)
                                 -> `ok n,n,...` | `ok ~` | `keyerror n` | `fuel`
    headers <hdr...>             hdr = cxx typemapL shroud typemaps implField langC debug util
                                 lists `n,n` ("~" empty); typemaps `c|x|w|i|b;...` ("~" empty)
                                 -> line codes
    skel <which> <cxx> <cppIf> <dox> <hname> <nbody> <hdr...>   which: h i hu iu
-/
namespace Driver
open Shroud.Helpers

def decNats (s : String) : List Nat :=
  if s == "~" || s == "" then [] else (s.splitOn ",").map String.toNat!

def encNats (l : List Nat) : String :=
  if l.isEmpty then "~" else ",".intercalate (l.map toString)

def decGraph (s : String) : Graph :=
  if s == "~" then []
  else (s.splitOn ";").map fun e =>
    match e.splitOn ":" with
    | [k, ds] => (k.toNat!, decNats ds)
    | _ => (0, [])

def handleGather : List String → String
  | [g, r] =>
    match gatherHelperCode (decGraph g) (decNats r) with
    | .ok out => "ok " ++ encNats out
    | .keyError n => "keyerror " ++ toString n
    | .outOfFuel => "fuel"
  | _ => "bad-op"

/-- `shared <m1>|<m2>|...` (each a Nat list, "~" empty) -> sorted union without repetition -/
def handleShared : List String → String
  | [ms] =>
    let mods := (ms.splitOn "|").map decNats
    encNats ((sortNat (sharedHelpers mods)).eraseDups)
  | _ => "bad-op"

def decB (s : String) : Bool := s == "1"

def decTM (s : String) : TM :=
  match s.splitOn "|" with
  | [c, x, w, i, b] => ⟨decNats c, decNats x, decNats w, decNats i, decB b⟩
  | _ => ⟨[], [], [], [], false⟩

def decTMs (s : String) : List TM :=
  if s == "~" then [] else (s.splitOn ";").map decTM

def decHdr : List String → Option Hdr
  | [cx, tl, sh, tms, f, lc, dbg, u] =>
    some ⟨decNats cx, decNats tl, decNats sh, decTMs tms, decB f, decB lc, decB dbg, u.toNat!⟩
  | _ => none

def encLine : HLine → String
  | .blank => "B"
  | .comment c => "C" ++ toString c
  | .incl h => "I" ++ toString h
  | .ifOpen k => "O" ++ toString k
  | .elseL => "E"
  | .endif => "N"
  | .define => "D"
  | .externOpen => "X"
  | .externClose => "Y"
  | .body k => "b" ++ toString k

def encLines (l : List HLine) : String :=
  if l.isEmpty then "~" else " ".intercalate (l.map encLine)

def handleHeaders (args : List String) : String :=
  match decHdr args with
  | some h => encLines (writeHeaders h)
  | none => "bad-op"

def handleSkel : List String → String
  | which :: cxx :: cppIf :: dox :: hn :: nb :: rest =>
    match decHdr rest with
    | some h =>
      let s : Sk := ⟨decB cxx, decB cppIf, decB dox, decB hn, nb.toNat!⟩
      if which == "h" then encLines (writeHeaderSk s h)
      else if which == "i" then encLines (writeImplSk s h)
      else if which == "hu" then encLines (writeHeaderUtilitySk s h)
      else if which == "iu" then encLines (writeImplUtilitySk s h)
      else "bad-op"
    | none => "bad-op"
  | _ => "bad-op"

/-- `fmod <imp> <self> <upd>...`; upd = `d=<graph>` (update_f_module) or `l=<graph>` (update_f_module_line);
    -> `m=*|m=s,s|... # imports` -/
def handleFmod : List String → String
  | imp :: self :: upds =>
    let us : List Shroud.FModule.Upd := upds.map fun u =>
      if u.startsWith "d=" then .dict (decGraph (u.drop 2).toString) else .line (decGraph (u.drop 2).toString)
    let st := Shroud.FModule.runUpds imp.toNat! ⟨[], []⟩ us
    let r := Shroud.FModule.sortModuleInfo st self.toNat!
    let lines := r.1.map fun e => toString e.1 ++ "=" ++ (match e.2 with | none => "*" | some ss => encNats ss)
    (if lines.isEmpty then "~" else "|".intercalate lines) ++ " # " ++ encNats (Shroud.Helpers.sortNat r.2)
  | _ => "bad-op"

end Driver
