import ShroudVerif.Model.Decl
import ShroudVerif.Model.CxxMeaning
import ShroudVerif.Model.Lexer
import ShroudVerif.Model.Rewrite
import ShroudVerif.Gen.DeclTables
import Driver.Codec
/-!
Line protocol of `drv_decl`.

  tok   <token>*      -> reclassified kind names
  parse <token>*      -> outcome of `check_decl`, canonical structure and the five renderings

`<token>` is `KIND:val[:num]` with `val`/`num` code-point encoded (Codec); KIND is
the regex group name of `token_specification` (before keyword reclassification).
-/
namespace Driver
open Shroud.Decl

def decTok (s : String) : Token :=
  match s.splitOn ":" with
  | [k, v] => { typ := (Kind.ofName k).getD .OTHER, val := decStr v }
  | [k, v, n] => { typ := (Kind.ofName k).getD .OTHER, val := decStr v, num := decStr n }
  | _ => { typ := .OTHER, val := [] }

def b01 (b : Bool) : String := if b then "1" else "0"
def lst (xs : List String) : String := "[" ++ ",".intercalate xs ++ "]"

mutual
def serSpec : Spec → String
  | .mk sp st c v targs tm =>
    "S(" ++ encStrs sp ++ "|" ++ encStrs st ++ "|" ++ b01 c ++ "|" ++ b01 v ++ "|" ++ encStr tm ++ "|"
      ++ lst (serSpecs targs) ++ ")"
def serSpecs : List Spec → List String
  | [] => []
  | a :: t => serSpec a :: serSpecs t
end

def serPtr (p : Ptr) : String :=
  "P(" ++ (match p.kind with | .star => "*" | .ref => "&") ++ "," ++ b01 p.const ++ "," ++ b01 p.volatile ++ ")"

def serDeclarator : Declarator → String
  | .leaf ps n => "L(" ++ lst (ps.map serPtr) ++ "," ++ (match n with | some x => encStr x | none => "~") ++ ")"
  | .wrap ps i => "W(" ++ lst (ps.map serPtr) ++ "," ++ serDeclarator i ++ ")"

mutual
def serExpr : Expr → String
  | .ident n => "I(" ++ encStr n ++ ")"
  | .call n args => "C(" ++ encStr n ++ "," ++ lst (serExprs args) ++ ")"
  | .const v => "K(" ++ encStr v ++ ")"
  | .paren e => "R(" ++ serExpr e ++ ")"
  | .unary op e => "U(" ++ encStr op ++ "," ++ serExpr e ++ ")"
  | .binary l op r => "B(" ++ serExpr l ++ "," ++ encStr op ++ "," ++ serExpr r ++ ")"
def serExprs : List Expr → List String
  | [] => []
  | a :: t => serExpr a :: serExprs t
end

def serInit : Init → String
  | .real p => "r:" ++ encStr p
  | .int p => "i:" ++ encStr p
  | .str v => "s:" ++ encStr v

def serAttr : Str × AttrVal → String
  | (k, .flag) => encStr k ++ "=F"
  | (k, .text parts) => encStr k ++ "=s:" ++ encStr (parts.map (·.val)).flatten
  | (k, .init v) => encStr k ++ "=" ++ serInit v

mutual
def serDecl : Decl → String
  | .mk s dr params fc arr attrs init =>
    "D(" ++ serSpec s ++ ";" ++ (match dr with | some d => serDeclarator d | none => "~") ++ ";"
      ++ (match params with | some ps => lst (serDecls ps) | none => "~") ++ ";" ++ b01 fc ++ ";"
      ++ lst (arr.map serExpr) ++ ";" ++ lst (attrs.map serAttr) ++ ";"
      ++ (match init with | some v => serInit v | none => "~") ++ ")"
def serDecls : List Decl → List String
  | [] => []
  | a :: t => serDecl a :: serDecls t
end

def optTxt : Option Str → String
  | some s => encStr s
  | none => "!TypeError"

def serToks (ts : Toks) : String :=
  if ts.isEmpty then "~" else " ".intercalate (ts.map (fun t => t.typ.name ++ ":" ++ encStr t.val))

def optToks : Option Toks → String
  | some ts => serToks ts
  | none => "!TypeError"

def env : Env := Shroud.Gen.DeclTables.defaultEnv

def handleTok (args : List String) : String :=
  " ".intercalate (args.map (fun a => (reclass (decTok a)).typ.name))

def nenv : Env := Shroud.Gen.DeclTables.nestedEnv

def handleParseE (env : Env) (args : List String) : String :=
  let ts := (args.filter (· ≠ "")).map (fun a => reclass (decTok a))
  match parse env ts with
  | .ok d => "ok " ++ serDecl d ++ " " ++ encStr (genDecl d) ++ " " ++ optTxt (genArg env false d) ++ " "
      ++ optTxt (genArg env true d) ++ " " ++ optTxt (asCast env d) ++ " " ++ encStr (declStr d)
  | .reject m => "reject " ++ encStr m.toList
  | .crash e => "crash " ++ e
  | .fuel => "fuel"
  | .unmodelled w => "unmodelled " ++ w

def fmtParse (env : Env) (r : Res Decl) : String :=
  match r with
  | .ok d => "ok " ++ serDecl d ++ " " ++ encStr (genDecl d) ++ " " ++ optTxt (genArg env false d) ++ " "
      ++ optTxt (genArg env true d) ++ " " ++ optTxt (asCast env d) ++ " " ++ encStr (declStr d)
  | .reject m => "reject " ++ encStr m.toList
  | .crash e => "crash " ++ e
  | .fuel => "fuel"
  | .unmodelled w => "unmodelled " ++ w

/-- `lex <string>` -> the tokens of the character-level tokenizer model -/
def handleLex (args : List String) : String :=
  match args.filter (· ≠ "") with
  | [s] =>
    match Shroud.Lexer.tokenize (decStr s) with
    | .ok ts => "ok " ++ serToks ts
    | .reject m => "reject " ++ encStr m.toList
    | _ => "other"
  | _ => "bad-op"

/-- `parsestr <string>` -> `check_decl` on the string: tokenizer model composed with the parser model -/
def handleParseStr (args : List String) : String :=
  match args.filter (· ≠ "") with
  | [s] => fmtParse env (Shroud.Lexer.checkDecl env (decStr s))
  | _ => "bad-op"

/-- `rewrite <op> <enc arg> <token>*` -> the parsed declaration after the AST-rewriting operation
    (`void` = set_return_to_void, `asarg` = _as_arg(arg), `result` = result_as_arg(arg),
    `settype` = set_type(typemap named arg)), in the format of `parse` -/
def handleRewrite (args : List String) : String :=
  match args.filter (· ≠ "") with
  | op :: a :: toks =>
    let ts := toks.map (fun a => reclass (decTok a))
    match parse env ts with
    | .ok d =>
      let arg := decStr a
      (match op with
       | "void" => fmtParse env d.setReturnToVoid
       | "asarg" => fmtParse env (d.asArg arg)
       | "result" => fmtParse env (d.resultAsArg arg)
       | "settype" => fmtParse env (d.setType env arg)
       | _ => "bad-op")
    | _ => "not-ok"
  | _ => "bad-op"

def handleParse (args : List String) : String := handleParseE env args
/-- `parse2`: the same in the nested-namespace environment -/
def handleParse2 (args : List String) : String := handleParseE nenv args


/-- `toks <token>*` -> token-level renderings of the parsed declaration:
    `ok <gen_decl toks> | <gen_arg_as_cxx toks> | <gen_arg_as_c toks>` -/
def handleToks (args : List String) : String :=
  let ts := (args.filter (· ≠ "")).map (fun a => reclass (decTok a))
  match parse env ts with
  | .ok d => "ok " ++ serToks d.toks ++ " | " ++ optToks (d.argToks env false) ++ " | " ++ optToks (d.argToks env true)
  | _ => "not-ok"

/-- `kw <token>*` -> the renderings `gen_arg_as_cxx(**kw)` / `gen_arg_as_c(**kw)` of the parsed declaration for every
    keyword combination of `kwCombos` (C++ renderings first, then the C ones) -/
def handleKw (args : List String) : String :=
  let ts := (args.filter (· ≠ "")).map (fun a => reclass (decTok a))
  match parse env ts with
  | .ok d =>
    "ok " ++ " ".intercalate ((kwCombos.map (fun c => optTxt (genArgK env false c.2 d)))
      ++ (kwCombos.map (fun c => optTxt (genArgK env true c.2 d))))
  | _ => "not-ok"

/-- `meaning <token>*` -> reference C++ meaning of the token list and what Shroud's parse denotes:
    `M <name|~> <valid> <type> | D <name|~> <type>`; `M none` / `D none` when undefined -/
def handleMeaningE (env : Env) (args : List String) : String :=
  let ts := (args.filter (· ≠ "")).map (fun a => reclass (decTok a))
  let m := match Shroud.Cxx.cxxMeaning env ts with
    | some (n, t) => "M " ++ (match n with | some x => encStr x | none => "~") ++ " " ++ b01 t.valid ++ " " ++ encStr t.text
    | none => "M none"
  let d := match parse env ts with
    | .ok d => (match Shroud.Cxx.denote env d with
        | some t => "D " ++ (match Shroud.Cxx.declName d with | some x => encStr x | none => "~") ++ " " ++ encStr t.text
        | none => "D none")
    | _ => "D not-ok"
  m ++ " | " ++ d

def handleMeaning (args : List String) : String := handleMeaningE env args
def handleMeaning2 (args : List String) : String := handleMeaningE nenv args

/-- `fund <specifier>*` -> canonical C++ fundamental type of a specifier list, and the C++ type of the
    typemap `get_canonical_typemap` selects: `<fundName|none> | <cxx_type|none|reject>` -/
def handleFund (args : List String) : String :=
  let sp := (args.filter (· ≠ "")).map decStr
  let f := match Shroud.Cxx.fundName sp with | some n => encStr n | none => "none"
  let c := match canonical env { specifier := sp } with
    | .ok s => (match env.typeInfo s.typemap with
        | some ti => (match ti.cxxType with | some n => encStr n | none => "none")
        | none => "none")
    | _ => "reject"
  f ++ " | " ++ c

end Driver
