import ShroudVerif.Model.Splicer
import Driver.Codec
/-!
Line protocol for the splicer model.

dict   := "{}" | entry ("|" entry)*
entry  := "L/" strs(path) "/" strs(body) | "D/" strs(path)
items  := "N" (None) | "E" (empty list) | item ("&" item)*     item := "i"<int> | "s"<str>
-/
namespace Driver
open Shroud.Lines Shroud.Splicer

def encEntry (e : Path × Val) : String :=
  match e.2 with
  | .leaf b => "L/" ++ encStrs e.1 ++ "/" ++ encStrs b
  | .dict => "D/" ++ encStrs e.1

def encDict (d : Dict) : String :=
  if d.isEmpty then "{}" else "|".intercalate (d.map encEntry)

def decEntry (s : String) : Path × Val :=
  match s.splitOn "/" with
  | ["L", p, b] => (decStrs p, .leaf (decStrs b))
  | ["D", p] => (decStrs p, .dict)
  | ["S", p, v] => (decStrs p, .leaf (codeScalar (decStr v)))   -- a splicer_code block scalar
  | ["M", p, items] =>
    -- a splicer_code list with YAML nulls: items joined by '&', "n" = None, "s<str>" = string
    (decStrs p, .leaf (codeLines (if items == "E" then [] else
      (items.splitOn "&").map (fun t => if t == "n" then none else some (decStr (t.drop 1).toString)))))
  | _ => ([], .dict)

def decDict (s : String) : Dict :=
  if s == "{}" then [] else (s.splitOn "|").map decEntry

def decItem' (s : String) : Item :=
  if s.startsWith "i" then .delta (decInt (s.drop 1).toString) else .str (decStr (s.drop 1).toString)

def decItems (s : String) : Option (List Item) :=
  if s == "N" then none else if s == "E" then some [] else some ((s.splitOn "&").map decItem')

def encRes (r : Res Dict) : String :=
  match r with
  | .ok d => "ok " ++ encDict d
  | .crash e => "crash " ++ e

/-- `gs <dict> <content>*` : successive get_splicers (file contents) into one dictionary -/
def handleGs : List String → String
  | d :: contents => encRes (readAll (decDict d) (contents.map (fun c => readlines [] (decStr c))))
  | _ => "bad-op"

/-- `col <code dict|N> <ncmd> <content>*` -/
def handleCol : List String → String
  | code :: ncmd :: contents =>
    let fs := contents.map (fun c => readlines [] (decStr c))
    let n := ncmd.toNat!
    encRes (collectSplicers (fs.take n) (fs.drop n) (if code == "N" then none else some (decDict code)))
  | _ => "bad-op"

def handleRl : List String → String
  | [c] => "ok " ++ encStrs (readlines [] (decStr c))
  | _ => "bad-op"

def handleLf : List String → String
  | [v] => match listifyStr (decStr v) with
    | .ok ls => "ok " ++ encStrs ls
    | .crash e => "crash " ++ e
  | _ => "bad-op"

def handleExt : List String → String
  | [v] => match langOfExt (decStr v) with
    | some l => "ok " ++ encStr l
    | none => "none"
  | _ => "bad-op"

structure WS where
  st : Stack
  out : List Item
  flags : String

def applyOp (showc : Bool) (comment : Str) (w : WS) (op : String) : Res WS :=
  match op.splitOn "/" with
  | ["push", n] => match push w.st (decStr n) with
    | .ok s => .ok { w with st := s }
    | .crash e => .crash e
  | ["pop"] => match pop w.st with
    | .ok s => .ok { w with st := s }
    | .crash e => .crash e
  | ["upd", n] => match updateTop w.st (decStr n) with
    | .ok s => .ok { w with st := s }
    | .crash e => .crash e
  | ["cr", n, dflt, force] =>
    match createSplicer showc comment w.st (decStr n) (decItems dflt) (decItems force) with
    | .ok (o, a) => .ok { w with out := w.out ++ o, flags := w.flags ++ (if a then "1" else "0") }
    | .crash e => .crash e
  | _ => .crash "bad-op"

def applyOps (showc : Bool) (comment : Str) : WS → List String → Res WS
  | w, [] => .ok w
  | w, op :: ops => match applyOp showc comment w op with
    | .ok w' => applyOps showc comment w' ops
    | .crash e => .crash e

/-- `ws <show 0|1> <comment> <dict> <linelen> <indent> <spaces> <cont> op*` -/
def handleWs : List String → String
  | sh :: comment :: d :: ll :: ind :: sp :: cont :: ops =>
    match applyOps (sh == "1") (decStr comment) ⟨initSplicer (decDict d), [], "f"⟩ ops with
    | .crash e => "crash " ++ e
    | .ok w =>
      match writeLines ll.toNat! (decStr sp) (decStr cont) (decInt ind) w.out with
      | .crash e => "crash wl " ++ e
      | .ok r => "ok " ++ w.flags ++ " " ++ encStr (splicerPath w.st.names) ++ " " ++ encDict w.st.d
                  ++ " " ++ toString r.indent ++ " " ++ encStrs r.lines
  | _ => "bad-op"

/-- split `s` at the first `n` occurrences of '/' -/
def splitFirst (s : String) (n : Nat) : List String :=
  let parts := s.splitOn "/"
  parts.take n ++ [ "/".intercalate (parts.drop n) ]

structure MW where
  cmd : List (Str × List Str) := []
  files : List (Nat × Str × List Str) := []
  yaml : List (Str × List Str) := []
  code : List (Str × Dict) := []
  ndirs : Nat := 0

def mwTok (m : MW) (t : String) : MW :=
  if t.startsWith "C/" then
    match t.splitOn "/" with
    | [_, e, c] => { m with cmd := m.cmd ++ [(decStr e, readlines [] (decStr c))] }
    | _ => m
  else if t.startsWith "P/" then
    match t.splitOn "/" with
    | [_, i, n, c] => { m with files := m.files ++ [(i.toNat!, decStr n, readlines [] (decStr c))] }
    | _ => m
  else if t.startsWith "Y/" then
    match t.splitOn "/" with
    | [_, sfx, names] => { m with yaml := m.yaml ++ [(decStr sfx, decStrs names)] }
    | _ => m
  else if t.startsWith "K/" then
    match splitFirst t 2 with
    | [_, l, d] => { m with code := m.code ++ [(decStr l, decDict d)] }
    | _ => m
  else if t.startsWith "N/" then { m with ndirs := (t.drop 2).toString.toNat! }
  else m

/-- `mw N/<ndirs> C/<ext>/<content>* P/<dir>/<name>/<content>* Y/<suffix>/<names>* K/<lang>/<dict>*` -/
def handleMw (toks : List String) : String :=
  let m := toks.foldl mwTok {}
  let dirs := (List.range m.ndirs).map (fun i => (m.files.filter (fun f => f.1 = i)).map (fun f => f.2))
  match collectMain m.cmd dirs m.yaml m.code with
  | .crash e => "crash " ++ e
  | .ok s => "ok " ++ " ".intercalate (["c", "f", "py", "lua"].map (fun l => encDict (getLang s l.toList)))

end Driver
