import Driver.Scope
open Driver

def dispatchScope (line : String) : String :=
  match (line.trimAscii.toString.splitOn " ") with
  | "sc" :: args => handleSc args
  | "tr" :: args => handleTr args
  | "at" :: args => handleAt args
  | "cl" :: args => handleCl args
  | "fa" :: args => handleFa args
  | "lo" :: args => handleLo args
  | "sp" :: args => handleSp args
  | _ => "bad-op"

partial def loopScope (h : IO.FS.Stream) (out : IO.FS.Stream) : IO Unit := do
  let line ← h.getLine
  if line.isEmpty then return ()
  out.putStrLn (dispatchScope line)
  loopScope h out

def main : IO Unit := do
  let out ← IO.getStdout
  loopScope (← IO.getStdin) out
  out.flush
