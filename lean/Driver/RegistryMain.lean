import Driver.Registry
open Driver

def dispatchReg (line : String) : String :=
  match (line.trimAscii.toString.splitOn " ") with
  | "ul" :: args => handleUl args
  | _ => "bad-op"

partial def loopReg (h : IO.FS.Stream) (out : IO.FS.Stream) : IO Unit := do
  let line ← h.getLine
  if line.isEmpty then return ()
  out.putStrLn (dispatchReg line)
  loopReg h out

def main : IO Unit := do
  let out ← IO.getStdout
  loopReg (← IO.getStdin) out
  out.flush
