import Driver.Decl
import Driver.Attrs
import Driver.Yaml
import Driver.NameLookup
open Driver

def dispatch (line : String) : String :=
  match (line.trimAscii.toString.splitOn " ") with
  | "tok" :: args => handleTok args
  | "parse" :: args => handleParse args
  | "toks" :: args => handleToks args
  | "meaning" :: args => handleMeaning args
  | "parse2" :: args => handleParse2 args
  | "meaning2" :: args => handleMeaning2 args
  | "fund" :: args => handleFund args
  | "vattrs" :: args => handleVattrs args
  | "lex" :: args => handleLex args
  | "kw" :: args => handleKw args
  | "yshape" :: args => handleYshape args
  | "parsestr" :: args => handleParseStr args
  | "rewrite" :: args => handleRewrite args
  | "scope" :: args => handleScope args
  | "sparse" :: args => handleSparse args
  | _ => "bad-op"

partial def loop (h : IO.FS.Stream) (out : IO.FS.Stream) : IO Unit := do
  let line ← h.getLine
  if line.isEmpty then return ()
  out.putStrLn (dispatch line)
  loop h out

def main : IO Unit := do
  let out ← IO.getStdout
  loop (← IO.getStdin) out
  out.flush
