import Driver.Names
open Driver

def dispatchNames (line : String) : String :=
  match (line.trimAscii.toString.splitOn " ") with
  | "ex" :: args => handleEx args
  | "uc" :: args => handleUc args
  | "tm" :: args => handleTm args
  | "gi" :: args => handleGi args
  | "mt" :: args => handleMt args
  | _ => "bad-op"

partial def loopNames (h : IO.FS.Stream) (out : IO.FS.Stream) : IO Unit := do
  let line ← h.getLine
  if line.isEmpty then return ()
  out.putStrLn (dispatchNames line)
  loopNames h out

def main : IO Unit := do
  let out ← IO.getStdout
  loopNames (← IO.getStdin) out
  out.flush
