import ShroudVerif.Model.Names
import Driver.Codec
namespace Driver
open Shroud.Names

def decOpt (s : String) : Option Str :=
  if s == "N" then none else some (decStr (s.drop 1).toString)

def encOpt : Option Str → String
  | none => "N"
  | some s => "S" ++ encStr s

def decList {α} (f : String → α) (sep : String) (s : String) : List α :=
  if s == "~" then [] else (s.splitOn sep).map f

def decTInst (s : String) : TInst :=
  match s.splitOn "/" with
  | [e, n, fl] => { explicit := decOpt e, nargs := n.toNat!, flat := decStr fl }
  | _ => { explicit := none, nargs := 0, flat := [] }

def decWrap (s : String) : Wrap :=
  match s.toList with
  | [a, b, c, d] => ⟨a == '1', b == '1', c == '1', d == '1'⟩
  | _ => ⟨true, true, false, false⟩

def decFn (s : String) : Fn :=
  match s.splitOn ":" with
  | nm :: np :: nd :: sf :: ds :: ti :: ge :: hb :: ic :: ut :: ci :: wo :: more =>
    { name := decStr nm, nparams := np.toNat!, ndefaults := nd.toNat!, suffix := decOpt sf,
      dsuffix := decList decStr "+" ds, tinst := decList decTInst "+" ti,
      generics := decList decOpt "+" ge, hasBuf := hb == "1", isCtor := ic == "1", usesT := ut == "1", cppIf := decOpt ci,
      wrapOpt := if wo == "N" then none else some (decWrap wo), cfi := more == ["1"] }
  | _ => { name := [], nparams := 0, ndefaults := 0, suffix := none, dsuffix := [], tinst := [],
           generics := [], hasBuf := false, isCtor := false, usesT := false, cppIf := none }

def decSeg (s : String) : PathSeg :=
  if s.startsWith "c=" then .cls (decStr (s.drop 2).toString)
  else if s.startsWith "f=" then .nsf (decStr (s.drop 2).toString)
  else if s.startsWith "t=" then
    -- t=<name>^<explicit>^<nargs>^<flat>^<index>
    match ((s.drop 2).toString).splitOn "^" with
    | [n, e, na, fl, i] => .clsT (decStr n) { explicit := decOpt e, nargs := na.toNat!, flat := decStr fl } i.toNat!
    | _ => .cls []
  else .ns (decStr (s.drop 2).toString)

/-- library field: the library name, or `P<prefix>` for an explicit `format: C_prefix`. -/
def decPrefix (lib : String) : Str :=
  if lib.startsWith "P" then decStr (lib.drop 1).toString else libraryPrefix (decStr lib)

def encWrap (w : Wrap) : String :=
  String.ofList ([w.c, w.f, w.py, w.lua].map fun b => if b then '1' else '0')

def encGen : Gen → String
  | .none => "False"
  | .defaultArg => "has_default_arg"
  | .cxxTemplate => "cxx_template"
  | .bufferify => "arg_to_buffer"
  | .cfi => "arg_to_cfi"
  | .fortranGeneric => "fortran_generic"

def encRec (sc : Scope) (r : Rec) : String :=
  let n := names sc r
  "|".intercalate [encStr r.name, toString r.arity, encGen r.gen, encWrap r.wrap,
    (if r.overloaded then "1" else "0"), encOpt n.C_name, encOpt n.F_C_name, encOpt n.F_name_impl,
    encOpt n.F_name_function, encOpt n.F_name_generic]

/-- `ex <wrap> <library> <container>*`, container = `<path>@<fn>!<fn>...`;
    answer: containers joined by `#`, records by `;`. -/
def handleEx : List String → String
  | w :: lib :: conts =>
    let w0 := decWrap w
    let pre := decPrefix lib
    "#".intercalate (conts.map fun c =>
      match c.splitOn "@" with
      | [path, fns] =>
        let sc := scopeOf pre w0 (decList decSeg "/" path) (rootScope pre w0)
        let out := expand sc (decList decFn "!" fns)
        if out.isEmpty then "~" else ";".intercalate (out.map (encRec sc))
      | _ => "bad-container")
  | _ => "bad-op"

/-- `mt <wrap> <library> <container>` : method-table keys `P=<keys>;L=<keys>`. -/
def handleMt : List String → String
  | [w, lib, c] =>
    let w0 := decWrap w
    let pre := decPrefix lib
    match c.splitOn "@" with
    | [path, fns] =>
      let sc := scopeOf pre w0 (decList decSeg "/" path) (rootScope pre w0)
      let recs := expand sc (decList decFn "!" fns)
      "P=" ++ encStrs (pyTable recs) ++ " L=" ++ encStrs (luaTable recs)
    | _ => "bad-container"
  | _ => "bad-op"

/-- `uc <string>` -/
def handleUc : List String → String
  | [s] => encStr (unCamel (decStr s))
  | _ => "bad-op"

def fieldName : Field → String
  | .C_prefix => "C_prefix" | .C_name_scope => "C_name_scope" | .F_C_prefix => "F_C_prefix"
  | .F_name_scope => "F_name_scope" | .underscore_name => "underscore_name"
  | .function_suffix => "function_suffix" | .template_suffix => "template_suffix"

def showTmpl (t : Tmpl) : String :=
  String.join (t.map fun
    | .lit s => String.ofList s
    | .fld f => "{" ++ fieldName f ++ "}")

/-- `tm` : the model's name templates in Python format-string syntax. -/
def handleTm : List String → String
  | _ => " ".intercalate [showTmpl C_name_template, showTmpl F_C_name_template,
      showTmpl F_name_impl_template, showTmpl F_name_function_template, showTmpl F_name_generic_template]

/-- `GenericFunction(force, ...)` is created by the first node filed under the key. -/
def giForce (sc : Scope) (sel : Rec → Bool) (recs : List Rec) (k : Str) : Bool :=
  match recs.find? (fun r => r.wrap.f && sel r && genericKey sc r == k) with
  | some r => !typeBound sc r && (r.gen == .fortranGeneric || (r.isCtor && !r.templated))
  | none => false

/-- members with the condition in force on their line, through the emission functions -/
def giConds (kind : String) (ms : List (Str × Option Str)) : List (Str × Option Str) :=
  if kind == "T" then (typeGenericLines ms).flatMap (fun l => l.2.map (fun b => (b, l.1)))
  else (interfaceLines ms).2.map (fun l => (l.2, effective (interfaceLines ms).1 l.1))

def giEntry (kind : String) (sc : Scope) (sel : Rec → Bool) (recs : List Rec) (e : Str × List Str) : String :=
  kind ++ "=" ++ encStr e.1 ++ "=" ++ (if giForce sc sel recs e.1 then "1" else "0") ++ "=" ++
    "+".intercalate (e.2.map encStr) ++ "=" ++
    "+".intercalate ((giConds kind (genericMembersCond sc sel recs e.1)).map
      fun m => encStr m.1 ++ "@" ++ encOpt m.2)

/-- `gi <wrap> <library> <container>` : generic tables of one container: `M=` module-level
    interfaces, `T=` type-bound generics of the class. -/
def handleGi : List String → String
  | [w, lib, c] =>
    let w0 := decWrap w
    let pre := decPrefix lib
    match c.splitOn "@" with
    | [path, fns] =>
      let sc := scopeOf pre w0 (decList decSeg "/" path) (rootScope pre w0)
      let recs := expand sc (decList decFn "!" fns)
      let m := (genericTable sc (moduleLevel sc) recs []).map (giEntry "M" sc (moduleLevel sc) recs)
      let t := (genericTable sc (typeBound sc) recs []).map (giEntry "T" sc (typeBound sc) recs)
      if (m ++ t).isEmpty then "~" else ";".intercalate (m ++ t)
    | _ => "bad-container"
  | _ => "bad-op"

end Driver
