import Driver.Lex
open Driver

def dispatch (line : String) : String :=
  handleLex (line.trimAscii.toString.splitOn " ")

partial def loop (h : IO.FS.Stream) (out : IO.FS.Stream) : IO Unit := do
  let line ← h.getLine
  if line.isEmpty then return ()
  out.putStrLn (dispatch line)
  loop h out

def main : IO Unit := do
  let out ← IO.getStdout
  loop (← IO.getStdin) out
  out.flush
