import ShroudVerif.Model.NameLookup
import ShroudVerif.Gen.DeclTables
import Driver.Decl
/-!
Driver ops for the scope-chain lookup (`Model/NameLookup.lean`).

chain := `Z` | `C <L|S|K|D> <n> (<name> <sym>)^n <m> <chain>^m <outer chain>`
sym   := `T <typemap name>` | `N <n> (<name> <sym>)^n`
-/
namespace Driver
open Shroud Shroud.Decl

mutual
def decSym : Nat → List String → Option (Sym × List String)
  | 0, _ => none
  | f+1, "T" :: tm :: rest => some (.type (decStr tm), rest)
  | f+1, "N" :: n :: rest =>
    match decSyms f n.toNat! rest with
    | some (ms, rest') => some (.ns ms, rest')
    | none => none
  | _, _ => none
def decSyms : Nat → Nat → List String → Option (List (Str × Sym) × List String)
  | 0, _, _ => none
  | _+1, 0, rest => some ([], rest)
  | f+1, n+1, name :: rest =>
    match decSym f rest with
    | some (s, rest') =>
      match decSyms f n rest' with
      | some (ms, rest'') => some ((decStr name, s) :: ms, rest'')
      | none => none
    | none => none
  | _, _, _ => none
end

def decKind : String → Option ScopeKind
  | "L" => some .library | "S" => some .nspace | "K" => some .cls | "D" => some .delegate | _ => none

mutual
def decChain : Nat → List String → Option (Chain × List String)
  | 0, _ => none
  | _+1, "Z" :: rest => some (.nil, rest)
  | f+1, "C" :: k :: n :: rest =>
    match decKind k, decSyms (f + 1) n.toNat! rest with
    | some kind, some (syms, "" :: _) => none
    | some kind, some (syms, m :: rest') =>
      match decChains f m.toNat! rest' with
      | some (us, rest'') =>
        match decChain f rest'' with
        | some (outer, rest''') => some (.cons kind syms us outer, rest''')
        | none => none
      | none => none
    | _, _ => none
  | _, _ => none
def decChains : Nat → Nat → List String → Option (List Chain × List String)
  | 0, _, _ => none
  | _+1, 0, rest => some ([], rest)
  | f+1, n+1, rest =>
    match decChain f rest with
    | some (c, rest') =>
      match decChains f n rest' with
      | some (cs, rest'') => some (c :: cs, rest'')
      | none => none
    | none => none
end

def symTxt : Option Sym → String
  | some (.type tm) => "T " ++ encStr tm
  | some (.ns _) => "N"
  | none => "none"

/-- `scope <k> <name>^k <chain>` -> the lookup of every name from the scope -/
def handleScope (args : List String) : String :=
  match args.filter (· ≠ "") with
  | k :: rest =>
    let names := rest.take k.toNat!
    match decChain (rest.length + 4) (rest.drop k.toNat!) with
    | some (c, []) => " | ".intercalate (names.map (fun n => symTxt (c.lookup (decStr n))))
    | some (_, _ :: _) => "bad-chain-trailing"
    | none => "bad-chain"
  | _ => "bad-op"

/-- `sparse <k> <token>^k <chain>` -> the declaration parsed inside the scope -/
def handleSparse (args : List String) : String :=
  match args.filter (· ≠ "") with
  | k :: rest =>
    let ts := (rest.take k.toNat!).map (fun a => reclass (decTok a))
    match decChain (rest.length + 4) (rest.drop k.toNat!) with
    | some (c, []) =>
      let e := c.toEnv Shroud.Gen.DeclTables.defaultEnv.types Shroud.Gen.DeclTables.defaultEnv.canon
      (match parse e ts with
       | .ok d => "ok " ++ serDecl d
       | .reject m => "reject " ++ encStr m.toList
       | .crash x => "crash " ++ x
       | .fuel => "fuel"
       | .unmodelled w => "unmodelled " ++ w)
    | _ => "bad-chain"
  | _ => "bad-op"

end Driver
