import ShroudVerif.Model.Registry
import Driver.Codec
namespace Driver
open Shroud.Registry

def decLang (c : Char) : Lang := if c = 'x' then .cxx else .c

def showOpt : Option Nat → String
  | none => "none"
  | some 0 => "generic"
  | some 1 => "c"
  | some 2 => "cxx"
  | some n => toString n

/-- `ul <g> <c> <x> <history of c/x letters or ->` : final `item[clause]` after the history.
    identities: generic value 0, c_ variant 1, cxx_ variant 2 -/
def handleUl : List String → String
  | [g, c, x, h] =>
    let s0 : Slot := ⟨if g == "1" then some 0 else none, if c == "1" then some 1 else none,
                      if x == "1" then some 2 else none⟩
    let hist := if h == "-" then [] else h.toList.map decLang
    let s := hist.foldl (fun s l => updateSlot l s) s0
    showOpt s.clause
  | _ => "bad-op"

end Driver
