import ShroudVerif.Model.PyImplied
import ShroudVerif.Model.PyDescr
import ShroudVerif.Gen.PyDescr
import Driver.PyDispatch
/-!
Line protocol for implied expressions and struct member descriptors (C03).

  expr  := prefix tokens joined by ',': c<nat> const | i<name> argument | s<name> size | l<name> len | t<name> len_trim
           | b<op> expr expr | u<op> expr | p expr
  co    := '~' | name=charlen ',' ...            intent(out) arguments with their charlen
  env   := '~' | name=tag.id ',' ...             parsed C variables (tag 0 int id, 20 int -id, 1 string of id chars, 7 list of id items)
  irender <co> <expr>                 -> C tokens: n<v> v<name> z<name> (size variable) L<name> (strlen) o<op> ( )
  ieval <co> <env> <target int|ssize|usize> <expr>
                                      -> <type> <value> <assigned> <math|undef>   or   undef <math|undef>
  descr <kind> <ops: s<good value>|x (bad object) ',' ...>    setter calls on a fresh member, then the getter
-/
namespace Driver
open Shroud.PyDispatch Shroud.PyImplied

def parseIExpr : Nat → List String → Option (IExpr × List String)
  | 0, _ => none
  | _, [] => none
  | fuel + 1, t :: rest =>
    let arg := ((t.drop 1).toString.toNat?).getD 0
    match t.front with
    | 'c' => some (.const arg, rest)
    | 'i' => some (.ident arg, rest)
    | 's' => some (.size arg, rest)
    | 'l' => some (.len arg, rest)
    | 't' => some (.lenTrim arg, rest)
    | 'b' =>
      match parseIExpr fuel rest with
      | some (l, r1) =>
        match parseIExpr fuel r1 with
        | some (r, r2) => some (.bin arg l r, r2)
        | none => none
      | none => none
    | 'u' => (parseIExpr fuel rest).map fun (e, r) => (.un arg e, r)
    | 'p' => (parseIExpr fuel rest).map fun (e, r) => (.paren e, r)
    | _ => none

def decIExpr (s : String) : Option IExpr :=
  let toks := s.splitOn ","
  match parseIExpr (toks.length + 1) toks with
  | some (e, []) => some e
  | _ => none

def decCo (s : String) : Nat → Option Nat :=
  if s == "~" then fun _ => none
  else
    let tab := (s.splitOn ",").map fun e => match e.splitOn "=" with
      | [n, c] => (n.toNat!, c.toNat!)
      | _ => (0, 0)
    fun n => (tab.find? (fun e => e.1 == n)).map (·.2)

def decEnv (s : String) : Nat → Option Val :=
  match decKw s with
  | some tab => fun n => lookupKw n tab
  | none => fun _ => none

def drvSem : Sem :=
  { asInt := fun v => if v.tag == 0 then some v.id else if v.tag == 20 then some (-(v.id : Int)) else none
    sizeOf := fun v => if v.tag == 7 then some v.id else none
    strlenOf := fun v => if v.tag == 1 then some v.id else none }

def encCTok : CTok → String
  | .num v => s!"n{v}"
  | .var n => s!"v{n}"
  | .sizeVar a => s!"z{a}"
  | .strlen a => s!"L{a}"
  | .op o => s!"o{o}"
  | .lp => "("
  | .rp => ")"

def handleIRender : List String → String
  | [co, e] =>
    match decIExpr e with
    | some ex => " ".intercalate ((ex.render (decCo co)).map encCTok)
    | none => "bad-expr"
  | _ => "bad-op"

def decTy (s : String) : CTy := if s == "ssize" then .ssize else if s == "usize" then .usize else .int
def encTy : CTy → String
  | .int => "int" | .ssize => "ssize" | .usize => "usize"

def handleIEval : List String → String
  | [co, env, tgt, e] =>
    match decIExpr e with
    | some ex =>
      let m := match ex.evalMath drvSem (decCo co) (decEnv env) with
        | some x => s!"{x}"
        | none => "undef"
      match ex.evalC drvSem (decCo co) (decEnv env) with
      | some (t, x) =>
        let a := (assignTo (decTy tgt) (some (t, x))).getD 0
        s!"{encTy t} {x} {a} {m}"
      | none => s!"undef {m}"
    | none => "bad-expr"
  | _ => "bad-op"

open Shroud.PyDescr in
def encGet : GetRes Nat → String
  | .none_ => "N"
  | .cached o => s!"C{o}"
  | .built c => s!"B{c}"
  | .fellOff => "F"

open Shroud.PyDescr in
/-- `descr <path parts '.'-joined> <m<k> member holds k | n NULL pointer> <ops>` -/
def handleDescr : List String → String
  | [path, init, ops] =>
    match lookup Shroud.Gen.PyDescr.paths (decNats path) with
    | none => "entry=none"
    | some id =>
      match Shroud.Gen.PyDescr.clauses.find? (fun r => r.1 == id) with
      | none => s!"entry={id} noclauses"
      | some (_, setter, getter) =>
        let st0 : St Nat := St.fresh (if init.startsWith "m" then some (init.drop 1).toString.toNat! else none) none
        let step := fun (acc : St Nat × List String) (o : String) =>
          let v : PyV Nat := if o == "x" then .bad else .good (o.drop 1).toString.toNat! (o.drop 1).toString.toNat!
          let (r, st') := runSetter v setter false { acc.1 with err := false, rv := none, rvObj := none }
          (st', acc.2 ++ [s!"{r}:{encGet (runGetter getter false st' none)}"])
        let res := (ops.splitOn ",").foldl step (st0, [])
        s!"entry={id} " ++ ",".intercalate res.2
  | _ => "bad-op"

end Driver
