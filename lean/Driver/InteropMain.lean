import Driver.Interop
open Driver

def dispatchInterop (line : String) : String :=
  match (line.trimAscii.toString.splitOn " ") with
  | "fn" :: args => handleFn args
  | "io" :: args => handleInterop args
  | "st" :: args => handleStruct args
  | "rs" :: args => handleResult args
  | "cb" :: args => handleCallback args
  | "ov" :: args => handleOverride args
  | _ => "bad-op"

partial def loopInterop (h : IO.FS.Stream) (out : IO.FS.Stream) : IO Unit := do
  let line ← h.getLine
  if line.isEmpty then return ()
  out.putStrLn (dispatchInterop line)
  loopInterop h out

def main : IO Unit := do
  let out ← IO.getStdout
  loopInterop (← IO.getStdin) out
  out.flush
