/-
Line-protocol helpers.  A string value is encoded as its code points joined
by ',' ("-" for the empty string); lists of strings are joined by ';'
("~" for the empty list).
-/
namespace Driver

def decStr (s : String) : List Char :=
  if s == "-" then [] else (s.splitOn ",").map (fun t => Char.ofNat t.toNat!)

def encStr (s : List Char) : String :=
  if s.isEmpty then "-" else ",".intercalate (s.map (fun c => toString c.toNat))

def encStrs (ls : List (List Char)) : String :=
  if ls.isEmpty then "~" else ";".intercalate (ls.map encStr)

def decStrs (s : String) : List (List Char) :=
  if s == "~" then [] else (s.splitOn ";").map decStr

def decInt (s : String) : Int := s.toInt!

end Driver
