import ShroudVerif.Model.LuaDispatch
import Driver.Codec
/-!
Line protocol for the Lua dispatch model.

overload set : overloads joined by `|`; one overload = `F:` or `S:` (function / subroutine) followed
               by its parameters joined by `,`; a parameter = tag letter, class id for a class pointer,
               `=` appended when it has a default value.  `F:n,n=,b=|S:s,u2`
tag letters  : x none, z nil, b boolean, l lightuserdata, n number, s string, t table, f function,
               u userdata, h thread
kind         : free | ctor | method | dtor
stack        : values joined by `,` (`-` for the empty stack); a value = `<letter>.<cls>.<data>`
-/
namespace Driver
open Shroud.LuaDispatch

def decTag (c : Char) : LType :=
  match c with
  | 'z' => .nil | 'b' => .boolean | 'l' => .lightuserdata | 'n' => .number | 's' => .string
  | 't' => .table | 'f' => .function | 'u' => .userdata | 'h' => .thread | _ => .none

def encTag : LType → String
  | .none => "x" | .nil => "z" | .boolean => "b" | .lightuserdata => "l" | .number => "n"
  | .string => "s" | .table => "t" | .function => "f" | .userdata => "u" | .thread => "h"

/-- `<tag letter>[<class id>][=]`: `n`, `b=`, `u2` (pointer to wrapped class 2) -/
def decParam (s : String) : Param :=
  let digits := (s.toList.drop 1).takeWhile Char.isDigit
  ⟨decTag (s.toList.headD 'x'), s.endsWith "=",
   if digits.isEmpty then none else some (String.ofList digits).toNat!⟩

def decOverload (s : String) : Overload :=
  match s.splitOn ":" with
  | [k, ps] => ⟨if ps.isEmpty then [] else (ps.splitOn ",").map decParam, k == "F"⟩
  | _ => ⟨[], false⟩

def decOvs (s : String) : List Overload := (s.splitOn "|").map decOverload

def decKind (s : String) : Kind :=
  if s == "ctor" then .ctor else if s == "method" then .method else if s == "dtor" then .dtor else .free

def decVal (s : String) : Val :=
  match s.splitOn "." with
  | [t, c, d] => ⟨decTag (t.toList.headD 'x'), c.toNat!, d.toNat!⟩
  | _ => Val.absent

def decStack (s : String) : Stack := if s == "-" then [] else (s.splitOn ",").map decVal

def encNats (l : List Nat) : String := if l.isEmpty then "-" else ",".intercalate (l.map toString)

def encEmit (e : Emit) : String :=
  "ov=" ++ toString e.ov ++ "/self=" ++ (match e.selfIdx with | none => "-" | some i => toString i) ++
  "/pops=" ++ encNats e.pops ++ "/nres=" ++ toString e.nresult ++
  (if e.argCls.all Option.isNone then "" else
    "/acls=" ++ ",".intercalate (e.argCls.map (fun o => match o with | none => "-" | some c => toString c)))

def encChecks (cs : List (Nat × LType)) : String :=
  if cs.isEmpty then "-" else "&".intercalate (cs.map (fun p => toString p.1 ++ ":" ++ encTag p.2))

def encBranch (b : Branch) : String := encChecks b.checks ++ ">" ++ encEmit b.emit

def encCase (c : Nat × List Branch) : String :=
  toString c.1 ++ "{" ++ ";".intercalate (c.2.map encBranch) ++ "}"

def encBody : Body → String
  | .single e => "single " ++ encEmit e
  | .switch off cases => "switch " ++ toString off ++ " " ++ " ".intercalate (cases.map encCase)

def encCalls (cs : List Call) : String :=
  " ".intercalate (cs.map (fun c => toString c.ov ++ ":" ++ toString c.nargs ++ ":" ++ toString c.nresults))

def encVal (v : Val) : String := if v.ty == .none then "x" else toString v.data

def encEv (e : CallEv) : String :=
  toString e.ci ++ ":" ++ toString e.ov ++ ":" ++ (match e.self with | none => "-" | some v => encVal v) ++ ":" ++
  (if e.args.isEmpty then "-" else ",".intercalate (e.args.map encVal))

def encEvs (l : List CallEv) : String := if l.isEmpty then "-" else ";".intercalate (l.map encEv)

def encOutcome : Outcome → String
  | .ret evs n => "ret " ++ toString n ++ " " ++ encEvs evs
  | .error evs => "error " ++ encEvs evs

/-- `gen <kind> <ovs>` -/
def handleGen : List String → String
  | [k, ovs] => encBody (gen (decKind k) (decOvs ovs))
  | _ => "bad-op"

/-- `calls <kind> <ovs>`: `all_calls` as ov:nargs:nresults -/
def handleCalls : List String → String
  | [k, ovs] => encCalls (luaCalls (decKind k) (decOvs ovs))
  | _ => "bad-op"

/-- `run <kind> <ovs> <cls> <stack>`: the object test is "userdata carrying the metatable of class cls" -/
def handleRun : List String → String
  | [k, ovs, cls, st] =>
    let c := cls.toNat!
    encOutcome (run (fun v => v.ty == .userdata && v.cls == c) (gen (decKind k) (decOvs ovs)) (decStack st))
  | _ => "bad-op"

/-- `exp <kind> <ovs> <cls> <stack>`: the declaration-level expectation of the model -/
def handleExp : List String → String
  | [k, ovs, cls, st] =>
    let c := cls.toNat!
    encOutcome (expected (fun v => v.ty == .userdata && v.cls == c) (decKind k) (decOvs ovs) (decStack st))
  | _ => "bad-op"

/-! registration: `regs <scope>/<scope>..`; scope = `<class>;<class>..#<fn>,<fn>..` (`-` for none);
    class = `<ctorNameId>@<fn>,<fn>..`; fn = `<nameId>.<luaId>.<implId>.<f|c|m|d>` -/
def decWFn (s : String) : WFn :=
  match s.splitOn "." with
  | [n, l, i, k] => ⟨n.toNat!, l.toNat!, i.toNat!,
      if k == "c" then .ctor else if k == "m" then .method else if k == "d" then .dtor else .free⟩
  | _ => ⟨0, 0, 0, .free⟩

def decWFns (s : String) : List WFn := if s == "-" then [] else (s.splitOn ",").map decWFn

/-- `<ctorNameId>~<metaId>@<fns>` -/
def decClassD (s : String) : ClassD :=
  match s.splitOn "@" with
  | [c, fs] =>
    match c.splitOn "~" with
    | [cn, m] => ⟨cn.toNat!, decWFns fs, m.toNat!⟩
    | _ => ⟨c.toNat!, decWFns fs, 0⟩
  | _ => ⟨0, [], 0⟩

def decScopeD (s : String) : ScopeD :=
  match s.splitOn "#" with
  | [cs, fs] => ⟨if cs == "-" then [] else (cs.splitOn ";").map decClassD, decWFns fs⟩
  | _ => ⟨[], []⟩

def encRegs (l : List (Nat × Nat)) : String :=
  if l.isEmpty then "-" else ",".intercalate (l.map (fun p => toString p.1 ++ ">" ++ toString p.2))

/-- a tree node: `<depth>+<0|1>+<scope>` -/
def decNsNode (s : String) : NsNode :=
  match s.splitOn "+" with
  | [d, w, sc] => ⟨d.toNat!, w == "1", decScopeD sc⟩
  | _ => ⟨0, true, decScopeD s⟩

/-- `regs <node>/<node>..`: the namespace tree in pre-order (all nodes, switched on or off) -/
def handleRegs : List String → String
  | [sc] =>
    let scopes := visit none ((sc.splitOn "/").map decNsNode)
    let classes := scopes.flatMap (·.classes)
    "M=" ++ encRegs (moduleRegs scopes) ++ String.join (classes.map (fun c => " C=" ++ encRegs (classRegs c))) ++
      " R=" ++ encNats (registry classes) ++
      String.join (classes.map (fun c =>
        let st := classSites c
        " S=" ++ (match st.created with | none => "-" | some n => toString n) ++ ":" ++ toString st.attached ++ ":" ++
          toString st.demanded)) ++
      " A=" ++ encNats ((List.range classes.length).map (fun i => (argDemanded classes i).getD 0))
  | _ => "bad-op"

/-! class arguments: `argcls <class>,<class>.. <type>,<type>..`; a qualified name = interned components
    joined by `.`; answer per type: `o<index>` (wrapped class of this library) or `f<last component>` -/
def decQName (s : String) : QName := (s.splitOn ".").map String.toNat!

def decQNames (s : String) : List QName := if s == "-" then [] else (s.splitOn ",").map decQName

def encArgClass : ArgClass → String
  | .own i => "o" ++ toString i
  | .foreign n => "f" ++ toString n

def handleArgCls : List String → String
  | [cs, qs] =>
    let classes := decQNames cs
    ",".intercalate ((decQNames qs).map (fun q => encArgClass (classArgPop classes q)))
  | _ => "bad-op"

end Driver
