import ShroudVerif.Model.PyDispatch
import ShroudVerif.Model.PyList
import ShroudVerif.Gen.PyStmts
import Driver.Codec
/-!
Line protocol for the Python dispatch model.

  param  := name,intent(0 in|1 inout|2 out),hasDefault,implied,hidden,unit-text(code points '.'-joined, '-' empty),exact('-', or the '.'-joined value tags the unit and its post-parse converter accept: the exact type of an `O!` unit, the sequence classes of a list argument)
            the value classes a unit accepts come from the regenerated table Gen.PyStmts.unitClasses
  params := param ';' ... | '~'
  val    := tag.id          vals := val ',' ... | '~'
  kw     := 'none' | '~' | name=tag.id ',' ...
  src    := kwds | args

  gen  <kind: ctor|function|subroutine> <params> [<result build unit> <name=build unit;...>]
  call <src> <params> <vals> <kw>
  disp <src> <params '|' params ...> <vals> <kw>
  sgen  <fields>                    generated struct constructor: format and keyword list
  scall <fields> <vals> <kw>        ... called

  obj := a:<val> | s:<vals>
  getlist <accepted tags '.'-joined> <obj>            get_from_object_<T>_list
  fill    <accepted tags> <insize> <obj>              fill_from_PyObject_<T>_list (buffer cells are printed as b<i>)
  charptr <obj>                                       get_from_object_charptr (tags: 1 str, 6 bytes, 4 None)
  fillchar <cap> <s:len | b:len | n | o>              fill_from_PyObject_char on a member of cap cells, and what the getter reads back
-/
namespace Driver
open Shroud.PyDispatch

def decNats (s : String) : List Nat :=
  if s == "-" then [] else (s.splitOn ".").map String.toNat!

def decParam (s : String) : Param :=
  match s.splitOn "," with
  | [n, i, d, im, h, u, a] =>
    { name := n.toNat!, intent := (if i == "0" then .in_ else if i == "1" then .inout else .out),
      hasDefault := d == "1", implied := im == "1", hidden := h == "1",
      unit := { text := decNats u,
                accepts := if a == "-" then (Shroud.PyTables.lookupUnit Shroud.Gen.PyStmts.unitClasses (decNats u)).getD []
                           else decNats a } }
  | _ => { name := 0, intent := .in_, hasDefault := false, implied := false, hidden := false,
           unit := { text := [], accepts := [] } }

def decParams (s : String) : List Param :=
  if s == "~" then [] else (s.splitOn ";").map decParam

def decVal (s : String) : Val :=
  match s.splitOn "." with
  | [t, i] => { tag := t.toNat!, id := i.toNat! }
  | _ => { tag := 0, id := 0 }

def decVals (s : String) : List Val :=
  if s == "~" then [] else (s.splitOn ",").map decVal

def decKw (s : String) : Option (List (Nat × Val)) :=
  if s == "none" then none
  else if s == "~" then some []
  else some ((s.splitOn ",").map (fun e =>
    match e.splitOn "=" with
    | [n, v] => (n.toNat!, decVal v)
    | _ => (0, decVal "")))

def decSrc (s : String) : CountSrc := if s == "args" then .args else .kwds

def encNats (sep : String) (l : List Nat) : String :=
  if l.isEmpty then "-" else sep.intercalate (l.map toString)

def encArg : ArgV → String
  | .val v => s!"v{v.tag}.{v.id}"
  | .garbage => "g"
  | .outp => "o"
  | .implied => "i"
  | .dflt => "d"

def encExn : Exn → String
  | .typeError => "TypeError"
  | .valueError => "ValueError"
  | .systemError => "SystemError"

def encOutcome : Outcome → String
  | .ok r => "ok " ++ (if r.isEmpty then "-" else ",".intercalate (r.map encArg))
  | .exc e => "exc " ++ encExn e

def encItem : Item → String
  | .result => "r"
  | .outArg n => s!"o{n}"

def encShape : PyRet → String
  | .zero => "zero"
  | .none => "none"
  | .single _ => "single"
  | .tuple _ => "tuple"

def decUnitMap (s : String) : Nat → List Nat :=
  let tbl : List (Nat × List Nat) := if s == "~" then [] else (s.splitOn ";").map (fun e =>
    match e.splitOn "=" with
    | [n, u] => (n.toNat!, decNats u)
    | _ => (0, []))
  fun n => match tbl.find? (fun e => e.1 == n) with
    | some e => e.2
    | none => []

def genLine (kind params : String) (build : Option (String × String)) : String :=
    let ps := decParams params
    let k : Kind := if kind == "ctor" then .ctor else if kind == "function" then .function else .subroutine
    let cases := (defaultCalls 0 0 ps).map (fun c => s!"{c.1}:{c.2}")
    let w := window ps
    let bt := buildTuples k ps
    "fmt=" ++ encNats "." (fmtText (fmtItems false ps)) ++
    " kw=" ++ encNats "," (kwlist ps) ++
    " cases=" ++ ",".intercalate cases ++
    " found=" ++ (if foundDefault ps then "1" else "0") ++
    " hasdef=" ++ (if hasDefaultArg ps then "1" else "0") ++
    s!" window={w.1}-{w.2}" ++
    " build=" ++ (if bt.isEmpty then "-" else ",".intercalate (bt.map encItem)) ++
    " shape=" ++ encShape (returnShape k ps) ++
    (match build with
     | none => ""
     | some (ru, um) =>
       let bf := buildFormat k ps (decNats ru) (decUnitMap um)
       let n : String := match Shroud.PyTables.buildArity bf with
         | some us => toString (Shroud.PyTables.sum us)
         | none => "bad"
       " bfmt=" ++ encNats "." bf ++ " bargs=" ++ n)

def handleGen : List String → String
  | [kind, params] => genLine kind params none
  | [kind, params, ru, um] => genLine kind params (some (ru, um))
  | _ => "bad-op"

def handleCall : List String → String
  | [src, params, vals, kw] =>
    encOutcome (wrapper (decSrc src) (decParams params) (decVals vals) (decKw kw))
  | _ => "bad-op"

def handleSGen : List String → String
  | [fields] =>
    let fs := decParams fields
    "fmt=" ++ encNats "." (fmtText (structFmt fs)) ++ " kw=" ++ encNats "," (fs.map (·.name))
  | _ => "bad-op"

def handleSCall : List String → String
  | [fields, vals, kw] => encOutcome (structCtor (decParams fields) (decVals vals) (decKw kw))
  | _ => "bad-op"

def handleDisp : List String → String
  | [src, ovs, vals, kw] =>
    let r := multiDispatch (decSrc src) ((ovs.splitOn "|").map decParams) (decVals vals) (decKw kw)
    (match r.1 with | some i => toString i | none => "none") ++ " " ++ encOutcome r.2
  | _ => "bad-op"

open Shroud.PyList in
def decObj (s : String) : Obj Val :=
  if s.startsWith "a:" then .atom (decVal (s.drop 2).toString) else .seq (decVals (s.drop 2).toString)

open Shroud.PyList in
def encOut (show_ : β → String) : Out β → String
  | .ok arr h => "ok " ++ (if arr.isEmpty then "~" else ",".intercalate (arr.map show_)) ++ s!" {h.live} {h.owned} {h.seqRefs}"
  | .typeError .notIterable h => s!"err iter {h.live} {h.owned} {h.seqRefs}"
  | .typeError (.badItem i) h => s!"err {i} {h.live} {h.owned} {h.seqRefs}"

def tagConv (acc : List Nat) (v : Val) : Option Nat := if acc.contains v.tag then some v.id else none

open Shroud.PyList in
def handleGetList : List String → String
  | [acc, obj] => encOut (fun (n : Nat) => s!"v{n}") (getFromObjectList (tagConv (decNats acc)) (decObj obj))
  | _ => "bad-op"

open Shroud.PyList in
def handleFill : List String → String
  | [acc, n, obj] =>
    let buf : List (Nat ⊕ Nat) := (List.range n.toNat!).map Sum.inr
    let conv : Val → Option (Nat ⊕ Nat) := fun v => (tagConv (decNats acc) v).map Sum.inl
    encOut (fun (x : Nat ⊕ Nat) => match x with | .inl k => s!"v{k}" | .inr k => s!"b{k}") (fillFromObjectList conv buf (decObj obj))
  | _ => "bad-op"

open Shroud.PyList in
def handleCharPtr : List String → String
  | [obj] =>
    let toChar : Val → CharObj := fun v =>
      if v.tag == 1 then .str [v.id] else if v.tag == 6 then .bytes [v.id] else if v.tag == 4 then .none else .other
    let conv : Val → Option String := fun v => (charConv (toChar v)).map (fun d => match d with | some _ => s!"v{v.id}" | none => "null")
    encOut id (getFromObjectList conv (decObj obj))
  | _ => "bad-op"

open Shroud.PyList in
def encCell : Cell → String
  | .chr c => s!"c{c}"
  | .nul => "z"
  | .old i => s!"b{i}"

open Shroud.PyList in
def handleFillChar : List String → String
  | [cap, obj] =>
    let o : CharObj :=
      if obj.startsWith "s:" then .str (List.range (obj.drop 2).toString.toNat!)
      else if obj.startsWith "b:" then .bytes (List.range (obj.drop 2).toString.toNat!)
      else if obj == "n" then .none else .other
    match fillChar cap.toNat! o with
    | none => "err"
    | some cells =>
      let enc := fun (l : List Cell) => if l.isEmpty then "~" else ",".intercalate (l.map encCell)
      "ok " ++ enc cells ++ " " ++ enc (readCells cells)
  | _ => "bad-op"

end Driver
