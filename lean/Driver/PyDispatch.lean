import ShroudVerif.Model.PyDispatch
import Driver.Codec
/-!
Line protocol for the Python dispatch model.

  param  := name,intent(0 in|1 inout|2 out),hasDefault,implied,hidden,unit-text(code points '.'-joined, '-' empty),accepted-tags('.'-joined, '-' empty)
  params := param ';' ... | '~'
  val    := tag.id          vals := val ',' ... | '~'
  kw     := 'none' | '~' | name=tag.id ',' ...
  src    := kwds | args

  gen  <kind: ctor|function|subroutine> <params>
  call <src> <params> <vals> <kw>
  disp <src> <params '|' params ...> <vals> <kw>
-/
namespace Driver
open Shroud.PyDispatch

def decNats (s : String) : List Nat :=
  if s == "-" then [] else (s.splitOn ".").map String.toNat!

def decParam (s : String) : Param :=
  match s.splitOn "," with
  | [n, i, d, im, h, u, a] =>
    { name := n.toNat!, intent := (if i == "0" then .in_ else if i == "1" then .inout else .out),
      hasDefault := d == "1", implied := im == "1", hidden := h == "1",
      unit := { text := decNats u, accepts := decNats a } }
  | _ => { name := 0, intent := .in_, hasDefault := false, implied := false, hidden := false,
           unit := { text := [], accepts := [] } }

def decParams (s : String) : List Param :=
  if s == "~" then [] else (s.splitOn ";").map decParam

def decVal (s : String) : Val :=
  match s.splitOn "." with
  | [t, i] => { tag := t.toNat!, id := i.toNat! }
  | _ => { tag := 0, id := 0 }

def decVals (s : String) : List Val :=
  if s == "~" then [] else (s.splitOn ",").map decVal

def decKw (s : String) : Option (List (Nat × Val)) :=
  if s == "none" then none
  else if s == "~" then some []
  else some ((s.splitOn ",").map (fun e =>
    match e.splitOn "=" with
    | [n, v] => (n.toNat!, decVal v)
    | _ => (0, decVal "")))

def decSrc (s : String) : CountSrc := if s == "args" then .args else .kwds

def encNats (sep : String) (l : List Nat) : String :=
  if l.isEmpty then "-" else sep.intercalate (l.map toString)

def encArg : ArgV → String
  | .val v => s!"v{v.tag}.{v.id}"
  | .garbage => "g"
  | .outp => "o"
  | .implied => "i"
  | .dflt => "d"

def encExn : Exn → String
  | .typeError => "TypeError"
  | .valueError => "ValueError"
  | .systemError => "SystemError"

def encOutcome : Outcome → String
  | .ok r => "ok " ++ (if r.isEmpty then "-" else ",".intercalate (r.map encArg))
  | .exc e => "exc " ++ encExn e

def encItem : Item → String
  | .result => "r"
  | .outArg n => s!"o{n}"

def encShape : PyRet → String
  | .zero => "zero"
  | .none => "none"
  | .single _ => "single"
  | .tuple _ => "tuple"

def handleGen : List String → String
  | [kind, params] =>
    let ps := decParams params
    let k : Kind := if kind == "ctor" then .ctor else if kind == "function" then .function else .subroutine
    let cases := (defaultCalls 0 0 ps).map (fun c => s!"{c.1}:{c.2}")
    let w := window ps
    let bt := buildTuples k ps
    "fmt=" ++ encNats "." (fmtText (fmtItems false ps)) ++
    " kw=" ++ encNats "," (kwlist ps) ++
    " cases=" ++ ",".intercalate cases ++
    " found=" ++ (if foundDefault ps then "1" else "0") ++
    " hasdef=" ++ (if hasDefaultArg ps then "1" else "0") ++
    s!" window={w.1}-{w.2}" ++
    " build=" ++ (if bt.isEmpty then "-" else ",".intercalate (bt.map encItem)) ++
    " shape=" ++ encShape (returnShape k ps)
  | _ => "bad-op"

def handleCall : List String → String
  | [src, params, vals, kw] =>
    encOutcome (wrapper (decSrc src) (decParams params) (decVals vals) (decKw kw))
  | _ => "bad-op"

def handleDisp : List String → String
  | [src, ovs, vals, kw] =>
    let r := multiDispatch (decSrc src) ((ovs.splitOn "|").map decParams) (decVals vals) (decKw kw)
    (match r.1 with | some i => toString i | none => "none") ++ " " ++ encOutcome r.2
  | _ => "bad-op"

end Driver
