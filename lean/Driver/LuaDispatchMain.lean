import Driver.LuaDispatch
open Driver

def dispatchLua (line : String) : String :=
  match (line.trimAscii.toString.splitOn " ") with
  | "gen" :: args => handleGen args
  | "calls" :: args => handleCalls args
  | "run" :: args => handleRun args
  | "exp" :: args => handleExp args
  | "regs" :: args => handleRegs args
  | "argcls" :: args => handleArgCls args
  | _ => "bad-op"

partial def loopLua (h : IO.FS.Stream) (out : IO.FS.Stream) : IO Unit := do
  let line ← h.getLine
  if line.isEmpty then return ()
  out.putStrLn (dispatchLua line)
  loopLua h out

def main : IO Unit := do
  let out ← IO.getStdout
  loopLua (← IO.getStdin) out
  out.flush
