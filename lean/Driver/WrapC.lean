import ShroudVerif.Model.WrapC
import ShroudVerif.Gen.CStmts
namespace Driver
open Shroud.WrapC Shroud.Gen.CStmts

def natsOf (s : String) : List Nat :=
  if s == "-" then [] else (s.splitOn ",").map (·.toNat!)

def b01 (s : String) : Bool := s == "1"

def encOpt : Option Nat → String
  | some i => toString i
  | none => "-"

def encProto : Proto → String
  | .arg => "arg"
  | .shadow false => "shadowP"
  | .shadow true => "shadowV"
  | .argDecl n => s!"decl{n}"
  | .aux n => s!"aux{n}"

def encVar : Var → String
  | .c => "c"
  | .cxx => "x"

def encCall : Option CallExpr → String
  | none => "-"
  | some (.plain v) => encVar v
  | some (.addrOf v) => "&" ++ encVar v
  | some (.deref v) => "*" ++ encVar v

def encRhs : Rhs → String
  | .strFromC => "strFromC"
  | .strEmpty => "strEmpty"
  | .capsuleAddr true => "capsP"
  | .capsuleAddr false => "capsV"
  | .structCast true => "structA"
  | .structCast false => "structP"
  | .castEnum => "castEnum"
  | .castInt => "castInt"
  | .other n => s!"other{n}"

def encPost : PostOp → String
  | .strcpyBack => "strcpy"
  | .other n => s!"other{n}"

def encList (f : α → String) (l : List α) : String :=
  if l.isEmpty then "-" else ",".intercalate (l.map f)

def encCallShape : CallShape → String
  | .plain => "plain" | .assign => "assign" | .assignNew => "assignNew" | .ctorNew => "ctorNew"
  | .dtorDelete => "dtorDelete" | .other => "other"

def encRet : RetShape → String
  | .none => "none" | .cvar n => s!"cvar{n}" | .shadow => "shadow" | .derefCxx => "derefCxx" | .other => "other"

def encConv : ResConv → String
  | .none => "none" | .castInt => "castInt" | .castEnum => "castEnum" | .cStr => "cStr" | .voidPtr => "voidPtr"
  | .other n => s!"other{n}"

/-- `lookup <id,id,...>` -/
def handleLookup : List String → String
  | [k] => encOpt (lookupStmts tree (natsOf k))
  | _ => "bad-op"

/-- argument description: `sg sp intent suffix extra isPtr isRef value conv isResult isEnum` joined by `:` -/
def decArg (s : String) : Option ArgDesc :=
  match s.splitOn ":" with
  | [sg, sp, it, sf, ex, ip, ir, va, cv, rs, en] =>
    some ⟨sg.toNat!, sp.toNat!, it.toNat!, sf.toNat!, natsOf ex, b01 ip, b01 ir, b01 va, cv.toNat!, b01 rs, b01 en⟩
  | _ => none

def encArgPlan (d : ArgDesc) : String :=
  let idx := lookupStmts tree (d.key vocab)
  let p := assembleArg d (selectEntry entries tree (d.key vocab))
  s!"e={encOpt idx} proto={encList encProto p.proto} pre={encList encRhs p.pre} call={encCall p.call} post={encList encPost p.post}"

/-- `asm <isMethod isCtor isDtor isStatic isConst isFunction derefScalar as 7 bits> <res desc> <arg desc>...`
    -> `this=.. res: e=.. call=.. conv=.. caps=.. sback=.. ret=.. rproto=.. tail=.. | arg | arg ...` -/
def handleAsm : List String → String
  | flags :: res :: args =>
    match flags.toList.map (· == '1'), decArg res, args.mapM decArg with
    | [m, c, d, s, k, f, ds], some r, some as =>
      let fd : FuncDesc := ⟨m, c, d, s, k, f, r, ds, as⟩
      let w := assembleC vocab entries tree fd
      let ridx := lookupStmts tree (fd.resKey vocab)
      let re := selectEntry entries tree (fd.resKey vocab)
      let th := match w.this with | some ⟨true⟩ => "const" | some ⟨false⟩ => "mut" | none => "-"
      let rp := re.bufArgs.map (decodeProto false re)
      let head := s!"this={th} res: e={encOpt ridx} call={encCallShape w.res.call} conv={encConv w.res.conv} caps={w.res.setCapsule} sback={w.res.structBack} clear={w.res.clearSelf} ret={encRet w.res.ret} rproto={encList encProto rp} tail={encList encProto w.res.protoTail}"
      " | ".intercalate (head :: as.map encArgPlan)
    | _, _, _ => "bad-op"
  | _ => "bad-op"

def encScope : PatScope → String
  | .func => "func" | .result => "result" | .arg i => s!"arg{i}"

def encBodyOp : BodyOp → String
  | .argPre i r => s!"pre{i}:{encRhs r}"
  | .resPre c => s!"rpre:{c}"
  | .call s => s!"call:{encCallShape s}"
  | .errorPattern sc => s!"pattern:{encScope sc}"
  | .argPost i p => s!"post{i}:{encPost p}"
  | .resPost c => s!"rpost:{c}"
  | .conv c => s!"conv:{encConv c}"
  | .ret r => s!"ret:{encRet r}"

def encArgPlanL (l : Lang) (tbl : List Entry) (d : ArgDesc) : String :=
  let idx := lookupStmts tree (d.key vocab)
  let p := assembleArgL l d (selectEntry tbl tree (d.key vocab))
  s!"e={encOpt idx} proto={encList encProto p.proto} pre={encList encRhs p.pre} call={encCall p.call} post={encList encPost p.post}"

/-- `asmx <c|x> <forceWrapper externC hasPattern hasSplicer as 4 bits> <7 flag bits> <res desc> <arg desc>...`
    -> the `asm` reply computed by `assembleCL` for that language's table, preceded by
    `need=<bool> body=<ops>` -/
def handleAsmX : List String → String
  | lang :: opts :: flags :: res :: args =>
    match opts.toList.map (· == '1'), flags.toList.map (· == '1'), decArg res, args.mapM decArg with
    | [fw, ec, hp, hs], [m, c, d, s, k, f, ds], some r, some as =>
      let l : Lang := if lang == "c" then .c else .cxx
      let tbl := if lang == "c" then entriesC else entries
      let fd : FuncDesc := ⟨m, c, d, s, k, f, r, ds, as⟩
      let o : FuncOpts := ⟨fw, ec, hp, hs⟩
      let w := assembleCL l vocab tbl tree fd
      let ridx := lookupStmts tree (fd.resKey vocab)
      let re := selectEntry tbl tree (fd.resKey vocab)
      let need := needWrapperOf l o vocab tbl tree fd
      let body := bodyOf w re (if hp then some (patScope fd) else none)
      let th := match w.this with | some ⟨true⟩ => "const" | some ⟨false⟩ => "mut" | none => "-"
      let rp := re.bufArgs.map (decodeProto false re)
      let head := s!"need={need} body={encList encBodyOp body} this={th} res: e={encOpt ridx} call={encCallShape w.res.call} conv={encConv w.res.conv} caps={w.res.setCapsule} sback={w.res.structBack} clear={w.res.clearSelf} ret={encRet w.res.ret} rproto={encList encProto rp} tail={encList encProto w.res.protoTail}"
      " | ".intercalate (head :: as.map (encArgPlanL l tbl))
    | _, _, _, _ => "bad-op"
  | _ => "bad-op"

def allClauses : List Clause :=
  [.cxxLocal, .cLocal, .bufArgs, .bufExtra, .argDecl, .argCall, .pre, .call, .post, .ret, .retType, .owner]

/-- `ovr <c|x> <entry index or -> <present update as 2 bits> <clause numbers named by the dictionary>` ->
    one letter per clause of `allClauses`: `o` the merged statements return the dictionary's value, `b` the entry's -/
def handleOvr : List String → String
  | [lang, idx, bits, named] =>
    let tbl := if lang == "c" then entriesC else entries
    let e := if idx == "-" then Entry.default else tbl.getD idx.toNat! Entry.default
    let mark : ClauseVal := [(77, [])]
    let ovr := (natsOf named).filterMap (fun i => (allClauses[i]?).map (fun c => (c, mark)))
    match bits.toList.map (· == '1') with
    | [present, update] =>
      let e' := localStmts present update ovr e
      String.ofList (allClauses.map (fun c => if e'.get c == mark then 'o' else 'b'))
    | _ => "bad-op"
  | _ => "bad-op"

end Driver
