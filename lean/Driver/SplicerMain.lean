import Driver.Splicer
open Driver

def dispatchSplicer (line : String) : String :=
  match (line.trimAscii.toString.splitOn " ") with
  | "gs" :: args => handleGs args
  | "col" :: args => handleCol args
  | "rl" :: args => handleRl args
  | "lf" :: args => handleLf args
  | "ext" :: args => handleExt args
  | "ws" :: args => handleWs args
  | "mw" :: args => handleMw args
  | _ => "bad-op"

partial def loopSplicer (h : IO.FS.Stream) (out : IO.FS.Stream) : IO Unit := do
  let line ← h.getLine
  if line.isEmpty then return ()
  out.putStrLn (dispatchSplicer line)
  loopSplicer h out

def main : IO Unit := do
  let out ← IO.getStdout
  loopSplicer (← IO.getStdin) out
  out.flush
