import ShroudVerif.Model.Lines
import Driver.Codec
import ShroudVerif.Gen.LineCfg
namespace Driver
open Shroud.Lines

def decItem (s : String) : Item :=
  if s.startsWith "d:" then .delta (decInt (s.drop 2).toString) else .str (decStr (s.drop 2).toString)

/-- `wc <linelen> <indent> <spaces> <cont> <line>` -/
def handleWc : List String → String
  | [ll, ind, sp, cont, line] =>
    match writeContinue { linelen := ll.toNat!, indent := decInt ind, spaces := decStr sp } (decStr line) with
    | .ok b => "ok " ++ encStrs (render (decStr cont) b)
    | .crash e => "crash " ++ e
  | _ => "bad-op"

/-- `wl <linelen> <indent0> <spaces> <cont> item*` -/
def handleWl : List String → String
  | ll :: ind :: sp :: cont :: items =>
    match writeLines ll.toNat! (decStr sp) (decStr cont) (decInt ind) (items.map decItem) with
    | .ok w => "ok " ++ toString w.indent ++ " " ++ encStrs w.lines
    | .crash e => "crash " ++ e
  | _ => "bad-op"

/-- `wof <comment> <fname> <version> <copyright lines> <linelen> <spaces> <cont> item*` -/
def handleWof : List String → String
  | cm :: fn :: ver :: cr :: ll :: sp :: cont :: items =>
    match writeOutputFile (decStr cm) (decStr fn) (decStr ver) (decStrs cr) ll.toNat! (decStr sp) (decStr cont)
        (items.map decItem) with
    | .ok ls => "ok " ++ encStrs ls
    | .crash e => "crash " ++ e
  | _ => "bad-op"

/-- `lit <line>` -> the line as `_literal_lines` passes it on -/
def handleLit : List String → String
  | [line] => encStr (protect (decStr line))
  | _ => "bad-op"

/-- `em <emitter> <C_line_length> <F_line_length> <indent> <spaces> <line>`: the emitter as its `__init__` configures it -/
def handleEm : List String → String
  | [e, cl, fl, ind, sp, line] =>
    match emitterWrite Shroud.Gen.LineCfg.emitterLineCfg e.toNat! cl.toNat! fl.toNat! (decInt ind) (decStr sp) (decStr line) with
    | some ls => "ok " ++ encStrs ls
    | none => "no-config"
  | _ => "bad-op"

/-- `wcs <indent> <spaces> <cont> <line> <linelen>*`: the same logical line written repeatedly in one session with
    varying line lengths; answers joined by `|` -/
def handleWcs : List String → String
  | ind :: sp :: cont :: line :: lls =>
    "|".intercalate ((wcSession (lls.map fun ll =>
      ({ linelen := ll.toNat!, indent := decInt ind, spaces := decStr sp }, decStr cont, decStr line))).map encStrs)
  | _ => "bad-op"

end Driver
