import Driver.Lines
open Driver

def dispatch (line : String) : String :=
  match (line.trimAscii.toString.splitOn " ") with
  | "wc" :: args => handleWc args
  | "wl" :: args => handleWl args
  | "wof" :: args => handleWof args
  | "lit" :: args => handleLit args
  | "em" :: args => handleEm args
  | "wcs" :: args => handleWcs args
  | _ => "bad-op"

partial def loop (h : IO.FS.Stream) (out : IO.FS.Stream) : IO Unit := do
  let line ← h.getLine
  if line.isEmpty then return ()
  out.putStrLn (dispatch line)
  loop h out

def main : IO Unit := do
  let out ← IO.getStdout
  loop (← IO.getStdin) out
  out.flush
