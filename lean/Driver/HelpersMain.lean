import Driver.Helpers
import Driver.Dox
open Driver

def dispatchHelpers (line : String) : String :=
  match (line.trimAscii.toString.splitOn " ") with
  | "gather" :: args => handleGather args
  | "headers" :: args => handleHeaders args
  | "skel" :: args => handleSkel args
  | "fmod" :: args => handleFmod args
  | "shared" :: args => handleShared args
  | "dox" :: args => handleDox args
  | _ => "bad-op"

partial def loopHelpers (h : IO.FS.Stream) (out : IO.FS.Stream) : IO Unit := do
  let line ← h.getLine
  if line.isEmpty then return ()
  out.putStrLn (dispatchHelpers line)
  loopHelpers h out

def main : IO Unit := do
  let out ← IO.getStdout
  loopHelpers (← IO.getStdin) out
  out.flush
