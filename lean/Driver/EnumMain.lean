import Driver.Enum
open Driver

def dispatchEnum (line : String) : String :=
  match (line.trimAscii.toString.splitOn " ") with
  | "enum" :: args => handleEnum args
  | "evc" :: args => handleEvc args
  | "evf" :: args => handleEvf args
  | "block" :: args => handleBlock args
  | "evbc" :: args => handleEvbc args
  | "evbf" :: args => handleEvbf args
  | _ => "bad-op"

partial def loopEnum (h : IO.FS.Stream) (out : IO.FS.Stream) : IO Unit := do
  let line ← h.getLine
  if line.isEmpty then return ()
  out.putStrLn (dispatchEnum line)
  loopEnum h out

def main : IO Unit := do
  let out ← IO.getStdout
  loopEnum (← IO.getStdin) out
  out.flush
