import Driver.Capsule
open Driver

def dispatchCap (line : String) : String :=
  match (line.trimAscii.toString.splitOn " ") with
  | "reg" :: args => handleReg args
  | "gen" :: args => handleGen args
  | "hist" :: args => handleHist args
  | "ca" :: args => handleCa args
  | _ => "bad-op"

partial def loopCap (h : IO.FS.Stream) (out : IO.FS.Stream) : IO Unit := do
  let line ← h.getLine
  if line.isEmpty then return ()
  out.putStrLn (dispatchCap line)
  loopCap h out

def main : IO Unit := do
  let out ← IO.getStdout
  loopCap (← IO.getStdin) out
  out.flush
