import Driver.WrapF
open Driver

def dispatchWrapF (line : String) : String :=
  match (line.trimAscii.toString.splitOn " ") with
  | "lookup" :: args => handleLookup args
  | "asm" :: args => handleAsm args
  | "route" :: args => handleRoute args
  | "generics" :: args => handleGenerics args
  | "dclones" :: args => handleDclones args
  | "sem" :: args => handleSem args
  | "gtargets" :: args => handleGtargets args
  | "implied" :: args => handleImplied args
  | "ifguards" :: args => handleIfGuards args
  | "ranks" :: args => handleRanks args
  | "pure" :: args => handlePure args
  | "cderef" :: args => handleCDeref args
  | "value" :: args => handleValue args
  | _ => "bad-op"

partial def loopWrapF (h : IO.FS.Stream) (out : IO.FS.Stream) : IO Unit := do
  let line ← h.getLine
  if line.isEmpty then return ()
  out.putStrLn (dispatchWrapF line)
  loopWrapF h out

def main : IO Unit := do
  let out ← IO.getStdout
  loopWrapF (← IO.getStdin) out
  out.flush
