import ShroudVerif.Model.WrapF
namespace Driver
open Shroud.WrapF Shroud.Str

/-- comma-separated naturals, "-" for the empty list -/
def decNats (s : String) : List Nat :=
  if s == "-" then [] else (s.splitOn ",").map String.toNat!

def encNats (l : List Nat) : String :=
  if l.isEmpty then "-" else ",".intercalate (l.map toString)

def b (n : Nat) : Bool := n != 0

def rowsL (lang : String) : List Row := rowsOf (lang == "1")

/-- `lookup <lang> <path>` -> matched path (the side alone for the default block) -/
def handleLookup : List String → String
  | [lang, p] => encNats (lookup (rowsL lang) (decNats p)).path
  | _ => "bad-op"

def decArgD : List Nat → ArgD
  | [a, bb, c, d, e, f, g, h] => ⟨a, bb, c, d, e, b f, g, h⟩
  | _ => ⟨0, 0, 0, 0, 0, false, 0, 0⟩

def decParam (s : String) : Param :=
  let l := decNats s
  { name := l.getD 0 0, c := decArgD ((l.drop 1).take 8), f := decArgD ((l.drop 9).take 8),
    isResult := b (l.getD 17 0), hidden := b (l.getD 18 0), ftrim := b (l.getD 19 0),
    assumedType := b (l.getD 20 0), funPtr := b (l.getD 21 0), implied := l.getD 22 0, f2c := b (l.getD 23 0) }

def encActual : Actual → String
  | .this => "this" | .var n => s!"v{n}" | .local_ n => s!"l{n}" | .result => "res"
  | .trimNul n => s!"t{n}" | .lenTrim n => s!"lt{n}" | .len n => s!"ln{n}" | .size n => s!"sz{n}"
  | .ctx n => s!"cx{n}" | .capsule n => s!"cp{n}" | .shadow n => s!"sh{n}" | .implied n => s!"im{n}"
  | .cast n => s!"ca{n}" | .f2c n => s!"fc{n}" | .cloc n => s!"cl{n}" | .fptr n => s!"fp{n}"

/-- `asm <lang> <kind,fFunction,cFunction,genSuffix,resAsArg,rsgroup,rspointer,rderef,rowner> <param>*` -/
def handleAsm : List String → String
  | lang :: hd :: ps =>
    let h := decNats hd
    let fn : Fn := { kind := h.getD 0 0, fFunction := b (h.getD 1 0), cFunction := b (h.getD 2 0),
                     genSuffix := h.getD 3 0, resAsArg := b (h.getD 4 0), rsgroup := h.getD 5 0,
                     rspointer := h.getD 6 0, rderef := h.getD 7 0, rowner := h.getD 8 0, resSuffix := h.getD 9 0,
                     params := ps.map decParam }
    let a := assembleF (rowsL lang) fn
    encNats a.fargs ++ " " ++ (if a.actuals.isEmpty then "-" else ",".intercalate (a.actuals.map encActual))
      ++ " " ++ ";".intercalate (a.matched.map (fun m => encNats m.1 ++ ">" ++ encNats m.2))
  | _ => "bad-op"

def decOptNat (n : Nat) : Option Nat := if n == 0 then none else some (n - 1)

/-- node = ptrFC+1,ptrCCxx+1,wrapF,generic,genericKind,force,nparams -/
def decNode (s : String) : Node :=
  let l := decNats s
  ⟨decOptNat (l.getD 0 0), decOptNat (l.getD 1 0), b (l.getD 2 0), l.getD 3 0, l.getD 4 0, b (l.getD 5 0), l.getD 6 0⟩

/-- `route <i> <node>*` -> C node index and library node index -/
def handleRoute : List String → String
  | i :: ns =>
    let tab := ns.map decNode
    let c := routeC tab (tab.length + 1) i.toNat!
    s!"{c} {routeCxx tab (tab.length + 1) c}"
  | _ => "bad-op"

/-- `generics <node>*` (indices = positions) -> name:members;... of the emitted interfaces -/
def handleGenerics (ns : List String) : String :=
  let tab := ns.map decNode
  let gs := emittedGenerics (collectGenerics ((List.range tab.length).zip tab) [])
  if gs.isEmpty then "-" else ";".intercalate (gs.map (fun g => s!"{g.1}:{encNats g.2}"))

/-- `dclones <inits as 0/1 list>` -> arities of the default-argument clones -/
def handleDclones : List String → String
  | [s] =>
    let inits := (decNats s).map b
    encNats ((defaultClones (List.range inits.length) inits).map List.length)
  | _ => "bad-op"

def decVal : List String → Val
  | ["i", n] => .int n.toInt!
  | ["b", n] => .bool (n == "1")
  | ["s", n] => .buf (decNats n)
  | ["S", n] => .str (decNats n)
  | ["a", n] => .arr ((decNats n).map Int.ofNat)
  | _ => .null

def encVal : Val → String
  | .int i => s!"i:{i}" | .bool x => if x then "b:1" else "b:0" | .buf l => "s:" ++ encNats l
  | .str l => "S:" ++ encNats l | .arr l => "a:" ++ ",".intercalate (l.map toString)
  | .obj a => s!"o:{a}" | .null => "null"
  | .vec l => "V:" ++ ",".intercalate (l.map toString)
  | .ctx c => s!"ctx:{c.size}"
  | .carr n l b => s!"C:{n}:{l}:" ++ encNats b
  | .ptrs l => "P:" ++ ";".intercalate (l.map encNats)
  | .vstr l => "VS:" ++ ";".intercalate (l.map encNats)
  | .stru l => "REC:" ++ ",".intercalate (l.map toString)
  | .ref a l => s!"R:{a}:" ++ ",".intercalate (l.map toString)

def dv (s : String) : Val := decVal (s.splitOn ":")

/-- `sem <lang> <fpath> <cpath> <cfi> <byRef> <actual> <mode a|r> <value the library leaves / returns>`
    -> received, final, leaked (table rows looked up in the regenerated table) -/
def handleSem : List String → String
  | [lang, fp, cp, cfi, byRef, actual, mode, lv] =>
    let rows := rowsL lang
    let F := (lookup rows (decNats fp)).fspec
    let C := (lookup rows (decNats cp)).cspec (cfi == "1")
    let call : Call := if mode == "r" then .result (dv lv) else if lv == "same" then .arg id else .arg (fun _ => dv lv)
    match runArg F C (byRef == "1") (dv actual) call with
    | .ok o => (match o.received with | some v => encVal v | none => "none") ++ " " ++ encVal o.final ++ s!" {o.leaked}"
    | .oob => "undefined"
  | _ => "bad-op"

def decPR (s : String) : List (Bool × Nat) :=
  if s == "-" then [] else (s.splitOn ";").map fun t =>
    match decNats t with
    | [a, r] => (b a, r)
    | _ => (false, 0)

/-- `gtargets <self> <next> <cparams> <generic params>*`, params as `native,rank;...` -/
def handleGtargets : List String → String
  | self :: next :: cp :: gs => encNats (genericTargets self.toNat! next.toNat! (decPR cp) (gs.map decPR))
  | _ => "bad-op"

/-- prefix encoding: T, F, i<n>, c<v>, s<a>, l<a>, t<a>, y<a>, b<op> e e, n e, p e -/
def decIExpr : Nat → List String → Option (IExpr × List String)
  | 0, _ => none
  | _ + 1, [] => none
  | fuel + 1, t :: ts =>
    let n := (t.drop 1).toString.toNat!
    if t == "T" then some (.tru, ts) else if t == "F" then some (.fls, ts)
    else if t.startsWith "i" then some (.ident n, ts)
    else if t.startsWith "c" then some (.const n, ts)
    else if t.startsWith "s" then some (.size n, ts)
    else if t.startsWith "l" then some (.len n, ts)
    else if t.startsWith "t" then some (.lenTrim n, ts)
    else if t.startsWith "y" then some (.typ n, ts)
    else if t.startsWith "b" then
      match decIExpr fuel ts with
      | some (l, r1) => match decIExpr fuel r1 with
        | some (r, r2) => some (.bin n l r, r2)
        | none => none
      | none => none
    else if t == "n" then (decIExpr fuel ts).map fun (e, r) => (.neg e, r)
    else if t == "p" then (decIExpr fuel ts).map fun (e, r) => (.paren e, r)
    else none

def encITok : ITok → String
  | .tru => "T" | .fls => "F" | .arg n => s!"@{n}" | .num v => toString v
  | .size a => s!"size(@{a},kind=K)" | .len a => s!"len(@{a},kind=K)" | .lenTrim a => s!"len_trim(@{a},kind=K)"
  | .shType c => s!"#{c}"
  | .op 1 => "+" | .op 2 => "-" | .op 3 => "*" | .op 4 => "/" | .op o => s!"?{o}"
  | .lp => "(" | .rp => ")"

/-- `implied <a:code,...  sh_type codes of the wrapped function's own arguments> <prefix tokens>` -/
def handleImplied : List String → String
  | tab :: toks =>
    let pairs := if tab == "-" then [] else (tab.splitOn ",").map fun p =>
      match p.splitOn ":" with
      | [a, c] => (a.toNat!, c.toNat!)
      | _ => (0, 0)
    let sh := fun a => ((pairs.find? (fun p => p.1 == a)).map (·.2)).getD 0
    match decIExpr (toks.length + 1) toks with
    | some (e, []) => "".intercalate ((e.render sh).map encITok)
    | _ => "bad-expr"
  | _ => "bad-op"

/-- `ifguards <member guards>` -> block guard and per-member guards -/
def handleIfGuards : List String → String
  | [cs] => let g := emitInterfaceGuards (decNats cs); s!"{g.1} {encNats g.2}"
  | _ => "bad-op"

/-- `ranks <min> <max>` -/
def handleRanks : List String → String
  | [lo, hi] => encNats (assumedRanks lo.toNat! hi.toNat!)
  | _ => "bad-op"

/-- `pure <lang> <isFunction,pureAttr,funcConst,resultShadow,rsgroup,rspointer,ressuffix> <intents>` -> 1 if PURE -/
def handlePure : List String → String
  | [lang, hd, ints] =>
    let h := decNats hd
    let ctx := (lookup (rowsL lang) [1, h.getD 4 0, h.getD 5 0, 43, h.getD 6 0]).bufArgs.contains 6
    let d : IfaceD := ⟨b (h.getD 0 0), b (h.getD 1 0), b (h.getD 2 0), b (h.getD 3 0), ctx, decNats ints⟩
    if interfacePure d then "1" else "0"
  | _ => "bad-op"

/-- `cderef <lang> <cpath> <isIndirect>` -> c_deref c_member c_addr as 0/1 (local-variable kind from the table row) -/
def handleCDeref : List String → String
  | [lang, cp, ind] =>
    let r := lookup (rowsL lang) (decNats cp)
    let x := computeCDeref r.cxxLocal (ind == "1")
    let f := fun (v : Bool) => if v then "1" else "0"
    f x.1 ++ f x.2.1 ++ f x.2.2
  | _ => "bad-op"

/-- `value <assumedtype,given(0 none 1 false 2 true),isIndirect,isVoid,nptr,isArray,isConst,intent>` ->
    `attrs["value"]` after check_arg_attrs: `-` none, `0`, `1`, `raise` -/
def handleValue : List String → String
  | [hd] =>
    let h := decNats hd
    let g : Option Bool := match h.getD 1 0 with | 1 => some false | 2 => some true | _ => none
    let d : ValueD := ⟨b (h.getD 0 0), g, b (h.getD 2 0), b (h.getD 3 0), h.getD 4 0, b (h.getD 5 0), b (h.getD 6 0), h.getD 7 0⟩
    match valueAttr d with
    | .ok none => "-"
    | .ok (some true) => "1"
    | .ok (some false) => "0"
    | .oob => "raise"
  | _ => "bad-op"

end Driver
