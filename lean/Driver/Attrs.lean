import ShroudVerif.Model.Attrs
import ShroudVerif.Gen.AttrTables
import Driver.Decl
/-!
`vattrs fcn|var <patterns> <decl>`: attribute validation of one function / variable.
`vattrs fcng <patterns> <decl> <ngen> ( <ndecls> decl{ndecls} ){ngen}`: a function with `fortran_generic` entries.

  decl := D <ptrs|-> <arr> <const> <hastm> <tmName> <tmBase> <tmSgroup> <fptr> <init> <ntargs> <targtm>
            <name|~> <nattrs> <nparams|-1> attr{nattrs} decl{nparams}
  attr := <key> ( b | f | i:<int> | r:<trunc>:<nz> | l:<ne> | t:<text>:<int|~>:<ntoks> token{ntoks} )
-/
namespace Driver
open Shroud.Decl Shroud.Attrs

def tables : Tables :=
  { fcnAttrs := Shroud.Gen.AttrTables.fcnAttrs, argAttrs := Shroud.Gen.AttrTables.argAttrs,
    varAttrs := Shroud.Gen.AttrTables.varAttrs, intentValues := Shroud.Gen.AttrTables.intentValues,
    derefValues := Shroud.Gen.AttrTables.derefValues, ownerValues := Shroud.Gen.AttrTables.ownerValues,
    derefOutShapes := Shroud.Gen.AttrTables.derefOutShapes }

def bit (s : String) : Bool := s == "1"

def decPtrs (s : String) : List PtrK :=
  if s == "-" then [] else s.toList.map (fun c => if c == '&' then PtrK.ref else PtrK.star)

def takeToks : Nat → List String → Toks × List String
  | 0, r => ([], r)
  | n+1, a :: r => let (ts, r') := takeToks n r; (reclass (decTok a) :: ts, r')
  | _, [] => ([], [])

def decVal (v : String) (rest : List String) : AVal × List String :=
  match v.splitOn ":" with
  | ["b"] => (.bare, rest)
  | ["f"] => (.boolFalse, rest)
  | ["i", n] => (.int n.toInt!, rest)
  | ["r", tr, nz] => (.real tr.toInt! (bit nz), rest)
  | ["l", ne] => (.list (bit ne), rest)
  | ["t", txt, i, n] =>
    let (ts, r) := takeToks n.toNat! rest
    (.text (decStr txt) ts (if i == "~" then none else some i.toInt!), r)
  | _ => (.list true, rest)

def takeAttrs : Nat → List String → List (Str × AVal) × List String
  | 0, r => ([], r)
  | n+1, k :: v :: r =>
    let (av, r1) := decVal v r
    let (as, r2) := takeAttrs n r1
    ((decStr k, av) :: as, r2)
  | _, r => ([], r)

mutual
def decADecl : Nat → List String → Option (ADecl × List String)
  | 0, _ => none
  | f+1, "D" :: ptrs :: arr :: cst :: htm :: tn :: tb :: tsg :: fp :: ini :: nt :: ttm :: nm :: na :: np :: rest =>
    let (attrs, r1) := takeAttrs na.toNat! rest
    if np == "-1" then
      some (.mk (decPtrs ptrs) (bit arr) (bit cst) (bit htm) (decStr tn) (decStr tb) (decStr tsg) (bit fp) (bit ini)
        nt.toNat! (bit ttm) (if nm == "~" then none else some (decStr nm)) attrs none, r1)
    else
      match decADecls f np.toNat! r1 with
      | some (ps, r2) =>
        some (.mk (decPtrs ptrs) (bit arr) (bit cst) (bit htm) (decStr tn) (decStr tb) (decStr tsg) (bit fp) (bit ini)
          nt.toNat! (bit ttm) (if nm == "~" then none else some (decStr nm)) attrs (some ps), r2)
      | none => none
  | _, _ => none
def decADecls : Nat → Nat → List String → Option (List ADecl × List String)
  | 0, _, _ => none
  | _, 0, r => some ([], r)
  | f+1, k+1, r =>
    match decADecl f r with
    | some (d, r1) =>
      match decADecls f k r1 with
      | some (ds, r2) => some (d :: ds, r2)
      | none => none
    | none => none
end

def serNorm (n : Norm) : String :=
  (match n.intent with | some s => String.ofList s | none => "~") ++ "," ++ b01 n.valueTrue ++ ","
    ++ (match n.deref with | some s => String.ofList s | none => "~") ++ ","
    ++ (match n.rank with | some r => toString r | none => "~")

/-- `<ngen> ( <ndecls> decl{ndecls} ){ngen}` -/
def decGenerics : Nat → Nat → List String → Option (List (List ADecl))
  | 0, _, _ => none
  | _, 0, _ => some []
  | f+1, k+1, n :: r =>
    match decADecls (r.length + 2) n.toNat! r with
    | some (g, r1) =>
      match decGenerics f k r1 with
      | some gs => some (g :: gs)
      | none => none
    | none => none
  | _, _, [] => none

def handleVattrs (args : List String) : String :=
  match args.filter (· ≠ "") with
  | kind :: pats :: rest =>
    match decADecl (rest.length + 2) rest with
    | some (d, rest') =>
      if kind == "var" then
        match checkVar tables d with
        | .ok _ => "ok"
        | .reject i => "reject " ++ i
        | .crash e => "crash " ++ e
      else if kind == "fcng" then
        match rest' with
        | ng :: r =>
          match decGenerics (ng.toNat! + 1) ng.toNat! r with
          | some gens =>
            match checkFcnG tables (decStrs pats) gens d with
            | .ok ns => "ok " ++ ";".intercalate (ns.map serNorm)
            | .reject i => "reject " ++ i
            | .crash e => "crash " ++ e
          | none => "bad-generics"
        | [] => "bad-generics"
      else
        match checkFcn tables (decStrs pats) d with
        | .ok ns => "ok " ++ ";".intercalate (ns.map serNorm)
        | .reject i => "reject " ++ i
        | .crash e => "crash " ++ e
    | none => "bad-decl"
  | _ => "bad-op"

end Driver
