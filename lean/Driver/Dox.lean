import ShroudVerif.Model.Doxygen
import Driver.Helpers
/-!
    dox <begin> <cont> <end> <brief> <descr> <return>     code point lists `n,n,...` ("~" empty text, "-" key absent)
                                 -> elements joined by `|` (each `n,n,...`, "~" empty)
-/
namespace Driver
open Shroud.Doxygen

def decOptText (s : String) : Option (List Nat) :=
  if s == "-" then none else some (decNats s)

def handleDox : List String → String
  | [b, c, e, br, de, re] =>
    let out := writeDoxygen (decNats b) (decNats c) (decNats e) ⟨decOptText br, decOptText de, decOptText re⟩
    "|".intercalate (out.map encNats)
  | _ => "bad-op"

end Driver
