import ShroudVerif.Model.Scope
import ShroudVerif.Model.ScopeExt
import Driver.Codec
/-!
Line protocol for the scope engine (C14).

`sc  op*`                 a `util.Scope` program, one result token per op
`tr  <keys> <top> item*`  option scopes of a declaration tree
`at  tok*`                `Parser.attribute` on a token list
`cl  <yopts> <ylang> <lang> opt*`   `--option` / `--language` merge
`fa  <params> <fattrs> <attrs kw> <fattrs kw> generic*`   `FunctionNode.__init__` attrs merge
`lo  <defaults> <kLit> <kLit2> <yopts> <ylang> <lang> opt*`   the library's option scope
`sp  <files> <name> path*`   splicer file along the search path
-/
namespace Driver
open Shroud.Scope

def natOf (s : String) : Nat := s.toNat!

def optNat (s : String) : Option Nat := if s == "N" then none else some s.toNat!

/-- `k=v,k=v` or `-` -/
def decPairs (s : String) : List (Nat × Nat) :=
  if s == "-" then [] else
    (s.splitOn ",").map (fun kv => match kv.splitOn "=" with
      | [k, v] => (k.toNat!, v.toNat!)
      | _ => (0, 0))

def decNats (s : String) : List Nat :=
  if s == "-" then [] else (s.splitOn ",").map String.toNat!

def encPairs (d : List (Nat × Nat)) : String :=
  if d.isEmpty then "-" else ",".intercalate (d.map (fun kv => toString kv.1 ++ "=" ++ toString kv.2))

def encLook : Look → String
  | .found v => "F" ++ toString v
  | .missing => "M"
  | .recursion => "R"

def encBool (b : Bool) : String := if b then "T" else "F"

def scOp (h : Heap) (op : String) : Heap × String :=
  match op.splitOn ":" with
  | ["new", p, kw] => let (h', i) := new h (optNat p) (decPairs kw); (h', toString i)
  | ["get", i, k] => (h, encLook (getattr h (natOf i) (natOf k)))
  | ["has", i, k] => (h, match contains h (natOf i) (natOf k) with
      | .found _ => "T" | .missing => "F" | .recursion => "R")
  | ["getd", i, k, d] => (h, encLook (get h (natOf i) (natOf k) (natOf d)))
  | ["set", i, k, v] => (setattr h (natOf i) (natOf k) (natOf v), "ok")
  | ["sd", i, k, v] => let (h', r) := setdefault h (natOf i) (natOf k) (natOf v); (h', toString r)
  | ["up", i, rep, kw] =>
    let (h', ok) := update h (natOf i) (rep == "1") (decPairs kw)
    (h', if ok then "ok" else "R")
  | ["loc", i, k] => (h, encBool (inlocal h (natOf i) (natOf k)))
  | ["del", i, ks] => (delattrs h (natOf i) (decNats ks), "ok")
  | ["cl", i] => let (h', j) := clone h (natOf i); (h', toString j)
  | ["rp", i, p] => (reparent h (natOf i) (optNat p), "ok")
  | ["sul", i, k, v] => (setUnlessLocal h (natOf i) (natOf k) (natOf v), "ok")
  | ["cc", c, fs] =>
    let (h', ncls, nfs) := cloneClass h (natOf c) (decNats fs)
    let rec up : Nat → Nat → List Nat → List Nat
      | 0, _, acc => acc.reverse
      | fuel + 1, i, acc =>
        match h'[i]? with
        | some fr => match fr.parent with
          | some p => up fuel p (p :: acc)
          | none => acc.reverse
        | none => acc.reverse
    let chains := nfs.map (fun i =>
      let c := up 12 i []
      if c.isEmpty then "-" else ",".intercalate (c.map toString))
    (h', toString ncls ++ ";" ++ (if nfs.isEmpty then "-" else ",".intercalate (nfs.map toString))
      ++ "|" ++ "|".intercalate chains)
  | ["dict", i] => (h, match h[natOf i]? with
      | some fr => encPairs fr.locals
      | none => "?")
  | _ => (h, "bad-op")

def handleSc (ops : List String) : String :=
  let (_, out) := ops.foldl (fun (acc : Heap × List String) op =>
    let (h', r) := scOp acc.1 op; (h', r :: acc.2)) (([] : Heap), ([] : List String))
  " ".intercalate out.reverse

/-- items: `F:<name>:<dict>`, `S:<kind>:<dict>`, `E`.  Fuel-bounded parser. -/
def kindOf (s : String) : Kind := if s == "ns" then .ns else if s == "cls" then .cls else .block

def parseDecls : Nat → List String → Decls Nat × List String
  | 0, ts => (.nil, ts)
  | _ + 1, [] => (.nil, [])
  | fuel + 1, t :: r =>
    match t.splitOn ":" with
    | ["E"] => (.nil, r)
    | ["F", n, d] =>
      let (rest, r') := parseDecls fuel r
      (.fn (natOf n) (decPairs d) rest, r')
    | ["S", kd, d] =>
      let (body, r1) := parseDecls fuel r
      let (rest, r2) := parseDecls fuel r1
      (.scope (kindOf kd) (decPairs d) body rest, r2)
    | _ => (.nil, r)

def encOpt : Option Nat → String
  | some v => toString v
  | none => "-"

/-- `tr <query keys> <top dict> item*` ->
    `nodes | per function lookups (heap) | per function lookups (views)` -/
def handleTr : List String → String
  | keys :: top :: items =>
    let qs := decNats keys
    let d := (parseDecls (items.length + 1) items).1
    let (h, nodes) := buildLib (decPairs top) d
    let nodeS := nodes.map (fun (isf, i) => (if isf then "f" else "s") ++ ":" ++
      (match h[i]? with | some fr => encPairs fr.locals | none => "?"))
    let fnS := (nodes.filter (·.1)).map (fun (_, i) =>
      ",".intercalate (qs.map (fun k => match getattr h i k with
        | .found v => toString v | _ => "-")))
    let vS := (libViews (decPairs top) d).map (fun c =>
      ",".intercalate (qs.map (fun k => encOpt (lookupChain c k))))
    " ".intercalate nodeS ++ " | " ++ " ".intercalate fnS ++ " | " ++ " ".intercalate vS
  | _ => "bad-op"

def ttOf (s : String) : TT :=
  match s with
  | "PLUS" => .plus | "ID" => .ident | "LPAREN" => .lparen | "RPAREN" => .rparen
  | "EQUALS" => .equals | "INTEGER" => .integer | "REAL" => .real | "DQUOTE" => .dquote
  | "SQUOTE" => .squote | "EOF" => .eof | _ => .other

def decTok (s : String) : Tok :=
  match s.splitOn ":" with
  | [t, v] => ⟨ttOf t, decStr v⟩
  | _ => ⟨.other, []⟩

def encAVal : AVal → String
  | .tru => "T"
  | .str s => "s:" ++ encStr s
  | .int s => "i:" ++ encStr s
  | .flt s => "f:" ++ encStr s
  | .none => "N"

/-- identity-free interning for the driver: the name itself, as a base-2^21 number -/
def internName (s : List Char) : Nat := s.foldl (fun acc c => acc * 2097152 + c.toNat + 1) 0

def unintern (n : Nat) : List Char :=
  let rec go : Nat → Nat → List Char → List Char
    | 0, _, acc => acc
    | fuel + 1, n, acc =>
      if n == 0 then acc else go fuel (n / 2097152) (Char.ofNat (n % 2097152 - 1) :: acc)
  go 64 n []

/-- `at tok*` -> `ok name=val;... <tokens left>` | `error` -/
def handleAt (toks : List String) : String :=
  let ts := toks.map decTok
  match parseAttrs internName ts [] with
  | .ok (d, rest) =>
    "ok " ++ (if d.isEmpty then "~" else ";".intercalate (d.map (fun kv =>
      encStr (unintern kv.1) ++ "=" ++ encAVal kv.2))) ++ " " ++ toString rest.length
  | .error _ => "error"

def encCVal : CVal → String
  | .bool b => if b then "b:1" else "b:0"
  | .int n => "i:" ++ toString n
  | .str s => "s:" ++ encStr s

def decCVal (s : String) : CVal :=
  if s == "b:1" then .bool true else if s == "b:0" then .bool false
  else if s.startsWith "i:" then .int (s.drop 2).toString.toNat! else .str (decStr (s.drop 2).toString)

def encCDict (d : Dict CVal) : String :=
  if d.isEmpty then "~" else ";".intercalate (d.map (fun kv => encStr (unintern kv.1) ++ "=" ++ encCVal kv.2))

/-- yopts: `A` absent, `Z` null, `D` followed by `~` or `name=cval;...` -/
def decYOpts (s : String) : YOpts :=
  if s == "A" then .absent else if s == "Z" then .null else
    let body := (s.drop 1).toString
    if body == "~" then .dict [] else
      .dict ((body.splitOn ";").map (fun kv => match kv.splitOn "=" with
        | [k, v] => (internName (decStr k), decCVal v)
        | _ => (0, .bool false)))

def decOptStr (s : String) : Option (List Char) := if s == "N" then none else some (decStr s)
def encOptStr : Option (List Char) → String
  | none => "N"
  | some s => encStr s

/-- `cl <yopts> <ylang> <lang> opt*` -/
def handleCl : List String → String
  | yo :: yl :: lang :: opts =>
    match mergeCli internName (decYOpts yo) (decOptStr yl) (opts.map decStr) (decOptStr lang) with
    | .ok o l => "ok " ++ (match o with
        | .absent => "A" | .null => "Z" | .dict d => "D" ++ encCDict d) ++ " " ++ encOptStr l
    | .valueError => "crash ValueError"
    | .attributeError => "crash AttributeError"
  | _ => "bad-op"

/-! ### `fa`: FunctionNode attrs merge.  Names and types are numbers interned by the harness. -/

def decAVal (s : String) : AVal :=
  if s == "T" then .tru else if s == "N" then .none
  else if s.startsWith "s:" then .str (decStr (s.drop 2).toString)
  else if s.startsWith "i:" then .int (decStr (s.drop 2).toString)
  else .flt (decStr (s.drop 2).toString)

/-- `k=v;k=v` or `~` -/
def decADict (s : String) : List (Nat × AVal) :=
  if s == "~" then [] else
    (s.splitOn ";").map (fun kv => match kv.splitOn "=" with
      | [k, v] => (k.toNat!, decAVal v)
      | _ => (0, .none))

def encADict (d : List (Nat × AVal)) : String :=
  if d.isEmpty then "~" else ";".intercalate (d.map (fun kv => toString kv.1 ++ "=" ++ encAVal kv.2))

/-- `name/ty/dict` -/
def decParam (s : String) : Param :=
  match s.splitOn "/" with
  | [n, t, d] => ⟨n.toNat!, t.toNat!, decADict d⟩
  | _ => ⟨0, 0, []⟩

def encParam (p : Param) : String := toString p.name ++ "/" ++ toString p.ty ++ "/" ++ encADict p.attrs

def decParams (s : String) : List Param := if s == "-" then [] else (s.splitOn "|").map decParam
def encParams (ps : List Param) : String := if ps.isEmpty then "-" else "|".intercalate (ps.map encParam)

/-- `N` | `E` | `name>dict|name>X` -/
def decAttrsKw (s : String) : Option (Dict YAttr) :=
  if s == "N" then none else if s == "E" then some [] else
    some ((s.splitOn "|").map (fun e => match e.splitOn ">" with
      | [n, d] => (n.toNat!, if d == "X" then YAttr.other else YAttr.dict (decADict d))
      | _ => (0, YAttr.other)))

def handleFa : List String → String
  | ps :: fa :: akw :: fkw :: gens =>
    match fnInit { params := decParams ps, fattrs := decADict fa, attrsKw := decAttrsKw akw,
                   fattrsKw := if fkw == "N" then none else some (decADict fkw),
                   generics := gens.map decParams } with
    | .ok o => " ".intercalate (["ok", encParams o.params, encADict o.fattrs] ++ o.generics.map encParams)
    | .notDict n => "notdict " ++ toString n
  | _ => "bad-op"

/-! ### `lo`: the library's option scope -/

def handleLo : List String → String
  | dflt :: kl :: kl2 :: yo :: yl :: lang :: opts =>
    let defaults := match decYOpts dflt with | .dict d => d | _ => []
    match mergeCli internName (decYOpts yo) (decOptStr yl) (opts.map decStr) (decOptStr lang) with
    | .ok y _ => "ok " ++ encCDict (libOptions defaults (internName (decStr kl)) (internName (decStr kl2)) y)
    | .valueError => "crash ValueError"
    | .attributeError => "crash AttributeError"
  | _ => "bad-op"

/-! ### `sp`: search path over a finite set of existing files -/

def decPath (s : String) : List Nat := (decStr s).map Char.toNat
def encPath (p : List Nat) : String := encStr (p.map Char.ofNat)

def handleSp : List String → String
  | files :: name :: paths =>
    let fs := (decStrs files).map (fun f => f.map Char.toNat)
    match splicerFile (fun f => fs.contains f) (paths.map decPath) (decPath name) with
    | some f => "some " ++ encPath f
    | none => "none"
  | _ => "bad-op"

end Driver
