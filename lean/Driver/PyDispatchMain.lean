import Driver.PyDispatch
import Driver.PyImplied
open Driver

def dispatch (line : String) : String :=
  match (line.trimAscii.toString.splitOn " ") with
  | "gen" :: args => handleGen args
  | "call" :: args => handleCall args
  | "disp" :: args => handleDisp args
  | "sgen" :: args => handleSGen args
  | "scall" :: args => handleSCall args
  | "getlist" :: args => handleGetList args
  | "fill" :: args => handleFill args
  | "charptr" :: args => handleCharPtr args
  | "fillchar" :: args => handleFillChar args
  | "irender" :: args => handleIRender args
  | "ieval" :: args => handleIEval args
  | "descr" :: args => handleDescr args
  | _ => "bad-op"

partial def loop (h : IO.FS.Stream) (out : IO.FS.Stream) : IO Unit := do
  let line ← h.getLine
  if line.isEmpty then return ()
  out.putStrLn (dispatch line)
  loop h out

def main : IO Unit := do
  let out ← IO.getStdout
  loop (← IO.getStdin) out
  out.flush
