import ShroudVerif.Model.Interop
import Driver.Codec
/-!
Line protocol for the C04 model.

  fn <this 0|1> <item>;<item>;...        (`~` for no items)
  item = A|B|C|D
    A = cb,cn,fb,fn,tb,tn,scb,scn,sfb,sfn,ptr,value,farray,assumedtype,atArray,funptr,fcDim   (17 numbers)
    B = buf codes joined by '.'  (0 arg 1 shadow 2 arg_decl 3 size 4 capsule 5 context 6 len_trim 7 len), '-' if none
    C = c_arg_decl templates  k.c.n.p joined by '/', '-' if none
    D = f_arg_decl templates  k.c.n.v.s joined by '/', '-' if none
  -> P <c.n.ptr> ...#F <c.n.v.s> ...#ok=<0|1>#names=<n>
-/
namespace Driver
open Shroud.Interop

def nats (s : String) (sep : String) : List Nat :=
  if s == "-" || s == "" then [] else (s.splitOn sep).map (fun t => t.toNat!)

def decBuf : Nat → Option Buf
  | 0 => some .arg | 1 => some .shadow | 2 => some .argDecl | 3 => some .size | 4 => some .capsule
  | 5 => some .context | 6 => some .lenTrim | 7 => some .len | _ => none

def decArg (xs : List Nat) : Option Arg :=
  match xs with
  | [cb, cn, fb, fn, tb, tn, scb, scn, sfb, sfn, ptr, value, farray, aty, ata, fp, dim] =>
    match decCBase cb cn, decFBase fb fn, decFBase tb tn, decCBase scb scn, decFBase sfb sfn, decShape dim with
    | some c, some f, some t, some sc, some sf, some d =>
      some ⟨c, f, t, sc, sf, ptr, value == 1, farray == 1, aty == 1, ata == 1, fp == 1, d⟩
    | _, _, _, _, _, _ => none
  | _ => none

def decItem (s : String) : Option Item :=
  match s.splitOn "|" with
  | [a, b, c, d] =>
    match decArg (nats a ","), allSome ((nats b ".").map decBuf) with
    | some arg, some bufs =>
      let cs := if c == "-" then some [] else allSome ((c.splitOn "/").map (fun t =>
        match nats t "." with
        | [k, cc, n, p] => decCT (k, cc, n, p)
        | _ => none))
      let fs := if d == "-" then some [] else allSome ((d.splitOn "/").map (fun t =>
        match nats t "." with
        | [k, cc, n, v, sh] => decFT (k, cc, n, v, sh)
        | _ => none))
      match cs, fs with
      | some cs, some fs => some ⟨arg, bufs, cs, fs⟩
      | _, _ => none
    | _, _ => none
  | _ => none

def encCBase : CBase → String
  | .int n _ => s!"1.{n}" | .float n => s!"2.{n}" | .complex n => s!"3.{n}" | .bool => "4.1" | .char => "5.1"
  | .void => "6.0" | .struct i => s!"7.{i}" | .cdesc => "8.0" | .funptr => "9.0"

def encFBase : FBase → String
  | .integer n => s!"1.{n}" | .real n => s!"2.{n}" | .complex n => s!"3.{n}" | .logical n => s!"4.{n}"
  | .character => "5.1" | .cptr => "6.0" | .derived i => s!"7.{i}" | .assumedType => "8.0"
  | .procedure => "9.0" | .cfunptr => "10.0"

def encShape : FShape → String
  | .scalar => "0" | .array => "1" | .desc => "2"

def encP (p : ParamC) : String := s!"{encCBase p.base}.{p.ptr}"
def encD (d : DummyF) : String := s!"{encFBase d.base}.{if d.value then 1 else 0}.{encShape d.shape}"

def handleFn (args : List String) : String :=
  match args with
  | [this, items] =>
    let its := if items == "~" then some [] else allSome ((items.splitOn ";").map decItem)
    match its with
    | none => "bad-item"
    | some its =>
      let t := this == "1"
      let ps := protoList t its
      let ds := ifaceList t its
      let ok := its.all itemOK
      s!"P {" ".intercalate (ps.map encP)}#F {" ".intercalate (ds.map encD)}#ok={if ok then 1 else 0}#names={nameCount t its}"
  | _ => "bad-args"

/-- `ov <this> <items> <uP> <uN> <declared>`: uP = `-` or c.n.ptr joined by `/` (the user's C_prototype, classified; `~` = empty),
    uN = `-` or name ids joined by `.`, declared = name ids the generated declarations declare, joined by `.`
    -> P <final C classes>#F <dummies>#N <final dummy names>#ok=<overrideOK && all items OK> -/
def handleOverride (args : List String) : String :=
  match args with
  | [this, items, uP, uN, declared] =>
    let its := if items == "~" then some [] else allSome ((items.splitOn ";").map decItem)
    let up : Option (Option (List ParamC)) :=
      if uP == "-" then some none else if uP == "~" then some (some []) else
        (allSome ((uP.splitOn "/").map (fun t => match nats t "." with
          | [a, b, c] => decC (a, b, c)
          | _ => none))).map some
    match its, up with
    | some its, some up =>
      let t := this == "1"
      let un : Option (List Nat) := if uN == "-" then none else some (nats uN ".")
      let decl := nats declared "."
      let ok := its.all itemOK && overrideOK up un t its decl
      s!"P {" ".intercalate ((protoFinal up t its).map encP)}#F {" ".intercalate ((ifaceList t its).map encD)}#N {".".intercalate ((namesFinal un decl).map toString)}#ok={if ok then 1 else 0}"
    | _, _ => "bad-item"
  | _ => "bad-args"

/-- `io <c.n.ptr> <c.n.v.s>`: the model's interoperability table for one pair -/
def handleInterop (args : List String) : String :=
  match args with
  | [c, f] =>
    match nats c ".", nats f "." with
    | [cc, cn, p], [fc, fn, v, sh] =>
      match decC (cc, cn, p), decF (fc, fn, v, sh) with
      | some pc, some df => if interop pc df then "1" else "0"
      | _, _ => "bad-class"
    | _, _ => "bad-args"
  | _ => "bad-args"

/-- `st <m>;<m>;...` with m = cb,cn,fb,fn,ptr,dims (dims `-` or d1xd2x..) : the model's C struct fields and Fortran components -/
def handleStruct (args : List String) : String :=
  match args with
  | [ms] =>
    let dec := fun (t : String) =>
      match t.splitOn "," with
      | [cb, cn, fb, fn, ptr, dims] =>
        match decCBase cb.toNat! cn.toNat!, decFBase fb.toNat! fn.toNat! with
        | some c, some f => some (⟨c, f, ptr.toNat!, nats dims "x"⟩ : Member)
        | _, _ => none
      | _ => none
    match (if ms == "~" then some [] else allSome ((ms.splitOn ";").map dec)) with
    | none => "bad-member"
    | some mems =>
      let encDims := fun (ds : List Nat) => if ds.isEmpty then "-" else "x".intercalate (ds.map toString)
      let cs := (structC mems).map (fun c => s!"{encCBase c.base}.{c.ptr}.{encDims c.dims}")
      let fs := (structF mems).map (fun f => s!"{encFBase f.base}.{encDims f.dims}")
      s!"C {" ".intercalate cs}#F {" ".intercalate fs}"
  | _ => "bad-args"

/-- `rs sub cb.cn fb.fn ptr farray dS dP retC hasRetF retF cptr rdecl` (retC `-`|c.n.p, retF `-`|c.n, rdecl `-`|c.n.v.s):
    the model's C return type, Fortran result declaration (`-` = subroutine) and resultOK -/
def handleResult (args : List String) : String :=
  match args with
  | [sub, cbs, fbs, ptr, fa, dS, dP, retC, hasRetF, retF, cptr, rdecl] =>
    match nats cbs ".", nats fbs "." with
    | [cb, cn], [fb, fn] =>
      match decCBase cb cn, decFBase fb fn with
      | some c, some f =>
        let rc : Option (Option ParamC) := if retC == "-" then some none else
          match nats retC "." with
          | [a, b, p] => (decC (a, b, p)).map some
          | _ => none
        let rf : Option (Option FBase) := if retF == "-" then some none else
          match nats retF "." with
          | [a, b] => (decFBase a b).map some
          | _ => none
        let rd : Option (Option DummyF) := if rdecl == "-" then some none else
          match nats rdecl "." with
          | [a, b, v, sh] => (decF (a, b, v, sh)).map some
          | _ => none
        match rc, rf, rd with
        | some rc, some rf, some rd =>
          let r : ResultSpec := ⟨sub == "1", c, f, ptr.toNat!, fa == "1", dS == "1", dP == "1", rc, hasRetF == "1", rf,
                                 cptr == "1", rd⟩
          let fs := match resultF r with | none => "-" | some d => encD d
          s!"C {encP (resultC r)}#F {fs}#ok={if resultOK r then 1 else 0}"
        | _, _, _ => "bad-class"
      | _, _ => "bad-class"
    | _, _ => "bad-args"
  | _ => "bad-args"

/-- `cb <A>;<A>;...` (A as in `fn`): the model's callback parameter classes (C function-pointer type / abstract interface) -/
def handleCallback (args : List String) : String :=
  match args with
  | [ps] =>
    match (if ps == "~" then some [] else allSome ((ps.splitOn ";").map (fun t => decArg (nats t ",")))) with
    | none => "bad-arg"
    | some as => s!"P {" ".intercalate ((cbProto as).map encP)}#F {" ".intercalate ((cbIface as).map encD)}"
  | [ps, res] =>
    -- res = cb.cn.ptr.fb.fn : result of a callback that is a function
    match (if ps == "~" then some [] else allSome ((ps.splitOn ";").map (fun t => decArg (nats t ",")))), nats res "." with
    | some as, [cb, cn, ptr, fb, fn] =>
      match decCBase cb cn, decFBase fb fn with
      | some c, some f =>
        s!"P {" ".intercalate ((cbProto as).map encP)}#F {" ".intercalate ((cbIface as).map encD)}#R {encP ⟨c, ptr⟩} {encD (cbResF c ptr f)}"
      | _, _ => "bad-class"
    | _, _ => "bad-arg"
  | _ => "bad-args"

end Driver
