import Driver.Codec
import Driver.Enum
