import Driver.Main
