import Driver.LinesMain
