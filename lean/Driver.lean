import Driver.Codec
import Driver.Enum
import Driver.StrHelpers
import Driver.Names
import Driver.Splicer
import Driver.Decl
import Driver.Scope
