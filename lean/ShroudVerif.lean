import ShroudVerif.Props.C13
