import ShroudVerif.Props.C13
import ShroudVerif.Props.C07
import ShroudVerif.Props.C10
import ShroudVerif.Props.C08
import ShroudVerif.Props.C12
import ShroudVerif.Props.C15
import ShroudVerif.Props.C11
