import ShroudVerif.Props.C08
#print axioms Shroud.Names.unCamel_inserts
#print axioms Shroud.Names.unCamel_noUpper
#print axioms Shroud.Names.unCamel_idempotent
#print axioms Shroud.Names.autoSuffix_injective
#print axioms Shroud.Names.autoSuffix_isAuto
#print axioms Shroud.Names.stage1Fn_length
#print axioms Shroud.Names.count_c_entry_points
#print axioms Shroud.Names.count_fortran_specifics
#print axioms Shroud.Names.core_names_nodup
#print axioms Shroud.Names.c_names_distinct
#print axioms Shroud.Names.fortran_names_distinct
#print axioms Shroud.Names.explicit_suffix_clash
#print axioms Shroud.Names.distinct_underscore_forms_insufficient
#print axioms Shroud.Names.expand_c_names_distinct_partial
#print axioms Shroud.Names.generic_interface_members
#print axioms Shroud.Names.c_name_predictable
#print axioms Shroud.Names.f_names_predictable
