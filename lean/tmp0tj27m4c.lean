import ShroudVerif.Props.C06Tables
#print axioms Shroud.Capsule.temporaries_released_or_handed_over
#print axioms Shroud.Capsule.struct_out_class_leaks
#print axioms Shroud.Capsule.table_nonvacuous
