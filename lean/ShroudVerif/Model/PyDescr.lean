/-
Struct / class member descriptors of the Python wrapper (`Wrapp.wrap_class_variable`, the `py_descr_*` entries of
`py_statements` in shroud/wrapp.py, `statements.lookup_stmts_tree`).

  * `lookup`: the statement entry selected for `['py','descr',sgroup,indirect,array_arg]`: walk the name tree,
    skipping parts that have no branch, keeping the last entry passed (none: `py_default`, the `#error` line).
  * the `setter` / `getter` clauses as op codes per template line (translated by tools/extract_pydescr.py with an
    explicit pattern table) and an interpreter over a member state: the C member (`none` = NULL pointer), the cached
    Python object, the objects whose reference was dropped.
Core Lean only.
-/
namespace Shroud.PyDescr

/-! ### selection -/

def hasPrefix (tab : List (List Nat × Nat)) (pre : List Nat) : Bool := tab.any (fun e => pre.isPrefixOf e.1)

def lookupStep (tab : List (List Nat × Nat)) (st : List Nat × Option Nat) (part : Nat) : List Nat × Option Nat :=
  let cur := st.1 ++ [part]
  if hasPrefix tab cur then
    (cur, match tab.find? (fun e => e.1 == cur) with
          | some e => some e.2
          | none => st.2)
  else st

/-- `lookup_stmts_tree`: `tab` maps name paths (below `py_descr`) to entries. -/
def lookup (tab : List (List Nat × Nat)) (path : List Nat) : Option Nat :=
  (path.foldl (lookupStep tab) ([], none)).2

/-! ### clauses -/

/-- a Python object offered to a setter: convertible to the C value `c` (the converter's object has id `obj`), or not. -/
inductive PyV (α : Type) where
  | good (c : α) (obj : Nat)
  | bad
  deriving Repr, DecidableEq

structure St (α : Type) where
  mem : Option α            -- the member; `none` is a NULL pointer
  obj : Option Nat          -- `PY_member_object` / `PY_member_data`
  released : List Nat       -- objects whose reference the setter dropped
  rv : Option α             -- the local / `cvalue.data`
  rvObj : Option Nat        -- `cvalue.obj`
  err : Bool                -- a Python exception is pending
  deriving Repr, DecidableEq

-- setter line codes
namespace S
abbrev conv : Nat := 1            -- `{cxx_decl} = {PY_get};`
abbrev ifErr : Nat := 2           -- `if (PyErr_Occurred()) {`
abbrev retFail : Nat := 3         -- `return -1;`
abbrev endBlock : Nat := 4        -- `}`
abbrev storeRv : Nat := 5         -- `{c_var} = rv;`
abbrev noop : Nat := 6            -- declarations of cvalue, comments
abbrev dropObj : Nat := 8         -- `Py_XDECREF({c_var_obj});`
abbrev ifPtrHelperFails : Nat := 9   -- `if (helper(value, &cvalue) == 0) {`
abbrev memNull : Nat := 10        -- `{c_var} = nullptr;`
abbrev objNull : Nat := 11        -- `{c_var_obj} = nullptr;`
abbrev storeData : Nat := 12      -- `{c_var} = (T *) cvalue.data;`
abbrev storeObj : Nat := 13       -- `{c_var_obj} = cvalue.obj;`
abbrev ifFillHelperFails : Nat := 14 -- `if (helper(value, name, member, n) == -1) {`
end S

def convert {α : Type} (v : PyV α) (st : St α) : St α :=
  match v with
  | .good c o => { st with rv := some c, rvObj := some o }
  | .bad => { st with err := true }

/-- run setter lines; `skip`: inside a block whose condition is false.  Result: return value, final state. -/
def runSetter {α : Type} (v : PyV α) : List Nat → Bool → St α → Int × St α
  | [], _, st => (0, st)                      -- `return 0;` appended by wrap_class_variable
  | op :: ops, true, st => if op = S.endBlock then runSetter v ops false st else runSetter v ops true st
  | op :: ops, false, st =>
    if op = S.conv then runSetter v ops false (convert v st)
    else if op = S.ifErr then runSetter v ops (!st.err) st
    else if op = S.retFail then (-1, st)
    else if op = S.endBlock then runSetter v ops false st
    else if op = S.storeRv then runSetter v ops false { st with mem := st.rv }
    else if op = S.dropObj then
      runSetter v ops false { st with released := st.released ++ st.obj.toList }
    else if op = S.ifPtrHelperFails then
      let st' := convert v st
      runSetter v ops (!st'.err) st'
    else if op = S.memNull then runSetter v ops false { st with mem := none }
    else if op = S.objNull then runSetter v ops false { st with obj := none }
    else if op = S.storeData then runSetter v ops false { st with mem := st.rv }
    else if op = S.storeObj then runSetter v ops false { st with obj := st.rvObj }
    else if op = S.ifFillHelperFails then
      -- the fill helper converts every item first and copies into the member only on success
      match v with
      | .good c _ => runSetter v ops true { st with mem := some c }
      | .bad => runSetter v ops false { st with err := true }
    else runSetter v ops false st

-- getter line codes
namespace G
abbrev ifMemNull : Nat := 20      -- `if ({c_var} == nullptr) {`
abbrev retNone : Nat := 21        -- `Py_RETURN_NONE;`
abbrev ifObjCached : Nat := 22    -- `if ({c_var_obj} != nullptr) {`
abbrev retObj : Nat := 24         -- `return {c_var_obj};`
abbrev build : Nat := 25          -- `PyObject * rv = {ctor};` / `to_PyList(member, n)` / `PyString_FromStringAndSize`
abbrev retRv : Nat := 26          -- `return rv;`
end G

inductive GetRes (α : Type) where
  | none_                  -- `None`
  | cached (obj : Nat)     -- the remembered Python object
  | built (c : α)          -- a new object made from the member's C value
  | fellOff                -- no `return` reached (never for a table entry: `descr_rows_canonical`)
  deriving Repr, DecidableEq

def runGetter {α : Type} : List Nat → Bool → St α → Option α → GetRes α
  | [], _, _, _ => .fellOff
  | op :: ops, true, st, rv => if op = S.endBlock then runGetter ops false st rv else runGetter ops true st rv
  | op :: ops, false, st, rv =>
    if op = G.ifMemNull then runGetter ops st.mem.isSome st rv
    else if op = G.retNone then .none_
    else if op = S.endBlock then runGetter ops false st rv
    else if op = G.ifObjCached then runGetter ops st.obj.isNone st rv
    else if op = G.retObj then (match st.obj with | some o => .cached o | none => .fellOff)
    else if op = G.build then runGetter ops false st st.mem
    else if op = G.retRv then (match rv with | some c => .built c | none => .fellOff)
    else runGetter ops false st rv

/-- the three shapes the table's setters have. -/
def scalarSetter : List Nat := [S.conv, S.ifErr, S.retFail, S.endBlock, S.storeRv]
def ptrSetter : List Nat :=
  [S.noop, S.noop, S.dropObj, S.ifPtrHelperFails, S.memNull, S.objNull, S.noop, S.retFail, S.endBlock, S.storeData, S.storeObj]
def ptrSetterNoComment : List Nat :=
  [S.noop, S.noop, S.dropObj, S.ifPtrHelperFails, S.memNull, S.objNull, S.retFail, S.endBlock, S.storeData, S.storeObj]
def arrSetter : List Nat := [S.dropObj, S.objNull, S.ifFillHelperFails, S.retFail, S.endBlock]

/-- getters: built from the member; `None` for NULL then cached-or-built; `None` for NULL then built; cached-or-built. -/
def scalarGetter : List Nat := [G.build, G.retRv]
def ptrCachedGetter : List Nat :=
  [G.ifMemNull, G.retNone, S.endBlock, G.ifObjCached, S.noop, G.retObj, S.endBlock, G.build, G.retRv]
def ptrBuiltGetter : List Nat := [G.ifMemNull, G.retNone, S.endBlock, G.build, G.retRv]
def charArrGetter : List Nat :=
  [G.ifObjCached, S.noop, G.retObj, S.endBlock, S.noop, S.noop, S.noop, G.build, G.retRv]

def setterClass (ops : List Nat) : Nat :=
  if ops = scalarSetter then 1 else if ops = ptrSetter ∨ ops = ptrSetterNoComment then 2 else if ops = arrSetter then 3 else 0

def getterClass (ops : List Nat) : Nat :=
  if ops = scalarGetter then 1 else if ops = ptrCachedGetter then 2 else if ops = ptrBuiltGetter then 3
  else if ops = charArrGetter then 4 else 0

/-- a freshly constructed member holding `m`. -/
def St.fresh {α : Type} (m : Option α) (o : Option Nat) : St α :=
  { mem := m, obj := o, released := [], rv := none, rvObj := none, err := false }

end Shroud.PyDescr
