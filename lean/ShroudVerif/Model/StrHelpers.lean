/-
Model of the C string helpers embedded as text in `shroud/whelpers.py`
(CHelpers ShroudLenTrim, ShroudStrCopy, ShroudStrBlankFill, ShroudStrAlloc,
ShroudStrFree, ShroudStrArrayAlloc, ShroudStrArrayFree, ShroudStrToArray,
copy_string = ShroudCopyStringAndFree), of the statement lines of
`c_char_scalar_result_buf` and `c_char_*_result_buf_allocatable`
(shroud/statements.py) and of the Fortran expression `trim(x)//C_NULL_CHAR`
(shroud/wrapf.py, ftrim_char_in branch).   Property C10.

A buffer is a `List Nat` of byte values; its *capacity* is its length.  Every
load and store goes through `rd` / `wr`, which return `Res.oob` when the index
is outside the capacity.  A helper call that evaluates to `Res.ok _` therefore
never touched a byte outside the buffers it was handed; the property "never
reads or writes outside the lengths it is given" is stated by handing the
helper buffers whose capacity is exactly the given length.

C library routines (`memset`, `memcpy`, `strlen`, `strncpy`) are modelled as
the byte loops the C standard describes, on top of `rd`/`wr`.

Imports nothing outside core Lean so that the line-protocol driver links.

Conventions / what is not modelled
* lengths that the wrappers obtain from Fortran `len`, `len_trim`, `size`
  are `Nat` (they arrive as non-negative `int`); the two parameters whose sign
  the C code tests (`nsrc` of ShroudStrCopy, `ntrim` of ShroudStrAlloc) are `Int`.
* `int nm = strlen(..)`, `nsrc = strlen(src)` and a `size_t` actual passed for
  the `int nsrc` parameter are narrowed with `narrow32` (LP64, wrap-around), so
  the theorems carry the hypothesis that the text is shorter than 2^31 bytes and
  `*_narrowing_oob` theorems show what happens at 2^31.
* freshly `malloc`ed bytes hold the marker `UNINIT` (not a byte value).
-/
namespace Shroud.Str

abbrev Buf := List Nat

def BLANK : Nat := 32
def NUL : Nat := 0
/-- content of memory returned by `malloc` and not yet written -/
def UNINIT : Nat := 256

inductive Res (α : Type) where
  | ok (a : α)
  | oob
  deriving Repr, DecidableEq

@[inline] def Res.bind {α β : Type} : Res α → (α → Res β) → Res β
  | .ok a, f => f a
  | .oob, _ => .oob

@[inline] def Res.map {α β : Type} (f : α → β) : Res α → Res β
  | .ok a => .ok (f a)
  | .oob => .oob

instance : Monad Res where
  pure := .ok
  bind := Res.bind

/-- a `size_t` value converted to `int` (two's complement wrap-around, LP64) -/
def narrow32 (n : Nat) : Int := (((n + 2147483648) % 4294967296 : Nat) : Int) - 2147483648

/-- bounds-checked load -/
def rd (b : Buf) (i : Nat) : Res Nat :=
  if h : i < b.length then .ok b[i] else .oob

/-- bounds-checked store -/
def wr (b : Buf) (i : Nat) (v : Nat) : Res Buf :=
  if i < b.length then .ok (b.set i v) else .oob

/-- `memset(b+off, v, n)` -/
def memset (b : Buf) (off : Nat) (v : Nat) : Nat → Res Buf
  | 0 => .ok b
  | n + 1 =>
    match wr b off v with
    | .oob => .oob
    | .ok b' => memset b' (off + 1) v n

/-- `memcpy(d+doff, s+soff, n)` (the buffers are distinct objects) -/
def memcpy (d : Buf) (doff : Nat) (s : Buf) (soff : Nat) : Nat → Res Buf
  | 0 => .ok d
  | n + 1 =>
    match rd s soff with
    | .oob => .oob
    | .ok v =>
      match wr d doff v with
      | .oob => .oob
      | .ok d' => memcpy d' (doff + 1) s (soff + 1) n

/-- `strlen(b+i)`: scan for NUL; running off the end of the buffer is an
    out-of-bounds read.  `fuel` bounds the scan (capacity + 1 suffices). -/
def strlenAux (b : Buf) (i : Nat) : Nat → Res Nat
  | 0 => .oob
  | fuel + 1 =>
    match rd b i with
    | .oob => .oob
    | .ok c => if c = NUL then .ok 0 else (strlenAux b (i + 1) fuel).map (· + 1)

def strlen (b : Buf) : Res Nat := strlenAux b 0 (b.length + 1)

/-- `strncpy(d+i, s+i, n)`: copy until a NUL has been copied or `n` bytes
    were written, then pad with NUL up to `n` bytes. -/
def strncpy (d : Buf) (s : Buf) (i : Nat) : Nat → Res Buf
  | 0 => .ok d
  | n + 1 =>
    match rd s i with
    | .oob => .oob
    | .ok c =>
      match wr d i c with
      | .oob => .oob
      | .ok d' => if c = NUL then memset d' (i + 1) NUL n else strncpy d' s (i + 1) n

/-! ### ShroudLenTrim -/

/-- `for (i = n-1; i >= 0; i--) if (src[off+i] != ' ') break; return i+1;` -/
def lenTrimAt (b : Buf) (off : Nat) : Nat → Res Nat
  | 0 => .ok 0
  | n + 1 =>
    match rd b (off + n) with
    | .oob => .oob
    | .ok c => if c ≠ BLANK then .ok (n + 1) else lenTrimAt b off n

def lenTrim (src : Buf) (nsrc : Nat) : Res Nat := lenTrimAt src 0 nsrc

/-! ### ShroudStrCopy -/

/-- the part of ShroudStrCopy after `nsrc` is known (an `int`, possibly negative after narrowing):
    `nm = nsrc < ndest ? nsrc : ndest; memcpy(dest,src,nm); if (ndest > nm) memset(dest+nm,' ',ndest-nm)`.
    A negative `nm` becomes a huge `size_t` count for `memcpy`. -/
def strCopyTail (dest : Buf) (ndest : Nat) (s : Buf) (n : Int) : Res Buf :=
  let nm : Int := if n < (ndest : Int) then n else (ndest : Int)
  if nm < 0 then .oob else
  (memcpy dest 0 s 0 nm.toNat).bind fun d =>
  if (ndest : Int) > nm then memset d nm.toNat BLANK (ndest - nm.toNat) else .ok d

def strCopy (dest : Buf) (ndest : Nat) (src : Option Buf) (nsrc : Int) : Res Buf :=
  match src with
  | none => memset dest 0 BLANK ndest
  | some s =>
    (if nsrc < 0 then (strlen s).map narrow32 else .ok nsrc).bind (strCopyTail dest ndest s)

/-! ### ShroudStrBlankFill -/

/-- `if (ndest > nm) memset(dest+nm,' ',ndest-nm);` for the `int nm` (negative after a wrap-around:
    the fill starts before the buffer) -/
def strBlankFillTail (dest : Buf) (ndest : Nat) (nm : Int) : Res Buf :=
  if (ndest : Int) > nm then
    (if nm < 0 then .oob else memset dest nm.toNat BLANK (ndest - nm.toNat))
  else .ok dest

/-- `int nm = strlen(dest); if (ndest > nm) memset(dest+nm,' ',ndest-nm);` -/
def strBlankFill (dest : Buf) (ndest : Nat) : Res Buf :=
  ((strlen dest).map narrow32).bind (strBlankFillTail dest ndest)

/-! ### ShroudStrAlloc / ShroudStrFree -/

/-- returns the new block `rv` (capacity `nsrc + 1`) -/
def strAlloc (src : Buf) (nsrc : Nat) (ntrim : Int) : Res Buf :=
  let rv := List.replicate (nsrc + 1) UNINIT
  (if ntrim = -1 then (lenTrim src nsrc).map Int.ofNat else .ok ntrim).bind fun nt =>
  (if nt > 0 then memcpy rv 0 src 0 nt.toNat else .ok rv).bind fun rv =>
  if nt < 0 then .oob else wr rv nt.toNat NUL

/-- `free(src)`: the blocks still live afterwards -/
def strFree (_src : Buf) : List Buf := []

/-! ### ShroudStrArrayAlloc / ShroudStrArrayFree -/

def strArrayAllocAux (src : Buf) (len : Nat) (off : Nat) : Nat → Res (List Buf)
  | 0 => .ok []
  | k + 1 =>
    (lenTrimAt src off len).bind fun nt =>
    (memcpy (List.replicate (nt + 1) UNINIT) 0 src off nt).bind fun tgt =>
    (wr tgt nt NUL).bind fun tgt =>
    (strArrayAllocAux src len (off + len) k).bind fun rest =>
    .ok (tgt :: rest)

/-- the `nsrc` element blocks, in order (`rv[i]`) -/
def strArrayAlloc (src : Buf) (nsrc len : Nat) : Res (List Buf) :=
  strArrayAllocAux src len 0 nsrc

/-- `for (i < nsrc) free(src[i]); free(src)`: reading `src[i]` beyond the pointer
    array is out of bounds; the result lists element blocks that stay live. -/
def strArrayFree (arr : List Buf) (nsrc : Nat) : Res (List Buf) :=
  if nsrc ≤ arr.length then .ok (arr.drop nsrc) else .oob

/-! ### ShroudStrToArray, `c_char_*_result_buf_allocatable`, copy_string -/

/-- `(array->addr.ccharp, array->elem_len)` for a `std::string` holding `s`;
    `data()` points at `s` followed by the terminator. -/
def strToArray (s : List Nat) : Option Buf × Nat :=
  if s.isEmpty then (none, 0) else (some (s ++ [NUL]), s.length)

/-- `elem_len = cxx_var == NULL ? 0 : strlen(cxx_var)` -/
def charResultCtx (cxx : Option Buf) : Res (Option Buf × Nat) :=
  match cxx with
  | none => .ok (none, 0)
  | some s => (strlen s).map fun n => (some s, n)

/-- `ShroudCopyStringAndFree(data, c_var, c_var_len)`:
    `n = min(c_var_len, elem_len); if (n > 0) strncpy(c_var, cxx_var, n);` then the release
    (observed by the harness: the destructor is called exactly once). -/
def copyString (cxx : Option Buf) (elemLen : Nat) (cvar : Buf) (cvarLen : Nat) : Res Buf :=
  let n := if elemLen < cvarLen then elemLen else cvarLen
  if n > 0 then
    match cxx with
    | none => .oob
    | some s => strncpy cvar s 0 n
  else .ok cvar

/-! ### ShroudCopyStringAndFree as the sequence of its statements

`copyString` above is the data part.  The helper also releases the C++ object the text lives in
(`C_memory_dtor_function(&data->cxx)`); when the wrapper owns that object (`std::string` returned
by value, `+owner(caller)`: non-zero destructor index) the storage read by `strncpy` is gone after
the release.  The statements of the helper body are regenerated into `Gen.copyStringSteps`
(tools/extract_strstmts.py) and executed in THAT order by `copyStringRun`; reading storage that
was released is `Res.oob` (use after free). -/

inductive CsStep where
  | fetchPtr    -- const char *cxx_var = data->addr.ccharp;
  | initN       -- size_t n = c_var_len;
  | clampN      -- if (data->elem_len < n) n = data->elem_len;
  | copy        -- if (n > 0) strncpy(c_var, cxx_var, n);
  | release     -- C_memory_dtor_function(&data->cxx);
  deriving DecidableEq, Repr

structure CsState where
  ptr : Option (Option Buf)   -- `cxx_var` once fetched (inner none = NULL)
  n : Option Nat              -- `n` once declared
  cvar : Buf
  live : Bool                 -- the storage `addr.ccharp` points into is still allocated
  releases : Nat              -- calls of the destructor
  deriving Repr

def csStep (cxx : Option Buf) (owned : Bool) (elemLen cvarLen : Nat) (st : CsStep) (s : CsState) :
    Res CsState :=
  match st with
  | .fetchPtr => .ok { s with ptr := some cxx }
  | .initN => .ok { s with n := some cvarLen }
  | .clampN =>
    match s.n with
    | some n => .ok { s with n := some (if elemLen < n then elemLen else n) }
    | none => .oob
  | .copy =>
    match s.ptr, s.n with
    | some p, some n =>
      if n > 0 then
        match p with
        | none => .oob
        | some b => if s.live then (strncpy s.cvar b 0 n).map fun d => { s with cvar := d } else .oob
      else .ok s
    | _, _ => .oob
  | .release => .ok { s with live := s.live && !owned, releases := s.releases + 1 }

def csRun (cxx : Option Buf) (owned : Bool) (elemLen cvarLen : Nat) : List CsStep → CsState → Res CsState
  | [], s => .ok s
  | st :: rest, s => (csStep cxx owned elemLen cvarLen st s).bind (csRun cxx owned elemLen cvarLen rest)

/-- run the helper body `steps`: the Fortran variable afterwards and the number of releases -/
def copyStringRun (steps : List CsStep) (cxx : Option Buf) (owned : Bool) (elemLen : Nat) (cvar : Buf)
    (cvarLen : Nat) : Res (Buf × Nat) :=
  (csRun cxx owned elemLen cvarLen steps ⟨none, none, cvar, true, 0⟩).map fun s => (s.cvar, s.releases)

/-- the two Fortran statements `allocate(character(len=elem_len) :: rv)` and
    `call copy_string(ctx, rv, elem_len)` -/
def allocatableResult (ctx : Option Buf × Nat) : Res Buf :=
  copyString ctx.1 ctx.2 (List.replicate ctx.2 UNINIT) ctx.2

/-! ### `c_char_scalar_result_buf`:  memset(c_var,' ',len); c_var[0] = rv -/

def charScalarResult (dest : Buf) (len : Nat) (c : Nat) : Res Buf :=
  (memset dest 0 BLANK len).bind fun d => wr d 0 c

/-! ### std::vector<std::string> arguments (`c_vector_*_buf_string`): CHARACTER(len) a(size) -/

/-- `ShroudStrCopy(c_var + off, ...)`: the helper is handed a pointer into the array -/
def strCopyAt (dest : Buf) (off ndest : Nat) (src : Option Buf) (nsrc : Int) : Res Buf :=
  if off ≤ dest.length then (strCopy (dest.drop off) ndest src nsrc).map (dest.take off ++ ·) else .oob

/-- `for (i < n) { v.push_back(std::string(BBB, ShroudLenTrim(BBB, len))); BBB += len; }` -/
def vecStringIn (src : Buf) (len : Nat) (off : Nat) : Nat → Res (List (List Nat))
  | 0 => .ok []
  | k + 1 =>
    (lenTrimAt src off len).bind fun nt =>
    (memcpy (List.replicate nt UNINIT) 0 src off nt).bind fun e =>
    (vecStringIn src len (off + len) k).bind fun rest =>
    .ok (e :: rest)

/-- `n = min(v.size(), size); for (i < n) { ShroudStrCopy(BBB, len, v[i].data(), v[i].size()); BBB += len; }` -/
def vecStringOut (dest : Buf) (len : Nat) : Nat → Nat → List (List Nat) → Res Buf
  | _, 0, _ => .ok dest
  | _, _ + 1, [] => .ok dest
  | off, k + 1, v :: vs =>
    (strCopyAt dest off len (some (v ++ [NUL])) (narrow32 v.length)).bind fun d =>
    vecStringOut d len (off + len) k vs

/-! ### reference semantics (not derived from Shroud code) -/

/-- remove trailing blanks -/
def rtrim (s : List Nat) : List Nat := (s.reverse.dropWhile (· = BLANK)).reverse

/-- Fortran `trim(t)//C_NULL_CHAR` -/
def ftrimCharIn (t : List Nat) : Buf := rtrim t ++ [NUL]

/-- what C sees through a `char *`: the bytes before the first NUL -/
def cstr (b : Buf) : List Nat := b.takeWhile (· ≠ NUL)

/-- the array `CHARACTER(len) a(size)` after the first elements were assigned the texts `vs`
    (elements beyond `vs`, and texts beyond the array, are left alone) -/
def mergeOut (len : Nat) : List Buf → List (List Nat) → List Buf
  | [], _ => []
  | ss, [] => ss
  | _ :: ss, v :: vs => ((v ++ List.replicate len BLANK).take len) :: mergeOut len ss vs

/-- the value of a `character(len=L)` variable assigned the text `s` -/
def fassign (L : Nat) (s : List Nat) : List Nat := (s ++ List.replicate L BLANK).take L

end Shroud.Str
