/-
Model of the enumeration value logic of Shroud (property C11):

* `shroud/todict.py`  `PrintNode` (`printNode`) and `PrintNodeIdentifier`
  (`printNodeIdentifier`) restricted to the enum value grammar,
* `shroud/ast.py`     `int_literal` (`pyIntLiteral`) and the two loops of
  `EnumNode.__init__` (`enumMembers`),
* the member lines written by `wrapc.py`/`wrapf.py` `wrap_enum` (`header`, `fmodule`),
* reference semantics of the C++ enumeration (`cxxEnum`),
* evaluators of the *emitted text*: `evalHeaderC` (C lexer with the `--`/`++`,
  `//`, `/*` maximal-munch tokens, C expression grammar, C literal rules) and
  `evalModuleF` (Fortran lexer: `**`, `//`, case-insensitive names; Fortran
  level-2 expression grammar: a sign only in front of the first term).

Strings are `List Char`.  Imports nothing outside core Lean (the driver links).
The behaviour modelled is the one after the two `fix:` commits in /repo
(octal literals; signed operand after an operator is parenthesised).
-/
namespace Shroud.Enum

abbrev Str := List Char

inductive Op where
  | add | sub | mul | div
  deriving Repr, DecidableEq

inductive Sign where
  | pos | neg
  deriving Repr, DecidableEq

/-- `declast` expression nodes that can occur in an enumerator value:
    `Constant`, `Identifier` (without arguments), `ParenExpr`, `UnaryOp`, `BinaryOp`. -/
inductive Expr where
  | lit (text : Str)
  | id (name : Str)
  | paren (e : Expr)
  | un (s : Sign) (e : Expr)
  | bin (l : Expr) (op : Op) (r : Expr)
  deriving Repr, DecidableEq

def Op.ch : Op → Char
  | .add => '+' | .sub => '-' | .mul => '*' | .div => '/'
def Sign.ch : Sign → Char
  | .pos => '+' | .neg => '-'

/-! ### decimal / octal text -/

def digitVal (c : Char) : Nat := c.toNat - 48
def isOctDigit (c : Char) : Bool := c.isDigit && c != '8' && c != '9'
def decVal (ds : Str) : Nat := ds.foldl (fun a c => a * 10 + digitVal c) 0
def octVal (ds : Str) : Nat := ds.foldl (fun a c => a * 8 + digitVal c) 0

def digitChar (d : Nat) : Char := "0123456789".toList.getD d '0'

def showNatAux : Nat → Nat → Str → Str
  | 0, _, acc => acc
  | f + 1, n, acc =>
    if n < 10 then digitChar n :: acc else showNatAux f (n / 10) (digitChar (n % 10) :: acc)

/-- Python `str(n)` for `n ≥ 0`. -/
def showNat (n : Nat) : Str := showNatAux (n + 1) n []

/-- Python `str(n)` / `"{}".format(n)` for an `int`. -/
def showInt : Int → Str
  | .ofNat n => showNat n
  | .negSucc n => '-' :: showNat (n + 1)

/-- Value of an integer literal by the C/C++ rules the grammar can reach
    (the tokenizer only produces `\d+`): a leading zero means octal. -/
def litVal (t : Str) : Option Nat :=
  match t with
  | [] => none
  | c :: cs =>
    if c = '0' ∧ cs ≠ [] then
      if (c :: cs).all isOctDigit then some (octVal (c :: cs)) else none
    else if (c :: cs).all Char.isDigit then some (decVal (c :: cs)) else none

/-! ### todict.PrintNode / PrintNodeIdentifier -/

def startsSign : Str → Bool
  | c :: _ => c = '+' || c = '-'
  | [] => false

/-- `if right[:1] in ("+", "-"): right = "(" + right + ")"` -/
def wrapSigned (s : Str) : Str := if startsSign s then '(' :: s ++ [')'] else s

/-- The visitor, parameterised by what it does with identifiers and constants. -/
def printWith (fid flit : Str → Str) : Expr → Str
  | .lit t => flit t
  | .id n => fid n
  | .paren e => '(' :: printWith fid flit e ++ [')']
  | .un s e => s.ch :: wrapSigned (printWith fid flit e)
  | .bin l op r => printWith fid flit l ++ op.ch :: wrapSigned (printWith fid flit r)

/-- `todict.print_node` -/
def printNode : Expr → Str := printWith id id

/-- `PrintNodeIdentifier.visit_Constant`: octal literals are written in decimal. -/
def octalToDecimal (t : Str) : Str :=
  match t with
  | c :: cs =>
    if cs ≠ [] ∧ c = '0' ∧ (c :: cs).all Char.isDigit then
      if (c :: cs).all isOctDigit then showNat (octVal (c :: cs)) else c :: cs
    else c :: cs
  | [] => []

/-- `symbols[name][key]` if present, else the name. -/
def rename (syms : List (Str × Str)) (n : Str) : Str := (syms.lookup n).getD n

/-- `todict.print_node_identifier(node, symbols, key)` with the column `key`
    of the symbol table already selected. -/
def printNodeIdentifier (syms : List (Str × Str)) : Expr → Str :=
  printWith (rename syms) octalToDecimal

/-! ### ast.int_literal -/

def applySign (neg : Bool) (n : Nat) : Int := if neg then - (n : Int) else (n : Int)

/-- digits part after an optional sign -/
def pyDigits (ds : Str) : Option Nat :=
  match ds with
  | [] => none
  | c :: cs =>
    if cs ≠ [] ∧ c = '0' then
      -- int(text, 8)
      if (c :: cs).all isOctDigit then some (octVal (c :: cs)) else none
    else if (c :: cs).all Char.isDigit then some (decVal (c :: cs)) else none

/-- `ast.int_literal(text)`: `some n`, or `none` for `ValueError`.  (Python's
    `int()` also accepts blanks, `_` and a `0o` prefix; the printed text of a
    parsed value never contains them.) -/
def pyIntLiteral (text : Str) : Option Int :=
  match text with
  | '+' :: ds => (pyDigits ds).map (applySign false)
  | '-' :: ds => (pyDigits ds).map (applySign true)
  | ds => (pyDigits ds).map (applySign false)

/-! ### ast.EnumNode.__init__ -/

def lowerS (s : Str) : Str := s.map Char.toLower

/-- What the enum inherits from its parent and its own declaration. -/
structure Cfg where
  cpre   : Str      -- C_prefix ++ parent C_name_scope
  fpre   : Str      -- parent F_name_scope
  ename  : Str      -- enum name
  isScoped : Bool     -- `enum class` / `enum struct`
  deriving Repr

/-- C_enum_member = "{C_prefix}{C_name_scope}{enum_member_name}" -/
def cName (c : Cfg) (n : Str) : Str :=
  (if c.isScoped then c.cpre ++ c.ename ++ ['_'] else c.cpre) ++ n
/-- F_enum_member = "{F_name_scope}{enum_member_lower}" -/
def fName (c : Cfg) (n : Str) : Str :=
  (if c.isScoped then c.fpre ++ lowerS c.ename ++ ['_'] else c.fpre) ++ lowerS n

abbrev Member := Str × Option Expr

/-- `fmtmembers[name][key]`; a Python dict keeps the last entry of a repeated name. -/
def csyms (c : Cfg) (ms : List Member) : List (Str × Str) := (ms.map (fun m => (m.1, cName c m.1))).reverse
def fsyms (c : Cfg) (ms : List Member) : List (Str × Str) := (ms.map (fun m => (m.1, fName c m.1))).reverse

/-- State of the second loop: `value_is_int` with `cvalue`, or `cbase/fbase/incr`
    (then `cvalue = cbase+"+"+incr`). -/
inductive St where
  | int (cvalue : Int)
  | text (cbase fbase : Str) (incr : Nat)
  deriving Repr, DecidableEq

/-- One emitted member: names, `C_value` (only when explicit) and `F_value`. -/
structure Out where
  cname  : Str
  cvalue : Option Str
  fname  : Str
  fvalue : Str
  deriving Repr, DecidableEq

def plusN (base : Str) (k : Nat) : Str := base ++ '+' :: showNat k

def stValueF : St → Str
  | .int n => showInt n
  | .text _ fb k => plusN fb k

def stNext : St → St
  | .int n => .int (n + 1)
  | .text cb fb k => .text cb fb (k + 1)

def enumLoop (c : Cfg) (cs fs : List (Str × Str)) : St → List Member → List Out
  | _, [] => []
  | st, (n, none) :: ms =>
    ⟨cName c n, none, fName c n, stValueF st⟩ :: enumLoop c cs fs (stNext st) ms
  | _, (n, some e) :: ms =>
    match pyIntLiteral (printNode e) with
    | some v =>
      ⟨cName c n, some (showInt v), fName c n, showInt v⟩ :: enumLoop c cs fs (.int (v + 1)) ms
    | none =>
      let ct := printNodeIdentifier cs e
      let ft := printNodeIdentifier fs e
      ⟨cName c n, some ct, fName c n, ft⟩ :: enumLoop c cs fs (.text ct ft 1) ms

/-- `EnumNode.__init__`: the per-member format values. -/
def enumMembers (c : Cfg) (ms : List Member) : List Out :=
  enumLoop c (csyms c ms) (fsyms c ms) (.int 0) ms

/-- wrapc.wrap_enum: `{C_enum_member} = {C_value},` or `{C_enum_member},` -/
def header (os : List Out) : List (Str × Option Str) := os.map (fun o => (o.cname, o.cvalue))
/-- wrapf.wrap_enum: `integer(C_INT), parameter :: {F_enum_member} = {F_value}` -/
def fmodule (os : List Out) : List (Str × Str) := os.map (fun o => (o.fname, o.fvalue))

/-! ### reference semantics (C++) -/

abbrev Env := List (Str × Int)

def applyOp (op : Op) (a b : Int) : Option Int :=
  match op with
  | .add => some (a + b)
  | .sub => some (a - b)
  | .mul => some (a * b)
  | .div => if b = 0 then none else some (a.tdiv b)

def evalExpr (env : Env) : Expr → Option Int
  | .lit t => (litVal t).map Int.ofNat
  | .id n => env.lookup n
  | .paren e => evalExpr env e
  | .un .pos e => evalExpr env e
  | .un .neg e => (evalExpr env e).map (fun v => -v)
  | .bin l op r =>
    match evalExpr env l, evalExpr env r with
    | some a, some b => applyOp op a b
    | _, _ => none

def hasKey (env : Env) (n : Str) : Bool := env.any (fun p => p.1 == n)

/-- C++: an enumerator without initialiser is the previous one plus one (zero
    for the first); an initialiser may use the earlier enumerators; a name may
    be declared once.  Values are mathematical integers (assumption: every
    value and intermediate result fits the underlying type). -/
def cxxEnumFrom : Env → Int → List Member → Option (List Int)
  | _, _, [] => some []
  | env, next, (n, none) :: ms =>
    if hasKey env n then none
    else (cxxEnumFrom ((n, next) :: env) (next + 1) ms).map (next :: ·)
  | env, _, (n, some e) :: ms =>
    if hasKey env n then none
    else match evalExpr env e with
      | none => none
      | some v => (cxxEnumFrom ((n, v) :: env) (v + 1) ms).map (v :: ·)

def cxxEnum (ms : List Member) : Option (List Int) := cxxEnumFrom [] 0 ms

/-! ### accepted grammar: what the parser produces -/

def isWordChar (c : Char) : Bool := c.isAlphanum || c = '_'
def isIdent (s : Str) : Bool :=
  match s with
  | c :: cs => (c.isAlpha || c = '_') && cs.all isWordChar
  | [] => false

def Expr.level : Expr → Nat
  | .bin _ .add _ | .bin _ .sub _ => 1
  | .bin _ .mul _ | .bin _ .div _ => 2
  | _ => 3
def Op.prec : Op → Nat
  | .add | .sub => 1
  | .mul | .div => 2

/-- Shape of the trees `ExprParser.expression` builds (precedence climbing with
    left associativity; a unary operator applies to a primary), with integer
    literals and plain identifiers at the leaves. -/
def Expr.wf : Expr → Bool
  | .lit t => t ≠ [] && t.all Char.isDigit
  | .id n => isIdent n
  | .paren e => e.wf
  | .un _ e => e.wf && e.level == 3
  | .bin l op r => l.wf && r.wf && decide (op.prec ≤ l.level) && decide (op.prec < r.level)

/-! ### tokens of emitted text -/

inductive Tok where
  | num (s : Str)
  | ident (s : Str)
  | plus | minus | star | slash | lp | rp
  | bad
  deriving Repr, DecidableEq

def flushWith (mk : Str → Tok) (cur : Str) : List Tok := if cur.isEmpty then [] else [mk cur]

/-- A C preprocessing number / identifier. -/
def mkWordC (w : Str) : Tok :=
  match w with
  | c :: _ => if c.isDigit then (if w.all Char.isDigit then .num w else .bad) else .ident w
  | [] => .bad

/-- C punctuators with maximal munch: `--`, `++` are single tokens, `//` and
    `/*` open a comment; none of them can occur in a constant expression, so
    they become `bad`.  `next` is the following character. -/
def punctC (c : Char) (next : Option Char) : Tok :=
  if c = '+' then (if next = some '+' ∨ next = some '=' then .bad else .plus)
  else if c = '-' then (if next = some '-' ∨ next = some '=' ∨ next = some '>' then .bad else .minus)
  else if c = '*' then (if next = some '=' then .bad else .star)
  else if c = '/' then (if next = some '/' ∨ next = some '*' ∨ next = some '=' then .bad else .slash)
  else if c = '(' then .lp
  else if c = ')' then .rp
  else .bad

/-- The scanner shared by both languages: a maximal run of word characters is
    one word; blanks separate; anything else is a punctuator that may look at
    the next character. -/
def lexWith (mk : Str → Tok) (punct : Char → Option Char → Tok) : Str → Str → List Tok
  | cur, [] => flushWith mk cur
  | cur, c :: cs =>
    if isWordChar c then lexWith mk punct (cur ++ [c]) cs
    else if c = ' ' then flushWith mk cur ++ lexWith mk punct [] cs
    else flushWith mk cur ++ punct c cs.head? :: lexWith mk punct [] cs

def lexC : Str → Str → List Tok := lexWith mkWordC punctC

/-- Fortran: names start with a letter and are case-insensitive; an integer
    literal is a digit string (a `_kind` suffix is not supported). -/
def mkWordF (w : Str) : Tok :=
  match w with
  | c :: _ =>
    if c.isDigit then (if w.all Char.isDigit then .num w else .bad)
    else if c.isAlpha then .ident (lowerS w) else .bad
  | [] => .bad

/-- Fortran operators: `**` (power) and `//` (concatenation) are single tokens
    outside the supported grammar. -/
def punctF (c : Char) (next : Option Char) : Tok :=
  if c = '+' then .plus
  else if c = '-' then .minus
  else if c = '*' then (if next = some '*' then .bad else .star)
  else if c = '/' then (if next = some '/' ∨ next = some '=' ∨ next = some ')' then .bad else .slash)
  else if c = '(' then (if next = some '/' then .bad else .lp)
  else if c = ')' then .rp
  else .bad

def lexF : Str → Str → List Tok := lexWith mkWordF punctF

/-! ### C constant expressions over tokens (recursive descent with fuel) -/

def divC (a b : Int) : Option Int := if b = 0 then none else some (a.tdiv b)

/-- the closing parenthesis of a primary -/
def expectRp (v : Int) : List Tok → Option (Int × List Tok)
  | .rp :: r => some (v, r)
  | _ => none

mutual
def cExpr : Nat → Env → List Tok → Option (Int × List Tok)
  | 0, _, _ => none
  | f + 1, env, ts =>
    (cTerm f env ts).bind fun p => cAddRest f env p.1 p.2
def cAddRest : Nat → Env → Int → List Tok → Option (Int × List Tok)
  | f + 1, env, acc, .plus :: ts =>
    (cTerm f env ts).bind fun p => cAddRest f env (acc + p.1) p.2
  | f + 1, env, acc, .minus :: ts =>
    (cTerm f env ts).bind fun p => cAddRest f env (acc - p.1) p.2
  | 0, _, _, .plus :: _ => none
  | 0, _, _, .minus :: _ => none
  | _, _, acc, ts => some (acc, ts)
def cTerm : Nat → Env → List Tok → Option (Int × List Tok)
  | 0, _, _ => none
  | f + 1, env, ts =>
    (cUnary f env ts).bind fun p => cMulRest f env p.1 p.2
def cMulRest : Nat → Env → Int → List Tok → Option (Int × List Tok)
  | f + 1, env, acc, .star :: ts =>
    (cUnary f env ts).bind fun p => cMulRest f env (acc * p.1) p.2
  | f + 1, env, acc, .slash :: ts =>
    (cUnary f env ts).bind fun p => (divC acc p.1).bind fun q => cMulRest f env q p.2
  | 0, _, _, .star :: _ => none
  | 0, _, _, .slash :: _ => none
  | _, _, acc, ts => some (acc, ts)
/-- unary-expression: a sign applies to the following unary expression -/
def cUnary : Nat → Env → List Tok → Option (Int × List Tok)
  | 0, _, _ => none
  | f + 1, env, .plus :: ts => cUnary f env ts
  | f + 1, env, .minus :: ts =>
    (cUnary f env ts).bind fun p => some (-p.1, p.2)
  | _ + 1, _, .num s :: ts => (litVal s).map (fun n => (Int.ofNat n, ts))
  | _ + 1, env, .ident s :: ts => (env.lookup s).map (fun v => (v, ts))
  | f + 1, env, .lp :: ts =>
    (cExpr f env ts).bind fun p => expectRp p.1 p.2
  | _ + 1, _, _ => none
end

def fuelFor (ts : List Tok) : Nat := 4 * ts.length + 4

/-- Value of a C enumerator initialiser given the enumerators declared so far. -/
def evalTextC (env : Env) (text : Str) : Option Int :=
  let ts := lexC [] text
  match cExpr (fuelFor ts) env ts with
  | some (v, []) => some v
  | _ => none

/-- The C compiler's reading of the generated `enum { ... }` body. -/
def evalHeaderC : Env → Int → List (Str × Option Str) → Option (List Int)
  | _, _, [] => some []
  | env, next, (n, none) :: ms => (evalHeaderC ((n, next) :: env) (next + 1) ms).map (next :: ·)
  | env, _, (n, some t) :: ms =>
    match evalTextC env t with
    | none => none
    | some v => (evalHeaderC ((n, v) :: env) (v + 1) ms).map (v :: ·)

/-! ### Fortran level-2 expressions over tokens -/

/-- Fortran integer literal: decimal, leading zeros allowed. -/
def litValF (t : Str) : Option Nat :=
  if t ≠ [] ∧ t.all Char.isDigit then some (decVal t) else none

mutual
/-- level-2-expr: `[sign] add-operand { add-op add-operand }` -/
def fExpr : Nat → Env → List Tok → Option (Int × List Tok)
  | 0, _, _ => none
  | f + 1, env, .plus :: ts =>
    (fTerm f env ts).bind fun p => fAddRest f env p.1 p.2
  | f + 1, env, .minus :: ts =>
    (fTerm f env ts).bind fun p => fAddRest f env (-p.1) p.2
  | f + 1, env, ts =>
    (fTerm f env ts).bind fun p => fAddRest f env p.1 p.2
def fAddRest : Nat → Env → Int → List Tok → Option (Int × List Tok)
  | f + 1, env, acc, .plus :: ts =>
    (fTerm f env ts).bind fun p => fAddRest f env (acc + p.1) p.2
  | f + 1, env, acc, .minus :: ts =>
    (fTerm f env ts).bind fun p => fAddRest f env (acc - p.1) p.2
  | 0, _, _, .plus :: _ => none
  | 0, _, _, .minus :: _ => none
  | _, _, acc, ts => some (acc, ts)
/-- add-operand: `mult-operand { mult-op mult-operand }` (no sign allowed) -/
def fTerm : Nat → Env → List Tok → Option (Int × List Tok)
  | 0, _, _ => none
  | f + 1, env, ts =>
    (fPrim f env ts).bind fun p => fMulRest f env p.1 p.2
def fMulRest : Nat → Env → Int → List Tok → Option (Int × List Tok)
  | f + 1, env, acc, .star :: ts =>
    (fPrim f env ts).bind fun p => fMulRest f env (acc * p.1) p.2
  | f + 1, env, acc, .slash :: ts =>
    (fPrim f env ts).bind fun p => (divC acc p.1).bind fun q => fMulRest f env q p.2
  | 0, _, _, .star :: _ => none
  | 0, _, _, .slash :: _ => none
  | _, _, acc, ts => some (acc, ts)
def fPrim : Nat → Env → List Tok → Option (Int × List Tok)
  | 0, _, _ => none
  | _ + 1, _, .num s :: ts => (litValF s).map (fun n => (Int.ofNat n, ts))
  | _ + 1, env, .ident s :: ts => (env.lookup s).map (fun v => (v, ts))
  | f + 1, env, .lp :: ts =>
    (fExpr f env ts).bind fun p => expectRp p.1 p.2
  | _ + 1, _, _ => none
end

def evalTextF (env : Env) (text : Str) : Option Int :=
  let ts := lexF [] text
  match fExpr (fuelFor ts) env ts with
  | some (v, []) => some v
  | _ => none

/-- The Fortran compiler's reading of the `parameter` statements, in order;
    names are case-insensitive. -/
def evalModuleF : Env → List (Str × Str) → Option (List Int)
  | _, [] => some []
  | env, (n, t) :: ms =>
    match evalTextF env t with
    | none => none
    | some v => (evalModuleF ((lowerS n, v) :: env) ms).map (v :: ·)


/-! ### the emitted file blocks (wrapc/wrapf/wrapp `wrap_enum`) -/

/-- What the emitters read besides the member formats. -/
structure BlockCfg where
  cfg       : Cfg
  nsScope   : Str    -- fmt.namespace_scope of the enumeration (parent scope, class included)
  scopeWord : Str    -- "" | "class" | "struct"  (`ast.scope`)
  inClass   : Bool   -- parent.nodename == "class"
  pyType    : Str    -- PY_PyTypeObject of the parent class
  wrapC     : Bool := true   -- node.wrap.c        (options wrap_c of the enum, inherited from its parent)
  wrapF     : Bool := true   -- node.wrap.fortran
  wrapPy    : Bool := true   -- node.wrap.python
  deriving Repr

/-- C_enum = "{C_prefix}{C_name_scope}{enum_name}" -/
def cEnumName (c : Cfg) : Str := c.cpre ++ c.ename

/-- `output[-1] = output[-1][:-1]` -/
def stripLastChar : List Str → List Str
  | [] => []
  | [l] => [l.dropLast]
  | l :: ls => l :: stripLastChar ls

def cMemberItem (o : Out) : Str :=
  match o.cvalue with
  | some t => o.cname ++ " = ".toList ++ t ++ [',']
  | none => o.cname ++ [',']

/-- The strings wrapc.wrap_enum appends to `enum_impl` (`+`/`-` are the indent
    directives of `write_lines`).  Each emitter writes nothing when the
    enumeration's wrap flag for its language is off.  Nothing is written for an enumeration without
    members (an empty enumerator list is not C). -/
def cItems (b : BlockCfg) (os : List Out) : List Str :=
  if !b.wrapC then [] else     -- `if not node.wrap.c: return`
  if os.isEmpty then [] else   -- `if not ast.members: return`
  stripLastChar ([[], "//  ".toList ++ b.nsScope ++ b.cfg.ename,
      "enum ".toList ++ cEnumName b.cfg ++ " {+".toList] ++ os.map cMemberItem) ++ ["-};".toList]

def fParamPrefix : Str := "integer(C_INT), parameter :: ".toList

def fMemberItem (o : Out) : Str := fParamPrefix ++ o.fname ++ " = ".toList ++ o.fvalue

/-- The strings wrapf.wrap_enum appends to `fileinfo.enum_impl`. -/
def fItems (b : BlockCfg) (os : List Out) : List Str :=
  if !b.wrapF then [] else     -- `if not node.wrap.fortran: return`
  [[], (if b.scopeWord.isEmpty then "!  enum ".toList
        else "!  enum ".toList ++ b.scopeWord ++ [' ']) ++ b.nsScope ++ b.cfg.ename] ++ os.map fMemberItem

def castOpen : Str := "static_cast<long>(".toList

/-- C++ expression written for a member by wrapp.wrap_enum: the enumerator
    itself (qualified; a scoped enumerator is cast). -/
def pyValueExpr (b : BlockCfg) (n : Str) : Str :=
  if b.scopeWord.isEmpty then b.nsScope ++ n
  else castOpen ++ b.nsScope ++ b.cfg.ename ++ "::".toList ++ n ++ [')']

/-- The strings wrapp.wrap_enum appends to `enum_impl`. -/
def pyItems (b : BlockCfg) (ms : List Member) : List Str :=
  if !b.wrapPy then [] else    -- `if not node.wrap.python: return`
  if b.inClass then
    ["\n{+".toList, "// enumeration ".toList ++ b.cfg.ename, "PyObject *tmp_value;".toList] ++
    ms.map (fun m =>
      "tmp_value = PyLong_FromLong(".toList ++ pyValueExpr b m.1 ++ ");\n".toList ++
      "PyDict_SetItemString((PyObject*) ".toList ++ b.pyType ++ ".tp_dict, \"".toList ++ m.1 ++
      "\", tmp_value);\n".toList ++ "Py_DECREF(tmp_value);".toList) ++
    ["-}".toList]
  else
    [[], "// enum ".toList ++ b.nsScope ++ b.cfg.ename] ++
    ms.map (fun m => "PyModule_AddIntConstant(m, \"".toList ++ m.1 ++ "\", ".toList ++ pyValueExpr b m.1 ++
      ");".toList)

/-- `write_lines` on items that use only the `+` (trailing) and `-` (leading)
    directives: the physical lines (engine E-lines, property C13, has the full
    model; the tie compares this rendering with the generated files). -/
def indentOf (n : Nat) : Str := (List.replicate n "    ".toList).flatten

def renderItems : Nat → List Str → List Str
  | _, [] => []
  | n, l :: ls =>
    if l.isEmpty then [] :: renderItems n ls
    else if l.head? = some '-' then (indentOf (n - 1) ++ l.drop 1) :: renderItems (n - 1) ls
    else if l.getLast? = some '+' then (indentOf n ++ l.dropLast) :: renderItems (n + 1) ls
    else (indentOf n ++ l) :: renderItems n ls

/-- the enum block of the generated C header (file scope, indent 0) -/
def cBlock (b : BlockCfg) (os : List Out) : List Str := renderItems 0 (cItems b os)
/-- the parameter block of the generated Fortran module (module body, indent 1) -/
def fBlock (b : BlockCfg) (os : List Out) : List Str := renderItems 1 (fItems b os)

/-! ### reading the blocks back -/

def trimL (s : Str) : Str := s.dropWhile (· = ' ')

def startsWith (p s : Str) : Bool := s.take p.length == p

def isBlankOrCommentC (l : Str) : Bool := (trimL l).isEmpty || startsWith "//".toList (trimL l)

/-- `enumerator` or `enumerator = constant-expression` -/
def parseMemberC (l : Str) : Option (Str × Option Str) :=
  let t := trimL l
  let name := t.takeWhile isWordChar
  if name.isEmpty then none
  else match t.dropWhile isWordChar with
    | [] => some (name, none)
    | ' ' :: '=' :: ' ' :: v => some (name, some v)
    | _ => none

def stripComma (l : Str) : Option Str := if l.getLast? = some ',' then some l.dropLast else none

/-- enumerator-list: separated by commas, no trailing comma (C89) -/
def parseMembersC : List Str → Option (List (Str × Option Str))
  | [] => none
  | [l] => (parseMemberC l).map ([·])
  | l :: ls =>
    match stripComma l, parseMembersC ls with
    | some l', some r => (parseMemberC l').map (· :: r)
    | _, _ => none

/-- `enum identifier {` -/
def isEnumHead (l : Str) : Bool :=
  let t := trimL l
  startsWith "enum ".toList t &&
    (let r := t.drop 5
     isIdent (r.takeWhile isWordChar) && r.dropWhile isWordChar == " {".toList)

/-- Split off the body lines: everything before the closing `};`. -/
def bodyBeforeClose : List Str → Option (List Str)
  | [] => none
  | [l] => if trimL l == "};".toList then some [] else none
  | l :: ls => (bodyBeforeClose ls).map (l :: ·)

/-- The C compiler's reading of the block: comments and blank lines skipped,
    `enum name {`, the enumerator list, `};`. -/
def parseBlockC (lines : List Str) : Option (List (Str × Option Str)) :=
  match lines.dropWhile isBlankOrCommentC with
  | h :: rest => if isEnumHead h then (bodyBeforeClose rest).bind parseMembersC else none
  | [] => none

def evalBlockC (lines : List Str) : Option (List Int) := (parseBlockC lines).bind (evalHeaderC [] 0)

def isBlankOrCommentF (l : Str) : Bool := (trimL l).isEmpty || startsWith "!".toList (trimL l)

/-- `integer(C_INT), parameter :: name = initialization-expr` -/
def parseMemberF (l : Str) : Option (Str × Str) :=
  let t := trimL l
  if startsWith fParamPrefix t then
    let r := t.drop fParamPrefix.length
    let name := r.takeWhile isWordChar
    if name.isEmpty then none
    else match r.dropWhile isWordChar with
      | ' ' :: '=' :: ' ' :: v => some (name, v)
      | _ => none
  else none

/-- every line that is not blank or a comment must be a parameter statement -/
def parseBlockF : List Str → Option (List (Str × Str))
  | [] => some []
  | l :: ls =>
    if isBlankOrCommentF l then parseBlockF ls
    else match parseMemberF l, parseBlockF ls with
      | some m, some r => some (m :: r)
      | _, _ => none

def evalBlockF (lines : List Str) : Option (List Int) := (parseBlockF lines).bind (evalModuleF [])


/-! ### what the Python wrapper's value expression denotes -/

def stripPrefix (p s : Str) : Option Str := if startsWith p s then some (s.drop p.length) else none

/-- C++ name lookup of the expression written by wrapp.wrap_enum, relative to
    the scope the enumeration is declared in: which enumerator of this
    enumeration does it name?  (`nsScope` leads to the declaring scope; a scoped
    enumerator is additionally qualified by the enumeration and cast.) -/
def pyDenotes (b : BlockCfg) (expr : Str) : Option Str :=
  if b.scopeWord.isEmpty then stripPrefix b.nsScope expr
  else
    (stripPrefix castOpen expr).bind fun r1 =>
    (stripPrefix b.nsScope r1).bind fun r2 =>
    (stripPrefix (b.cfg.ename ++ "::".toList) r2).bind fun r3 =>
    if r3.getLast? = some ')' then some r3.dropLast else none

end Shroud.Enum
