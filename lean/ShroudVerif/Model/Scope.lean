/-!
# Model of `shroud/util.py: Scope`, of the option/format scopes built by
`shroud/ast.py` for library / namespace / class / block / function nodes, of
the inline-attribute parser `declast.Parser.attribute` plus the `attrs`/`fattrs`
merge, and of the `--option` / `--language` merge in `main.main_with_args`.

Core Lean only.  Keys are interned `Nat`s (the two name-mangled slots
`_Scope__parent` / `_Scope__hidden` are outside the key domain).
-/
namespace Shroud.Scope

/-! ## Python `dict` with insertion order -/

abbrev Dict (β : Type) := List (Nat × β)

def dget {β} : Dict β → Nat → Option β
  | [], _ => none
  | (k', v) :: r, k => if k' = k then some v else dget r k

def dhas {β} (d : Dict β) (k : Nat) : Bool := (dget d k).isSome

/-- `d[k] = v`: an existing key keeps its position, a new key goes last. -/
def dset {β} : Dict β → Nat → β → Dict β
  | [], k, v => [(k, v)]
  | (k', v') :: r, k, v => if k' = k then (k', v) :: r else (k', v') :: dset r k v

/-- `del d[k]` (only called when present; a no-op otherwise) -/
def ddel {β} : Dict β → Nat → Dict β
  | [], _ => []
  | (k', v') :: r, k => if k' = k then r else (k', v') :: ddel r k

/-- `d.update(e)` -/
def dupdate {β} (d : Dict β) (e : List (Nat × β)) : Dict β :=
  e.foldl (fun acc kv => dset acc kv.1 kv.2) d

/-! ## `util.Scope` as a heap of frames

A `Scope` object holds a reference to its parent (`None` or another `Scope`)
and its instance `__dict__`.  `clone` and `reparent` make identity matter, so
scopes live in a heap and are named by their index. -/

structure Frame where
  parent : Option Nat
  locals : Dict Nat
deriving Repr, DecidableEq

abbrev Heap := List Frame

inductive Look where
  | found (v : Nat)
  | missing          -- AttributeError
  | recursion        -- RecursionError (a parent cycle made by `reparent`)
deriving Repr, DecidableEq

/-- `Scope.__getattr__` preceded by the normal instance-dict lookup.
    `fuel` bounds the parent walk; `getattr` supplies `heap.length + 1`,
    which suffices for every acyclic chain. -/
def look (h : Heap) : Nat → Nat → Nat → Look
  | 0, _, _ => .recursion
  | fuel + 1, i, k =>
    match h[i]? with
    | none => .missing
    | some fr =>
      match dget fr.locals k with
      | some v => .found v
      | none =>
        match fr.parent with
        | none => .missing
        | some p => look h fuel p k

def getattr (h : Heap) (i k : Nat) : Look := look h (h.length + 1) i k

/-- `hasattr(self, k)` / `k in self`: Python 3 `hasattr` swallows only
    `AttributeError`, a `RecursionError` propagates. -/
def contains (h : Heap) (i k : Nat) : Look := getattr h i k

/-- `Scope(parent, **kw)` -/
def new (h : Heap) (parent : Option Nat) (kw : List (Nat × Nat)) : Heap × Nat :=
  (h ++ [{ parent := parent, locals := dupdate [] kw }], h.length)

def modify (h : Heap) (i : Nat) (f : Frame → Frame) : Heap :=
  match h[i]? with
  | none => h
  | some fr => h.set i (f fr)

/-- `setattr(self, k, v)` -/
def setattr (h : Heap) (i k v : Nat) : Heap :=
  modify h i (fun fr => { fr with locals := dset fr.locals k v })

def inlocal (h : Heap) (i k : Nat) : Bool :=
  match h[i]? with
  | none => false
  | some fr => dhas fr.locals k

/-- `setdefault(k, v)`: looks at the local dictionary only. Returns the heap
    and the returned value. -/
def setdefault (h : Heap) (i k v : Nat) : Heap × Nat :=
  match h[i]? with
  | none => (h, v)
  | some fr =>
    match dget fr.locals k with
    | some w => (h, w)
    | none => (h.set i { fr with locals := dset fr.locals k v }, v)

/-- `update(d, replace)`; with `replace=False` a key is set only when
    `hasattr` (through the parents) is false.  A `RecursionError` from
    `hasattr` aborts the loop (flag `false`); what was set before stays. -/
def update (h : Heap) (i : Nat) (replace : Bool) : List (Nat × Nat) → Heap × Bool
  | [] => (h, true)
  | (k, v) :: r =>
    if replace then update (setattr h i k v) i replace r
    else match getattr h i k with
      | .found _ => update h i replace r
      | .missing => update (setattr h i k v) i replace r
      | .recursion => (h, false)

/-- `eval_template` / `set_fmt_default`: "set unless already set locally" -/
def setUnlessLocal (h : Heap) (i k v : Nat) : Heap :=
  if inlocal h i k then h else setattr h i k v

def delattrs (h : Heap) (i : Nat) (ks : List Nat) : Heap :=
  modify h i (fun fr => { fr with locals := ks.foldl ddel fr.locals })

/-- `clone()`: new scope, same parent, copy of the local dictionary -/
def clone (h : Heap) (i : Nat) : Heap × Nat :=
  match h[i]? with
  | none => (h, h.length)
  | some fr => (h ++ [{ parent := fr.parent, locals := fr.locals }], h.length)

def reparent (h : Heap) (i : Nat) (p : Option Nat) : Heap :=
  modify h i (fun fr => { fr with parent := p })

/-- `get(k, default)` -/
def get (h : Heap) (i k dflt : Nat) : Look :=
  match getattr h i k with
  | .missing => .found dflt
  | r => r

/-! ### `ClassNode.clone`: instantiating a class template

`new.fmtdict = self.fmtdict.clone()`, then every function is cloned and its
scope re-attached: directly under the new class when its parent is the old
class scope (or `None`), otherwise under a clone of its parent (a `block:`
scope), cloned once (`cloned` memo) and itself re-attached the same way. -/

def memoGet (cl : List (Nat × Nat)) (k : Nat) : Option Nat :=
  match cl with
  | [] => none
  | (a, b) :: r => if a = k then some b else memoGet r k

def rehome : Nat → Heap → List (Nat × Nat) → Nat → Nat → Nat → Heap × List (Nat × Nat)
  | 0, h, cl, _, _, _ => (h, cl)
  | fuel + 1, h, cl, s, oldTop, newTop =>
    match h[s]? with
    | none => (h, cl)
    | some fr =>
      match fr.parent with
      | none => (reparent h s (some newTop), cl)
      | some p =>
        if p = oldTop then (reparent h s (some newTop), cl)
        else match memoGet cl p with
          | some c => (reparent h s (some c), cl)
          | none =>
            let (h1, c) := clone h p
            let (h2, cl2) := rehome fuel h1 ((p, c) :: cl) c oldTop newTop
            (reparent h2 s (some c), cl2)

/-- returns the heap, the id of the new class scope and the ids of the new function scopes -/
def cloneClass (h : Heap) (cls : Nat) (fns : List Nat) : Heap × Nat × List Nat :=
  let (h1, ncls) := clone h cls
  let step := fun (acc : Heap × List (Nat × Nat) × List Nat) (f : Nat) =>
    let (hh, cl, out) := acc
    let (h2, nf) := clone hh f
    let (h3, cl3) := rehome (h2.length + 1) h2 cl nf cls ncls
    (h3, cl3, out ++ [nf])
  let (hf, _, out) := fns.foldl step (h1, [], [])
  (hf, ncls, out)

/-! ### the chain view: the list of local dictionaries from a scope outwards -/

def lookupChain {β} : List (Dict β) → Nat → Option β
  | [], _ => none
  | d :: r, k => match dget d k with
    | some v => some v
    | none => lookupChain r k

/-- the parent chain of scope `i`, innermost first (fuel-bounded) -/
def chain (h : Heap) : Nat → Nat → List (Dict Nat)
  | 0, _ => []
  | fuel + 1, i =>
    match h[i]? with
    | none => []
    | some fr => fr.locals :: (match fr.parent with
        | none => []
        | some p => chain h fuel p)

/-! ## Option / format scopes of the declaration tree

First-child / next-sibling encoding of the `declarations:` lists of a YAML
description.  A `fn` is a `FunctionNode`; a `scope` is a `NamespaceNode`,
`ClassNode` or `BlockNode` with its own nested declarations.  Each node
carries the `options:` dictionary written on it (the `format:` dictionary is
handled by the same functions, instantiated a second time). -/

inductive Kind where
  | ns | cls | block
deriving Repr, DecidableEq

inductive Decls (β : Type) where
  | nil
  | fn (name : Nat) (o : Dict β) (rest : Decls β)
  | scope (kind : Kind) (o : Dict β) (body : Decls β) (rest : Decls β)
deriving Repr

/-- What every `__init__` does: `Scope(parent.options)` then
    `update(options, replace=True)`.  The chain seen from each function, in
    the order the functions are created (`add_declarations` is a pre-order
    walk).  The YAML loader hands over Python dicts, so a node's dictionary
    has unique keys and `update` into the fresh scope reproduces it
    (`dupdate_nil_of_unique`); `build` below does the `update` literally. -/
def views {β} (ctx : List (Dict β)) : Decls β → List (List (Dict β))
  | .nil => []
  | .fn _ o rest => (o :: ctx) :: views ctx rest
  | .scope _ o body rest => views (o :: ctx) body ++ views ctx rest

/-- `library.options = default_options(); update(options)`: chains of all
    functions of a library whose (already merged) top dictionary is `top` -/
def libViews {β} (top : Dict β) (d : Decls β) : List (List (Dict β)) := views [top] d

/-- The same construction on the heap, in the real creation order: returns
    the heap and, per created node, `(isFunction, scope id)`. -/
def build (parent : Nat) : Decls Nat → Heap → List (Bool × Nat) → Heap × List (Bool × Nat)
  | .nil, h, acc => (h, acc)
  | .fn _ o rest, h, acc =>
    let (h1, i) := new h (some parent) []
    let h2 := (update h1 i true o).1
    build parent rest h2 (acc ++ [(true, i)])
  | .scope _ o body rest, h, acc =>
    let (h1, i) := new h (some parent) []
    let h2 := (update h1 i true o).1
    let (h3, acc3) := build i body h2 (acc ++ [(false, i)])
    build parent rest h3 acc3

def buildLib (top : Dict Nat) (d : Decls Nat) : Heap × List (Bool × Nat) :=
  build 0 d [{ parent := none, locals := top }] [(false, 0)]

/-- Sibling append: splice the body of a block in front of what follows. -/
def Decls.append {β} : Decls β → Decls β → Decls β
  | .nil, t => t
  | .fn n o rest, t => .fn n o (append rest t)
  | .scope kd o body rest, t => .scope kd o body (append rest t)

/-- The function list (`parent.functions`) a sequence of declarations is
    appended to: a `BlockNode` shares its parent's lists, a namespace or class
    has its own.  (`flatten_namespace` is not modelled.) -/
def parentList {β} : Decls β → List Nat
  | .nil => []
  | .fn n _ rest => n :: parentList rest
  | .scope .block _ body rest => parentList body ++ parentList rest
  | .scope _ _ _ rest => parentList rest

/-- set `k := v` in the options of every function of the sequence (nested ones too) -/
def setAll {β} (k : Nat) (v : β) : Decls β → Decls β
  | .nil => .nil
  | .fn n o rest => .fn n (dset o k v) (setAll k v rest)
  | .scope kd o body rest => .scope kd o (setAll k v body) (setAll k v rest)

/-- set `k := v` on every function that does not already see a nearer definition -/
def push {β} (k : Nat) (v : β) : Decls β → Decls β
  | .nil => .nil
  | .fn n o rest => .fn n (if dhas o k then o else dset o k v) (push k v rest)
  | .scope kd o body rest =>
    .scope kd o (if dhas o k then body else push k v body) (push k v rest)

/-- does any node of the sequence write `k` locally? -/
def defines {β} (k : Nat) : Decls β → Bool
  | .nil => false
  | .fn _ o rest => dhas o k || defines k rest
  | .scope _ o body rest => dhas o k || defines k body || defines k rest

/-- Addressing a declaration: `next` skips a sibling, `down` enters the body
    of the scope at the head. -/
inductive Step where
  | next | down
deriving Repr, DecidableEq

/-- apply `g` to the sibling sequence that starts at the addressed declaration -/
def atPath {β} : List Step → (Decls β → Decls β) → Decls β → Decls β
  | [], g, d => g d
  | .next :: p, g, .fn n o rest => .fn n o (atPath p g rest)
  | .next :: p, g, .scope kd o body rest => .scope kd o body (atPath p g rest)
  | .down :: p, g, .scope kd o body rest => .scope kd o (atPath p g body) rest
  | _, _, d => d

/-- customisation written on the container at the head -/
def onContainer {β} (k : Nat) (v : β) : Decls β → Decls β
  | .scope kd o body rest => .scope kd (dset o k v) body rest
  | d => d

/-- the same customisation written on every member of the container at the head -/
def onMembers {β} (k : Nat) (v : β) : Decls β → Decls β
  | .scope kd o body rest => .scope kd o (setAll k v body) rest
  | d => d

/-- ... on every member that has no nearer definition -/
def onMembersPush {β} (k : Nat) (v : β) : Decls β → Decls β
  | .scope kd o body rest => .scope kd o (push k v body) rest
  | d => d

/-- replace the block at the head by its declarations -/
def unblock {β} : Decls β → Decls β
  | .scope .block _ body rest => body.append rest
  | d => d

/-- the same, only for a block that carries no options (`- block: True`) -/
def unblockEmpty {β} : Decls β → Decls β
  | .scope .block [] body rest => body.append rest
  | d => d

/-! ## Inline attributes (`declast.Parser.attribute`) and `attrs` / `fattrs` -/

inductive TT where
  | plus | ident | lparen | rparen | equals | integer | real | dquote | squote | eof | other
deriving Repr, DecidableEq

structure Tok where
  typ : TT
  val : List Char
deriving Repr, DecidableEq

inductive AVal where
  | tru                      -- `True`
  | str (s : List Char)      -- text (parenthesised, quoted or identifier)
  | int (digits : List Char) -- `int(text)`
  | flt (text : List Char)   -- `float(text)`
  | none                     -- `None`
deriving Repr, DecidableEq

inductive PRes (α : Type) where
  | ok (a : α)
  | error (msg : String)     -- RuntimeError raised by the parser
deriving Repr, DecidableEq

/-- current token: the tokenizer yields `EOF` for ever once exhausted -/
def cur : List Tok → Tok
  | [] => ⟨.eof, []⟩
  | t :: _ => t

/-- collect token texts up to the balancing `)`; `depth` counts open parens -/
def collectParen : List Tok → Nat → List (List Char) → PRes (List Char × List Tok)
  | [], _, _ => .error "Unbalanced parens"
  | t :: r, depth, parts =>
    match t.typ with
    | .eof => .error "Unbalanced parens"
    | .lparen => collectParen r (depth + 1) (t.val :: parts)
    | .rparen =>
      if depth = 0 then .ok ((parts.reverse).flatten, r)
      else collectParen r (depth - 1) (t.val :: parts)
    | _ => collectParen r depth (t.val :: parts)

/-- the value `Parser.initializer` makes of one token (`none`: parse error
    "Expected a value after '='") -/
def initVal (t : Tok) : Option AVal :=
  match t.typ with
  | .real => some (.flt t.val)
  | .integer => some (.int t.val)
  | .dquote => some (.str t.val)
  | .squote => some (.str t.val)
  | .ident => some (.str t.val)
  | _ => none

/-- `Parser.initializer` -/
def initializer (ts : List Tok) : Option (AVal × List Tok) :=
  match initVal (cur ts) with
  | some v => some (v, ts.tail)
  | none => none

/-- `Parser.attribute(attrs)`; attribute names are interned by `intern`.
    `fuel` = number of tokens (each round consumes at least two). -/
def parseAttr (intern : List Char → Nat) : Nat → List Tok → Dict AVal → PRes (Dict AVal × List Tok)
  | 0, ts, attrs => .ok (attrs, ts)
  | fuel + 1, ts, attrs =>
    match ts with
    | ⟨.plus, _⟩ :: r =>
      match r with
      | ⟨.ident, name⟩ :: r2 =>
        match r2 with
        | ⟨.lparen, _⟩ :: r3 =>
          match collectParen r3 0 [] with
          | .ok (text, r4) => parseAttr intern fuel r4 (dset attrs (intern name) (.str text))
          | .error e => .error e
        | ⟨.equals, _⟩ :: r3 =>
          match initializer r3 with
          | some (v, r4) => parseAttr intern fuel r4 (dset attrs (intern name) v)
          | none => .error "Expected a value after '='"
        | _ => parseAttr intern fuel r2 (dset attrs (intern name) .tru)
      | _ => .error "Expected ID"
    | _ => .ok (attrs, ts)

def parseAttrs (intern : List Char → Nat) (ts : List Tok) (attrs : Dict AVal) :=
  parseAttr intern ts.length ts attrs

/-- `arg.attrs.update(attrs[name])` / `ast.attrs.update(fattrs)` -/
def mergeAttrs (parsed : Dict AVal) (yaml : List (Nat × AVal)) : Dict AVal := dupdate parsed yaml

/-! ## `--option name=value` and `--language` -/

inductive CVal where
  | bool (b : Bool)
  | int (n : Nat)
  | str (s : List Char)
deriving Repr, DecidableEq

def isAsciiDigit (c : Char) : Bool := '0' ≤ c ∧ c ≤ '9'

/-- `int(text)` for a string of ASCII digits -/
def digitsToNat (s : List Char) : Nat := s.foldl (fun acc c => acc * 10 + (c.toNat - 48)) 0

/-- `"true"/"True"` -> `True`, `"false"/"False"` -> `False`, a non-empty
    string of digits (`str.isdigit()`, modelled on ASCII digits) -> `int`,
    else the text -/
def coerce (s : List Char) : CVal :=
  if s = "true".toList ∨ s = "True".toList then .bool true
  else if s = "false".toList ∨ s = "False".toList then .bool false
  else if s ≠ [] ∧ s.all isAsciiDigit then .int (digitsToNat s)
  else .str s

/-- `option.split("=", 1)`; `none` = `ValueError` (no `=`: one element cannot
    be unpacked into `name, value`) -/
def splitEq : List Char → Option (List Char × List Char)
  | [] => none
  | c :: r => if c = '=' then some ([], r) else
      match splitEq r with
      | none => none
      | some (a, b) => some (c :: a, b)

/-- the loop building `cmdoptions` -/
def cmdOptions (intern : List Char → Nat) : List (List Char) → Dict CVal → Option (Dict CVal)
  | [], acc => some acc
  | o :: r, acc =>
    match splitEq o with
    | none => none
    | some (n, v) => cmdOptions intern r (dset acc (intern n) (coerce v))

/-- the `options` entry of `allinput` after reading the YAML files -/
inductive YOpts where
  | absent                       -- no `options:` key
  | null                         -- `options:` with nothing under it (`None`)
  | dict (d : Dict CVal)
deriving Repr, DecidableEq

inductive MRes where
  | ok (o : YOpts) (language : Option (List Char))
  | valueError                   -- `--option foo` without `=`
  | attributeError               -- `None.update(...)`
deriving Repr, DecidableEq

/-- `main_with_args`: "Add options from command line last" and `--language`.
    `lang = none` or `some []` is falsy. -/
def mergeCli (intern : List Char → Nat) (yopts : YOpts) (ylang : Option (List Char))
    (opts : List (List Char)) (lang : Option (List Char)) : MRes :=
  let lang' := match lang with
    | some (c :: l) => some (c :: l)
    | _ => ylang
  match opts with
  | [] => .ok yopts lang'
  | _ =>
    match cmdOptions intern opts [] with
    | none => .valueError
    | some cmd =>
      match yopts with
      | .absent => .ok (.dict cmd) lang'
      | .null => .attributeError
      | .dict d => .ok (.dict (dupdate d cmd)) lang'

/-! ## a format field given directly or derived from its template option

`eval_template(NAME)`: set `fmt.NAME` from the option `NAME..._template`
unless `NAME` is already local (written by the user under `format:`); some
fields are post-processed afterwards (`F_module_name` is lower-cased). -/

def evalTemplateD {β} (d : Dict β) (k : Nat) (fromTemplate : β) : Dict β :=
  if dhas d k then d else dset d k fromTemplate

def postD {β} (d : Dict β) (k : Nat) (post : β → β) : Dict β :=
  match dget d k with
  | some v => dset d k (post v)
  | none => d

/-- `LibraryNode.default_format`: `update(format)`, `eval_template`, then post-process -/
def libraryField {β} (d : Dict β) (userFormat : List (Nat × β)) (k : Nat) (fromTemplate : β) (post : β → β) : Dict β :=
  postD (evalTemplateD (dupdate d userFormat) k fromTemplate) k post

/-- `NamespaceNode.default_format`: `eval_template`, `update(format)`, then post-process
    (before the fix 50bd4cd the post-processing came before the update) -/
def namespaceField {β} (d : Dict β) (userFormat : List (Nat × β)) (k : Nat) (fromTemplate : β) (post : β → β) : Dict β :=
  postD (dupdate (evalTemplateD d k fromTemplate) userFormat) k post

/-- the order before the fix: a value written under `format:` escaped the post-processing -/
def namespaceFieldOld {β} (d : Dict β) (userFormat : List (Nat × β)) (k : Nat) (fromTemplate : β) (post : β → β) : Dict β :=
  dupdate (postD (evalTemplateD d k fromTemplate) k post) userFormat

/-! ## search path (`--path`, `create_wrapper(path=...)`) -/

/-- `pth.split(":")` on code points -/
def splitColon : List Nat → List (List Nat)
  | [] => [[]]
  | c :: r =>
    if c = 58 then [] :: splitColon r
    else match splitColon r with
      | [] => [[c]]
      | h :: t => (c :: h) :: t

/-- `main_with_args`: "append all paths together" (an empty list means `["."]`) -/
def searchPath (path : List (List Nat)) : List (List Nat) :=
  match path with
  | [] => [[46]]
  | _ => path.flatMap splitColon

/-- argparse `action="append"`: occurrences are appended to (a copy of) the default list -/
def argparseAppend (dflt given : List (List Nat)) : List (List Nat) := dflt ++ given

end Shroud.Scope
