import ShroudVerif.Model.PyDispatch
/-
Implied arguments of the Python wrapper: `+implied(expr)` (shroud/wrapp.py `ToImplied`, `py_implied`,
`Wrapp.implied_blk`: `{cxx_var} = {pre_call_intent};` emitted after argument parsing, before the call).

  * `IExpr`: the expression grammar `generate.check_implied` accepts (constants, other arguments, `size(a)`,
    `len(a)`, `len_trim(a)`, binary `+ - * /`, unary `+ -`, parentheses).
  * `IExpr.render`: the C text `ToImplied` / `todict.PrintNode` writes, as tokens: an argument is its parsed C
    variable, `size(a)` is the converter's size variable `SHSize_a`, `len(a)` / `len_trim(a)` are `strlen(a)`
    (`len` of an intent(out) argument is its `charlen` constant), a right operand / unary operand that starts
    with a sign is parenthesised.
  * `IExpr.evalC`: what that C text computes: operands have C types (`int` variables and constants,
    `Py_ssize_t` size variables, `size_t` strlen), the usual arithmetic conversions apply, `size_t` arithmetic
    wraps modulo 2^64, signed overflow and division by zero are undefined (`none`), the result is converted to
    the implied parameter's type on assignment.
  * `IExpr.evalMath`: the value of the expression over the integers (C's truncating division).
  * `wrapperI`: `PyDispatch.wrapper` with the value every implied parameter receives.
Core Lean only.
-/
namespace Shroud.PyImplied
open Shroud.PyDispatch

inductive IExpr where
  | const (v : Nat)
  | ident (n : Nat)
  | size (a : Nat) | len (a : Nat) | lenTrim (a : Nat)
  | bin (op : Nat) (l r : IExpr)        -- 1 `+`, 2 `-`, 3 `*`, 4 `/`
  | un (op : Nat) (e : IExpr)           -- 1 `+`, 2 `-`
  | paren (e : IExpr)
  deriving Repr, DecidableEq

inductive CTok where
  | num (v : Nat) | var (n : Nat) | sizeVar (a : Nat) | strlen (a : Nat) | op (o : Nat) | lp | rp
  deriving Repr, DecidableEq

def CTok.isSign : CTok → Bool
  | .op 1 | .op 2 => true
  | _ => false

def guardSign (rr : List CTok) : List CTok :=
  if (rr.head?.map CTok.isSign).getD false then [.lp] ++ rr ++ [.rp] else rr

/-- `charlenOut a = some c`: argument `a` is intent(out) with `+charlen(c)`. -/
def IExpr.render (charlenOut : Nat → Option Nat) : IExpr → List CTok
  | .const v => [.num v]
  | .ident n => [.var n]
  | .size a => [.sizeVar a]
  | .len a => match charlenOut a with
    | some c => [.num c]
    | none => [.strlen a]
  | .lenTrim a => [.strlen a]
  | .bin o l r => l.render charlenOut ++ [.op o] ++ guardSign (r.render charlenOut)
  | .un o e => [.op o] ++ guardSign (e.render charlenOut)
  | .paren e => [.lp] ++ e.render charlenOut ++ [.rp]

/-- C operand types that occur: `int`, `Py_ssize_t` (signed 64), `size_t` (unsigned 64). -/
inductive CTy where
  | int | ssize | usize
  deriving Repr, DecidableEq

def CTy.join : CTy → CTy → CTy
  | .usize, _ => .usize
  | _, .usize => .usize
  | .ssize, _ => .ssize
  | _, .ssize => .ssize
  | .int, .int => .int

def two31 : Int := 2147483648
def two32 : Int := 4294967296
def two63 : Int := 9223372036854775808
def two64 : Int := 18446744073709551616

/-- a value of type `t` (signed overflow is undefined behaviour: `none`; `size_t` wraps). -/
def CTy.mk (t : CTy) (x : Int) : Option (CTy × Int) :=
  match t with
  | .int => if -two31 ≤ x ∧ x < two31 then some (.int, x) else none
  | .ssize => if -two63 ≤ x ∧ x < two63 then some (.ssize, x) else none
  | .usize => some (.usize, x % two64)

/-- conversion of an operand to the common type (value preserving for the signed types, modulo 2^64 for `size_t`). -/
def CTy.conv (t : CTy) (x : Int) : Int :=
  match t with
  | .usize => x % two64
  | _ => x

/-- what the wrapper knows about a Python value: its C integer, its number of items, its `strlen`. -/
structure Sem where
  asInt : Val → Option Int
  sizeOf : Val → Option Int
  strlenOf : Val → Option Int

def arith (o : Nat) (t : CTy) (x y : Int) : Option (CTy × Int) :=
  if o = 1 then t.mk (x + y) else if o = 2 then t.mk (x - y) else if o = 3 then t.mk (x * y)
  else if o = 4 then (if y = 0 then none else t.mk (Int.tdiv x y)) else none

/-- value of the emitted C expression; `env n` is the parsed C variable of argument `n` (`none`: never written). -/
def IExpr.evalC (sem : Sem) (charlenOut : Nat → Option Nat) (env : Nat → Option Val) : IExpr → Option (CTy × Int)
  | .const v => CTy.int.mk v
  | .ident n => (env n).bind fun v => (sem.asInt v).bind fun i => CTy.int.mk i
  | .size a => (env a).bind fun v => (sem.sizeOf v).bind fun i => CTy.ssize.mk i
  | .len a => match charlenOut a with
    | some c => CTy.int.mk c
    | none => (env a).bind fun v => (sem.strlenOf v).bind fun i => CTy.usize.mk i
  | .lenTrim a => (env a).bind fun v => (sem.strlenOf v).bind fun i => CTy.usize.mk i
  | .bin o l r =>
    match l.evalC sem charlenOut env, r.evalC sem charlenOut env with
    | some (tl, x), some (tr, y) =>
      let t := tl.join tr
      arith o t (t.conv x) (t.conv y)
    | _, _ => none
  | .un o e =>
    match e.evalC sem charlenOut env with
    | some (t, x) => if o = 1 then some (t, x) else if o = 2 then t.mk (-x) else none
    | none => none
  | .paren e => e.evalC sem charlenOut env

/-- `{cxx_var} = expr;`: conversion to the implied parameter's own type (gcc: modulo 2^N). -/
def assignTo (target : CTy) (r : Option (CTy × Int)) : Option Int :=
  r.map fun (_, x) =>
    match target with
    | .int => (x + two31) % two32 - two31
    | .ssize => (x + two63) % two64 - two63
    | .usize => x % two64

/-- the expression over the integers. -/
def IExpr.evalMath (sem : Sem) (charlenOut : Nat → Option Nat) (env : Nat → Option Val) : IExpr → Option Int
  | .const v => some v
  | .ident n => (env n).bind sem.asInt
  | .size a => (env a).bind sem.sizeOf
  | .len a => match charlenOut a with
    | some c => some c
    | none => (env a).bind sem.strlenOf
  | .lenTrim a => (env a).bind sem.strlenOf
  | .bin o l r =>
    match l.evalMath sem charlenOut env, r.evalMath sem charlenOut env with
    | some x, some y =>
      if o = 1 then some (x + y) else if o = 2 then some (x - y) else if o = 3 then some (x * y)
      else if o = 4 then (if y = 0 then none else some (Int.tdiv x y)) else none
    | _, _ => none
  | .un o e =>
    match e.evalMath sem charlenOut env with
    | some x => if o = 1 then some x else if o = 2 then some (-x) else none
    | none => none
  | .paren e => e.evalMath sem charlenOut env

/-- no `size_t` operand anywhere. -/
def IExpr.signedOnly (charlenOut : Nat → Option Nat) : IExpr → Bool
  | .const _ | .ident _ | .size _ => true
  | .len a => (charlenOut a).isSome
  | .lenTrim _ => false
  | .bin _ l r => l.signedOnly charlenOut && r.signedOnly charlenOut
  | .un _ e => e.signedOnly charlenOut
  | .paren e => e.signedOnly charlenOut

/-! ### the wrapper with implied values -/

/-- the parsed C variables by parameter name after `PyArg_ParseTupleAndKeywords` stored `slots`
(a variable of a non-visible parameter holds no caller value). -/
def slotEnv : List Param → List (Option Val) → Nat → Option Val
  | [], _, _ => none
  | p :: ps, slots, n =>
    if p.vis then
      match slots with
      | s :: r => if n == p.name then s else slotEnv ps r n
      | [] => if n == p.name then none else slotEnv ps [] n
    else slotEnv ps slots n

/-- the caller's own arguments by parameter name: the next positional value, else the keyword of that name. -/
def callerEnv (ps : List Param) (pos : List Val) (kw : List (Nat × Val)) : Nat → Option Val :=
  slotEnv ps (supplied (visible ps) pos kw)

/-- static description of the implied parameters of one function. -/
structure Implied where
  sem : Sem
  exprOf : Nat → Option IExpr
  charlenOut : Nat → Option Nat
  target : Nat → CTy

/-- what the library receives in one parameter position, implied values made explicit. -/
inductive ArgI where
  | plain (a : ArgV)
  | impliedVal (r : Option Int)       -- `none`: undefined (unwritten operand, signed overflow, division by zero)
  deriving DecidableEq, Repr

def Implied.value (im : Implied) (env : Nat → Option Val) (name : Nat) : ArgI :=
  match im.exprOf name with
  | some e => .impliedVal (assignTo (im.target name) (e.evalC im.sem im.charlenOut env))
  | none => .plain .implied

def refineArg (im : Implied) (env : Nat → Option Val) (p : Param) (a : ArgV) : ArgI :=
  match a with
  | .implied => im.value env p.name
  | a => .plain a

def refine (im : Implied) (env : Nat → Option Val) (ps : List Param) (recv : List ArgV) : List ArgI :=
  List.zipWith (refineArg im env) ps recv

inductive OutcomeI where
  | ok (recv : List ArgI)
  | exc (e : Exn)
  deriving DecidableEq, Repr

/-- the generated wrapper: the implied assignments are evaluated over the parsed variables. -/
def wrapperI (im : Implied) (src : CountSrc) (ps : List Param) (pos : List Val)
    (kw : Option (List (Nat × Val))) : OutcomeI :=
  match wrapper src ps pos kw with
  | .exc e => .exc e
  | .ok recv =>
    match parseArgs (fmtItems false ps) (kwlist ps) pos (kw.getD []) with
    | .ok slots => .ok (refine im (slotEnv ps slots) ps recv)
    | .error e => .exc e

/-- specification: supplied values, the library's defaults, and for every implied parameter the value of its
expression over `env`. -/
def specArgsI (im : Implied) (env : Nat → Option Val) : List Param → List (Option Val) → List ArgI
  | [], _ => []
  | p :: ps, slots =>
    if p.vis then
      match slots with
      | some v :: r => .plain (.val v) :: specArgsI im env ps r
      | none :: r => .plain .dflt :: specArgsI im env ps r
      | [] => .plain .dflt :: specArgsI im env ps []
    else (if p.implied then im.value env p.name else .plain .outp) :: specArgsI im env ps slots

def specI (im : Implied) (ps : List Param) (pos : List Val) (kw : List (Nat × Val)) : List ArgI :=
  specArgsI im (callerEnv ps pos kw) ps (supplied (visible ps) pos kw)

end Shroud.PyImplied
