/-
Model of the consumer loops of the four emitters over a container's function list (engine for C15):
`Wrapl.wrap_functions` (overload grouping), `Wrapp.wrap_functions` + `multi_dispatch`
(the `overloaded_methods` table), `Wrapf.wrap_functions` + the generic-interface lists filled by
`wrap_function_impl`, `Wrapc.wrap_functions` (per-function guard).  Core Lean only.
-/
namespace Shroud.Flags

/-- a function as one emitter's loop sees it -/
structure Fn where
  name : Nat     -- interned grouping key (`ast.name`; for Fortran the generic name)
  on   : Bool    -- the function's OWN `wrap.<language>` when the emitter runs
  gen  : Bool    -- `options.PY_create_generic` / `options.F_create_generic`
  idx  : Nat     -- position in the container's function list
  deriving Repr, DecidableEq

/-- `name -> members`, in first-seen order (a Python dict of lists) -/
abbrev Groups := List (Nat × List Fn)

/-- `groups.setdefault(name, [])` -/
def ensure : Groups → Nat → Groups
  | [], n => [(n, [])]
  | (m, ms) :: rest, n => if m == n then (m, ms) :: rest else (m, ms) :: ensure rest n

/-- `groups[name].append(f)`, starting a new group for a new name -/
def addTo : Groups → Fn → Groups
  | [], f => [(f.name, [f])]
  | (m, ms) :: rest, f => if m == f.name then (m, ms ++ [f]) :: rest else (m, ms) :: addTo rest f

/-- one iteration of a grouping loop: `touch` = the name gets an (empty) entry even when the function is
    skipped (Python's `setdefault` before the guards); `keep` = the guard(s) the function has to pass -/
def groupStep (keep : Fn → Bool) (touch : Bool) (g : Groups) (f : Fn) : Groups :=
  let g1 := if touch then ensure g f.name else g
  if keep f then addTo g1 f else g1

def groupLoop (keep : Fn → Bool) (touch : Bool) (acc : Groups) (fs : List Fn) : Groups :=
  fs.foldl (groupStep keep touch) acc

/-- `Wrapl.wrap_functions`: `if not function.wrap.lua: continue`, then append to / start the group of the name;
    one `wrap_function(cls, overload)` per group -/
def luaGroups (fs : List Fn) : Groups := groupLoop (fun f => f.on) false [] fs

/-- `Wrapp.wrap_functions`: the `overloaded_methods` table -/
def pyTable (fs : List Fn) : Groups := groupLoop (fun f => f.on && f.gen) true [] fs

/-- `Wrapp.multi_dispatch`: a dispatcher for every name whose table entry has at least two members -/
def pyDispatch (fs : List Fn) : Groups := (pyTable fs).filter (fun g => decide (2 ≤ g.2.length))

/-- the functions that get a wrapper of their own: the per-function guard at the head of
    `Wrapp.wrap_function`, `Wrapc.wrap_function`, and the two filtered loops of `Wrapf.wrap_functions` -/
def wrapped (fs : List Fn) : List Fn := fs.filter (fun f => f.on)

/-- Fortran generic interfaces: `wrap_function_impl` (only reached for `wrap.fortran`) appends the function to the
    list of its generic name when `F_create_generic` -/
def fGenerics (fs : List Fn) : Groups := groupLoop (fun f => f.gen) false [] (wrapped fs)

/-- filter first, then group everything (the specification shape of the loops) -/
def groupAll (fs : List Fn) : Groups := fs.foldl addTo []

end Shroud.Flags
