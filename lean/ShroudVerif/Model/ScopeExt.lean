import ShroudVerif.Model.Scope
/-!
Extensions of the scope engine for C14 (core Lean only):

* `FunctionNode.__init__`: the merge of the YAML `attrs:` / `fattrs:` groups into
  the parsed declaration and the per-`fortran_generic` copies of the parameters;
* `LibraryNode.__init__`: the option scope of the library (defaults, the merged
  `options` dictionary, the `literalinclude` -> `literalinclude2` promotion);
* `main_with_args`: resolving a `splicer:` file name along the search path over
  an abstract file system (`os.path.join`, `os.path.isfile`).
-/
namespace Shroud.Scope

/-! ## `FunctionNode.__init__`: attrs / fattrs and fortran_generic -/

/-- a parameter of the parsed declaration: its name, everything of the
    declarator the merge does not look at, and its attribute dictionary -/
structure Param where
  name : Nat
  ty : Nat
  attrs : Dict AVal
deriving Repr, DecidableEq

/-- the value found under `attrs: <argument name>` -/
inductive YAttr where
  | dict (es : List (Nat × AVal))
  | other                        -- any YAML value that is not a mapping
deriving Repr, DecidableEq

inductive FRes (α : Type) where
  | ok (a : α)
  | notDict (arg : Nat)          -- RuntimeError "attrs for argument '..' must be a dictionary"
deriving Repr, DecidableEq

/-- `for arg in ast.params: if arg.name in attrs: arg.attrs.update(attrs[arg.name])`;
    the first parameter (in declaration order) whose entry is not a mapping raises. -/
def mergeParams (attrs : Dict YAttr) : List Param → FRes (List Param)
  | [] => .ok []
  | p :: r =>
    match dget attrs p.name with
    | some .other => .notDict p.name
    | some (.dict es) =>
      match mergeParams attrs r with
      | .ok r' => .ok ({ p with attrs := mergeAttrs p.attrs es } :: r')
      | .notDict n => .notDict n
    | none =>
      match mergeParams attrs r with
      | .ok r' => .ok (p :: r')
      | .notDict n => .notDict n

/-- `i = find_arg_index_by_name(newdecls, garg.name); if i >= 0: newdecls[i] = garg`
    (a name that is not found only prints a message) -/
def replaceFirst (g : Param) : List Param → List Param
  | [] => []
  | p :: r => if p.name = g.name then g :: r else p :: replaceFirst g r

/-- `newdecls = copy.deepcopy(ast.params); for garg in generic.decls: ...` -/
def applyGeneric (params : List Param) (gdecls : List Param) : List Param :=
  gdecls.foldl (fun nd g => replaceFirst g nd) params

structure FnIn where
  params : List Param                       -- as parsed from the declaration text
  fattrs : Dict AVal                        -- attributes parsed after the `)`
  attrsKw : Option (Dict YAttr)             -- `attrs:` group
  fattrsKw : Option (List (Nat × AVal))     -- `fattrs:` group
  generics : List (List Param)              -- parsed `fortran_generic` declarations
deriving Repr, DecidableEq

structure FnOut where
  params : List Param
  fattrs : Dict AVal
  generics : List (List Param)              -- `generic.decls` afterwards
deriving Repr, DecidableEq

/-- the part of `FunctionNode.__init__` between parsing the declaration and the
    `splicer` / `fstatements` handling -/
def fnInit (i : FnIn) : FRes FnOut :=
  match (match i.attrsKw with
         | some a => mergeParams a i.params
         | none => .ok i.params) with
  | .notDict n => .notDict n
  | .ok ps =>
    .ok { params := ps
          fattrs := (match i.fattrsKw with
                     | some f => mergeAttrs i.fattrs f
                     | none => i.fattrs)
          generics := i.generics.map (applyGeneric ps) }

/-- what the `attrs:` group holds for an argument name (nothing = no entries) -/
def blockEntries (blk : Dict YAttr) (name : Nat) : List (Nat × AVal) :=
  match dget blk name with
  | some (.dict es) => es
  | _ => []

/-- the parameters with the entries of the `attrs:` group written after the
    inline attributes of each argument -/
def inlined (blk : Dict YAttr) (ps : List Param) : List Param :=
  ps.map (fun p => { p with attrs := mergeAttrs p.attrs (blockEntries blk p.name) })

def allDicts (blk : Dict YAttr) : Prop := ∀ k, dget blk k ≠ some .other

/-! ## `LibraryNode.__init__`: the option scope of the library -/

/-- Python truth value of an option value -/
def truthy : CVal → Bool
  | .bool b => b
  | .int n => n != 0
  | .str s => !s.isEmpty

/-- `self.options = default_options(); if options: self.options.update(options, replace=True);
    if self.options.literalinclude: self.options.literalinclude2 = True`
    (`kLit`, `kLit2`: the interned names of the two options) -/
def libOptions (defaults : Dict CVal) (kLit kLit2 : Nat) (y : YOpts) : Dict CVal :=
  let o := match y with
    | .dict d => dupdate defaults d
    | _ => defaults
  match dget o kLit with
  | some v => if truthy v then dset o kLit2 (.bool true) else o
  | none => o

/-- the library's options after `main_with_args` has merged the command line -/
def libOptionsOf (defaults : Dict CVal) (kLit kLit2 : Nat) : MRes → Option (Dict CVal)
  | .ok y _ => some (libOptions defaults kLit kLit2 y)
  | _ => none

/-! ## the search path over an abstract file system -/

/-- `os.path.join(pth, name)` (POSIX): an absolute `name` discards `pth`; an
    empty `pth` or one that ends with `/` takes no separator -/
def pathJoin (pth name : List Nat) : List Nat :=
  match name with
  | 47 :: _ => name
  | _ =>
    match pth.getLast? with
    | none => name
    | some 47 => pth ++ name
    | some _ => pth ++ 47 :: name

/-- `for pth in search_path: fullname = join(pth, name); if isfile(fullname): break
    else: fullname = None` -/
def resolve (isFile : List Nat → Bool) (name : List Nat) : List (List Nat) → Option (List Nat)
  | [] => none
  | p :: r => if isFile (pathJoin p name) then some (pathJoin p name) else resolve isFile name r

/-- the file read for `splicer: [name]` given the `--path` arguments -/
def splicerFile (isFile : List Nat → Bool) (pathArgs : List (List Nat)) (name : List Nat) :
    Option (List Nat) :=
  resolve isFile name (searchPath pathArgs)

end Shroud.Scope
