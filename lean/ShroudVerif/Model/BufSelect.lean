/-
Which functions get a second C wrapper that receives the CHARACTER lengths
(property C10): model of

* `VerifyAttrs.check_arg_attrs` (shroud/generate.py): the `ftrim_char_in` decision
  (`trim(arg)//C_NULL_CHAR` built in the Fortran wrapper, no buffer needed);
* `GenFunctions.arg_to_buffer`: the `has_buf_arg` loop over the parameters and the test on
  the function result that decide whether the `_bufferify` clone is made;
* `GenFunctions.arg_to_CFI`: the per-argument `cfi_args` map and its test (option F_CFI);
* the caller (`gen_namespace`): CFI first, bufferify when CFI did not apply.

The facts about an argument are what the code reads from the parsed declaration
(typemap statement group, number of indirections, `get_indirect_stmt()`, intent, assumed rank);
the harness takes them from the real AST.  Default options otherwise
(F_create_bufferify_function, F_string_len_trim, wrap_c, wrap_fortran all true).

The `has_buf_arg` loop is modelled as the fold the code performs (a flag that is only ever
set), not as `any`: that the two agree, whatever the order of the arguments, is a theorem.

Imports nothing outside core Lean.
-/
namespace Shroud.BufSelect

inductive SGroup where | string | char | vector | native | other
  deriving DecidableEq, Repr
inductive IStmt where | scalar | ptr | ref | pp | pref | other     -- get_indirect_stmt(): scalar * & ** *& ...
  deriving DecidableEq, Repr
inductive Intent where | in_ | out | inout | none
  deriving DecidableEq, Repr

structure ArgFact where
  sgroup : SGroup
  isCharType : Bool      -- arg_typemap.name == "char"
  nind : Nat             -- arg.is_indirect(): number of * and &
  istmt : IStmt
  intent : Intent
  assumedRank : Bool
  deriving DecidableEq, Repr

/-- `check_arg_attrs`: pass `trim(arg)//C_NULL_CHAR` -/
def ftrimCharIn (cfi : Bool) (a : ArgFact) : Bool :=
  !cfi && a.intent == .in_ && a.nind == 1 && a.isCharType

/-- one iteration of `for arg in ast.params:` in `arg_to_buffer` -/
def hasBufStep (cfi : Bool) (acc : Bool) (a : ArgFact) : Bool :=
  match a.sgroup with
  | .string => true
  | .char => if ftrimCharIn cfi a then acc else if a.nind != 0 then true else acc
  | .vector => true
  | .native => if a.intent == .out && (a.istmt == .pp || a.istmt == .pref) then true else acc
  | .other => acc

/-- `has_buf_arg` after the loop -/
def hasBufArg (cfi : Bool) (args : List ArgFact) : Bool := args.foldl (hasBufStep cfi) false

/-- the argument on its own asks for the buffer treatment -/
def argNeedsBuf (cfi : Bool) (a : ArgFact) : Bool := hasBufStep cfi false a

inductive Deref where | none | raw | allocatable | pointer | other
  deriving DecidableEq, Repr

structure ResFact where
  sgroup : SGroup
  baseVector : Bool
  nind : Nat
  deref : Deref
  dimension : Bool
  deriving DecidableEq, Repr

def hasStringResult (r : ResFact) : Bool :=
  r.deref != .raw && (r.sgroup == .char || r.sgroup == .string)
def hasVectorResult (r : ResFact) : Bool :=
  r.deref != .raw && !(r.sgroup == .char || r.sgroup == .string) && r.baseVector
def needCdescResult (r : ResFact) : Bool :=
  r.deref != .raw && !(r.sgroup == .char || r.sgroup == .string) && !r.baseVector && r.nind != 0 &&
    (r.deref == .allocatable || r.deref == .pointer || r.dimension)

/-- `arg_to_buffer` makes the `_bufferify` clone -/
def needsBuffer (cfi : Bool) (r : ResFact) (args : List ArgFact) : Bool :=
  hasStringResult r || hasVectorResult r || needCdescResult r || hasBufArg cfi args

/-- `cfi_args[arg.name]` in `arg_to_CFI` -/
def cfiArg (a : ArgFact) : Bool :=
  a.assumedRank || a.sgroup == .string || (a.sgroup == .char && a.nind != 0 && a.istmt != .pp)

def needsCfi (r : ResFact) (args : List ArgFact) : Bool := args.any cfiArg || hasStringResult r

inductive Clone where | none | buf | cfi
  deriving DecidableEq, Repr

/-- the caller: `arg_to_CFI` when F_CFI, `arg_to_buffer` when that did not apply -/
def clone (cfi : Bool) (r : ResFact) (args : List ArgFact) : Clone :=
  if cfi && needsCfi r args then .cfi
  else if needsBuffer cfi r args then .buf else .none

/-- the seeded variant of the char branch (`has_buf_arg = is_indirect and not ftrim_char_in`):
    an assignment instead of a set-only flag.  Used only for the witness theorem. -/
def hasBufStepAssign (cfi : Bool) (acc : Bool) (a : ArgFact) : Bool :=
  match a.sgroup with
  | .char => a.nind != 0 && !ftrimCharIn cfi a
  | _ => hasBufStep cfi acc a

end Shroud.BufSelect
