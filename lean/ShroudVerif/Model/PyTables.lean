/-
Row types and checkers for the Python statement tables (`wrapp.py_statements`) and the typemap `PY_*`
fields, regenerated into `Gen/PyStmts.lean` by `tools/extract_pystmts.py`.

Text is `List Nat` (code points).  The format grammars are CPython's:
`PyArg_Parse*` units consume addresses, `Py_BuildValue` units consume arguments.
Core Lean only.
-/
namespace Shroud.PyTables

def ch (c : Char) : Nat := c.toNat

/-- letters that are a complete one-address `PyArg_Parse` unit. -/
def parseSimple : List Nat := "bBhHiIlkLKncCfdDpUSY".toList.map ch

/-- addresses per unit of a `PyArg_Parse` format (markers `|` `$` take none); `none`: text outside the grammar. -/
def parseUnits : Nat → List Nat → Option (List Nat)
  | 0, _ => none
  | _, [] => some []
  | fuel + 1, c :: r =>
    if c == ch '|' || c == ch '$' then parseUnits fuel r
    else if c == ch 's' || c == ch 'z' || c == ch 'y' then
      match r with
      | d :: r' =>
        if d == ch '#' then (parseUnits fuel r').map (2 :: ·)
        else if d == ch '*' then (parseUnits fuel r').map (1 :: ·)
        else (parseUnits fuel r).map (1 :: ·)
      | [] => some [1]
    else if c == ch 'O' then
      match r with
      | d :: r' =>
        if d == ch '!' || d == ch '&' then (parseUnits fuel r').map (2 :: ·)
        else (parseUnits fuel r).map (1 :: ·)
      | [] => some [1]
    else if parseSimple.contains c then (parseUnits fuel r).map (1 :: ·)
    else none

def parseArity (t : List Nat) : Option (List Nat) := parseUnits (t.length + 1) t

def buildSimple : List Nat := "bBhHiIlkLKncCfdDOSN".toList.map ch

/-- arguments per unit of a `Py_BuildValue` format. -/
def buildUnits : Nat → List Nat → Option (List Nat)
  | 0, _ => none
  | _, [] => some []
  | fuel + 1, c :: r =>
    if c == ch 's' || c == ch 'z' || c == ch 'y' || c == ch 'u' || c == ch 'U' then
      match r with
      | d :: r' =>
        if d == ch '#' then (buildUnits fuel r').map (2 :: ·)
        else (buildUnits fuel r).map (1 :: ·)
      | [] => some [1]
    else if c == ch 'O' then
      match r with
      | d :: r' =>
        if d == ch '&' then (buildUnits fuel r').map (2 :: ·)
        else (buildUnits fuel r).map (1 :: ·)
      | [] => some [1]
    else if buildSimple.contains c then (buildUnits fuel r).map (1 :: ·)
    else none

def buildArity (t : List Nat) : Option (List Nat) := buildUnits (t.length + 1) t

/-- number of top-level (outside parentheses) comma separated arguments of a C argument text; 0 for empty. -/
def countArgsAux : Nat → Nat → List Nat → Nat
  | _, n, [] => n
  | depth, n, c :: r =>
    if c == ch '(' then countArgsAux (depth + 1) n r
    else if c == ch ')' then countArgsAux (depth - 1) n r
    else if c == ch ',' && depth == 0 then countArgsAux depth (n + 1) r
    else countArgsAux depth n r

def countArgs (t : List Nat) : Nat := if t.isEmpty then 0 else countArgsAux 0 1 t

def sum : List Nat → Nat
  | [] => 0
  | a :: r => a + sum r

/-- resources a statement entry can acquire. -/
inductive Res where
  | pyVar       -- new reference held in {py_var}
  | dataObj     -- {value_var}.dataobj: converter allocated memory behind a capsule
  | cMem        -- malloc / new of {cxx_var}
  | capsule     -- {py_capsule}
  | descrRef    -- Py_INCREF({PYN_descr})
  | convObj     -- {value_var}.obj acquired by an `O&` converter
  deriving DecidableEq, Repr

structure StmtRow where
  name : Nat
  lang : Nat                 -- 0 c, 1 cxx
  sgroup : Nat
  parseFormat : List Nat
  nParseArgs : Nat
  acquires : List Res
  handed : List Res          -- ownership passed on: returned object, stolen reference, capsule base object
  relSuccess : List Res      -- released on the success path (cleanup; post_call for pre_call temporaries)
  relFail : List Res         -- released in the fail block
  objectCreated : Bool
  gotoFlag : Bool            -- `goto_fail`
  gotoText : Bool            -- some clause contains `goto fail`
  failText : Bool            -- non-empty fail clause
  argCall : List Nat         -- 0 plain, 1 address-of, 2 dereference, 3 indexed
  ctorArgs : Nat             -- arguments in fmtdict.ctor_expr (0: not set)
  cxxLocal : Bool            -- `cxx_local_var`: a C++ local made from the parsed C variable is what the library gets
  ctorUsesC : Bool           -- fmtdict.ctor_expr mentions `{c_var}`
  ctorUsesCxx : Bool         -- fmtdict.ctor_expr mentions `{cxx_var}`
  deriving Repr

/-- one address per format unit. -/
def StmtRow.addrOk (r : StmtRow) : Bool :=
  match parseArity r.parseFormat with
  | some us => sum us == r.nParseArgs
  | none => false

/-- `goto fail` is only written by entries that also ask for the `fail:` label; a fail block is only written
by entries that ask for it. -/
def StmtRow.gotoOk (r : StmtRow) : Bool :=
  (!r.gotoText || r.gotoFlag) && (!r.failText || r.gotoFlag)

/-- every acquired resource is released on the success path and in the fail block, or its ownership is
handed on. -/
def StmtRow.ownOk (r : StmtRow) : Bool :=
  r.acquires.all (fun x => r.handed.contains x || (r.relSuccess.contains x && r.relFail.contains x))

/-- stricter: a resource that is handed on at the end is nevertheless released when a later step fails. -/
def StmtRow.failStrict (r : StmtRow) : Bool :=
  r.acquires.all (fun x => r.relFail.contains x || x == .descrRef || x == .convObj)

/-- the object returned for an argument is built from the variable the library was given: an entry that
passes a C++ local (`cxx_local_var`) builds it from that local, never from the parsed C variable. -/
def StmtRow.ctorVarOk (r : StmtRow) : Bool :=
  r.ctorArgs == 0 || !r.cxxLocal || (r.ctorUsesCxx && !r.ctorUsesC)

/-- an entry whose `{py_var}` is returned (`object_created`) owns a reference to it: it made the object or took a
new reference to the argument object. -/
def StmtRow.createdOk (r : StmtRow) : Bool :=
  !r.objectCreated || r.acquires.contains .pyVar

structure TypeRow where
  name : Nat
  sgroup : Nat
  pyFormat : List Nat        -- PY_format ([] if none)
  typeObject : Bool          -- PY_PyTypeObject set: unit is PY_format ++ "!"
  fromObject : Bool          -- PY_from_object set: unit is PY_format ++ "&"
  buildFormat : List Nat     -- PY_build_format ([] if none)
  buildArg : List Nat        -- PY_build_arg ([] if none: `{cxx_var}`)
  ctorInner : List Nat       -- argument text of the PY_ctor call, `{ctor_expr}` written as one identifier ([] if no PY_ctor)
  ctorArity : Nat            -- arity of that C-API function (translator's C-API table; 0 if no PY_ctor)
  pyctorArgs : Nat           -- arguments in pytype_to_pyctor (0 if the type has no py_ctype)
  hasGet : Bool              -- PY_get
  deriving Repr

/-- the parse unit `wrap_function` writes for this type and the number of addresses it passes. -/
def TypeRow.parseUnit (t : TypeRow) : List Nat × Nat :=
  if t.typeObject then (t.pyFormat ++ [ch '!'], 2)
  else if t.fromObject then (t.pyFormat ++ [ch '&'], 2)
  else (t.pyFormat, 1)

def TypeRow.parseOk (t : TypeRow) : Bool :=
  t.pyFormat.isEmpty ||
    (match parseArity t.parseUnit.1 with
     | some [n] => n == t.parseUnit.2
     | _ => false)

/-- the build unit `intent_out` writes and the arguments it passes. -/
def TypeRow.buildUnit (t : TypeRow) : List Nat := if t.buildFormat.isEmpty then t.pyFormat else t.buildFormat

def TypeRow.buildArgs (t : TypeRow) : Nat := if t.buildArg.isEmpty then 1 else countArgs t.buildArg

def TypeRow.buildOk (t : TypeRow) : Bool :=
  t.buildUnit.isEmpty ||
    (match buildArity t.buildUnit with
     | some [n] => n == t.buildArgs
     | _ => false)

/-- the constructor call `intent_out` writes has the C-API function's arity, for each way the statement
group fills `{ctor_expr}` (`ks`: argument counts of the group's `fmtdict.ctor_expr`, `[1]` if it sets none). -/
def TypeRow.ctorOk (t : TypeRow) (ks : List Nat) : Bool :=
  t.ctorArity == 0 ||
    ks.all (fun k => countArgs t.ctorInner - 1 + (if t.pyctorArgs != 0 then t.pyctorArgs else k) == t.ctorArity)

def ctorExprCounts (stmts : List StmtRow) (sgroup : Nat) : List Nat :=
  let ks := (stmts.filter (fun s => s.sgroup == sgroup && s.ctorArgs != 0)).map (·.ctorArgs)
  if ks.isEmpty then [1] else ks

/-- value classes: 0 int, 1 str, 2 float, 3 bool, 4 None, 5 complex; `O!` is handled by the exact type. -/
structure UnitClass where
  unit : List Nat
  accepts : List Nat
  deriving Repr

def lookupUnit (tbl : List UnitClass) (u : List Nat) : Option (List Nat) :=
  match tbl.find? (fun c => c.unit == u) with
  | some c => some c.accepts
  | none => none

end Shroud.PyTables
