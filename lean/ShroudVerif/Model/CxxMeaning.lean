import ShroudVerif.Model.Decl
/-!
# Reference semantics of C++ declarations (independent of the Shroud parser)

`cxxMeaning env ts` reads a token list as ISO C++ reads a declaration
(`decl-specifier-seq declarator`, [dcl.decl], [dcl.meaning]) and returns the declared
name and type.  It is written from the C++ grammar, not from `declast.py`, and shares
with `Model/Decl.lean` only the token type and the symbol environment (which names are
types).  The functions of the Shroud parser model (`declaration`, `declarator`,
`pointer`, ...) are not used here.

  declaration      ::= decl-specifier-seq declarator? shroud-attrs? ( '=' value )? ';'?
  declarator       ::= ptr-operator* noptr-declarator
  ptr-operator     ::= '*' cv* | '&'
  noptr-declarator ::= ( id | '(' declarator ')' | <empty> ) suffix*
  suffix           ::= '[' tokens ']' | '(' parameter-list ')' 'const'?
  parameter-list   ::= <empty> | 'void' | parameter ( ',' parameter )*

Inside-out rule: in `T D`, the pointer operators of `D` apply to `T` first (left to
right), then the suffixes (right to left), then the operators of the nested declarator.
Shroud attributes (`+name`, `+name(...)`) and default values are skipped.  A '(' after
the pointer operators opens a nested declarator only if a declarator can start there
(`*`, `&`, `(`, or an identifier that is not a type name); otherwise it is a parameter
list (C++ disambiguation).  An identifier is a type name only while no other type
specifier has been seen ([dcl.spec]).

Well-formedness of the resulting type (no pointer to reference, no array of functions,
...) is a separate predicate `CxxType.valid`; `cxxMeaning` computes the meaning the
grammar assigns.  `complex` is read as C99 `_Complex` and written `std::complex<T>`.
-/
namespace Shroud.Cxx
open Shroud.Decl

inductive BaseTy where
  | fund (name : Str)     -- canonical spelling of a fundamental type: "unsigned long"
  | named (tm : Str)      -- a type name, by the typemap the environment binds it to
  deriving DecidableEq, Repr, Inhabited

inductive CxxType where
  | base (c v : Bool) (b : BaseTy)
  | ptr (c v : Bool) (t : CxxType)
  | ref (t : CxxType)
  | arr (n : Str) (t : CxxType)
  | func (ret : CxxType) (params : List CxxType) (cq : Bool)
  deriving Repr, Inhabited

/-- one derivation step of a declarator -/
inductive Op where
  | ptr (c v : Bool)
  | ref
  | arr (n : Str)
  | func (params : List CxxType) (cq : Bool)
  deriving Repr, Inhabited

def applyOp (t : CxxType) : Op → CxxType
  | .ptr c v => .ptr c v t
  | .ref => .ref t
  | .arr n => .arr n t
  | .func ps cq => .func t ps cq

def applyOps (t : CxxType) (ops : List Op) : CxxType := ops.foldl applyOp t

/-! ## fundamental types from a specifier multiset ([dcl.type.simple], Table 14) -/

def cnt (l : List Str) (s : String) : Nat := l.count s.toList

def fundName (l : List Str) : Option Str :=
  let sg := cnt l "signed"; let us := cnt l "unsigned"; let sh := cnt l "short"; let lg := cnt l "long"
  let it := cnt l "int"; let ch := cnt l "char"; let vd := cnt l "void"; let bl := cnt l "bool"
  let fl := cnt l "float"; let db := cnt l "double"; let cx := cnt l "complex"
  let total := sg + us + sh + lg + it + ch + vd + bl + fl + db + cx
  if total ≠ l.length ∨ l = [] then none
  else if vd = 1 ∧ total = 1 then some "void".toList
  else if bl = 1 ∧ total = 1 then some "bool".toList
  else if cx = 1 ∧ fl = 1 ∧ total = 2 then some "std::complex<float>".toList
  else if cx = 1 ∧ db = 1 ∧ total = 2 then some "std::complex<double>".toList
  else if fl = 1 ∧ total = 1 then some "float".toList
  else if db = 1 ∧ total = 1 then some "double".toList
  else if db = 1 ∧ lg = 1 ∧ total = 2 then some "long double".toList
  else if ch = 1 ∧ total = 1 then some "char".toList
  else if ch = 1 ∧ sg = 1 ∧ total = 2 then some "signed char".toList
  else if ch = 1 ∧ us = 1 ∧ total = 2 then some "unsigned char".toList
  else if vd + bl + fl + db + cx + ch ≠ 0 then none
  else if sg + us > 1 ∨ it > 1 ∨ sh > 1 ∨ lg > 2 ∨ (sh = 1 ∧ lg ≠ 0) then none
  else
    let size : String := if sh = 1 then "short" else if lg = 1 then "long" else if lg = 2 then "long long" else "int"
    some ((if us = 1 then "unsigned " else "") ++ size).toList

/-! ## decl-specifier-seq -/

structure SpecAcc where
  c : Bool := false
  v : Bool := false
  fund : List Str := []
  named : Option Str := none
  deriving Repr, Inhabited

def cxxSpec (env : Env) : Toks → SpecAcc → SpecAcc × Toks
  | [], a => (a, [])
  | t :: ts, a =>
    if t.typ = .TYPE_QUALIFIER then
      cxxSpec env ts { a with c := a.c || t.val == "const".toList, v := a.v || t.val == "volatile".toList }
    else if t.typ = .STORAGE_CLASS then cxxSpec env ts a
    else if t.typ = .TYPE_SPECIFIER then
      if a.named.isSome then (a, t :: ts) else cxxSpec env ts { a with fund := a.fund ++ [t.val] }
    else if t.typ = .ID ∧ a.fund.isEmpty ∧ a.named.isNone then
      match env.unq t.val with
      | some (.type tm) => cxxSpec env ts { a with named := some tm }
      | _ => (a, t :: ts)
    else (a, t :: ts)

def SpecAcc.base (a : SpecAcc) : Option CxxType :=
  match a.named with
  | some tm => if a.fund.isEmpty then some (.base a.c a.v (.named tm)) else none
  | none => (fundName a.fund).map (fun n => .base a.c a.v (.fund n))

/-! ## declarators -/

/-- `ptr-operator*`: qualifiers after `*` belong to that pointer -/
def cxxCv : Toks → Bool × Bool × Toks
  | [] => (false, false, [])
  | t :: ts =>
    if t.typ = .TYPE_QUALIFIER then
      let (c, v, r) := cxxCv ts
      (c || t.val == "const".toList, v || t.val == "volatile".toList, r)
    else (false, false, t :: ts)

def cxxPtrOps : Nat → Toks → List Op × Toks
  | 0, ts => ([], ts)
  | n+1, ts =>
    match ts with
    | t :: rest =>
      if t.typ = .STAR then
        let (c, v, r) := cxxCv rest
        let (ops, r') := cxxPtrOps n r
        (.ptr c v :: ops, r')
      else if t.typ = .REF then
        let (ops, r') := cxxPtrOps n rest
        (.ref :: ops, r')
      else ([], ts)
    | [] => ([], [])

/-- text between `[` and the matching `]` -/
def cxxBound : Nat → Toks → Option (Str × Toks)
  | _, [] => none
  | depth, t :: ts =>
    if t.typ = .LBRACKET then (cxxBound (depth + 1) ts).map (fun (s, r) => (t.val ++ s, r))
    else if t.typ = .RBRACKET then
      if depth = 0 then some ([], ts) else (cxxBound (depth - 1) ts).map (fun (s, r) => (t.val ++ s, r))
    else (cxxBound depth ts).map (fun (s, r) => (t.val ++ s, r))

/-- skip to the `)` matching an already consumed `(` -/
def skipParen : Nat → Toks → Option Toks
  | _, [] => none
  | depth, t :: ts =>
    if t.typ = .LPAREN then skipParen (depth + 1) ts
    else if t.typ = .RPAREN then (if depth = 0 then some ts else skipParen (depth - 1) ts)
    else skipParen depth ts

/-- Shroud annotations `+name`, `+name(...)`, `+name=value` carry no C++ meaning -/
def skipAttrs : Nat → Toks → Option Toks
  | 0, _ => none
  | n+1, ts =>
    match ts with
    | [] => some []
    | t :: ts1 =>
      if t.typ = .PLUS then
        match ts1 with
        | [] => none
        | t2 :: rest =>
          if t2.typ = .ID then
            match rest with
            | [] => some []
            | t3 :: rest' =>
              if t3.typ = .LPAREN then (skipParen 0 rest').bind (skipAttrs n)
              else if t3.typ = .EQUALS then (match rest' with | _ :: r => skipAttrs n r | [] => none)
              else skipAttrs n rest
          else none
      else some ts

def isTypeName (env : Env) (v : Str) : Bool :=
  match env.unq v with
  | some (.type _) => true
  | _ => false

def startsDeclarator (env : Env) : Toks → Bool
  | [] => false
  | t :: _ =>
    t.typ == .STAR || t.typ == .REF || t.typ == .LPAREN || (t.typ == .ID && !isTypeName env t.val)

def nextIs (k : Kind) : Toks → Bool
  | [] => false
  | t :: _ => t.typ == k

mutual
/-- `declarator`: the declared name (if any) and the derivation steps in the order they
    apply to the specifier type -/
def cxxDeclarator (env : Env) : Nat → Toks → Option (Option Str × List Op × Toks)
  | 0, _ => none
  | n+1, ts =>
    let (pops, ts1) := cxxPtrOps ts.length ts
    match ts1 with
    | t :: rest =>
      if t.typ = .ID then
        (cxxSuffixes env n rest).map (fun (sfx, r) => (some t.val, pops ++ sfx.reverse, r))
      else if t.typ = .LPAREN ∧ startsDeclarator env rest = true then
        match cxxDeclarator env n rest with
        | some (name, iops, t2 :: r2) =>
          if t2.typ = .RPAREN then
            (cxxSuffixes env n r2).map (fun (sfx, r) => (name, pops ++ sfx.reverse ++ iops, r))
          else none
        | _ => none
      else (cxxSuffixes env n ts1).map (fun (sfx, r) => (none, pops ++ sfx.reverse, r))
    | [] => some (none, pops, [])
/-- `suffix*` in source order -/
def cxxSuffixes (env : Env) : Nat → Toks → Option (List Op × Toks)
  | 0, _ => none
  | n+1, ts =>
    match ts with
    | t :: rest =>
      if t.typ = .LBRACKET then
        match cxxBound 0 rest with
        | some (txt, r) => (cxxSuffixes env n r).map (fun (sfx, r') => (.arr txt :: sfx, r'))
        | none => none
      else if t.typ = .LPAREN then
        match cxxParams env n rest with
        | some (ps, r) =>
          match r with
          | q :: r' =>
            if q.typ = .TYPE_QUALIFIER then
              if q.val = "const".toList then (cxxSuffixes env n r').map (fun (sfx, r'') => (.func ps true :: sfx, r''))
              else none
            else (cxxSuffixes env n r).map (fun (sfx, r'') => (.func ps false :: sfx, r''))
          | [] => some ([.func ps false], [])
        | none => none
      else some ([], ts)
    | [] => some ([], [])
/-- `parameter-list` after the `(`, up to and including the `)` -/
def cxxParams (env : Env) : Nat → Toks → Option (List CxxType × Toks)
  | 0, _ => none
  | n+1, ts =>
    match ts with
    | t :: rest =>
      if t.typ = .RPAREN then some ([], rest)
      else if t.typ = .TYPE_SPECIFIER ∧ t.val = "void".toList ∧ nextIs .RPAREN rest = true then
        some ([], rest.drop 1)
      else cxxParamsTail env n ts
    | [] => none
def cxxParamsTail (env : Env) : Nat → Toks → Option (List CxxType × Toks)
  | 0, _ => none
  | n+1, ts =>
    match cxxParam env n ts with
    | some (ty, t :: rest) =>
      if t.typ = .COMMA then (cxxParamsTail env n rest).map (fun (tys, r) => (ty :: tys, r))
      else if t.typ = .RPAREN then some ([ty], rest)
      else none
    | _ => none
/-- `parameter-declaration` -/
def cxxParam (env : Env) : Nat → Toks → Option (CxxType × Toks)
  | 0, _ => none
  | n+1, ts =>
    let (acc, ts1) := cxxSpec env ts {}
    match acc.base with
    | none => none
    | some b =>
      match cxxDeclarator env n ts1 with
      | some (_, ops, ts2) =>
        match skipAttrs (ts2.length + 1) ts2 with
        | some ts3 =>
          (match ts3 with
           | e :: _ :: r => if e.typ = .EQUALS then some (applyOps b ops, r) else some (applyOps b ops, ts3)
           | _ => some (applyOps b ops, ts3))
        | none => none
      | none => none
end

/-- the reference meaning of a declaration: declared name and type -/
def cxxMeaning (env : Env) (ts : Toks) : Option (Option Str × CxxType) :=
  let (acc, ts1) := cxxSpec env ts {}
  match acc.base with
  | none => none
  | some b =>
    match cxxDeclarator env (4 * ts.length + 16) ts1 with
    | some (name, ops, ts2) =>
      match skipAttrs (ts2.length + 1) ts2 with
      | some ts3 =>
        let ts4 : Toks := (match ts3 with
          | e :: _ :: r => if e.typ = Kind.EQUALS then r else ts3
          | _ => ts3)
        let ts5 : Toks := (match ts4 with
          | s :: r => if s.typ = Kind.SEMICOLON then r else ts4
          | [] => [])
        if ts5.isEmpty then some (name, applyOps b ops) else none
      | none => none
    | none => none

/-! ## what Shroud's record of a declaration denotes -/

def ptrOp (p : Ptr) : Op :=
  match p.kind with
  | .star => .ptr p.const p.volatile
  | .ref => .ref

def declaratorOps : Declarator → List Op
  | .leaf ps _ => ps.map ptrOp
  | .wrap ps i => ps.map ptrOp ++ declaratorOps i

def declaratorName : Declarator → Option Str
  | .leaf _ n => n
  | .wrap _ i => declaratorName i

/-- the base type Shroud records: the C++ type of the typemap (`cxx_type`) for built-in
    specifiers, the typemap itself for a type name -/
def denoteBase (env : Env) (s : Spec) : Option CxxType :=
  if s.specifier.all (fun x => classify x = .TYPE_SPECIFIER) then
    match env.typeInfo s.typemap with
    | some ti => ti.cxxType.map (fun n => .base s.const s.volatile (.fund n))
    | none => none
  else some (.base s.const s.volatile (.named s.typemap))

/-- operators of a declarator whose outermost level carries the suffixes `sfx` (source order):
    its own pointer operators, then the suffixes right to left, then the nested declarator -/
def opsOf : Declarator → List Op → List Op
  | .leaf ps _, sfx => ps.map ptrOp ++ sfx.reverse
  | .wrap ps i, sfx => ps.map ptrOp ++ sfx.reverse ++ declaratorOps i

def denOps (dr : Option Declarator) (sfx : List Op) : List Op :=
  match dr with
  | none => sfx.reverse
  | some d => opsOf d sfx

mutual
/-- the C++ type Shroud's record of a declaration stands for (parameters and array
    dimensions are suffixes of the outermost declarator level) -/
def denote (env : Env) : Decl → Option CxxType
  | .mk s dr params fc arr _ _ =>
    match denoteBase env s, denoteParams env fc params with
    | some b, some fo => some (applyOps b (denOps dr (fo ++ arr.map (fun e => Op.arr (printExpr e)))))
    | _, _ => none
def denoteParams (env : Env) (fc : Bool) : Option (List Decl) → Option (List Op)
  | none => some []
  | some ps =>
    match denoteList env ps with
    | some tys => some [Op.func tys fc]
    | none => none
def denoteList (env : Env) : List Decl → Option (List CxxType)
  | [] => some []
  | p :: ps =>
    match denote env p, denoteList env ps with
    | some a, some b => some (a :: b)
    | _, _ => none
end

def declName : Decl → Option Str
  | .mk _ dr _ _ _ _ _ => dr.bind declaratorName

/-! ## documented C counterpart -/

mutual
/-- references become pointers; the base type becomes the typemap's `c_type` (done by
    `denoteC` below through the environment) -/
def toC : CxxType → CxxType
  | .base c v b => .base c v b
  | .ptr c v t => .ptr c v (toC t)
  | .ref t => .ptr false false (toC t)
  | .arr n t => .arr n (toC t)
  | .func r ps cq => .func (toC r) (toCList ps) cq
def toCList : List CxxType → List CxxType
  | [] => []
  | a :: t => toC a :: toCList t
end

def toCOp : Op → Op
  | .ptr c v => .ptr c v
  | .ref => .ptr false false
  | .arr n => .arr n
  | .func ps cq => .func (toCList ps) cq

mutual
def CxxType.hasRef : CxxType → Bool
  | .base _ _ _ => false
  | .ptr _ _ t => t.hasRef
  | .ref _ => true
  | .arr _ t => t.hasRef
  | .func r ps _ => r.hasRef || hasRefList ps
def hasRefList : List CxxType → Bool
  | [] => false
  | a :: t => a.hasRef || hasRefList t
end

/-- the meaning of a token list read as a C declaration: the same declarator grammar,
    without references -/
def cMeaning (env : Env) (ts : Toks) : Option (Option Str × CxxType) :=
  match cxxMeaning env ts with
  | some (n, t) => if t.hasRef then none else some (n, t)
  | none => none

/-- the declarator with every `&` turned into `*` (what `gen_arg_as_c` prints) -/
def starPtr (p : Ptr) : Ptr := { p with kind := .star }

def toStarD : Declarator → Declarator
  | .leaf ps n => .leaf (ps.map starPtr) n
  | .wrap ps i => .wrap (ps.map starPtr) (toStarD i)

/-! ## well-formedness ([dcl.ref], [dcl.array], [dcl.fct]) -/

mutual
def CxxType.valid : CxxType → Bool
  | .base _ _ _ => true
  | .ptr _ _ t => t.valid && (match t with | .ref _ => false | _ => true)
  | .ref t => t.valid && (match t with | .ref _ => false | _ => true)
  | .arr _ t => t.valid && (match t with | .ref _ => false | .func _ _ _ => false | .base _ _ (.fund n) => n ≠ "void".toList | _ => true)
  | .func r ps _ => r.valid && validList ps && (match r with | .arr _ _ => false | .func _ _ _ => false | _ => true)
def validList : List CxxType → Bool
  | [] => true
  | a :: t => a.valid && (match a with | .base _ _ (.fund n) => n ≠ "void".toList | _ => true) && validList t
end

/-! ## rendering as a C++ type expression (for validation against g++)

Uses the alias templates `P<T>=T*`, `R<T>=T&`, `A<T,N>=T[N]`, `F<Ret,Args...>=Ret(Args...)`,
`FC<...>=Ret(Args...) const`, `C<T>=const T`, `V<T>=volatile T` declared by the harness. -/

def baseText : BaseTy → Str
  | .fund n => n
  | .named tm => tm

def cvWrap (c v : Bool) (s : Str) : Str :=
  let s1 := if v then "V<".toList ++ s ++ ">".toList else s
  if c then "C<".toList ++ s1 ++ ">".toList else s1

mutual
def CxxType.text : CxxType → Str
  | .base c v b => cvWrap c v (baseText b)
  | .ptr c v t => cvWrap c v ("P<".toList ++ t.text ++ ">".toList)
  | .ref t => "R<".toList ++ t.text ++ ">".toList
  | .arr n t => "A<".toList ++ t.text ++ ",".toList ++ n ++ ">".toList
  | .func r ps cq => (if cq then "FC<".toList else "F<".toList) ++ r.text ++ textList ps ++ ">".toList
def textList : List CxxType → Str
  | [] => []
  | a :: t => ",".toList ++ a.text ++ textList t
end

end Shroud.Cxx
