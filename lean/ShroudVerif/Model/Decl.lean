import ShroudVerif.Model.Token
/-!
# Model of the declaration parser and unparsers of `shroud/declast.py`

Scope (what is modelled; everything else yields `Res.unmodelled`):
* `Parser.decl_statement` -> `declaration` for a parser whose namespace is a
  library (global scope, not a class: no constructors/destructors);
  `class/enum/struct/namespace/template` statements are `unmodelled`.
* `declaration_specifier` (type-specifier / qualifier / storage loop, names
  resolved through the symbol environment incl. `ns::name`, one template
  argument), `get_canonical_typemap`, `declarator`, `pointer`,
  `parameter_list`, array dimensions via `ExprParser.expression`
  (precedence climbing), `attribute`, `initializer`, optional `;`, EOF.
* unparsers `gen_decl`, `gen_arg_as_cxx`, `gen_arg_as_c`, `as_cast`, `__str__`
  with default keyword arguments (text and token level).

Every recursive function takes a fuel argument and calls its callees with one
unit less; `Res.fuel` is a distinct outcome.  Python crash sites are explicit
`Res.crash` (none is left in the parser after the `fix:` commits; the
unparsers keep `TypeError` for a typemap without a C type).
-/
namespace Shroud.Decl

inductive Res (α : Type) where
  | ok (a : α)
  | reject (msg : String)       -- RuntimeError (incl. NotImplementedError): a diagnostic
  | crash (exn : String)        -- internal Python exception
  | fuel                        -- recursion budget exhausted (shown unreachable by the tie)
  | unmodelled (what : String)  -- outside the modelled grammar
  deriving Repr

instance : Monad Res where
  pure := .ok
  bind m f := match m with
    | .ok a => f a
    | .reject m => .reject m
    | .crash e => .crash e
    | .fuel => .fuel
    | .unmodelled w => .unmodelled w

@[simp] theorem Res.bind_ok {α β} (a : α) (f : α → Res β) : (Res.ok a >>= f) = f a := rfl
@[simp] theorem Res.bind_reject {α β} (m : String) (f : α → Res β) : (Res.reject m >>= f) = .reject m := rfl
@[simp] theorem Res.bind_crash {α β} (m : String) (f : α → Res β) : (Res.crash m >>= f) = .crash m := rfl
@[simp] theorem Res.bind_fuel {α β} (f : α → Res β) : (Res.fuel >>= f) = .fuel := rfl
@[simp] theorem Res.bind_unmodelled {α β} (m : String) (f : α → Res β) : (Res.unmodelled m >>= f) = .unmodelled m := rfl
@[simp] theorem Res.pure_eq {α} (a : α) : (pure a : Res α) = .ok a := rfl

/-! ## Abstract syntax (mirrors the Python node classes) -/

inductive Expr where
  | ident (name : Str)                       -- Identifier(name), args = None
  | call (name : Str) (args : List Expr)     -- Identifier(name, args)
  | const (v : Str)
  | paren (e : Expr)
  | unary (op : Str) (e : Expr)
  | binary (l : Expr) (op : Str) (r : Expr)
  deriving Repr, Inhabited

inductive PtrK where | star | ref
  deriving DecidableEq, Repr, Inhabited

structure Ptr where
  kind : PtrK
  const : Bool := false
  volatile : Bool := false
  deriving DecidableEq, Repr, Inhabited

/-- `Declarator(pointer, name, func)`: `leaf` has `func = None`, `wrap` has
    `name = None` and `func = inner` (the parser never sets both). -/
inductive Declarator where
  | leaf (pointer : List Ptr) (name : Option Str)
  | wrap (pointer : List Ptr) (inner : Declarator)
  deriving DecidableEq, Repr, Inhabited

/-- initial value as stored by `initializer()` -/
inductive Init where
  | real (py : Str)   -- float(value); `py` = Python's str() of it
  | int (py : Str)    -- int(value)
  | str (v : Str)     -- DQUOTE / SQUOTE / ID text
  deriving DecidableEq, Repr, Inhabited

inductive AttrVal where
  | flag                          -- `+name`          -> True
  | text (parts : List Token)     -- `+name(...)`     -> "".join(values of parts)
  | init (v : Init)               -- `+name=value`
  deriving DecidableEq, Repr, Inhabited

/-- the declaration-specifier part of a `Declaration` (all a template
    argument has).  `targs` has at most one element. -/
inductive Spec where
  | mk (specifier : List Str) (storage : List Str) (const volatile : Bool)
       (targs : List Spec) (typemap : Str)
  deriving Repr, Inhabited

inductive Decl where
  | mk (spec : Spec) (declarator : Option Declarator) (params : Option (List Decl))
       (funcConst : Bool) (array : List Expr) (attrs : List (Str × AttrVal)) (init : Option Init)
  deriving Repr, Inhabited

def Spec.specifier : Spec → List Str | .mk s _ _ _ _ _ => s
def Spec.storage : Spec → List Str | .mk _ s _ _ _ _ => s
def Spec.const : Spec → Bool | .mk _ _ c _ _ _ => c
def Spec.volatile : Spec → Bool | .mk _ _ _ v _ _ => v
def Spec.targs : Spec → List Spec | .mk _ _ _ _ t _ => t
def Spec.typemap : Spec → Str | .mk _ _ _ _ _ t => t
def Decl.spec : Decl → Spec | .mk s _ _ _ _ _ _ => s
def Decl.declarator : Decl → Option Declarator | .mk _ d _ _ _ _ _ => d
def Decl.params : Decl → Option (List Decl) | .mk _ _ p _ _ _ _ => p
def Decl.funcConst : Decl → Bool | .mk _ _ _ f _ _ _ => f
def Decl.array : Decl → List Expr | .mk _ _ _ _ a _ _ => a
def Decl.attrs : Decl → List (Str × AttrVal) | .mk _ _ _ _ _ a _ => a
def Decl.init : Decl → Option Init | .mk _ _ _ _ _ _ i => i

/-! ## Environment: symbol table and typemap table -/

/-- what a name resolves to: a type (typedef/class/enum node, with its typemap
    name) or a namespace with members -/
inductive Sym where
  | type (tm : Str)
  | ns (members : List (Str × Sym))
  deriving Repr, Inhabited

structure TypeInfo where
  name : Str
  cType : Option Str
  cxxType : Option Str
  cToks : List Token := []
  cxxToks : List Token := []
  deriving Repr, Inhabited

structure Env where
  globals : List (Str × Sym)           -- LibraryNode.symbols
  usingNs : List (List (Str × Sym))      -- members of the namespaces in LibraryNode.using
  types : List TypeInfo                -- typemap.shared_typedict (name, c_type, cxx_type)
  canon : List (Str × Str)             -- declast.canonical_typemap
  deriving Repr, Inhabited

def assoc {β} (k : Str) : List (Str × β) → Option β
  | [] => none
  | (a, b) :: t => if a = k then some b else assoc k t

/-- `LibraryNode.unqualified_lookup` -/
def Env.unq (e : Env) (name : Str) : Option Sym :=
  match assoc name e.globals with
  | some s => some s
  | none => e.usingNs.findSome? (fun m => assoc name m)

/-- `qualified_lookup` (after the fix: a non-scope has no members) -/
def Sym.qual : Sym → Str → Option Sym
  | .type _, _ => none
  | .ns m, name => assoc name m

def Env.typeInfo (e : Env) (name : Str) : Option TypeInfo := e.types.find? (fun t => t.name = name)

/-! ## Token stream helpers -/

abbrev Toks := List Token

def peekTyp : Toks → Option Kind
  | [] => none            -- EOF
  | t :: _ => some t.typ

def typName : Toks → String
  | [] => "EOF"
  | t :: _ => t.typ.name

def valName : Toks → String
  | [] => "None"
  | t :: _ => String.ofList t.val

/-- `mustbe(typ)` -/
def mustbe (k : Kind) : Toks → Res (Token × Toks)
  | t :: ts => if t.typ = k then .ok (t, ts) else .reject s!"Expected {k.name}, found {t.typ.name}"
  | [] => .reject s!"Expected {k.name}, found EOF"

/-- `have(typ)` -/
def have? (k : Kind) : Toks → Bool × Toks
  | t :: ts => if t.typ = k then (true, ts) else (false, t :: ts)
  | [] => (false, [])

def joinStr (sep : Str) : List Str → Str
  | [] => []
  | [a] => a
  | a :: b :: t => a ++ sep ++ joinStr sep (b :: t)

/-! ## ExprParser -/

def opPrec (v : Str) : Option Nat :=
  if v = ['+'] ∨ v = ['-'] then some 1 else if v = ['*'] ∨ v = ['/'] then some 2 else none

mutual
/-- `ExprParser.expression(min_prec)` -/
def expression : Nat → Nat → Toks → Res (Expr × Toks)
  | 0, _, _ => .fuel
  | n+1, minPrec, ts => do
    let (lhs, ts) ← primary n ts
    exprLoop n minPrec lhs ts
/-- the `while True` loop of `expression` -/
def exprLoop : Nat → Nat → Expr → Toks → Res (Expr × Toks)
  | 0, _, _, _ => .fuel
  | n+1, minPrec, lhs, ts =>
    match ts with
    | [] => .ok (lhs, [])
    | t :: rest =>
      match opPrec t.val with
      | none => .ok (lhs, ts)
      | some prec =>
        if prec < minPrec then .ok (lhs, ts) else do
          let (rhs, ts') ← expression n (prec + 1) rest
          exprLoop n minPrec (.binary lhs t.val rhs) ts'
/-- `ExprParser.primary` (+ `identifier`) -/
def primary : Nat → Toks → Res (Expr × Toks)
  | 0, _ => .fuel
  | n+1, ts =>
    match ts with
    | [] => .reject "Unexpected token None in primary"
    | t :: rest =>
      if t.typ = .ID then
        match peekTyp rest with
        | some .LPAREN => do
          let (args, ts') ← argList n (rest.drop 1)
          .ok (.call t.val args, ts')
        | _ => .ok (.ident t.val, rest)
      else if t.typ = .REAL ∨ t.typ = .INTEGER then .ok (.const t.val, rest)
      else if t.typ = .LPAREN then do
        let (e, ts') ← expression n 0 rest
        let (_, ts'') ← mustbe .RPAREN ts'
        .ok (.paren e, ts'')
      else if t.typ = .PLUS ∨ t.typ = .MINUS then do
        let (e, ts') ← primary n rest
        .ok (.unary t.val e, ts')
      else .reject s!"Unexpected token {String.ofList t.val} in primary"
/-- `ExprParser.argument_list` after the `(` -/
def argList : Nat → Toks → Res (List Expr × Toks)
  | 0, _ => .fuel
  | n+1, ts =>
    match peekTyp ts with
    | some .RPAREN => .ok ([], ts.drop 1)
    | _ => do
      let (e, ts') ← expression n 0 ts
      match have? .COMMA ts' with
      | (true, ts'') =>
        match peekTyp ts'' with
        | some .RPAREN => .reject "Expected an argument after ',', found RPAREN"
        | _ => do
          let (es, ts3) ← argList n ts''
          .ok (e :: es, ts3)
      | (false, ts'') => do
        let (_, ts3) ← mustbe .RPAREN ts''
        .ok ([e], ts3)
end

/-! ## Parser -/

/-- `Parser.pointer`: `qualsPtrs` scans `{* | & | const | volatile}*`; the
    qualifiers it returns belong to the pointer in front of the scanned text. -/
def qualsPtrs : Toks → Bool × Bool × List Ptr × Toks
  | [] => (false, false, [], [])
  | t :: ts =>
    if t.typ = .TYPE_QUALIFIER then
      let (c, v, ps, r) := qualsPtrs ts
      (c || t.val == "const".toList, v || t.val == "volatile".toList, ps, r)
    else if t.typ = .STAR then
      let (c, v, ps, r) := qualsPtrs ts
      (false, false, { kind := .star, const := c, volatile := v } :: ps, r)
    else if t.typ = .REF then
      let (c, v, ps, r) := qualsPtrs ts
      (false, false, { kind := .ref, const := c, volatile := v } :: ps, r)
    else (false, false, [], t :: ts)

def pointer (ts : Toks) : List Ptr × Toks :=
  match peekTyp ts with
  | some .STAR | some .REF => let (_, _, ps, r) := qualsPtrs ts; (ps, r)
  | _ => ([], ts)

/-- `Parser.starts_declarator`: after a `(`, can a declarator start here?  Otherwise the `(`
    opens a parameter list (it is followed by `)`, a type specifier or a known name). -/
def declStarts (env : Env) : Toks → Bool
  | [] => false
  | t :: _ =>
    t.typ == .STAR || t.typ == .REF || t.typ == .LPAREN || (t.typ == .ID && (env.unq t.val).isNone)

/-- `Parser.declarator` -/
def declarator (env : Env) : Nat → Toks → Res (Option Declarator × Toks)
  | 0, _ => .fuel
  | n+1, ts =>
    let (ps, ts1) := pointer ts
    match ts1 with
    | t :: rest =>
      if t.typ = .ID then .ok (some (.leaf ps (some t.val)), rest)
      else if t.typ = .LPAREN ∧ declStarts env rest = true then do
        let (inner, ts2) ← declarator env n rest
        let (_, ts3) ← mustbe .RPAREN ts2
        match inner with
        | none => .ok (some (.leaf ps none), ts3)
        | some i => .ok (some (.wrap ps i), ts3)
      else if ps.isEmpty then .ok (none, ts1) else .ok (some (.leaf ps none), ts1)
    | [] => if ps.isEmpty then .ok (none, ts1) else .ok (some (.leaf ps none), ts1)

/-- `Parser.nested_namespace`: `{ :: ID }*` after the first name -/
def nestedNs : Sym → List Str → Toks → Res (Sym × List Str × Toks)
  | sym, nested, t :: ts =>
    if t.typ = .SCOPE then
      match ts with
      | t2 :: ts2 =>
        if t2.typ = .ID then
          match sym.qual t2.val with
          | none => .reject s!"Symbol '{String.ofList t2.val}' is not in namespace '{String.ofList (nested.getLastD [])}'"
          | some s' => nestedNs s' (nested ++ [t2.val]) ts2
        else .reject s!"Expected ID, found {t2.typ.name}"
      | [] => .reject "Expected ID, found EOF"
    else .ok (sym, nested, t :: ts)
  | sym, nested, [] => .ok (sym, nested, [])

/-- mutable state of the `declaration_specifier` loop -/
structure SpecSt where
  specifier : List Str := []
  storage : List Str := []
  const : Bool := false
  volatile : Bool := false
  targs : List Spec := []
  typemap : Option Str := none
  found : Bool := false
  deriving Inhabited

/-- `get_canonical_typemap` -/
def canonical (env : Env) (st : SpecSt) : Res Spec :=
  match st.typemap with
  | some tm => .ok (.mk st.specifier st.storage st.const st.volatile st.targs tm)
  | none =>
    let typename := joinStr ['_'] st.specifier
    let cname := (assoc typename env.canon).getD typename
    match env.typeInfo cname with
    | some ti => .ok (.mk st.specifier st.storage st.const st.volatile st.targs ti.name)
    | none => .reject s!"(get_canonical_typemap) Unknown typemap '{String.ofList typename}' - '{String.ofList cname}'"

mutual
/-- the `while more` loop of `Parser.declaration_specifier` -/
def specLoop (env : Env) : Nat → SpecSt → Toks → Res (SpecSt × Toks)
  | 0, _, _ => .fuel
  | n+1, st, ts =>
    let done : Res (SpecSt × Toks) :=
      if st.specifier.isEmpty then
        .reject s!"Expected TYPE_SPECIFIER, found {typName ts} '{valName ts}'"
      else .ok (st, ts)
    match ts with
    | [] => done
    | t :: rest =>
      if !st.found ∧ t.typ = .ID then
        match env.unq t.val with
        | none => done
        | some sym => do
          let (sym', nested, ts1) ← nestedNs sym [t.val] rest
          match sym' with
          | .ns _ => .reject s!"'{String.ofList (joinStr "::".toList nested)}' is not a type"
          | .type tm => do
            let (targs, ts2) ← templateArgs env n ts1
            specLoop env n { st with specifier := st.specifier ++ [joinStr "::".toList nested],
                                      targs := st.targs ++ targs, typemap := some tm, found := true } ts2
      else if t.typ = .TYPE_SPECIFIER then
        if st.typemap.isSome then
          .reject s!"type specifier '{String.ofList t.val}' cannot be combined with the type name '{String.ofList (st.specifier.getLastD [])}'"
        else specLoop env n { st with specifier := st.specifier ++ [t.val], found := true } rest
      else if t.typ = .TYPE_QUALIFIER then
        specLoop env n { st with const := st.const || t.val == "const".toList,
                                  volatile := st.volatile || t.val == "volatile".toList } rest
      else if t.typ = .STORAGE_CLASS then
        specLoop env n { st with storage := st.storage ++ [t.val] } rest
      else done
/-- `Parser.declaration_specifier` on a fresh `Declaration` followed by
    `get_canonical_typemap` -/
def declSpec (env : Env) : Nat → Toks → Res (Spec × Toks)
  | 0, _ => .fuel
  | n+1, ts =>
    match peekTyp ts with
    | some .TILDE => .reject "Destructor is not in a class"
    | _ => do
      let (st, ts1) ← specLoop env n {} ts
      let sp ← canonical env st
      .ok (sp, ts1)
/-- `Parser.parse_template_arguments` -/
def templateArgs (env : Env) : Nat → Toks → Res (List Spec × Toks)
  | 0, _ => .fuel
  | n+1, ts =>
    match have? .LT ts with
    | (false, _) => .ok ([], ts)
    | (true, ts1) =>
      match peekTyp ts1 with
      | some .GT => .ok ([], ts1.drop 1)
      | _ => do
        let (sp, ts2) ← declSpec env n ts1
        match have? .COMMA ts2 with
        | (true, _) => .reject "Only single template argument accepted"
        | (false, ts3) => do
          let (_, ts4) ← mustbe .GT ts3
          .ok ([sp], ts4)
end

/-- `Parser.initializer` (after the fix: no value is a parse error) -/
def initializer : Toks → Res (Init × Toks)
  | t :: ts =>
    if t.typ = .REAL then .ok (.real t.num, ts)
    else if t.typ = .INTEGER then .ok (.int t.num, ts)
    else if t.typ = .DQUOTE ∨ t.typ = .SQUOTE ∨ t.typ = .ID then .ok (.str t.val, ts)
    else .reject s!"Expected a value after '=', found {t.typ.name}"
  | [] => .reject "Expected a value after '=', found EOF"

/-- the balanced-paren scan of `Parser.attribute` (`parens` starts at 1) -/
def attrScan (name : Str) : Nat → Toks → Res (List Token × Toks)
  | _, [] => .reject s!"Unbalanced parens in attribute {String.ofList name}"
  | parens, t :: ts =>
    if t.typ = .LPAREN then do
      let (ps, r) ← attrScan name (parens + 1) ts
      .ok (t :: ps, r)
    else if t.typ = .RPAREN then
      if parens ≤ 1 then .ok ([], ts) else do
        let (ps, r) ← attrScan name (parens - 1) ts
        .ok (t :: ps, r)
    else do
      let (ps, r) ← attrScan name parens ts
      .ok (t :: ps, r)

/-- `attrs[name] = value` on a dict kept as a name-sorted association list
    (the only order-sensitive reader, `gen_attrs`, sorts the names) -/
def strLt : Str → Str → Bool
  | [], [] => false
  | [], _ :: _ => true
  | _ :: _, [] => false
  | a :: as, b :: bs => if a.toNat < b.toNat then true else if a.toNat > b.toNat then false else strLt as bs

def attrSet (k : Str) (v : AttrVal) : List (Str × AttrVal) → List (Str × AttrVal)
  | [] => [(k, v)]
  | (a, b) :: t => if a = k then (k, v) :: t else if strLt k a then (k, v) :: (a, b) :: t else (a, b) :: attrSet k v t

/-- `Parser.attribute` -/
def attributeP : Nat → List (Str × AttrVal) → Toks → Res (List (Str × AttrVal) × Toks)
  | 0, _, _ => .fuel
  | n+1, attrs, ts =>
    match have? .PLUS ts with
    | (false, _) => .ok (attrs, ts)
    | (true, ts1) => do
      let (nameTok, ts2) ← mustbe .ID ts1
      if nameTok.val.head? = some '_' then
        .reject s!"Attribute names starting with '_' are reserved: '{String.ofList nameTok.val}'"
      else
      match have? .LPAREN ts2 with
      | (true, ts3) => do
        let (parts, ts4) ← attrScan nameTok.val 1 ts3
        attributeP n (attrSet nameTok.val (.text parts) attrs) ts4
      | (false, _) =>
        match have? .EQUALS ts2 with
        | (true, ts3) => do
          let (v, ts4) ← initializer ts3
          attributeP n (attrSet nameTok.val (.init v) attrs) ts4
        | (false, _) => attributeP n (attrSet nameTok.val .flag attrs) ts2

/-- the `while self.token.typ == "LBRACKET"` loop of `declaration` -/
def arrays : Nat → Toks → Res (List Expr × Toks)
  | 0, _ => .fuel
  | n+1, ts =>
    match have? .LBRACKET ts with
    | (false, _) => .ok ([], ts)
    | (true, ts1) => do
      let (e, ts2) ← expression n 0 ts1
      let (_, ts3) ← mustbe .RBRACKET ts2
      let (es, ts4) ← arrays n ts3
      .ok (e :: es, ts4)

/-- the `(void)` check of `declaration` -/
def isVoidOnly : List Decl → Bool
  | [.mk sp none _ _ _ _ _] => sp.specifier == ["void".toList]
  | _ => false

/-- `Declaration.get_name(use_attr=False)`: the declarator's name, or the name one level down -/
def Declarator.shallowName : Declarator → Option Str
  | .leaf _ n => n
  | .wrap _ (.leaf _ n) => n
  | .wrap _ (.wrap _ _) => none

def Decl.shallowName : Decl → Option Str
  | .mk _ dr _ _ _ _ _ => dr.bind Declarator.shallowName

/-- a lone `void` parameter that carries qualifiers, storage, array bounds, attributes or a value -/
def isDecoratedVoid : List Decl → Bool
  | [.mk sp none _ _ arr attrs init] =>
    sp.specifier == ["void".toList] &&
      (sp.const || sp.volatile || !sp.storage.isEmpty || !arr.isEmpty || init.isSome || !attrs.isEmpty)
  | _ => false

mutual
/-- `Parser.declaration` -/
def declaration (env : Env) : Nat → Toks → Res (Decl × Toks)
  | 0, _ => .fuel
  | n+1, ts => do
    let (sp, ts1) ← declSpec env n ts
    let (dr, ts2) ← declarator env n ts1
    let (params, fc, ts3) ← (match peekTyp ts2 with
      | some .LPAREN => do
        let (ps, ts') ← paramList env n [] (ts2.drop 1)
        if isDecoratedVoid ps then
          .reject "'void' as the only parameter means no parameters; it cannot have qualifiers, attributes or a value"
        else
        let ps := if isVoidOnly ps then [] else ps
        match ts' with
        | t :: rest =>
          if t.typ = .TYPE_QUALIFIER then
            if t.val = "const".toList then .ok (some ps, true, rest)
            else .reject s!"'{String.ofList t.val}' unexpected after function declaration"
          else .ok (some ps, false, ts')
        | [] => .ok (some ps, false, ts')
      | _ => (.ok (none, false, ts2) : Res (Option (List Decl) × Bool × Toks)))
    let (arr, ts4) ← arrays n ts3
    let (attrs, ts5) ← attributeP n [] ts4
    match have? .EQUALS ts5 with
    | (true, ts6) => do
      let (v, ts7) ← initializer ts6
      .ok (.mk sp dr params fc arr attrs (some v), ts7)
    | (false, _) => .ok (.mk sp dr params fc arr attrs none, ts5)
/-- `Parser.parameter_list` after the `(`; `names` are the parameter names seen so far
    (a repeated name is a parse error since the `fix:` commit) -/
def paramList (env : Env) : Nat → List Str → Toks → Res (List Decl × Toks)
  | 0, _, _ => .fuel
  | n+1, names, ts =>
    match peekTyp ts with
    | some .RPAREN => .ok ([], ts.drop 1)
    | _ => do
      let (d, ts1) ← declaration env n ts
      let names' ← (match d.shallowName with
        | some nm =>
          if names.contains nm then (.reject s!"Duplicate parameter name '{String.ofList nm}'" : Res (List Str))
          else .ok (nm :: names)
        | none => .ok names)
      match have? .COMMA ts1 with
      | (true, ts2) =>
        match have? .VARARG ts2 with
        | (true, _) => .reject "varargs"           -- NotImplementedError, a RuntimeError
        | (false, _) =>
          match peekTyp ts2 with
          | some .RPAREN => .reject "Expected a parameter after ',', found RPAREN"
          | _ => do
            let (ds, ts3) ← paramList env n names' ts2
            .ok (d :: ds, ts3)
      | (false, _) => do
        let (_, ts3) ← mustbe .RPAREN ts1
        .ok ([d], ts3)
end

/-- `Parser.decl_statement`: statement dispatch, optional `;`, then EOF -/
def declStatement (env : Env) (fuel : Nat) (ts : Toks) : Res Decl :=
  match peekTyp ts with
  | some .CLASS => .unmodelled "class_statement"
  | some .ENUM => .unmodelled "enum_statement"
  | some .STRUCT => .unmodelled "struct_statement"
  | some .NAMESPACE => .unmodelled "namespace_statement"
  | some .TEMPLATE => .unmodelled "template_statement"
  | _ => do
    let (d, ts1) ← declaration env fuel ts
    let (_, ts2) := have? .SEMICOLON ts1
    match ts2 with
    | [] => .ok d
    | t :: _ => .reject s!"Expected EOF, found {t.typ.name}"

/-- recursion budget given to `check_decl` -/
def fuelFor (ts : Toks) : Nat := 4 * ts.length + 16

/-- `declast.check_decl(decl, namespace=library)` on the token list of `decl` -/
def parse (env : Env) (ts : Toks) : Res Decl := declStatement env (fuelFor ts) ts

/-! ## Unparsers (text level, as coded) -/

def sp (s : String) : Str := s.toList

/-- a rendered operand that starts with a sign is put in parentheses
    (`visit_BinaryOp` / `visit_UnaryOp` after the `1--1` fix) -/
def parenSigned (t : Str) : Str :=
  match t with
  | c :: _ => if c = '+' ∨ c = '-' then sp "(" ++ t ++ sp ")" else t
  | [] => t

mutual
/-- `todict.print_node` on expressions -/
def printExpr : Expr → Str
  | .ident n => n
  | .call n args => match args with
    | [] => n ++ sp "()"
    | a :: as => n ++ sp "(" ++ printExpr a ++ printArgs as ++ sp ")"
  | .const v => v
  | .paren e => sp "(" ++ printExpr e ++ sp ")"
  | .unary op e => op ++ parenSigned (printExpr e)
  | .binary l op r => printExpr l ++ op ++ parenSigned (printExpr r)
def printArgs : List Expr → Str
  | [] => []
  | a :: as => sp "," ++ printExpr a ++ printArgs as
end

def Init.py : Init → Str
  | .real p => p
  | .int p => p
  | .str v => v

/-- Python truthiness of the stored initial value (`if self.init:` in `__str__`) -/
def Init.truthy : Init → Bool
  | .real p => p ≠ sp "0.0" ∧ p ≠ sp "-0.0"
  | .int p => p ≠ sp "0"
  | .str v => !v.isEmpty

/-- `Ptr.gen_decl_work` -/
def Ptr.gen (asC : Bool) (p : Ptr) : Str :=
  sp " " ++ (if asC then sp "*" else match p.kind with | .star => sp "*" | .ref => sp "&")
    ++ (if p.const then sp " const" else []) ++ (if p.volatile then sp " volatile" else [])

/-- `Declarator.gen_decl_work` (no `name=`, `force_ptr`, `as_scalar` kwargs) -/
def Declarator.gen (asC : Bool) : Declarator → Str
  | .leaf ps name => (ps.map (Ptr.gen asC)).flatten ++ (match name with | some n => sp " " ++ n | none => [])
  | .wrap ps inner => (ps.map (Ptr.gen asC)).flatten ++ sp " (" ++ inner.gen asC ++ sp ")"

/-- `Ptr.__str__` (after the fix) -/
def Ptr.str (p : Ptr) : Str :=
  (match p.kind with | .star => sp "*" | .ref => sp "&")
    ++ (if p.const then sp " const" else []) ++ (if p.volatile then sp " volatile" else [])

/-- `Declarator.__str__` -/
def Declarator.str : Declarator → Str
  | .leaf ps name => (ps.map (fun p => p.str ++ sp " ")).flatten ++ (match name with | some n => n | none => [])
  | .wrap ps inner => (ps.map (fun p => p.str ++ sp " ")).flatten ++ sp "(" ++ inner.str ++ sp ")"

/-- `Declaration.__str__` of a template argument (a Declaration with only a specifier part;
    `__str__` does not print template arguments) -/
def Spec.str (s : Spec) : Str :=
  (if s.const then sp "const " else []) ++ (if s.volatile then sp "volatile " else [])
    ++ (if s.storage.isEmpty then [] else joinStr (sp " ") s.storage ++ sp " ")
    ++ (if s.specifier.isEmpty then sp "int" else joinStr (sp " ") s.specifier)

def AttrVal.render : AttrVal → Option Str     -- none: printed as bare `+name`
  | .flag => none
  | .text parts => some (parts.map (·.val)).flatten
  | .init v => some v.py

/-- `Declaration.gen_attrs` (names starting with `_` are skipped) -/
def genAttrsGo (first : Bool) : List (Str × AttrVal) → Str
  | [] => []
  | (k, v) :: t =>
    if k.head? = some '_' then genAttrsGo first t
    else
      (if first then sp " " else []) ++ sp "+" ++
        (match v.render with | none => k | some s => k ++ sp "(" ++ s ++ sp ")") ++ genAttrsGo false t

def genAttrs (attrs : List (Str × AttrVal)) : Str := genAttrsGo true attrs

/-- the text up to and including the declarator of `gen_decl_work` -/
def genHead (s : Spec) (dr : Option Declarator) : Str :=
  (if s.const then sp "const " else []) ++ (if s.volatile then sp "volatile " else [])
    ++ (if s.storage.isEmpty then [] else joinStr (sp " ") s.storage ++ sp " ")
    ++ joinStr (sp " ") s.specifier
    ++ (match s.targs with
        | [] => []
        | t :: ts => sp "<" ++ t.str ++ (ts.map (fun x => sp "," ++ x.str)).flatten ++ sp ">")
    ++ (match dr with | some d => d.gen false | none => [])

mutual
/-- `Declaration.gen_decl()` with default keyword arguments -/
def genDecl : Decl → Str
  | .mk s dr params fc arr attrs init =>
    genHead s dr
    ++ (match init with | some v => sp "=" ++ v.py | none => [])
    ++ (match params with
        | none => []
        | some [] => sp "(void)" ++ (if fc then sp " const" else [])
        | some (p :: ps) => sp "(" ++ genDecl p ++ genDeclTail ps ++ sp ")" ++ (if fc then sp " const" else []))
    ++ (arr.map (fun e => sp "[" ++ printExpr e ++ sp "]")).flatten
    ++ genAttrs attrs
def genDeclTail : List Decl → Str
  | [] => []
  | p :: ps => sp ", " ++ genDecl p ++ genDeclTail ps
end

mutual
/-- `Declaration.__str__` -/
def declStr : Decl → Str
  | .mk s dr params fc arr _ init =>
    s.str
    ++ (match dr with | some d => sp " " ++ d.str | none => [])
    ++ (match params with
        | none => []
        | some [] => sp "()" ++ (if fc then sp " const" else [])
        | some (p :: ps) => sp "(" ++ declStr p ++ declStrTail ps ++ sp ")" ++ (if fc then sp " const" else []))
    ++ (arr.map (fun e => sp "[" ++ printExpr e ++ sp "]")).flatten
    ++ (match init with | some v => if v.truthy then sp "=" ++ v.py else [] | none => [])
def declStrTail : List Decl → Str
  | [] => []
  | p :: ps => sp "," ++ declStr p ++ declStrTail ps
end

/-- `attrs["name"] or attrs["_name"]` then the declarator's name: `Declaration.name`
    restricted to declarations without a `name` attribute -/
def Declarator.nameOf : Declarator → Option Str
  | .leaf _ n => n
  | .wrap _ (.leaf _ n) => n
  | .wrap _ (.wrap _ _) => none

/-- the type text `getattr(typemap, lang)` used by `gen_arg_as_lang`: the first
    template argument's typemap if there is one -/
def langType (env : Env) (asC : Bool) (s : Spec) : Option Str :=
  let tm := match s.targs with | t :: _ => t.typemap | [] => s.typemap
  match env.typeInfo tm with
  | some ti => if asC then ti.cType else ti.cxxType
  | none => none

/-- `attrs["name"] or attrs["_name"]` as used by `Declaration.name` for a declaration without
    declarator: `some (some s)` a text name, `some none` nothing to print (unset or falsy),
    `none` a truthy non-string (True, a non-zero number) that reaches `"".join` -> TypeError -/
def attrTruthy : AttrVal → Option (Option Str)
  | .flag => none
  | .text parts => let t := (parts.map (·.val)).flatten; if t.isEmpty then some none else some (some t)
  | .init (.str v) => if v.isEmpty then some none else some (some v)
  | .init (.int py) => if py = sp "0" then some none else none
  | .init (.real py) => if py = sp "0.0" ∨ py = sp "-0.0" then some none else none

def attrName (attrs : List (Str × AttrVal)) : Option (Option Str) :=
  match (match assoc (sp "name") attrs with | some v => attrTruthy v | none => some none) with
  | some none => (match assoc (sp "_name") attrs with | some v => attrTruthy v | none => some none)
  | r => r

mutual
/-- `Declaration.gen_arg_as_lang(decl, lang)` with default keyword arguments;
    `none` = Python `TypeError` (a `None` type string reaches `"".join`) -/
def genArg (env : Env) (asC : Bool) : Decl → Option Str
  | .mk s dr params fc arr attrs _ =>
    match langType env asC s, (match dr with | some d => some (d.gen asC) | none => (attrName attrs).map (fun n => match n with | some x => sp " " ++ x | none => [])) with
    | none, _ => none
    | _, none => none
    | some typ, some dtxt =>
      let head := (if s.const then sp "const " else []) ++ (if s.volatile then sp "volatile " else []) ++ typ
        ++ dtxt
      let ps : Option Str := match params with
        | none => some []
        | some [] => some (sp "(void)" ++ (if fc then sp " const" else []))
        | some (p :: ps) =>
          match genArg env asC p, genArgTail env asC ps with
          | some a, some b => some (sp "(" ++ a ++ b ++ sp ")" ++ (if fc then sp " const" else []))
          | _, _ => none
      match ps with
      | none => none
      | some ptxt => some (head ++ ptxt ++ (arr.map (fun e => sp "[" ++ printExpr e ++ sp "]")).flatten)
def genArgTail (env : Env) (asC : Bool) : List Decl → Option Str
  | [] => some []
  | p :: ps =>
    match genArg env asC p, genArgTail env asC ps with
    | some a, some b => some (sp ", " ++ a ++ b)
    | _, _ => none
end

def Declarator.pointers : Declarator → List Ptr
  | .leaf ps _ => ps
  | .wrap ps _ => ps

/-! ### the rendering entry points with their keyword arguments

`gen_arg_as_cxx(**kw)` / `gen_arg_as_c(**kw)`: `asgn_value`, `remove_const`, `as_ptr`,
`force_ptr`, `as_scalar`, `name=`, `params=None`, `with_template_args`, `continuation`
(the generators call the renderers with these to declare locals, results and casts). -/

structure GenOpts where
  asgnValue : Bool := false
  removeConst : Bool := false
  asPtr : Bool := false
  forcePtr : Bool := false
  asScalar : Bool := false
  noParams : Bool := false              -- `params=None`
  withTemplateArgs : Bool := false
  continuation : Bool := false
  name : Option (Option Str) := none    -- `name=` given: `some none` is `name=None`
  deriving Repr, Inhabited

/-- `Ptr.gen_decl_work(**kwargs)` -/
def Ptr.genK (asC : Bool) (o : GenOpts) (p : Ptr) : Str :=
  sp " " ++ (if asC ∨ o.asPtr then sp "*" else match p.kind with | .star => sp "*" | .ref => sp "&")
    ++ (if p.const then sp " const" else []) ++ (if p.volatile then sp " volatile" else [])

/-- `Declarator.gen_decl_work(**kwargs)` -/
def Declarator.genK (asC : Bool) (o : GenOpts) : Declarator → Str
  | .leaf ps name =>
    (if o.forcePtr then sp " *" else if o.asScalar then [] else (ps.map (Ptr.genK asC o)).flatten)
    ++ (match o.name with
        | some (some n) => if n.isEmpty then [] else sp " " ++ n
        | some none => []
        | none => match name with | some n => sp " " ++ n | none => [])
  | .wrap ps inner =>
    (if o.forcePtr then sp " *" else if o.asScalar then [] else (ps.map (Ptr.genK asC o)).flatten)
    ++ (let i := inner.genK asC o
        if i.isEmpty then [] else sp " (" ++ i ++ sp ")")   -- empty parentheses are removed again

/-- is the `const` of the base type printed: `asgn_value` drops it only from a declaration
    without indirection, `remove_const` always -/
def argConst (o : GenOpts) (const indirect : Bool) : Bool :=
  if o.asgnValue ∧ const ∧ !indirect then false
  else if o.removeConst then false
  else const

/-- the type text of `gen_arg_as_lang`: with `with_template_args` the typemap name and its arguments -/
def argTypeK (env : Env) (asC : Bool) (o : GenOpts) (s : Spec) : Option Str :=
  if o.withTemplateArgs ∧ !s.targs.isEmpty then
    some (s.typemap ++ (match s.targs with
      | [] => []
      | t :: ts => sp "<" ++ t.str ++ (ts.map (fun x => sp "," ++ x.str)).flatten ++ sp ">"))
  else langType env asC s

/-- the declarator text; a declaration without declarator prints `Declaration.name` (or the `name=` keyword) -/
def argDeclaratorK (asC : Bool) (o : GenOpts) (dr : Option Declarator) (attrs : List (Str × AttrVal)) : Option Str :=
  match dr with
  | some d => some (d.genK asC o)
  | none =>
    match o.name with
    | some _ => some ((Declarator.leaf [] none).genK asC o)
    | none => (attrName attrs).map (fun n => (Declarator.leaf [] n).genK asC o)

def argIndirect : Option Declarator → Bool
  | some d => !d.pointers.isEmpty
  | none => false

mutual
def genArgK (env : Env) (asC : Bool) (o : GenOpts) : Decl → Option Str
  | .mk s dr params fc arr attrs _ =>
    match argTypeK env asC o s, argDeclaratorK asC o dr attrs, genParamsK env asC o.noParams o.continuation fc params with
    | some ty, some dt, some ptxt =>
      some ((if argConst o s.const (argIndirect dr) then sp "const " else []) ++ (if s.volatile then sp "volatile " else [])
        ++ ty ++ dt ++ ptxt ++ (arr.map (fun e => sp "[" ++ printExpr e ++ sp "]")).flatten)
    | _, _, _ => none
def genParamsK (env : Env) (asC : Bool) (noParams cont fc : Bool) : Option (List Decl) → Option Str
  | none => some []
  | some ps =>
    if noParams then some [] else
    match genListK env asC cont ps with
    | some t => some (sp "(" ++ (if cont then sp "\t" else []) ++ t ++ sp ")" ++ (if fc then sp " const" else []))
    | none => none
def genListK (env : Env) (asC : Bool) (cont : Bool) : List Decl → Option Str
  | [] => some (sp "void")
  | p :: ps =>
    match genArgK env asC { continuation := cont } p, genArgTailK env asC cont ps with
    | some a, some b => some (a ++ b)
    | _, _ => none
def genArgTailK (env : Env) (asC : Bool) (cont : Bool) : List Decl → Option Str
  | [] => some []
  | p :: ps =>
    match genArgK env asC { continuation := cont } p, genArgTailK env asC cont ps with
    | some a, some b => some ((if cont then sp ",\t " else sp ", ") ++ a ++ b)
    | _, _ => none
end

/-- the keyword combinations the tie exercises (name, options) -/
def kwCombos : List (String × GenOpts) :=
  [("asgn_value", { asgnValue := true }), ("remove_const", { removeConst := true }), ("as_ptr", { asPtr := true }),
   ("force_ptr", { forcePtr := true }), ("as_scalar", { asScalar := true }), ("name=SH_x", { name := some (some (sp "SH_x")) }),
   ("name=None", { name := some none }), ("params=None", { noParams := true }),
   ("with_template_args", { withTemplateArgs := true }), ("continuation", { continuation := true }),
   ("asgn_value+as_ptr", { asgnValue := true, asPtr := true }),
   ("asgn_value+name+params=None", { asgnValue := true, name := some (some (sp "SH_x")), noParams := true })]

/-- `Declaration.as_cast()` (language "c") -/
def asCast (env : Env) : Decl → Option Str
  | .mk s dr _ _ arr _ _ =>
    match env.typeInfo s.typemap with
    | none => none
    | some ti =>
      match ti.cType with
      | none => none
      | some typ =>
        let n := (match dr with | some d => d.pointers.length | none => 0) + (if arr.isEmpty then 0 else 1)
        some (typ ++ (if n = 0 then [] else sp " " ++ List.replicate n '*'))

/-! ## Token-level unparsers

`X.toks` is the token list of the text `X` renders to (tied by the harness:
`tokenize(real text) = toks`).  A name `v` prints as the token the tokenizer
makes of it, `⟨classify v, v⟩`.  Specifier strings are printed as one token
each, so the token level is only faithful for declarations without qualified
names and template arguments (the harness compares it only for those). -/

def nameTok (v : Str) : Token := { typ := classify v, val := v }

def Ptr.toks (asC : Bool) (p : Ptr) : Toks :=
  [if asC then tk .STAR "*" else match p.kind with | .star => tk .STAR "*" | .ref => tk .REF "&"]
    ++ (if p.const then [tk .TYPE_QUALIFIER "const"] else [])
    ++ (if p.volatile then [tk .TYPE_QUALIFIER "volatile"] else [])

def ptrsToks (asC : Bool) : List Ptr → Toks
  | [] => []
  | p :: ps => p.toks asC ++ ptrsToks asC ps

def Declarator.toks (asC : Bool) : Declarator → Toks
  | .leaf ps name => ptrsToks asC ps ++ (match name with | some n => [nameTok n] | none => [])
  | .wrap ps inner => ptrsToks asC ps ++ [tk .LPAREN "("] ++ inner.toks asC ++ [tk .RPAREN ")"]

def cvToks (c v : Bool) : Toks :=
  (if c then [tk .TYPE_QUALIFIER "const"] else []) ++ (if v then [tk .TYPE_QUALIFIER "volatile"] else [])

def Spec.toks (s : Spec) : Toks :=
  cvToks s.const s.volatile ++ s.storage.map nameTok ++ s.specifier.map nameTok

def opTok (op : Str) : Token :=
  if op = ['+'] then tk .PLUS "+" else if op = ['-'] then tk .MINUS "-"
  else if op = ['*'] then tk .STAR "*" else if op = ['/'] then tk .SLASH "/" else tkv .OTHER op

def isRealText (v : Str) : Bool := v.any (fun c => c = '.' ∨ c = 'e' ∨ c = 'E')

mutual
def Expr.toks : Expr → Toks
  | .ident n => [nameTok n]
  | .call n args => match args with
    | [] => [nameTok n, tk .LPAREN "(", tk .RPAREN ")"]
    | a :: as => [nameTok n, tk .LPAREN "("] ++ a.toks ++ argsToks as ++ [tk .RPAREN ")"]
  | .const v => [tkv (if isRealText v then .REAL else .INTEGER) v]
  | .paren e => [tk .LPAREN "("] ++ e.toks ++ [tk .RPAREN ")"]
  | .unary op e =>
    if (printExpr e).head? = some '+' ∨ (printExpr e).head? = some '-'
    then [opTok op, tk .LPAREN "("] ++ e.toks ++ [tk .RPAREN ")"] else opTok op :: e.toks
  | .binary l op r =>
    if (printExpr r).head? = some '+' ∨ (printExpr r).head? = some '-'
    then l.toks ++ [opTok op, tk .LPAREN "("] ++ r.toks ++ [tk .RPAREN ")"] else l.toks ++ [opTok op] ++ r.toks
def argsToks : List Expr → Toks
  | [] => []
  | a :: as => [tk .COMMA ","] ++ a.toks ++ argsToks as
end

def arraysToks : List Expr → Toks
  | [] => []
  | e :: es => [tk .LBRACKET "["] ++ e.toks ++ [tk .RBRACKET "]"] ++ arraysToks es

def AttrVal.toks : AttrVal → Toks
  | .flag => []
  | .text parts => [tk .LPAREN "("] ++ parts ++ [tk .RPAREN ")"]
  | .init v => [tk .LPAREN "(", tkv .OTHER v.py, tk .RPAREN ")"]   -- not re-tokenised: outside the token-level domain

def attrsToks : List (Str × AttrVal) → Toks
  | [] => []
  | (k, v) :: t =>
    if k.head? = some '_' then attrsToks t
    else [tk .PLUS "+", nameTok k] ++ v.toks ++ attrsToks t

def fcToks (fc : Bool) : Toks := if fc then [tk .TYPE_QUALIFIER "const"] else []

mutual
/-- token list of `gen_decl()` for a declaration without default value
    (a default value is printed by Python's `str()`, outside the token-level domain) -/
def Decl.toks : Decl → Toks
  | .mk s dr params fc arr attrs _ =>
    s.toks ++ (match dr with | some d => d.toks false | none => [])
    ++ (match params with
        | none => []
        | some [] => [tk .LPAREN "(", tk .TYPE_SPECIFIER "void", tk .RPAREN ")"] ++ fcToks fc
        | some (p :: ps) => [tk .LPAREN "("] ++ p.toks ++ paramsTailToks ps ++ [tk .RPAREN ")"] ++ fcToks fc)
    ++ arraysToks arr ++ attrsToks attrs
def paramsTailToks : List Decl → Toks
  | [] => []
  | p :: ps => [tk .COMMA ","] ++ p.toks ++ paramsTailToks ps
end

/-- `const volatile <type tokens of the typemap>`: `none` where the text level is `TypeError` -/
def argHead (env : Env) (asC : Bool) (s : Spec) : Option Toks :=
  let tm := match s.targs with | t :: _ => t.typemap | [] => s.typemap
  match env.typeInfo tm with
  | none => none
  | some ti =>
    match (if asC then ti.cType else ti.cxxType) with
    | none => none
    | some _ => some (cvToks s.const s.volatile ++ (if asC then ti.cToks else ti.cxxToks))

def dtoksC (asC : Bool) : Option Declarator → Toks
  | some d => d.toks asC
  | none => []

mutual
/-- token list of `gen_arg_as_cxx()` / `gen_arg_as_c()`: the typemap's C++ / C type,
    no attributes, no default value; `none` where the text level is `TypeError` -/
def Decl.argToks (env : Env) (asC : Bool) : Decl → Option Toks
  | .mk s dr params fc arr _ _ =>
    match argHead env asC s, argParamsToks env asC fc params with
    | some h, some pt => some (h ++ dtoksC asC dr ++ pt ++ arraysToks arr)
    | _, _ => none
def argParamsToks (env : Env) (asC : Bool) (fc : Bool) : Option (List Decl) → Option Toks
  | none => some []
  | some ps =>
    match argListToks env asC ps with
    | some t => some ([tk .LPAREN "("] ++ t ++ [tk .RPAREN ")"] ++ fcToks fc)
    | none => none
def argListToks (env : Env) (asC : Bool) : List Decl → Option Toks
  | [] => some [tk .TYPE_SPECIFIER "void"]
  | p :: ps =>
    match Decl.argToks env asC p, argTailToks env asC ps with
    | some a, some b => some (a ++ b)
    | _, _ => none
def argTailToks (env : Env) (asC : Bool) : List Decl → Option Toks
  | [] => some []
  | p :: ps =>
    match Decl.argToks env asC p, argTailToks env asC ps with
    | some a, some b => some ([tk .COMMA ","] ++ a ++ b)
    | _, _ => none
end

end Shroud.Decl
