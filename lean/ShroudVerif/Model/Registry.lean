/-
Model of the process-wide registries of Shroud and of the operations one
driver run performs on them (engine for C07).  Core Lean only.
-/
namespace Shroud.Registry

/-! ### `statements.update_for_language`

One (statement item, clause) slot.  Values are compared by *identity* in the
code (`item.get(clause) is item[ospecific]`), so a value is modelled by a `Nat`
identity. -/
structure Slot where
  clause : Option Nat   -- item[clause]
  c      : Option Nat   -- item["c_" ++ clause]
  cxx    : Option Nat   -- item["cxx_" ++ clause]
  deriving Repr, DecidableEq

inductive Lang where
  | c | cxx
  deriving Repr, DecidableEq

def Slot.spec (s : Slot) : Lang → Option Nat
  | .c => s.c
  | .cxx => s.cxx

/-- the inner `for other in ["c", "cxx"]` loop: delete `item[clause]` when it is
    (identical to) one of the language-specific values -/
def dropStale (s : Slot) : Slot :=
  let s1 := match s.c, s.clause with
    | some v, some w => if v = w then { s with clause := none } else s
    | _, _ => s
  match s1.cxx, s1.clause with
    | some v, some w => if v = w then { s1 with clause := none } else s1
    | _, _ => s1

/-- one (item, clause) step of `update_for_language(stmts, lang)` (after the `fix:` commit) -/
def updateSlot (lang : Lang) (s : Slot) : Slot :=
  match s.spec lang with
  | some v => { s with clause := some v }
  | none => dropStale s

/-- the behaviour before the fix (kept for the negation witness) -/
def updateSlotOld (lang : Lang) (s : Slot) : Slot :=
  match s.spec lang with
  | some v => { s with clause := some v }
  | none => s

def updateAll (lang : Lang) (t : List Slot) : List Slot := t.map (updateSlot lang)

/-- a fresh table slot is well formed when a generic clause and a
    language-specific variant never coexist (measured on the real tables and
    regenerated into `Gen/Registry.lean`) -/
def Slot.Fresh (s : Slot) : Prop := (s.c.isSome ∨ s.cxx.isSome) → s.clause = none

instance (s : Slot) : Decidable s.Fresh := by unfold Slot.Fresh; infer_instance

/-! ### Generic registries

A registry is a finite map from keys to values, as a function.  A run, for an
input `x`, overwrites the keys in `writes x` with values that depend on `x`
only, and then produces an output that depends on `x` and on the values of the
keys in `reads x`. -/
structure RunSpec (K V X O : Type) [DecidableEq K] where
  writes : X → List K
  gen    : X → K → V
  reads  : X → List K
  obs    : X → (K → V) → O
  /-- `obs` looks only at the keys in `reads` -/
  obs_local : ∀ x (w1 w2 : K → V), (∀ k ∈ reads x, w1 k = w2 k) → obs x w1 = obs x w2

variable {K V X O : Type} [DecidableEq K]

def RunSpec.step (r : RunSpec K V X O) (w : K → V) (x : X) : K → V :=
  fun k => if k ∈ r.writes x then r.gen x k else w k

def RunSpec.out (r : RunSpec K V X O) (w : K → V) (x : X) : O :=
  r.obs x (r.step w x)

/-- how a registry of the implementation is classified by the probe -/
inductive RClass where
  | immutable      -- never changes after import
  | runDetermined  -- its whole state after a run is a function of that run's input
  | perKeyFresh    -- every key a run reads was written by that run first, or was never written by any run
  | leak           -- none of the above: state of an earlier run can reach a later run's output
  deriving Repr, DecidableEq

def RClass.ofCode : Nat → RClass
  | 0 => .immutable
  | 1 => .runDetermined
  | 2 => .perKeyFresh
  | _ => .leak

end Shroud.Registry
