/-
Model of the process-wide registries of Shroud and of the operations one
driver run performs on them (engine for C07).  Core Lean only.
-/
namespace Shroud.Registry

/-! ### `statements.update_for_language`

One (statement item, clause) slot.  Values are compared by *identity* in the
code (`item.get(clause) is item[ospecific]`), so a value is modelled by a `Nat`
identity. -/
structure Slot where
  clause : Option Nat   -- item[clause]
  c      : Option Nat   -- item["c_" ++ clause]
  cxx    : Option Nat   -- item["cxx_" ++ clause]
  deriving Repr, DecidableEq

inductive Lang where
  | c | cxx
  deriving Repr, DecidableEq

def Slot.spec (s : Slot) : Lang → Option Nat
  | .c => s.c
  | .cxx => s.cxx

/-- the inner `for other in ["c", "cxx"]` loop: delete `item[clause]` when it is
    (identical to) one of the language-specific values -/
def dropStale (s : Slot) : Slot :=
  let s1 := match s.c, s.clause with
    | some v, some w => if v = w then { s with clause := none } else s
    | _, _ => s
  match s1.cxx, s1.clause with
    | some v, some w => if v = w then { s1 with clause := none } else s1
    | _, _ => s1

/-- one (item, clause) step of `update_for_language(stmts, lang)` (after the `fix:` commit) -/
def updateSlot (lang : Lang) (s : Slot) : Slot :=
  match s.spec lang with
  | some v => { s with clause := some v }
  | none => dropStale s

/-- the behaviour before the fix (kept for the negation witness) -/
def updateSlotOld (lang : Lang) (s : Slot) : Slot :=
  match s.spec lang with
  | some v => { s with clause := some v }
  | none => s

def updateAll (lang : Lang) (t : List Slot) : List Slot := t.map (updateSlot lang)

/-- a fresh table slot is well formed when a generic clause and a
    language-specific variant never coexist (measured on the real tables and
    regenerated into `Gen/Registry.lean`) -/
def Slot.Fresh (s : Slot) : Prop := (s.c.isSome ∨ s.cxx.isSome) → s.clause = none

instance (s : Slot) : Decidable s.Fresh := by unfold Slot.Fresh; infer_instance

/-! ### Generic registries

A registry is a finite map from keys to values, as a function.  A run, for an
input `x`, overwrites the keys in `writes x` with values that depend on `x`
only, and then produces an output that depends on `x` and on the values of the
keys in `reads x`. -/
structure RunSpec (K V X O : Type) [DecidableEq K] where
  writes : X → List K
  gen    : X → K → V
  reads  : X → List K
  obs    : X → (K → V) → O
  /-- `obs` looks only at the keys in `reads` -/
  obs_local : ∀ x (w1 w2 : K → V), (∀ k ∈ reads x, w1 k = w2 k) → obs x w1 = obs x w2

variable {K V X O : Type} [DecidableEq K]

def RunSpec.step (r : RunSpec K V X O) (w : K → V) (x : X) : K → V :=
  fun k => if k ∈ r.writes x then r.gen x k else w k

def RunSpec.out (r : RunSpec K V X O) (w : K → V) (x : X) : O :=
  r.obs x (r.step w x)

/-- how a registry of the implementation is classified by the probe -/
inductive RClass where
  | immutable      -- never changes after import
  | runDetermined  -- its whole state after a run is a function of that run's input
  | perKeyFresh    -- every key a run reads was written by that run first, or was never written by any run
  | leak           -- none of the above: state of an earlier run can reach a later run's output
  deriving Repr, DecidableEq

def RClass.ofCode : Nat → RClass
  | 0 => .immutable
  | 1 => .runDetermined
  | 2 => .perKeyFresh
  | _ => .leak

end Shroud.Registry

/-! ### process-wide state as order-carrying containers; one run as a program of stages

Every registry the translator finds (`Gen/Registry.lean`: dict / OrderedDict / list at module or class level) is a
container that keeps *insertion order*.  A run of `main_with_args` is a program of stages over these containers: it
rebinds or refills some (`typemap.initialize`, `Wrapc.__init__`, `update_stmt_tree`, `add_all_helpers`), inserts into
some (`register_type`, `add_shadow_helper`: `if name not in CHelpers`), emits from some, and may raise at any stage. -/
namespace Shroud.Registry

/-- a Python dict / OrderedDict / list of pairs: items in insertion order -/
abbrev Cont := List (Nat × Nat)

/-- `d[k] = v`: replaces in place when the key is present, appends otherwise -/
def dput (k v : Nat) : Cont → Cont
  | [] => [(k, v)]
  | p :: t => if p.1 = k then (k, v) :: t else p :: dput k v t

/-- `d.get(k)` -/
def dget (k : Nat) : Cont → Option Nat
  | [] => none
  | p :: t => if p.1 = k then some p.2 else dget k t

def Cont.keys (c : Cont) : List Nat := c.map (·.1)

/-- keys in order of first occurrence: what iteration over a dict filled from `ks` yields -/
def firstOcc (ks : List Nat) : List Nat :=
  ks.foldl (fun acc k => if k ∈ acc then acc else acc ++ [k]) []

/-- fill a container from a sequence of insertions -/
def insertAll (kvs : List (Nat × Nat)) (c : Cont) : Cont := kvs.foldl (fun c p => dput p.1 p.2 c) c

/-- all registries of the process, by registry index -/
abbrev World := Nat → Cont

def World.set (w : World) (r : Nat) (c : Cont) : World := fun i => if i = r then c else w i

/-- one modelled stage of a run -/
inductive Op where
  | reset (r : Nat) (init : Cont)   -- rebind / clear and refill from the run's own input
  | put (r k v : Nat)               -- `reg[k] = v`
  | putNew (r k v : Nat)            -- `if k not in reg: reg[k] = v` (`add_shadow_helper`, `setdefault`)
  | emit (r : Nat)                  -- write the container's items, in its order, into an output file
  | emitKey (r k : Nat)             -- look one key up and write what was found
  | fail                            -- raise: the run ends here, the process state stays as it is
  deriving Repr, DecidableEq

/-- state of a run in progress: registries, what was emitted so far, whether it raised -/
structure RunSt where
  w : World
  out : List Cont
  failed : Bool

def execFrom : List Op → World → List Cont → RunSt
  | [], w, o => ⟨w, o, false⟩
  | .fail :: _, w, o => ⟨w, o, true⟩
  | .reset r i :: t, w, o => execFrom t (w.set r i) o
  | .put r k v :: t, w, o => execFrom t (w.set r (dput k v (w r))) o
  | .putNew r k v :: t, w, o =>
      execFrom t (match dget k (w r) with | some _ => w | none => w.set r (dput k v (w r))) o
  | .emit r :: t, w, o => execFrom t w (o ++ [w r])
  | .emitKey r k :: t, w, o => execFrom t w (o ++ [match dget k (w r) with | some v => [(k, v)] | none => []])

/-- one run from world `w` -/
def exec (ops : List Op) (w : World) : RunSt := execFrom ops w []

/-- the registry an op writes, if any -/
def Op.target : Op → Option Nat
  | .reset r _ => some r
  | .put r _ _ => some r
  | .putNew r _ _ => some r
  | _ => none

/-- no stage writes a registry of `s0` (the registries classified immutable) -/
def noWrite (s0 : List Nat) (ops : List Op) : Bool :=
  ops.all (fun op => match op.target with | some r => !(s0.contains r) | none => true)

/-- the discipline a run has to keep, computed forward over its stages: `s` = registries whose whole contents are
    determined (immutable, or reset earlier in this run), `sk` = (registry, key) pairs written earlier in this run.
    Every stage that *reads* must read determined state. -/
def disciplined : List Nat → List (Nat × Nat) → List Op → Bool
  | _, _, [] => true
  | _, _, .fail :: _ => true
  | s, sk, .reset r _ :: t => disciplined (r :: s) sk t
  | s, sk, .put r k _ :: t => disciplined s ((r, k) :: sk) t
  | s, sk, .putNew r k _ :: t => (s.contains r || sk.contains (r, k)) && disciplined s ((r, k) :: sk) t
  | s, sk, .emit r :: t => s.contains r && disciplined s sk t
  | s, sk, .emitKey r k :: t => (s.contains r || sk.contains (r, k)) && disciplined s sk t

/-! ### the output directory

`write_output_file` opens the file for writing, so whatever was there is replaced; `config.cfiles` / `config.ffiles`
get the name appended at every write, in order.  `ifChanged` is the policy build systems wrap around generators
(keep the old file when the new text is identical); it is modelled to show it cannot change any contents. -/

/-- file name -> contents (`none`: no such file) -/
abbrev FS := Nat → Option (List Nat)

def FS.write (d : FS) (n : Nat) (c : List Nat) : FS := fun i => if i = n then some c else d i

inductive WritePolicy where
  | always | ifChanged
  deriving Repr, DecidableEq

def FS.writeP (p : WritePolicy) (d : FS) (n : Nat) (c : List Nat) : FS :=
  match p with
  | .always => d.write n c
  | .ifChanged => if d n = some c then d else d.write n c

/-- write the planned files in order; returns the directory and the reported file list -/
def writeAll (p : WritePolicy) : List (Nat × List Nat) → FS → FS
  | [], d => d
  | (n, c) :: t, d => writeAll p t (d.writeP p n c)

def reported (plan : List (Nat × List Nat)) : List Nat := plan.map (·.1)

/-- the last text planned for a name -/
def planned (n : Nat) : List (Nat × List Nat) → Option (List Nat)
  | [] => none
  | (m, c) :: t => match planned n t with
    | some c' => some c'
    | none => if m = n then some c else none

end Shroud.Registry
