import ShroudVerif.Model.StrHelpers
/-
Abstract statement entries for character data (property C10) and an
interpreter for them.

`Gen/StrStmts.lean` (regenerated from `shroud/statements.py` by
`tools/extract_strstmts.py`) lists, for every character / std::string /
vector<string> entry, which lengths the Fortran wrapper passes (`lens`), whether
the entry declares a C++ local (`cxxLocal`) and the template lines of its
`pre_call` and `post_call` clauses as `Op` constructors.  `flow` runs
`pre_call`, the library function (`Lib`) and `post_call` on a state that holds
the Fortran actual, using the helper models of `Model/StrHelpers.lean`.

An entry that uses a length it was not given (`{c_var_len}` without `len` in
`buf_args`, `elem_len` outside a CFI entry, `{c_var}` before the CFI entry
fetched `base_addr`) does not compile; the interpreter answers `Res.oob` for it
as for every other ill-formed step.

Imports nothing outside core Lean (linked into `drv_strhelpers`).
-/
namespace Shroud.StrStmts
open Shroud.Str

inductive LenArg where
  | len | trim | size | elemLen | neg1 | zero | strlenCxx | lengthCxx
  deriving DecidableEq, Repr

inductive Op where
  | cfiBase | cfiCxxBase
  | strAlloc (nsrc ntrim : LenArg) | strFree
  | strCopyC (nd : LenArg) | strCopyStd (nd : LenArg) | strCopyNull (nd : LenArg)
  | blankFill (onCxx : Bool) (nd : LenArg)
  | stringCtor (n : LenArg) | stringDecl | lenTrimDecl
  | memsetBlank (n : LenArg) | storeFirst
  | ifEmpty | ifNotNull | ifSuccess | else_ | endIf
  | cfiAllocate (n : LenArg) | memcpyBaseC (n : LenArg) | memcpyBaseS (n : LenArg)
  | strArrayAlloc | strArrayFree
  | strToArray | newString
  | ctxAddr | ctxIdtor | ctxCcharp | ctxType | ctxElemLenStrlen | ctxSize1 | ctxRank0
  | fAllocate | fCopyString
  | vecDecl | vecInLoop | vecOutLoop
  | userRelease          -- user `final:` clause releasing the result: `delete {cxx_var};` / `free(..)`
  deriving DecidableEq, Repr

structure Entry where
  lens : List LenArg
  pre : List Op
  post : List Op
  deriving DecidableEq, Repr

structure St where
  f : Buf                 -- storage of the Fortran actual (`c_var`, `base_addr` of the descriptor)
  lenv : Nat              -- declared length of the variable / of each array element (`elem_len`)
  sizev : Nat             -- number of array elements
  cfi : Bool              -- the argument is a CFI descriptor
  lens : List LenArg      -- lengths the Fortran wrapper passes
  trimv : Option Nat      -- `c_var_trim`
  cvar : Bool             -- `c_var` is declared
  cxxC : Option Buf       -- target of `char *cxx_var` (none = NULL)
  cxxIsF : Bool           -- `cxx_var` points at the Fortran storage
  heap : Bool             -- `cxxC` is a live block from ShroudStrAlloc
  cxxS : List Nat         -- `std::string cxx_var`
  ch : Nat                -- `char cxx_var`
  arr : List Buf          -- blocks of `char **cxx_var`
  vec : List (List Nat)   -- `std::vector<std::string> cxx_var`
  live : Nat              -- helper-allocated blocks not yet released
  conds : List Bool       -- enclosing `if` blocks
  ret : Bool              -- `SH_ret == CFI_SUCCESS`
  ctxp : Option Buf       -- context `addr.ccharp`
  ctxlen : Nat            -- context `elem_len`
  seen : Option (List Nat)            -- text received by the library
  seenArr : Option (List (List Nat))  -- texts received by the library (arrays)
  cxxLive : Bool          -- the storage of the result (`cxx_var`) has not been released by a user clause
  released : Nat          -- executions of a user release
  deriving Repr

def natLen (s : St) : LenArg → Res Nat
  | .len => if s.lens.contains .len then .ok s.lenv else .oob
  | .trim => match s.trimv with | some k => .ok k | none => .oob
  | .size => if s.lens.contains .size then .ok s.sizev else .oob
  | .elemLen => if s.cfi then .ok s.lenv else .oob
  | .zero => .ok 0
  | _ => .oob

def intLen (s : St) : LenArg → Res Int
  | .neg1 => .ok (-1)
  | a => (natLen s a).map Int.ofNat

def needCvar (s : St) : Res Unit := if s.cvar then .ok () else .oob

/-- `ShroudStrCopy(c_var, n, str.data(), str.size())`: `size()` is a `size_t` passed for `int nsrc` -/
def strCopyStd (f : Buf) (n : Nat) (str : List Nat) : Res Buf :=
  strCopy f n (some (str ++ [NUL])) (narrow32 str.length)

/-- one template line -/
def exec (o : Op) (s : St) : Res St :=
  match o with
  | .cfiBase => if s.cfi then .ok { s with cvar := true } else .oob
  | .cfiCxxBase => if s.cfi then .ok { s with cxxIsF := true } else .oob
  | .strAlloc a b =>
    (needCvar s).bind fun _ => (natLen s a).bind fun n => (intLen s b).bind fun t =>
    (strAlloc s.f n t).bind fun blk =>
    .ok { s with cxxC := some blk, heap := true, cxxIsF := false, live := s.live + 1 }
  | .strFree => if s.heap then .ok { s with heap := false, cxxC := none, live := s.live - 1 } else .oob
  | .strCopyC nd =>
    (needCvar s).bind fun _ => (natLen s nd).bind fun n =>
    if s.cxxLive then (strCopy s.f n s.cxxC (-1)).bind fun f => .ok { s with f := f } else .oob
  | .strCopyStd nd =>
    (needCvar s).bind fun _ => (natLen s nd).bind fun n =>
    if s.cxxLive then (strCopyStd s.f n s.cxxS).bind fun f => .ok { s with f := f } else .oob
  | .strCopyNull nd =>
    (needCvar s).bind fun _ => (natLen s nd).bind fun n =>
    (strCopy s.f n none 0).bind fun f => .ok { s with f := f }
  | .blankFill onCxx nd =>
    if (if onCxx then s.cxxIsF else s.cvar) then
      (natLen s nd).bind fun n => (strBlankFill s.f n).bind fun f => .ok { s with f := f }
    else .oob
  | .stringCtor a =>
    (needCvar s).bind fun _ => (natLen s a).bind fun k =>
    (memcpy (List.replicate k UNINIT) 0 s.f 0 k).bind fun b => .ok { s with cxxS := b }
  | .stringDecl => .ok { s with cxxS := [] }
  | .lenTrimDecl =>
    (needCvar s).bind fun _ => (natLen s .elemLen).bind fun n =>
    (lenTrim s.f n).bind fun k => .ok { s with trimv := some k }
  | .memsetBlank a =>
    (needCvar s).bind fun _ => (natLen s a).bind fun n =>
    (memset s.f 0 BLANK n).bind fun f => .ok { s with f := f }
  | .storeFirst => (needCvar s).bind fun _ => (wr s.f 0 s.ch).bind fun f => .ok { s with f := f }
  | .cfiAllocate a =>
    if s.cfi && s.cxxLive then
      ((match a with
        | .strlenCxx => (match s.cxxC with | some b => strlen b | none => Res.oob)
        | .lengthCxx => Res.ok s.cxxS.length
        | _ => Res.oob) : Res Nat).bind fun n =>
      .ok { s with f := List.replicate n UNINIT, lenv := n, ret := true }
    else .oob
  | .memcpyBaseC a =>
    (if s.cxxLive then natLen s a else .oob).bind fun k =>
    (match s.cxxC with | some b => memcpy s.f 0 b 0 k | none => .oob).bind fun f => .ok { s with f := f }
  | .memcpyBaseS a =>
    ((if s.cxxLive then (match a with | .lengthCxx => Res.ok s.cxxS.length | a => natLen s a) else .oob) : Res Nat).bind fun k =>
    (memcpy s.f 0 (s.cxxS ++ [NUL]) 0 k).bind fun f => .ok { s with f := f }
  | .strArrayAlloc =>
    (natLen s .size).bind fun n => (natLen s .len).bind fun l =>
    (strArrayAlloc s.f n l).bind fun a => .ok { s with arr := a, live := s.live + 1 + a.length }
  | .strArrayFree =>
    (natLen s .size).bind fun n =>
    (strArrayFree s.arr n).bind fun rest => .ok { s with arr := [], live := s.live - 1 - s.arr.length + rest.length }
  | .strToArray =>
    if s.cxxLive then .ok { s with ctxp := (strToArray s.cxxS).1, ctxlen := (strToArray s.cxxS).2 } else .oob
  | .newString => .ok s
  | .ctxCcharp => .ok { s with ctxp := s.cxxC }
  | .ctxElemLenStrlen =>
    ((match s.cxxC with | none => Res.ok 0 | some b => if s.cxxLive then strlen b else .oob) : Res Nat).bind fun n =>
    .ok { s with ctxlen := n }
  | .ctxAddr | .ctxIdtor | .ctxType | .ctxSize1 | .ctxRank0 => .ok s
  | .fAllocate => .ok { s with f := List.replicate s.ctxlen UNINIT, lenv := s.ctxlen }
  | .fCopyString => (copyString s.ctxp s.ctxlen s.f s.ctxlen).bind fun f => .ok { s with f := f }
  | .vecDecl => .ok { s with vec := [] }
  | .vecInLoop =>
    (natLen s .size).bind fun n => (natLen s .len).bind fun l =>
    (vecStringIn s.f l 0 n).bind fun v => .ok { s with vec := v }
  | .vecOutLoop =>
    (natLen s .size).bind fun n => (natLen s .len).bind fun l =>
    (vecStringOut s.f l 0 n s.vec).bind fun f => .ok { s with f := f }
  | .userRelease => .ok { s with cxxLive := false, released := s.released + 1 }
  | .ifEmpty | .ifNotNull | .ifSuccess | .else_ | .endIf => .ok s

def active (s : St) : Bool := s.conds.all id

/-- a line inside its enclosing `if` blocks -/
def step (o : Op) (s : St) : Res St :=
  match o with
  | .ifEmpty =>
    -- `cxx_var.empty()` reads the string object
    if s.cxxLive || !active s then .ok { s with conds := (active s && s.cxxS.isEmpty) :: s.conds } else .oob
  | .ifNotNull => .ok { s with conds := (active s && s.cxxC.isSome) :: s.conds }
  | .ifSuccess => .ok { s with conds := (active s && s.ret) :: s.conds }
  | .else_ =>
    match s.conds with
    | c :: cs => .ok { s with conds := (cs.all id && !c) :: cs }
    | [] => .oob
  | .endIf =>
    match s.conds with
    | _ :: cs => .ok { s with conds := cs }
    | [] => .oob
  | o => if active s then exec o s else .ok s

def run : List Op → St → Res St
  | [], s => .ok s
  | o :: os, s => (step o s).bind (run os)

/-- what the wrapped library function does with the argument -/
inductive Lib where
  | charIn
  | charOut (s : List Nat)
  | charInout (s : List Nat)
  | charResult (r : Option (List Nat))
  | charScalar (c : Nat)
  | strIn
  | strOut (s : List Nat)
  | strInout (s : List Nat)
  | strResult (s : List Nat)
  | arrIn
  | vecIn
  | vecOut (v : List (List Nat))
  | vecInout (v : List (List Nat))
  deriving Repr

/-- the library reads the C string at `p` -/
def seeC (b : Buf) : Res (List Nat) := (strlen b).map fun n => b.take n

/-- the library stores `s` and a NUL through the pointer -/
def putC (b : Buf) (s : List Nat) : Res Buf := memcpy b 0 (s ++ [NUL]) 0 (s.length + 1)

def call (l : Lib) (s : St) : Res St :=
  match l with
  | .charIn =>
    (match s.cxxC with | some b => seeC b | none => .oob).bind fun t => .ok { s with seen := some t }
  | .charOut t =>
    if s.cxxIsF then (putC s.f t).bind fun f => .ok { s with f := f }
    else (match s.cxxC with | some b => putC b t | none => .oob).bind fun b => .ok { s with cxxC := some b }
  | .charInout t =>
    (match s.cxxC with | some b => seeC b | none => .oob).bind fun sn =>
    (match s.cxxC with | some b => putC b t | none => .oob).bind fun b =>
    .ok { s with seen := some sn, cxxC := some b }
  | .charResult r => .ok { s with cxxC := r.map (· ++ [NUL]), heap := false }
  | .charScalar c => .ok { s with ch := c }
  | .strIn => .ok { s with seen := some s.cxxS }
  | .strOut t => .ok { s with cxxS := t }
  | .strInout t => .ok { s with seen := some s.cxxS, cxxS := t }
  | .strResult t => .ok { s with cxxS := t }
  | .arrIn => .ok { s with seenArr := some (s.arr.map cstr) }
  | .vecIn => .ok { s with seenArr := some s.vec }
  | .vecOut v => .ok { s with vec := v }
  | .vecInout v => .ok { s with seenArr := some s.vec, vec := v }

structure Out where
  seen : Option (List Nat)
  seenArr : Option (List (List Nat))
  f : Buf
  live : Nat
  alloc : Bool            -- CFI_allocate succeeded (allocatable results through a descriptor)
  deriving Repr, DecidableEq

/-- initial state: the Fortran actual `t` (an array of `size` elements of length `len` when
    `arr`), passed by descriptor when `cfi`; `aliasF`: the entry declares no C++ local, `cxx_var`
    is `c_var` (wrapc default).  `len_trim` is evaluated by Fortran when the entry asks for it. -/
def init (e : Entry) (cfi aliasF : Bool) (t : Buf) (size len : Nat) : St :=
  { f := t, lenv := len, sizev := size, cfi := cfi, lens := e.lens,
    trimv := if e.lens.contains .trim then some (rtrim t).length else none,
    cvar := !cfi, cxxC := none, cxxIsF := aliasF, heap := false, cxxS := [], ch := 0, arr := [],
    vec := [], live := 0, conds := [], ret := false, ctxp := none, ctxlen := 0, seen := none,
    seenArr := none, cxxLive := true, released := 0 }

def finish (s : St) : Res Out :=
  if s.conds.isEmpty then .ok ⟨s.seen, s.seenArr, s.f, s.live, s.ret⟩ else .oob

/-- Fortran actual -> `pre_call` -> library -> `post_call` -/
def flowArr (e : Entry) (cfi aliasF : Bool) (t : Buf) (size len : Nat) (l : Lib) : Res Out :=
  (run e.pre (init e cfi aliasF t size len)).bind fun s =>
  (call l s).bind fun s => (run e.post s).bind finish

def flow (e : Entry) (cfi aliasF : Bool) (t : Buf) (l : Lib) : Res Out :=
  flowArr e cfi aliasF t 1 t.length l

/-- the statement groups `Wrapc.wrap_function` assembles the body of a C wrapper from; their order
    is regenerated from real output into `Gen.wrapOrder` -/
inductive Group where
  | preCall | call | postCall | final | ret
  deriving DecidableEq, Repr

/-- run the groups in the given order; `fin` is a user supplied `final:` clause (fstatements) -/
def runGroups (e : Entry) (fin : List Op) (l : Lib) : List Group → St → Res St
  | [], s => .ok s
  | .preCall :: gs, s => (run e.pre s).bind (runGroups e fin l gs)
  | .call :: gs, s => (call l s).bind (runGroups e fin l gs)
  | .postCall :: gs, s => (run e.post s).bind (runGroups e fin l gs)
  | .final :: gs, s => (run fin s).bind (runGroups e fin l gs)
  | .ret :: _, s => .ok s          -- nothing after `return` is executed

/-- the C wrapper body assembled in `order`: the outcome and the number of user releases -/
def flowWith (order : List Group) (e : Entry) (fin : List Op) (cfi aliasF : Bool) (t : Buf) (l : Lib) :
    Res (Out × Nat) :=
  (runGroups e fin l order (init e cfi aliasF t 1 t.length)).bind fun s =>
  (finish s).map fun o => (o, s.released)

/-- an op that reads the storage of the result (`cxx_var`) -/
def readsCxx : Op → Bool
  | .strCopyC _ | .strCopyStd _ | .ifEmpty | .cfiAllocate _ | .memcpyBaseC _ | .memcpyBaseS _
  | .strToArray | .ctxElemLenStrlen => true
  | _ => false

/-- the template lines of the body, in the order they are emitted -/
def linearize (e : Entry) (fin : List Op) : List Group → List Op
  | [] => []
  | .preCall :: gs => e.pre ++ linearize e fin gs
  | .call :: gs => linearize e fin gs
  | .postCall :: gs => e.post ++ linearize e fin gs
  | .final :: gs => fin ++ linearize e fin gs
  | .ret :: _ => []

/-- no line reads the result after a line released it -/
def noReadAfterRelease : List Op → Bool
  | [] => true
  | .userRelease :: os => os.all (fun o => !readsCxx o) && noReadAfterRelease os
  | _ :: os => noReadAfterRelease os

/-- allocatable result: C entry, then the Fortran entry (`allocate`, `copy_string`) when there is one -/
def flowAlloc (c : Entry) (fside : Option Entry) (cfi : Bool) (l : Lib) : Res Out :=
  (call l (init c cfi false [] 1 0)).bind fun s =>
  (run c.pre s).bind fun s => (run c.post s).bind fun s =>
  (match fside with | some fe => (run fe.pre s).bind (run fe.post) | none => .ok s).bind finish

end Shroud.StrStmts
