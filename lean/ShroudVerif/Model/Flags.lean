/-
Model of `ast.WrapFlags`, `ast.PromoteWrap`, the flag assignment of
`GenFunctions.has_default_args` and the emitter gating of
`main.main_with_args` (engine for C15).  Core Lean only.
-/
namespace Shroud.Flags

/-- `ast.WrapFlags` -/
structure WF where
  fortran : Bool
  c_f     : Bool
  c       : Bool
  lua     : Bool
  python  : Bool
  deriving Repr, DecidableEq

inductive Lang where
  | fortran | c_f | c | lua | python
  deriving Repr, DecidableEq

def WF.get (w : WF) : Lang → Bool
  | .fortran => w.fortran
  | .c_f => w.c_f
  | .c => w.c
  | .lua => w.lua
  | .python => w.python

/-- `WrapFlags.__init__(options)`: `c_f` starts False -/
def WF.init (wrap_fortran wrap_c wrap_lua wrap_python : Bool) : WF :=
  ⟨wrap_fortran, false, wrap_c, wrap_lua, wrap_python⟩

def WF.clear (_ : WF) : WF := ⟨false, false, false, false, false⟩

/-- `assign(fortran=False, c_f=False, c=False, lua=False, python=False)` -/
def WF.assign (_ : WF) (fortran c_f c lua python : Bool) : WF := ⟨fortran, c_f, c, lua, python⟩

/-- `accumulate`: field-wise OR -/
def WF.accumulate (w v : WF) : WF :=
  ⟨w.fortran || v.fortran, w.c_f || v.c_f, w.c || v.c, w.lua || v.lua, w.python || v.python⟩

/-- Node tree as `PromoteWrap` sees it: leaves are functions, enums, typedefs,
    variables; containers are library, namespaces, classes (children in visit order). -/
inductive Node where
  | leaf (w : WF)
  | cont (w : WF) (kids : List Node)
  deriving Repr

def Node.flags : Node → WF
  | .leaf w => w
  | .cont w _ => w

def accAll (w : WF) (ks : List Node) : WF := ks.foldl (fun a k => a.accumulate k.flags) w

mutual
/-- `PromoteWrap.visit`: children first, then accumulate their (promoted) flags -/
def promote : Node → Node
  | .leaf w => .leaf w
  | .cont w ks => .cont (accAll w (promoteList ks)) (promoteList ks)
def promoteList : List Node → List Node
  | [] => []
  | k :: ks => promote k :: promoteList ks
end

mutual
/-- is language `l` on at this node or anywhere below it (before promotion) -/
def anyFlag (l : Lang) : Node → Bool
  | .leaf w => w.get l
  | .cont w ks => w.get l || anyList l ks
def anyList (l : Lang) : List Node → Bool
  | [] => false
  | k :: ks => anyFlag l k || anyList l ks
end

/-- flags given to the clones made by `has_default_args` (Python and Lua handle
    default arguments themselves; C and Fortran follow the function's own flags) -/
def defaultClone (node : WF) : WF := node.assign node.fortran false node.c false false

def defaultClones (node : WF) (ndefaults : Nat) : List WF := List.replicate ndefaults (defaultClone node)

/-! ### initial flags: `WrapFlags(self.options)` after the node's own `options:` block is applied

`util.Scope` lookup: the innermost block that mentions an option wins, otherwise the enclosing
scope is asked, and finally the library defaults (`ast.default_options`). -/

/-- what one `options:` block says about the four wrap options (`none` = not mentioned) -/
structure WrapOpts where
  fortran : Option Bool
  c       : Option Bool
  lua     : Option Bool
  python  : Option Bool
  deriving Repr, DecidableEq

/-- scope chain lookup, innermost block first -/
def lookupOpt (sel : WrapOpts → Option Bool) (dflt : Bool) : List WrapOpts → Bool
  | [] => dflt
  | o :: os => match sel o with
    | some b => b
    | none => lookupOpt sel dflt os

/-- defaults of `wrap_fortran wrap_c wrap_lua wrap_python` (regenerated copy: `Gen.Flags.wrapDefaults`) -/
def wrapDefaults : WF := ⟨true, false, true, false, false⟩

/-- flags a node is created with: its own block (head of the chain) applied over the enclosing scopes -/
def initFlags (chain : List WrapOpts) : WF :=
  WF.init (lookupOpt (·.fortran) wrapDefaults.fortran chain) (lookupOpt (·.c) wrapDefaults.c chain)
          (lookupOpt (·.lua) wrapDefaults.lua chain) (lookupOpt (·.python) wrapDefaults.python chain)

/-! ### flag assignment of every clone-making step of `generate.GenFunctions`

`d` = `WrapFlags(node.options)` (what `FunctionNode.clone` starts the clone with), `node` = the
node's current flags when the step runs. -/

inductive CloneKind where
  | cxxTemplate     -- template_function: one clone per instantiation, original cleared
  | defaultArg      -- has_default_args
  | returnThis      -- process_return_this
  | argToCfi        -- arg_to_CFI (C_new [+ F_new of result_as_arg])
  | argToBuffer     -- arg_to_buffer (C_new [+ F_new of result_as_arg])
  | fortranGeneric  -- generic_function: per entry one Fortran clone [+ one C clone]
  deriving Repr, DecidableEq

/-- content facts of the declaration that steer a step (facts about types and attributes, not flags) -/
structure Variant where
  nclones       : Nat     -- instantiations / defaulted parameters
  fires         : Bool    -- the declaration has something to bufferify / a CFI argument or string result
  resultByValue : Bool    -- std::string / std::vector returned by value: no plain C wrapper possible
  vectorArg     : Bool    -- a std::vector argument: the plain C function is meaningless, Lua cannot wrap it
  resultAsArg   : Bool    -- F_string_result_as_arg: an extra Fortran clone wraps the new C function
  newC          : List Bool  -- fortran_generic: does entry i need its own C function
  deriving Repr

def cOnly (node : WF) : WF := node.assign false false true false false
def fOnly (node : WF) : WF := node.assign true false false false false
def cfOf (node : WF) : WF := node.assign node.fortran false node.c false false

/-- tail shared by `arg_to_CFI` and `arg_to_buffer` once they decided to clone -/
def bufClones (v : Variant) (node : WF) : WF × List WF :=
  let node1 : WF := if v.vectorArg then { node with c := false, lua := false } else node
  if v.resultAsArg then ({ node1 with fortran := false }, [cOnly node, fOnly node])
  else (node1, [cOnly node])

/-- `node.wrap.c = False` for a std::string / std::vector returned by value -/
def dropCIf (b : Bool) (node : WF) : WF := if b then { node with c := false } else node

/-- `arg_to_buffer` after its first guard: Fortran guard, content test, clones -/
def bufStep (v : Variant) (node : WF) : WF × List WF :=
  if !node.fortran || !v.fires then (node, []) else bufClones v node

/-- one step: (node's flags afterwards, flags of the clones appended, in order).
    `d` = `WrapFlags(node.options)` when the step starts. -/
def step (k : CloneKind) (v : Variant) (d node : WF) : WF × List WF :=
  match k with
  | .cxxTemplate => (node.clear, List.replicate v.nclones d)
  | .defaultArg => (node, List.replicate v.nclones (cfOf node))
  | .returnThis =>
      if !node.c && !node.fortran then (node, [])
      else ({ node with c := false, fortran := false }, [cfOf node])
  | .argToCfi =>
      if !d.fortran || !node.fortran || !v.fires then (node, [])
      else bufClones v (dropCIf v.resultByValue node)
  | .argToBuffer =>
      if !node.c then (node, []) else bufStep v (dropCIf v.resultByValue node)
  | .fortranGeneric =>
      if !node.fortran then (node, [])
      else ({ node with fortran := false },
            (v.newC.map (fun nc => fOnly node :: (if nc then [cOnly node] else []))).flatten)

/-- the `wrap.assign(...)` sites `step` assumes, in the translator's encoding
    (function, fortran, c_f, c, lua, python; 0 False 1 True 2 the node's own flag) -/
def modelCloneAssigns : List (String × Nat × Nat × Nat × Nat × Nat) :=
  [("generic_function", 1, 0, 0, 0, 0), ("generic_function", 0, 0, 1, 0, 0), ("has_default_args", 2, 0, 2, 0, 0),
   ("result_as_arg", 1, 0, 0, 0, 0), ("arg_to_CFI", 0, 0, 1, 0, 0), ("arg_to_buffer", 0, 0, 1, 0, 0)]

/-- `w` is on only where `d` is on -/
def Within (w d : WF) : Prop := ∀ l : Lang, w.get l = true → d.get l = true

/-- a generation history of one declared function: steps applied to the node, and to each clone its own
    further history (clones of clones).  Each step records `d`, the flags of the node's options at that time
    (`arg_to_CFI` switches `options.wrap_fortran` off for later steps). -/
inductive Hist where
  | mk (steps : List (CloneKind × Variant × WF × List Hist))

mutual
/-- flags of every member of the function's family at the end of `generate_functions` -/
def runHist : Hist → WF → List WF
  | .mk steps, node => runSteps steps node
def runSteps : List (CloneKind × Variant × WF × List Hist) → WF → List WF
  | [], node => [node]
  | (k, v, d, hs) :: rest, node =>
      runClones hs (step k v d node).2 ++ runSteps rest (step k v d node).1
def runClones : List Hist → List WF → List WF
  | _, [] => []
  | [], c :: cs => c :: runClones [] cs
  | h :: hs, c :: cs => runHist h c ++ runClones hs cs
end

mutual
/-- every `d` (flags of the node's options) recorded in a history -/
def allD : Hist → List WF
  | .mk steps => allDSteps steps
def allDSteps : List (CloneKind × Variant × WF × List Hist) → List WF
  | [] => []
  | (_, _, d, hs) :: rest => d :: (allDList hs ++ allDSteps rest)
def allDList : List Hist → List WF
  | [] => []
  | h :: hs => allD h ++ allDList hs
end

/-! ### driver gating -/

inductive Emitter where
  | wrapc | wrapf | util | wrapp | wrapl
  deriving Repr, DecidableEq

/-- the emitter invocations of `main_with_args`, in order, for the promoted library flags -/
def driverRun (lib : WF) : List Emitter :=
  (if lib.c then [.wrapc] else []) ++ (if lib.fortran then [.wrapf] else []) ++ [.util] ++
  (if lib.python then [.wrapp] else []) ++ (if lib.lua then [.wrapl] else [])

/-- emitters that write C / Fortran files -/
def Emitter.isCF : Emitter → Bool
  | .wrapc | .wrapf | .util => true
  | _ => false

/-- the (guard, emitter) table the model assumes, in the translator's encoding -/
def modelDriverSteps : List (Nat × Nat) := [(0, 0), (1, 1), (9, 4), (2, 2), (3, 3)]

end Shroud.Flags
