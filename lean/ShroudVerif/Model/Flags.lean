/-
Model of `ast.WrapFlags`, `ast.PromoteWrap`, the flag assignment of
`GenFunctions.has_default_args` and the emitter gating of
`main.main_with_args` (engine for C15).  Core Lean only.
-/
namespace Shroud.Flags

/-- `ast.WrapFlags` -/
structure WF where
  fortran : Bool
  c_f     : Bool
  c       : Bool
  lua     : Bool
  python  : Bool
  deriving Repr, DecidableEq

inductive Lang where
  | fortran | c_f | c | lua | python
  deriving Repr, DecidableEq

def WF.get (w : WF) : Lang → Bool
  | .fortran => w.fortran
  | .c_f => w.c_f
  | .c => w.c
  | .lua => w.lua
  | .python => w.python

/-- `WrapFlags.__init__(options)`: `c_f` starts False -/
def WF.init (wrap_fortran wrap_c wrap_lua wrap_python : Bool) : WF :=
  ⟨wrap_fortran, false, wrap_c, wrap_lua, wrap_python⟩

def WF.clear (_ : WF) : WF := ⟨false, false, false, false, false⟩

/-- `assign(fortran=False, c_f=False, c=False, lua=False, python=False)` -/
def WF.assign (_ : WF) (fortran c_f c lua python : Bool) : WF := ⟨fortran, c_f, c, lua, python⟩

/-- `accumulate`: field-wise OR -/
def WF.accumulate (w v : WF) : WF :=
  ⟨w.fortran || v.fortran, w.c_f || v.c_f, w.c || v.c, w.lua || v.lua, w.python || v.python⟩

/-- Node tree as `PromoteWrap` sees it: leaves are functions, enums, typedefs,
    variables; containers are library, namespaces, classes (children in visit order). -/
inductive Node where
  | leaf (w : WF)
  | cont (w : WF) (kids : List Node)
  deriving Repr

def Node.flags : Node → WF
  | .leaf w => w
  | .cont w _ => w

def accAll (w : WF) (ks : List Node) : WF := ks.foldl (fun a k => a.accumulate k.flags) w

mutual
/-- `PromoteWrap.visit`: children first, then accumulate their (promoted) flags -/
def promote : Node → Node
  | .leaf w => .leaf w
  | .cont w ks => .cont (accAll w (promoteList ks)) (promoteList ks)
def promoteList : List Node → List Node
  | [] => []
  | k :: ks => promote k :: promoteList ks
end

mutual
/-- is language `l` on at this node or anywhere below it (before promotion) -/
def anyFlag (l : Lang) : Node → Bool
  | .leaf w => w.get l
  | .cont w ks => w.get l || anyList l ks
def anyList (l : Lang) : List Node → Bool
  | [] => false
  | k :: ks => anyFlag l k || anyList l ks
end

/-- flags given to the clones made by `has_default_args` (Python and Lua handle
    default arguments themselves; C and Fortran follow the function's own flags) -/
def defaultClone (node : WF) : WF := node.assign node.fortran false node.c false false

def defaultClones (node : WF) (ndefaults : Nat) : List WF := List.replicate ndefaults (defaultClone node)

/-! ### driver gating -/

inductive Emitter where
  | wrapc | wrapf | util | wrapp | wrapl
  deriving Repr, DecidableEq

/-- the emitter invocations of `main_with_args`, in order, for the promoted library flags -/
def driverRun (lib : WF) : List Emitter :=
  (if lib.c then [.wrapc] else []) ++ (if lib.fortran then [.wrapf] else []) ++ [.util] ++
  (if lib.python then [.wrapp] else []) ++ (if lib.lua then [.wrapl] else [])

/-- emitters that write C / Fortran files -/
def Emitter.isCF : Emitter → Bool
  | .wrapc | .wrapf | .util => true
  | _ => false

/-- the (guard, emitter) table the model assumes, in the translator's encoding -/
def modelDriverSteps : List (Nat × Nat) := [(0, 0), (1, 1), (9, 4), (2, 2), (3, 3)]

end Shroud.Flags
