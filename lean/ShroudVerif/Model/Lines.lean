/-
Model of `shroud/util.py: WrapperMixin.write_continue / write_lines`
(engine E-lines; properties C13, C12, C16, C05).

Strings are `List Char`.  Imports nothing outside core Lean so that the
line-protocol driver links as a `lean_exe`.
-/
namespace Shroud.Lines

/-- Python `str.isspace` / the set `str.lstrip()` removes, on the code points the
    correspondence generator uses (ASCII plus U+0085, U+00A0). -/
def isPySpace (c : Char) : Bool :=
  let n := c.toNat
  (9 ≤ n && n ≤ 13) || (28 ≤ n && n ≤ 32) || n == 0x85 || n == 0xa0

def TAB : Char := '\t'
def FF  : Char := Char.ofNat 12
def CR  : Char := '\r'

/-- Python `str.lstrip()`. -/
def lstrip (s : List Char) : List Char := s.dropWhile isPySpace

/-- A part produced by the "find tabs and formfeeds" loop. -/
inductive Part where
  | text (s : List Char)
  | ff
  deriving Repr, DecidableEq

def flush (cur : List Char) : List Part :=
  if cur.isEmpty then [] else [.text cur]

/-- The splitting loop of `write_continue`: TAB separates, FF separates and is
    its own part; empty parts are never produced. -/
def splitParts : List Char → List Char → List Part
  | cur, [] => flush cur
  | cur, c :: cs =>
    if c = TAB then flush cur ++ splitParts [] cs
    else if c = FF then flush cur ++ Part.ff :: splitParts [] cs
    else splitParts (cur ++ [c]) cs

structure Cfg where
  linelen : Nat
  indent  : Int          -- self.indent at the time of the call (may be negative)
  spaces  : List Char    -- one indentation unit
  deriving Repr

/-- Python `spaces * n` (empty for `n ≤ 0`). -/
def nspaces (spaces : List Char) (n : Int) : List Char :=
  (List.replicate n.toNat spaces).flatten

/-- The greedy fill loop `for part in parts:` written as a recursion over the
    remaining parts.  `sub` is the line being filled, `nparts` the number of parts
    saved on it, `ci` the continuation indent; the result lists the bodies of the
    physical lines (without continuation marker), the last one being the final
    `fp.write(subline + "\n")`. -/
def fill (linelen : Nat) (ci : List Char) : List Char → Nat → List Part → List (List Char)
  | sub, _, [] => [sub]
  | sub, _, .ff :: ps => sub :: fill linelen ci ci 0 ps
  | sub, n, .text s :: ps =>
    if sub.length + s.length > linelen ∧ n > 0 then
      let s' := lstrip s
      if s'.isEmpty then sub :: fill linelen ci ci 0 ps
      else sub :: fill linelen ci (ci ++ s') 1 ps
    else fill linelen ci (sub ++ s) (n + 1) ps

/-- Strip the optional leading CR; returns (indent multiplier, rest). -/
def crSplit : List Char → Nat × List Char
  | c :: cs => if c = CR then (2, cs) else (1, c :: cs)
  | [] => (1, [])

/-- Bodies (without continuation marker / newline) of the physical lines that
    `write_continue` writes for a **non-empty** logical line. -/
def wcBodies (c : Cfg) (line : List Char) : List (List Char) :=
  fill c.linelen (nspaces c.spaces (c.indent + (crSplit line).1))
    (nspaces c.spaces c.indent) 0 (splitParts [] (crSplit line).2)

/-- Result of a Python-level call: a value or the exception that escapes. -/
inductive Res (α : Type) where
  | ok (a : α)
  | crash (exn : String)
  deriving Repr, DecidableEq

/-- `write_continue`.  (Before the `fix:` commit in /repo, `line[0]` raised
    `IndexError` on the empty string; the code now slices, so every line is
    accepted.  The `Res` type is kept so a reintroduced crash can be modelled.) -/
def writeContinue (c : Cfg) (line : List Char) : Res (List (List Char)) :=
  .ok (wcBodies c line)

/-- Physical lines as written to the file (each is followed by "\n"). -/
def render (cont : List Char) : List (List Char) → List (List Char)
  | [] => []
  | [l] => [l]
  | l :: ls => (l ++ cont) :: render cont ls

/-! ### write_lines -/

/-- One item of the `lines` list: an integer indent delta or a string. -/
inductive Item where
  | delta (d : Int)
  | str (s : List Char)
  deriving Repr, DecidableEq

/-- What `write_lines` does with one `subline` (no embedded newline).
    Output: lines written *with* marker rendering already applied, and the new
    indent.  Python's `self.indent` may go negative: `spaces * negative = ""`,
    modelled with `Int.toNat`. -/
structure WL where
  lines  : List (List Char)
  indent : Int
  deriving Repr, DecidableEq

def dropDashes : List Char → Int → List Char × Int
  | c :: cs, i => if c = '-' then dropDashes cs (i - 1) else (c :: cs, i)
  | [], i => ([], i)

def wcAt (linelen : Nat) (spaces cont : List Char) (indent : Int) (s : List Char) :
    Res (List (List Char)) :=
  match writeContinue { linelen, indent := indent, spaces } s with
  | .ok b => .ok (render cont b)
  | .crash e => .crash e

def subline (linelen : Nat) (spaces cont : List Char) (indent : Int) (s : List Char) : Res WL :=
  match s with
  | [] => .ok ⟨[[]], indent⟩
  | c :: cs =>
    if c = '#' then .ok ⟨[s], indent⟩
    else if c = '@' then
      match wcAt linelen spaces cont indent cs with
      | .ok ls => .ok ⟨ls, indent⟩
      | .crash e => .crash e
    else if c = '^' then .ok ⟨[cs], indent⟩
    else if c = '+' then
      -- subline[-1] of the whole subline (which is non-empty here)
      if s.getLast? = some '-' then
        -- subline[1:-1]
        match wcAt linelen spaces cont (indent + 1) (cs.dropLast) with
        | .ok ls => .ok ⟨ls, indent⟩
        | .crash e => .crash e
      else
        match wcAt linelen spaces cont (indent + 1) cs with
        | .ok ls => .ok ⟨ls, indent + 1⟩
        | .crash e => .crash e
    else
      let (r, i) := dropDashes s indent
      if r.getLast? = some '+' then
        match wcAt linelen spaces cont i r.dropLast with
        | .ok ls => .ok ⟨ls, i + 1⟩
        | .crash e => .crash e
      else
        match wcAt linelen spaces cont i r with
        | .ok ls => .ok ⟨ls, i⟩
        | .crash e => .crash e

/-- Python `str.split("\n")`. -/
def splitNL : List Char → List Char → List (List Char)
  | cur, [] => [cur]
  | cur, c :: cs => if c = '\n' then cur :: splitNL [] cs else splitNL (cur ++ [c]) cs

def sublines (linelen : Nat) (spaces cont : List Char) :
    Int → List (List Char) → Res WL
  | i, [] => .ok ⟨[], i⟩
  | i, s :: ss =>
    match subline linelen spaces cont i s with
    | .crash e => .crash e
    | .ok w =>
      match sublines linelen spaces cont w.indent ss with
      | .crash e => .crash e
      | .ok w' => .ok ⟨w.lines ++ w'.lines, w'.indent⟩

def writeLines (linelen : Nat) (spaces cont : List Char) : Int → List Item → Res WL
  | i, [] => .ok ⟨[], i⟩
  | i, .delta d :: rest => writeLines linelen spaces cont (i + d) rest
  | i, .str s :: rest =>
    match sublines linelen spaces cont i (splitNL [] s) with
    | .crash e => .crash e
    | .ok w =>
      match writeLines linelen spaces cont w.indent rest with
      | .crash e => .crash e
      | .ok w' => .ok ⟨w.lines ++ w'.lines, w'.indent⟩

/-! ### write_output_file -/

/-- `write_copyright`: `None`/empty entries become a bare comment line -/
def copyrightLines (comment : List Char) : List (List Char) → List (List Char)
  | [] => []
  | l :: ls => (if l.isEmpty then comment else comment ++ ' ' :: l) :: copyrightLines comment ls

/-- `util.WrapperMixin.write_output_file`: two header comment lines, the copyright
    block, then `write_lines` with the indentation reset to 0.  Returns the lines of the file. -/
def writeOutputFile (comment fname version : List Char) (copyright : List (List Char))
    (linelen : Nat) (spaces cont : List Char) (output : List Item) : Res (List (List Char)) :=
  match writeLines linelen spaces cont 0 output with
  | .crash e => .crash e
  | .ok w => .ok ((comment ++ ' ' :: fname)
      :: (comment ++ " This file is generated by Shroud ".toList ++ version ++ ". Do not edit.".toList)
      :: copyrightLines comment copyright ++ w.lines)

/-! ### `_literal_lines`: user supplied lines are marked literal before they reach `write_lines` -/

/-- `WrapperMixin._literal_lines` on one line: a line that starts with `@ ^ + -` or ends with `+` would be read as
    a formatting directive, so it gets the literal marker `@`; preprocessor lines (`#`) are written as is anyway -/
def protect (s : List Char) : List Char :=
  match s with
  | [] => s
  | c :: _ =>
    if c ≠ '#' ∧ (c = '@' ∨ c = '^' ∨ c = '+' ∨ c = '-' ∨ s.getLast? = some '+') then '@' :: s else s

/-- the branches of `_create_splicer` and whether each passes its lines through `_literal_lines`
    (force = declaration-level `splicer:`, user = splicer file / splicer_code, default = generated body) -/
def modelSplicerBranches : List (String × Bool) := [("force", true), ("user", true), ("default", false)]

/-! ### emitter configuration and call sequences -/

/-- value of the option a table row names: 0 `C_line_length`, 1 `F_line_length`; other codes: not an option -/
def optValue (code cLen fLen : Nat) : Option Nat :=
  if code = 0 then some cLen else if code = 1 then some fLen else none

/-- `self.linelen` and `self.cont` as the `__init__` of emitter `e` sets them, read off the regenerated table
    `(emitter, option, addend, marker)`: the option's value plus the addend. -/
def emitterCfg (tbl : List (Nat × Nat × Int × List Nat)) (e cLen fLen : Nat) : Option (Nat × List Char) :=
  match tbl.find? (fun r => r.1 == e) with
  | some (_, code, add, cont) =>
    match optValue code cLen fLen with
    | some v => some (((v : Int) + add).toNat, cont.map Char.ofNat)
    | none => none
  | none => none

/-- the physical lines emitter `e` of a library with options `C_line_length = cLen`, `F_line_length = fLen` writes for
    one logical line (`write_continue` on the instance as `__init__` configured it) -/
def emitterWrite (tbl : List (Nat × Nat × Int × List Nat)) (e cLen fLen : Nat) (indent : Int)
    (spaces line : List Char) : Option (List (List Char)) :=
  match emitterCfg tbl e cLen fLen with
  | some (ll, cont) => some (render cont (wcBodies { linelen := ll, indent, spaces } line))
  | none => none

/-- A session: the calls made on one instance / in one process, in order.  `write_continue` keeps nothing between
    calls, so a session is the list of the individual results. -/
def wcSession (calls : List (Cfg × List Char × List Char)) : List (List (List Char)) :=
  calls.map fun q => render q.2.1 (wcBodies q.1 q.2.2)

end Shroud.Lines
