import ShroudVerif.Model.Decl
/-!
# Operations that rewrite a parsed declaration

`declast.Declaration.set_return_to_void`, `_as_arg`, `result_as_arg`, `set_type`
and `instantiate`: the generate phase uses them to turn a function result into
an argument (`char *`, `std::string`, `std::vector<T>` results) and to
instantiate templates.  They are modelled as functions on `Decl`; the crash
sites of the code (a declaration without declarator, a function without
parameter list, a typemap without C++ type) are `Res.crash`.

The driver op `rewrite` ties them to the real methods on generated
declarations (templated results included).
-/
namespace Shroud.Decl
open Shroud

/-- `self.declarator.pointer = []` -/
def Declarator.clearPointer : Declarator → Declarator
  | .leaf _ n => .leaf [] n
  | .wrap _ i => .wrap [] i

/-- `Declaration.set_return_to_void()`: specifier `void`, typemap `void`, no cv, no pointers,
    **no template arguments**; storage, parameters, array, attributes and value stay -/
def Decl.setReturnToVoid : Decl → Res Decl
  | .mk s dr params fc arr attrs init =>
    match dr with
    | none => .crash "AttributeError"          -- `None.pointer = []`
    | some d => .ok (.mk (.mk [sp "void"] s.storage false false [] (sp "void")) (some d.clearPointer) params fc arr attrs init)

/-- `Declaration._as_arg(name)`: a new declaration with the type of the result (template
    arguments included), at least one level of indirection, the attributes of the function, the
    given name; no parameter list, array, value -/
def Decl.asArg (name : Str) : Decl → Res Decl
  | .mk s dr _ _ _ attrs _ =>
    match dr with
    | none => .crash "AttributeError"          -- `deepcopy(None).name = name`
    | some (.leaf ps _) =>
      .ok (.mk s (some (.leaf (if ps.isEmpty then [{ kind := .star }] else ps) (some name))) none false [] attrs none)
    | some (.wrap _ _) => .unmodelled "as_arg of a parenthesised declarator"   -- sets `name` beside `func`

/-- `Declaration.result_as_arg(name)` -/
def Decl.resultAsArg (name : Str) (d : Decl) : Res Decl :=
  match d.asArg name with
  | .ok a =>
    match d with
    | .mk s dr (some ps) fc arr attrs init => Decl.setReturnToVoid (.mk s dr (some (ps ++ [a])) fc arr attrs init)
    | .mk _ _ none _ _ _ _ => .crash "AttributeError"      -- `None.append(newarg)`
  | .reject m => .reject m
  | .crash e => .crash e
  | .fuel => .fuel
  | .unmodelled w => .unmodelled w

/-- Python `str.split()` on blanks -/
def splitWs : Str → Str → List Str
  | cur, [] => if cur.isEmpty then [] else [cur.reverse]
  | cur, c :: cs =>
    if c = ' ' then (if cur.isEmpty then splitWs [] cs else cur.reverse :: splitWs [] cs)
    else splitWs (c :: cur) cs

/-- `Declaration.set_type(ntypemap)`: typemap and `specifier = ntypemap.cxx_type.split()`; cv,
    storage, template arguments, declarator and the rest stay -/
def Decl.setType (env : Env) (tm : Str) : Decl → Res Decl
  | .mk s dr params fc arr attrs init =>
    match env.typeInfo tm with
    | none => .unmodelled "typemap"
    | some ti =>
      match ti.cxxType with
      | none => .crash "AttributeError"        -- `None.split()`
      | some t => .ok (.mk (.mk (splitWs [] t) s.storage s.const s.volatile s.targs ti.name) dr params fc arr attrs init)

/-- `Declaration.instantiate(node)`: a copy with the type of `node` (its typemap only: pointers
    of `node` are not taken over, as the code's comment says) -/
def Decl.instantiate (env : Env) (node : Decl) (d : Decl) : Res Decl :=
  d.setType env node.spec.typemap

end Shroud.Decl
