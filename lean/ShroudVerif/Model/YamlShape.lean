import ShroudVerif.Model.Token
/-!
# Model of the YAML structure validation of `shroud/ast.py`

`create_library_from_dictionary`, `clean_dictionary` (+ `check_dictionary_fields`,
`check_string_fields`), the library-level checks of `LibraryNode.__init__` (`language`,
the string-valued format fields) and the shape checks of `add_declarations`, as total
functions over an abstract YAML value tree.

Only the SHAPE layer is modelled: which keys must be mappings / strings / lists, which
keys an entry of `declarations` must or must not have, and the recursion into nested
`declarations`.  What the code does with a well-shaped entry (parsing `decl`, creating
the node, node-specific diagnostics such as "'declarations' is not allowed in a function",
typemap creation) is outside this model: `ok` means "no shape diagnostic", and the tie
compares only runs in which the real code ends in `ok` or in a shape diagnostic.

A mapping is kept as two parallel lists (keys, values) in insertion order; the
`__line__` keys the loader adds are dropped by the harness.
-/
namespace Shroud.Yaml
open Shroud.Decl (Str)

inductive YVal where
  | null
  | bool (b : Bool)
  | int (n : Int)
  | real (nonzero : Bool)
  | str (s : Str)
  | list (items : List YVal)
  | map (keys : List Str) (vals : List YVal)
  deriving Repr, Inhabited

inductive Res (α : Type) where
  | ok (a : α)
  | reject (id : String)
  | crash (exn : String)
  deriving Repr

instance : Monad Res where
  pure := .ok
  bind m f := match m with
    | .ok a => f a
    | .reject i => .reject i
    | .crash e => .crash e

@[simp] theorem Res.bind_ok {α β} (a : α) (f : α → Res β) : (Res.ok a >>= f) = f a := rfl
@[simp] theorem Res.bind_reject {α β} (m : String) (f : α → Res β) : (Res.reject m >>= f) = .reject m := rfl
@[simp] theorem Res.bind_crash {α β} (m : String) (f : α → Res β) : (Res.crash m >>= f) = .crash m := rfl
@[simp] theorem Res.pure_eq {α} (a : α) : (pure a : Res α) = .ok a := rfl

def lookup (k : String) : List Str → List YVal → Option YVal
  | a :: ks, v :: vs => if a = k.toList then some v else lookup k ks vs
  | _, _ => none

def YVal.isDict : YVal → Bool | .map _ _ => true | _ => false
def YVal.isStr : YVal → Bool | .str _ => true | _ => false
def YVal.isList : YVal → Bool | .list _ => true | _ => false
def YVal.isNull : YVal → Bool | .null => true | _ => false

/-- Python truthiness -/
def YVal.truthy : YVal → Bool
  | .null => false
  | .bool b => b
  | .int n => n ≠ 0
  | .real nz => nz
  | .str s => !s.isEmpty
  | .list l => !l.isEmpty
  | .map _ _ => true      -- the loader adds a `__line__` entry to every mapping

/-- `check_dictionary_fields`: `options`, `format`, `fields` may be blank (None) -/
def checkDictFields (keys : List Str) (vals : List YVal) : List String → Res Unit
  | [] => .ok ()
  | k :: ks =>
    match lookup k keys vals with
    | some v =>
      if v.isDict then checkDictFields keys vals ks
      else if v.isNull ∧ (k = "options" ∨ k = "format" ∨ k = "fields") then checkDictFields keys vals ks
      else .reject ("must-be-dictionary:" ++ k)
    | none => checkDictFields keys vals ks

/-- `check_string_fields`; `blankOk` are the keys `clean_dictionary` turns from None into "" first -/
def checkStringFields (keys : List Str) (vals : List YVal) (blankOk : List String) : List String → Res Unit
  | [] => .ok ()
  | k :: ks =>
    match lookup k keys vals with
    | some v =>
      if v.isStr ∨ (v.isNull ∧ blankOk.contains k) then checkStringFields keys vals blankOk ks
      else .reject ("must-be-string:" ++ k)
    | none => checkStringFields keys vals blankOk ks

/-- the entries of `cxx_template` / `fortran_generic` -/
def checkSubEntries (what need : String) : List YVal → Res Unit
  | [] => .ok ()
  | .map ks vs :: rest =>
    if !(ks.contains need.toList) then .reject (what ++ ":missing-" ++ need) else do
      checkDictFields ks vs ["format", "options"]
      checkStringFields ks vs [] [need]
      checkSubEntries what need rest
  | _ :: _ => .reject (what ++ ":entry-not-dictionary")

def checkListField (k : String) (keys : List Str) (vals : List YVal) : Res Unit :=
  match lookup k keys vals with
  | some v => if v.isList then .ok () else .reject ("must-be-list:" ++ k)
  | none => .ok ()

def checkSubList (k need : String) (keys : List Str) (vals : List YVal) : Res Unit :=
  match lookup k keys vals with
  | some (.list l) => checkSubEntries k need l
  | some _ => .reject ("must-be-list:" ++ k)
  | none => .ok ()

/-- `clean_dictionary` -/
def cleanDictionary (keys : List Str) (vals : List YVal) : Res Unit := do
  checkDictFields keys vals ["options", "format", "fields", "attrs", "fattrs", "fstatements", "splicer"]
  checkStringFields keys vals ["cxx_header", "namespace"] ["cxx_header", "namespace", "language", "library"]
  checkListField "default_arg_suffix" keys vals
  checkSubList "cxx_template" "instantiation" keys vals
  checkSubList "fortran_generic" "decl" keys vals

/-- keys computed from `decl` that a declaration entry must not set -/
def forbiddenKeys : List String := ["name", "parent", "base", "ast", "parse_keyword", "template_parameters", "ntypemap"]

def firstForbidden (keys : List Str) : List String → Option String
  | [] => none
  | k :: ks => if keys.contains k.toList then some k else firstForbidden keys ks

mutual
/-- the value under a `declarations` key -/
def shapeDecls : YVal → Res Unit
  | .list [] => .ok ()
  | .list (e :: es) => shapeEntries (e :: es)
  | v => if v.truthy then .reject "must-be-list:declarations" else .ok ()
def shapeEntries : List YVal → Res Unit
  | [] => .ok ()
  | e :: es =>
    match shapeEntry e with
    | .ok _ => shapeEntries es
    | .reject i => .reject i
    | .crash x => .crash x
/-- one entry of `declarations` -/
def shapeEntry : YVal → Res Unit
  | .map keys vals =>
    if keys.contains "block".toList then
      match cleanDictionary keys vals with
      | .ok _ => nested keys vals
      | .reject i => .reject i
      | .crash x => .crash x
    else if keys.contains "decl".toList then
      match cleanDictionary keys vals with
      | .ok _ =>
        match checkStringFields keys vals [] ["decl"] with
        | .ok _ =>
          match firstForbidden keys forbiddenKeys with
          | some k => .reject ("decl:field-not-allowed:" ++ k)
          | none => nested keys vals
        | .reject i => .reject i
        | .crash x => .crash x
      | .reject i => .reject i
      | .crash x => .crash x
    else .reject "declarations:no-decl-or-block"
  | _ => .reject "declarations:entry-not-dictionary"
/-- recursion into the `declarations` value of a mapping, if it has one -/
def nested : List Str → List YVal → Res Unit
  | k :: ks, v :: vs => if k = "declarations".toList then shapeDecls v else nested ks vs
  | _, _ => .ok ()
end

def typemapEntries : List YVal → Res Unit
  | [] => .ok ()
  | .map ks vs :: rest =>
    match lookup "type" ks vs, lookup "fields" ks vs with
    | some (.str _), some (.map _ _) => typemapEntries rest
    | _, _ => .reject "typemap:entry-shape"
  | _ :: _ => .reject "typemap:entry-shape"

def lower (s : Str) : Str := s.map Char.toLower

/-- `for name in ["C_prefix", "F_module_name"]: if name in fmtdict and not isinstance(fmtdict[name], str)` -/
def formatStrings (fk : List Str) (fv : List YVal) : List String → Res Unit
  | [] => .ok ()
  | k :: ks =>
    match lookup k fk fv with
    | some v => if v.isStr then formatStrings fk fv ks else .reject ("format-must-be-string:" ++ k)
    | none => formatStrings fk fv ks

def checkLanguage (keys : List Str) (vals : List YVal) : Res Unit :=
  match lookup "language" keys vals with
  | some (.str s) =>
    if lower s = "c".toList ∨ lower s = "c++".toList then .ok () else .reject "language:must-be-c-or-c++"
  | _ => .ok ()

/-- the library-level checks of `LibraryNode.__init__` that concern the YAML values -/
def libraryChecks (keys : List Str) (vals : List YVal) : Res Unit := do
  checkLanguage keys vals
  match lookup "format" keys vals with
  | some (.map fk fv) => if fk.isEmpty then .ok () else formatStrings fk fv ["C_prefix", "F_module_name"]
  | _ => .ok ()

def checkCopyright (keys : List Str) (vals : List YVal) : Res Unit :=
  match lookup "copyright" keys vals with
  | some v => if v.isList then .ok () else .reject "must-be-list:copyright"
  | none => .ok ()

def checkTypemap (keys : List Str) (vals : List YVal) : Res Unit :=
  match lookup "typemap" keys vals with
  | some (.list l) => typemapEntries l
  | some _ => .reject "must-be-list:typemap"
  | none => .ok ()

/-- `create_library_from_dictionary(node)`, shape layer -/
def createLibrary : YVal → Res Unit
  | .map keys vals => do
    checkCopyright keys vals
    cleanDictionary keys vals
    libraryChecks keys vals
    checkTypemap keys vals
    nested keys vals
  | _ => .crash "TypeError"     -- the entry point is only called with the mapping main() builds

end Shroud.Yaml
