/-
Model of Shroud's capsule / destructor-index machinery (engine for C06).  Core Lean only.

Generator side (shroud/wrapc.py, shroud/wrapp.py):
  `Wrapc.add_capsule_code`, `add_destructor`, `compute_idtor`, `find_idtor`, and the `switch`
  written by `write_capsule_code`.
Generated-code side (run time):
  a heap of objects, handles `{addr, idtor}` (`<C_prefix>SHROUD_capsule_data`), the generated
  `<C_prefix>SHROUD_memory_destructor` (`release`), the generated class destructor wrapper
  `<C_prefix><Class>_dtor` (`delete`), constructors, functions returning caller- or library-owned
  pointers, and calls that create an intermediate `std::string`/`std::vector`.
-/
namespace Shroud.Capsule

/-! ## Generator: the destructor table -/

/-- one `capsule_code[name] = (str(index), lines)` entry -/
structure Entry (α β : Type) where
  name  : α
  index : Nat
  lines : β
  deriving Repr, DecidableEq

/-- `capsule_code` (a dict, in insertion order) and `capsule_order` (a list) -/
structure Table (α β : Type) where
  code  : List (Entry α β)
  order : List α
  deriving Repr, DecidableEq

variable {α β : Type} [DecidableEq α]

def Table.empty : Table α β := ⟨[], []⟩

/-- `capsule_code.get(name)` -/
def Table.lookup (t : Table α β) (n : α) : Option (Entry α β) :=
  t.code.find? (fun e => decide (e.name = n))

/-- `Wrapc.add_capsule_code(name, var_typemap, lines)` / `Wrapp.add_capsule_code(name, lines)`:
```
if name not in self.capsule_code:
    self.capsule_code[name] = (str(len(self.capsule_code)), lines)
    self.capsule_order.append(name)
return self.capsule_code[name][0]
```
-/
def addCapsuleCode (t : Table α β) (n : α) (lines : β) : Table α β × Nat :=
  match t.lookup n with
  | some e => (t, e.index)
  | none => (⟨t.code ++ [⟨n, t.code.length, lines⟩], t.order ++ [n]⟩, t.code.length)

/-- `Wrapc.add_destructor(fmt, name, cmd_list, arg_typemap)`: formats the commands only when the
    name is new, then `add_capsule_code`; otherwise returns the recorded index.  Same table effect. -/
def addDestructor (t : Table α β) (n : α) (lines : β) : Table α β × Nat :=
  match t.lookup n with
  | none => addCapsuleCode t n lines
  | some e => (t, e.index)

/-- `wrap_library`: `self.add_capsule_code("--none--", None, ["// Nothing to delete"])` on the
    (per instance) empty tables -/
def Table.init (noneName : α) (nothing : β) : Table α β :=
  (addCapsuleCode Table.empty noneName nothing).1

/-- a list of registrations in program order -/
def regAll (t : Table α β) : List (α × β) → Table α β
  | [] => t
  | (n, l) :: rs => regAll (addCapsuleCode t n l).1 rs

/-- the body the generated `switch (cap->idtor)` runs for `case i`
    (`for i, name in enumerate(self.capsule_order): ... self.capsule_code[name][1]`);
    `none` = the `default:` branch -/
def caseBody (t : Table α β) (i : Nat) : Option β :=
  match t.order[i]? with
  | none => none
  | some n => (t.lookup n).map (·.lines)

/-- all `case i: // name` blocks as written -/
def switchCases (t : Table α β) : List (Nat × α × Option β) :=
  t.order.zipIdx.map (fun (n, i) => (i, n, (t.lookup n).map (·.lines)))

/-! ## What a destructor body does -/

/-- how a piece of memory was obtained -/
inductive Kind where
  | cxx (ty : Nat)    -- `new T`
  | pod               -- `malloc`
  | pat (p : Nat)     -- whatever the user's `free_pattern` p releases
  deriving Repr, DecidableEq

/-- classes of destructor bodies -/
inductive Dtor where
  | nothing           -- "// Nothing to delete"
  | del (ty : Nat)    -- `T *cxx_ptr = reinterpret_cast<T *>(ptr); delete cxx_ptr;`
  | free              -- `free(cxx_ptr);`
  | pattern (p : Nat) -- text of `patterns[free_pattern]`
  deriving Repr, DecidableEq

def Dtor.Matches : Dtor → Kind → Bool
  | .del t, .cxx u => t == u
  | .free, .pod => true
  | .pattern p, .pat q => p == q
  | _, _ => false

/-! ## Generator: `compute_idtor` and `find_idtor` -/

inductive Owner where
  | library | caller
  deriving Repr, DecidableEq

/-- generator state: destructor table and the `ntypemap.idtor` cache (`"0"` initially) -/
structure World (α : Type) where
  tbl   : Table α Dtor
  cache : α → Nat

def World.setCache (w : World α) (tm : α) (i : Nat) : World α :=
  { w with cache := fun x => if x = tm then i else w.cache x }

/-- `compute_idtor(node)`: a class with a wrapped destructor registers
    `delete reinterpret_cast<T*>(ptr)` under its `cxx_type`; otherwise `ntypemap.idtor = "0"`.
    `tm` = typemap (cache key), `nm` = `cxx_type` (table name), `ty` = type id of the body. -/
def computeIdtor (w : World α) (tm nm : α) (ty : Nat) (hasDtor : Bool) : World α :=
  if hasDtor then
    let r := addCapsuleCode w.tbl nm (.del ty)
    ({ tbl := r.1, cache := w.cache } : World α).setCache tm r.2
  else w.setCache tm 0

/-- the inputs `find_idtor(ast, ntypemap, fmt, intent_blk)` reads -/
structure FindIn (α : Type) where
  destructorName : Option α    -- wformat(intent_blk.destructor_name, fmt)
  stmtDtor  : Dtor             -- class of intent_blk.destructor
  ownerAttr : Option Owner     -- ast.attrs["owner"]
  stmtOwner : Option Owner     -- intent_blk.owner ("library" by default in CStmts)
  isPointer : Bool             -- ast.is_pointer()
  freePattern : Option (α × Nat)  -- ast.attrs["free_pattern"] (name, id of the pattern text)
  tm  : α                      -- typemap (cache key)
  nm  : α                      -- ntypemap.cxx_type (name used for the table)
  ty  : Nat                    -- id of the C++ type (for `delete`)
  cxxToC : Bool                -- ntypemap.cxx_to_c is set (class instance / std::string)

/-- the owner decision of `find_idtor`: (owner, from_stmt) -/
def FindIn.ownerDecision (x : FindIn α) : Owner × Bool :=
  match x.ownerAttr with
  | some o => (o, false)
  | none => match x.stmtOwner with
    | some o => (o, true)
    | none => (Owner.library, false)

/-- the `destructor_name` branch of `find_idtor` -/
def stmtBranch (w : World α) (dn : α) (d : Dtor) : World α × Nat :=
  match w.tbl.lookup dn with
  | none => let r := addCapsuleCode w.tbl dn d; ({ w with tbl := r.1 }, r.2)
  | some e => (w, e.index)

/-- the registering branches of `find_idtor` (free_pattern / cached / class instance / POD) -/
def regBranch (w : World α) (x : FindIn α) : World α × Nat :=
  match x.freePattern with
  | some (pn, p) =>
    let r := addDestructor w.tbl pn (.pattern p); ({ w with tbl := r.1 }, r.2)
  | none =>
    if w.cache x.tm ≠ 0 then (w, w.cache x.tm)
    else
      let body := if x.cxxToC then Dtor.del x.ty else Dtor.free
      let r := addDestructor w.tbl x.nm body
      (({ w with tbl := r.1 } : World α).setCache x.tm r.2, r.2)

/-- `find_idtor`; the result is the value of `fmt.idtor` afterwards (it is "0" on entry) -/
def findIdtor (w : World α) (x : FindIn α) : World α × Nat :=
  match x.destructorName with
  | some dn => stmtBranch w dn x.stmtDtor
  | none =>
    if x.ownerDecision.1 = .library then (w, 0)
    else if !x.isPointer && !x.ownerDecision.2 then (w, 0)
    else regBranch w x

/-- does `find_idtor` treat the value as caller-owned dynamic memory? -/
def FindIn.callerOwned (x : FindIn α) : Bool :=
  match x.ownerAttr with
  | some .caller => x.isPointer
  | some .library => false
  | none => x.stmtOwner = some .caller

/-- what the registering branches assume about how the memory was obtained -/
def FindIn.regKind (x : FindIn α) : Kind :=
  match x.freePattern with
  | some (_, p) => .pat p
  | none => if x.cxxToC then .cxx x.ty else .pod

/-- what the generated release code assumes about how the memory was obtained -/
def FindIn.expectedKind (x : FindIn α) : Kind :=
  match x.destructorName with
  | some _ => match x.stmtDtor with
    | .del t => .cxx t
    | .free => .pod
    | .pattern p => .pat p
    | .nothing => .pod
  | none => x.regKind

/-! ## Run time: heap, handles, generated functions -/

structure Cell where
  kind  : Kind
  frees : Nat      -- how many times a deallocator was applied (live iff 0)
  lib   : Bool     -- owned by the library
  deriving Repr, DecidableEq

/-- `struct s_<C_capsule_data_type> { void *addr; int idtor; }` ; addr 0 = NULL -/
structure Cap where
  addr  : Nat
  idtor : Nat
  deriving Repr, DecidableEq

def upd {V : Type} (f : Nat → V) (a : Nat) (v : V) : Nat → V := fun x => if x = a then v else f x

structure St where
  heap : Nat → Cell          -- cells at addresses 1 .. next-1 are allocated
  next : Nat
  hs   : Nat → Cap           -- the caller's handle variables
  uaf  : Bool                -- a method read a freed object
  mismatch : Bool            -- a deallocator was applied to memory of another kind

def St.init : St := ⟨fun _ => ⟨.pod, 0, false⟩, 1, fun _ => ⟨0, 0⟩, false, false⟩

def St.live (s : St) (a : Nat) : Prop := (s.heap a).frees = 0

/-- allocate a fresh object (addresses are never reused in the model) -/
def St.alloc (s : St) (k : Kind) (lib : Bool) : St × Nat :=
  ({ s with heap := upd s.heap s.next ⟨k, 0, lib⟩, next := s.next + 1 }, s.next)

/-- apply deallocator `d` to address `a` (`delete NULL` / `free(NULL)` do nothing) -/
def St.freeAt (s : St) (a : Nat) (d : Dtor) : St :=
  if a = 0 then s
  else
    let c := s.heap a
    { s with heap := upd s.heap a { c with frees := c.frees + 1 },
             mismatch := s.mismatch || !(d.Matches c.kind) }

/-- the generated `switch (cap->idtor)`; `default:` and `case 0` do nothing -/
def St.runSwitch (tbl : List Dtor) (s : St) (c : Cap) : St :=
  match tbl[c.idtor]? with
  | none => s
  | some .nothing => s
  | some d => s.freeAt c.addr d

inductive Op where
  | construct (h ty idt : Nat)   -- `X_ctor(&h)`: `new T`; `h->addr = ptr; h->idtor = idt`
  | method (h : Nat)             -- `X_method(&h)`: reads `*h->addr`
  | copy (src dst : Nat)         -- `dst = src` (struct / derived-type assignment)
  | delete (h ty : Nat)          -- `X_dtor(&h)`: `delete SH_this; h->addr = nullptr`
  | release (h : Nat)            -- `SHROUD_memory_destructor(&h)`
  | owned (h : Nat) (k : Kind) (idt : Nat)   -- function result, owner(caller)
  | borrowed (h : Nat) (k : Kind)            -- function result, owner(library): idtor 0
  | temp (k : Kind) (idt : Nat)  -- call with an intermediate std::string/std::vector:
                                 -- `new`, context capsule {addr, idt}, copy helper releases it
  deriving Repr, DecidableEq

def St.setH (s : St) (h : Nat) (c : Cap) : St := { s with hs := upd s.hs h c }

def step (tbl : List Dtor) (s : St) : Op → St
  | .construct h ty idt =>
    let (s1, a) := s.alloc (.cxx ty) false
    s1.setH h ⟨a, idt⟩
  | .method h =>
    let a := (s.hs h).addr
    if a ≠ 0 ∧ (s.heap a).frees ≠ 0 then { s with uaf := true } else s
  | .copy src dst => s.setH dst (s.hs src)
  | .delete h ty =>
    let c := s.hs h
    (s.freeAt c.addr (.del ty)).setH h ⟨0, c.idtor⟩
  | .release h =>
    (s.runSwitch tbl (s.hs h)).setH h ⟨0, 0⟩
  | .owned h k idt =>
    let (s1, a) := s.alloc k false
    s1.setH h ⟨a, idt⟩
  | .borrowed h k =>
    let (s1, a) := s.alloc k true
    s1.setH h ⟨a, 0⟩
  | .temp k idt =>
    let (s1, a) := s.alloc k false
    -- the context capsule lives in the wrapper's caller frame only; released by the copy helper
    s1.runSwitch tbl ⟨a, idt⟩

def run (tbl : List Dtor) (s : St) (hist : List Op) : St := hist.foldl (step tbl) s

/-- handles an operation writes or reads -/
def Op.touches : Op → List Nat
  | .construct h _ _ => [h]
  | .method h => [h]
  | .copy s d => [s, d]
  | .delete h _ => [h]
  | .release h => [h]
  | .owned h _ _ => [h]
  | .borrowed h _ => [h]
  | .temp _ _ => []

/-- the idtor constants written by the generated code release memory of the right kind -/
def Op.WellTyped (tbl : List Dtor) : Op → Prop
  | .construct _ ty idt => idt = 0 ∨ tbl[idt]? = some (.del ty)
  | .owned _ k idt => ∃ d, tbl[idt]? = some d ∧ d ≠ .nothing ∧ d.Matches k = true
  | .temp k idt => ∃ d, tbl[idt]? = some d ∧ d ≠ .nothing ∧ d.Matches k = true
  | .delete _ _ => True
  | _ => True

/-- the behaviour of `write_capsule_code` before it reset the handle (for the sensitivity witness) -/
def stepNoReset (tbl : List Dtor) (s : St) : Op → St
  | .release h => s.runSwitch tbl (s.hs h)
  | op => step tbl s op

/-! ## The copy-then-release helper `<C_prefix>ShroudCopyArray`

```
const void *cxx_var = data->addr.base;
int n = c_var_size < data->size ? c_var_size : data->size;
n *= data->elem_len;
memcpy(c_var, cxx_var, n);
<C_memory_dtor_function>(&data->cxx);
```
Buffers are byte lists; an access outside a buffer is `none` (undefined behaviour). -/

/-- `memcpy(dest, src, n)`: reads `src[0,n)`, writes `dest[0,n)` -/
def memcpy (dest src : List Nat) (n : Nat) : Option (List Nat) :=
  if n ≤ src.length ∧ n ≤ dest.length then some (src.take n ++ dest.drop n) else none

/-- number of bytes `ShroudCopyArray` copies (destination of `destSize` elements, vector of
    `srcSize` elements of `elemLen` bytes) -/
def copyCount (destSize srcSize elemLen : Nat) : Nat :=
  (if destSize < srcSize then destSize else srcSize) * elemLen

def copyArray (dest src : List Nat) (destSize srcSize elemLen : Nat) : Option (List Nat) :=
  memcpy dest src (copyCount destSize srcSize elemLen)

/-- the clamp taken the wrong way round (for the sensitivity witness) -/
def copyCountMax (destSize srcSize elemLen : Nat) : Nat :=
  (if srcSize < destSize then destSize else srcSize) * elemLen

end Shroud.Capsule
