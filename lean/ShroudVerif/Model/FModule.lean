import ShroudVerif.Model.Helpers
/-
Model of the Fortran USE / IMPORT bookkeeping of wrapf.py (engine for C05, DESIGN item 4).  Core Lean only.

    modules : { module name : { symbol : True } }      imports : { symbol : True }

* `Wrapf.update_f_module(modules, imports, f_module)`: for every `mname -> only` of the dict `f_module`
  (the key `__line__` of the YAML loader is skipped by the harness): `--import--` adds `only` to `imports`,
  any other name does `module = modules.setdefault(mname, {})` and `module[o] = True` for every `o`.
* `Wrapf.update_f_module_line(modules, imports, line, fmt)`: `line` is formatted, split at `;`, `:` and `,`
  (done by the harness / translator) and merged the same way; `--import--` gets no special treatment there
  and `imports` is not touched (as coded).
* `Wrapf.set_f_module(modules, mname, *only)` is `update_f_module` with a one-entry dict.
* `Wrapf.sort_module_info(modules, module_name, imports)`: modules in sorted order; the module being written
  contributes its symbols to `imports`; a module with an EMPTY symbol dict gives `use m` (no ONLY clause),
  otherwise `use m, only : <sorted symbols>`.
Module and symbol names are interned as Nat in Python's sorted order.
-/
namespace Shroud.FModule
open Shroud.Helpers (sortNat insertSorted)

abbrev Mods := List (Nat × List Nat)

/-- `for s in syms: d[s] = True` on an insertion-ordered dict -/
def insertAll (ss : List Nat) : List Nat → List Nat
  | [] => ss
  | s :: rest => insertAll (if s ∈ ss then ss else ss ++ [s]) rest

/-- `module = modules.setdefault(m, {}); for s in syms: module[s] = True` -/
def addSyms (m : Nat) (syms : List Nat) : Mods → Mods
  | [] => [(m, insertAll [] syms)]
  | (k, ss) :: rest => if k = m then (k, insertAll ss syms) :: rest else (k, ss) :: addSyms m syms rest

def symsOf (M : Mods) (m : Nat) : List Nat := (M.lookup m).getD []
def hasMod (M : Mods) (m : Nat) : Bool := (M.lookup m).isSome

structure St where
  mods : Mods
  imports : List Nat
  deriving Repr, DecidableEq

/-- `update_f_module`; `imp` is the id of the name `--import--` -/
def updateFModule (imp : Nat) (st : St) : List (Nat × List Nat) → St
  | [] => st
  | (m, only) :: rest =>
    updateFModule imp
      (if m = imp then { st with imports := insertAll st.imports only }
       else { st with mods := addSyms m only st.mods }) rest

/-- `update_f_module_line` after formatting and splitting -/
def updateFModuleLine (st : St) : List (Nat × List Nat) → St
  | [] => st
  | (m, syms) :: rest => updateFModuleLine { st with mods := addSyms m syms st.mods } rest

/-- one bookkeeping call -/
inductive Upd where
  | dict (fm : List (Nat × List Nat))
  | line (uses : List (Nat × List Nat))
  deriving Repr, DecidableEq

def applyUpd (imp : Nat) (st : St) : Upd → St
  | .dict fm => updateFModule imp st fm
  | .line us => updateFModuleLine st us

def runUpds (imp : Nat) (st : St) (us : List Upd) : St := us.foldl (applyUpd imp) st

/-- `sort_module_info(modules, module_name, imports)`: (use lines, imports); a line is
    (module, none) for `use m` and (module, some syms) for `use m, only : syms` -/
def sortModuleInfo (st : St) (self : Nat) : List (Nat × Option (List Nat)) × List Nat :=
  let ks := sortNat (st.mods.map Prod.fst)
  (ks.filterMap fun m =>
      if m = self then none
      else
        let ss := symsOf st.mods m
        if ss.isEmpty then some (m, none) else some (m, some (sortNat ss)),
   if hasMod st.mods self then insertAll st.imports (symsOf st.mods self) else st.imports)

/-- table check: every needed symbol is among the provided ones -/
def coveredB (emitter : List Nat) (rows : List (Nat × Nat × List Nat × List Nat × List Nat)) : Bool :=
  rows.all fun r =>
    r.2.2.1.all fun s => r.2.2.2.1.contains s || r.2.2.2.2.contains s || (r.2.1 == 1 && emitter.contains s)

end Shroud.FModule
