/-
Model of the list-mode conversion helpers of `shroud/whelpers.py` (C text generated per element type):

  get_from_object_<T>_list   (create_get_from_object_list)   sequence -> malloc'ed C array owned by a capsule
  fill_from_PyObject_<T>_list (fill_from_PyObject_list)       scalar broadcast / sequence -> existing C array
  to_PyList_<T>               (create_to_PyList)              C array -> list
  get_from_object_char                                         str / bytes / None -> char *
  get_from_object_charptr                                      sequence of those -> char ** (strdup'ed items)

`conv` is the element converter (`PY_get`: `PyInt_AsLong`, `PyFloat_AsDouble`, ...), `none` = it raised.
The heap bookkeeping counts what the C text allocates and releases: blocks still owned by nobody (`live`),
blocks owned by the capsule handed to the caller (`owned`, released by `Py_XDECREF(value.dataobj)`), and
references to the `PySequence_Fast` result still held (`seqRefs`).  Core Lean only.
-/
namespace Shroud.PyList

/-- what the helper is given. -/
inductive Obj (α : Type) where
  | seq (items : List α)       -- list / tuple / any iterable `PySequence_Fast` accepts
  | atom (v : α)               -- not iterable
  deriving Repr

structure Heap where
  live : Nat
  owned : Nat
  seqRefs : Nat
  deriving DecidableEq, Repr

inductive Err where
  | notIterable            -- "argument '%s' must be iterable"
  | badItem (index : Nat)  -- "argument '%s', index %d must be <T>"
  deriving DecidableEq, Repr

/-- both errors are raised as `TypeError`. -/
inductive Out (β : Type) where
  | ok (arr : List β) (h : Heap)
  | typeError (e : Err) (h : Heap)
  deriving Repr

/-- the conversion loop: items in order, stop at the first item the converter rejects. -/
def convertFrom (conv : α → Option β) : Nat → List α → List β → Except Nat (List β)
  | _, [], acc => .ok acc.reverse
  | i, a :: r, acc =>
    match conv a with
    | some b => convertFrom conv (i + 1) r (b :: acc)
    | none => .error i

/-- The element converters (`PyInt_AsLong`, `PyFloat_AsDouble`, ...) accept by the *type* of the item; its value
(payload) passes through unchanged and plays no part - in particular -1, 0 and the extremes, which the C functions
also use as error returns, convert like every other value (the helpers ask `PyErr_Occurred()`). An item is a
(class tag, payload) pair. -/
def classConv (accepts : List Nat) (v : Nat × Nat) : Option Nat :=
  if accepts.contains v.1 then some v.2 else none

/-- `get_from_object_<T>_list`. -/
def getFromObjectList (conv : α → Option β) : Obj α → Out β
  | .atom _ => .typeError .notIterable ⟨0, 0, 0⟩                    -- PySequence_Fast failed, nothing allocated
  | .seq items =>
    -- seq = PySequence_Fast (+1 ref); in = malloc (+1 live)
    match convertFrom conv 0 items [] with
    | .error i => .typeError (.badItem i) ⟨1 - 1, 0, 1 - 1⟩          -- free(in); Py_DECREF(seq)
    | .ok arr => .ok arr ⟨1 - 1, 1, 1 - 1⟩                           -- Py_DECREF(seq); capsule owns `in`

/-- `fill_from_PyObject_<T>_list(obj, name, in, insize)`: `buf` is the existing array. -/
def fillFromObjectList (conv : α → Option β) (buf : List β) : Obj α → Out β
  | .atom v =>
    match conv v with
    | some b => .ok (List.replicate buf.length b) ⟨0, 0, 0⟩           -- broadcast scalar
    | none => .typeError .notIterable ⟨0, 0, 0⟩
  | .seq items =>
    match convertFrom conv 0 (items.take buf.length) [] with
    | .error i => .typeError (.badItem i) ⟨0, 0, 1 - 1⟩
    | .ok arr => .ok (arr ++ buf.drop arr.length) ⟨0, 0, 1 - 1⟩

/-- `to_PyList_<T>`. -/
def toPyList (ctor : β → α) (arr : List β) : List α := arr.map ctor

/-- the objects `get_from_object_char` distinguishes. -/
inductive CharObj where
  | str (s : List Nat)
  | bytes (s : List Nat)
  | none
  | other
  deriving DecidableEq, Repr

/-- `get_from_object_char`: data (or NULL) plus whether `value.dataobj` holds a reference to release. -/
def getFromObjectChar : CharObj → Option (Option (List Nat) × Bool)
  | .str s => some (some s, true)       -- new bytes object, reference stolen into dataobj
  | .bytes s => some (some s, true)     -- Py_INCREF(obj)
  | .none => some (Option.none, false)
  | .other => Option.none               -- TypeError

/-- a cell of a fixed-size `char` member after `fill_from_PyObject_char(obj, name, in, insize)`. -/
inductive Cell where
  | chr (c : Nat)      -- a character of the argument
  | nul                -- '\0' written by the helper (terminator or strncpy padding)
  | old (i : Nat)      -- untouched: what cell i held before
  deriving DecidableEq, Repr

/-- `strncpy(in, s, cap)`: the first `cap` characters, then zero padding up to `cap`; never more than `cap` cells. -/
def strncpyCells (s : List Nat) (cap : Nat) : List Cell :=
  (s.take cap).map Cell.chr ++ List.replicate (cap - s.length) Cell.nul

/-- `fill_from_PyObject_char` on a member of `cap` cells (`cap` = the declared array size): a string is copied
with `strncpy(in, data, insize)`, `None` stores an empty string (`in[0] = 0`), anything else is `TypeError`. -/
def fillChar (cap : Nat) : CharObj → Option (List Cell)
  | .str s => some (strncpyCells s cap)
  | .bytes s => some (strncpyCells s cap)
  | .none => some (match cap with
      | 0 => []
      | n + 1 => Cell.nul :: (List.range n).map (fun i => Cell.old (i + 1)))
  | .other => Option.none

/-- what the getter of the member may read: up to the first NUL, never past the member. -/
def readCells : List Cell → List Cell
  | [] => []
  | Cell.nul :: _ => []
  | c :: r => c :: readCells r

def charConv (o : CharObj) : Option (Option (List Nat)) := (getFromObjectChar o).map (·.1)

end Shroud.PyList
