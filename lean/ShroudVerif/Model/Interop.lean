/-!
# Model for C04: C prototypes and Fortran `bind(C)` interfaces built from the same `buf_args`

* `ParamC`  – class of one parameter of a C prototype (LP64 sizes)
* `DummyF`  – class of one dummy argument of a Fortran interface body
* `interop` – Fortran 2018 section 18.3 (interoperability of procedures, 18.3.6, with the
  type tables of 18.3.1-18.3.4).  Signedness is recorded but not distinguished: Fortran has
  no unsigned integers and the signed kind stands for both (18.3.1 NOTE).
* `protoOne` / `ifaceOne` mirror one iteration of the `for buf_arg in buf_args` loops of
  `wrapc.Wrapc.build_proto_list` and `wrapf.Wrapf.build_arg_list_interface`;
  `protoList` / `ifaceList` fold them over the SAME list of (argument, buf_args).

Core Lean only.
-/
namespace Shroud.Interop

/-- base type of a C parameter, LP64 -/
inductive CBase
  | int (bytes : Nat) (signed : Bool)
  | float (bytes : Nat)
  | complex (bytes : Nat)
  | bool
  | char
  | void
  | struct (id : Nat)
  | cdesc            -- CFI_cdesc_t
  | funptr           -- ret (*name)(params)
  deriving DecidableEq, Repr

/-- one C parameter: base type and pointer depth (`&` and `[]` count as one level); by value iff `ptr = 0` -/
structure ParamC where
  base : CBase
  ptr : Nat
  deriving DecidableEq, Repr

def ParamC.byValue (p : ParamC) : Bool := p.ptr == 0

/-- type of a Fortran dummy argument -/
inductive FBase
  | integer (bytes : Nat)
  | real (bytes : Nat)
  | complex (bytes : Nat)
  | logical (bytes : Nat)
  | character          -- character(kind=C_CHAR), length 1
  | cptr               -- type(C_PTR)
  | cfunptr            -- type(C_FUNPTR)
  | derived (id : Nat) -- type(name), bind(C)
  | assumedType        -- type(*)
  | procedure          -- procedure(iface)
  deriving DecidableEq, Repr

/-- `array`: assumed-size or explicit-shape (address of the first element);
    `desc`: assumed-shape, assumed-rank, allocatable, pointer or character(len=*) – a CFI descriptor -/
inductive FShape
  | scalar | array | desc
  deriving DecidableEq, Repr

structure DummyF where
  base : FBase
  value : Bool
  shape : FShape
  deriving DecidableEq, Repr

/-- an object of the C base type is interoperable with an object of the Fortran type (18.3.1-18.3.4) -/
def baseMatch : CBase → FBase → Bool
  | .int n _, .integer m => n == m
  | .float n, .real m => n == m
  | .complex n, .complex m => n == m
  | .bool, .logical m => m == 1
  | .char, .character => true
  | .struct i, .derived j => i == j
  | _, _ => false

/-- **the interoperability table** (18.3.6): C parameter versus Fortran dummy argument -/
def interop (p : ParamC) (d : DummyF) : Bool :=
  match d.shape with
  | .desc => p.base == .cdesc && p.ptr == 1 && !d.value
  | sh =>
    if p.base == .cdesc then false
    else if d.base == .procedure then p.base == .funptr && !d.value
    else if p.base == .funptr then d.base == .cfunptr && d.value && p.ptr == 0
    else if d.value then
      sh == .scalar && (if p.ptr == 0 then baseMatch p.base d.base else d.base == .cptr)
    else if p.ptr == 0 then false
    else if p.ptr ≥ 2 then d.base == .cptr
    else p.base == .void || d.base == .assumedType || baseMatch p.base d.base

/-! ## what the two builders read -/

inductive Buf
  | arg | shadow | argDecl | size | capsule | context | lenTrim | len
  deriving DecidableEq, Repr

/-- a `c_arg_decl` template: either built from the argument's own type with a fixed pointer depth
    (`{cxx_type} **{cxx_var}`) or a fixed class (`char *{c_var}`, `CFI_cdesc_t *{c_var}`) -/
inductive CDeclT
  | argType (ptr : Nat)
  | fixed (p : ParamC)
  deriving DecidableEq, Repr

/-- an `f_arg_decl` template: fixed class, or `{f_type}, intent(..) :: {c_var}{f_c_dimension}` -/
inductive FDeclT
  | fixed (d : DummyF)
  | fType (value : Bool)
  | fixedDim (base : FBase) (value : Bool)   -- `type(C_PTR), intent(IN) :: {c_var}{f_c_dimension}`
  deriving DecidableEq, Repr

/-- everything `build_proto_list` / `build_arg_list_interface` read from one `ast` and its typemap -/
structure Arg where
  cbase : CBase        -- class of c_type of the (template-resolved) typemap
  fbase : FBase        -- class of (f_c_type or f_type) of the same typemap          (bind_c)
  ftbase : FBase       -- class of f_type of the same typemap                         ({f_type})
  scbase : CBase       -- class of ast.typemap.c_type                                 (shadow)
  sfbase : FBase       -- class of ast.typemap.f_c_type                               (shadow)
  ptr : Nat            -- pointers + references of the declarator, +1 for `[]`        (gen_arg_as_c)
  value : Bool         -- attrs["value"]
  farray : Bool        -- bind_c appends `(*)`: vector/string base, dimension, rank>0, allocatable
  assumedtype : Bool   -- attrs["assumedtype"]
  atArray : Bool       -- ... with rank or dimension
  funptr : Bool        -- ast.is_function_pointer()
  fcDim : FShape       -- fmt.f_c_dimension: "" scalar, "(*)" array, "(..)" desc
  deriving DecidableEq, Repr

structure Item where
  a : Arg
  bufs : List Buf
  cdecl : List CDeclT  -- intent_blk.c_arg_decl
  fdecl : List FDeclT  -- intent_blk.f_arg_decl
  deriving Repr

def capsuleId : Nat := 1
def contextId : Nat := 2

def cdeclOf (a : Arg) : CDeclT → ParamC
  | .argType n => ⟨a.cbase, n⟩
  | .fixed p => p

def fdeclOf (a : Arg) : FDeclT → DummyF
  | .fixed d => d
  | .fType v => ⟨a.ftbase, v, a.fcDim⟩
  | .fixedDim b v => ⟨b, v, a.fcDim⟩

/-- `gen_arg_as_c`: a function pointer prints `ret (*name)(...)`, otherwise type + declarator -/
def argC (a : Arg) : ParamC :=
  if a.funptr then ⟨.funptr, 0⟩ else ⟨a.cbase, a.ptr⟩

/-- the `buf_arg == "arg"` branch of `build_arg_list_interface` (assumedtype / function pointer /
    `is_array() > 1` / `bind_c`) -/
def argF (a : Arg) : DummyF :=
  if a.assumedtype then ⟨.assumedType, false, if a.atArray then .array else .scalar⟩
  else if a.funptr then ⟨.procedure, false, .scalar⟩
  else if a.ptr > 1 then ⟨.cptr, false, .scalar⟩
  else ⟨a.fbase, a.value, if a.farray then .array else .scalar⟩

/-- one iteration of the loop in `Wrapc.build_proto_list` -/
def protoOne (it : Item) : Buf → List ParamC
  | .arg => [argC it.a]
  | .shadow => [⟨it.a.scbase, if it.a.value then 0 else 1⟩]
  | .argDecl => it.cdecl.map (cdeclOf it.a)
  | .size => [⟨.int 8 true, 0⟩]                    -- "long {c_var_size}"
  | .capsule => [⟨.struct capsuleId, 1⟩]           -- "{C_capsule_data_type} *{c_var_capsule}"
  | .context => [⟨.struct contextId, 1⟩]           -- "{C_array_type} *{c_var_context}"
  | .lenTrim => [⟨.int 4 true, 0⟩]                 -- "int {c_var_trim}"
  | .len => [⟨.int 4 true, 0⟩]                     -- "int {c_var_len}"

/-- one iteration of the loop in `Wrapf.build_arg_list_interface` (the declarations it appends) -/
def ifaceOne (it : Item) : Buf → List DummyF
  | .arg => [argF it.a]
  | .shadow => [⟨it.a.sfbase, it.a.value, .scalar⟩]
  | .argDecl => it.fdecl.map (fdeclOf it.a)
  | .size => [⟨.integer 8, true, .scalar⟩]         -- integer(C_LONG), value
  | .capsule => [⟨.derived capsuleId, false, .scalar⟩]
  | .context => [⟨.derived contextId, false, .scalar⟩]
  | .lenTrim => [⟨.integer 4, true, .scalar⟩]      -- integer(C_INT), value
  | .len => [⟨.integer 4, true, .scalar⟩]

/-- number of dummy-argument NAMES `build_arg_list_interface` appends for one buf_arg
    (`arg_decl` appends one name whatever the number of declarations) -/
def ifaceNames (_it : Item) : Buf → Nat
  | _ => 1

def protoItem (it : Item) : List ParamC := it.bufs.flatMap (protoOne it)
def ifaceItem (it : Item) : List DummyF := it.bufs.flatMap (ifaceOne it)

/-- the `this` argument both builders put first for a non-static, non-constructor method -/
def thisC : ParamC := ⟨.struct capsuleId, 1⟩
def thisF : DummyF := ⟨.derived capsuleId, false, .scalar⟩

/-- C prototype parameter classes of a function: [this] ++ result.buf_args ++ arguments ++ result.buf_extra;
    the caller passes the items in that order (both emitters use that order) -/
def protoList (this : Bool) (items : List Item) : List ParamC :=
  (if this then [thisC] else []) ++ items.flatMap protoItem

def ifaceList (this : Bool) (items : List Item) : List DummyF :=
  (if this then [thisF] else []) ++ items.flatMap ifaceItem

def nameCount (this : Bool) (items : List Item) : Nat :=
  (if this then 1 else 0) + (items.map (fun it => (it.bufs.map (ifaceNames it)).sum)).sum

/-! ## side conditions under which the pairing is interoperable -/

/-- the `value` attribute as `check_arg_attrs` leaves it when the user does not override it:
    set exactly for arguments without indirection, and for `void *` -/
def valueDefault (a : Arg) : Bool :=
  if a.ptr == 0 then a.value
  else if a.value then a.ptr == 1 && a.cbase == .void && a.fbase == .cptr
  else true

/-- a C base type a typemap can name (not a descriptor, not a function pointer) -/
def ordinary : CBase → Bool
  | .cdesc => false
  | .funptr => false
  | _ => true

/-- one argument is consistent: its typemap row is (table theorem `typemap_rows_ok`), `value`
    follows the declarator, assumed-type and rank attributes sit on pointers, and a by-value
    argument is not declared as an array -/
def argOK (a : Arg) : Bool :=
  if a.funptr then !a.assumedtype
  else if a.assumedtype then a.ptr == 1 && ordinary a.cbase
  else if a.ptr > 1 then ordinary a.cbase
  else valueDefault a
       && (baseMatch a.cbase a.fbase || (a.ptr == 1 && a.cbase == .void && a.fbase == .cptr)
           || (a.ptr == 0 && a.cbase == .funptr && a.fbase == .cfunptr))   -- by-value argument of a function-pointer typedef type
       && (!a.value || !a.farray)

def shadowOK (a : Arg) : Bool := baseMatch a.scbase a.sfbase

/-- pairwise relation on two lists (core has no `List.Forall₂`) -/
def all2 (r : α → β → Bool) : List α → List β → Bool
  | [], [] => true
  | x :: xs, y :: ys => r x y && all2 r xs ys
  | _, _ => false

/-- the statement entry's explicit declarations pair up: exactly one C declaration, one Fortran
    declaration (one dummy name is appended), interoperable for this argument -/
def declOK (it : Item) : Bool :=
  it.cdecl.length == 1 && it.fdecl.length == 1 &&
    all2 interop (it.cdecl.map (cdeclOf it.a)) (it.fdecl.map (fdeclOf it.a))

def bufOK (it : Item) : Buf → Bool
  | .arg => argOK it.a
  | .shadow => shadowOK it.a
  | .argDecl => declOK it
  | _ => true

def itemOK (it : Item) : Bool := it.bufs.all (bufOK it)


/-! ## explicit declaration lists and user overrides

`buf_args: [arg_decl]` makes both builders read explicit lists from the statement block: `Wrapc.build_proto_list` appends one
parameter per `c_arg_decl` element, `Wrapf.build_arg_list_interface` appends ONE dummy name (`F_C_var`) and one declaration per
`f_arg_decl` element.  The block is the entry of the statement table, or - for the function result - that entry updated by the
user's `fstatements: {c | c_buf | c_cfi: {...}}` (`statements.lookup_local_stmts`, mode update; both builders look the same key
up).  `options: {C_prototype: ..., F_C_arguments: ...}` replace the whole C parameter list / the whole dummy NAME list. -/

/-- the variable a declaration template names: `{c_var}`, `{cxx_var}`, or something else (a literal, another field) -/
inductive NameT
  | cVar | cxxVar | other
  deriving DecidableEq, Repr

/-- the name a template expands to; `lit` stands for anything that is not one of the two fields -/
def NameT.expand (cvar cxxvar lit : Nat) : NameT → Nat
  | .cVar => cvar | .cxxVar => cxxvar | .other => lit

/-- **lists of equal length, pairwise interoperable declarations, same names in the same order**: the i-th C declaration names the
    wrapper's variable, the i-th Fortran declaration declares `{c_var}` (formatted with `c_var=F_C_var`, the dummy name appended) -/
def declListsOK (a : Arg) (c : List CDeclT) (f : List FDeclT) (cn fn : List NameT) : Bool :=
  all2 interop (c.map (cdeclOf a)) (f.map (fdeclOf a))
  && cn.length == c.length && fn.length == f.length
  && all2 (fun x y => x != .other && y == .cVar) cn fn

/-- a user `fstatements` block (mode update): a field that is given replaces the entry's -/
structure UserBlk where
  bufs : Option (List Buf)
  cdecl : Option (List CDeclT)
  fdecl : Option (List FDeclT)
  deriving Repr

/-- `blk.reparent(parent)`: lookups fall through to the entry for fields the user did not give -/
def applyUser (it : Item) (u : UserBlk) : Item :=
  ⟨it.a, u.bufs.getD it.bufs, u.cdecl.getD it.cdecl, u.fdecl.getD it.fdecl⟩

/-- `options.get("C_prototype", generated)` / `options.get("F_C_arguments", generated)` -/
def overrideList (user : Option (List α)) (generated : List α) : List α := user.getD generated

/-- the C parameter list and the interface with the whole-list overrides: the interface's DECLARATIONS stay the generated ones,
    only the dummy-name list in the subroutine/function statement is replaced -/
def protoFinal (uP : Option (List ParamC)) (this : Bool) (items : List Item) : List ParamC :=
  overrideList uP (protoList this items)

/-- dummy names of the statement versus names the declarations declare (ids; generated: the same list) -/
def namesFinal (uN : Option (List Nat)) (declared : List Nat) : List Nat := overrideList uN declared

/-- the admissible overrides: the user's parameter list is pairwise interoperable with the generated dummies, the user's
    dummy-name list is the list of declared names in the same order (Shroud checks neither) -/
def overrideOK (uP : Option (List ParamC)) (uN : Option (List Nat)) (this : Bool) (items : List Item) (declared : List Nat) : Bool :=
  (match uP with | none => true | some ps => all2 interop ps (ifaceList this items))
  && (match uN with | none => true | some ns => ns == declared)

/-! ## callbacks: the abstract interface of a function-pointer argument (`Wrapf.dump_abstract_interfaces`)
    against the parameter list `gen_arg_as_c` prints inside the C function-pointer type -/

/-- one callback parameter as printed in the C function-pointer type (`gen_arg_as_c` prints a parameter that is
    itself a function pointer as `ret (*name)(...)`, whatever its own parameter list) -/
def cbArgC (a : Arg) : ParamC := if a.funptr then ⟨.funptr, 0⟩ else ⟨a.cbase, a.ptr⟩

/-- one callback parameter in the abstract interface: a callback taking a callback -> `type(C_FUNPTR), value`
    (/repo 81aee60; before: `bind_c` of the inner function's result type), `is_array() > 1` -> `type(C_PTR)`,
    otherwise `bind_c` -/
def cbArgF (a : Arg) : DummyF :=
  if a.funptr then ⟨.cfunptr, true, .scalar⟩
  else if a.ptr > 1 then ⟨.cptr, false, .scalar⟩
  else ⟨a.fbase, a.value, if a.farray then .array else .scalar⟩

def cbProto (ps : List Arg) : List ParamC := ps.map cbArgC
def cbIface (ps : List Arg) : List DummyF := ps.map cbArgF

/-- the signature of a callback as a tree: a parameter is an ordinary argument or again a callback with its own
    parameter list, to any depth (`int (*outer)(int a, int (*inner)(double z, void (*leaf)(void)))`) -/
inductive CbP
  | plain (a : Arg)
  | cb (ps : List CbP)

/-- nesting depth of one parameter (0 for an ordinary argument) -/
def CbP.depth : CbP → Nat
  | .plain _ => 0
  | .cb ps => 1 + depthList ps
where depthList : List CbP → Nat
  | [] => 0
  | p :: ps => max p.depth (depthList ps)

/-- C class of one parameter of the tree, as printed inside the function-pointer type; `dump_abstract_interfaces`
    reads from a nested callback only that it is a function pointer: its parameter list is printed on the C side
    (inside the function-pointer type) and nowhere in Fortran -/
def cbTreeC : CbP → ParamC
  | .plain a => cbArgC a
  | .cb _ => ⟨.funptr, 0⟩

/-- the abstract interface's dummy for one parameter of the tree -/
def cbTreeF : CbP → DummyF
  | .plain a => cbArgF a
  | .cb _ => ⟨.cfunptr, true, .scalar⟩

/-- every ordinary parameter, at every depth of the tree, satisfies `ok` -/
def CbP.all (ok : Arg → Bool) : CbP → Bool
  | .plain a => ok a
  | .cb ps => allList ok ps
where allList (ok : Arg → Bool) : List CbP → Bool
  | [] => true
  | p :: ps => p.all ok && allList ok ps

/-- C return type versus Fortran function result (18.3.6 (2)): scalar, a pointer pairs with `type(C_PTR)`, a
    function pointer (result of a function-pointer typedef type) with `type(C_FUNPTR)` -/
def resInterop (c : ParamC) (f : DummyF) : Bool :=
  f.shape == .scalar && !f.value &&
    (if c.ptr ≥ 1 then f.base == .cptr else (baseMatch c.base f.base || (c.base == .funptr && f.base == .cfunptr)))

/-- result declaration of the abstract interface: `type(C_PTR)` for void / pointer results, else `f_c_type or f_type` -/
def cbResF (cb : CBase) (ptr : Nat) (fb : FBase) : DummyF :=
  if cb == .void || ptr ≥ 1 then ⟨.cptr, false, .scalar⟩ else ⟨fb, false, .scalar⟩



/-! ## function result: `C_return_type` in `Wrapc.wrap_function` against the result declaration (or the choice of
    `subroutine`) in `Wrapf.wrap_function_interface` -/

/-- everything the two emitters read to choose the result type.  The C side reads its result entry (`result_blk`), the
    Fortran side its own (`c_result_blk`, looked up through the `result` path; same interface signature by the table
    theorem `result_paths_agree`) -/
structure ResultSpec where
  subroutine : Bool            -- ast.get_subprogram() == "subroutine"
  cbase : CBase                -- class of result typemap c_type
  fbase : FBase                -- class of (f_c_type or f_type)                        (bind_c)
  ptr : Nat                    -- indirections of the result declarator               (gen_arg_as_c)
  farray : Bool                -- bind_c would append `(*)`
  derefScalar : Bool           -- metaattrs["deref"] == "scalar"                      (wrapc: as_scalar)
  derefPtr : Bool              -- metaattrs["deref"] in pointer / allocatable / raw   (wrapf: type(C_PTR))
  retTypeC : Option ParamC     -- C entry: return_type formatted and classified
  hasRetF : Bool               -- Fortran entry: return_type is set
  retTypeF : Option FBase      -- ... class of typemap.lookup_type(return_type).f_type (none: no such type)
  returnCptr : Bool            -- Fortran entry: return_cptr
  resultDecl : Option DummyF   -- Fortran entry: f_result_decl
  deriving Repr

/-- `fmt_func.C_return_type` -/
def resultC (r : ResultSpec) : ParamC :=
  match r.retTypeC with
  | some p => p
  | none => if r.derefScalar then ⟨r.cbase, 0⟩ else ⟨r.cbase, r.ptr⟩

/-- `F_C_subprogram == "function"`: the declaration is a function, or the entry changes a subroutine into one -/
def isFunctionF (r : ResultSpec) : Bool := !r.subroutine || r.hasRetF

/-- the result declaration of the interface body, `none` for a subroutine; order of precedence as in the code -/
def resultF (r : ResultSpec) : Option DummyF :=
  if !isFunctionF r then none
  else some (
    match r.resultDecl with
    | some d => d
    | none =>
      if r.returnCptr then ⟨.cptr, false, .scalar⟩
      else if r.hasRetF then ⟨r.retTypeF.getD .procedure, false, .scalar⟩   -- lookup_type failing is not interoperable
      else if r.derefPtr then ⟨.cptr, false, .scalar⟩
      else ⟨r.fbase, false, if r.farray then .array else .scalar⟩)

def isVoidC (p : ParamC) : Bool := p.base == .void && p.ptr == 0

/-- C return type against `subroutine` / function result (18.3.6 (2)) -/
def resInteropOpt (c : ParamC) : Option DummyF → Bool
  | none => isVoidC c
  | some f => !isVoidC c && resInterop c f

/-- side conditions: the two entries are consistent about a forced return type (table theorems `all_entries_ok`,
    `result_paths_agree`), the declaration is a subroutine exactly when it returns plain `void`, a pointer result is
    `type(C_PTR)` on the Fortran side, a scalar result has an interoperable typemap row and is not declared an array -/
def resultOK (r : ResultSpec) : Bool :=
  match r.retTypeC with
  | some p =>
    if isVoidC p then r.subroutine && !r.hasRetF                       -- destructor entry
    else r.resultDecl.isNone && isFunctionF r &&
         (if p.ptr ≥ 1 then r.returnCptr || (r.hasRetF && r.retTypeF == some .cptr)
          else !r.returnCptr && r.hasRetF &&
               (match r.retTypeF with | some fb => baseMatch p.base fb | none => false))
  | none =>
    !r.hasRetF && r.subroutine == (r.cbase == .void && r.ptr == 0) &&
    (r.subroutine ||
      (let cptr := if r.derefScalar then 0 else r.ptr
       match r.resultDecl with
       | some d => resInterop ⟨r.cbase, cptr⟩ d
       | none =>
         if r.returnCptr || r.derefPtr then cptr ≥ 1
         else !r.farray && (if cptr ≥ 1 then r.fbase == .cptr
                            else (baseMatch r.cbase r.fbase || (r.cbase == .funptr && r.fbase == .cfunptr)))))

/-! ## user structs: `Wrapc.wrap_struct` (C copy of the struct) and `Wrapf.wrap_struct` (bind(C) derived type)
    walk the same `node.variables` list -/

/-- what the two emitters read from one member declaration -/
structure Member where
  cbase : CBase      -- class of typemap.c_type
  fbase : FBase      -- class of (f_c_type or f_type)   (gen_arg_as_fortran(bindc=True); `character(kind=C_CHAR)` for char)
  ptr : Nat          -- ast.is_indirect()
  dims : List Nat    -- array extents in C (row-major) order, [] for a scalar member
  deriving DecidableEq, Repr

structure FieldC where
  base : CBase
  ptr : Nat
  dims : List Nat    -- extents as written in C
  deriving DecidableEq, Repr

structure FieldF where
  base : FBase
  dims : List Nat    -- extents as written in Fortran
  deriving DecidableEq, Repr

/-- type of a non-pointer member: an interoperable object type, or a function-pointer member (a member whose type
    is a `typedef ret (*name)(...)`; a function declarator written directly in the struct is rejected by
    `ast.VariableNode`: "Arguments given to variable") against a `type(C_FUNPTR)` component (18.3.3) -/
def memberMatch (c : CBase) (f : FBase) : Bool :=
  baseMatch c f || (c == .funptr && f == .cfunptr)

/-- struct member versus derived-type component (18.3.4, 18.3.5): the extents in reverse order (C is row-major,
    Fortran column-major); a pointer member pairs with
    `type(C_PTR)`; otherwise an interoperable type or a function pointer against `type(C_FUNPTR)` -/
def fieldInterop (c : FieldC) (f : FieldF) : Bool :=
  c.dims.reverse == f.dims && (if c.ptr ≥ 1 then f.base == .cptr else memberMatch c.base f.base)

/-- `ast.gen_arg_as_c() + ";"` -/
def memberC (m : Member) : FieldC := ⟨m.cbase, m.ptr, m.dims⟩

/-- `type(C_PTR) :: name[(dims)]` for an indirect member, else the interoperable type; the extents are written in
    reverse order in both branches (`reversed(ast.array)`) -/
def memberF (m : Member) : FieldF :=
  if m.ptr ≥ 1 then ⟨.cptr, m.dims.reverse⟩ else ⟨m.fbase, m.dims.reverse⟩

def structC (ms : List Member) : List FieldC := ms.map memberC
def structF (ms : List Member) : List FieldF := ms.map memberF


/-! ## names: a generated name is a template over the user-settable format fields -/

/-- one segment of a name template: a literal part or the value of a format field (`C_prefix`,
    `C_memory_dtor_function`, `C_bufferify_suffix`, ...) -/
inductive Seg
  | lit (id : Nat)
  | field (id : Nat)
  deriving DecidableEq, Repr

/-- the name Shroud writes: literal parts from `lits`, format fields from the library's format dictionary `env` -/
def expandName (lits env : Nat → List Nat) (t : List Seg) : List Nat :=
  t.flatMap (fun s => match s with | .lit i => lits i | .field i => env i)

/-- decoding of the regenerated tables: n ≥ 1000 is field (n - 1000) -/
def decSeg (n : Nat) : Seg := if n ≥ 1000 then .field (n - 1000) else .lit n

/-! ## decoding of the Nat-encoded tables (Gen/Interop.lean) and of driver requests -/

def decCBase (c n : Nat) : Option CBase :=
  match c with
  | 1 => some (.int n true) | 2 => some (.float n) | 3 => some (.complex n) | 4 => some .bool
  | 5 => some .char | 6 => some .void | 7 => some (.struct n) | 8 => some .cdesc | 9 => some .funptr
  | _ => none

def decFBase (c n : Nat) : Option FBase :=
  match c with
  | 1 => some (.integer n) | 2 => some (.real n) | 3 => some (.complex n) | 4 => some (.logical n)
  | 5 => some .character | 6 => some .cptr | 7 => some (.derived n) | 8 => some .assumedType
  | 9 => some .procedure | 10 => some .cfunptr
  | _ => none

def decShape : Nat → Option FShape
  | 0 => some .scalar | 1 => some .array | 2 => some .desc | _ => none

def decC (t : Nat × Nat × Nat) : Option ParamC :=
  (decCBase t.1 t.2.1).map (fun b => ⟨b, t.2.2⟩)

def decF (t : Nat × Nat × Nat × Nat) : Option DummyF :=
  match decFBase t.1 t.2.1, decShape t.2.2.2 with
  | some b, some sh => some ⟨b, t.2.2.1 == 1, sh⟩
  | _, _ => none

def decCT (t : Nat × Nat × Nat × Nat) : Option CDeclT :=
  match t.1 with
  | 0 => some (.argType t.2.2.2)
  | 1 => (decC t.2).map .fixed
  | _ => none

def decFT (t : Nat × Nat × Nat × Nat × Nat) : Option FDeclT :=
  match t.1 with
  | 0 => some (.fType (t.2.2.2.1 == 1))
  | 1 => (decF t.2).map .fixed
  | 2 => (decFBase t.2.1 t.2.2.1).map (fun b => .fixedDim b (t.2.2.2.1 == 1))
  | _ => none

def decNameT : Nat → NameT
  | 1 => .cVar | 2 => .cxxVar | _ => .other

def allSome : List (Option α) → Option (List α)
  | [] => some []
  | none :: _ => none
  | some x :: xs => (allSome xs).map (x :: ·)

end Shroud.Interop
