import ShroudVerif.Model.Decl
/-!
# Name lookup through nested scopes

`unqualified_lookup` of `ast.LibraryNode`, `NamespaceNode`, `ClassNode`, `BlockNode` /
`FunctionNode` (delegating scopes) and `declast.Template`: the declaration parser asks the
scope it parses in for every type name.  A scope is modelled by its chain of enclosing
scopes, innermost first:

* library: own symbols, then the members (`qualified_lookup`) of each namespace named in a
  using-directive; nothing further out;
* namespace: own symbols, then a full lookup from each namespace named in a using-directive,
  then the enclosing scope;
* class / template parameter list: own symbols, then the enclosing scope;
* block / function: the enclosing scope.

`Chain.visible` flattens a chain into the symbol list of an `Env` (innermost first), which
is what the declaration model (`Model/Decl.lean`) takes as given.
-/
namespace Shroud.Decl
open Shroud

inductive ScopeKind where
  | library | nspace | cls | delegate
  deriving DecidableEq, Repr, Inhabited

/-- a scope with the scopes around it: `cons kind symbols using outer` -/
inductive Chain where
  | nil
  | cons (kind : ScopeKind) (symbols : List (Str × Sym)) (usings : List Chain) (outer : Chain)
  deriving Repr, Inhabited

def Chain.ownSymbols : Chain → List (Str × Sym)
  | .nil => []
  | .cons _ s _ _ => s

/-- first hit of `f` over a list (the `for ns in self.using:` loops) -/
def firstSome {α β} (f : α → Option β) : List α → Option β
  | [] => none
  | a :: t => match f a with | some b => some b | none => firstSome f t

mutual
/-- `<scope>.unqualified_lookup(name)` -/
def Chain.lookup (name : Str) : Chain → Option Sym
  | .nil => none
  | .cons kind syms usings outer =>
    match kind with
    | .delegate => outer.lookup name
    | .cls =>
      match assoc name syms with
      | some s => some s
      | none => outer.lookup name
    | .nspace =>
      match assoc name syms with
      | some s => some s
      | none =>
        match lookupUsing name usings with
        | some s => some s
        | none => outer.lookup name
    | .library =>
      match assoc name syms with
      | some s => some s
      | none => firstSome (fun u => assoc name u.ownSymbols) usings
/-- `for ns in self.using: item = ns.unqualified_lookup(name)` of a namespace -/
def lookupUsing (name : Str) : List Chain → Option Sym
  | [] => none
  | u :: us =>
    match u.lookup name with
    | some s => some s
    | none => lookupUsing name us
end

mutual
/-- the symbols a scope sees, in lookup order (innermost first) -/
def Chain.visible : Chain → List (Str × Sym)
  | .nil => []
  | .cons kind syms usings outer =>
    match kind with
    | .delegate => outer.visible
    | .cls => syms ++ outer.visible
    | .nspace => syms ++ (visibleUsing usings ++ outer.visible)
    | .library => syms ++ (usings.map Chain.ownSymbols).flatten
def visibleUsing : List Chain → List (Str × Sym)
  | [] => []
  | u :: us => u.visible ++ visibleUsing us
end

/-- the environment the declaration parser works in when it parses inside the scope -/
def Chain.toEnv (c : Chain) (types : List TypeInfo) (canon : List (Str × Str)) : Env :=
  { globals := c.visible, usingNs := [], types := types, canon := canon }

end Shroud.Decl
