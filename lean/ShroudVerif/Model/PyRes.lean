/-
Resource discipline of the code blocks a Python wrapper assembles from `wrapp.py_statements`
(engine for C06, Python half).  Core Lean only.

A generated wrapper runs, for its arguments in order, the clauses
  post_parse (all arguments), pre_call (all), <library call>, post_call (all), cleanup (all), return
and every fallible step is followed by `goto fail`, where the `fail` clauses of ALL arguments run.
Each argument block owns up to four pointer variables, all declared `= NULL`:
  0 `{py_var}` (a Python object)        1 `{value_var}.dataobj` (converted sequence)
  2 `{py_capsule}` (NumPy base capsule)  3 `{cxx_var}` (malloc/new memory)
-/
namespace Shroud.PyRes

/-- what a pointer variable holds -/
inductive VS where
  | null    -- NULL
  | live    -- an owned reference / allocation
  | stale   -- non-NULL, but the reference has been released
  | moved   -- non-NULL, ownership was transferred to another object (steals / capsule / to_Object)
  deriving Repr, DecidableEq

structure St where
  v    : List VS     -- variables 0..3
  dbl  : Bool        -- a release through a stale or moved pointer (double release)
  lost : Bool        -- a live pointer was overwritten or cleared (leak)
  deriving Repr, DecidableEq

def St.init : St := ⟨[.null, .null, .null, .null], false, false⟩
def St.get (s : St) (r : Nat) : VS := s.v.getD r .null
def St.set (s : St) (r : Nat) (x : VS) : St := { s with v := s.v.set r x }

/-- events, as regenerated into `Gen/PyRes.lean`: (kind, argument)
  1 acquire, fallible (followed by `goto fail` when it fails)   2 acquire, not checked
  3 NULL-safe release (`Py_XDECREF`, guarded `free`)            4 `var = NULL`
  5 transfer r -> r2 (argument 10*r + r2)                       6 a `goto fail` without acquisition
  7 release r if variable c is NULL (argument 10*r + c)         8 acquire r if it is NULL (cached object)
  9 read through r (an access through a stale pointer is recorded like a second release) -/
abbrev Ev := Nat × Nat

def Ev.fallible (e : Ev) : Bool := e.1 == 1 || e.1 == 6

def release (s : St) (r : Nat) : St :=
  match s.get r with
  | .null => s
  | .live => s.set r .stale
  | .stale => { s with dbl := true }
  | .moved => { s with dbl := true }

def step (s : St) (e : Ev) : St :=
  match e.1 with
  | 1 | 2 => let s1 := if s.get e.2 = .live then { s with lost := true } else s
             s1.set e.2 .live
  | 3 => release s e.2
  | 4 => let s1 := if s.get e.2 = .live then { s with lost := true } else s
         s1.set e.2 .null
  | 5 => if s.get (e.2 / 10) = .live then s.set (e.2 / 10) .moved else s
  | 7 => if s.get (e.2 % 10) = .null then release s (e.2 / 10) else s
  | 8 => if s.get e.2 = .null then s.set e.2 .live else s      -- acquire and cache if the variable is NULL
  | 9 => if s.get e.2 = .stale then { s with dbl := true } else s   -- read through the pointer (copy out)
  | _ => s

/-- run the events of one clause; `stop = some i`: the fallible event number `i` fails (it is not
    performed and control goes to `fail`).  Result: state, failed? -/
def runPhase : List Ev → St → Option Nat → St × Bool
  | [], s, _ => (s, false)
  | e :: es, s, stop =>
    match stop with
    | some 0 => if e.fallible then (s, true) else runPhase es (step s e) none
    | some (i + 1) => runPhase es (step s e) (some i)
    | none => runPhase es (step s e) none

structure Blk where
  parse : List Ev
  pre   : List Ev
  post  : List Ev
  clean : List Ev
  fail  : List Ev
  ret   : Bool        -- `{py_var}` is handed to the caller on success
  deriving Repr, DecidableEq

/-- where the wrapper stops, seen from one argument block -/
inductive Stop where
  | success
  | own (phase idx : Nat)      -- this block's fallible event `idx` of clause `phase` (0,1,2) fails
  | ext (done : Nat)           -- another block fails after this one completed `done` clauses (0..3)
  deriving Repr, DecidableEq

def Blk.phase (b : Blk) : Nat → List Ev
  | 0 => b.parse
  | 1 => b.pre
  | _ => b.post

def runFail (b : Blk) (s : St) : St := (runPhase b.fail s none).1

/-- state of the block's variables when the wrapper returns -/
def runBlk (b : Blk) : Stop → St × Bool      -- (state, wrapper failed?)
  | .success =>
    let s := (runPhase b.parse St.init none).1
    let s := (runPhase b.pre s none).1
    let s := (runPhase b.post s none).1
    ((runPhase b.clean s none).1, false)
  | .ext d =>
    let s := if 0 < d then (runPhase b.parse St.init none).1 else St.init
    let s := if 1 < d then (runPhase b.pre s none).1 else s
    let s := if 2 < d then (runPhase b.post s none).1 else s
    (runFail b s, true)
  | .own p i =>
    let r0 := runPhase b.parse St.init (if p = 0 then some i else none)
    if r0.2 then (runFail b r0.1, true) else
    let r1 := runPhase b.pre r0.1 (if p = 1 then some i else none)
    if r1.2 then (runFail b r1.1, true) else
    let r2 := runPhase b.post r1.1 (if p = 2 then some i else none)
    if r2.2 then (runFail b r2.1, true) else
    ((runPhase b.clean r2.1 none).1, false)

/-- a leak or a double release happened -/
def bad (b : Blk) (r : St × Bool) : Bool :=
  r.1.dbl || r.1.lost ||
  (List.range 4).any (fun i => r.1.get i == .live && !(i == 0 && b.ret && !r.2))

/-- all stop points that can differ from `success` (bounded by the clause lengths) -/
def Blk.stops (b : Blk) (late : Bool) : List Stop :=
  [.success, .ext 0, .ext 1, .ext 2] ++ (if late then [.ext 3] else []) ++
  (List.range b.parse.length).map (.own 0) ++ (List.range b.pre.length).map (.own 1) ++
  (List.range b.post.length).map (.own 2)

def Blk.check (b : Blk) (late : Bool) : Bool := (b.stops late).all (fun s => !bad b (runBlk b s))

/-- where the whole wrapper stops -/
inductive GStop where
  | success
  | failAt (k phase idx : Nat)   -- block `k`, clause `phase`, fallible event `idx`
  deriving Repr, DecidableEq

/-- the stop point of block `j` when the wrapper stops at `g`: blocks before the failing one have
    completed the failing clause, blocks after it have not started it -/
def progOf (g : GStop) (j : Nat) : Stop :=
  match g with
  | .success => .success
  | .failAt k p i => if j = k then .own (min p 2) i else if j < k then .ext (min p 2 + 1) else .ext (min p 2)

/-! ## Member descriptors of a struct wrapped as a class

`self->{PY_member_object}` (variable 0) and `self->{PY_member_data}` (variable 1) live as long as the
Python object; the generated setter / getter of a pointer member and `tp_dealloc` act on them. -/

structure Member where
  pre     : List Ev     -- setter, before the conversion of the new value
  onFail  : List Ev     -- setter, error branch (`return -1`)
  onOk    : List Ev     -- setter, after a successful conversion (steals the new references)
  getter  : List Ev
  dealloc : List Ev     -- what tp_dealloc / tp_del release for the member
  deriving Repr, DecidableEq

/-- what a caller can do with the member of one object -/
inductive DOp where
  | setOk | setBad | get
  deriving Repr, DecidableEq

def runEvs (evs : List Ev) (s : St) : St := evs.foldl step s

def Member.run (m : Member) (s : St) : DOp → St
  | .setOk => runEvs m.onOk (runEvs m.pre s)
  | .setBad => runEvs m.onFail (runEvs m.pre s)
  | .get => runEvs m.getter s

def Member.runAll (m : Member) (s : St) (ops : List DOp) : St := ops.foldl m.run s

/-- states between two operations: no error so far, every variable NULL or owned -/
def cleanStates : List St :=
  [⟨[.null, .null, .null, .null], false, false⟩, ⟨[.live, .null, .null, .null], false, false⟩,
   ⟨[.null, .live, .null, .null], false, false⟩, ⟨[.live, .live, .null, .null], false, false⟩]

/-- after deallocation: nothing owned any more, nothing released twice, nothing lost -/
def St.settled (s : St) : Bool :=
  !s.dbl && !s.lost && (List.range 4).all (fun i => s.get i != .live)

def Member.check (m : Member) : Bool :=
  cleanStates.all fun s =>
    [DOp.setOk, .setBad, .get].all (fun o => cleanStates.contains (m.run s o)) &&
    (runEvs m.dealloc s).settled

/-! ## Emission of the result's pre_call code on the default-argument paths

`wrap_function` keeps the pending `result_pre_call` lines in a list and emits them at several sites
(before the `switch (SH_nargs)` when there are default arguments, and in the loop over the calls).
One executed path passes all sites in order. -/

/-- the code one path executes at the sites (`reset` flags), starting with the list pending -/
def emitPath (pre : List Ev) : List Bool → Bool → List Ev
  | [], _ => []
  | r :: rs, pending => (if pending then pre else []) ++ emitPath pre rs (pending && !r)

/-! ## A caller-owned result that the C wrapper releases itself (user `final` clause)

`Wrapc.wrap_function` concatenates the statement groups 0 pre_call, 1 call, 2 post_call_pattern,
3 post_call, 4 final, 5 return.  For a result with a `final` clause: the call obtains the memory
(variable 3), post_call copies it into the caller's buffer, final releases it. -/

def finalGroupEvents : Nat → List Ev
  | 1 => [(2, 3)]     -- call: the library hands over the object
  | 3 => [(9, 3)]     -- post_call: copy out (read)
  | 4 => [(3, 3)]     -- final: user supplied release
  | _ => []

def runGroups (order : List Nat) : St := runEvs (order.flatMap finalGroupEvents) St.init

/-- released exactly once, never early: no access after the release, nothing still owned -/
def St.releasedOnceNeverEarly (s : St) : Bool := s.settled && s.get 3 == .stale

end Shroud.PyRes
