/-
Model of the splicer machinery (property C12):

* `shroud/splicer.py`: `get_splicers` (look/collect state machine over
  `fp.readlines()`), `get_splicer_based_on_suffix`;
* `shroud/util.py`: `WrapperMixin._init_splicer/_push_splicer/_pop_splicer/
  _update_splicer_top/_create_splicer`;
* `shroud/main.py: main_with_args`: collection of the splicers of one language
  from command-line files, YAML `splicer:` files and `splicer_code`;
* `shroud/ast.py: listify` for a declaration-level `splicer` value.

The nested Python dictionaries are represented *flat*: a list of
`(path, value)` entries in insertion order, a value being a leaf (list of
lines) or a (possibly empty) dictionary; the root dictionary is implicit.  Keys
created by `get_splicers` never contain '.', so this loses nothing.

Imports only the E-lines model (core Lean), so the driver links.
-/
import ShroudVerif.Model.Lines
namespace Shroud.Splicer
open Shroud.Lines (isPySpace Res Item)

abbrev Str := List Char
abbrev Path := List Str

/-! ### string primitives -/

/-- Python `str.rstrip()`. -/
def rstrip (s : Str) : Str := (s.reverse.dropWhile isPySpace).reverse

/-- Python `s.find(pat)` (offset by `k`): index of the first occurrence. -/
def findSub (pat : Str) : Str → Nat → Option Nat
  | [], k => if pat.isEmpty then some k else none
  | c :: cs, k => if pat.isPrefixOf (c :: cs) then some k else findSub pat cs (k + 1)

/-- `i = line.find(pat); if i > 0:` -- the marker test of `get_splicers`.
    An occurrence in column one (`i == 0`) is *not* a marker. -/
def markerPos (pat line : Str) : Option Nat :=
  match findSub pat line 0 with
  | some (i + 1) => some (i + 1)
  | _ => none

/-- `s.split()[0]` (`none` = IndexError on an empty field list). -/
def firstField (s : Str) : Option Str :=
  let t := s.dropWhile isPySpace
  if t.isEmpty then none else some (t.takeWhile (fun c => !isPySpace c))

/-- Python `s.split(sep)` for a one-character separator. -/
def splitOn (sep : Char) : Str → List Str
  | [] => [[]]
  | c :: cs =>
    if c = sep then [] :: splitOn sep cs
    else match splitOn sep cs with
      | h :: t => (c :: h) :: t
      | [] => [[c]]

/-- `open(fname, "r").readlines()`: universal newlines (`\r\n` and `\r` become
    `\n`), every line keeps its terminator, the last one may lack it. -/
def readlines : Str → Str → List Str
  | cur, [] => if cur.isEmpty then [] else [cur]
  | cur, c :: cs =>
    if c = '\n' then (cur ++ ['\n']) :: readlines [] cs
    else if c = '\r' then
      match cs with
      | d :: ds => if d = '\n' then (cur ++ ['\n']) :: readlines [] ds
                   else (cur ++ ['\n']) :: readlines [] (d :: ds)
      | [] => [cur ++ ['\n']]
    else readlines (cur ++ [c]) cs

/-! ### the dictionary -/

inductive Val where
  | leaf (body : List Str)
  | dict
  deriving Repr, DecidableEq

abbrev Dict := List (Path × Val)

/-- The Python object found at `p` (the root is a dictionary). -/
def objAt (d : Dict) (p : Path) : Option Val :=
  if p = [] then some .dict else d.lookup p

/-- `parent.setdefault(key, {})` where `p = parent ++ [key]`. -/
def ensureDict (d : Dict) (p : Path) : Dict :=
  match d.lookup p with
  | some _ => d
  | none => d ++ [(p, .dict)]

def isStrictPrefix (p q : Path) : Bool := p.isPrefixOf q && decide (p.length < q.length)

/-- `parent[key] = body`: a new key is appended; an existing key keeps its
    position and whatever hung below it is gone. -/
def setLeaf (d : Dict) (p : Path) (b : List Str) : Dict :=
  match d.lookup p with
  | none => d ++ [(p, .leaf b)]
  | some _ =>
    (d.filter (fun e => !(isStrictPrefix p e.1))).map
      (fun e => if e.1 = p then (p, Val.leaf b) else e)

/-- keys of the dictionary at `p` in insertion order (`list(d)`) -/
def children (d : Dict) (p : Path) : List Str :=
  (d.filter (fun e => decide (e.1 ≠ []) && decide (e.1.dropLast = p))).map
    (fun e => e.1.getLast?.getD [])

/-- `for subtag in subtags[:-1]: top = top.setdefault(subtag, {})`.
    When `top` has become a list (a leaf) the next `setdefault` raises
    `AttributeError`. -/
def descend : Dict → Path → List Str → Res (Dict × Path)
  | d, p, [] => .ok (d, p)
  | d, p, k :: ks =>
    match objAt d p with
    | some .dict => descend (ensureDict d (p ++ [k])) (p ++ [k]) ks
    | _ => .crash "AttributeError"

/-! ### get_splicers -/

def strBegin : Str := "splicer begin".toList
def strEnd : Str := "splicer end".toList

inductive Mode where
  | look
  | collect (tag sub : Str) (top : Path) (save : List Str)
  deriving Repr, DecidableEq

/-- The part of the `state_collect` branch that runs once the end tag is read:
    mismatch check, `begin_subtag in top`, `top[begin_subtag] = save`.
    (Before the `fix:` commit in /repo the test was `end_tag in top` -- the whole
    dotted tag looked up among single components -- so a repeated dotted name
    silently replaced the earlier body or subtree.) -/
def closeBlock (d : Dict) (tag sub : Str) (top : Path) (save : List Str) (endTag : Str) : Res Dict :=
  if tag ≠ endTag then .crash "RuntimeError mismatch"
  else match objAt d top with
    | some (.leaf lines) =>
      -- `top` is a list: membership test on its lines, then list[str] = ...
      if sub ∈ lines then .crash "RuntimeError exists" else .crash "TypeError"
    | _ =>
      if (d.lookup (top ++ [sub])).isSome then .crash "RuntimeError exists"
      else .ok (setLeaf d (top ++ [sub]) save)

/-- The part of the `state_look` branch that runs once a begin tag is read. -/
def openBlock (d : Dict) (tag : Str) : Res (Dict × Mode) :=
  let subtags := splitOn '.' tag
  match descend d [] subtags.dropLast with
  | .crash e => .crash e
  | .ok (d', top) => .ok (d', .collect tag (subtags.getLast?.getD []) top [])

/-- One iteration of `for line in fp.readlines():`. -/
def step (d : Dict) (m : Mode) (line : Str) : Res (Dict × Mode) :=
  match m with
  | .look =>
    match markerPos strBegin line with
    | none => .ok (d, .look)
    | some i =>
      match firstField (line.drop (i + strBegin.length)) with
      | none => .crash "IndexError"
      | some tag => openBlock d tag
  | .collect tag sub top save =>
    match markerPos strEnd line with
    | none => .ok (d, .collect tag sub top (save ++ [rstrip line]))
    | some i =>
      match firstField (line.drop (i + strEnd.length)) with
      | none => .crash "IndexError"
      | some endTag =>
        match closeBlock d tag sub top save endTag with
        | .crash e => .crash e
        | .ok d' => .ok (d', .look)

def run : Dict → Mode → List Str → Res Dict
  | d, _, [] => .ok d      -- an unterminated block is dropped silently
  | d, m, l :: ls =>
    match step d m l with
    | .crash e => .crash e
    | .ok (d', m') => run d' m' ls

/-- `get_splicers(fname, out)` on the lines `fp.readlines()` returns. -/
def getSplicers (lines : List Str) (out : Dict) : Res Dict := run out .look lines

def getSplicersFile (content : Str) (out : Dict) : Res Dict := getSplicers (readlines [] content) out

/-- successive `get_splicers(f, out)` calls into the same dictionary -/
def readAll : Dict → List (List Str) → Res Dict
  | d, [] => .ok d
  | d, f :: fs =>
    match getSplicers f d with
    | .crash e => .crash e
    | .ok d' => readAll d' fs

/-- `dst[key] = {}` unless a dictionary is there already (`p = parent ++ [key]`);
    a leaf in that place keeps its position and becomes an empty dictionary. -/
def setDict (d : Dict) (p : Path) : Dict :=
  match d.lookup p with
  | none => d ++ [(p, .dict)]
  | some .dict => d
  | some (.leaf _) => d.map (fun e => if e.1 = p then (p, Val.dict) else e)

/-- `main.add_splicer_code` on a list value: an empty YAML item (`None`) is a blank line.
    (Since a `fix:` commit in /repo; before it `None` reached `write_lines`, which raised AttributeError.) -/
def codeLines (l : List (Option Str)) : List Str := l.map (fun o => o.getD [])

/-- `main.add_splicer_code` on a string value (a YAML block scalar): its lines; a final newline does not add
    a blank line.  (Since a `fix:` commit in /repo; before it the string was emitted one character per line.) -/
def codeScalar (v : Str) : List Str :=
  let parts := splitOn '\n' v
  if v.getLast? = some '\n' then parts.dropLast else parts

/-- One assignment of `main.add_splicer_code`. -/
def mergeEntry (d : Dict) (e : Path × Val) : Dict :=
  match e.2 with
  | .leaf b => setLeaf d e.1 b
  | .dict => setDict d e.1

/-- `main.add_splicer_code(splicers[lang], splicer_code[lang])`: the recursive
    merge visits the `splicer_code` mapping depth first, i.e. its flat entries
    in order (every level before what hangs below it; the `__line__` keys of the
    YAML loader are skipped by the code and are not part of `code`). -/
def mergeCode (d : Dict) (code : Dict) : Dict := code.foldl mergeEntry d

/-- `main_with_args`, one language: command-line splicer files, then the YAML
    `splicer:` files, all into one dictionary; then the `splicer_code` entry of
    the language is merged in block by block.  (Before the `fix:` commit in
    /repo, `splicers.update(splicer_code)` *replaced* the language's whole
    dictionary.) -/
def collectSplicers (cmdFiles yamlFiles : List (List Str)) (code : Option Dict) : Res Dict :=
  match readAll [] (cmdFiles ++ yamlFiles) with
  | .crash e => .crash e
  | .ok d =>
    match code with
    | none => .ok d
    | some c => .ok (mergeCode d c)

/-- `get_splicer_based_on_suffix`: language key of a file extension
    (`none`: the file is silently ignored). -/
def langOfExt (ext : Str) : Option Str :=
  if ext ∈ [".f".toList, ".f90".toList] then some "f".toList
  else if ext ∈ [".c", ".h", ".cpp", ".hpp", ".cxx", ".hxx", ".cc", ".C"].map String.toList then some "c".toList
  else if ext = ".py".toList then some "py".toList
  else if ext = ".lua".toList then some "lua".toList
  else none

/-- `ast.listify` on a string value of a declaration-level `splicer:` entry:
    its lines; a final newline does not add a blank line.  (Before the `fix:`
    commit in /repo, `value[-1]` raised IndexError on the empty string; the
    `Res` type is kept so a reintroduced crash can be modelled.) -/
def listifyStr (v : Str) : Res (List Str) :=
  let parts := splitOn '\n' v
  .ok (if v.getLast? = some '\n' then parts.dropLast else parts)

/-! ### `main_with_args`: all languages, search path, sorted suffixes -/

/-- `splicers`: language key -> dictionary, in insertion order. -/
abbrev Splicers := List (Str × Dict)

def initSplicers : Splicers :=
  [("c".toList, []), ("f".toList, []), ("py".toList, []), ("lua".toList, [])]

def getLang (s : Splicers) (k : Str) : Dict := (s.lookup k).getD []

/-- `splicers[k] = d` / the effect of mutating `splicers.setdefault(k, {})` in place -/
def setLang (s : Splicers) (k : Str) (d : Dict) : Splicers :=
  match s.lookup k with
  | some _ => s.map (fun e => if e.1 = k then (k, d) else e)
  | none => s ++ [(k, d)]

/-- splicer files on the command line, in order, each by its extension
    (`get_splicer_based_on_suffix`; unknown extensions are ignored) -/
def readCmd : Splicers → List (Str × List Str) → Res Splicers
  | s, [] => .ok s
  | s, (ext, lines) :: rest =>
    match langOfExt ext with
    | none => readCmd s rest
    | some l =>
      match getSplicers lines (getLang s l) with
      | .crash e => .crash e
      | .ok d => readCmd (setLang s l d) rest

/-- `for pth in search_path: if os.path.isfile(join(pth, name)): break` -/
def findFile (dirs : List (List (Str × List Str))) (name : Str) : Option (List Str) :=
  dirs.findSome? (fun d => d.lookup name)

def readNames (dirs : List (List (Str × List Str))) : Dict → List Str → Res Dict
  | d, [] => .ok d
  | d, n :: ns =>
    match findFile dirs n with
    | none => .crash "RuntimeError notfound"
    | some lines =>
      match getSplicers lines d with
      | .crash e => .crash e
      | .ok d' => readNames dirs d' ns

/-- Python `<` on `str` (code points, lexicographic) -/
def strLt : Str → Str → Bool
  | [], [] => false
  | [], _ :: _ => true
  | _ :: _, [] => false
  | a :: as, b :: bs => if a.toNat < b.toNat then true else if b.toNat < a.toNat then false else strLt as bs

def insertKey (e : Str × List Str) : List (Str × List Str) → List (Str × List Str)
  | [] => [e]
  | x :: xs => if strLt e.1 x.1 then e :: x :: xs else x :: insertKey e xs

/-- `sorted(allinput["splicer"].keys())` (keys of a mapping are distinct) -/
def sortKeys (l : List (Str × List Str)) : List (Str × List Str) := l.foldr insertKey []

/-- the YAML `splicer:` section: suffixes in sorted order, `setdefault`, names through the search path -/
def readYaml (dirs : List (List (Str × List Str))) : Splicers → List (Str × List Str) → Res Splicers
  | s, [] => .ok s
  | s, (suffix, names) :: rest =>
    match readNames dirs (getLang s suffix) names with
    | .crash e => .crash e
    | .ok d => readYaml dirs (setLang s suffix d) rest

/-- `add_splicer_code(splicers, splicer_code)` at the language level (mappings only) -/
def mergeAll (s : Splicers) (code : List (Str × Dict)) : Splicers :=
  code.foldl (fun acc e => setLang acc e.1 (mergeCode (getLang acc e.1) e.2)) s

/-- What `main_with_args` hands to the four wrappers. -/
def collectMain (cmd : List (Str × List Str)) (dirs : List (List (Str × List Str)))
    (yaml : List (Str × List Str)) (code : List (Str × Dict)) : Res Splicers :=
  match readCmd initSplicers cmd with
  | .crash e => .crash e
  | .ok s1 =>
    match readYaml dirs s1 (sortKeys yaml) with
    | .crash e => .crash e
    | .ok s2 => .ok (mergeAll s2 code)

/-! ### the splicer stack of a wrapper -/

/-- `self.splicers` with `self.splicer_names`; `self.splicer_stack[k]` is the
    object at `names.take k` (objects are never replaced by the wrapper). -/
structure Stack where
  d : Dict
  names : Path
  deriving Repr, DecidableEq

def initSplicer (d : Dict) : Stack := ⟨d, []⟩

def push (s : Stack) (name : Str) : Res Stack :=
  match objAt s.d s.names with
  | some .dict => .ok ⟨ensureDict s.d (s.names ++ [name]), s.names ++ [name]⟩
  | _ => .crash "AttributeError"     -- the user supplied a body where a level is expected

def pop (s : Stack) : Res Stack :=
  if s.names.isEmpty then .crash "IndexError" else .ok ⟨s.d, s.names.dropLast⟩

def updateTop (s : Stack) (name : Str) : Res Stack :=
  if s.names.isEmpty then .crash "IndexError"
  else .ok ⟨ensureDict s.d (s.names.dropLast ++ [name]), s.names.dropLast ++ [name]⟩

/-! ### the emitters' stack discipline (`Wrapf.wrap_namespace`) -/

/-- a namespace node as the Fortran emitter sees it: the splicer name `"::".join(scope_file[1:])`
    and the nested namespaces that get a module of their own -/
inductive NS where
  | mk (scope : Str) (kids : List NS)

mutual
/-- `Wrapf.wrap_namespace(ns)` for a nested namespace, reduced to its splicer-stack operations:
    classes and functions are wrapped between balanced push/pop pairs, every nested namespace is
    entered after `_update_splicer_top(<its scope>)` -- also one that is flattened into the enclosing
    module (since a `fix:` commit in /repo; before it a flattened namespace kept whatever name was on the
    stack) -- and the node's own name is restored at the end. -/
def wrapNs (s : Stack) : NS → Res Stack
  | .mk scope kids =>
    match push s "class".toList with
    | .crash e => .crash e
    | .ok s1 =>
      match pop s1 with
      | .crash e => .crash e
      | .ok s2 =>
        match wrapKids s2 kids with
        | .crash e => .crash e
        | .ok s3 => updateTop s3 scope
def wrapKids (s : Stack) : List NS → Res Stack
  | [] => .ok s
  | k :: ks =>
    match k with
    | .mk scope kk =>
      match updateTop s scope with
      | .crash e => .crash e
      | .ok s1 =>
        match wrapNs s1 (.mk scope kk) with
        | .crash e => .crash e
        | .ok s2 => wrapKids s2 ks
end

/-- The class loop of the emitters (`for cls in node.classes: _push_splicer(name); <struct or class
    branch>; _pop_splicer(name)`), reduced to its stack operations: whichever branch wraps the class or
    struct, the level entered for it is left again. -/
def wrapClassList : Stack → List Str → Res Stack
  | s, [] => .ok s
  | s, c :: cs =>
    match push s c with
    | .crash e => .crash e
    | .ok s1 =>
      match pop s1 with
      | .crash e => .crash e
      | .ok s2 => wrapClassList s2 cs

/-- `_push_splicer("class")`, the loop, `_pop_splicer("class")` -/
def wrapClasses (s : Stack) (classes : List Str) : Res Stack :=
  match push s "class".toList with
  | .crash e => .crash e
  | .ok s1 =>
    match wrapClassList s1 classes with
    | .crash e => .crash e
    | .ok s2 => pop s2

def joinDot : Path → Str
  | [] => []
  | [a] => a
  | a :: b :: r => a ++ '.' :: joinDot (b :: r)

/-- `self.splicer_path` -/
def splicerPath (names : Path) : Str := if names.isEmpty then [] else joinDot names ++ ['.']

def beginMarker (comment : Str) (names : Path) (name : Str) : Str :=
  comment ++ " splicer begin ".toList ++ splicerPath names ++ name
def endMarker (comment : Str) (names : Path) (name : Str) : Str :=
  comment ++ " splicer end ".toList ++ splicerPath names ++ name

/-- `WrapperMixin._literal_lines`, one line: user code that `write_lines` would
    read as a directive (first character `@ ^ + -`, or last character `+`) is
    marked literal with `@`; `#` lines and everything else are left alone.
    (Added by a `fix:` commit in /repo; before it user lines were appended raw.) -/
def protect (l : Str) : Str :=
  match l with
  | [] => []
  | c :: _ =>
    if c ≠ '#' ∧ (c = '@' ∨ c = '^' ∨ c = '+' ∨ c = '-' ∨ l.getLast? = some '+') then '@' :: l else l

def protectItem : Item → Item
  | .str s => .str (protect s)
  | .delta d => .delta d

/-- The body `_create_splicer` selects: force, else the user's splicer, else the
    default; with the `added_code` flag.  Force and user lines are protected,
    the generated default is not. -/
def selectBody (s : Stack) (name : Str) (dflt force : Option (List Item)) : Res (List Item × Bool) :=
  let useDefault : Res (List Item × Bool) :=
    match dflt with
    | some b => .ok (b, true)
    | none => .ok ([], false)
  match force with
  | some f => .ok (f.map protectItem, true)
  | none =>
    match objAt s.d s.names with
    | some (.leaf lines) =>
      -- `name in <list>` then `<list>[name]`
      if name ∈ lines then .crash "TypeError" else useDefault
    | _ =>
      match s.d.lookup (s.names ++ [name]) with
      | some (.leaf b) => .ok (b.map (fun l => Item.str (protect l)), true)
      | some .dict => .ok ((children s.d (s.names ++ [name])).map (fun l => Item.str (protect l)), true)  -- out.extend(<dict>)
      | none => useDefault

/-- `_create_splicer(name, out, default, force)`: what is appended to `out`
    and the returned flag. -/
def createSplicer (showc : Bool) (comment : Str) (s : Stack) (name : Str)
    (dflt force : Option (List Item)) : Res (List Item × Bool) :=
  match selectBody s name dflt force with
  | .crash e => .crash e
  | .ok (body, added) =>
    if showc then
      .ok (Item.str (beginMarker comment s.names name) :: body
            ++ [Item.str (endMarker comment s.names name)], added)
    else .ok (body, added)

end Shroud.Splicer
