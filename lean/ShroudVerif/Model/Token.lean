/-!
# Tokens of `shroud/declast.py`

`declast.tokenize` is a regex alternation (`token_specification`) followed by a
keyword reclassification of `ID` tokens.  The regex matching itself is NOT
modelled character by character: the harness runs the real `get_token` regex
and hands the model the raw `(group name, text)` pairs; the model performs the
reclassification (`reclass`) and everything after it.  The tie checks that the
model's reclassified kinds equal the kinds produced by the real `tokenize`.

`Token.num` carries Python's `str(int(text))` / `str(float(text))` for
`INTEGER` / `REAL` tokens (number formatting is not modelled either; it is only
used to print default values).
-/
namespace Shroud.Decl

abbrev Str := List Char

inductive Kind
  | REAL | INTEGER | DQUOTE | SQUOTE | LPAREN | RPAREN | LCURLY | RCURLY
  | LBRACKET | RBRACKET | STAR | EQUALS | REF | PLUS | MINUS | SLASH | COMMA
  | SEMICOLON | LT | GT | TILDE
  | SCOPE                -- the token `::`
  | NAMESPACE            -- the keyword `namespace` (`val.upper()`)
  | COLON | VARARG | ID | OTHER
  | TYPE_SPECIFIER | TYPE_QUALIFIER | STORAGE_CLASS
  | CLASS | ENUM | STRUCT | TEMPLATE | TYPENAME | PUBLIC | PRIVATE | PROTECTED
  deriving DecidableEq, Repr, Inhabited

def Kind.name : Kind → String
  | .REAL => "REAL" | .INTEGER => "INTEGER" | .DQUOTE => "DQUOTE" | .SQUOTE => "SQUOTE"
  | .LPAREN => "LPAREN" | .RPAREN => "RPAREN" | .LCURLY => "LCURLY" | .RCURLY => "RCURLY"
  | .LBRACKET => "LBRACKET" | .RBRACKET => "RBRACKET" | .STAR => "STAR" | .EQUALS => "EQUALS"
  | .REF => "REF" | .PLUS => "PLUS" | .MINUS => "MINUS" | .SLASH => "SLASH" | .COMMA => "COMMA"
  | .SEMICOLON => "SEMICOLON" | .LT => "LT" | .GT => "GT" | .TILDE => "TILDE"
  | .SCOPE => "SCOPE" | .NAMESPACE => "NAMESPACE" | .COLON => "COLON" | .VARARG => "VARARG" | .ID => "ID"
  | .OTHER => "OTHER" | .TYPE_SPECIFIER => "TYPE_SPECIFIER" | .TYPE_QUALIFIER => "TYPE_QUALIFIER"
  | .STORAGE_CLASS => "STORAGE_CLASS" | .CLASS => "CLASS" | .ENUM => "ENUM" | .STRUCT => "STRUCT"
  | .TEMPLATE => "TEMPLATE" | .TYPENAME => "TYPENAME" | .PUBLIC => "PUBLIC"
  | .PRIVATE => "PRIVATE" | .PROTECTED => "PROTECTED"

def Kind.all : List Kind :=
  [.REAL, .INTEGER, .DQUOTE, .SQUOTE, .LPAREN, .RPAREN, .LCURLY, .RCURLY, .LBRACKET, .RBRACKET,
   .STAR, .EQUALS, .REF, .PLUS, .MINUS, .SLASH, .COMMA, .SEMICOLON, .LT, .GT, .TILDE, .SCOPE, .NAMESPACE,
   .COLON, .VARARG, .ID, .OTHER, .TYPE_SPECIFIER, .TYPE_QUALIFIER, .STORAGE_CLASS, .CLASS, .ENUM,
   .STRUCT, .TEMPLATE, .TYPENAME, .PUBLIC, .PRIVATE, .PROTECTED]

def Kind.ofName (s : String) : Option Kind := Kind.all.find? (fun k => k.name == s)

structure Token where
  typ : Kind
  val : Str
  num : Str := []
  deriving DecidableEq, Repr, Inhabited

/-- keyword tables of `declast.py` (`type_specifier`, `type_qualifier`,
    `storage_class`, `cxx_keywords`); regenerated into `Gen/DeclTables.lean`
    and compared there with these constants. -/
def typeSpecifiers : List Str :=
  ["void", "bool", "char", "short", "int", "long", "float", "double", "signed", "unsigned", "complex"].map String.toList
def typeQualifiers : List Str := ["const", "volatile"].map String.toList
def storageClasses : List Str := ["auto", "register", "static", "extern", "typedef"].map String.toList

/-- `val.upper()` for the `cxx_keywords` set -/
def cxxKeyword (v : Str) : Option Kind :=
  if v = "class".toList then some .CLASS
  else if v = "enum".toList then some .ENUM
  else if v = "namespace".toList then some .NAMESPACE
  else if v = "struct".toList then some .STRUCT
  else if v = "template".toList then some .TEMPLATE
  else if v = "typename".toList then some .TYPENAME
  else if v = "public".toList then some .PUBLIC
  else if v = "private".toList then some .PRIVATE
  else if v = "protected".toList then some .PROTECTED
  else none

/-- keyword reclassification performed by `tokenize` on `ID` matches -/
def classify (v : Str) : Kind :=
  if v ∈ typeSpecifiers then .TYPE_SPECIFIER
  else if v ∈ typeQualifiers then .TYPE_QUALIFIER
  else if v ∈ storageClasses then .STORAGE_CLASS
  else match cxxKeyword v with
    | some k => k
    | none => .ID

def reclass (t : Token) : Token :=
  if t.typ = .ID then { t with typ := classify t.val } else t

/-- constructor used by the token-level printers -/
def tk (k : Kind) (s : String) : Token := { typ := k, val := s.toList }
def tkv (k : Kind) (v : Str) : Token := { typ := k, val := v }

end Shroud.Decl
