/-
E-dispatch (Python): model of what `shroud/wrapp.py` generates for one wrapped
function and of how the generated C behaves when Python calls it.

  * `Wrapp.wrap_function`: the `PyArg_ParseTupleAndKeywords` format (`fmtItems`,
    one unit per Python-visible parameter, `|` once before the first visible
    parameter with a default), the keyword list (`kwlist`), `default_calls`
    (`defaultCalls`: for every visible parameter with a default the pair
    (number of Python arguments before it, number of C++ arguments before it)
    plus the final full call), the `SH_nargs` computation and the
    `switch (SH_nargs)` over those cases (`switchCall`), `build_tuples`
    (`buildTuples`: appended per intent(out|inout) parameter, result inserted at 0)
    and the choice `Py_RETURN_NONE` / single object / `Py_BuildValue` tuple.
  * `Wrapp.multi_dispatch`: arity windows and the TypeError fall-through chain.
  * CPython's `vgetargskeywords` abstracted to: count check, one slot per format
    unit filled from the positional prefix or by keyword name, per-unit type check,
    missing required argument, unmatched keyword; a format with more units than
    keyword-list entries is CPython's `SystemError`.

The model follows the code that exists, including the way `SH_nargs` (a *count*)
selects which parsed variables are passed on, whatever *which* parameters were
actually supplied.  Text is `List Nat` (code points), names are interned `Nat`s.
Core Lean only.
-/
namespace Shroud.PyDispatch

/-- Python exception classes that can be observed. -/
inductive Exn where
  | typeError | valueError | systemError
  deriving DecidableEq, Repr

inductive Intent where
  | in_ | inout | out
  deriving DecidableEq, Repr

/-- A Python value: a type tag (int, float, bool, str, instance of class k, ...) and a payload id. -/
structure Val where
  tag : Nat
  id : Nat
  deriving DecidableEq, Repr

/-- One `PyArg_Parse` format unit: its text (`i`, `d`, `s`, `O!`, ...) and the value tags its converter accepts
(data supplied by the harness from the typemap / statement tables). -/
structure FUnit where
  text : List Nat
  accepts : List Nat
  deriving DecidableEq, Repr

deriving instance DecidableEq for Except

def FUnit.ok (u : FUnit) (v : Val) : Bool := u.accepts.contains v.tag

/-- One C++ parameter as `wrap_function` sees it. -/
structure Param where
  name : Nat
  intent : Intent
  hasDefault : Bool          -- `arg.init is not None`
  implied : Bool             -- `+implied(...)`: computed in pre_call, no Python argument
  hidden : Bool              -- `+hidden`: no Python argument, not returned
  unit : FUnit
  deriving DecidableEq, Repr

/-- Parameters that become Python arguments: `intent in ["inout","in"]` and not `implied or hidden`. -/
def Param.vis (p : Param) : Bool := !(p.implied || p.hidden) && p.intent != .out

/-- Parameters returned to Python: `intent in ["inout","out"]` and not hidden. -/
def Param.isOut (p : Param) : Bool := p.intent != .in_ && !p.hidden

def visible (ps : List Param) : List Param := ps.filter Param.vis

/-- `SHT_kwlist`. -/
def kwlist (ps : List Param) : List Nat := (visible ps).map (·.name)

inductive FmtItem where
  | bar
  | unit (u : FUnit)
  deriving DecidableEq, Repr

/-- `parse_format`: `fo` is `found_optional`. -/
def fmtItems : Bool → List Param → List FmtItem
  | _, [] => []
  | fo, p :: ps =>
    if p.vis then
      if p.hasDefault && !fo then .bar :: .unit p.unit :: fmtItems true ps
      else .unit p.unit :: fmtItems fo ps
    else fmtItems fo ps

def fmtText : List FmtItem → List Nat
  | [] => []
  | .bar :: r => 124 :: fmtText r
  | .unit u :: r => u.text ++ fmtText r

/-- `default_calls`: `(npyargs, len(cxx_call_list))` recorded *before* the increment for every
visible parameter with a default, and once more after the loop. -/
def defaultCalls : Nat → Nat → List Param → List (Nat × Nat)
  | npy, nc, [] => [(npy, nc)]
  | npy, nc, p :: ps =>
    if p.vis then
      if p.hasDefault then (npy, nc) :: defaultCalls (npy + 1) (nc + 1) ps
      else defaultCalls (npy + 1) (nc + 1) ps
    else defaultCalls npy (nc + 1) ps

/-- `found_default`. -/
def foundDefault (ps : List Param) : Bool := ps.any (fun p => p.vis && p.hasDefault)

/-- `node._has_default_arg` (set in generate.py for any parameter with an initializer). -/
def hasDefaultArg (ps : List Param) : Bool := ps.any (·.hasDefault)

/-! ### the argument parser -/

def lookupKw (k : Nat) : List (Nat × Val) → Option Val
  | [] => none
  | (n, v) :: r => if n == k then some v else lookupKw k r

/-- the value offered for the next slot: next positional, else keyword by name. -/
def offered (name : Nat) (pos : List Val) (kw : List (Nat × Val)) : Option Val :=
  match pos with
  | v :: _ => some v
  | [] => lookupKw name kw

/-- Slot filling driven by the format: `opt` becomes true at `|`. One result per unit:
`some v` stored, `none` left untouched (the C variable keeps whatever it held). -/
def parseItems : Bool → List FmtItem → List Nat → List Val → List (Nat × Val) → Except Exn (List (Option Val))
  | _, [], _, _, _ => .ok []
  | _, .bar :: its, names, pos, kw => parseItems true its names pos kw
  | _, .unit _ :: _, [], _, _ => .error .systemError   -- more argument specifiers than keyword list entries
  | opt, .unit u :: its, n :: names, pos, kw =>
    match offered n pos kw with
    | some v =>
      if u.ok v then
        match parseItems opt its names pos.tail kw with
        | .ok r => .ok (some v :: r)
        | .error e => .error e
      else .error .typeError
    | none =>
      if opt then
        match parseItems opt its names pos.tail kw with
        | .ok r => .ok (none :: r)
        | .error e => .error e
      else .error .typeError            -- missing required argument

/-- every keyword must name a parameter that was not already given positionally. -/
def kwAllKnown (names : List Nat) (npos : Nat) (kw : List (Nat × Val)) : Bool :=
  kw.all (fun e => (names.drop npos).contains e.1)

/-- `PyArg_ParseTupleAndKeywords(args, kwds, format, kwlist, ...)`. -/
def parseArgs (items : List FmtItem) (names : List Nat) (pos : List Val) (kw : List (Nat × Val)) :
    Except Exn (List (Option Val)) :=
  if pos.length + kw.length > names.length then .error .typeError      -- takes at most n arguments
  else
    match parseItems false items names pos kw with
    | .error e => .error e
    | .ok slots => if kwAllKnown names pos.length kw then .ok slots else .error .typeError

/-! ### the generated wrapper -/

/-- which object the generated code hands to `PyDict_Size`. -/
inductive CountSrc where
  | kwds        -- `PyDict_Size(kwds)`
  | args        -- `PyDict_Size(args)`: a tuple, returns -1 with SystemError set
  deriving DecidableEq, Repr

/-- `SH_nargs` / `SHT_nargs`.  `kw = none` is `kwds == NULL`. -/
def countArgs (src : CountSrc) (pos : List Val) (kw : Option (List (Nat × Val))) : Except Exn Nat :=
  match kw with
  | none => .ok pos.length
  | some k =>
    match src with
    | .kwds => .ok (pos.length + k.length)
    | .args => .error .systemError

/-- what the library receives in one parameter position. -/
inductive ArgV where
  | val (v : Val)      -- the value Python supplied
  | garbage            -- a C variable the parser never wrote
  | outp               -- address of a local for an intent(out) / hidden parameter
  | implied            -- value computed from the `implied` expression
  | dflt               -- not passed: the library's own default
  deriving DecidableEq, Repr

/-- `cxx_call_list` evaluated after parsing. -/
def callArgs : List Param → List (Option Val) → List ArgV
  | [], _ => []
  | p :: ps, slots =>
    if p.vis then
      match slots with
      | some v :: r => .val v :: callArgs ps r
      | none :: r => .garbage :: callArgs ps r
      | [] => .garbage :: callArgs ps []
    else (if p.implied then .implied else .outp) :: callArgs ps slots

inductive Outcome where
  | ok (recv : List ArgV)
  | exc (e : Exn)
  deriving DecidableEq, Repr

/-- `switch (SH_nargs) { case n: f(first nc arguments); ... default: ValueError }`. -/
def switchCall (n : Nat) (ps : List Param) (slots : List (Option Val)) : Outcome :=
  match (defaultCalls 0 0 ps).find? (fun c => c.1 == n) with
  | some (_, nc) => .ok (callArgs (ps.take nc) slots ++ List.replicate (ps.length - nc) .dflt)
  | none => .exc .valueError

/-- one generated wrapper function called with positional `pos` and keyword dict `kw`. -/
def wrapper (src : CountSrc) (ps : List Param) (pos : List Val) (kw : Option (List (Nat × Val))) : Outcome :=
  match (if hasDefaultArg ps then countArgs src pos kw else .ok 0) with
  | .error e => .exc e
  | .ok n =>
    match parseArgs (fmtItems false ps) (kwlist ps) pos (kw.getD []) with
    | .error e => .exc e
    | .ok slots =>
      if foundDefault ps then switchCall n ps slots
      else .ok (callArgs ps slots)

/-! ### the specification -/

def supplied : List Param → List Val → List (Nat × Val) → List (Option Val)
  | [], _, _ => []
  | p :: vs, pos, kw => offered p.name pos kw :: supplied vs pos.tail kw

/-- what the library should receive given which visible parameters were supplied. -/
def specArgs : List Param → List (Option Val) → List ArgV
  | [], _ => []
  | p :: ps, slots =>
    if p.vis then
      match slots with
      | some v :: r => .val v :: specArgs ps r
      | none :: r => .dflt :: specArgs ps r
      | [] => .dflt :: specArgs ps []
    else (if p.implied then .implied else .outp) :: specArgs ps slots

/-- the supplied values where supplied, the library's defaults for the rest. -/
def spec (ps : List Param) (pos : List Val) (kw : List (Nat × Val)) : List ArgV :=
  specArgs ps (supplied (visible ps) pos kw)

/-- exactly the first `k` slots are filled. -/
def prefixMask : Nat → List (Option Val) → Bool
  | 0, slots => slots.all (·.isNone)
  | _ + 1, [] => false
  | _ + 1, none :: _ => false
  | k + 1, some _ :: r => prefixMask k r

/-- C++ rule: once a parameter has a default, every later parameter is a defaulted Python argument. -/
def trailing : List Param → Bool
  | [] => true
  | p :: ps => if p.vis && p.hasDefault then ps.all (fun q => q.vis && q.hasDefault) else trailing ps

/-- number of Python arguments that have a default. -/
def countDefaults (ps : List Param) : Nat := ps.countP (fun p => p.vis && p.hasDefault)

/-- some supplied value is rejected by its parameter's unit. -/
def badSupplied : List Param → List Val → List (Nat × Val) → Bool
  | [], _, _ => false
  | p :: vs, pos, kw =>
    (match offered p.name pos kw with
     | some v => !p.unit.ok v
     | none => false) || badSupplied vs pos.tail kw

/-! ### the generated constructor of a struct wrapped as a class (`PY_struct_arg: class`) -/

/-- `parse_format` of a `struct_as_class_ctor`: `|` is added before the first field, every field is optional. -/
def structFmt (fs : List Param) : List FmtItem :=
  match fs with
  | [] => []
  | _ => .bar :: fs.map (fun p => .unit p.unit)

def structField : Option Val → ArgV
  | some v => .val v
  | none => .dflt          -- the C variable is declared with an initial value (`int x = 0;`)

/-- the generated `tp_init`: parse, `new`, then `SH_obj->field = field;` for every field; there is no
argument-count switch, an unsupplied field keeps the initial value of its variable. -/
def structCtor (fs : List Param) (pos : List Val) (kw : Option (List (Nat × Val))) : Outcome :=
  match parseArgs (structFmt fs) (fs.map (·.name)) pos (kw.getD []) with
  | .error e => .exc e
  | .ok slots => .ok (slots.map structField)

/-! ### overload dispatch -/

/-- the arity window tested by `multi_dispatch` (Python-visible arguments; a range only when
`_nargs` was set, i.e. when the overload has a default argument). -/
def window (ps : List Param) : Nat × Nat :=
  let v := visible ps
  if hasDefaultArg ps then ((v.filter (fun p => !p.hasDefault)).length, v.length)
  else (v.length, v.length)

/-- try the overloads in order; index of the overload that answered. -/
def dispatchFrom (n : Nat) (run : List Param → Outcome) : Nat → List (List Param) → Option Nat × Outcome
  | _, [] => (none, .exc .typeError)            -- "wrong arguments multi-dispatch"
  | i, ps :: rest =>
    let w := window ps
    if w.1 ≤ n && n ≤ w.2 then
      match run ps with
      | .ok r => (some i, .ok r)
      | .exc .typeError => dispatchFrom n run (i + 1) rest     -- PyErr_Clear(); next overload
      | .exc e => (some i, .exc e)
    else dispatchFrom n run (i + 1) rest

def multiDispatch (src : CountSrc) (ovs : List (List Param)) (pos : List Val)
    (kw : Option (List (Nat × Val))) : Option Nat × Outcome :=
  match countArgs src pos kw with
  | .error e => (none, .exc e)
  | .ok n => dispatchFrom n (fun ps => wrapper src ps pos kw) 0 ovs

/-! ### result assembly -/

inductive Kind where
  | ctor | function | subroutine
  deriving DecidableEq, Repr

inductive Item where
  | result
  | outArg (name : Nat)
  deriving DecidableEq, Repr

/-- `build_tuples`: appended in the argument loop, the function result inserted at index 0 afterwards. -/
def buildTuples (k : Kind) (ps : List Param) : List Item :=
  let bt := ps.foldl (fun acc p => if p.isOut then acc ++ [Item.outArg p.name] else acc) []
  if k = .function then bt.insertIdx 0 .result else bt

/-- `PyBuild_format`: the build units of the returned items, in `build_tuples` order. -/
def buildFormat (k : Kind) (ps : List Param) (resUnit : List Nat) (unitOf : Nat → List Nat) : List Nat :=
  (buildTuples k ps).flatMap (fun it => match it with
    | .result => resUnit
    | .outArg n => unitOf n)

inductive PyRet where
  | zero                       -- tp_init: `return 0`
  | none                       -- `Py_RETURN_NONE`
  | single (x : Item)          -- `return (PyObject *) obj`
  | tuple (xs : List Item)     -- `Py_BuildValue("..", ...)`
  deriving DecidableEq, Repr

/-- `Py_RETURN_NONE` / the single object / `Py_BuildValue` of all of them. -/
def shapeOf : List Item → PyRet
  | [] => .none
  | [x] => .single x
  | xs => .tuple xs

def returnShape (k : Kind) (ps : List Param) : PyRet :=
  if k = .ctor then .zero else shapeOf (buildTuples k ps)

end Shroud.PyDispatch
