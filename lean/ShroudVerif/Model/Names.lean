/-
Model of the wrapper-name machinery of Shroud (engine E-names; property C08):

* `shroud/util.py: un_camel`
* `shroud/ast.py: LibraryNode.default_options` name templates and `AstNode.eval_template`
* `shroud/generate.py: GenFunctions.define_function_suffix` with `has_default_args`,
  `template_function`, the overload numbering, `arg_to_buffer` (clone and suffix only),
  `generic_function` (clones and suffixes only) and `Namify`
* `shroud/wrapf.py`: the `f_function_generic` table that `dump_generic_interfaces` prints.

Strings are `List Char`.  Imports nothing outside core Lean so that the
line-protocol driver links as a `lean_exe`.
-/
namespace Shroud.Names

abbrev Str := List Char

/-! ## `util.un_camel` -/

/-- `str.isupper()` of a one-character string, on ASCII (C++ identifiers). -/
def isUpper (c : Char) : Bool := 65 ≤ c.toNat && c.toNat ≤ 90
/-- `str.islower()` of a one-character string, on ASCII. -/
def isLower (c : Char) : Bool := 97 ≤ c.toNat && c.toNat ≤ 122
/-- `str.lower()` of a one-character string, on ASCII. -/
def toLower (c : Char) : Char := if isUpper c then Char.ofNat (c.toNat + 32) else c

/-- Python `str.lower()` (ASCII). -/
def lower (s : Str) : Str := s.map toLower

def optLower : Option Char → Bool
  | some c => isLower c
  | none => false

/-- The `while pos < len(text)` loop of `un_camel`; `pos` is the index of the head of the
    remaining text and `prev` the character before it.  Note the Python condition
    `pos - 1 > 0`, i.e. `pos ≥ 2`: an upper-case letter at index 0 or 1 never gets an
    underscore. -/
def unCamelAux : Nat → Option Char → Str → Str
  | _, _, [] => []
  | pos, prev, c :: rest =>
    (if isUpper c then
       if (decide (pos ≥ 2) && optLower prev) || (decide (pos ≥ 2) && optLower rest.head?) then
         ['_', toLower c]
       else [toLower c]
     else [c]) ++ unCamelAux (pos + 1) (some c) rest

def unCamel (s : Str) : Str := unCamelAux 0 none s

/-! ## name templates -/

/-- The format fields the four name templates refer to. -/
inductive Field where
  | C_prefix | C_name_scope | F_C_prefix | F_name_scope
  | underscore_name | function_suffix | template_suffix
  deriving Repr, DecidableEq

inductive Seg where
  | lit (s : Str)
  | fld (f : Field)
  deriving Repr, DecidableEq

abbrev Tmpl := List Seg

structure Env where
  cPrefix : Str
  cScope : Str
  fcPrefix : Str
  fScope : Str
  underscore : Str
  sfx : Str
  tsfx : Str
  deriving Repr

def Env.get (e : Env) : Field → Str
  | .C_prefix => e.cPrefix
  | .C_name_scope => e.cScope
  | .F_C_prefix => e.fcPrefix
  | .F_name_scope => e.fScope
  | .underscore_name => e.underscore
  | .function_suffix => e.sfx
  | .template_suffix => e.tsfx

/-- `util.wformat(template, fmt)` for templates made of literals and `{field}`. -/
def evalTemplate (t : Tmpl) (e : Env) : Str :=
  t.flatMap fun
    | .lit s => s
    | .fld f => e.get f

open Field in
/-- `options.C_name_template`. -/
def C_name_template : Tmpl :=
  [.fld C_prefix, .fld C_name_scope, .fld underscore_name, .fld function_suffix, .fld template_suffix]
open Field in
/-- `options.F_C_name_template`. -/
def F_C_name_template : Tmpl :=
  [.fld F_C_prefix, .fld F_name_scope, .fld underscore_name, .fld function_suffix, .fld template_suffix]
open Field in
/-- `options.F_name_impl_template`. -/
def F_name_impl_template : Tmpl :=
  [.fld F_name_scope, .fld underscore_name, .fld function_suffix, .fld template_suffix]
open Field in
/-- `options.F_name_function_template`. -/
def F_name_function_template : Tmpl :=
  [.fld underscore_name, .fld function_suffix, .fld template_suffix]
open Field in
/-- `options.F_name_generic_template`. -/
def F_name_generic_template : Tmpl := [.fld underscore_name]

/-! ## descriptions -/

/-- Python `"{}".format(i)` / `str(i)` for a natural number. -/
def decimal (n : Nat) : Str := Nat.toDigits 10 n

/-- The automatically generated suffix `"_{}".format(i)`. -/
def autoSuffix (i : Nat) : Str := '_' :: decimal i

/-- One entry of `cxx_template`. -/
structure TInst where
  explicit : Option Str     -- format: template_suffix
  nargs : Nat               -- number of template arguments
  flat : Str                -- `typemap.template_suffix` or `"_" + flat_name` of the first argument
  deriving Repr, DecidableEq

/-- The suffix derived from the template arguments: the type's suffix for a single argument,
    else the sequence number. -/
def TInst.derived (t : TInst) (iargs : Nat) : Str :=
  if t.nargs == 1 then t.flat else autoSuffix iargs

/-- `template_function`: "Use explicit template_suffix if provided ..." (`iargs` = index);
    `if fmt.template_suffix: pass` also sees a `template_suffix` inherited from an enclosing
    class instantiation (`inherited`). -/
def TInst.suffix (t : TInst) (inherited : Str) (iargs : Nat) : Str :=
  match t.explicit with
  | some (c :: cs) => c :: cs
  | _ => if inherited.isEmpty then t.derived iargs else inherited

/-- `instantiate_classes`: `class_suffix` -- an explicit `template_suffix` counts as soon as
    the key is present (even empty). -/
def TInst.classSuffix (t : TInst) (i : Nat) : Str :=
  match t.explicit with
  | some s => s
  | none => t.derived i

/-- A function declaration of the input. -/
structure Wrap where
  c : Bool
  f : Bool
  py : Bool
  lua : Bool
  deriving Repr, DecidableEq

structure Fn where
  name : Str                   -- ast.name ("ctor" for a constructor)
  nparams : Nat
  ndefaults : Nat              -- number of trailing parameters with a default value
  suffix : Option Str          -- format: function_suffix
  dsuffix : List Str           -- default_arg_suffix
  tinst : List TInst           -- cxx_template (function template iff non-empty)
  generics : List (Option Str) -- fortran_generic entries: explicit function_suffix or none
  hasBuf : Bool                -- an argument needs a bufferify clone (std::string), kept by every clone
  isCtor : Bool
  usesT : Bool                 -- `have_template_args`: result/argument of a class template parameter type
  cppIf : Option Str           -- `cpp_if:` preprocessor condition of the declaration
  wrapOpt : Option Wrap := none -- wrap_c / wrap_fortran / wrap_python / wrap_lua in the declaration's `options:`
  cfi : Bool := false          -- option F_CFI: the clone for Fortran is made by `arg_to_CFI`
  deriving Repr, DecidableEq

inductive Gen where
  | none | defaultArg | cxxTemplate | bufferify | fortranGeneric | cfi
  deriving Repr, DecidableEq

/-- Where a list of functions lives: `fmtdict` values of the enclosing node and the
    wrap options (`WrapFlags(options)`). -/
structure Scope where
  cPrefix : Str      -- C_prefix
  cScope : Str       -- C_name_scope
  fScope : Str       -- F_name_scope
  derived : Str      -- F_derived_name (classes)
  isClass : Bool     -- the functions are class members
  tsfx0 : Str        -- template_suffix inherited from a class instantiation (`format: template_suffix`)
  w0 : Wrap
  deriving Repr, DecidableEq

/-- A `FunctionNode` as far as names are concerned. -/
structure Rec where
  name : Str
  arity : Nat
  fullArity : Nat
  gen : Gen
  wrap : Wrap
  sfx : Str               -- fmtdict.function_suffix
  sfxLocal : Bool         -- fmtdict.inlocal("function_suffix")
  tsfx : Str              -- fmtdict.template_suffix
  overloaded : Bool       -- _overloaded
  templated : Bool        -- bool(template_arguments)
  generics : List Str     -- fortran_generic suffixes still attached
  hasBuf : Bool
  isCtor : Bool
  key : Str               -- key in `overloaded_functions`
  hasDefault : Bool       -- a parameter of the declaration has a default value
  cppIf : Option Str      -- cpp_if (shared by every clone)
  cfi : Bool := false     -- options.F_CFI (shared by every clone)
  deriving Repr, DecidableEq

/-- `clean_dictionary`: `function_suffix=dct.get("function_suffix", "_" + str(isuffix))`. -/
def genericSuffixes : Nat → List (Option Str) → List Str
  | _, [] => []
  | i, some s :: rest => s :: genericSuffixes (i + 1) rest
  | i, none :: rest => autoSuffix i :: genericSuffixes (i + 1) rest

/-- `WrapFlags(node.options)`: the scope's wrap options unless the declaration overrides them. -/
def Fn.w0 (sc : Scope) (f : Fn) : Wrap := f.wrapOpt.getD sc.w0

def Fn.base (sc : Scope) (f : Fn) : Rec :=
  { name := f.name, arity := f.nparams, fullArity := f.nparams, gen := .none, wrap := f.w0 sc,
    sfx := f.suffix.getD [], sfxLocal := f.suffix.isSome, tsfx := sc.tsfx0, overloaded := false,
    templated := !f.tinst.isEmpty || f.usesT, generics := genericSuffixes 0 f.generics,
    hasBuf := f.hasBuf, isCtor := f.isCtor,
    key := if f.isCtor then sc.derived else f.name,
    hasDefault := decide (f.ndefaults > 0), cppIf := f.cppIf, cfi := f.cfi }

/-- `has_default_args`: the `k`-th clone (parameters `[:nparams - ndefaults + k]`). -/
def defaultClone (sc : Scope) (f : Fn) (k : Nat) : Rec :=
  { f.base sc with
    arity := f.nparams - f.ndefaults + k
    gen := .defaultArg
    wrap := ⟨(f.w0 sc).c, (f.w0 sc).f, false, false⟩   -- `new.wrap.assign(c=node.wrap.c, fortran=node.wrap.fortran)`
    sfx := match f.dsuffix[k]? with
      | some s => s
      | none => f.suffix.getD []
    sfxLocal := (f.dsuffix[k]?).isSome || f.suffix.isSome }

/-- The declared node after `has_default_args` (only called when there is a default). -/
def original (sc : Scope) (f : Fn) : Rec :=
  if f.ndefaults = 0 then f.base sc
  else match f.dsuffix[f.ndefaults]? with
    | some s => { f.base sc with sfx := s, sfxLocal := true }
    | none => f.base sc

/-- `template_function`: one clone per instantiation. -/
def templateClones (o : Rec) (w0 : Wrap) : Nat → List TInst → List Rec
  | _, [] => []
  | i, t :: ts =>
    { o with gen := .cxxTemplate, wrap := w0, tsfx := t.suffix o.tsfx i, overloaded := true }
      :: templateClones o w0 (i + 1) ts

/-- `has_default_args` applied to an instantiated template clone `c`: the `k`-th variant. -/
def variantClone (f : Fn) (c : Rec) (k : Nat) : Rec :=
  { c with
    arity := f.nparams - f.ndefaults + k
    gen := .defaultArg
    wrap := ⟨c.wrap.c, c.wrap.f, false, false⟩
    sfx := match f.dsuffix[k]? with
      | some s => s
      | none => c.sfx
    sfxLocal := (f.dsuffix[k]?).isSome || c.sfxLocal }

/-- The instantiated clone itself after `has_default_args`. -/
def variantLast (f : Fn) (c : Rec) : Rec :=
  match f.dsuffix[f.ndefaults]? with
  | some s => { c with sfx := s, sfxLocal := true }
  | none => c

/-- "Template clones are not part of the overload numbering; number the variants here." -/
def numberVariants : Nat → List Rec → List Rec
  | _, [] => []
  | i, r :: rest =>
    (if r.sfxLocal then r else { r with sfx := autoSuffix i }) :: numberVariants (i + 1) rest

/-- Default-argument variants of one instantiation, numbered. -/
def variants (f : Fn) (c : Rec) : List Rec :=
  numberVariants 0 ((List.range f.ndefaults).map (variantClone f c) ++ [variantLast f c])

/-- The instantiated clone `template_function2` makes of a member that uses the class template
    parameter. -/
def usesTClone (sc : Scope) (f : Fn) : Rec :=
  { f.base sc with gen := .cxxTemplate, wrap := f.w0 sc, templated := false }

/-- First loop of `define_function_suffix` for one declared function.  A function template
    with default arguments is instantiated first; the default-argument variants are made per
    instantiation. -/
def stage1Fn (sc : Scope) (f : Fn) : List Rec :=
  if f.tinst.isEmpty then
    if f.usesT then
      -- `template_function2`: the declared node is switched off (and stays out of the overload
      -- numbering), one clone is wrapped; its default-argument variants are made from the
      -- instantiated clone; clone and variants are numbered like any other overload set
      if f.ndefaults = 0 then
        [{ f.base sc with wrap := ⟨false, false, false, false⟩ }, usesTClone sc f]
      else
        { f.base sc with wrap := ⟨false, false, false, false⟩ }
          :: ((List.range f.ndefaults).map (variantClone f (usesTClone sc f))
              ++ [variantLast f (usesTClone sc f)])
    else (List.range f.ndefaults).map (defaultClone sc f) ++ [original sc f]
  else if f.ndefaults = 0 then
    { f.base sc with overloaded := true, wrap := ⟨false, false, false, false⟩ }
      :: templateClones (f.base sc) (f.w0 sc) 0 f.tinst
  else
    { f.base sc with overloaded := true, wrap := ⟨false, false, false, false⟩ }
      :: (templateClones (f.base sc) (f.w0 sc) 0 f.tinst).flatMap (variants f)

def stage1 (sc : Scope) (fs : List Fn) : List Rec := fs.flatMap (stage1Fn sc)

/-! ## overload numbering -/

def eligible (r : Rec) : Bool := !r.templated
def inGroup (k : Str) (r : Rec) : Bool := eligible r && r.key == k

/-- What the "look for function overload and compute function_suffix" loops do to one
    node: `size` is the length of its `overloaded_functions` list, `i` its index in it. -/
def renumber (size i : Nat) (r : Rec) : Rec :=
  if eligible r then
    let r1 := if r.isCtor then { r with overloaded := true } else r
    if size > 1 then
      { r1 with overloaded := true, sfx := if r.sfxLocal then r.sfx else autoSuffix i }
    else r1
  else r

def numberAux (all : List Rec) : List Rec → List Rec → List Rec
  | _, [] => []
  | seen, r :: rest =>
    renumber (all.countP (inGroup r.key)) (seen.countP (inGroup r.key)) r
      :: numberAux all (seen ++ [r]) rest

def number (l : List Rec) : List Rec := numberAux l [] l

/-- Default-argument clones, template clones and overload numbering. -/
def core (sc : Scope) (fs : List Fn) : List Rec := number (stage1 sc fs)

/-! ## bufferify and fortran_generic clones -/

/-- `fmt.C_bufferify_suffix` (default). -/
def bufSuffix : Str := "_bufferify".toList
/-- `fmt.C_cfi_suffix` (default). -/
def cfiSuffix : Str := "_CFI".toList

/-- The suffix the clone made for Fortran appends to the `function_suffix` it inherits:
    `arg_to_CFI` with option `F_CFI`, else `arg_to_buffer`. -/
def cloneSuffix (r : Rec) : Str := if r.cfi then cfiSuffix else bufSuffix

/-- Is a clone made?  `arg_to_buffer` returns early without a C wrapper (`node.wrap.c is False`) and
    makes the clone for Fortran only; `arg_to_CFI` only asks for the Fortran wrapper. -/
def hasClone (r : Rec) : Bool := (r.cfi || r.wrap.c) && r.wrap.f && r.hasBuf

/-- "Create additional C bufferify functions": `arg_to_CFI` when `options.F_CFI` (it is `done`
    whenever a string argument is there), else `arg_to_buffer`.  The clone is a copy of the node
    (`node.clone()`) whose `function_suffix` is extended; its names are evaluated afterwards
    from the templates. -/
def bufferifyRec (r : Rec) : List Rec :=
  if hasClone r then
    [r, { r with gen := if r.cfi then .cfi else .bufferify, wrap := ⟨true, false, false, false⟩,
                 sfx := r.sfx ++ cloneSuffix r, sfxLocal := true }]
  else [r]

def genericRec (r : Rec) : List Rec :=
  if r.wrap.f && !r.generics.isEmpty then
    { r with overloaded := true, wrap := { r.wrap with f := false } } ::
      r.generics.map fun g =>
        { r with gen := .fortranGeneric, wrap := ⟨false, true, false, false⟩, overloaded := true,
                 sfx := r.sfx ++ g, sfxLocal := true, arity := r.fullArity, generics := [] }
  else [r]

/-- `define_function_suffix` (without `return_this`, assumed rank and the
    `fortran_generic_c` variant). -/
def expand (sc : Scope) (fs : List Fn) : List Rec :=
  ((core sc fs).flatMap bufferifyRec).flatMap genericRec

/-! ## `Namify` -/

def Rec.env (sc : Scope) (r : Rec) : Env :=
  { cPrefix := sc.cPrefix, cScope := sc.cScope, fcPrefix := "c_".toList, fScope := sc.fScope,
    underscore := unCamel r.name, sfx := r.sfx, tsfx := r.tsfx }

def cName (sc : Scope) (r : Rec) : Str := evalTemplate C_name_template (r.env sc)
def fcName (sc : Scope) (r : Rec) : Str := lower (evalTemplate F_C_name_template (r.env sc))
def fImpl (sc : Scope) (r : Rec) : Str := evalTemplate F_name_impl_template (r.env sc)
def fFunction (sc : Scope) (r : Rec) : Str := evalTemplate F_name_function_template (r.env sc)
def fGeneric (sc : Scope) (r : Rec) : Str :=
  if r.isCtor && !r.templated then sc.derived else evalTemplate F_name_generic_template (r.env sc)

/-- The names `Namify` stores (absent when the corresponding wrapper is off; the
    constructor's `F_name_generic` is set by `define_function_suffix` itself). -/
structure Names where
  C_name : Option Str
  F_C_name : Option Str
  F_name_impl : Option Str
  F_name_function : Option Str
  F_name_generic : Option Str
  deriving Repr, DecidableEq

def names (sc : Scope) (r : Rec) : Names :=
  { C_name := if r.wrap.c then some (cName sc r) else none
    F_C_name := if r.wrap.c then some (fcName sc r) else none
    F_name_impl := if r.wrap.f then some (fImpl sc r) else none
    F_name_function := if r.wrap.f then some (fFunction sc r) else none
    F_name_generic :=
      if (r.isCtor && !r.templated) || r.wrap.f then some (fGeneric sc r) else none }

/-! ## generic interfaces (`wrapf`: `f_function_generic.setdefault(key, ...).functions.append(node)`) -/

/-- `dict.setdefault(key, []).append(v)` on an insertion-ordered association list. -/
def tableAdd (key : Str) (v : Str) : List (Str × List Str) → List (Str × List Str)
  | [] => [(key, [v])]
  | (k, vs) :: rest => if k = key then (k, vs ++ [v]) :: rest else (k, vs) :: tableAdd key v rest

/-- Key of the generic interface a Fortran wrapper is filed under: constructors and class
    members (`f_type_generic`) use `F_name_generic` alone, free functions
    `F_name_scope + F_name_generic` (the scope is non-empty inside a flattened namespace). -/
def genericKey (sc : Scope) (r : Rec) : Str :=
  if sc.isClass then fGeneric sc r else sc.fScope ++ fGeneric sc r

/-- A member function of a class is filed in the per-class table `f_type_generic` (printed as
    `generic :: key => ...` inside the derived type); constructors and free functions in the
    per-module table `f_function_generic` (printed as `interface key`). -/
def typeBound (sc : Scope) (r : Rec) : Bool := sc.isClass && !r.isCtor
def moduleLevel (sc : Scope) (r : Rec) : Bool := !typeBound sc r

/-- What the table lists: the binding name `F_name_function` for a type-bound generic,
    the procedure name `F_name_impl` for an interface. -/
def genericMember (sc : Scope) (r : Rec) : Str :=
  if typeBound sc r then fFunction sc r else fImpl sc r

/-- The table of the kind selected by `sel` (`typeBound sc` for the class being wrapped --
    `begin_class` starts it empty -- or `moduleLevel sc`) after wrapping the records in order. -/
def genericTable (sc : Scope) (sel : Rec → Bool) :
    List Rec → List (Str × List Str) → List (Str × List Str)
  | [], t => t
  | r :: rest, t =>
    genericTable sc sel rest
      (if r.wrap.f && sel r then tableAdd (genericKey sc r) (genericMember sc r) t else t)

/-! ### members under preprocessor conditions -/

/-- The members filed under `key` with their own `cpp_if`. -/
def genericMembersCond (sc : Scope) (sel : Rec → Bool) (recs : List Rec) (key : Str) :
    List (Str × Option Str) :=
  (recs.filter fun r => r.wrap.f && sel r && genericKey sc r == key).map
    fun r => (genericMember sc r, r.cppIf)

/-- `wrap_class`: the `generic :: key => ...` lines of one type-bound generic as
    (condition of the line, bindings): one line for all when no member is conditional, else one
    line per member inside the member's own `#if`. -/
def typeGenericLines (ms : List (Str × Option Str)) : List (Option Str × List Str) :=
  if ms.any (fun m => m.2.isSome) then ms.map (fun m => (m.2, [m.1]))
  else [(none, ms.map (·.1))]

/-- `dump_generic_interfaces`: (condition around the interface, (condition, procedure) of each
    `module procedure` line): the common condition is promoted to the interface when all
    members carry the same one. -/
def interfaceLines (ms : List (Str × Option Str)) : Option Str × List (Option Str × Str) :=
  match ms with
  | [] => (none, [])
  | m0 :: _ =>
    if m0.2.isSome && ms.all (fun m => m.2 == m0.2) then (m0.2, ms.map (fun m => (none, m.1)))
    else (none, ms.map (fun m => (m.2, m.1)))

/-- Condition in force for a line: that of the enclosing block or its own. -/
def effective (outer inner : Option Str) : Option Str :=
  match outer with
  | some c => some c
  | none => inner

def tableGet (key : Str) : List (Str × List Str) → List Str
  | [] => []
  | (k, vs) :: rest => if k = key then vs else tableGet key rest

/-! ## Python and Lua method tables (`wrapp.wrap_functions` / `multi_dispatch`, `wrapl.wrap_functions`) -/

/-- Keep the first occurrence of every element (Python dict insertion order). -/
def dedupAux : List Str → List Str → List Str
  | _, [] => []
  | seen, a :: rest => if a ∈ seen then dedupAux seen rest else a :: dedupAux (a :: seen) rest
def dedup (l : List Str) : List Str := dedupAux [] l

/-- `overloaded_methods[name]`: the Python-wrapped nodes of one C++ name. -/
def pyCount (recs : List Rec) (n : Str) : Nat := recs.countP fun r => r.wrap.py && r.name == n

/-- A wrapper that gets its own `PyMethodDef` entry: Python-wrapped, not a constructor, the only
    one of its name. -/
def pySingle (recs : List Rec) (r : Rec) : Bool :=
  r.wrap.py && !r.isCtor && pyCount recs r.name == 1

/-- `"{function_name}{function_suffix}{template_suffix}"`; a wrapper that handles default
    arguments itself is entered without function suffix. -/
def pyKey (r : Rec) : Str := r.name ++ ((if r.hasDefault then [] else r.sfx) ++ r.tsfx)

/-- Names that get a multi-dispatch entry: two or more Python-wrapped nodes, not constructors. -/
def pyDispatch (recs : List Rec) : List Str :=
  (dedup ((recs.filter fun r => r.wrap.py && !r.isCtor).map (·.name))).filter fun n => pyCount recs n ≥ 2

/-- Keys of the `PyMethodDef` table of a scope in order: single wrappers while wrapping, then
    the dispatchers. -/
def pyTable (recs : List Rec) : List Str :=
  (recs.filter (pySingle recs)).map pyKey ++ pyDispatch recs

/-- Keys of the `luaL_Reg` entries a scope contributes: one per C++ name of the Lua-wrapped
    nodes (`LUA_name = function_name`); constructors are registered under the class name. -/
def luaTable (recs : List Rec) : List Str :=
  dedup ((recs.filter fun r => r.wrap.lua && !r.isCtor).map (·.name))

/-! ## scopes from a declaration path -/

inductive PathSeg where
  | ns (name : Str)
  | nsf (name : Str)     -- namespace with option F_flatten_namespace
  | cls (name : Str)
  | clsT (name : Str) (t : TInst) (i : Nat)   -- i-th instantiation of a class template
  deriving Repr, DecidableEq

/-- `NamespaceNode.default_format` / `ClassNode.default_format` (default options:
    `C_API_case` native, no `flatten_namespace`). -/
def scopeOf (cPrefix : Str) (w0 : Wrap) : List PathSeg → Scope → Scope
  | [], sc => sc
  | .ns n :: rest, sc =>
    scopeOf cPrefix w0 rest { sc with cScope := sc.cScope ++ n ++ ['_'], isClass := false }
  | .nsf n :: rest, sc =>
    scopeOf cPrefix w0 rest
      { sc with cScope := sc.cScope ++ n ++ ['_'], fScope := sc.fScope ++ lower n ++ ['_'],
                isClass := false }
  | .cls n :: rest, sc =>
    scopeOf cPrefix w0 rest
      { sc with cScope := sc.cScope ++ n ++ ['_'], fScope := sc.fScope ++ lower n ++ ['_'],
                derived := lower n, isClass := true }
  | .clsT n t i :: rest, sc =>
    -- `instantiate_classes`: cxx_class = name + class_suffix; the instantiation's format
    -- dictionary (template_suffix) is copied into the class
    scopeOf cPrefix w0 rest
      { sc with cScope := sc.cScope ++ (n ++ t.classSuffix i) ++ ['_'],
                fScope := sc.fScope ++ lower (n ++ t.classSuffix i) ++ ['_'],
                derived := lower (n ++ t.classSuffix i), isClass := true,
                tsfx0 := match t.explicit with
                  | some s => s
                  | none => sc.tsfx0 }

def rootScope (cPrefix : Str) (w0 : Wrap) : Scope :=
  { cPrefix := cPrefix, cScope := [], fScope := [], derived := [], isClass := false, tsfx0 := [], w0 := w0 }

/-- `LibraryNode.default_format`: `C_prefix = library.upper()[:3] + "_"` (ASCII). -/
def toUpper (c : Char) : Char := if isLower c then Char.ofNat (c.toNat - 32) else c
def libraryPrefix (library : Str) : Str := (library.map toUpper).take 3 ++ ['_']

end Shroud.Names
