/-
Lexical models used by property C16 ("documentation and debug options change
comments only"): comment removal for C/C++ (`stripC`) and free-form Fortran
(`stripF`), a whitespace-insensitive token structure (`tokens`) and the checker
`commentOnlyDiff`.

Both strippers are one-character-at-a-time state machines (`stepC`, `stepF`)
so that the lexer state at any position of a file is a well defined value: the
theorems in `Props/C16.lean` use it as the invariant.

What is modelled
* C/C++: `//` comments (a backslash-newline continues the comment), `/* */`
  comments (replaced by one blank, newlines inside it are *not* line ends),
  string and character literals with backslash escapes (an unterminated literal
  ends at the newline, as the compilers' error recovery does).  Not modelled:
  trigraphs, splices outside comments/literals, raw strings, `#if 0`.
* Fortran free form: `!` outside character context starts a comment, both
  quote kinds delimit character context (a doubled quote re-enters it at once),
  `&` as last non-blank before the line end / a comment continues the
  statement, comment and blank lines between continued lines are skipped, a
  leading `&` on the continuation line joins without a separator.  Not
  modelled: continuation inside character context, fixed form, `;`.

Imports nothing outside core Lean so that the line-protocol driver links.
-/
namespace Shroud.Lex

inductive Lang where
  | c | f
  deriving Repr, DecidableEq

/-- One element of a stripped text. `ch`: a non-blank character of code;
    `lit`: a character of a string/character literal (quotes included);
    `sp`: separator (blanks, or a removed comment); `nl`: end of a logical line. -/
inductive Out where
  | ch (c : Char)
  | lit (c : Char)
  | sp
  | nl
  deriving Repr, DecidableEq

def isBlank (c : Char) : Bool :=
  c = ' ' || c = '\t' || c = '\r' || c = Char.ofNat 11 || c = Char.ofNat 12

/-- what a character contributes in code context -/
def codeOut (c : Char) : Out :=
  if c = '\n' then .nl else if isBlank c then .sp else .ch c

/-! ### generic state machine runner -/

/-- Run a transducer over a text: final state and concatenated output. -/
def run {σ : Type} (step : σ → Char → σ × List Out) : σ → List Char → σ × List Out
  | s, [] => (s, [])
  | s, c :: cs =>
    let r := step s c
    let r2 := run step r.1 cs
    (r2.1, r.2 ++ r2.2)

/-- tail-recursive implementation used by compiled code (long files) -/
def runTR.go {σ : Type} (step : σ → Char → σ × List Out) : σ → List Char → Array Out → σ × List Out
  | s, [], acc => (s, acc.toList)
  | s, c :: cs, acc =>
    let r := step s c
    runTR.go step r.1 cs (acc ++ r.2)

def runTR {σ : Type} (step : σ → Char → σ × List Out) (s : σ) (t : List Char) : σ × List Out :=
  runTR.go step s t #[]

theorem runTR_go_eq {σ : Type} (step : σ → Char → σ × List Out) (t : List Char) :
    ∀ (s : σ) (acc : Array Out),
      runTR.go step s t acc = ((run step s t).1, acc.toList ++ (run step s t).2) := by
  induction t with
  | nil => intro s acc; simp [runTR.go, run]
  | cons c cs ih => intro s acc; simp [runTR.go, run, ih, List.append_assoc]

@[csimp] theorem run_eq_runTR : @run = @runTR := by
  funext σ step s t
  simp [runTR, runTR_go_eq]

/-! ### C / C++ -/

inductive CSt where
  | code | slash | line | lineEsc | block | blockStar | str | strEsc | chr | chrEsc
  deriving Repr, DecidableEq

def stepCodeC (c : Char) : CSt × List Out :=
  if c = '/' then (.slash, [])
  else if c = '"' then (.str, [.lit c])
  else if c = '\'' then (.chr, [.lit c])
  else (.code, [codeOut c])

def stepC : CSt → Char → CSt × List Out
  | .code, c => stepCodeC c
  | .slash, c =>
    if c = '/' then (.line, [.sp])
    else if c = '*' then (.block, [.sp])
    else ((stepCodeC c).1, .ch '/' :: (stepCodeC c).2)
  | .line, c =>
    if c = '\n' then (.code, [.nl]) else if c = '\\' then (.lineEsc, []) else (.line, [])
  | .lineEsc, c => if c = '\\' then (.lineEsc, []) else (.line, [])
  | .block, c => if c = '*' then (.blockStar, []) else (.block, [])
  | .blockStar, c =>
    if c = '/' then (.code, []) else if c = '*' then (.blockStar, []) else (.block, [])
  | .str, c =>
    if c = '"' then (.code, [.lit c]) else if c = '\\' then (.strEsc, [.lit c])
    else if c = '\n' then (.code, [.nl]) else (.str, [.lit c])
  | .strEsc, c => (.str, [.lit c])
  | .chr, c =>
    if c = '\'' then (.code, [.lit c]) else if c = '\\' then (.chrEsc, [.lit c])
    else if c = '\n' then (.code, [.nl]) else (.chr, [.lit c])
  | .chrEsc, c => (.chr, [.lit c])

/-- pending output at end of input -/
def flushC : CSt → List Out
  | .slash => [.ch '/']
  | _ => []

def stripC (t : List Char) : List Out :=
  (run stepC .code t).2 ++ flushC (run stepC .code t).1

/-! ### Fortran, free form -/

inductive FSt where
  | code | str (q : Char) | comment | amp | ampComment | cont | contComment
  deriving Repr, DecidableEq

def stepCodeF (c : Char) : FSt × List Out :=
  if c = '!' then (.comment, [.sp])
  else if c = '\'' then (.str c, [.lit c])
  else if c = '"' then (.str c, [.lit c])
  else if c = '&' then (.amp, [])
  else (.code, [codeOut c])

def stepF : FSt → Char → FSt × List Out
  | .code, c => stepCodeF c
  | .str q, c =>
    if c = '\n' then (.code, [.nl]) else if c = q then (.code, [.lit c]) else (.str q, [.lit c])
  | .comment, c => if c = '\n' then (.code, [.nl]) else (.comment, [])
  | .amp, c =>
    if c = '\n' then (.cont, [])
    else if isBlank c then (.amp, [])
    else if c = '!' then (.ampComment, [])
    else if c = '&' then (.code, [.ch '&', .ch '&'])
    else ((stepCodeF c).1, .ch '&' :: (stepCodeF c).2)
  | .ampComment, c => if c = '\n' then (.cont, []) else (.ampComment, [])
  | .cont, c =>
    if c = '\n' then (.cont, [])
    else if isBlank c then (.cont, [])
    else if c = '!' then (.contComment, [])
    else if c = '&' then (.code, [])
    else ((stepCodeF c).1, .sp :: (stepCodeF c).2)
  | .contComment, c => if c = '\n' then (.cont, []) else (.contComment, [])

def flushF : FSt → List Out
  | .amp => [.ch '&']
  | _ => []

def stripF (t : List Char) : List Out :=
  (run stepF .code t).2 ++ flushF (run stepF .code t).1

def strip : Lang → List Char → List Out
  | .c => stripC
  | .f => stripF

/-! ### tokens -/

/-- A token: a run of `ch`/`lit` elements (no separator inside).  `tokens` produces the
    maximal blank-free runs (chunks); `refine` below splits them into language tokens. -/
abbrev Tok := List Out

/-- Parse state for the suffix being scanned: the (possibly empty) token that
    starts at its first position, the remaining tokens of its first line, the
    remaining non-empty lines. -/
structure Acc where
  tok : Tok
  line : List Tok
  rest : List (List Tok)
  deriving Repr, DecidableEq

def pushTok (t : Tok) (l : List Tok) : List Tok := if t.isEmpty then l else t :: l

def pushLine (l : List Tok) (ls : List (List Tok)) : List (List Tok) :=
  if l.isEmpty then ls else l :: ls

def consOut (o : Out) (a : Acc) : Acc :=
  match o with
  | .sp => ⟨[], pushTok a.tok a.line, a.rest⟩
  | .nl => ⟨[], [], pushLine (pushTok a.tok a.line) a.rest⟩
  | o => ⟨o :: a.tok, a.line, a.rest⟩

def parse (os : List Out) : Acc := os.foldr consOut ⟨[], [], []⟩

def close (a : Acc) : List (List Tok) := pushLine (pushTok a.tok a.line) a.rest

/-- The non-empty logical lines of a stripped text, each a non-empty list of tokens. -/
def tokens (os : List Out) : List (List Tok) := close (parse os)

/-! ### language-level tokens

`tokens` splits at blanks only.  `lexChunk` splits each blank-free chunk further into
language tokens.  It is total and deterministic and its tokens concatenate to the chunk,
so two texts with equal refined tokens differ only by blanks placed at refined token
boundaries; it is kept *coarser or equal* to the compilers' tokens wherever it is not exact
(an identifier glued to an adjacent literal as in `L"x"` or `c_char_"x"`, adjacent
literals, `..`, Fortran names joined by dots as in `a.eq.b`), so that a blank can never be
moved into or out of a compiler token unnoticed. -/

structure LexCfg where
  isWord : Char → Bool          -- characters of identifiers and numbers
  puncts : List (List Char)     -- multi-character punctuators (with the prefixes needed for greedy growth)
  expo : Char → Bool            -- exponent letters after which a sign continues a number
  dotNumber : Bool              -- a `.` followed by a digit starts a number (C: `.5`)

def outChar : Out → Char
  | .ch c => c
  | .lit c => c
  | .sp => ' '
  | .nl => '\n'

def isLit : Out → Bool
  | .lit _ => true
  | _ => false

def flushTok (cur : Tok) : List Tok := if cur.isEmpty then [] else [cur]

def lastIsExpo (cfg : LexCfg) (cur : Tok) : Bool :=
  match cur.getLast? with
  | some (.ch c) => cfg.expo c
  | _ => false

/-- kind of the token a character starts: 1 word (identifier, literal), 2 number, 3 punctuator -/
def startKind (cfg : LexCfg) (o : Out) (nextDigit : Bool) : Nat :=
  if isLit o then 1
  else if (outChar o).isDigit then 2
  else if cfg.dotNumber && outChar o = '.' && nextDigit then 2
  else if cfg.isWord (outChar o) then 1
  else 3

/-- can `o` extend the token `cur` of kind `k`? -/
def canExtend (cfg : LexCfg) (cur : Tok) (k : Nat) (o : Out) (nextDigit : Bool) : Bool :=
  let c := outChar o
  if k = 1 then isLit o || cfg.isWord c
  else if k = 2 then
    isLit o || cfg.isWord c || c = '.' || ((c = '+' || c = '-') && lastIsExpo cfg cur)
  else if k = 3 then
    !isLit o && !cfg.isWord c && !(cfg.dotNumber && c = '.' && nextDigit) &&
      cfg.puncts.contains (cur.map outChar ++ [c])
  else false

def nextIsDigit : List Out → Bool
  | .ch d :: _ => d.isDigit
  | _ => false

/-- Split a blank-free chunk into tokens, left to right, maximal munch.  `cur` is the token
    being built, `k` its kind (0 none). -/
def lexChunk (cfg : LexCfg) : Tok → Nat → List Out → List Tok
  | cur, _, [] => flushTok cur
  | cur, k, o :: rest =>
    if canExtend cfg cur k o (nextIsDigit rest) then lexChunk cfg (cur ++ [o]) k rest
    else flushTok cur ++ lexChunk cfg [o] (startKind cfg o (nextIsDigit rest)) rest

def cfgC : LexCfg where
  isWord := fun c => c.isAlphanum || c = '_' || c = '$'
  puncts := ["->", "++", "--", "<<", ">>", "<=", ">=", "==", "!=", "&&", "||", "+=", "-=", "*=", "/=", "%=",
    "&=", "^=", "|=", "::", "##", ".*", "..", "<:", ":>", "<%", "%>", "%:", "<<=", ">>=", "...", "->*", "<=>",
    "%:%", "%:%:"].map String.toList
  expo := fun c => c = 'e' || c = 'E' || c = 'p' || c = 'P'
  dotNumber := true

def cfgF : LexCfg where
  isWord := fun c => c.isAlphanum || c = '_' || c = '.'
  puncts := ["**", "//", "==", "/=", "<=", ">=", "=>", "::", "(/", "/)"].map String.toList
  expo := fun c => c = 'e' || c = 'd' || c = 'q'
  dotNumber := false

/-- Fortran names and keywords are case insensitive (literals are not) -/
def foldCase : Out → Out
  | .ch c => .ch c.toLower
  | o => o

/-- a preprocessor directive line: its first token starts with `#` -/
def isDirLine : List Tok → Bool
  | (.ch '#' :: _) :: _ => true
  | _ => false

/-- `# include ...` -/
def isIncludeLine : List Tok → Bool
  | [.ch '#'] :: t :: _ => t == "include".toList.map Out.ch
  | _ => false

/-- drop the first `n` tokens of a line given chunk by chunk -/
def dropFront : Nat → List (List Tok) → List (List Tok)
  | _, [] => []
  | n, c :: cs => if n ≥ c.length then dropFront (n - c.length) cs else c.drop n :: cs

/-- `# define ...` -/
def isDefineLine : List Tok → Bool
  | [.ch '#'] :: t :: _ => t == "define".toList.map Out.ch
  | _ => false

/-- in `#define NAME(` the parenthesis directly after the name makes the macro function-like:
    the name and the parenthesis stay one token, `#define NAME (` is something else -/
def glueMacroParen : List (List Tok) → List (List Tok)
  | (n :: p :: r) :: cs => if p == [Out.ch '('] then ((n ++ p) :: r) :: cs else (n :: p :: r) :: cs
  | cs => cs

/-- The language tokens of a line of chunks.  After `#include` a header name `<a/b.h>` is one
    preprocessing token: what remains of each chunk is left unsplit there.  After `#define` see
    `glueMacroParen`. -/
def lexLineC (l : List Tok) : List Tok :=
  let per := l.map (lexChunk cfgC [] 0)
  if isIncludeLine per.flatten then
    per.flatten.take 2 ++ ((dropFront 2 per).map List.flatten).filter (fun t => !t.isEmpty)
  else if isDefineLine per.flatten then
    per.flatten.take 2 ++ (glueMacroParen (dropFront 2 per)).flatten
  else per.flatten
/-- preprocessor lines inside Fortran sources are C preprocessor text (case sensitive) -/
def lexLineF (l : List Tok) : List Tok :=
  if isDirLine l then lexLineC l else l.flatMap (fun t => lexChunk cfgF [] 0 (t.map foldCase))

/-- In C a line end matters only for preprocessor directives: consecutive other lines are joined. -/
def mergeLines (ls : List (List Tok)) : List (List Tok) :=
  ls.foldr (fun l acc =>
    if isDirLine l then l :: acc
    else match acc with
      | [] => [l]
      | h :: t => if isDirLine h then l :: acc else (l ++ h) :: t) []

def refine : Lang → List (List Tok) → List (List Tok)
  | .c, ls => mergeLines (ls.map lexLineC)
  | .f, ls => ls.map lexLineF

/-- C/C++ tokens: one list per preprocessor directive and per stretch of code between directives -/
def tokensC (t : List Char) : List (List Tok) := refine .c (tokens (stripC t))
/-- Fortran tokens: one list per statement line (continuations joined), names in lower case -/
def tokensF (t : List Char) : List (List Tok) := refine .f (tokens (stripF t))

def tokensOf (l : Lang) (t : List Char) : List (List Tok) := refine l (tokens (strip l t))

/-! ### files as lists of lines, the checker -/

abbrev Line := List Char

/-- a file: every line is terminated by a newline -/
def joinLines (ls : List Line) : List Char := (ls.map (· ++ ['\n'])).flatten

/-- The two files have the same token structure after comment removal. -/
def commentOnlyDiff (l : Lang) (a b : List Line) : Bool :=
  tokensOf l (joinLines a) == tokensOf l (joinLines b)

def isWs : Out → Bool
  | .sp => true
  | .nl => true
  | _ => false

/-- the lexer is in code state (outside comments, literals, continuations, with
    nothing pending) after reading `t` from the start of a file -/
def endsInCode : Lang → List Char → Bool
  | .c, t => (run stepC .code t).1 == .code
  | .f, t => (run stepF .code t).1 == .code

/-- Read from code state, `t` brings the lexer back to code state and
    contributes only separators: `t` consists of complete comments and blanks. -/
def isCommentText : Lang → List Char → Bool
  | .c, t => (run stepC .code t).1 == .code && (run stepC .code t).2.all isWs
  | .f, t => (run stepF .code t).1 == .code && (run stepF .code t).2.all isWs

/-- a block of complete comment lines and blank lines -/
def isCommentBlock (l : Lang) (blk : List Line) : Bool := isCommentText l (joinLines blk)

/-- the leader of a comment that canExtend to the end of the line -/
def leader : Lang → List Char
  | .c => ['/', '/']
  | .f => ['!']

/-- a comment text that cannot end or continue the comment: no newline, no backslash -/
def plainComment (c : List Char) : Bool := c.all (fun x => x != '\n' && x != '\\')

/-- text form of a stripped text (used to state idempotence) -/
def render : List Out → List Char
  | [] => []
  | .ch c :: r => c :: render r
  | .lit c :: r => c :: render r
  | .sp :: r => ' ' :: render r
  | .nl :: r => '\n' :: render r

end Shroud.Lex
