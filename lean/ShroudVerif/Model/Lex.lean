/-
Lexical models used by property C16 ("documentation and debug options change
comments only"): comment removal for C/C++ (`stripC`) and free-form Fortran
(`stripF`), a whitespace-insensitive token structure (`tokens`) and the checker
`commentOnlyDiff`.

Both strippers are one-character-at-a-time state machines (`stepC`, `stepF`)
so that the lexer state at any position of a file is a well defined value: the
theorems in `Props/C16.lean` use it as the invariant.

What is modelled
* C/C++: `//` comments (a backslash-newline continues the comment), `/* */`
  comments (replaced by one blank, newlines inside it are *not* line ends),
  string and character literals with backslash escapes (an unterminated literal
  ends at the newline, as the compilers' error recovery does).  Not modelled:
  trigraphs, splices outside comments/literals, raw strings, `#if 0`.
* Fortran free form: `!` outside character context starts a comment, both
  quote kinds delimit character context (a doubled quote re-enters it at once),
  `&` as last non-blank before the line end / a comment continues the
  statement, comment and blank lines between continued lines are skipped, a
  leading `&` on the continuation line joins without a separator.  Not
  modelled: continuation inside character context, fixed form, `;`.

Imports nothing outside core Lean so that the line-protocol driver links.
-/
namespace Shroud.Lex

inductive Lang where
  | c | f
  deriving Repr, DecidableEq

/-- One element of a stripped text. `ch`: a non-blank character of code;
    `lit`: a character of a string/character literal (quotes included);
    `sp`: separator (blanks, or a removed comment); `nl`: end of a logical line. -/
inductive Out where
  | ch (c : Char)
  | lit (c : Char)
  | sp
  | nl
  deriving Repr, DecidableEq

def isBlank (c : Char) : Bool :=
  c = ' ' || c = '\t' || c = '\r' || c = Char.ofNat 11 || c = Char.ofNat 12

/-- what a character contributes in code context -/
def codeOut (c : Char) : Out :=
  if c = '\n' then .nl else if isBlank c then .sp else .ch c

/-! ### generic state machine runner -/

/-- Run a transducer over a text: final state and concatenated output. -/
def run {σ : Type} (step : σ → Char → σ × List Out) : σ → List Char → σ × List Out
  | s, [] => (s, [])
  | s, c :: cs =>
    let r := step s c
    let r2 := run step r.1 cs
    (r2.1, r.2 ++ r2.2)

/-- tail-recursive implementation used by compiled code (long files) -/
def runTR.go {σ : Type} (step : σ → Char → σ × List Out) : σ → List Char → Array Out → σ × List Out
  | s, [], acc => (s, acc.toList)
  | s, c :: cs, acc =>
    let r := step s c
    runTR.go step r.1 cs (acc ++ r.2)

def runTR {σ : Type} (step : σ → Char → σ × List Out) (s : σ) (t : List Char) : σ × List Out :=
  runTR.go step s t #[]

theorem runTR_go_eq {σ : Type} (step : σ → Char → σ × List Out) (t : List Char) :
    ∀ (s : σ) (acc : Array Out),
      runTR.go step s t acc = ((run step s t).1, acc.toList ++ (run step s t).2) := by
  induction t with
  | nil => intro s acc; simp [runTR.go, run]
  | cons c cs ih => intro s acc; simp [runTR.go, run, ih, List.append_assoc]

@[csimp] theorem run_eq_runTR : @run = @runTR := by
  funext σ step s t
  simp [runTR, runTR_go_eq]

/-! ### C / C++ -/

inductive CSt where
  | code | slash | line | lineEsc | block | blockStar | str | strEsc | chr | chrEsc
  deriving Repr, DecidableEq

def stepCodeC (c : Char) : CSt × List Out :=
  if c = '/' then (.slash, [])
  else if c = '"' then (.str, [.lit c])
  else if c = '\'' then (.chr, [.lit c])
  else (.code, [codeOut c])

def stepC : CSt → Char → CSt × List Out
  | .code, c => stepCodeC c
  | .slash, c =>
    if c = '/' then (.line, [.sp])
    else if c = '*' then (.block, [.sp])
    else ((stepCodeC c).1, .ch '/' :: (stepCodeC c).2)
  | .line, c =>
    if c = '\n' then (.code, [.nl]) else if c = '\\' then (.lineEsc, []) else (.line, [])
  | .lineEsc, c => if c = '\\' then (.lineEsc, []) else (.line, [])
  | .block, c => if c = '*' then (.blockStar, []) else (.block, [])
  | .blockStar, c =>
    if c = '/' then (.code, []) else if c = '*' then (.blockStar, []) else (.block, [])
  | .str, c =>
    if c = '"' then (.code, [.lit c]) else if c = '\\' then (.strEsc, [.lit c])
    else if c = '\n' then (.code, [.nl]) else (.str, [.lit c])
  | .strEsc, c => (.str, [.lit c])
  | .chr, c =>
    if c = '\'' then (.code, [.lit c]) else if c = '\\' then (.chrEsc, [.lit c])
    else if c = '\n' then (.code, [.nl]) else (.chr, [.lit c])
  | .chrEsc, c => (.chr, [.lit c])

/-- pending output at end of input -/
def flushC : CSt → List Out
  | .slash => [.ch '/']
  | _ => []

def stripC (t : List Char) : List Out :=
  (run stepC .code t).2 ++ flushC (run stepC .code t).1

/-! ### Fortran, free form -/

inductive FSt where
  | code | str (q : Char) | comment | amp | ampComment | cont | contComment
  deriving Repr, DecidableEq

def stepCodeF (c : Char) : FSt × List Out :=
  if c = '!' then (.comment, [.sp])
  else if c = '\'' then (.str c, [.lit c])
  else if c = '"' then (.str c, [.lit c])
  else if c = '&' then (.amp, [])
  else (.code, [codeOut c])

def stepF : FSt → Char → FSt × List Out
  | .code, c => stepCodeF c
  | .str q, c =>
    if c = '\n' then (.code, [.nl]) else if c = q then (.code, [.lit c]) else (.str q, [.lit c])
  | .comment, c => if c = '\n' then (.code, [.nl]) else (.comment, [])
  | .amp, c =>
    if c = '\n' then (.cont, [])
    else if isBlank c then (.amp, [])
    else if c = '!' then (.ampComment, [])
    else if c = '&' then (.code, [.ch '&', .ch '&'])
    else ((stepCodeF c).1, .ch '&' :: (stepCodeF c).2)
  | .ampComment, c => if c = '\n' then (.cont, []) else (.ampComment, [])
  | .cont, c =>
    if c = '\n' then (.cont, [])
    else if isBlank c then (.cont, [])
    else if c = '!' then (.contComment, [])
    else if c = '&' then (.code, [])
    else ((stepCodeF c).1, .sp :: (stepCodeF c).2)
  | .contComment, c => if c = '\n' then (.cont, []) else (.contComment, [])

def flushF : FSt → List Out
  | .amp => [.ch '&']
  | _ => []

def stripF (t : List Char) : List Out :=
  (run stepF .code t).2 ++ flushF (run stepF .code t).1

def strip : Lang → List Char → List Out
  | .c => stripC
  | .f => stripF

/-! ### tokens -/

/-- A token: a maximal run of `ch`/`lit` elements (no separator inside).  This is
    finer than the C or Fortran token structure (equal `Tok` lists imply equal
    compiler token lists; `a+b` and `a + b` are different here). -/
abbrev Tok := List Out

/-- Parse state for the suffix being scanned: the (possibly empty) token that
    starts at its first position, the remaining tokens of its first line, the
    remaining non-empty lines. -/
structure Acc where
  tok : Tok
  line : List Tok
  rest : List (List Tok)
  deriving Repr, DecidableEq

def pushTok (t : Tok) (l : List Tok) : List Tok := if t.isEmpty then l else t :: l

def pushLine (l : List Tok) (ls : List (List Tok)) : List (List Tok) :=
  if l.isEmpty then ls else l :: ls

def consOut (o : Out) (a : Acc) : Acc :=
  match o with
  | .sp => ⟨[], pushTok a.tok a.line, a.rest⟩
  | .nl => ⟨[], [], pushLine (pushTok a.tok a.line) a.rest⟩
  | o => ⟨o :: a.tok, a.line, a.rest⟩

def parse (os : List Out) : Acc := os.foldr consOut ⟨[], [], []⟩

def close (a : Acc) : List (List Tok) := pushLine (pushTok a.tok a.line) a.rest

/-- The non-empty logical lines of a stripped text, each a non-empty list of tokens. -/
def tokens (os : List Out) : List (List Tok) := close (parse os)

def tokensC (t : List Char) : List (List Tok) := tokens (stripC t)
def tokensF (t : List Char) : List (List Tok) := tokens (stripF t)

def tokensOf (l : Lang) (t : List Char) : List (List Tok) := tokens (strip l t)

/-! ### files as lists of lines, the checker -/

abbrev Line := List Char

/-- a file: every line is terminated by a newline -/
def joinLines (ls : List Line) : List Char := (ls.map (· ++ ['\n'])).flatten

/-- The two files have the same token structure after comment removal. -/
def commentOnlyDiff (l : Lang) (a b : List Line) : Bool :=
  tokensOf l (joinLines a) == tokensOf l (joinLines b)

def isWs : Out → Bool
  | .sp => true
  | .nl => true
  | _ => false

/-- the lexer is in code state (outside comments, literals, continuations, with
    nothing pending) after reading `t` from the start of a file -/
def endsInCode : Lang → List Char → Bool
  | .c, t => (run stepC .code t).1 == .code
  | .f, t => (run stepF .code t).1 == .code

/-- Read from code state, `t` brings the lexer back to code state and
    contributes only separators: `t` consists of complete comments and blanks. -/
def isCommentText : Lang → List Char → Bool
  | .c, t => (run stepC .code t).1 == .code && (run stepC .code t).2.all isWs
  | .f, t => (run stepF .code t).1 == .code && (run stepF .code t).2.all isWs

/-- a block of complete comment lines and blank lines -/
def isCommentBlock (l : Lang) (blk : List Line) : Bool := isCommentText l (joinLines blk)

/-- the leader of a comment that extends to the end of the line -/
def leader : Lang → List Char
  | .c => ['/', '/']
  | .f => ['!']

/-- a comment text that cannot end or continue the comment: no newline, no backslash -/
def plainComment (c : List Char) : Bool := c.all (fun x => x != '\n' && x != '\\')

/-- text form of a stripped text (used to state idempotence) -/
def render : List Out → List Char
  | [] => []
  | .ch c :: r => c :: render r
  | .lit c :: r => c :: render r
  | .sp :: r => ' ' :: render r
  | .nl :: r => '\n' :: render r

end Shroud.Lex
