import ShroudVerif.Model.Decl
/-!
# Model of attribute validation: `generate.VerifyAttrs`

`check_fcn_attrs`, `check_arg_attrs`, `check_var_attrs`, `check_common_attrs`,
`check_intent_attr`, `check_deref_attr`, `parse_attrs`, `check_implied_attrs` /
`CheckImplied` as total functions over an abstract declaration and an attribute map.

Abstract declaration `ADecl`: pointer/reference chain, array flag, `const`, the three
typemap fields the code reads (`name`, `base`, `sgroup`), function-pointer flag, default
value flag, template arguments, `Declaration.name`, the attribute map in insertion order
and the parameters (for functions and function-pointer arguments).

Attribute value `AVal` (absent = not in the map): `bare` (`+attr`, YAML `true`), `text`
(`+attr(...)`; carries the token list of the text made by the real tokenizer and Python's
`int(text)` if that succeeds -- neither is modelled), `int`, `real`, `list` (any YAML
list/dict), `boolFalse`.

Result: `ok` with the normalised meta data the later phases read (intent, value, deref,
rank per declaration), `reject id` (a `RuntimeError`; `id` names the diagnostic site and,
where the message does, the attribute), or `crash exn`.  After the guard commits there is
no crash branch left.  The allowed-name and allowed-value lists are parameters
(`Tables`), regenerated from generate.py into `Gen/AttrTables.lean`.
-/
namespace Shroud.Attrs
open Shroud.Decl

inductive AVal where
  | bare
  | text (s : Str) (toks : Toks) (asInt : Option Int)
  | int (n : Int)
  | real (trunc : Int) (nonzero : Bool)
  | list (nonempty : Bool)
  | boolFalse
  deriving Repr, Inhabited

def AVal.truthy : AVal → Bool
  | .bare => true
  | .text s _ _ => !s.isEmpty
  | .int n => n ≠ 0
  | .real _ nz => nz
  | .list ne => ne
  | .boolFalse => false

/-- `value in [..strings..]` -/
def AVal.isOneOf (l : List Str) : AVal → Bool
  | .text s _ _ => l.contains s
  | _ => false

structure Tables where
  fcnAttrs : List Str
  argAttrs : List Str
  varAttrs : List Str
  intentValues : List Str
  derefValues : List Str
  ownerValues : List Str
  derefOutShapes : List Str
  deriving Repr, Inhabited

inductive ADecl where
  | mk (ptrs : List PtrK) (hasArray const : Bool) (hasTypemap : Bool) (tmName tmBase tmSgroup : Str)
       (isFptr hasInit : Bool) (ntargs : Nat) (targHasTypemap : Bool) (name : Option Str)
       (attrs : List (Str × AVal)) (params : Option (List ADecl))
  deriving Repr, Inhabited

def ADecl.ptrs : ADecl → List PtrK | .mk p _ _ _ _ _ _ _ _ _ _ _ _ _ => p
def ADecl.name : ADecl → Option Str | .mk _ _ _ _ _ _ _ _ _ _ _ n _ _ => n
def ADecl.attrs : ADecl → List (Str × AVal) | .mk _ _ _ _ _ _ _ _ _ _ _ _ a _ => a

/-- normalised attributes of one declaration after validation -/
structure Norm where
  intent : Option Str      -- metaattrs["intent"]
  valueTrue : Bool         -- attrs["value"] is truthy afterwards
  deref : Option Str       -- metaattrs["deref"]
  rank : Option Int        -- attrs["rank"] afterwards when it is an integer
  deriving Repr, Inhabited, DecidableEq

inductive Res (α : Type) where
  | ok (a : α)
  | reject (id : String)
  | crash (exn : String)
  deriving Repr

instance : Monad Res where
  pure := .ok
  bind m f := match m with
    | .ok a => f a
    | .reject i => .reject i
    | .crash e => .crash e

@[simp] theorem Res.bind_ok {α β} (a : α) (f : α → Res β) : (Res.ok a >>= f) = f a := rfl
@[simp] theorem Res.bind_reject {α β} (m : String) (f : α → Res β) : (Res.reject m >>= f) = .reject m := rfl
@[simp] theorem Res.bind_crash {α β} (m : String) (f : α → Res β) : (Res.crash m >>= f) = .crash m := rfl
@[simp] theorem Res.pure_eq {α} (a : α) : (pure a : Res α) = .ok a := rfl

def get (k : String) (attrs : List (Str × AVal)) : Option AVal := assoc k.toList attrs

def truthyAt (k : String) (attrs : List (Str × AVal)) : Bool :=
  match get k attrs with | some v => v.truthy | none => false

/-- first attribute name (insertion order, names starting with `_` skipped) not in the list -/
def firstIllegal (allowed : List Str) : List (Str × AVal) → Option Str
  | [] => none
  | (k, _) :: t => if k.head? = some '_' then firstIllegal allowed t
                   else if allowed.contains k then firstIllegal allowed t else some k

def lower (s : Str) : Str := s.map Char.toLower

/-- `Declaration.get_indirect_stmt` restricted to what `check_deref_attr` compares with -/
def indirectStmt (ptrs : List PtrK) (hasArray : Bool) : Str :=
  (ptrs.map (fun k => match k with | .star => '*' | .ref => '&')) ++ (if hasArray then "[]".toList else [])

/-! ## check_intent_attr -/

/-- `node = none` for the parameters of a function-pointer argument -/
def checkIntent (t : Tables) (hasNode : Bool) (ptrs : List PtrK) (const isFptr : Bool) (tmSgroup : Str)
    (attrs : List (Str × AVal)) : Res (Option Str) :=
  match get "intent" attrs with
  | none =>
    if !hasNode then .ok none
    else if isFptr then .ok (some "in".toList)
    else if ptrs.isEmpty then .ok (some "in".toList)
    else if const then .ok (some "in".toList)
    else if tmSgroup = "void".toList then .ok (some "in".toList)
    else .ok (some "inout".toList)
  | some (.text s _ _) =>
    if t.intentValues.contains (lower s) then
      if ptrs.isEmpty ∧ lower s ≠ "in".toList then .reject "intent:only-pointer-arguments"
      else .ok (some (lower s))
    else .reject "intent:bad-value"
  | some _ => .reject "intent:must-have-a-value"

/-! ## check_deref_attr -/

def checkDeref (t : Tables) (ptrs : List PtrK) (hasArray : Bool) (tmName : Str) (intent : Option Str)
    (attrs : List (Str × AVal)) : Res (Option Str) :=
  match get "deref" attrs with
  | some v =>
    if !v.isOneOf t.derefValues then .reject "deref:illegal-value"
    else if ptrs.isEmpty then .reject "deref:on-non-pointer"
    else match v with | .text s _ _ => .ok (some s) | _ => .ok none
  | none =>
    if tmName = "void".toList then .ok none
    else if t.derefOutShapes.contains (indirectStmt ptrs hasArray) ∧ intent = some "out".toList then
      .ok (some "pointer".toList)
    else .ok none

/-! ## check_common_attrs -/

/-- `int(attrs["rank"])` -/
def rankInt : AVal → Option Int
  | .text _ _ i => i
  | .int n => some n
  | .real tr _ => some tr
  | _ => none

/-- the `rank` block: `attrs["rank"]` afterwards when it is an integer -/
def checkRank (ptrs : List PtrK) (attrs : List (Str × AVal)) : Res (Option Int) :=
  if truthyAt "rank" attrs then
    match get "rank" attrs with
    | some .bare => .reject "rank:must-have-integer-value"
    | some v =>
      match rankInt v with
      | none => .reject "rank:not-an-integer"
      | some n =>
        if n > 7 then .reject "rank:must-be-0-7"
        else if ptrs.isEmpty then .reject "rank:only-pointer"
        else .ok (some n)
    | none => .ok none
  else .ok (match get "rank" attrs with | some (.int n) => some n | _ => none)

/-- the `dimension` block and the rank defaults of `std::vector` and `char **` -/
def checkDimension (ptrs : List PtrK) (hasTypemap : Bool) (tmName tmBase : Str) (rank : Option Int)
    (attrs : List (Str × AVal)) : Res (Option Int) :=
  if truthyAt "dimension" attrs then
    match get "dimension" attrs with
    | some .bare => .reject "dimension:must-have-a-value"
    | _ =>
      if truthyAt "value" attrs then .reject "dimension:with-value"
      else if truthyAt "rank" attrs then .reject "dimension:with-rank"
      else if ptrs.isEmpty then .reject "dimension:only-pointer"
      else .ok rank
  else if hasTypemap then
    if tmBase = "vector".toList then .ok (some 1)
    else if tmName = "char".toList ∧ ptrs.length = 2 then .ok (some 1)
    else .ok rank
  else .ok rank

def checkOwner (t : Tables) (patterns : List Str) (attrs : List (Str × AVal)) : Res Unit :=
  match get "owner" attrs with
  | some v => if !v.isOneOf t.ownerValues then .reject "owner:illegal-value" else
    (match get "free_pattern" attrs with
     | some w => if !w.isOneOf patterns then .reject "free_pattern:not-in-patterns" else .ok ()
     | none => .ok ())
  | none =>
    match get "free_pattern" attrs with
    | some w => if !w.isOneOf patterns then .reject "free_pattern:not-in-patterns" else .ok ()
    | none => .ok ()

/-- returns (deref meta, rank afterwards) -/
def checkCommon (t : Tables) (patterns : List Str) (ptrs : List PtrK) (hasArray hasTypemap : Bool)
    (tmName tmBase : Str) (intent : Option Str) (attrs : List (Str × AVal)) : Res (Option Str × Option Int) := do
  let deref ← checkDeref t ptrs hasArray tmName intent attrs
  let rank ← checkRank ptrs attrs
  let rank2 ← checkDimension ptrs hasTypemap tmName tmBase rank attrs
  checkOwner t patterns attrs
  .ok (deref, rank2)

/-! ## parse_attrs: the dimension expression -/

/-- `ExprParser.dimension_shape`: `expr ( , expr )*` -/
def dimensionShape : Nat → Toks → Shroud.Decl.Res (List Expr × Toks)
  | 0, _ => .fuel
  | n+1, ts => do
    let (e, ts1) ← expression n 0 ts
    match have? .COMMA ts1 with
    | (true, ts2) => do
      let (es, ts3) ← dimensionShape n ts2
      .ok (e :: es, ts3)
    | (false, _) => .ok ([e], ts1)

def parseDim (attrs : List (Str × AVal)) : Res Unit :=
  if truthyAt "dimension" attrs then
    match get "dimension" attrs with
    | some (.text s toks _) =>
      if s = "..".toList then .ok ()
      else match dimensionShape (4 * toks.length + 8) toks with
        | .ok (_, []) => .ok ()
        | .ok (_, _ :: _) => .reject "dimension:unable-to-parse"     -- `mustbe("EOF")`: nothing may follow the shape
        | .reject _ => .reject "dimension:unable-to-parse"
        | .crash e => .crash e
        | .fuel => .crash "fuel"
        | .unmodelled _ => .crash "unmodelled"
    | _ => .reject "dimension:must-be-text"
  else .ok ()

/-! ## check_implied_attrs / CheckImplied -/

mutual
/-- `CheckImplied.visit` over the expression; `names` are the `Declaration.name`s of the arguments -/
def checkImpliedExpr (names : List (Option Str)) : Expr → Res Unit
  | .ident _ => .ok ()
  | .const _ => .ok ()
  | .paren e => checkImpliedExpr names e
  | .unary _ e => checkImpliedExpr names e
  | .binary l _ r => do checkImpliedExpr names l; checkImpliedExpr names r
  | .call f args =>
    if f = "size".toList ∨ f = "len".toList ∨ f = "len_trim".toList then
      match args with
      | [.ident a] => if names.contains (some a) then .ok () else .reject "implied:unknown-argument"
      | [_] => .reject "implied:argument-must-be-a-name"
      | _ => .reject "implied:too-many-arguments"
    else checkImpliedArgs names args
def checkImpliedArgs (names : List (Option Str)) : List Expr → Res Unit
  | [] => .ok ()
  | a :: t => do checkImpliedExpr names a; checkImpliedArgs names t
end

def checkImpliedOne (names : List (Option Str)) (attrs : List (Str × AVal)) : Res Unit :=
  if truthyAt "implied" attrs then
    match get "implied" attrs with
    | some (.text _ toks _) =>
      match expression (4 * toks.length + 8) 0 toks with
      | .ok (e, []) => checkImpliedExpr names e
      | .ok (_, _ :: _) => .reject "implied:parse-error"              -- `mustbe("EOF")`
      | .reject _ => .reject "implied:parse-error"
      | .crash e => .crash e
      | .fuel => .crash "fuel"
      | .unmodelled _ => .crash "unmodelled"
    | _ => .reject "implied:must-be-text"
  else .ok ()

def checkImpliedAll (names : List (Option Str)) : List ADecl → Res Unit
  | [] => .ok ()
  | d :: t => do checkImpliedOne names d.attrs; checkImpliedAll names t

/-! ## check_arg_attrs -/

/-- the `assumedtype` / `value` block: is `attrs["value"]` truthy afterwards -/
def checkValue (ptrs : List PtrK) (hasArray : Bool) (tmName : Str) (attrs : List (Str × AVal)) : Res Bool :=
  match get "assumedtype" attrs with
  | some _ => if truthyAt "value" attrs then .reject "assumedtype:with-value" else .ok false
  | none =>
    match get "value" attrs with
    | some v => .ok v.truthy
    | none =>
      if !ptrs.isEmpty then .ok (tmName = "void".toList ∧ ptrs.length = 1)
      else if hasArray then .ok false
      else .ok true

def checkCharlen (ptrs : List PtrK) (tmBase : Str) (attrs : List (Str × AVal)) : Res Unit :=
  if truthyAt "charlen" attrs then
    if tmBase ≠ "string".toList then .reject "charlen:only-char-pointer"
    else if ptrs.length ≠ 1 then .reject "charlen:only-char-pointer"
    else match get "charlen" attrs with
      | some .bare => .reject "charlen:must-have-a-value"
      | _ => .ok ()
  else .ok ()

def checkTemplate (tmBase : Str) (ntargs : Nat) (targTm : Bool) : Res Unit :=
  if tmBase = "vector".toList then
    if ntargs = 0 then .reject "template:vector-needs-argument"
    else if !targTm then .reject "template:no-such-type" else .ok ()
  else if ntargs ≠ 0 then .reject "template:may-not-supply-argument" else .ok ()

/-- everything `check_arg_attrs` does for one declaration before it recurses -/
def checkArgOne (t : Tables) (patterns : List Str) (hasNode : Bool) (ptrs : List PtrK) (hasArray const hasTypemap : Bool)
    (tmName tmBase tmSgroup : Str) (isFptr : Bool) (ntargs : Nat) (targTm : Bool) (attrs : List (Str × AVal)) : Res Norm :=
  match firstIllegal t.argAttrs attrs with
  | some k => .reject ("arg:illegal-attribute:" ++ String.ofList k)
  | none =>
    if !hasTypemap then .reject "arg:missing-typemap" else do
    let intent ← checkIntent t hasNode ptrs const isFptr tmSgroup attrs
    let dr ← checkCommon t patterns ptrs hasArray hasTypemap tmName tmBase intent attrs
    let valueTrue ← checkValue ptrs hasArray tmName attrs
    checkCharlen ptrs tmBase attrs
    checkTemplate tmBase ntargs targTm
    parseDim attrs
    .ok { intent := intent, valueTrue := valueTrue, deref := dr.1, rank := dr.2 }

mutual
def checkArg (t : Tables) (patterns : List Str) (hasNode : Bool) : ADecl → Res (List Norm)
  | .mk ptrs hasArray const hasTypemap tmName tmBase tmSgroup isFptr _hasInit ntargs targTm _name attrs params =>
    match checkArgOne t patterns hasNode ptrs hasArray const hasTypemap tmName tmBase tmSgroup isFptr ntargs targTm attrs with
    | .reject i => .reject i
    | .crash e => .crash e
    | .ok me =>
      if isFptr then
        match params with
        | some ps =>
          match checkArgs t patterns false ps with
          | .ok rest => .ok (me :: rest)
          | .reject i => .reject i
          | .crash e => .crash e
        | none => .ok [me]
      else .ok [me]
def checkArgs (t : Tables) (patterns : List Str) (hasNode : Bool) : List ADecl → Res (List Norm)
  | [] => .ok []
  | d :: ds =>
    if hasNode ∧ d.name.isNone then .reject "arg:must-have-a-name" else     -- arguments of a wrapped function need a name
    match checkArg t patterns hasNode d with
    | .reject i => .reject i
    | .crash e => .crash e
    | .ok a =>
      match checkArgs t patterns hasNode ds with
      | .ok b => .ok (a ++ b)
      | .reject i => .reject i
      | .crash e => .crash e
end

/-! ## check_fcn_attrs, check_var_attrs -/

/-- `Declaration.get_subprogram() == "function"` for a function declaration -/
def isFunctionResult (ptrs : List PtrK) (tmName : Str) : Bool :=
  tmName ≠ "void".toList || ptrs.any (· == .star)

def checkFcn (t : Tables) (patterns : List Str) : ADecl → Res (List Norm)
  | .mk ptrs hasArray _ hasTypemap tmName tmBase _ _ _ _ _ _ attrs params =>
    match firstIllegal t.fcnAttrs attrs with
    | some k => .reject ("fcn:illegal-attribute:" ++ String.ofList k)
    | none => do
      let intent : Option Str := if isFunctionResult ptrs tmName then some "result".toList else none
      let (deref, rank) ← checkCommon t patterns ptrs hasArray hasTypemap tmName tmBase intent attrs
      let ps := params.getD []
      let args ← checkArgs t patterns true ps
      checkImpliedAll (ps.map (·.name)) ps
      parseDim attrs
      .ok ({ intent := intent, valueTrue := truthyAt "value" attrs, deref := deref, rank := rank } :: args)

def checkVar (t : Tables) : ADecl → Res Unit
  | .mk ptrs _ _ _ _ _ _ _ _ _ _ _ attrs _ =>
    match firstIllegal t.varAttrs attrs with
    | some k => .reject ("var:illegal-attribute:" ++ String.ofList k)
    | none =>
      if truthyAt "dimension" attrs ∧ ptrs.isEmpty then .reject "dimension:only-pointer"
      else parseDim attrs

/-! ## check_fcn_attrs with `fortran_generic`

```
if node.fortran_generic:
    for generic in node.fortran_generic:
        for garg in generic.decls:
            self.check_arg_attrs(generic, garg, node.options)
        check_implied_attrs(node, generic.decls)
else:
    check_implied_attrs(node, ast.params)
```
-/

/-- the per-argument loop over one `fortran_generic` entry: `check_arg_attrs(generic, garg, node.options)`
    (`node` is the FortranGeneric, not None: intents are defaulted); unlike the loop over `ast.params`
    there is no "must have a name" test -/
def checkGenericArgs (t : Tables) (patterns : List Str) : List ADecl → Res (List Norm)
  | [] => .ok []
  | d :: ds =>
    match checkArg t patterns true d with
    | .reject i => .reject i
    | .crash e => .crash e
    | .ok a =>
      match checkGenericArgs t patterns ds with
      | .ok b => .ok (a ++ b)
      | .reject i => .reject i
      | .crash e => .crash e

/-- one entry: all its arguments, then `check_implied_attrs(node, generic.decls)` against the entry's own names -/
def checkGeneric (t : Tables) (patterns : List Str) (g : List ADecl) : Res (List Norm) :=
  match checkGenericArgs t patterns g with
  | .reject i => .reject i
  | .crash e => .crash e
  | .ok a =>
    match checkImpliedAll (g.map (·.name)) g with
    | .ok _ => .ok a
    | .reject i => .reject i
    | .crash e => .crash e

/-- the loop over all entries, in order -/
def checkGenerics (t : Tables) (patterns : List Str) : List (List ADecl) → Res (List Norm)
  | [] => .ok []
  | g :: gs =>
    match checkGeneric t patterns g with
    | .reject i => .reject i
    | .crash e => .crash e
    | .ok a =>
      match checkGenerics t patterns gs with
      | .ok b => .ok (a ++ b)
      | .reject i => .reject i
      | .crash e => .crash e

/-- `check_fcn_attrs` of a function whose `fortran_generic` list is `gens` (the empty list is falsy in Python:
    then the implied expressions are checked against the function's own parameters, `checkFcn`) -/
def checkFcnG (t : Tables) (patterns : List Str) (gens : List (List ADecl)) : ADecl → Res (List Norm)
  | .mk ptrs hasArray _ hasTypemap tmName tmBase _ _ _ _ _ _ attrs params =>
    match firstIllegal t.fcnAttrs attrs with
    | some k => .reject ("fcn:illegal-attribute:" ++ String.ofList k)
    | none => do
      let intent : Option Str := if isFunctionResult ptrs tmName then some "result".toList else none
      let (deref, rank) ← checkCommon t patterns ptrs hasArray hasTypemap tmName tmBase intent attrs
      let ps := params.getD []
      let args ← checkArgs t patterns true ps
      let gargs ← (if gens.isEmpty then (do checkImpliedAll (ps.map (·.name)) ps; .ok [])
                   else checkGenerics t patterns gens)
      parseDim attrs
      .ok ({ intent := intent, valueTrue := truthyAt "value" attrs, deref := deref, rank := rank } :: (args ++ gargs))

/-! ## where an attribute name outside the allowed list can sit: the declaration itself or, for a
function-pointer argument, any of its parameters (any depth) -/
mutual
def illegalAt (t : Tables) : ADecl → Bool
  | .mk _ _ _ _ _ _ _ isFptr _ _ _ _ attrs params =>
    (firstIllegal t.argAttrs attrs).isSome ||
      (isFptr && (match params with | some ps => illegalAny t ps | none => false))
def illegalAny (t : Tables) : List ADecl → Bool
  | [] => false
  | d :: ds => illegalAt t d || illegalAny t ds
end

end Shroud.Attrs
