/-
Model of the Fortran side of Shroud's wrappers (property C01).

  shroud/statements.py   fc_statements entries `f_*`, `c_*_buf`, `c_*_cfi`, lookup_stmts_tree
  shroud/wrapf.py        Wrapf.wrap_function_impl, build_arg_list_impl, dump_generic_interfaces
  shroud/generate.py     has_default_args, arg_to_buffer / arg_to_CFI index chains

A call through the generated Fortran module is the composition

  F wrapper (pre_call) ; bind(C) boundary (actuals per buf_arg) ; C wrapper (pre_call) ;
  library ; C wrapper (post_call) ; storage association back ; F wrapper (post_call)

`runArg` is that composition for one argument (or for a result that the bufferify
function receives as an extra argument).  The statement table itself is NOT written
here: `Gen/FStmts.lean` is regenerated from the working tree on every run; this file
only gives a meaning to the op codes of the translator's pattern table.

Byte-level helper semantics (ShroudStrAlloc, ShroudStrCopy, ShroudStrBlankFill,
ShroudLenTrim, memset) are those of `Model/StrHelpers.lean` (property C10).

`Res.oob` is used for every undefined outcome: an out-of-bounds access inside a
helper, an op applied to a value of the wrong sort, an unmodelled op or buf_arg.
Imports nothing outside core Lean (the driver links).

Not modelled (entries using them are labelled `_partial` in Props/C01.lean):
context/cdesc descriptors, std::vector, allocatable and pointer results, capsules,
`char **`, struct conversion casts, CFI_allocate.  Reals are opaque integers (never computed
with).  Argument variables of different arguments are distinct (names are derived from distinct
argument names), so ops of different arguments commute; the model runs them per argument.
-/
import ShroudVerif.Model.StrHelpers
import ShroudVerif.Gen.FStmts
namespace Shroud.WrapF
open Shroud.Str

/-! ## 1. the statement table and `lookup_stmts_tree` -/

abbrev Ops := List (Nat × List Nat)

structure Row where
  path : List Nat
  bufArgs : List Nat
  bufExtra : List Nat
  /-- Fortran side `c_local_var` -/
  fLocal : Bool
  /-- 0 none, 1 scalar, 2 pointer -/
  cxxLocal : Nat
  needWrapper : Bool
  hasResult : Bool
  argDecl : Bool
  clauses : List (Nat × Ops)
  deriving Repr, DecidableEq

/-- name used for an argument that the result block adds to the Fortran API (`arg_name`: the capsule) -/
def resultArgName : Nat := 9999

def Row.ofRaw (r : Gen.FStmts.RawRow) : Row :=
  let fl := r.2.2.2.1
  { path := r.1, bufArgs := r.2.1, bufExtra := r.2.2.1,
    fLocal := fl.getD 0 0 == 1, cxxLocal := fl.getD 1 0, needWrapper := fl.getD 2 0 == 1,
    hasResult := fl.getD 3 0 == 1, argDecl := fl.getD 6 0 == 1, clauses := r.2.2.2.2 }

def Row.clause (r : Row) (c : Nat) : Ops :=
  match r.clauses.find? (fun x => x.1 == c) with
  | some x => x.2
  | none => []

/-- `f_default` / `c_default`: path is just the side -/
def defaultRow (side : Nat) : Row :=
  { path := [side], bufArgs := [], bufExtra := [], fLocal := false, cxxLocal := 0, needWrapper := false,
    hasResult := false, argDecl := false, clauses := [] }

def rowsOf (cxx : Bool) : List Row :=
  (if cxx then Gen.FStmts.rowsCxx else Gen.FStmts.rowsC).map Row.ofRaw

/-- some key continues the prefix `p` (the nested dictionaries of `cf_tree`) -/
def hasPrefix (keys : List (List Nat)) (p : List Nat) : Bool := keys.any (fun k => p.isPrefixOf k)

/-- `lookup_stmts_tree`: walk the parts, skip empty (0) and unknown parts, remember the last
    position that carries a node -/
def lookupAux (keys : List (List Nat)) : List Nat → List Nat → Option (List Nat) → Option (List Nat)
  | [], _, found => found
  | p :: ps, cur, found =>
    if p == 0 then lookupAux keys ps cur found
    else if hasPrefix keys (cur ++ [p]) then
      lookupAux keys ps (cur ++ [p]) (if keys.contains (cur ++ [p]) then some (cur ++ [p]) else found)
    else lookupAux keys ps cur found

def lookup (rows : List Row) (path : List Nat) : Row :=
  match lookupAux (rows.map (·.path)) path [] none with
  | some k => (rows.find? (fun r => r.path == k)).getD (defaultRow (path.headD 0))
  | none => defaultRow (path.headD 0)

/-! ## 2. ops (the translator's pattern table) and their meaning -/

/-- operands are variable codes of the argument's format dictionary:
    0 f_var, 1 c_var, 2 c_var_len, 3 c_var_trim, 4 c_var_size, 5 c_var_context, 6 cxx_var,
    9 descriptor elem_len, 10 descriptor storage, 11 shadow_var; literals 97 = 0, 98 = nullptr, 99 = -1 -/
inductive Op where
  | coerceIn (d s : Nat)              -- `{c_var} = {f_var}  ! coerce to C_BOOL`
  | coerceOut (d s : Nat)             -- `{f_var} = {c_var}  ! coerce to logical`
  | strAlloc (d s n t : Nat)          -- `char *d = ShroudStrAlloc(s, n, t)`
  | strFree (v : Nat)
  | blankFill (v n : Nat)             -- `ShroudStrBlankFill(v, n)`
  | strCopyC (d n s : Nat)            -- `ShroudStrCopy(d, n, s, -1)`
  | strCopyStd (d n s s2 : Nat)       -- `ShroudStrCopy(d, n, s.data(), s2.size())`
  | strCopyNull (d n : Nat)           -- `ShroudStrCopy(d, n, NULL, 0)`
  | mkStringLen (d s n : Nat)         -- `std::string d(s, n)`
  | mkStringEmpty (d : Nat)           -- `std::string d;`
  | mkStringC (d s : Nat)             -- `std::string d(s)`
  | memsetBlank (d n : Nat)           -- `memset(d, ' ', n)`
  | setFirst (d s : Nat)              -- `d[0] = s`
  | ifEmpty (v : Nat) | else_ | endIf
  | cfiBase (d c : Nat)               -- `char *d = (char *) c->base_addr`
  | lenTrimTo (d s n : Nat)           -- `size_t d = ShroudLenTrim(s, n)`
  | mkVector (d s s2 n : Nat)         -- `std::vector<T> d(s, s2 + n)`
  | newVector (d : Nat)               -- `std::vector<T> *d = new std::vector<T>`
  | newVectorFrom (d s s2 n : Nat)    -- `std::vector<T> *d = new std::vector<T>(s, s2 + n)`
  | ctxCxxVar (c v : Nat)             -- `c->cxx.addr = v`
  | ctxIdtor (c : Nat)
  | ctxBaseVec (c v v2 : Nat)         -- `c->addr.base = v->empty() ? NULL : &v2->front()`
  | ctxType (c : Nat)
  | ctxElemLen (c : Nat)              -- `sizeof(cxx_T)` / `sizeof(cxx_type)`
  | ctxSizeVec (c v : Nat)            -- `c->size = v->size()`
  | ctxRank1 (c : Nat)
  | ctxShape0 (c c2 : Nat)            -- `c->shape[0] = c2->size`
  | ctxCxxPtr (c : Nat)               -- `c->cxx.addr = cxx_nonconst_ptr`
  | ctxBasePtr (c v : Nat)            -- `c->addr.base = v`
  | ctxRankShape (c : Nat)            -- `c->rank = rank; c->shape[i] = dimension i`
  | ctxSizeExpr (c : Nat)             -- `c->size = product of the dimensions`
  | copyArrayF (c f f2 : Nat)         -- `call copy_array(c, f, size(f2))`  (ShroudCopyArray)
  | allocCtxSize (f c : Nat)          -- `allocate(f(c%size))`
  | deallocIf (f f2 : Nat)            -- `if (allocated(f)) deallocate(f2)`
  | allocShape (f : Nat)              -- `allocate(f(dimension))`
  | cfPointerCtx (c f : Nat)          -- `call c_f_pointer(c%base_addr, f, c%shape(1:rank))`
  | cfPointerRes (p r : Nat)          -- `call c_f_pointer(p, r [, ctx%shape(1:rank)])`
  | declPtr (d : Nat)                 -- `T *d;`
  | strArrayAlloc (d s n l : Nat)     -- `char **d = ShroudStrArrayAlloc(s, n, l)`
  | strArrayFree (v n : Nat)
  | ctxCcharp (c v : Nat)             -- `c->addr.ccharp = v`
  | ctxElemLenStr (c v v2 : Nat)      -- `c->elem_len = v == NULL ? 0 : strlen(v2)`
  | ctxSize1 (c : Nat)
  | ctxRank0 (c : Nat)
  | strToArray (c v : Nat)            -- `ShroudStrToArray(c, &v, idtor)`
  | newString (d : Nat)               -- `std::string *d = new std::string`
  | allocCharCtx (c f : Nat)          -- `allocate(character(len=c%elem_len):: f)`
  | copyStringF (c f c2 : Nat)        -- `call copy_string(c, f, c2%elem_len)`  (ShroudCopyStringAndFree)
  | vecStrIn (d s n l : Nat)          -- the `push_back(std::string(BBB, ShroudLenTrim(BBB, len)))` loop
  | vecStrOut (s n l v : Nat)         -- the `ShroudStrCopy(BBB, len, v[i].data(), v[i].size())` loop
  | vecStrDecl (d : Nat)              -- `std::vector<std::string> d;`
  | structCast (d s : Nat)            -- `T *d = static_cast<T *>(static_cast<void *>({c_addr}s))`
  | opaque (code : Nat)               -- not modelled
  deriving Repr, DecidableEq

def Op.ofRaw : Nat × List Nat → Op
  | (1, [d, s]) => .coerceIn d s
  | (2, [d, s]) => .coerceOut d s
  | (10, [d, s, n, t]) => .strAlloc d s n t
  | (11, [v]) => .strFree v
  | (12, [v, n]) => .blankFill v n
  | (13, [d, n, s]) => .strCopyC d n s
  | (14, [d, n, s, s2]) => .strCopyStd d n s s2
  | (15, [d, n]) => .strCopyNull d n
  | (16, [d, s, n]) => .mkStringLen d s n
  | (17, [d]) => .mkStringEmpty d
  | (18, [d, s]) => .mkStringC d s
  | (19, [d, n]) => .memsetBlank d n
  | (20, [d, s]) => .setFirst d s
  | (21, [v]) => .ifEmpty v
  | (22, []) => .else_
  | (23, []) => .endIf
  | (24, [d, c]) => .cfiBase d c
  | (25, [d, s, n]) => .lenTrimTo d s n
  | (50, [d, s, s2, n]) => .mkVector d s s2 n
  | (51, [d]) => .newVector d
  | (52, [d, s, s2, n]) => .newVectorFrom d s s2 n
  | (53, [c, v]) => .ctxCxxVar c v
  | (54, [c]) => .ctxIdtor c
  | (55, [c, v, v2]) => .ctxBaseVec c v v2
  | (56, [c]) => .ctxType c
  | (57, [c]) => .ctxElemLen c
  | (58, [c, v]) => .ctxSizeVec c v
  | (59, [c]) => .ctxRank1 c
  | (60, [c, c2]) => .ctxShape0 c c2
  | (61, [c]) => .ctxCxxPtr c
  | (62, [c, v]) => .ctxBasePtr c v
  | (63, [c]) => .ctxElemLen c
  | (64, [c]) => .ctxRankShape c
  | (65, [c]) => .ctxSizeExpr c
  | (66, [d]) => .declPtr d
  | (70, [c, f, f2]) => .copyArrayF c f f2
  | (71, [f, c]) => .allocCtxSize f c
  | (72, [f, f2]) => .deallocIf f f2
  | (73, [f]) => .allocShape f
  | (74, [f]) => .allocShape f
  | (75, [c, f]) => .cfPointerCtx c f
  | (76, [p, r]) => .cfPointerRes p r
  | (80, [d, s, n, l]) => .strArrayAlloc d s n l
  | (81, [v, n]) => .strArrayFree v n
  | (82, [c, v]) => .ctxCcharp c v
  | (83, [c, v, v2]) => .ctxElemLenStr c v v2
  | (84, [c]) => .ctxSize1 c
  | (85, [c]) => .ctxRank0 c
  | (86, [c, v]) => .strToArray c v
  | (87, [d]) => .newString d
  | (88, [c, f]) => .allocCharCtx c f
  | (89, [c, f, c2]) => .copyStringF c f c2
  | (90, [d, s, n, l]) => .vecStrIn d s n l
  | (91, [s, n, l, v]) => .vecStrOut s n l v
  | (92, [d]) => .vecStrDecl d
  | (93, [d, s]) => .structCast d s
  | (c, _) => .opaque c

/-- the array context struct (`<lib>_SHROUD_array`) as far as the wrappers fill and read it -/
structure Ctx where
  /-- `cxx.addr`: the heap `std::vector` the capsule owns (its elements), released by ShroudCopyArray -/
  owner : Option (List Int)
  /-- `cxx.addr` set from `cxx_nonconst_ptr` (memory the library keeps) -/
  ownerPtr : Bool
  idtor : Bool
  /-- `addr.base`: NULL, or the elements found there -/
  base : Option (List Int)
  /-- the address `addr.base` holds (0 for vector storage) -/
  addr : Nat
  typ : Bool
  elemLen : Bool
  size : Nat
  rank : Nat
  shape : List Nat
  /-- `addr.ccharp`: NULL, or the character block found there -/
  ccharp : Option Buf
  /-- the value stored in `elem_len` (character results) -/
  elemLenV : Nat
  /-- the capsule owns a heap `std::string` (released by ShroudCopyStringAndFree) -/
  ownerStr : Bool
  deriving Repr, DecidableEq

def Ctx.empty : Ctx := ⟨none, false, false, none, 0, false, false, 0, 0, [], none, 0, false⟩

inductive Val where
  | int (i : Int)        -- integers; reals as opaque ids
  | bool (b : Bool)      -- Fortran logical / C bool
  | buf (b : Buf)        -- character storage: a Fortran character variable or a C char block; capacity = length
  | str (s : List Nat)   -- std::string
  | arr (a : List Int)   -- native array storage; extent = length
  | obj (a : Nat)        -- object reference (shadow `addr`)
  | vec (l : List Int)   -- std::vector<T>
  | ctx (c : Ctx)        -- array context struct
  | carr (n len : Nat) (b : Buf)  -- Fortran `character(len=len) :: x(n)`: n*len contiguous bytes
  | ptrs (l : List Buf)  -- `char **`: the blocks the pointers designate
  | vstr (l : List (List Nat))  -- std::vector<std::string>
  | stru (fields : List Int)  -- a struct value (its members)
  | ref (addr : Nat) (a : List Int)  -- a C pointer / Fortran pointer: address and the elements found there
  | null
  deriving Repr, DecidableEq

structure St where
  vars : List (Nat × Val)
  /-- `d ↦ t`: the C pointer variable `d` points at the storage held under `t` -/
  alias : List (Nat × Nat)
  /-- live blocks obtained from ShroudStrAlloc and not yet freed -/
  heap : Nat
  /-- 0 executing, 1 skipping a then-branch, 2 executing a then-branch, 3 executing an else-branch,
      4 skipping an else-branch -/
  mode : Nat
  deriving Repr, DecidableEq

def assocGet {α : Type} (l : List (Nat × α)) (k : Nat) : Option α :=
  match l with
  | [] => none
  | (k', v) :: r => if k' == k then some v else assocGet r k

def assocSet {α : Type} (l : List (Nat × α)) (k : Nat) (v : α) : List (Nat × α) :=
  match l with
  | [] => [(k, v)]
  | (k', v') :: r => if k' == k then (k, v) :: r else (k', v') :: assocSet r k v

def St.resolve (s : St) (v : Nat) : Nat := (assocGet s.alias v).getD v
def St.get (s : St) (v : Nat) : Option Val := assocGet s.vars (s.resolve v)
def St.set (s : St) (v : Nat) (x : Val) : St := { s with vars := assocSet s.vars (s.resolve v) x }

/-- an integer operand: a literal or an integer variable -/
def St.int (s : St) (v : Nat) : Option Int :=
  if v == 99 then some (-1) else if v == 97 then some 0 else
  match s.get v with
  | some (.int i) => some i
  | _ => none

def natOfInt (i : Int) : Option Nat := if i < 0 then none else some i.toNat

def St.nat (s : St) (v : Nat) : Option Nat :=
  match s.int v with
  | some i => natOfInt i
  | none => none

def St.buf (s : St) (v : Nat) : Option Buf :=
  match s.get v with
  | some (.buf b) => some b
  | _ => none

def St.ctx (s : St) (v : Nat) : Option Ctx :=
  match s.get v with
  | some (.ctx c) => some c
  | _ => none

def St.vec (s : St) (v : Nat) : Option (List Int) :=
  match s.get v with
  | some (.vec l) => some l
  | _ => none

/-- the declared dimensions of the argument / result (format fields `f_array_allocate`,
    `c_var_dimension`, `c_array_shape`, `c_array_size`), held under variable 14 -/
def St.shape (s : St) : Option (List Nat) :=
  match s.get 14 with
  | some (.arr a) => some (a.map Int.toNat)
  | _ => none

def prod (l : List Nat) : Nat := l.foldl (· * ·) 1

/-- what wrapc.set_fmt_fields substitutes for `{c_array_shape}` / `{c_array_size}` at this rank, as
    recorded by the translator's probe (`Gen.FStmts.ctxProbe`; ranks 1 to 3) -/
def probeRow (rank : Nat) : Option (List (Nat × Nat) × List Nat) :=
  match Gen.FStmts.ctxProbe.find? (fun r => r.2.1 == rank) with
  | some r => some r.2.2
  | none => none

/-- `ctx->shape[i] = <dimension>` for the declared dimensions `sh` -/
def ctxShapeOf (sh : List Nat) : Option (List Nat) :=
  match probeRow sh.length with
  | some r => some ((List.range sh.length).map fun i =>
      match r.1.find? (fun a => a.1 == i) with
      | some a => sh.getD a.2 0
      | none => 0)
  | none => none

/-- `ctx->size = shape[i] * shape[j] * ...` -/
def ctxSizeOf (sh : List Nat) : Option Nat :=
  match probeRow sh.length, ctxShapeOf sh with
  | some r, some shp => some (prod (r.2.map fun i => shp.getD i 0))
  | _, _ => none

/-- `ShroudCopyArray(ctx, c_var, c_var_size)` on elements: `n = min(c_var_size, ctx->size)` elements
    are copied from `addr.base` (Capsule.copyArray with one byte per element) -/
def copyElems (c : Ctx) (dest : List Int) : Res (List Int) :=
  let n := if dest.length < c.size then dest.length else c.size
  if n = 0 then .ok dest else
  match c.base with
  | some l => if n ≤ l.length then .ok (l.take n ++ dest.drop n) else .oob
  | none => .oob

def liftBuf (s : St) (d : Nat) : Res Buf → Res St
  | .ok b => .ok (s.set d (.buf b))
  | .oob => .oob

def execOp (o : Op) (s : St) : Res St :=
  match o with
  | .coerceIn d src | .coerceOut d src =>
    match s.get src with
    | some (.bool b) => .ok (s.set d (.bool b))
    | _ => .oob
  | .strAlloc d src n t =>
    match s.buf src, s.nat n, s.int t with
    | some b, some n, some t =>
      match strAlloc b n t with
      | .ok blk => .ok { (s.set d (.buf blk)) with heap := s.heap + 1 }
      | .oob => .oob
    | _, _, _ => .oob
  | .strFree v =>
    match s.get v with
    | some (.buf _) => if s.heap = 0 then .oob else .ok { (s.set v .null) with heap := s.heap - 1 }
    | _ => .oob
  | .blankFill v n =>
    match s.buf v, s.nat n with
    | some b, some n => liftBuf s v (strBlankFill b n)
    | _, _ => .oob
  | .strCopyC d n src =>
    match s.buf d, s.nat n, s.get src with
    | some b, some n, some (.buf c) => liftBuf s d (strCopy b n (some c) (-1))
    | some b, some n, some .null => liftBuf s d (strCopy b n none (-1))
    | _, _, _ => .oob
  | .strCopyStd d n src src2 =>
    match s.buf d, s.nat n, s.get src with
    | some b, some n, some (.str t) =>
      -- `int nsrc = s.size()`: a size that does not fit `int` is outside the model (C10: narrow32)
      if src == src2 ∧ t.length < 2147483648 then liftBuf s d (strCopy b n (some (t ++ [NUL])) (t.length : Int)) else .oob
    | _, _, _ => .oob
  | .strCopyNull d n =>
    match s.buf d, s.nat n with
    | some b, some n => liftBuf s d (strCopy b n none 0)
    | _, _ => .oob
  | .mkStringLen d src n =>
    match s.buf src, s.nat n with
    | some b, some n => if n ≤ b.length then .ok (s.set d (.str (b.take n))) else .oob
    | _, _ => .oob
  | .mkStringEmpty d => .ok (s.set d (.str []))
  | .mkStringC d src =>
    match s.buf src with
    | some b => match strlen b with
      | .ok n => .ok (s.set d (.str (b.take n)))
      | .oob => .oob
    | none => .oob
  | .memsetBlank d n =>
    match s.buf d, s.nat n with
    | some b, some n => liftBuf s d (memset b 0 BLANK n)
    | _, _ => .oob
  | .setFirst d src =>
    match s.buf d, s.int src with
    | some b, some c => if c < 0 then .oob else liftBuf s d (wr b 0 c.toNat)
    | _, _ => .oob
  | .cfiBase d c => .ok { s with alias := assocSet s.alias d (s.resolve c) }
  | .lenTrimTo d src n =>
    match s.buf src, s.nat n with
    | some b, some n => match lenTrim b n with
      | .ok k => .ok (s.set d (.int k))
      | .oob => .oob
    | _, _ => .oob
  | .mkVector d src src2 n =>
    match s.get src, s.nat n with
    | some (.arr a), some n => if src == src2 ∧ n ≤ a.length then .ok (s.set d (.vec (a.take n))) else .oob
    | _, _ => .oob
  | .newVector d => .ok { (s.set d (.vec [])) with heap := s.heap + 1 }
  | .newVectorFrom d src src2 n =>
    match s.get src, s.nat n with
    | some (.arr a), some n =>
      if src == src2 ∧ n ≤ a.length then .ok { (s.set d (.vec (a.take n))) with heap := s.heap + 1 } else .oob
    | _, _ => .oob
  | .ctxCxxVar c v =>
    match s.ctx c, s.vec v with
    | some x, some l => .ok (s.set c (.ctx { x with owner := some l }))
    | _, _ => .oob
  | .ctxIdtor c => match s.ctx c with
    | some x => .ok (s.set c (.ctx { x with idtor := true }))
    | none => .oob
  | .ctxBaseVec c v v2 =>
    match s.ctx c, s.vec v with
    | some x, some l => if v == v2 then .ok (s.set c (.ctx { x with base := if l.isEmpty then none else some l, addr := 0 })) else .oob
    | _, _ => .oob
  | .ctxType c => match s.ctx c with
    | some x => .ok (s.set c (.ctx { x with typ := true }))
    | none => .oob
  | .ctxElemLen c => match s.ctx c with
    | some x => .ok (s.set c (.ctx { x with elemLen := true }))
    | none => .oob
  | .ctxSizeVec c v =>
    match s.ctx c, s.vec v with
    | some x, some l => .ok (s.set c (.ctx { x with size := l.length }))
    | _, _ => .oob
  | .ctxRank1 c => match s.ctx c with
    | some x => .ok (s.set c (.ctx { x with rank := 1 }))
    | none => .oob
  | .ctxShape0 c c2 => match s.ctx c with
    | some x => if c == c2 then .ok (s.set c (.ctx { x with shape := [x.size] })) else .oob
    | none => .oob
  | .ctxCxxPtr c => match s.ctx c with
    | some x => .ok (s.set c (.ctx { x with ownerPtr := true }))
    | none => .oob
  | .ctxBasePtr c v =>
    match s.ctx c, s.get v with
    | some x, some (.ref ad a) => .ok (s.set c (.ctx { x with base := some a, addr := ad }))
    | some x, some .null => .ok (s.set c (.ctx { x with base := none, addr := 0 }))
    | _, _ => .oob
  | .ctxRankShape c =>
    match s.ctx c, s.shape with
    | some x, some sh =>
      match ctxShapeOf sh with
      | some shp => .ok (s.set c (.ctx { x with rank := sh.length, shape := shp }))
      | none => .oob
    | _, _ => .oob
  | .ctxSizeExpr c =>
    match s.ctx c, s.shape with
    | some x, some sh =>
      match ctxSizeOf sh with
      | some n => .ok (s.set c (.ctx { x with size := n }))
      | none => .oob
    | _, _ => .oob
  | .copyArrayF c f f2 =>
    match s.ctx c, s.get f with
    | some x, some (.arr d) =>
      if f == f2 then
        match copyElems x d with
        | .ok r =>
          -- `<C_memory_dtor_function>(&data->cxx)`: the owned vector is deleted
          (match x.owner with
            | some _ => if s.heap = 0 then .oob else
                .ok { ((s.set f (.arr r)).set c (.ctx { x with owner := none })) with heap := s.heap - 1 }
            | none => .ok (s.set f (.arr r)))
        | .oob => .oob
      else .oob
    | _, _ => .oob
  | .allocCtxSize f c => match s.ctx c with
    | some x => .ok (s.set f (.arr (List.replicate x.size 0)))
    | none => .oob
  | .deallocIf f f2 => if f == f2 then .ok (s.set f (.arr [])) else .oob
  | .allocShape f => match s.shape with
    | some sh => .ok (s.set f (.arr (List.replicate (prod sh) 0)))
    | none => .oob
  | .cfPointerCtx c f => match s.ctx c with
    | some x => match x.base with
      | some l => if prod x.shape ≤ l.length then .ok (s.set f (.ref x.addr (l.take (prod x.shape)))) else .oob
      | none => .oob
    | none => .oob
  | .cfPointerRes p r =>
    match s.get p with
    | some (.ref ad a) =>
      let n := match s.ctx 5 with | some x => prod x.shape | none => 1
      if n ≤ a.length then .ok (s.set r (.ref ad (a.take n))) else .oob
    | _ => .oob
  | .declPtr d => .ok (s.set d .null)
  | .strArrayAlloc d src n l =>
    match s.get src, s.nat n, s.nat l with
    | some (.carr _ _ b), some n, some l =>
      match strArrayAlloc b n l with
      | .ok blocks => .ok { (s.set d (.ptrs blocks)) with heap := s.heap + blocks.length + 1 }
      | .oob => .oob
    | _, _, _ => .oob
  | .strArrayFree v n =>
    match s.get v, s.nat n with
    | some (.ptrs blocks), some n =>
      match strArrayFree blocks n with
      | .ok rest =>
        let freed := blocks.length - rest.length + 1
        if s.heap < freed then .oob else .ok { (s.set v .null) with heap := s.heap - freed }
      | .oob => .oob
    | _, _ => .oob
  | .ctxCcharp c v =>
    match s.ctx c, s.get v with
    | some x, some (.buf b) => .ok (s.set c (.ctx { x with ccharp := some b }))
    | some x, some .null => .ok (s.set c (.ctx { x with ccharp := none }))
    | _, _ => .oob
  | .ctxElemLenStr c v v2 =>
    if v != v2 then .oob else
    match s.ctx c, s.get v with
    | some x, some (.buf b) =>
      match charResultCtx (some b) with
      | .ok r => .ok (s.set c (.ctx { x with elemLenV := r.2 }))
      | .oob => .oob
    | some x, some .null => .ok (s.set c (.ctx { x with elemLenV := 0 }))
    | _, _ => .oob
  | .ctxSize1 c => match s.ctx c with
    | some x => .ok (s.set c (.ctx { x with size := 1 }))
    | none => .oob
  | .ctxRank0 c => match s.ctx c with
    | some x => .ok (s.set c (.ctx { x with rank := 0 }))
    | none => .oob
  | .strToArray c v =>
    match s.ctx c, s.get v with
    | some x, some (.str t) =>
      .ok (s.set c (.ctx { x with ccharp := (Shroud.Str.strToArray t).1, elemLenV := (Shroud.Str.strToArray t).2, idtor := true,
                                   ownerStr := decide (0 < s.heap) }))
    | _, _ => .oob
  | .newString d => .ok { (s.set d (.str [])) with heap := s.heap + 1 }
  | .allocCharCtx c f => match s.ctx c with
    | some x => .ok (s.set f (.buf (List.replicate x.elemLenV UNINIT)))
    | none => .oob
  | .copyStringF c f c2 =>
    if c != c2 then .oob else
    match s.ctx c, s.buf f with
    | some x, some b =>
      match copyString x.ccharp x.elemLenV b x.elemLenV with
      | .ok r =>
        if x.ownerStr then (if s.heap = 0 then .oob else .ok { (s.set f (.buf r)) with heap := s.heap - 1 })
        else .ok (s.set f (.buf r))
      | .oob => .oob
    | _, _ => .oob
  | .vecStrIn d src n l =>
    match s.get src, s.nat n, s.nat l with
    | some (.carr _ _ b), some n, some l =>
      match vecStringIn b l 0 n with
      | .ok vs => .ok (s.set d (.vstr vs))
      | .oob => .oob
    | _, _, _ => .oob
  | .vecStrOut dst n l v =>
    match s.get dst, s.nat n, s.nat l, s.get v with
    | some (.carr a c b), some n, some l, some (.vstr vs) =>
      match vecStringOut b l 0 n vs with
      | .ok b' => .ok (s.set dst (.carr a c b'))
      | .oob => .oob
    | _, _, _, _ => .oob
  | .vecStrDecl d => .ok (s.set d (.vstr []))
  | .structCast d src =>
    -- format field `c_addr` (variable 15: 1 = `&`, 0 = none) and whether the wrapper's parameter is a pointer
    -- (variable 16).  `&` on a by-value struct, nothing on a pointer: `d` designates the caller's struct;
    -- `&` on a pointer parameter would hand over the bytes of the pointer itself
    match s.int 15, s.int 16, s.get src with
    | some a, some isPtr, some (.stru _) =>
      if (a == 1) != (isPtr == 1) then .ok { s with alias := assocSet s.alias d (s.resolve src) } else .oob
    | _, _, _ => .oob
  | .ifEmpty _ | .else_ | .endIf => .ok s
  | .opaque _ => .oob

/-- one op, with the `if (x.empty()) { .. } else { .. }` structure of the string result entries -/
def step (o : Op) (s : St) : Res St :=
  match o with
  | .ifEmpty v =>
    if s.mode ≠ 0 then .oob else
    match s.get v with
    | some (.str t) => .ok { s with mode := if t.isEmpty then 2 else 1 }
    | _ => .oob
  | .else_ => if s.mode = 2 then .ok { s with mode := 4 } else if s.mode = 1 then .ok { s with mode := 3 } else .oob
  | .endIf => if s.mode = 3 ∨ s.mode = 4 then .ok { s with mode := 0 } else .oob
  | o => if s.mode = 1 ∨ s.mode = 4 then .ok s else execOp o s

def run : List Op → St → Res St
  | [], s => .ok s
  | o :: os, s =>
    match step o s with
    | .ok s' => run os s'
    | .oob => .oob

/-! ## 3. one argument through both wrappers -/

structure FSpec where
  cLocal : Bool
  pre : List Op
  post : List Op
  deriving Repr, DecidableEq

structure CSpec where
  bufArgs : List Nat
  cxxLocal : Nat
  /-- the argument arrives as a CFI descriptor (`CFI_cdesc_t *`) -/
  cfi : Bool
  pre : List Op
  post : List Op
  deriving Repr, DecidableEq

def Row.fspec (r : Row) : FSpec := ⟨r.fLocal, (r.clause 1).map Op.ofRaw, (r.clause 2).map Op.ofRaw⟩
/-- an explicit `arg_call` (`&{cxx_var}` / `{cxx_var}`) also makes `cxx_var` the variable handed to
    the library: local-variable code 3; an `arg_call` of another form: 9 (nothing is handed over) -/
def Row.cspec (r : Row) (cfi : Bool) : CSpec :=
  let cl : Nat := match r.clause 6 with
    | [] => r.cxxLocal
    | [(_, [6])] => 3
    | _ => 9
  ⟨r.bufArgs, cl, cfi, (r.clause 1).map Op.ofRaw, (r.clause 2).map Op.ofRaw⟩

/-- Fortran side at entry: `f_var` holds the actual; without `c_local_var` the name `c_var` IS `f_var` -/
def fInit (F : FSpec) (actual : Val) : St :=
  -- `F_result` (8) names the result variable, which is `f_var` in a result block
  if F.cLocal then ⟨[(0, actual), (1, .null)], [(8, 0)], 0, 0⟩   -- the local `SH_<name>` starts undefined
  else ⟨[(0, actual)], [(1, 0), (8, 0)], 0, 0⟩

/-- where the C wrapper finds the caller's storage: the parameter `c_var`, or the descriptor -/
def CSpec.storage (C : CSpec) : Nat := if C.cfi then 10 else 1

/-- the bind(C) boundary, `build_arg_list_impl`: one actual per buf_arg
    (1 arg, 2 arg_decl, 3 len, 4 len_trim, 5 size, 8 shadow; an empty list means `["arg"]`) -/
def bindArg (C : CSpec) (fs : St) (cs : St) (b : Nat) : Res St :=
  if b == 1 ∨ b == 2 ∨ b == 8 then
    match fs.get 1 with
    | some v =>
      let cs := cs.set C.storage v
      match C.cfi, v with
      | true, .buf t => .ok (cs.set 9 (.int t.length))
      | _, _ => .ok cs
    | none => .oob
  else if b == 3 then
    match fs.get 0 with
    | some (.buf t) => .ok (cs.set 2 (.int t.length))             -- len(f_var, kind=C_INT)
    | some (.carr _ l _) => .ok (cs.set 2 (.int l))
    | _ => .oob
  else if b == 4 then
    match fs.get 0 with
    | some (.buf t) =>
      match lenTrim t t.length with                                  -- len_trim(f_var, kind=C_INT)
      | .ok k => .ok (cs.set 3 (.int k))
      | .oob => .oob
    | _ => .oob
  else if b == 5 then
    match fs.get 0 with
    | some (.arr a) => .ok (cs.set 4 (.int a.length))               -- size(f_var, kind=C_LONG)
    | some (.carr n _ _) => .ok (cs.set 4 (.int n))
    | _ => .oob
  else if b == 6 then
    -- `type(<lib>_SHROUD_array) :: D<name>`: a local of the Fortran wrapper passed by reference
    .ok (cs.set 5 (.ctx Ctx.empty))
  else .oob

def bindAll (C : CSpec) (fs : St) : List Nat → St → Res St
  | [], cs => .ok cs
  | b :: bs, cs =>
    match bindArg C fs cs b with
    | .ok cs' => bindAll C fs bs cs'
    | .oob => .oob

def boundary (C : CSpec) (fs : St) : Res St :=
  -- the declared dimensions are format fields on both sides
  let cs0 : St := match fs.get 14 with
    | some v => ⟨[(14, v)], [], 0, 0⟩
    | none => ⟨[], [], 0, 0⟩
  let cs0 := match fs.get 15 with
    | some v => cs0.set 15 v
    | none => cs0
  let cs0 := match fs.get 16 with
    | some v => cs0.set 16 v
    | none => cs0
  bindAll C fs (if C.bufArgs.isEmpty then [1] else C.bufArgs) cs0

/-- the variable handed to the library (`C_call_list`): the C++ local when the entry declares one -/
def CSpec.callVar (C : CSpec) : Nat := if C.cxxLocal == 0 then C.storage else if C.cxxLocal == 9 then 99 else 6

/-- how the library takes part: it receives the value of an argument and may leave another one
    in its place (`lib`), or it returns the value `ret` which the wrapper holds in `cxx_var` -/
inductive Call where
  | arg (lib : Val → Val)
  | result (ret : Val)

structure Outcome where
  /-- what the library received for this parameter (`none` for a result) -/
  received : Option Val
  /-- what the Fortran caller holds in the actual argument / result variable afterwards -/
  final : Val
  /-- temporaries still allocated when the wrapper returns -/
  leaked : Nat
  deriving Repr, DecidableEq

/-- the whole trip of one argument.  `byRef`: the C parameter designates the caller's storage
    (pointer, reference, character buffer, array); by-value arguments are not copied back.
    `env`: extra format fields of the argument (14 = its declared dimensions).  The context
    struct (variable 5) is a local of the Fortran wrapper passed by reference, so what the C wrapper
    stored in it is what the Fortran post_call reads; a returned pointer is `F_pointer` (7). -/
def runArgWith (env : List (Nat × Val)) (F : FSpec) (C : CSpec) (byRef : Bool) (actual : Val) (call : Call) :
    Res Outcome :=
  let fs0 := env.foldl (fun (st : St) kv => st.set kv.1 kv.2) (fInit F actual)
  (run F.pre fs0).bind fun fs =>
  (boundary C fs).bind fun cs =>
  (run C.pre cs).bind fun cs =>
  let rcv : Option Val := match call with
    | .arg _ => cs.get C.callVar
    | .result _ => none
  (match call with
    | .arg lib =>
      match cs.get C.callVar with
      | some v => Res.ok (cs.set C.callVar (lib v))
      | none => Res.oob
    | .result ret => Res.ok (cs.set 6 ret)).bind fun cs =>
  (run C.post cs).bind fun cs =>
  if cs.mode ≠ 0 then .oob else
  (if byRef then
      match cs.get C.storage with
      | some v => Res.ok (fs.set 1 v)
      | none => Res.oob
    else Res.ok fs).bind fun fs =>
  let fs := match cs.get 5 with
    | some v => fs.set 5 v
    | none => fs
  let fs := match call with
    | .result ret => fs.set 7 ret
    | .arg _ => fs
  (run F.post { fs with heap := cs.heap }).bind fun fs =>
  match fs.get 0 with
  | some v => .ok ⟨rcv, v, fs.heap⟩
  | none => .oob

def runArg (F : FSpec) (C : CSpec) (byRef : Bool) (actual : Val) (call : Call) : Res Outcome :=
  runArgWith [] F C byRef actual call

/-- `ftrim_char_in` branch of wrap_function_impl: the actual is the expression
    `trim(x)//C_NULL_CHAR`; the plain C wrapper hands the pointer on -/
def runFtrim (actual : Val) : Res Outcome :=
  match actual with
  | .buf t => .ok ⟨some (.buf (ftrimCharIn t)), .buf t, 0⟩
  | _ => .oob

/-- reference semantics of the Fortran inquiry functions used by `+implied(...)` and by the
    `len` / `len_trim` / `size` actuals (1 size, 2 len, 3 len_trim) -/
def inquiry (f : Nat) (v : Val) : Option Int :=
  match f, v with
  | 1, .arr a => some a.length
  | 2, .buf t => some t.length
  | 3, .buf t => some (rtrim t).length
  | _, _ => none

/-! ## 4. assembly of one wrapper: `wrap_function_impl` -/

/-- the parts of one declaration that select statements -/
structure ArgD where
  sgroup : Nat
  spointer : Nat
  intent : Nat
  suffix : Nat
  deref : Nat
  cdesc : Bool
  spec : Nat
  /-- typemap name (interned by the harness); `c.tname ≠ f.tname` happens with fortran_generic -/
  tname : Nat
  deriving Repr, DecidableEq

structure Param where
  name : Nat
  c : ArgD
  f : ArgD
  isResult : Bool
  hidden : Bool
  ftrim : Bool
  assumedType : Bool
  funPtr : Bool
  /-- 0 none, 1 expression passed directly, 2 through the local `SH_<name>` -/
  implied : Nat
  f2c : Bool
  deriving Repr, DecidableEq

structure Fn where
  /-- 0 free function, 1 method, 2 static method, 3 ctor, 4 dtor -/
  kind : Nat
  fFunction : Bool
  cFunction : Bool
  genSuffix : Nat
  /-- suffix used to look up the statements of the function RESULT: `result_suffix` of the C function when
      set (a result returned unchanged: none; a context result inside a CFI function: buf), else `genSuffix` -/
  resSuffix : Nat
  /-- `F_string_result_as_arg` set -/
  resAsArg : Bool
  rsgroup : Nat
  rspointer : Nat
  rderef : Nat
  rowner : Nat
  params : List Param
  deriving Repr, DecidableEq

/-- actual arguments of the call to the bind(C) interface -/
inductive Actual where
  | this | var (n : Nat) | local_ (n : Nat) | result | trimNul (n : Nat) | lenTrim (n : Nat) | len (n : Nat)
  | size (n : Nat) | ctx (n : Nat) | capsule (n : Nat) | shadow (n : Nat) | implied (n : Nat)
  | cast (n : Nat) | f2c (n : Nat) | cloc (n : Nat) | fptr (n : Nat)
  deriving Repr, DecidableEq

structure Asm where
  fargs : List Nat
  actuals : List Actual
  /-- per looked-up block: (requested path, matched path), Fortran then C; result first -/
  matched : List (List Nat × List Nat)
  needWrapper : Bool
  deriving Repr, DecidableEq

def cPathArg (p : Param) (gen : Nat) : List Nat :=
  if p.isResult then [1, p.c.sgroup, p.c.spointer, 43, gen, p.c.deref] ++ (if p.c.spec = 0 then [] else [p.c.spec])
  else [1, p.c.sgroup, p.c.spointer, p.c.intent, p.c.suffix, if p.c.cdesc then 64 else 0]
        ++ (if p.c.spec = 0 then [] else [p.c.spec])

def fPathArg (p : Param) (gen : Nat) : List Nat :=
  if p.isResult then [2, p.f.sgroup, p.f.spointer, 43, gen, p.f.deref] ++ (if p.c.spec = 0 then [] else [p.c.spec])
  else [2, p.f.sgroup, p.f.spointer, p.f.intent, p.f.suffix, p.f.deref, if p.c.cdesc then 64 else 0]
        ++ (if p.c.spec = 0 then [] else [p.c.spec])

def fPathRes (fn : Fn) : List Nat :=
  if fn.kind = 3 then [2, 15, 44]
  else if ¬ fn.fFunction then (if fn.kind = 4 then [2, 15, 45] else [2, 20])
  else [2, fn.rsgroup, fn.rspointer, 43, fn.resSuffix, fn.rderef, fn.rowner]

def cPathRes (fn : Fn) : List Nat :=
  if fn.kind = 3 then [1, 15, 44]
  else if ¬ fn.fFunction then (if fn.kind = 4 then [1, 15, 45] else [1])
  else [1, fn.rsgroup, fn.rspointer, 43, fn.resSuffix]

/-- `build_arg_list_impl` for one buf_arg; `cv` is the Fortran name of `c_var` -/
def bufActual (p : Param) (cv : Actual) (n : Nat) (b : Nat) : Actual :=
  if b == 1 ∨ b == 2 then
    (if p.f2c then .f2c n else if p.c.tname ≠ p.f.tname then .cast n else cv)
  else if b == 8 then .shadow n
  else if b == 5 then .size n
  else if b == 7 then .capsule n
  else if b == 6 then .ctx n
  else if b == 4 then .lenTrim n
  else .len n

def argCCall (n : Nat) : Nat × List Nat → Actual
  | (32, _) => .cloc n
  | (30, [7]) => .fptr n
  | (30, [5]) => .ctx n
  | _ => .var n

/-- is the parameter part of the Fortran API -/
def Param.isFArg (fn : Fn) (p : Param) : Bool := !(p.isResult && !fn.resAsArg)

/-- the actuals one parameter contributes -/
def paramActuals (rows : List Row) (fn : Fn) (p : Param) : List Actual :=
  if p.isFArg fn ∧ p.ftrim then [.trimNul p.name]
  else if p.isFArg fn ∧ (p.assumedType ∨ p.funPtr) then [.var p.name]
  else if p.isFArg fn ∧ p.implied = 1 then [.implied p.name]
  else if p.isFArg fn ∧ p.implied = 2 then [.local_ p.name]
  else
    let fr := lookup rows (fPathArg p fn.resSuffix)
    let cr := lookup rows (cPathArg p fn.resSuffix)
    -- a result passed as an extra argument is not in the API: its `f_var` is the result variable (name 0)
    let n := if p.isFArg fn then p.name else 0
    if ¬ (fr.clause 5).isEmpty then (fr.clause 5).map (argCCall n)
    else
      let cv : Actual := if fr.fLocal then .local_ n else if p.isFArg fn then .var n else .result
      (if cr.bufArgs.isEmpty then [1] else cr.bufArgs).map (bufActual p cv n)

/-- does the parameter appear in the Fortran argument list -/
def Param.visible (fn : Fn) (p : Param) : Bool :=
  p.isFArg fn && (p.ftrim || p.assumedType || p.funPtr || (p.implied != 1 && p.implied != 2 && !p.hidden))

/-- the statement blocks one parameter looks up (none on the early `continue` branches) -/
def paramMatched (rows : List Row) (fn : Fn) (p : Param) : List (List Nat × List Nat) :=
  if p.isFArg fn ∧ (p.ftrim ∨ p.assumedType ∨ p.funPtr ∨ p.implied ≠ 0) then []
  else [(fPathArg p fn.resSuffix, (lookup rows (fPathArg p fn.resSuffix)).path),
        (cPathArg p fn.resSuffix, (lookup rows (cPathArg p fn.resSuffix)).path)]

/-- the names an ordinary visible parameter adds to the Fortran argument list.  The emitter has
    a quirk here: when the argument's block has `arg_decl` and the RESULT block has `arg_name`,
    the result's names are appended instead of the argument's own name. -/
def apiNames (rows : List Row) (fn : Fn) (p : Param) : List Nat :=
  if (lookup rows (fPathArg p fn.resSuffix)).argDecl ∧ ¬ ((lookup rows (fPathRes fn)).clause 9).isEmpty then
    ((lookup rows (fPathRes fn)).clause 9).map (fun _ => resultArgName)
  else [p.name]

/-- the parameter loop of wrap_function_impl, written as the emitter writes it: three
    accumulators, early `continue` for the special branches -/
def paramLoop (rows : List Row) (fn : Fn) :
    List Param → (List Nat × List Actual × List (List Nat × List Nat)) → (List Nat × List Actual × List (List Nat × List Nat))
  | [], acc => acc
  | p :: ps, (names, acts, ms) =>
    if p.isFArg fn ∧ p.ftrim then
      paramLoop rows fn ps (names ++ [p.name], acts ++ [.trimNul p.name], ms)
    else if p.isFArg fn ∧ (p.assumedType ∨ p.funPtr) then
      paramLoop rows fn ps (names ++ [p.name], acts ++ [.var p.name], ms)
    else if p.isFArg fn ∧ p.implied = 1 then
      paramLoop rows fn ps (names, acts ++ [.implied p.name], ms)
    else if p.isFArg fn ∧ p.implied = 2 then
      paramLoop rows fn ps (names, acts ++ [.local_ p.name], ms)
    else
      let names' := if p.isFArg fn ∧ ¬ p.hidden then names ++ apiNames rows fn p else names
      paramLoop rows fn ps (names', acts ++ paramActuals rows fn p, ms ++ paramMatched rows fn p)

def resultActual (b : Nat) : Actual :=
  if b == 6 then .ctx 0 else if b == 7 then .capsule 0 else if b == 8 then .shadow 0
  else if b == 5 then .size 0 else if b == 4 then .lenTrim 0 else if b == 3 then .len 0 else .result

def assembleF (rows : List Row) (fn : Fn) : Asm :=
  let fr := lookup rows (fPathRes fn)
  let cr := lookup rows (cPathRes fn)
  let this : List Nat := if fn.kind = 1 ∨ fn.kind = 4 then [0] else []
  let thisA : List Actual := if fn.kind = 1 ∨ fn.kind = 4 then [.this] else []
  let pre : List Actual := if fn.cFunction then cr.bufArgs.map resultActual else []
  let (names, acts, ms) := paramLoop rows fn fn.params (this, thisA ++ pre, [(fPathRes fn, fr.path), (cPathRes fn, cr.path)])
  let post : List Actual := if fn.fFunction then cr.bufExtra.map resultActual else []
  let names := if fn.fFunction ∧ fr.argDecl then names ++ (fr.clause 9).map (fun _ => resultArgName) else names
  { fargs := names, actuals := acts ++ post, matched := ms, needWrapper := fn.kind ≠ 0 }

/-! ## 5. clones, routing and generic interfaces -/

/-- what the routing needs of one entry of `function_index` -/
structure Node where
  /-- `_PTR_F_C_index` -/
  ptrFC : Option Nat
  /-- `_PTR_C_CXX_index` -/
  ptrCCxx : Option Nat
  wrapF : Bool
  /-- interned `F_name_generic` (with `F_name_scope`) -/
  generic : Nat
  /-- 0 none, 1 function generic, 2 type-bound generic, 3 ctor generic (forced) -/
  genericKind : Nat
  /-- `_generated == "fortran_generic"` (forces the interface) -/
  force : Bool
  nparams : Nat
  deriving Repr, DecidableEq

/-- `while C_node._PTR_F_C_index is not None: C_node = function_index[...]` -/
def routeC (tab : List Node) : Nat → Nat → Nat
  | 0, i => i
  | fuel + 1, i =>
    match (tab[i]?).bind (·.ptrFC) with
    | some j => routeC tab fuel j
    | none => i

/-- the library function a C wrapper calls (`while CXX_node._PTR_C_CXX_index is not None` in
    wrapc.wrap_function): bufferify/CFI clones call the function they were cloned from -/
def routeCxx (tab : List Node) : Nat → Nat → Nat
  | 0, i => i
  | fuel + 1, i =>
    match (tab[i]?).bind (·.ptrCCxx) with
    | some j => routeCxx tab fuel j
    | none => i

/-- `has_default_args`: one clone per defaulted parameter, keeping the parameters before it
    (`del new.ast.params[i:]`).  `inits[i]` says whether parameter `i` has a default value. -/
def defaultClonesAux {α : Type} (params : List α) : List Bool → Nat → List (List α)
  | [], _ => []
  | true :: r, i => params.take i :: defaultClonesAux params r (i + 1)
  | false :: r, i => defaultClonesAux params r (i + 1)

def defaultClones {α : Type} (params : List α) (inits : List Bool) : List (List α) :=
  defaultClonesAux params inits 0

/-- `f_function_generic.setdefault(name, GenericFunction(force, [])).functions.append(node)`:
    groups keep the `force` flag of their first member -/
def addGeneric (gs : List (Nat × Bool × List Nat)) (name : Nat) (force : Bool) (i : Nat) :
    List (Nat × Bool × List Nat) :=
  match gs with
  | [] => [(name, force, [i])]
  | (n, f, l) :: r => if n == name then (n, f, l ++ [i]) :: r else (n, f, l) :: addGeneric r name force i

/-- one pass over the Fortran-wrapped functions in emission order -/
def collectGenerics : List (Nat × Node) → List (Nat × Bool × List Nat) → List (Nat × Bool × List Nat)
  | [], gs => gs
  | (i, n) :: r, gs =>
    if n.wrapF ∧ n.genericKind ≠ 0 then collectGenerics r (addGeneric gs n.generic (n.force || n.genericKind == 3) i)
    else collectGenerics r gs

/-- `dump_generic_interfaces`: an interface is written when forced or when it has several specifics -/
def emittedGenerics (gs : List (Nat × Bool × List Nat)) : List (Nat × List Nat) :=
  (gs.filter (fun g => g.2.1 || g.2.2.length > 1)).map (fun g => (g.1, g.2.2))

/-! ### implied arguments: `ToImplied` (wrapf.py) -/

/-- expressions of the `+implied(..)` attribute: `true`, `false`, another argument, a constant,
    `size(arg)`, `len(arg)`, `len_trim(arg)`, `type(arg)`, arithmetic (1 `+`, 2 `-`, 3 `*`, 4 `/`) -/
inductive IExpr where
  | tru | fls
  | ident (n : Nat)
  | const (v : Nat)
  | size (a : Nat) | len (a : Nat) | lenTrim (a : Nat) | typ (a : Nat)
  | bin (op : Nat) (l r : IExpr)
  | neg (e : IExpr)
  | paren (e : IExpr)
  deriving Repr, DecidableEq

/-- the Fortran text of the expression, argument names and kinds as references -/
inductive ITok where
  | tru | fls | arg (n : Nat) | num (v : Nat)
  | size (a : Nat) | len (a : Nat) | lenTrim (a : Nat)   -- `size(a,kind=<kind of the implied argument>)` ...
  | shType (code : Nat)                                     -- `SH_TYPE_<..>` of the named argument
  | op (o : Nat) | lp | rp
  deriving Repr, DecidableEq

def ITok.isSign : ITok → Bool
  | .op 1 | .op 2 => true
  | _ => false

/-- `shTypeOf a`: the type code of argument `a` IN THE FUNCTION BEING WRAPPED (for a fortran_generic
    clone: the clone's own declaration of `a`, not the C function's) -/
def IExpr.render (shTypeOf : Nat → Nat) : IExpr → List ITok
  | .tru => [.tru]
  | .fls => [.fls]
  | .ident n => [.arg n]
  | .const v => [.num v]
  | .size a => [.size a]
  | .len a => [.len a]
  | .lenTrim a => [.lenTrim a]
  | .typ a => [.shType (shTypeOf a)]
  | .bin o l r =>
    let rr := r.render shTypeOf
    l.render shTypeOf ++ [.op o] ++ (if (rr.head?.map ITok.isSign).getD false then [.lp] ++ rr ++ [.rp] else rr)
  | .neg e =>
    let rr := e.render shTypeOf
    [.op 2] ++ (if (rr.head?.map ITok.isSign).getD false then [.lp] ++ rr ++ [.rp] else rr)
  | .paren e => [.lp] ++ e.render shTypeOf ++ [.rp]

/-- the value the library receives for the implied argument, given the caller's actuals -/
def IExpr.eval (actual : Nat → Option Val) (shTypeOf : Nat → Nat) : IExpr → Option Val
  | .tru => some (.bool true)
  | .fls => some (.bool false)
  | .ident n => actual n
  | .const v => some (.int v)
  | .size a => (actual a).bind fun v => (inquiry 1 v).map Val.int
  | .len a => (actual a).bind fun v => (inquiry 2 v).map Val.int
  | .lenTrim a => (actual a).bind fun v => (inquiry 3 v).map Val.int
  | .typ a => some (.int (shTypeOf a))
  | .bin o l r =>
    match l.eval actual shTypeOf, r.eval actual shTypeOf with
    | some (.int x), some (.int y) =>
      if o = 1 then some (.int (x + y)) else if o = 2 then some (.int (x - y)) else if o = 3 then some (.int (x * y))
      else if o = 4 ∧ y ≠ 0 then some (.int (Int.tdiv x y)) else none
    | _, _ => none
  | .neg e => match e.eval actual shTypeOf with
    | some (.int x) => some (.int (-x))
    | _ => none
  | .paren e => e.eval actual shTypeOf

/-! ### preprocessor guards of a generic interface (`dump_generic_interfaces`) and the assumed-rank range -/

/-- `node_cpp_if` of the members of one generic, 0 = none.  The guard of the first member is promoted
    to the whole `interface <generic>` block only if EVERY member has that same guard. -/
def ifaceBlockGuard (cs : List Nat) : Nat :=
  match cs with
  | [] => 0
  | c :: _ => if c ≠ 0 ∧ cs.all (fun x => x == c) then c else 0

/-- (guard around the block, guard around each `module procedure` line) -/
def emitInterfaceGuards (cs : List Nat) : Nat × List Nat :=
  let b := ifaceBlockGuard cs
  (b, if b ≠ 0 then cs.map (fun _ => 0) else cs)

/-- the conditions under which member `i` is reachable under the generic name -/
def memberConditions (g : Nat × List Nat) (i : Nat) : List Nat :=
  (if g.1 ≠ 0 then [g.1] else []) ++ (match g.2[i]? with | some m => if m ≠ 0 then [m] else [] | none => [])

/-- type-bound generics (`generic :: name => ...` in wrap_class): when any member has a cpp_if, one
    guarded line per member; else one unguarded line for all -/
def typeGenericGuards (cs : List Nat) : List Nat := cs

/-- `process_assumed_rank`: one fortran_generic variant per rank in
    `range(F_assumed_rank_min, F_assumed_rank_max + 1)` -/
def assumedRanks (lo hi : Nat) : List Nat := (List.range (hi + 1 - lo)).map (· + lo)

/-! ### attributes of the bind(C) interface that license compiler optimisations; C-side dereference fields -/

/-- what `wrap_function_interface` looks at to decide the PURE prefix -/
structure IfaceD where
  isFunction : Bool
  /-- `+pure` attribute -/
  pureAttr : Bool
  /-- const member function -/
  funcConst : Bool
  /-- the result is a shadow (class) type: the capsule argument is assigned to -/
  resultShadow : Bool
  /-- the C result block has a context buf_arg: the context argument is assigned to -/
  resultCtx : Bool
  /-- intents of the parameters (part ids: 40 in, 41 out, 42 inout) -/
  intents : List Nat
  deriving Repr, DecidableEq

/-- `F_C_pure_clause = "pure "` -/
def interfacePure (d : IfaceD) : Bool :=
  !d.resultShadow && !d.resultCtx && d.isFunction && (d.pureAttr || (d.funcConst && d.intents.all (· == 40)))

/-- `wrapc.compute_c_deref`: (c_deref is `*`, c_member is `->`, c_addr is `&`) for a parameter, from the
    local-variable kind of its block (0 none, 1 scalar, 2 pointer) and whether the declaration is
    indirect (pointer OR reference: the C wrapper's parameter is a pointer in both cases) -/
def computeCDeref (localVar : Nat) (isIndirect : Bool) : Bool × Bool × Bool :=
  if localVar == 1 then (false, false, true)
  else if localVar == 2 then (true, true, false)
  else if isIndirect then (true, true, false)
  else (false, false, true)

/-! ### the VALUE attribute of a bind(C) dummy argument (`VerifyAttrs.check_arg_attrs`) -/

/-- what `check_arg_attrs` looks at to default `attrs["value"]`, and (last two fields) what it does NOT look
    at: const-ness and the explicit intent of the declaration -/
structure ValueD where
  /-- `+assumedtype` given -/
  assumedtype : Bool
  /-- `+value` as written: none (absent), some true / some false -/
  given : Option Bool
  /-- pointer or reference declarator -/
  isIndirect : Bool
  /-- typemap name is `void` -/
  isVoid : Bool
  /-- `len(declarator.pointer)` -/
  nptr : Nat
  /-- `int x[10]` -/
  isArray : Bool
  isConst : Bool
  /-- explicit `+intent(..)`: 0 none, 40 in, 41 out, 42 inout -/
  intent : Nat
  deriving Repr, DecidableEq

/-- `attrs["value"]` after `check_arg_attrs` (none: not set).  `+assumedtype` with `+value` raises. -/
def valueAttr (d : ValueD) : Res (Option Bool) :=
  if d.assumedtype then (if d.given == some true then .oob else .ok d.given)
  else match d.given with
    | some g => .ok (some g)
    | none =>
      if d.isIndirect then .ok (if d.isVoid && d.nptr == 1 then some true else none)
      else if d.isArray then .ok none
      else .ok (some true)

/-- a `type(C_PTR)` actual (`.ref a els`: the address `a` the caller supplied, `els` found there) at the
    bind(C) boundary: a VALUE dummy hands the C function the address itself; without VALUE the C function
    gets the address `var` of the caller's C_PTR variable, where it finds the bits of `a` -/
def cptrAtBoundary (value : Bool) (var : Nat) : Val → Val
  | .ref a els => if value then .ref a els else .ref var [(a : Int)]
  | v => v

/-! ### `generic_function`: which C function each fortran_generic clone calls -/

/-- `get_order`: one code per parameter, 0 `-` (ignored), 1 `s` scalar, 2 `a` array.  A parameter is
    (typemap sgroup is native, rank with 0 for none).  With a mold (the C function's order) the
    result stops at the mold's length and keeps the mold's `-`. -/
def getOrder : List (Bool × Nat) → Option (List Nat) → List Nat
  | [], _ => []
  | (nat, rk) :: ps, none => (if !nat then 0 else if rk = 0 then 1 else 2) :: getOrder ps none
  | _ :: _, some [] => []
  | (nat, rk) :: ps, some (m :: ms) =>
    (if m = 0 then 0 else if !nat then 0 else if rk = 0 then 1 else 2) :: getOrder ps (some ms)

/-- the loop over `node.fortran_generic`: every entry appends a Fortran clone (index `next`); when
    its scalar/array order is not yet in `cvariants` a C clone is appended right after it and
    recorded.  Result: the `_PTR_F_C_index` of each Fortran clone, in order. -/
def genericLoop : List (List Nat) → List (List Nat × Nat) → Nat → List Nat
  | [], _, _ => []
  | o :: os, tab, next =>
    match assocGetL tab o with
    | some t => t :: genericLoop os tab (next + 1)
    | none => (next + 1) :: genericLoop os ((o, next + 1) :: tab) (next + 2)
where
  assocGetL (tab : List (List Nat × Nat)) (o : List Nat) : Option Nat :=
    match tab with
    | [] => none
    | (k, v) :: r => if k == o then some v else assocGetL r o

/-- `cvariants = {corder: node._function_index}` is created afresh for every function: the routing
    of a function's clones is a function of that function alone (its index, its parameters, its
    fortran_generic list, the length of `function_index` when it is processed) -/
def genericTargets (self next : Nat) (cparams : List (Bool × Nat)) (generics : List (List (Bool × Nat))) : List Nat :=
  let corder := getOrder cparams none
  genericLoop (generics.map fun g => getOrder g (some corder)) [(corder, self)] next

end Shroud.WrapF
