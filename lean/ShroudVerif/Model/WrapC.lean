/-!
# Model of the plain C API assembly of `shroud/wrapc.py` (property C02)

* (a) the statement tree and `lookupStmts` exactly as `statements.lookup_stmts_tree`
  (greedy descent; empty and unknown parts are skipped; the last visited node that carries an
  entry wins), `Tree.insert`/`buildTree` as `add_statement_to_tree`/`update_stmt_tree`;
* (b) an abstract value domain for one argument crossing C -> C++ and wrapper operations with an
  executable semantics (`runArg`, `runWrapper`);
* (c) `assembleC` mirroring the per-argument decision order of `Wrapc.wrap_function`
  (language c++: every function gets a wrapper).

Only core Lean is imported.  Names of statement parts (`c`, `native`, `*`, ...) are interned to
`Nat` ids by tools/extract_cstmts.py; id `0` is the empty part.
-/
namespace Shroud.WrapC

/-! ## (a) statement tree and lookup -/

inductive Tree where
  | node (entry : Option Nat) (kids : List (Nat × Tree))

def assoc (k : Nat) : List (Nat × Tree) → Option Tree
  | [] => none
  | (k', t) :: r => if k' = k then some t else assoc k r

def Tree.entry : Tree → Option Nat
  | .node e _ => e
def Tree.kids : Tree → List (Nat × Tree)
  | .node _ ks => ks
def Tree.child (t : Tree) (k : Nat) : Option Tree := assoc k t.kids

def Tree.empty : Tree := .node none []

/-- `found` is updated only when the node reached carries `_node` -/
def pick (t : Tree) (found : Option Nat) : Option Nat :=
  match t.entry with
  | some e => some e
  | none => found

/-- body of the `for part in path` loop of `lookup_stmts_tree` -/
def lookupGo : Tree → Option Nat → List Nat → Option Nat
  | _, found, [] => found
  | t, found, p :: ps =>
    if p = 0 then lookupGo t found ps
    else match t.child p with
      | none => lookupGo t found ps
      | some t' => lookupGo t' (pick t' found) ps

/-- `lookup_stmts_tree(tree, path)`; `none` = `default_scopes[path[0]]` -/
def lookupStmts (t : Tree) (path : List Nat) : Option Nat := lookupGo t none path

/-- the parts the loop actually descends through -/
def walk : Tree → List Nat → List Nat
  | _, [] => []
  | t, p :: ps =>
    if p = 0 then walk t ps
    else match t.child p with
      | none => walk t ps
      | some t' => p :: walk t' ps

def replaceKid (k : Nat) (t : Tree) : List (Nat × Tree) → List (Nat × Tree)
  | [] => []
  | (k', t') :: r => if k' = k then (k, t) :: r else (k', t') :: replaceKid k t r

/-- `add_statement_to_tree`: `step = step.setdefault(part, {})` along `steps`, then `_node` -/
def Tree.insert : List Nat → Nat → Tree → Tree
  | [], v, .node _ ks => .node (some v) ks
  | p :: ps, v, .node e ks =>
    match assoc p ks with
    | some t' => .node e (replaceKid p (Tree.insert ps v t') ks)
    | none => .node e (ks ++ [(p, Tree.insert ps v Tree.empty)])

def buildFrom : Tree → Nat → List (List Nat) → Tree
  | t, _, [] => t
  | t, i, k :: ks => buildFrom (t.insert k i) (i + 1) ks

/-- `update_stmt_tree` for the expanded key list; entry = index into the list -/
def buildTree (keys : List (List Nat)) : Tree := buildFrom Tree.empty 0 keys

/-- node reached by following `k` exactly -/
def nodeAt : Tree → List Nat → Option Tree
  | t, [] => some t
  | t, p :: ps => match t.child p with
    | none => none
    | some t' => nodeAt t' ps

def entryAt (t : Tree) (k : List Nat) : Option Nat :=
  match nodeAt t k with
  | some n => n.entry
  | none => none

/-! ## (b) values, operations, semantics -/

/-- addresses: caller/library memory, the wrapper's own parameter variable, the wrapper's C++ local -/
inductive Addr where
  | heap (n : Nat)
  | cvar
  | loc
  deriving DecidableEq, Repr

inductive Val where
  | int (n : Int)
  | bool (b : Bool)
  | enum (n : Int)
  | chr (n : Nat)
  | ptr (a : Addr)
  | null
  | str (s : List Nat)                 -- std::string object / NUL-terminated character array
  | capsule (addr : Option Nat) (idtor : Nat)   -- `{void *addr; int idtor;}`; addr = heap cell of the C++ object
  | blob (n : Nat)                     -- struct contents (same layout in C and C++)
  | obj (id : Nat)                     -- contents of a class instance
  | undef
  deriving DecidableEq, Repr

abbrev Heap := Nat → Val

/-- how the C++ parameter is declared -/
inductive Mode where
  | value | pointer | reference
  | convString     -- by value, initialised through `std::string`'s converting constructor from `const char *`
  deriving DecidableEq, Repr

inductive Var where
  | c | cxx
  deriving DecidableEq, Repr

/-- right-hand sides of the C++ local declared in `pre_call` -/
inductive Rhs where
  | strFromC                 -- `std::string cxx(c);`
  | strEmpty                 -- `std::string cxx;`
  | capsuleAddr (arrow : Bool)   -- `static_cast<T *>(c->addr)` / `(c.addr)`
  | structCast (addrOf : Bool)   -- `static_cast<T *>(static_cast<void *>(&c | c))`
  | castEnum                 -- typemap c_to_cxx `static_cast<E>(c)`
  | castInt                  -- the opposite direction (cxx_to_c); appears here only after a mutation
  | other (code : Nat)       -- conversion the model does not interpret
  deriving DecidableEq, Repr

inductive PostOp where
  | strcpyBack               -- `strcpy(c, cxx.c_str());`
  | other (code : Nat)
  deriving DecidableEq, Repr

inductive CallExpr where
  | plain (v : Var) | addrOf (v : Var) | deref (v : Var)
  deriving DecidableEq, Repr

/-- one entry of the wrapper prototype -/
inductive Proto where
  | arg                      -- `gen_arg_as_c`
  | shadow (byValue : Bool)  -- `C_type [*] name`
  | argDecl (n : Nat)        -- `c_arg_decl` lines of the statement entry
  | aux (code : Nat)         -- size/capsule/context/len_trim/len
  deriving DecidableEq, Repr

structure ArgPlan where
  proto : List Proto
  pre : List Rhs             -- declarations of the C++ local, in order
  call : Option CallExpr     -- `none`: not passed to the C++ function
  post : List PostOp
  deriving DecidableEq, Repr

/-- what the C++ callee receives for one parameter -/
inductive Recv where
  | val (v : Val)
  | ptr (a : Addr)
  | ref (a : Addr)
  deriving DecidableEq, Repr

/-- the callee's view with wrapper-internal addresses resolved to the temporaries' contents -/
inductive Seen where
  | val (v : Val)                      -- by value
  | obj (m : Mode) (a : Nat)           -- pointer/reference to the caller's object `a` (identity kept)
  | tmp (m : Mode) (v : Val)           -- pointer/reference to a wrapper temporary holding `v`
  | bad                                -- ill-typed / undefined (would not compile or UB)
  deriving DecidableEq, Repr

structure Env where
  c : Val
  cxx : Val
  deriving DecidableEq, Repr

def Env.get (e : Env) : Var → Val
  | .c => e.c
  | .cxx => e.cxx

def Var.addr : Var → Addr
  | .c => .cvar
  | .cxx => .loc

def evalRhs (h : Heap) (c : Val) : Rhs → Val
  | .strFromC => match c with
    | .ptr (.heap a) => (match h a with | .str s => .str s | _ => .undef)
    | _ => .undef
  | .strEmpty => .str []
  | .capsuleAddr true => match c with
    | .ptr (.heap a) => (match h a with | .capsule (some p) _ => .ptr (.heap p) | .capsule none _ => .null | _ => .undef)
    | _ => .undef
  | .capsuleAddr false => match c with
    | .capsule (some p) _ => .ptr (.heap p)
    | .capsule none _ => .null
    | _ => .undef
  | .structCast true => .ptr .cvar
  | .structCast false => match c with
    | .ptr a => .ptr a
    | _ => .undef
  | .castEnum => match c with
    | .int n => .enum n
    | _ => .undef
  | .castInt => match c with
    | .enum n => .int n
    | _ => .undef
  | .other _ => .undef

/-- the last declaration defines the local (each entry declares it once) -/
def runPre (h : Heap) (c : Val) : List Rhs → Val
  | [] => .undef
  | [r] => evalRhs h c r
  | _ :: rs => runPre h c rs

def load (h : Heap) (e : Env) : Addr → Val
  | .heap a => h a
  | .cvar => e.c
  | .loc => e.cxx

def evalCall (h : Heap) (e : Env) : Mode → CallExpr → Option Recv
  | .value, .plain v => some (.val (e.get v))
  | .pointer, .plain v => (match e.get v with | .ptr a => some (.ptr a) | _ => none)
  | .reference, .plain v => some (.ref v.addr)
  | .pointer, .addrOf v => some (.ptr v.addr)
  | _, .addrOf _ => none
  | .value, .deref v => (match e.get v with | .ptr a => some (.val (load h e a)) | _ => none)
  | .reference, .deref v => (match e.get v with | .ptr a => some (.ref a) | _ => none)
  | .pointer, .deref _ => none
  | .convString, .plain v =>
    (match e.get v with
     | .ptr (.heap a) => (match h a with | .str s => some (.val (.str s)) | _ => none)
     | _ => none)
  | .convString, .deref _ => none

def resolve (e : Env) : Option Recv → Seen
  | none => .bad
  | some (.val .undef) => .bad
  | some (.val v) => .val v
  | some (.ptr (.heap a)) => .obj .pointer a
  | some (.ref (.heap a)) => .obj .reference a
  | some (.ptr .loc) => if e.cxx = .undef then .bad else .tmp .pointer e.cxx
  | some (.ref .loc) => if e.cxx = .undef then .bad else .tmp .reference e.cxx
  | some (.ptr .cvar) => .tmp .pointer e.c
  | some (.ref .cvar) => .tmp .reference e.c

/-- what the callee sees for one argument: `none` if the argument is not passed at all -/
def runArg (h : Heap) (m : Mode) (p : ArgPlan) (c : Val) : Option Seen :=
  let e : Env := ⟨c, runPre h c p.pre⟩
  match p.call with
  | none => none
  | some ce => some (resolve e (evalCall h e m ce))

/-- The callee stores `w` into the object it received (`none`: it stores nothing).  Result: the
    update of the caller's memory visible after the wrapper returns, `(cell, value)`. -/
def runArgOut (h : Heap) (m : Mode) (p : ArgPlan) (c : Val) (w : Option Val) : Option (Nat × Val) :=
  let e : Env := ⟨c, runPre h c p.pre⟩
  match p.call with
  | none => none
  | some ce =>
    match evalCall h e m ce with
    | some (.ptr (.heap a)) | some (.ref (.heap a)) =>
      (match w with | some v => some (a, v) | none => none)
    | some (.ptr .loc) | some (.ref .loc) =>
      let cxx' := match w with | some v => v | none => e.cxx
      if p.post.contains .strcpyBack then
        (match c with | .ptr (.heap a) => some (a, cxx') | _ => none)
      else none
    | _ => none

/-! ### result side -/

inductive CallShape where
  | plain          -- `f(args);`
  | assign         -- `T rv = f(args);`
  | assignNew      -- `T *rv = new T; *rv = f(args);`
  | ctorNew        -- `T *rv = new T(args);`
  | dtorDelete     -- `delete this; self->addr = nullptr;`
  | other
  deriving DecidableEq, Repr

inductive RetShape where
  | none           -- no return statement
  | cvar (prefix_ : Nat)   -- `return <prefix>c_var;`  0 "", 1 "&", 2 "*"
  | shadow         -- `return shadow_var;`
  | derefCxx       -- `return *cxx_var;`
  | other
  deriving DecidableEq, Repr

/-- conversion creating `c_var` from `cxx_var` (typemap cxx_to_c) -/
inductive ResConv where
  | none | castInt | castEnum | cStr | voidPtr | other (code : Nat)
  deriving DecidableEq, Repr

structure ResPlan where
  call : CallShape
  conv : ResConv
  setCapsule : Bool          -- `shadow->addr = ...; shadow->idtor = ...;` in post_call
  structBack : Bool          -- `C_type *c_var = static_cast<...>(cxx_addr cxx_var)` in post_call
  clearSelf : Bool           -- `{C_this}->addr = nullptr;` in the call clause (destructor)
  ret : RetShape
  protoTail : List Proto
  deriving DecidableEq, Repr

/-- what the C++ function returns -/
inductive CxxRet where
  | void
  | val (v : Val)            -- by value
  | ptr (a : Option Nat)     -- pointer (possibly null)
  | ref (a : Nat)            -- reference to an object
  deriving DecidableEq, Repr

/-- what the C caller gets: returned value and update of the capsule it passed -/
structure CResult where
  ret : Option Val
  capsule : Option (Nat × Val)
  deriving DecidableEq, Repr

def optPtr : Option Nat → Val
  | some a => .ptr (.heap a)
  | none => .null

/-- what a wrapper variable denotes -/
inductive Den where
  | value (v : Val)          -- an ordinary variable holding `v`
  | object (a : Nat)         -- a reference variable bound to the object in cell `a`
  | localPtr (v : Val)       -- a pointer to the wrapper's own local that holds `v`
  deriving DecidableEq, Repr

def cxxDen : CxxRet → Den
  | .void => .value .undef
  | .val v => .value v
  | .ptr a => .value (optPtr a)
  | .ref a => .object a

/-- `c_var = cxx_to_c(cxx_var)` -/
def applyConv : ResConv → Den → Den
  | .none, d => d
  | .castInt, .value (.enum n) => .value (.int n)
  | .castEnum, .value (.int n) => .value (.enum n)
  | .cStr, .object a => .value (.ptr (.heap a))            -- `x.c_str()`
  | .cStr, .value (.ptr (.heap a)) => .value (.ptr (.heap a))  -- `x->c_str()`
  | _, _ => .value .undef

/-- `C_type *c_var = static_cast<C_type *>(static_cast<void *>({cxx_addr}{cxx_var}))`;
    `cxx_addr` is `&` unless the result is a pointer -/
def structBackDen (isPtr : Bool) : Den → Den
  | .value v => if isPtr then .value v else .localPtr v
  | .object a => if isPtr then .value .undef else .value (.ptr (.heap a))
  | .localPtr _ => .value .undef

/-- `return {prefix}{c_var};` -/
def applyPrefix (h : Heap) : Nat → Den → Val
  | 0, .value v => v
  | 1, .object a => .ptr (.heap a)
  | 2, .localPtr v => v
  | 2, .value (.ptr (.heap a)) => h a
  | _, _ => .undef

/-- `tail`: the caller's capsule named by the trailing shadow parameter, `fresh`: the cell `new`
    returns, `idtor`: destructor index computed by find_idtor (C06); `isPtr`: the C++ result is a
    pointer. -/
def runResult (h : Heap) (p : ResPlan) (isPtr : Bool) (r : CxxRet) (tail : Option Nat) (fresh : Nat)
    (idtor : Nat) : CResult :=
  match p.call, p.ret with
  | .plain, .none => ⟨none, none⟩
  | .dtorDelete, .none => ⟨none, none⟩
  | .assign, .cvar pre =>
    let d := applyConv p.conv (cxxDen r)
    let d := if p.structBack then structBackDen isPtr d else d
    ⟨some (applyPrefix h pre d), none⟩
  | .assign, .shadow =>
    (match tail, r with
     | some t, .ptr a => ⟨some (.ptr (.heap t)), if p.setCapsule then some (t, .capsule a idtor) else none⟩
     | some t, .ref a => ⟨some (.ptr (.heap t)), if p.setCapsule then some (t, .capsule (some a) idtor) else none⟩
     | _, _ => ⟨some .undef, none⟩)
  | .assignNew, .shadow =>
    (match tail, r with
     | some t, .val _ => ⟨some (.ptr (.heap t)), if p.setCapsule then some (t, .capsule (some fresh) idtor) else none⟩
     | _, _ => ⟨some .undef, none⟩)
  | .ctorNew, .shadow =>
    (match tail with
     | some t => ⟨some (.ptr (.heap t)), some (t, .capsule (some fresh) idtor)⟩
     | none => ⟨some .undef, none⟩)
  | _, _ => ⟨some .undef, none⟩

/-! ### `this` -/

structure ThisPlan where
  const_ : Bool              -- `const T *SH_this = static_cast<const T *>(self->addr)`
  deriving DecidableEq, Repr

/-- object the method is invoked on: read from the capsule named by the first C parameter -/
def runThis (h : Heap) (first : Val) : Val :=
  evalRhs h first (.capsuleAddr true)

structure Wrapper where
  this : Option ThisPlan
  args : List ArgPlan
  res : ResPlan
  deriving DecidableEq, Repr

structure CalleeView where
  this : Option Val
  args : List Seen
  deriving DecidableEq, Repr

def runArgs (h : Heap) : List Mode → List ArgPlan → List Val → List Seen
  | m :: ms, p :: ps, c :: cs =>
    match runArg h m p c with
    | some s => s :: runArgs h ms ps cs
    | none => runArgs h ms ps cs
  | _, _, _ => []

/-- effect of the destructor wrapper on the caller's handle: `delete SH_this; self->addr = nullptr;`
    (the `idtor` field is not touched) -/
def clearHandle (h : Heap) (first : Val) : Option (Nat × Val) :=
  match first with
  | .ptr (.heap s) => (match h s with | .capsule _ i => some (s, .capsule none i) | _ => none)
  | _ => none

/-- C arguments: the `this` capsule first when the wrapper has one, then one value per parameter,
    then the trailing shadow parameter (passed separately as `tail`). -/
def runWrapper (h : Heap) (w : Wrapper) (modes : List Mode) (cargs : List Val)
    (resIsPtr : Bool) (r : CxxRet) (tail : Option Nat) (fresh idtor : Nat) : CalleeView × CResult :=
  match w.this, cargs with
  | some _, first :: rest =>
    let res := runResult h w.res resIsPtr r tail fresh idtor
    let res := if w.res.call = .dtorDelete && w.res.clearSelf then { res with capsule := clearHandle h first } else res
    (⟨some (runThis h first), runArgs h modes w.args rest⟩, res)
  | some _, [] => (⟨some .undef, []⟩, runResult h w.res resIsPtr r tail fresh idtor)
  | none, _ => (⟨none, runArgs h modes w.args cargs⟩, runResult h w.res resIsPtr r tail fresh idtor)

/-! ## (c) assembly -/

/-- fixed part ids supplied by the generated table -/
structure Vocab where
  c : Nat
  shadow : Nat
  dtor : Nat
  ctor : Nat
  result : Nat
  deriving Repr

/-- one c_* statement entry as regenerated: template lines are `(op code, variable codes)` -/
structure Entry where
  key : List Nat
  plain : Bool                         -- no buf/cfi/cdesc part in the name
  cxxLocal : Nat                       -- 0 none, 1 scalar, 2 pointer
  cLocal : Nat
  bufArgs : List Nat                   -- 1 arg 2 shadow 3 arg_decl 4 size 5 capsule 6 context 7 len_trim 8 len
  bufExtra : List Nat
  argDecl : Nat                        -- number of c_arg_decl lines
  argCall : List (Nat × List Nat)
  pre : List (Nat × List Nat)
  call : List (Nat × List Nat)
  post : List (Nat × List Nat)
  ret : List (Nat × List Nat)
  retType : Nat                        -- 0 none, 1 `{c_type} *`, 2 `void`, 9 other
  owner : Nat                          -- 0 library 1 caller
  deriving DecidableEq, Repr

def Entry.default : Entry :=
  ⟨[], true, 0, 0, [], [], 0, [], [], [], [], [], 0, 0⟩

/-! op codes of template lines (assigned by the pattern table of tools/extract_cstmts.py);
variable codes: 1 c_var 2 cxx_var 3 shadow_var 4 CXX_this 5 C_this 6 cxx_nonconst_ptr 7 idtor
8 C_call_list 9 c_addr 10 cxx_addr 11 c_member 12 cxx_member 13 nullptr 14 cxx_type 15 c_type 16 c_const -/
def opStrFromC := 1       -- `{c_const}std::string {A}({B});`            args [A, B]
def opStrEmpty := 2       -- `{c_const}std::string {A};`                  args [A]
def opStrcpy := 3         -- `strcpy({A}, {B}{cxx_member}c_str());`       args [A, B]
def opCapsuleAddr := 4    -- `[{c_const}]{cxx_type} * {A} = cast<[{c_const}]{cxx_type} *>{B}{c_member}addr` args [A, B, constDecl, constCast]
def opSetAddr := 5        -- `{A}->addr = {B};`                          args [A, B]
def opSetIdtor := 6       -- `{A}->idtor = {B};`                         args [A, B]
def opReturn := 7         -- `return {A};`                               args [A]
def opNew := 8            -- `{cxx_type} * {A} = new {cxx_type};`        args [A]
def opCtorNew := 9        -- `{cxx_type} *{A} = new {cxx_type}({B});`    args [A, B]
def opSetAddrCast := 10   -- `{A}->addr = static_cast<{c_const}void *>({B});` args [A, B]
def opDelete := 11        -- `delete {A};`                               args [A]
def opSetAddrNull := 12   -- `{A}->addr = {B};` with B = nullptr         args [A, B]
def opStructCast := 13    -- `{cxx_type} * {A} = static_cast<..>(static_cast<void *>({P}{B}))` args [A, P, B]
def opStructBack := 14    -- `{c_type} * {A} = static_cast<..>(static_cast<void *>({P}{B}))` args [A, P, B]
def opArgExpr := 15       -- argument expression `{P}{A}`: args [prefix (0,1 &,2 *), A]

def decodePre (isIndirect : Bool) : Nat × List Nat → Rhs
  | (1, [2, 1]) => .strFromC
  | (2, [2]) => .strEmpty
  | (4, [2, 1, 1, 1]) => .capsuleAddr isIndirect -- `{c_member}` is `->` for an indirect argument; the declared
                                                  -- pointer and the cast both carry `{c_const}` (flags 1 1)
  | (13, [2, 9, 1]) => .structCast (!isIndirect) -- `{c_addr}` is `&` for a by-value argument
  | (code, _) => .other code

def decodePost : Nat × List Nat → PostOp
  | (3, [1, 2]) => .strcpyBack
  | (code, _) => .other code

def decodeArgCall : Nat × List Nat → Option CallExpr
  | (15, [0, 1]) => some (.plain .c)
  | (15, [0, 2]) => some (.plain .cxx)
  | (15, [1, 1]) => some (.addrOf .c)
  | (15, [1, 2]) => some (.addrOf .cxx)
  | (15, [2, 1]) => some (.deref .c)
  | (15, [2, 2]) => some (.deref .cxx)
  | _ => none

def decodeProto (valueAttr : Bool) (e : Entry) : Nat → Proto
  | 1 => .arg
  | 2 => .shadow valueAttr
  | 3 => .argDecl e.argDecl
  | n => .aux n

structure ArgDesc where
  sgroup : Nat
  spointer : Nat
  intent : Nat
  suffix : Nat               -- 0 for the plain C API
  extra : List Nat           -- cdesc, template specialisation
  isPtr : Bool               -- `arg.is_pointer()`
  isRef : Bool               -- `arg.is_reference()`
  valueAttr : Bool           -- `attrs["value"]`
  conv : Nat                 -- typemap c_to_cxx pattern: 0 none, 1 `static_cast<T>({c_var})`, 2 shadow, 9 other
  isResult : Bool            -- `metaattrs["is_result"]`
  isEnum : Bool := false     -- `arg_typemap.name in self.enum_typemaps`
  deriving DecidableEq, Repr

def ArgDesc.key (v : Vocab) (d : ArgDesc) : List Nat :=
  if d.isResult then [v.c, d.sgroup, d.spointer, v.result, d.suffix] ++ d.extra
  else [v.c, d.sgroup, d.spointer, d.intent, d.suffix] ++ d.extra

def convRhs : Nat → Rhs
  | 1 => .castEnum
  | 2 => .capsuleAddr true
  | 3 => .castInt
  | n => .other n

/-- the call_list rule: {pointer, non-pointer parameter} x {scalar, pointer, none} local kinds -/
def callExpr (localKind : Nat) (isPtr isRef : Bool) (v : Var) : CallExpr :=
  if localKind = 1 then (if isPtr then .addrOf v else .plain v)
  else if localKind = 2 then (if isPtr then .plain v else .deref v)
  else if isRef then .deref v
  else .plain v

/-- body of the `for arg in ast.params` loop for a regular argument (language c++) -/
def assembleArg (d : ArgDesc) (e : Entry) : ArgPlan :=
  let indirect := d.isPtr || d.isRef
  let convPre : List Rhs :=
    if e.cxxLocal ≠ 0 then [] else if d.conv = 0 then []
    else if indirect && d.isEnum then [.structCast false]   -- pointer to the enum's int form converted as a pointer
    else [convRhs d.conv]
  let hasLocal : Bool := e.cxxLocal ≠ 0 || d.conv ≠ 0
  let v : Var := if hasLocal then .cxx else .c
  let bufs := if e.bufArgs.isEmpty then [1] else e.bufArgs
  let call : Option CallExpr :=
    if d.isResult then none
    else match e.argCall with
      | a :: _ => decodeArgCall a
      | [] => some (callExpr e.cxxLocal d.isPtr d.isRef v)
  { proto := bufs.map (decodeProto d.valueAttr e)
    pre := convPre ++ e.pre.map (decodePre indirect)
    call := call
    post := e.post.map decodePost }

structure FuncDesc where
  isMethod : Bool            -- `cls` is not None
  isCtor : Bool
  isDtor : Bool
  isStatic : Bool
  isConst : Bool             -- `ast.func_const`
  isFunction : Bool          -- CXX_subprogram == "function"
  res : ArgDesc              -- sgroup/spointer/suffix/isPtr/isRef of the result; conv = cxx_to_c pattern
  derefScalar : Bool         -- metaattrs["deref"] == "scalar"
  args : List ArgDesc
  deriving DecidableEq, Repr

def FuncDesc.resKey (v : Vocab) (f : FuncDesc) : List Nat :=
  if !f.isFunction then (if f.isDtor then [v.c, v.shadow, v.dtor] else [v.c])
  else [v.c, f.res.sgroup, f.res.spointer, if f.isCtor then v.ctor else v.result, f.res.suffix]

/-- `compute_return_prefix(ast, c_local_var)` : 0 "", 1 "&", 2 "*" -/
def returnPrefix (cLocal : Nat) (isPtr isRef : Bool) : Nat :=
  if cLocal = 1 then (if isPtr then 1 else 0)
  else if cLocal = 2 then (if isPtr then 0 else 2)
  else if isRef then 1 else 0

def resConvOf : Nat → ResConv
  | 0 => .none
  | 1 => .castInt
  | 2 => .voidPtr
  | 3 => .cStr
  | 4 => .castEnum
  | n => .other n

def hasOp (code : Nat) (ls : List (Nat × List Nat)) : Bool := ls.any (fun l => l.1 = code)

def assembleRes (f : FuncDesc) (e : Entry) (resultAsArg : Bool) : ResPlan :=
  let call : CallShape :=
    if !e.call.isEmpty then
      (if hasOp 9 e.call then .ctorNew else if hasOp 11 e.call then .dtorDelete else .other)
    else if !f.isFunction then .plain
    else if e.cxxLocal ≠ 0 then .assignNew
    else .assign
  let conv : ResConv :=
    if !f.isFunction || resultAsArg || !e.call.isEmpty then .none
    else if e.cLocal ≠ 0 then .none
    else resConvOf f.res.conv
  let ret : RetShape :=
    if !e.ret.isEmpty then
      (match e.ret with
       | [(7, [3])] => .shadow
       | [(7, [1])] => .cvar 0
       | _ => .other)
    else if f.derefScalar then .derefCxx
    else if !resultAsArg && f.isFunction then .cvar (returnPrefix e.cLocal f.res.isPtr f.res.isRef)
    else .none
  { call := call
    conv := conv
    setCapsule := hasOp 5 e.post && hasOp 6 e.post
    structBack := hasOp 14 e.post
    clearSelf := e.call.any (fun l => l = (12, [5, 13]))
    ret := ret
    protoTail := if f.isFunction then e.bufExtra.map (decodeProto false e) else [] }

def thisPlan (f : FuncDesc) : Option ThisPlan :=
  if f.isMethod && !f.isCtor && !f.isStatic then some ⟨f.isConst⟩ else none

/-- entry selected for a key: table lookup with the default scope as fallback -/
def selectEntry (tbl : List Entry) (t : Tree) (key : List Nat) : Entry :=
  match lookupStmts t key with
  | some i => tbl.getD i Entry.default
  | none => Entry.default

def assembleC (v : Vocab) (tbl : List Entry) (t : Tree) (f : FuncDesc) : Wrapper :=
  let re := selectEntry tbl t (f.resKey v)
  { this := thisPlan f
    args := f.args.map (fun d => assembleArg d (selectEntry tbl t (d.key v)))
    res := assembleRes f re (f.args.any (·.isResult)) }

/-- wrapper prototype: `this` first, the arguments' entries in declaration order, then the tail -/
def protoOf (w : Wrapper) (resProto : List Proto) : List (List Proto) :=
  (match w.this with | some _ => [[Proto.shadow false]] | none => []) ++
    [resProto] ++ w.args.map (·.proto) ++ [w.res.protoTail]

/-! ## (d) library language, need of a wrapper, body order, `C_error_pattern`, `deref(scalar)`,
enum pointer results

`wrap_function` for `language: c`: no conversion is ever made from a typemap (`cxx_var = c_var` for every
argument without a statement-declared local, `c_local_var` stays `""`, no `cxx_to_c` line), a wrapper is
emitted only when code is inserted; otherwise the C caller (and Fortran) calls the library function
under its own name. -/

inductive Lang where
  | c | cxx
  deriving DecidableEq, Repr

/-- per-argument plan: for `language: c` the typemap's by-value `c_to_cxx` is never applied -/
def assembleArgL (l : Lang) (d : ArgDesc) (e : Entry) : ArgPlan :=
  match l with
  | .cxx => assembleArg d e
  | .c =>
    -- only a pointer to an enum is converted (cast to the library's pointer type in a local, fix d89e330)
    if d.isEnum && (d.isPtr || d.isRef) then assembleArg d e else assembleArg { d with conv := 0 } e

/-- the result is an enum behind a pointer / reference (wrapc: `CXX_ast.is_indirect() and
    result_typemap.name in self.enum_typemaps`) -/
def FuncDesc.enumIndirect (f : FuncDesc) : Bool := f.res.isEnum && (f.res.isPtr || f.res.isRef)

/-- `ResConv.other 7`: `static_cast<{c_const}int *>(static_cast<{c_const}void *>({cxx_addr}{cxx_var}))` -/
def convEnumPtr : ResConv := .other 7

/-- result plan per language.  c++: as `assembleRes`, except that an enum behind a pointer /
    reference is converted as a pointer and returned without prefix (after fix 0e96fba).
    c: `c_local_var` is ignored and no `cxx_to_c` conversion is made. -/
def assembleResL (l : Lang) (f : FuncDesc) (e : Entry) (resultAsArg : Bool) : ResPlan :=
  match l with
  | .c => assembleRes { f with res := { f.res with conv := 0 } } { e with cLocal := 0 } resultAsArg
  | .cxx =>
    let p := assembleRes f e resultAsArg
    if f.enumIndirect && f.isFunction && !resultAsArg && e.call.isEmpty && e.cLocal = 0 && f.res.conv ≠ 0 then
      { p with conv := convEnumPtr
               ret := if !e.ret.isEmpty then p.ret else if f.derefScalar then .derefCxx else .cvar 0 }
    else p

def assembleCL (l : Lang) (v : Vocab) (tbl : List Entry) (t : Tree) (f : FuncDesc) : Wrapper :=
  let re := selectEntry tbl t (f.resKey v)
  { this := thisPlan f
    args := f.args.map (fun d => assembleArgL l d (selectEntry tbl t (d.key v)))
    res := assembleResL l f re (f.args.any (·.isResult)) }

/-- what does not come from the declaration: options, patterns -/
structure FuncOpts where
  forceWrapper : Bool        -- options.C_force_wrapper
  externC : Bool             -- options.C_extern_C
  hasPattern : Bool          -- `C_error_pattern` names an entry of `patterns` (with the generated suffix)
  hasSplicer : Bool          -- a `c` splicer in the function's `splicer` dict
  deriving DecidableEq, Repr

def isAux : Nat → Bool
  | 1 | 2 | 3 => false
  | _ => true

/-- `need_wrapper` contributions of one statement entry: `build_proto_list` (metadata arguments)
    and `add_code_from_statements` (pre_call / post_call present) -/
def entryNeeds (bufs : List Nat) (e : Entry) : Bool :=
  bufs.any isAux || !e.pre.isEmpty || !e.post.isEmpty

/-- `need_wrapper` at the end of `wrap_function` -/
def needWrapper (l : Lang) (o : FuncOpts) (f : FuncDesc) (resE : Entry) (argEs : List (ArgDesc × Entry)) : Bool :=
  o.forceWrapper || (l = .cxx && !o.externC) || f.isMethod ||
  entryNeeds resE.bufArgs resE ||
  argEs.any (fun de => de.1.isResult || entryNeeds de.2.bufArgs de.2) ||
  (f.isFunction && entryNeeds resE.bufExtra resE) ||
  (resE.retType = 0 && f.derefScalar) || o.hasPattern || o.hasSplicer

def needWrapperOf (l : Lang) (o : FuncOpts) (v : Vocab) (tbl : List Entry) (t : Tree) (f : FuncDesc) : Bool :=
  needWrapper l o f (selectEntry tbl t (f.resKey v)) (f.args.map (fun d => (d, selectEntry tbl t (d.key v))))

/-- whose format dictionary the pattern is expanded in (`fmt_pattern`): `{cxx_var}` of the pattern is
    the variable holding the C++ result, or - for a subroutine - nothing of the call -/
inductive PatScope where
  | func                     -- subroutine: `fmt_func`
  | result                   -- function: `fmt_result`
  | arg (i : Nat)            -- result returned through argument `i`: that argument's `fmt_arg`
  deriving DecidableEq, Repr

def findResultArg : List ArgDesc → Nat → Option Nat
  | [], _ => none
  | d :: ds, i => match findResultArg ds (i + 1) with
    | some j => some j          -- the last `is_result` argument assigns `fmt_pattern` last
    | none => if d.isResult then some i else none

def patScope (f : FuncDesc) : PatScope :=
  match findResultArg f.args 0 with
  | some i => .arg i
  | none => if f.isFunction then .result else .func

/-- one statement group of the generated body -/
inductive BodyOp where
  | argPre (i : Nat) (r : Rhs)       -- conversion / pre_call line of argument `i`
  | resPre (code : Nat)              -- pre_call line of the result entry (`T *rv = new T;`)
  | call (s : CallShape)
  | errorPattern (sc : PatScope)     -- `// C_error_pattern` + the user's block
  | argPost (i : Nat) (p : PostOp)
  | resPost (code : Nat)             -- post_call line of the result entry (capsule fields, struct cast back)
  | conv (c : ResConv)               -- `{c_rv_decl} = {c_val};`
  | ret (r : RetShape)
  deriving DecidableEq, Repr

def argPres : List ArgPlan → Nat → List BodyOp
  | [], _ => []
  | p :: ps, i => p.pre.map (BodyOp.argPre i) ++ argPres ps (i + 1)

def argPosts : List ArgPlan → Nat → List BodyOp
  | [], _ => []
  | p :: ps, i => p.post.map (BodyOp.argPost i) ++ argPosts ps (i + 1)

def convOps (p : ResPlan) : List BodyOp :=
  match p.conv with
  | .none => []
  | c => [.conv c]

def retOps (p : ResPlan) : List BodyOp :=
  match p.ret with
  | .none => []
  | r => [.ret r]

def patOps : Option PatScope → List BodyOp
  | some sc => [.errorPattern sc]
  | none => []

/-- `C_code = pre_call + call_code + post_call_pattern + post_call + final_code + return_code`
    (`final` is empty for every plain entry); `resE`: the result's statement entry -/
def bodyOf (w : Wrapper) (resE : Entry) (pat : Option PatScope) : List BodyOp :=
  (argPres w.args 0 ++ resE.pre.map (fun l => BodyOp.resPre l.1)) ++ [.call w.res.call] ++ patOps pat ++
  (argPosts w.args 0 ++ resE.post.map (fun l => BodyOp.resPost l.1)) ++ (convOps w.res ++ retOps w.res)

def BodyOp.isPattern : BodyOp → Bool
  | .errorPattern _ => true
  | _ => false
def BodyOp.isCall : BodyOp → Bool
  | .call _ => true
  | _ => false
def BodyOp.isBefore : BodyOp → Bool      -- statements placed before the call
  | .argPre _ _ | .resPre _ => true
  | _ => false
def BodyOp.isAfter : BodyOp → Bool       -- statements placed after the pattern
  | .argPost _ _ | .resPost _ | .conv _ | .ret _ => true
  | _ => false

/-- the user's block: reads the variable of its scope right after the call; `some v` = `return v;` -/
abbrev Pattern := Den → Option Val

/-- what `{cxx_var}` of the result scope denotes right after the call clause -/
def patVar (p : ResPlan) (r : CxxRet) (fresh : Nat) : Den :=
  match p.call with
  | .assign => cxxDen r
  | .assignNew | .ctorNew => .value (.ptr (.heap fresh))
  | _ => .value .undef

/-- result side with the error block in its place: after the call clause (for a constructor the call
    clause already filled the capsule), before post_call (capsule fields of a class result, struct cast),
    the `cxx_to_c` conversion and the return statement -/
def runResultP (h : Heap) (p : ResPlan) (g : Option Pattern) (isPtr : Bool) (r : CxxRet) (tail : Option Nat)
    (fresh idtor : Nat) : CResult :=
  match g with
  | none => runResult h p isPtr r tail fresh idtor
  | some g =>
    match g (patVar p r fresh) with
    | none => runResult h p isPtr r tail fresh idtor
    | some v =>
      ⟨some v, match p.call, tail with
               | .ctorNew, some t => some (t, .capsule (some fresh) idtor)
               | _, _ => none⟩

/-- `return *{cxx_var};` (deref(scalar)): the pointee; a null pointer is dereferenced without a check -/
def runDerefScalar (h : Heap) (r : CxxRet) : Val :=
  match r with
  | .ptr (some a) => h a
  | _ => .undef

/-- result of a wrapper whose return statement is `return *{cxx_var};` -/
def runResultD (h : Heap) (p : ResPlan) (isPtr : Bool) (r : CxxRet) (tail : Option Nat) (fresh idtor : Nat) : CResult :=
  match p.call, p.ret with
  | .assign, .derefCxx => ⟨some (runDerefScalar h r), none⟩
  | _, _ => runResult h p isPtr r tail fresh idtor

/-- enum pointer conversion on the result side (`convEnumPtr`): a pointer stays the pointer, a reference
    becomes the address of the object (`{cxx_addr}` is `&`) -/
def enumPtrDen : Den → Den
  | .value (.ptr a) => .value (.ptr a)
  | .value .null => .value .null
  | .object a => .value (.ptr (.heap a))
  | _ => .value .undef

def runResultE (h : Heap) (p : ResPlan) (isPtr : Bool) (r : CxxRet) (tail : Option Nat) (fresh idtor : Nat) : CResult :=
  match p.call, p.ret with
  | .assign, .cvar pre =>
    if p.conv = convEnumPtr then ⟨some (applyPrefix h pre (enumPtrDen (cxxDen r))), none⟩
    else runResult h p isPtr r tail fresh idtor
  | _, _ => runResult h p isPtr r tail fresh idtor

/-- a direct call of the library function (no wrapper): every parameter receives the C value itself -/
def directArg (h : Heap) (m : Mode) (c : Val) : Seen :=
  resolve ⟨c, .undef⟩ (evalCall h ⟨c, .undef⟩ m (.plain .c))

def directArgs (h : Heap) : List Mode → List Val → List Seen
  | m :: ms, c :: cs => directArg h m c :: directArgs h ms cs
  | _, _ => []

/-- a direct call returns the C function's value unchanged -/
def directRet : CxxRet → Option Val
  | .void => none
  | .val v => some v
  | .ptr a => some (optPtr a)
  | .ref a => some (.ptr (.heap a))

/-- what the C caller reaches under the generated C name: the wrapper, or the library function itself -/
def runEntry (h : Heap) (need : Bool) (w : Wrapper) (modes : List Mode) (cargs : List Val)
    (resIsPtr : Bool) (r : CxxRet) (tail : Option Nat) (fresh idtor : Nat) : CalleeView × CResult :=
  if need then runWrapper h w modes cargs resIsPtr r tail fresh idtor
  else (⟨none, directArgs h modes cargs⟩, ⟨directRet r, none⟩)

/-! ## (e) template-argument components of a key, `fstatements` overrides -/

/-- the node at which the greedy loop of `lookup_stmts_tree` stands after `path` -/
def reach : Tree → List Nat → Tree
  | t, [] => t
  | t, p :: ps =>
    if p = 0 then reach t ps
    else match t.child p with
      | none => reach t ps
      | some t' => reach t' ps

/-- clauses of a statement entry that a declaration-level `fstatements: {c: {...}}` dictionary can name -/
inductive Clause where
  | cxxLocal | cLocal | bufArgs | bufExtra | argDecl | argCall | pre | call | post | ret | retType | owner
  deriving DecidableEq, Repr

/-- value of a clause; scalar clauses are one-element lists of `(code, [])` -/
abbrev ClauseVal := List (Nat × List Nat)

def sc (n : Nat) : ClauseVal := [(n, [])]
def unsc : ClauseVal → Nat
  | (n, _) :: _ => n
  | [] => 0

def Entry.get (e : Entry) : Clause → ClauseVal
  | .cxxLocal => sc e.cxxLocal | .cLocal => sc e.cLocal
  | .bufArgs => e.bufArgs.map (fun n => (n, [])) | .bufExtra => e.bufExtra.map (fun n => (n, []))
  | .argDecl => sc e.argDecl | .argCall => e.argCall | .pre => e.pre | .call => e.call | .post => e.post
  | .ret => e.ret | .retType => sc e.retType | .owner => sc e.owner

def Entry.set (e : Entry) (c : Clause) (v : ClauseVal) : Entry :=
  match c with
  | .cxxLocal => { e with cxxLocal := unsc v } | .cLocal => { e with cLocal := unsc v }
  | .bufArgs => { e with bufArgs := v.map (·.1) } | .bufExtra => { e with bufExtra := v.map (·.1) }
  | .argDecl => { e with argDecl := unsc v } | .argCall => { e with argCall := v } | .pre => { e with pre := v }
  | .call => { e with call := v } | .post => { e with post := v } | .ret => { e with ret := v }
  | .retType => { e with retType := unsc v } | .owner => { e with owner := unsc v }

/-- `lookup_local_stmts`: the user's dictionary becomes a Scope whose parent is the looked-up entry
    (`blk.reparent(parent)`): a clause is read from the dictionary when it names it, from the entry
    otherwise.  `ovr`: the dictionary's items in order (a later item of the same name wins). -/
def applyOverride (ovr : List (Clause × ClauseVal)) (e : Entry) : Entry :=
  ovr.foldl (fun acc cv => acc.set cv.1 cv.2) e

/-- what a lookup through the merged Scope returns for clause `c` -/
def overrideGet (ovr : List (Clause × ClauseVal)) (e : Entry) (c : Clause) : ClauseVal :=
  match (ovr.reverse.find? (fun cv => cv.1 = c)) with
  | some cv => cv.2
  | none => e.get c

/-- `mode`: only "update" merges; any other mode leaves the looked-up entry -/
def localStmts (present update : Bool) (ovr : List (Clause × ClauseVal)) (e : Entry) : Entry :=
  if present && update then applyOverride ovr e else e

end Shroud.WrapC
