import ShroudVerif.Model.Decl
/-!
# Model of `declast.tokenize` over characters

`tokenize` applies the regex `tok_regex` -- the alternation of `token_specification` in
order -- at the current position, takes the FIRST alternative that matches (Python `re`
alternation is ordered, not longest-match; inside an alternative the usual greedy matching
applies), skips `NEWLINE` / `SKIP` matches, reclassifies `ID` matches that are keywords and
raises "Unexpected character" if nothing matches.  `lexOne` is that one step; the patterns
are simple enough that greedy matching never has to backtrack into a shorter match:

  REAL     ((\d+[.]\d*)|(\d*[.]\d+))([Ee][+-]?\d+)?  |  \d+[Ee][+-]?\d+
  INTEGER  \d+          DQUOTE  ["][^"]*["]      SQUOTE  ['][^']*[']
  ( ) { } [ ] * = & + - / , ; < > ~   SCOPE ::   COLON :   VARARG ...
  ID       [A-Za-z_][A-Za-z0-9_]*    NEWLINE \n    SKIP [ \t]    OTHER .   (any char but \n)

`\d` is modelled on ASCII digits only (Python's `\d` also matches other Unicode decimal
digits; such characters are outside the modelled alphabet and excluded from the tie).
The pattern texts and their order are regenerated into `Gen/DeclTables.lean` and compared
with the list below (`Props/C17.lean: tokenSpec_is_modelled`).
-/
namespace Shroud.Lexer
open Shroud.Decl

def isDigit (c : Char) : Bool := '0' ≤ c ∧ c ≤ '9'
def isIdStart (c : Char) : Bool := ('a' ≤ c ∧ c ≤ 'z') ∨ ('A' ≤ c ∧ c ≤ 'Z') ∨ c = '_'
def isIdChar (c : Char) : Bool := isIdStart c ∨ isDigit c

/-- longest prefix of characters satisfying `p`, and the rest -/
def spanP (p : Char → Bool) : List Char → List Char × List Char
  | [] => ([], [])
  | c :: cs => if p c then let (a, b) := spanP p cs; (c :: a, b) else ([], c :: cs)

def digits (s : List Char) : List Char := (spanP isDigit s).1
def afterDigits (s : List Char) : List Char := (spanP isDigit s).2

/-- `([Ee][+-]?\d+)`: the exponent text and the rest, if present -/
def exponent : List Char → Option (List Char × List Char)
  | e :: r =>
    if e = 'E' ∨ e = 'e' then
      match r with
      | s :: r' =>
        if s = '+' ∨ s = '-' then
          if (digits r').isEmpty then none else some (e :: s :: digits r', afterDigits r')
        else
          if (digits r).isEmpty then none else some (e :: digits r, afterDigits r)
      | [] => none
    else none
  | [] => none

/-- the mantissa `(\d+[.]\d*)|(\d*[.]\d+)` -/
def mantissa (s : List Char) : Option (List Char × List Char) :=
  match afterDigits s with
  | '.' :: r1 =>
    if !(digits s).isEmpty then some (digits s ++ '.' :: digits r1, afterDigits r1)      -- \d+[.]\d*
    else if !(digits r1).isEmpty then some ('.' :: digits r1, afterDigits r1)            -- \d*[.]\d+, no leading digit
    else none
  | _ => none

/-- the `REAL` alternative -/
def lexReal (s : List Char) : Option (List Char × List Char) :=
  match mantissa s with
  | some (m, rm) =>
    match exponent rm with
    | some (e, re) => some (m ++ e, re)
    | none => some (m, rm)
  | none =>
    if (digits s).isEmpty then none
    else match exponent (afterDigits s) with                   -- \d+[Ee][+-]?\d+
      | some (e, re) => some (digits s ++ e, re)
      | none => none

/-- `["][^"]*["]` / `['][^']*[']` -/
def lexQuoted (q : Char) : List Char → Option (List Char × List Char)
  | c :: cs =>
    if c = q then
      match (spanP (fun x => x ≠ q) cs).2 with
      | c2 :: r2 => if c2 = q then some (c :: (spanP (fun x => x ≠ q) cs).1 ++ [c2], r2) else none
      | [] => none
    else none
  | [] => none

def single (c : Char) : Option Kind :=
  if c = '(' then some .LPAREN else if c = ')' then some .RPAREN
  else if c = '{' then some .LCURLY else if c = '}' then some .RCURLY
  else if c = '[' then some .LBRACKET else if c = ']' then some .RBRACKET
  else if c = '*' then some .STAR else if c = '=' then some .EQUALS
  else if c = '&' then some .REF else if c = '+' then some .PLUS
  else if c = '-' then some .MINUS else if c = '/' then some .SLASH
  else if c = ',' then some .COMMA else if c = ';' then some .SEMICOLON
  else if c = '<' then some .LT else if c = '>' then some .GT
  else if c = '~' then some .TILDE else none

/-- one match of `tok_regex` at the head: the token kind (`none`: a skipped NEWLINE / SKIP
    match), its text and the rest; `none` when no alternative matches -/
def lexOne (s : List Char) : Option (Option Kind × List Char × List Char) :=
  match s with
  | [] => none
  | c :: cs =>
    match lexReal s with
    | some (t, r) => some (some .REAL, t, r)
    | none =>
      if isDigit c then some (some .INTEGER, digits s, afterDigits s)
      else match lexQuoted '"' s with
      | some (t, r) => some (some .DQUOTE, t, r)
      | none =>
        match lexQuoted '\'' s with
        | some (t, r) => some (some .SQUOTE, t, r)
        | none =>
          match single c with
          | some k => some (some k, [c], cs)
          | none =>
            if c = ':' then
              match cs with
              | ':' :: r => some (some .SCOPE, [':', ':'], r)
              | _ => some (some .COLON, [c], cs)
            else if c = '.' then
              match cs with
              | '.' :: '.' :: r => some (some .VARARG, ['.', '.', '.'], r)
              | _ => some (some .OTHER, [c], cs)
            else if isIdStart c then some (some .ID, (spanP isIdChar s).1, (spanP isIdChar s).2)
            else if c = '\n' then some (none, [c], cs)
            else if c = ' ' ∨ c = '\t' then some (none, [c], cs)
            else some (some .OTHER, [c], cs)      -- `.` matches every remaining character

/-- a piece of the input: a token or skipped white space -/
structure Piece where
  kind : Option Kind
  text : List Char
  deriving Repr

inductive LexRes where
  | ok (pieces : List Piece)
  | error (rest : List Char)      -- "Unexpected character": `get_token` matched nothing before the end
  deriving Repr

/-- the `while mo is not None` loop; `fuel` bounds the number of matches -/
def pieces : Nat → List Char → List Piece → LexRes
  | _, [], acc => .ok acc.reverse
  | 0, s, _ => .error s
  | n+1, s, acc =>
    match lexOne s with
    | none => .error s
    | some (k, t, r) => pieces n r ({ kind := k, text := t } :: acc)

/-- a matched piece as a token: white space yields none, an `ID` match may be a keyword -/
def Piece.toToken (p : Piece) : Option Token :=
  match p.kind with
  | some k => some (reclass { typ := k, val := p.text })
  | none => none

/-- `declast.tokenize(s)`: the tokens after keyword reclassification -/
def tokenize (s : List Char) : Decl.Res Toks :=
  match pieces (s.length + 1) s [] with
  | .ok ps => .ok (ps.filterMap Piece.toToken)
  | .error r => .reject s!"Unexpected character {String.ofList (r.take 1)}"

/-- `declast.check_decl(s, namespace=library)` on the string -/
def checkDecl (env : Env) (s : List Char) : Decl.Res Decl :=
  match tokenize s with
  | .ok ts => parse env ts
  | .reject m => .reject m
  | .crash e => .crash e
  | .fuel => .fuel
  | .unmodelled w => .unmodelled w

/-- the patterns of `token_specification`, in order, as this model reads them -/
def modelledSpec : List (String × String) :=
  [("REAL", "((((\\d+[.]\\d*)|(\\d*[.]\\d+))([Ee][+-]?\\d+)?)|(\\d+[Ee][+-]?\\d+))"), ("INTEGER", "\\d+"),
   ("DQUOTE", "[\"][^\"]*[\"]"), ("SQUOTE", "['][^']*[']"), ("LPAREN", "\\("), ("RPAREN", "\\)"), ("LCURLY", "{"),
   ("RCURLY", "}"), ("LBRACKET", "\\["), ("RBRACKET", "\\]"), ("STAR", "\\*"), ("EQUALS", "="), ("REF", "\\&"),
   ("PLUS", "\\+"), ("MINUS", "\\-"), ("SLASH", "/"), ("COMMA", ","), ("SEMICOLON", ";"), ("LT", "<"), ("GT", ">"),
   ("TILDE", "\\~"), ("SCOPE", "::"), ("COLON", ":"), ("VARARG", "\\.\\.\\."), ("ID", "[A-Za-z_][A-Za-z0-9_]*"),
   ("NEWLINE", "[\\n]"), ("SKIP", "[ \\t]"), ("OTHER", ".")]

end Shroud.Lexer
