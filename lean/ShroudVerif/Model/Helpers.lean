/-
Model of the helper dependency closure and of the include / extern-"C" file
skeletons (engine for C05).  Core Lean only.

## `gather_helper_code`

`wrapc.Wrapc`, `wrapf.Wrapf`, `wrapp.Wrapp` and `wrapl.Wrapl` each carry their own
copy of the same two functions:

    def _gather_helper_code(self, name, done):
        if name in done: return            # avoid recursion
        done[name] = True
        helper_info = TABLE[name]          # KeyError when the name is not a helper
        if "dependent_helpers" in helper_info:
            for dep in helper_info["dependent_helpers"]:
                self._gather_helper_code(dep, done)
        ... append this helper's include/proto/source/... to the output ...

    def gather_helper_code(self, helpers):
        done = {}
        for name in sorted(helpers.keys()):
            self._gather_helper_code(name, done)

Differences between the four copies (none of them touches the traversal):
* TABLE is `whelpers.CHelpers` (wrapc, wrapp), `whelpers.FHelpers` (wrapf), `wrapl.LuaHelpers` (wrapl, where the
  two functions are methods of the small class `wrapl.Helpers`, instance `Wrapl.helpers`);
* what "emit" appends: wrapc `helper_include[scope]` / `helper_source[scope]` with the keys
  `c_include|cxx_include|include`, `c_source|cxx_source|source`; wrapp and wrapl
  `helper_summary[include|proto|source][scope]` keyed by `<language>_<key>` (wrapp also ORs `need_numpy`);
  wrapf `derived_type`, `interface`, `source`, `modules`, `private` into the `ModuleInfo`;
* wrapf takes the request set from `fileinfo.f_helper` (and afterwards merges `fileinfo.c_helper` into
  `self.shared_helper`), the others take it as the argument.
The model keeps the traversal: the output is the list of helper names in the order in which
their code is appended (post-order).  Names are interned as `Nat` so that `Nat` order is the
order of Python's `sorted` on the names (the translator / harness interns in sorted order).
-/
namespace Shroud.Helpers

/-- helper table: `name ↦ dependent_helpers` (a Python dict: first entry for a key wins) -/
abbrev Graph := List (Nat × List Nat)

inductive Res (α : Type) where
  | ok (a : α)
  | keyError (name : Nat)     -- `TABLE[name]` raises KeyError
  | outOfFuel                 -- never returned (theorem `gather_terminates`)
  deriving Repr, DecidableEq

structure St where
  done : List Nat     -- keys of the `done` dict
  out  : List Nat     -- helpers whose code has been appended, in order
  deriving Repr, DecidableEq

def deps (G : Graph) (n : Nat) : List Nat := (G.lookup n).getD []

def keys (G : Graph) : List Nat := G.map Prod.fst

/-- `for dep in ...: visit(dep, done)`; an exception ends the loop -/
def loop (v : Nat → St → Res St) : List Nat → St → Res St
  | [], st => .ok st
  | d :: ds, st =>
    match v d st with
    | .ok st' => loop v ds st'
    | .keyError n => .keyError n
    | .outOfFuel => .outOfFuel

/-- `_gather_helper_code(name, done)`.  The first argument bounds the recursion *depth*;
    siblings get the same bound. -/
def visit (G : Graph) : Nat → Nat → St → Res St
  | 0, _, _ => .outOfFuel
  | f + 1, n, st =>
    if n ∈ st.done then .ok st
    else
      match G.lookup n with
      | none => .keyError n
      | some ds =>
        match loop (visit G f) ds { st with done := n :: st.done } with
        | .ok st' => .ok { st' with out := st'.out ++ [n] }
        | .keyError k => .keyError k
        | .outOfFuel => .outOfFuel

/-- insertion sort (`sorted(helpers.keys())`) -/
def insertSorted (a : Nat) : List Nat → List Nat
  | [] => [a]
  | b :: bs => if a ≤ b then a :: b :: bs else b :: insertSorted a bs

def sortNat : List Nat → List Nat
  | [] => []
  | a :: as => insertSorted a (sortNat as)

/-- the traversal from an arbitrary iteration order of the requests -/
def gatherFrom (G : Graph) (order : List Nat) : Res (List Nat) :=
  match loop (visit G (G.length + 1)) order ⟨[], []⟩ with
  | .ok st => .ok st.out
  | .keyError k => .keyError k
  | .outOfFuel => .outOfFuel

/-- `gather_helper_code(helpers)`: emitted helper names in order -/
def gatherHelperCode (G : Graph) (req : List Nat) : Res (List Nat) :=
  gatherFrom G (sortNat req)

/-! ## helpers shared between modules

Every Fortran module (library, each non-flattened namespace, each class file of wrapc) collects its own set of C helpers
(`fileinfo.c_helper`, `Wrapc.c_helper`); `gather_helper_code` of each module ends with
`self.shared_helper.update(fileinfo.c_helper)` (wrapc.write_file: `self.shared_helper.update(self.c_helper)`;
wrap_class adds the capsule helper directly).  `shared_helper` is one dict shared by Wrapc and Wrapf
(`config.fc_shared_helpers`); at the very end `Wrapc.write_impl_utility` runs `gather_helper_code(self.shared_helper)` and
writes the `cwrap_impl` sources into util<lib>.c/.cpp. -/

/-- `for m in modules: shared_helper.update(m.c_helper)` (as a key list) -/
def sharedHelpers : List (List Nat) → List Nat
  | [] => []
  | m :: rest => m ++ sharedHelpers rest

/-- the helpers whose code reaches the utility file: `gather_helper_code(shared_helper)` -/
def utilityHelpers (G : Graph) (modules : List (List Nat)) : Res (List Nat) :=
  gatherHelperCode G (sharedHelpers modules)

/-! ## graph predicates used by the table theorems (decidable, kernel-evaluated) -/

/-- every dependency names an existing helper -/
def closedB (G : Graph) : Bool :=
  G.all fun e => e.2.all fun d => (G.lookup d).isSome

/-- `rank` is a topological certificate: every dependency has a strictly smaller rank -/
def rankedB (G : Graph) (rank : List (Nat × Nat)) : Bool :=
  G.all fun e => e.2.all fun d =>
    match rank.lookup d, rank.lookup e.1 with
    | some rd, some rn => decide (rd < rn)
    | _, _ => false

def rankOf (rank : List (Nat × Nat)) (n : Nat) : Nat := (rank.lookup n).getD 0

/-- keys are pairwise different (a Python dict) -/
def keysNodupB (G : Graph) : Bool :=
  match G with
  | [] => true
  | e :: es => !(es.any fun x => x.1 == e.1) && keysNodupB es

/-! ## Include lists: `util.Header`

Header names and `cpp_if` texts are interned; only the line kinds matter. -/

inductive HLine where
  | blank
  | comment (cat : Nat)       -- `// cxx_header` / `// typemap` / `// shroud` (debug) and other comments
  | incl (h : Nat)            -- `#include <h>` / `#include "h"`
  | ifOpen (k : Nat)          -- 0 `#ifdef __cplusplus`  1 `#ifndef __cplusplus`  2 `#<cpp_if>`  3 `#ifndef GUARD`
  | elseL                     -- `#else`
  | endif                     -- `#endif` (with or without trailing comment)
  | define                    -- `#define GUARD`
  | externOpen                -- `extern "C" {`
  | externClose               -- `}` / `}  // extern "C"`
  | body (k : Nat)            -- opaque content (declarations, helper source, splicer block)
  deriving Repr, DecidableEq

/-- the fields of a typemap that `Header` reads -/
structure TM where
  cHeader    : List Nat
  cxxHeader  : List Nat
  wrapHeader : List Nat
  implHeader : List Nat
  cppIf      : Bool
  deriving Repr, DecidableEq

/-- `headers.setdefault(h, []).append(tm)` for one header -/
def addUser (h : Nat) (tm : TM) : List (Nat × List TM) → List (Nat × List TM)
  | [] => [(h, [tm])]
  | (k, us) :: rest => if k = h then (k, us ++ [tm]) :: rest else (k, us) :: addUser h tm rest

/-- `for tm in typemaps: for h in sel(tm): headers.setdefault(h, []).append(tm)` (ordered dict) -/
def groupHeaders (sel : TM → List Nat) (tms : List TM) : List (Nat × List TM) :=
  tms.foldl (fun acc tm => (sel tm).foldl (fun acc h => addUser h tm acc) acc) []

/-- `write_include_group(headers, output, skip)` -/
def writeIncludeGroup (skip : List Nat) : List (Nat × List TM) → List HLine
  | [] => []
  | (h, us) :: rest =>
    (if h ∈ skip then []
     else match us with
       | [tm] => if tm.cppIf then [.ifOpen 2, .incl h, .endif] else [.incl h]
       | _ => [.incl h]) ++ writeIncludeGroup skip rest

/-- `write_headers_nodes(output, skip)` with `typemap_field = "impl_header"` -/
def writeHeadersNodes (tms : List TM) (skip : List Nat) : List HLine :=
  writeIncludeGroup skip (groupHeaders TM.implHeader tms)

/-- `write_includes_for_header(output, skip)`; `util` = id of `fmt.C_header_utility`; `skip` is not used by the code -/
def writeIncludesForHeader (langC : Bool) (util : Nat) (tms : List TM) : List HLine :=
  let cH := groupHeaders TM.cHeader tms
  let xH := groupHeaders TM.cxxHeader tms
  let wH := groupHeaders (fun tm => tm.wrapHeader.filter (· ≠ util)) tms
  let always := cH.filter (fun e => (xH.lookup e.1).isSome)
  let cH' := cH.filter (fun e => !(xH.lookup e.1).isSome)
  let xH' := xH.filter (fun e => !(cH.lookup e.1).isSome)
  writeIncludeGroup [] wH ++ writeIncludeGroup [] always ++
  (if langC then writeIncludeGroup [] cH'
   else if !xH'.isEmpty then
     [.ifOpen 0] ++ writeIncludeGroup [] xH' ++
       (if !cH'.isEmpty then [.elseL] ++ writeIncludeGroup [] cH' else []) ++ [.endif]
   else if !cH'.isEmpty then
     [.ifOpen 1] ++ writeIncludeGroup [] cH' ++ [.endif]
   else [])

/-- state of a `util.Header` object when `write_headers` is called -/
structure Hdr where
  cxxHeader : List Nat      -- header_impl_include_order["cxx_header"] keys, insertion order
  typemapL  : List Nat      -- ["typemap"]
  shroud    : List Nat      -- ["shroud"]
  typemaps  : List TM       -- self.typemaps.values()
  implField : Bool          -- typemap_field == "impl_header" (else None)
  langC     : Bool          -- newlibrary.language == "c"
  debug     : Bool          -- options.debug
  util      : Nat           -- fmt.C_header_utility
  deriving Repr, DecidableEq

/-- the inner `for header in headers[category].keys()` loop: returns (lines, found) -/
def dictLoop : List Nat → List Nat → List HLine × List Nat
  | [], found => ([], found)
  | h :: hs, found =>
    if h ∈ found then dictLoop hs found
    else
      let r := dictLoop hs (h :: found)
      (.incl h :: r.1, r.2)

/-- one category of `write_headers`: (output so far, blank flag, found) -/
def category (debug : Bool) (cat : Nat) (pre : List HLine) (names : List Nat)
    (acc : List HLine × Bool × List Nat) : List HLine × Bool × List Nat :=
  let r := dictLoop names acc.2.2
  let lines := pre ++ r.1
  if lines.isEmpty then (acc.1, acc.2.1, r.2)
  else
    (acc.1 ++ (if acc.2.1 then [.blank] else []) ++ (if debug then [.comment cat] else []) ++ lines,
     false, r.2)

/-- the lines `write_headers` obtains from the typemaps (`found` = headers written so far) -/
def typemapLines (h : Hdr) (found : List Nat) : List HLine :=
  if h.implField then writeHeadersNodes h.typemaps found
  else writeIncludesForHeader h.langC h.util h.typemaps

/-- `Header.write_headers(output)`: the lines appended -/
def writeHeaders (h : Hdr) : List HLine :=
  let a0 : List HLine × Bool × List Nat := ([], true, [])
  let a1 := category h.debug 0 [] h.cxxHeader a0
  let tl := typemapLines h a1.2.2
  let a2 := category h.debug 1 tl h.typemapL a1
  let a3 := category h.debug 2 [] h.shroud a2
  a3.1

/-- all `#include` operands of a line list, in order -/
def includes : List HLine → List Nat
  | [] => []
  | .incl h :: r => h :: includes r
  | _ :: r => includes r

/-- conditional nesting depth after the lines; `none` = `#endif`/`#else` without an open `#if` -/
def ifDepth : Nat → List HLine → Option Nat
  | d, [] => some d
  | d, .ifOpen _ :: r => ifDepth (d + 1) r
  | d, .endif :: r => if d = 0 then none else ifDepth (d - 1) r
  | d, .elseL :: r => if d = 0 then none else ifDepth d r
  | d, _ :: r => ifDepth d r

/-- extern "C" brace depth; `none` = a closing brace without an opening one -/
def externDepth : Nat → List HLine → Option Nat
  | d, [] => some d
  | d, .externOpen :: r => externDepth (d + 1) r
  | d, .externClose :: r => if d = 0 then none else externDepth (d - 1) r
  | d, _ :: r => externDepth d r

/-! ## File skeletons of wrapc.py

`body k` lines stand for content that is neutral for the two counters: generated
declarations, helper sources, splicer blocks (their own balance is the user's / the helper
table's business). -/

/-- parameters that decide which bracket lines are written -/
structure Sk where
  cxx      : Bool     -- self.language == "cxx"
  cppIf    : Bool     -- cls and cls.cpp_if
  doxygen  : Bool     -- options.doxygen
  hasHname : Bool     -- write_impl: hname is not None
  nbody    : Nat      -- number of opaque content lines in each content slot
  deriving Repr, DecidableEq

def bodies (k n : Nat) : List HLine := List.replicate n (.body k)

def externCOpen : List HLine := [.blank, .ifOpen 0, .externOpen, .endif]
def externCClose : List HLine := [.blank, .ifOpen 0, .externClose, .endif]

/-- `Wrapc.write_header(library, cls, fname)` -/
def writeHeaderSk (s : Sk) (h : Hdr) : List HLine :=
  (if s.doxygen then [.comment 9] else []) ++
  [.comment 8, .blank, .ifOpen 3, .define] ++
  (if s.cppIf then [.ifOpen 2] else []) ++
  writeHeaders h ++
  (if s.cxx then [.blank] ++ bodies 0 s.nbody ++ externCOpen else []) ++
  bodies 1 s.nbody ++ bodies 2 s.nbody ++ [.blank] ++ bodies 3 s.nbody ++ bodies 4 s.nbody ++
  (if s.cxx then externCClose else []) ++
  (if s.cppIf then [.endif] else []) ++
  [.blank, .endif]

/-- `Wrapc.write_impl(ns, cls, hname, fname)` -/
def writeImplSk (s : Sk) (h : Hdr) : List HLine :=
  (if s.cppIf then [.ifOpen 2] else []) ++
  (if s.hasHname then [.incl 0] else []) ++
  writeHeaders h ++
  (if s.cxx then [.blank] ++ bodies 0 s.nbody ++ [.externOpen] else []) ++
  [.blank] ++ bodies 1 s.nbody ++ bodies 2 s.nbody ++ bodies 3 s.nbody ++
  (if s.cxx then [.blank, .externClose] else []) ++
  (if s.cppIf then [.endif] else [])

/-- `Wrapc.write_header_utility()` -/
def writeHeaderUtilitySk (s : Sk) (h : Hdr) : List HLine :=
  [.comment 8, .blank, .ifOpen 3, .define] ++
  writeHeaders h ++
  (if s.cxx then [.blank] ++ externCOpen else []) ++
  bodies 1 s.nbody ++ bodies 2 s.nbody ++
  (if s.cxx then externCClose else []) ++
  [.blank, .endif]

/-- `Wrapc.write_impl_utility()` -/
def writeImplUtilitySk (s : Sk) (h : Hdr) : List HLine :=
  writeHeaders h ++
  (if s.cxx then [.blank] ++ externCOpen else []) ++
  bodies 1 s.nbody ++
  (if s.cxx then externCClose else [])

end Shroud.Helpers
