/-
Model of `util.WrapperMixin.write_doxygen` (engine for C05).  Core Lean only.

    def write_doxygen(self, output, docs):
        def add_text(prefix, text):
            text = str(text).replace("\t", " ").replace("\f", " ")
            lines = text.split("\n")
            if len(lines) > 1 and lines[-1] == "":
                lines.pop()  # remove trailing newline
            output.append(self.doxygen_cont + prefix + lines[0])
            for line in lines[1:]:
                output.append(self.doxygen_cont + " " + line)
        output.append(self.doxygen_begin)
        if "brief" in docs:
            add_text(" \\brief ", docs["brief"])
            output.append(self.doxygen_cont)
        if "description" in docs:
            add_text(" ", docs["description"])
        if "return" in docs:
            output.append(self.doxygen_cont)
            add_text(" \\return ", docs["return"])
        output.append(self.doxygen_end)

Text is a list of code points.  Every element of `output` becomes one or more physical lines of the
written file (`write_lines` splits an element at "\n", `write_continue` breaks it at "\t"): an
element that contains a newline, a tab or a form feed leaves the comment (Fortran: `!!`).
-/
namespace Shroud.Doxygen

/-- Python `str.split("\n")` -/
def splitNl : List Nat → List (List Nat)
  | [] => [[]]
  | c :: r =>
    if c = 10 then [] :: splitNl r
    else (c :: (splitNl r).headD []) :: (splitNl r).tail

/-- `.replace("\t", " ").replace("\f", " ")` -/
def untab (t : List Nat) : List Nat := t.map (fun c => if c = 9 ∨ c = 12 then 32 else c)

/-- `if len(lines) > 1 and lines[-1] == "": lines.pop()` -/
def popTrailingEmpty (ls : List (List Nat)) : List (List Nat) :=
  if 1 < ls.length ∧ ls.getLast? = some [] then ls.dropLast else ls

/-- the elements `add_text(prefix, text)` appends -/
def addText (cont pre text : List Nat) : List (List Nat) :=
  match popTrailingEmpty (splitNl (untab text)) with
  | [] => [cont ++ pre]          -- not reachable: `split` returns at least one element
  | l :: ls => (cont ++ pre ++ l) :: ls.map (fun x => cont ++ [32] ++ x)

/-- the `doxygen:` dictionary of a declaration (values already `str`) -/
structure Docs where
  brief : Option (List Nat)
  descr : Option (List Nat)
  ret   : Option (List Nat)
  deriving Repr, DecidableEq

def briefPre : List Nat := [32, 92, 98, 114, 105, 101, 102, 32]          -- " \\brief "
def returnPre : List Nat := [32, 92, 114, 101, 116, 117, 114, 110, 32]   -- " \\return "

/-- `write_doxygen(output, docs)`: the elements appended; `b`/`c`/`e` = doxygen_begin/_cont/_end -/
def writeDoxygen (b c e : List Nat) (d : Docs) : List (List Nat) :=
  [b] ++
  (match d.brief with | some t => addText c briefPre t ++ [c] | none => []) ++
  (match d.descr with | some t => addText c [32] t | none => []) ++
  (match d.ret with | some t => [c] ++ addText c returnPre t | none => []) ++
  [e]

end Shroud.Doxygen
