/-!
# Model of the Lua overload/default dispatch written by `shroud/wrapl.py`

`Wrapl.wrap_function` receives the overloads of one Lua name (declaration order), builds
`all_calls` (one `LuaFunction` per overload and per omitted-default prefix), sorts them into
`by_count` and writes one C function:

* exactly one call: the body of `do_function` and `return nresults;` -- no test of the stack;
* otherwise `SH_nargs = lua_gettop(L) [- 1]`, `SH_itype<k> = lua_type(L, k [+ 1])`,
  `switch (SH_nargs)`, per count an `if / else if` chain over `SH_itype<k> == LUA_T...`
  (for count 0: one unconditional compound statement per call), `else luaL_error`,
  `default: luaL_error`, `return SH_nresult;`.

`do_function` reads argument `i` with the typemap's `LUA_pop` from `LUA_index`, which starts at 1
(2 for a method/destructor, where the object `obj:name(...)` sits at index 1) and, for a class
function other than a constructor, fetches the object with `luaL_checkudata(L, 1, metatable)`.

The model has two halves: `gen` (what text is written, as a skeleton) and `run` (what that
skeleton does on a Lua stack).  Only core Lean is imported.
-/
namespace Shroud.LuaDispatch

/-- type tags of lua.h; `none` is the answer of `lua_type` for an index above the top -/
inductive LType
  | none | nil | boolean | lightuserdata | number | string | table | function | userdata | thread
  deriving DecidableEq, Repr

/-- a value on the Lua stack: tag, identity of its metatable (for userdata: the class) and an
    opaque payload -/
structure Val where
  ty : LType
  cls : Nat
  data : Nat
  deriving DecidableEq, Repr

/-- what `lua_to*` / `lua_type` see at an index above the top -/
def Val.absent : Val := ⟨.none, 0, 0⟩

abbrev Stack := List Val

/-- value at a 1-based stack index -/
def Stack.at (s : Stack) : Nat → Val
  | 0 => Val.absent
  | i + 1 => (s[i]?).getD Val.absent

/-! ### declaration level -/

/-- one parameter: `arg.typemap.LUA_type` and `arg.init is not None` -/
structure Param where
  ltype : LType
  hasInit : Bool
  deriving DecidableEq, Repr

/-- one overload: parameters and `ast.get_subprogram() == "function"` -/
structure Overload where
  params : List Param
  isFunction : Bool
  deriving DecidableEq, Repr

/-- what is wrapped: `cls is None`; constructor; any other class function (also `static`);
    destructor (`__gc`) -/
inductive Kind
  | free | ctor | method | dtor
  deriving DecidableEq, Repr

/-- `cls and not is_ctor`: the object is at index 1 and is not an argument -/
def Kind.selfOffset : Kind → Nat
  | .method => 1
  | .dtor => 1
  | _ => 0

/-- a `LuaFunction`: overload index, `LUA_type` of `inargs`, `nresults` -/
structure Call where
  ov : Nat
  types : List LType
  nresults : Nat
  deriving DecidableEq, Repr

def Call.nargs (c : Call) : Nat := c.types.length

/-- `LuaFunction.nresults`: `len(outargs)` (always 0) plus 1 for a function; the destructor is
    forced to "subroutine" -/
def nresultsOf (k : Kind) (o : Overload) : Nat :=
  if k = .dtor then 0 else if o.isFunction then 1 else 0

def mkCall (k : Kind) (i : Nat) (o : Overload) (inargs : List Param) : Call :=
  ⟨i, inargs.map (·.ltype), nresultsOf k o⟩

/-- the loop over `function.ast.params`: a call without the parameter and everything after it
    for each parameter that has an initialiser, then the call with all parameters -/
def callsOfParams (mk : List Param → Call) (seen : List Param) : List Param → List Call
  | [] => [mk seen]
  | p :: ps => (if p.hasInit then [mk seen] else []) ++ callsOfParams mk (seen ++ [p]) ps

def callsFrom (k : Kind) (i : Nat) : List Overload → List Call
  | [] => []
  | o :: os => callsOfParams (mkCall k i o) [] o.params ++ callsFrom k (i + 1) os

/-- `all_calls` -/
def luaCalls (k : Kind) (ovs : List Overload) : List Call := callsFrom k 0 ovs

def maxargs : List Overload → Nat
  | [] => 0
  | o :: os => max o.params.length (maxargs os)

/-- `by_count[n]` -/
def byCount (calls : List Call) (n : Nat) : List Call := calls.filter (fun c => c.nargs = n)

/-! ### the emitted skeleton -/

/-- what `do_function` writes for one call -/
structure Emit where
  ci : Nat                 -- position in `all_calls`
  ov : Nat                 -- overload whose C++ function is called
  selfIdx : Option Nat     -- `luaL_checkudata(L, selfIdx, metatable)`
  pops : List Nat          -- stack index every call argument is read from
  nresult : Nat
  deriving DecidableEq, Repr

structure Branch where
  checks : List (Nat × LType)   -- `lua_type(L, idx) == tag && ...`
  emit : Emit
  deriving DecidableEq, Repr

inductive Body
  | single (e : Emit)
  | switch (countOff : Nat) (cases : List (Nat × List Branch))
  deriving DecidableEq, Repr

/-- where the writer looks on the stack: `SH_nargs = lua_gettop(L) - countOff`,
    `SH_itype<k> = lua_type(L, k + typeOff)`, first `LUA_index = 1 + popOff` -/
structure Layout where
  countOff : Nat
  typeOff : Nat
  popOff : Nat
  deriving DecidableEq, Repr

/-- the code after the `fix:` commit 5605135 -/
def Layout.fixed (k : Kind) : Layout := ⟨k.selfOffset, k.selfOffset, k.selfOffset⟩

/-- the code before it: nothing accounted for the object at index 1 -/
def Layout.old : Layout := ⟨0, 0, 0⟩

def idxFrom (i : Nat) : Nat → List Nat
  | 0 => []
  | n + 1 => i :: idxFrom (i + 1) n

def checksFrom (i : Nat) : List LType → List (Nat × LType)
  | [] => []
  | t :: ts => (i, t) :: checksFrom (i + 1) ts

def selfIdxOf (k : Kind) : Option Nat := if k.selfOffset = 0 then none else some 1

def emitOf (k : Kind) (l : Layout) (ci : Nat) (c : Call) : Emit :=
  ⟨ci, c.ov, selfIdxOf k, idxFrom (1 + l.popOff) c.nargs, c.nresults⟩

def branchOf (k : Kind) (l : Layout) (ci : Nat) (c : Call) : Branch :=
  ⟨checksFrom (1 + l.typeOff) c.types, emitOf k l ci c⟩

/-- the branches of `case n:` in the order written (`ci` counts positions in `all_calls`) -/
def branchesFor (k : Kind) (l : Layout) (n : Nat) : Nat → List Call → List Branch
  | _, [] => []
  | ci, c :: cs =>
    if c.nargs = n then branchOf k l ci c :: branchesFor k l n (ci + 1) cs
    else branchesFor k l n (ci + 1) cs

def caseOf (k : Kind) (l : Layout) (calls : List Call) (n : Nat) : Option (Nat × List Branch) :=
  match branchesFor k l n 0 calls with
  | [] => none
  | b :: bs => some (n, b :: bs)

def casesFor (k : Kind) (l : Layout) (calls : List Call) (m : Nat) : List (Nat × List Branch) :=
  (List.range (m + 1)).filterMap (caseOf k l calls)

def genWith (l : Layout) (k : Kind) (ovs : List Overload) : Body :=
  match luaCalls k ovs with
  | [c] => .single (emitOf k l 0 c)
  | calls => .switch l.countOff (casesFor k l calls (maxargs ovs))

/-- the function body `wrap_function` writes now -/
def gen (k : Kind) (ovs : List Overload) : Body := genWith (Layout.fixed k) k ovs

/-- the function body it wrote before the repair of the object index -/
def genOld (k : Kind) (ovs : List Overload) : Body := genWith Layout.old k ovs

/-! ### what the skeleton does -/

/-- a call into the library: which `all_calls` entry, which overload, the object, the values -/
structure CallEv where
  ci : Nat
  ov : Nat
  self : Option Val
  args : List Val
  deriving DecidableEq, Repr

/-- library calls made (in order) and how the C function ended: `return n` or `luaL_error` -/
inductive Outcome
  | ret (calls : List CallEv) (n : Nat)
  | error (calls : List CallEv)
  deriving DecidableEq, Repr

/-- one `do_function` body; `none`: `luaL_checkudata` raised (before the library is called).
    `lua_to*` never raise. -/
def runEmit (selfOk : Val → Bool) (e : Emit) (s : Stack) : Option CallEv :=
  match e.selfIdx with
  | none => some ⟨e.ci, e.ov, none, e.pops.map s.at⟩
  | some i => if selfOk (s.at i) then some ⟨e.ci, e.ov, some (s.at i), e.pops.map s.at⟩ else none

def runOne (selfOk : Val → Bool) (e : Emit) (s : Stack) : Outcome :=
  match runEmit selfOk e s with
  | some ev => .ret [ev] e.nresult
  | none => .error []

def checksHold (s : Stack) (cs : List (Nat × LType)) : Bool :=
  cs.all (fun p => (s.at p.1).ty == p.2)

/-- `if (..) {..} else if (..) {..} else { luaL_error }` -/
def runChain (selfOk : Val → Bool) : List Branch → Stack → Outcome
  | [], _ => .error []
  | b :: bs, s => if checksHold s b.checks then runOne selfOk b.emit s else runChain selfOk bs s

/-- `case 0:` -- every call gets an unconditional compound statement, one after the other;
    `SH_nresult` is assigned by each -/
def runBlocks (selfOk : Val → Bool) : List Branch → Stack → List CallEv → Nat → Outcome
  | [], _, done, n => .ret done n
  | b :: bs, s, done, _ =>
    match runEmit selfOk b.emit s with
    | some ev => runBlocks selfOk bs s (done ++ [ev]) b.emit.nresult
    | none => .error done

def run (selfOk : Val → Bool) : Body → Stack → Outcome
  | .single e, s => runOne selfOk e s
  | .switch off cases, s =>
    if s.length < off then .error []      -- SH_nargs = -1: `default:`
    else
      match cases.find? (fun c => c.1 = s.length - off) with
      | none => .error []                 -- `default:`
      | some (0, brs) => runBlocks selfOk brs s [] 0
      | some (_, brs) => runChain selfOk brs s

/-! ### the property, stated on declarations -/

/-- first entry of `all_calls` (from position `i`) whose parameter tags are exactly `ts` -/
def firstMatch (ts : List LType) : Nat → List Call → Option (Nat × Call)
  | _, [] => none
  | i, c :: cs => if c.types = ts then some (i, c) else firstMatch ts (i + 1) cs

def expectedArgs (calls : List Call) (self : Option Val) (args : List Val) : Outcome :=
  match firstMatch (args.map (·.ty)) 0 calls with
  | some (ci, c) => .ret [⟨ci, c.ov, self, args⟩] c.nresults
  | none => .error []

/-- what the property demands for a stack: for a free function or constructor the whole stack is
    the argument list; for a method the object is below the arguments -/
def expected (selfOk : Val → Bool) (k : Kind) (ovs : List Overload) (s : Stack) : Outcome :=
  if k.selfOffset = 0 then expectedArgs (luaCalls k ovs) none s
  else
    match s with
    | [] => .error []
    | self :: args => if selfOk self then expectedArgs (luaCalls k ovs) (some self) args else .error []

end Shroud.LuaDispatch
