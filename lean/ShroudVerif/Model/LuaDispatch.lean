/-!
# Model of the Lua overload/default dispatch written by `shroud/wrapl.py`

`Wrapl.wrap_function` receives the overloads of one Lua name (declaration order), builds
`all_calls` (one `LuaFunction` per overload and per omitted-default prefix), sorts them into
`by_count` and writes one C function:

* (up to d74984b only: exactly one call: the body of `do_function` and `return nresults;`, no test)
* `SH_nargs = lua_gettop(L) [- 1]`, `SH_itype<k> = lua_type(L, k [+ 1])`,
  `switch (SH_nargs)`, per count an `if / else if` chain over `SH_itype<k> == LUA_T...`
  (for count 0: one unconditional compound statement per call), `else luaL_error`,
  `default: luaL_error`, `return SH_nresult;`.

`do_function` reads argument `i` with the typemap's `LUA_pop` from `LUA_index`, which starts at 1
(2 for a method/destructor, where the object `obj:name(...)` sits at index 1) and, for a class
function other than a constructor, fetches the object with `luaL_checkudata(L, 1, metatable)`.

The model has two halves: `gen` (what text is written, as a skeleton) and `run` (what that
skeleton does on a Lua stack).  Only core Lean is imported.
-/
namespace Shroud.LuaDispatch

/-- type tags of lua.h; `none` is the answer of `lua_type` for an index above the top -/
inductive LType
  | none | nil | boolean | lightuserdata | number | string | table | function | userdata | thread
  deriving DecidableEq, Repr

/-- a value on the Lua stack: tag, identity of its metatable (for userdata: the class) and an
    opaque payload -/
structure Val where
  ty : LType
  cls : Nat
  data : Nat
  deriving DecidableEq, Repr

/-- what `lua_to*` / `lua_type` see at an index above the top -/
def Val.absent : Val := ⟨.none, 0, 0⟩

abbrev Stack := List Val

/-- value at a 1-based stack index -/
def Stack.at (s : Stack) : Nat → Val
  | 0 => Val.absent
  | i + 1 => (s[i]?).getD Val.absent

/-! ### declaration level -/

/-- one parameter: `arg.typemap.LUA_type`, `arg.init is not None` (whatever the value: 0, 0.0 and ""
    are defaults too) and, for `Class *arg`, the class (`arg.typemap.base == "shadow"`) -/
structure Param where
  ltype : LType
  hasInit : Bool
  cls : Option Nat        -- class-pointer argument: the wrapped class whose userdata is required
  deriving DecidableEq, Repr

/-- one overload: parameters and `ast.get_subprogram() == "function"` -/
structure Overload where
  params : List Param
  isFunction : Bool
  deriving DecidableEq, Repr

/-- what is wrapped: `cls is None`; constructor; any other class function (also `static`);
    destructor (`__gc`) -/
inductive Kind
  | free | ctor | method | dtor
  deriving DecidableEq, Repr

/-- `cls and not is_ctor`: the object is at index 1 and is not an argument -/
def Kind.selfOffset : Kind → Nat
  | .method => 1
  | .dtor => 1
  | _ => 0

/-- a `LuaFunction`: overload index, `LUA_type` of `inargs`, `nresults` -/
structure Call where
  ov : Nat
  types : List LType
  nresults : Nat
  argCls : List (Option Nat)   -- per argument: class whose userdata `luaL_checkudata` demands
  deriving DecidableEq, Repr

def Call.nargs (c : Call) : Nat := c.types.length

/-- `LuaFunction.nresults`: `len(outargs)` (always 0) plus 1 for a function; the destructor is
    forced to "subroutine" -/
def nresultsOf (k : Kind) (o : Overload) : Nat :=
  if k = .dtor then 0 else if o.isFunction then 1 else 0

def mkCall (k : Kind) (i : Nat) (o : Overload) (inargs : List Param) : Call :=
  ⟨i, inargs.map (·.ltype), nresultsOf k o, inargs.map (·.cls)⟩

/-- the loop over `function.ast.params`: a call without the parameter and everything after it
    for each parameter that has an initialiser, then the call with all parameters -/
def callsOfParams (mk : List Param → Call) (seen : List Param) : List Param → List Call
  | [] => [mk seen]
  | p :: ps => (if p.hasInit then [mk seen] else []) ++ callsOfParams mk (seen ++ [p]) ps

def callsFrom (k : Kind) (i : Nat) : List Overload → List Call
  | [] => []
  | o :: os => callsOfParams (mkCall k i o) [] o.params ++ callsFrom k (i + 1) os

/-- `all_calls` -/
def luaCalls (k : Kind) (ovs : List Overload) : List Call := callsFrom k 0 ovs

def maxargs : List Overload → Nat
  | [] => 0
  | o :: os => max o.params.length (maxargs os)

/-- `by_count[n]` -/
def byCount (calls : List Call) (n : Nat) : List Call := calls.filter (fun c => c.nargs = n)

/-! ### the emitted skeleton -/

/-- what `do_function` writes for one call -/
structure Emit where
  ci : Nat                 -- position in `all_calls`
  ov : Nat                 -- overload whose C++ function is called
  selfIdx : Option Nat     -- `luaL_checkudata(L, selfIdx, metatable)`
  pops : List Nat          -- stack index every call argument is read from
  nresult : Nat
  argCls : List (Option Nat)   -- `luaL_checkudata(L, idx, "<class>.metatable")` for class arguments
  deriving DecidableEq, Repr

structure Branch where
  checks : List (Nat × LType)   -- `lua_type(L, idx) == tag && ...`
  emit : Emit
  deriving DecidableEq, Repr

inductive Body
  | single (e : Emit)
  | switch (countOff : Nat) (cases : List (Nat × List Branch))
  deriving DecidableEq, Repr

/-- where the writer looks on the stack: `SH_nargs = lua_gettop(L) - countOff`,
    `SH_itype<k> = lua_type(L, k + typeOff)`, first `LUA_index = 1 + popOff` -/
structure Layout where
  countOff : Nat
  typeOff : Nat
  popOff : Nat
  deriving DecidableEq, Repr

/-- the code after the `fix:` commit 5605135 -/
def Layout.fixed (k : Kind) : Layout := ⟨k.selfOffset, k.selfOffset, k.selfOffset⟩

/-- the code before it: nothing accounted for the object at index 1 -/
def Layout.old : Layout := ⟨0, 0, 0⟩

def idxFrom (i : Nat) : Nat → List Nat
  | 0 => []
  | n + 1 => i :: idxFrom (i + 1) n

def checksFrom (i : Nat) : List LType → List (Nat × LType)
  | [] => []
  | t :: ts => (i, t) :: checksFrom (i + 1) ts

def selfIdxOf (k : Kind) : Option Nat := if k.selfOffset = 0 then none else some 1

def emitOf (k : Kind) (l : Layout) (ci : Nat) (c : Call) : Emit :=
  ⟨ci, c.ov, selfIdxOf k, idxFrom (1 + l.popOff) c.nargs, c.nresults, c.argCls⟩

def branchOf (k : Kind) (l : Layout) (ci : Nat) (c : Call) : Branch :=
  ⟨checksFrom (1 + l.typeOff) c.types, emitOf k l ci c⟩

/-- the branches of `case n:` in the order written (`ci` counts positions in `all_calls`) -/
def branchesFor (k : Kind) (l : Layout) (n : Nat) : Nat → List Call → List Branch
  | _, [] => []
  | ci, c :: cs =>
    if c.nargs = n then branchOf k l ci c :: branchesFor k l n (ci + 1) cs
    else branchesFor k l n (ci + 1) cs

def caseOf (k : Kind) (l : Layout) (calls : List Call) (n : Nat) : Option (Nat × List Branch) :=
  match branchesFor k l n 0 calls with
  | [] => none
  | b :: bs => some (n, b :: bs)

def casesFor (k : Kind) (l : Layout) (calls : List Call) (m : Nat) : List (Nat × List Branch) :=
  (List.range (m + 1)).filterMap (caseOf k l calls)

/-- the code up to d74984b: a name with exactly one call got the bare `do_function` body -/
def genSpecial (l : Layout) (k : Kind) (ovs : List Overload) : Body :=
  match luaCalls k ovs with
  | [c] => .single (emitOf k l 0 c)
  | calls => .switch l.countOff (casesFor k l calls (maxargs ovs))

/-- the function body `wrap_function` writes now: always the count/type test -/
def gen (k : Kind) (ovs : List Overload) : Body :=
  .switch (Layout.fixed k).countOff (casesFor k (Layout.fixed k) (luaCalls k ovs) (maxargs ovs))

/-- the function body written between 5605135 and d74984b (single-call special case) -/
def genSingleCase (k : Kind) (ovs : List Overload) : Body := genSpecial (Layout.fixed k) k ovs

/-- the function body written before 5605135 (object index ignored, single-call special case) -/
def genOld (k : Kind) (ovs : List Overload) : Body := genSpecial Layout.old k ovs

/-! ### what the skeleton does -/

/-- a call into the library: which `all_calls` entry, which overload, the object, the values -/
structure CallEv where
  ci : Nat
  ov : Nat
  self : Option Val
  args : List Val
  deriving DecidableEq, Repr

/-- library calls made (in order) and how the C function ended: `return n` or `luaL_error` -/
inductive Outcome
  | ret (calls : List CallEv) (n : Nat)
  | error (calls : List CallEv)
  deriving DecidableEq, Repr

/-- the values read for class-pointer arguments are userdata carrying the metatable of the
    argument's class (`luaL_checkudata` on each of them) -/
def argsOk : List Val → List (Option Nat) → Bool
  | v :: vs, some c :: cs => (v.ty == .userdata && v.cls == c) && argsOk vs cs
  | _ :: vs, none :: cs => argsOk vs cs
  | _, _ => true

/-- one `do_function` body; `none`: a `luaL_checkudata` (argument or object) raised, before the
    library is called.  `lua_to*` never raise. -/
def runEmit (selfOk : Val → Bool) (e : Emit) (s : Stack) : Option CallEv :=
  if argsOk (e.pops.map s.at) e.argCls then
    match e.selfIdx with
    | none => some ⟨e.ci, e.ov, none, e.pops.map s.at⟩
    | some i => if selfOk (s.at i) then some ⟨e.ci, e.ov, some (s.at i), e.pops.map s.at⟩ else none
  else none

def runOne (selfOk : Val → Bool) (e : Emit) (s : Stack) : Outcome :=
  match runEmit selfOk e s with
  | some ev => .ret [ev] e.nresult
  | none => .error []

def checksHold (s : Stack) (cs : List (Nat × LType)) : Bool :=
  cs.all (fun p => (s.at p.1).ty == p.2)

/-- `if (..) {..} else if (..) {..} else { luaL_error }` -/
def runChain (selfOk : Val → Bool) : List Branch → Stack → Outcome
  | [], _ => .error []
  | b :: bs, s => if checksHold s b.checks then runOne selfOk b.emit s else runChain selfOk bs s

/-- `case 0:` -- every call gets an unconditional compound statement, one after the other;
    `SH_nresult` is assigned by each -/
def runBlocks (selfOk : Val → Bool) : List Branch → Stack → List CallEv → Nat → Outcome
  | [], _, done, n => .ret done n
  | b :: bs, s, done, _ =>
    match runEmit selfOk b.emit s with
    | some ev => runBlocks selfOk bs s (done ++ [ev]) b.emit.nresult
    | none => .error done

def run (selfOk : Val → Bool) : Body → Stack → Outcome
  | .single e, s => runOne selfOk e s
  | .switch off cases, s =>
    if s.length < off then .error []      -- SH_nargs = -1: `default:`
    else
      match cases.find? (fun c => c.1 = s.length - off) with
      | none => .error []                 -- `default:`
      | some (0, brs) => runBlocks selfOk brs s [] 0
      | some (_, brs) => runChain selfOk brs s

/-! ### the property, stated on declarations -/

/-- first entry of `all_calls` (from position `i`) whose parameter tags are exactly `ts` -/
def firstMatch (ts : List LType) : Nat → List Call → Option (Nat × Call)
  | _, [] => none
  | i, c :: cs => if c.types = ts then some (i, c) else firstMatch ts (i + 1) cs

def expectedArgs (calls : List Call) (self : Option Val) (args : List Val) : Outcome :=
  match firstMatch (args.map (·.ty)) 0 calls with
  | some (ci, c) => if argsOk args c.argCls then .ret [⟨ci, c.ov, self, args⟩] c.nresults else .error []
  | none => .error []

/-- what the property demands for a stack: for a free function or constructor the whole stack is
    the argument list; for a method the object is below the arguments -/
def expected (selfOk : Val → Bool) (k : Kind) (ovs : List Overload) (s : Stack) : Outcome :=
  if k.selfOffset = 0 then expectedArgs (luaCalls k ovs) none s
  else
    match s with
    | [] => .error []
    | self :: args => if selfOk self then expectedArgs (luaCalls k ovs) (some self) args else .error []

/-! ### registration: which C function a Lua name reaches

`wrap_functions` gathers the wrapped functions of a class / namespace by `ast.name` (first
occurrence order); every group becomes one C function named by the first overload's
`LUA_name_impl` and is entered under the first overload's `LUA_name` into the class table
(`__gc` for the destructor) or, for constructors, under the class's `LUA_ctor_name` into the module
table.  `wrap_namespace` handles the classes of a scope, then its functions, then nested scopes.
`luaL_setfuncs` stores entry after entry: a later entry with the same name replaces an earlier one. -/

/-- one declaration wrapped for Lua: `ast.name`, `LUA_name`, `LUA_name_impl` (interned), kind -/
structure WFn where
  name : Nat
  lua : Nat
  impl : Nat
  kind : Kind
  deriving DecidableEq, Repr

/-- the interned name `__gc` -/
def gcName : Nat := 0

/-- first declaration of every `ast.name`, in order of first occurrence (`overloads[0]` of each group) -/
def groups : List WFn → List WFn
  | [] => []
  | f :: fs => f :: (groups fs).filter (fun g => g.name ≠ f.name)

structure ClassD where
  ctorName : Nat          -- LUA_ctor_name
  fns : List WFn
  mt : Nat                -- LUA_metadata: the class's own format field / template, interned (never `noMeta`)
  deriving Repr

/-- `luaL_Reg_class` of one class: (Lua name, C function) -/
def classRegs (c : ClassD) : List (Nat × Nat) :=
  (groups c.fns).filterMap (fun g =>
    match g.kind with
    | .ctor => none
    | .dtor => some (gcName, g.impl)
    | _ => some (g.lua, g.impl))

/-- the entries a class contributes to `luaL_Reg_module` -/
def ctorRegs (c : ClassD) : List (Nat × Nat) :=
  (groups c.fns).filterMap (fun g => if g.kind = .ctor then some (c.ctorName, g.impl) else none)

/-- a library or namespace level: its classes and functions (nested scopes follow in pre-order) -/
structure ScopeD where
  classes : List ClassD
  fns : List WFn
  deriving Repr

def scopeRegs (s : ScopeD) : List (Nat × Nat) :=
  s.classes.flatMap ctorRegs ++ (groups s.fns).map (fun g => (g.lua, g.impl))

/-- `luaL_Reg_module` -/
def moduleRegs (scopes : List ScopeD) : List (Nat × Nat) := scopes.flatMap scopeRegs

/-- what `module.name` / `obj:name` reaches after `luaL_setfuncs`: the last entry with the name -/
def lookupReg : List (Nat × Nat) → Nat → Option Nat
  | [], _ => none
  | (n, f) :: rest, x =>
    match lookupReg rest x with
    | some g => some g
    | none => if n = x then some f else none

/-! ### objects: constructor result, object test, `__gc` -/

/-- the userdata block `{ self }` with its metatable (class) -/
structure Obj where
  cls : Nat
  ptr : Option Nat        -- `SH_this->self`: the C++ object or NULL
  deriving DecidableEq, Repr

/-- the Lua value a constructor leaves on the stack: `lua_newuserdata`, `new`, `lua_setmetatable`
    with the metatable registered for the class -/
def ctorValue (cls data : Nat) : Val := ⟨.userdata, cls, data⟩

/-- `luaL_checkudata(L, 1, "<class>.metatable")` -/
def selfOkOf (cls : Nat) (v : Val) : Bool := v.ty == .userdata && v.cls == cls

/-- `__gc`: `delete SH_this->self; SH_this->self = NULL;` -- number of destructor runs -/
def gcStep (o : Obj) : Obj × Nat :=
  match o.ptr with
  | some _ => ({ o with ptr := none }, 1)
  | none => (o, 0)

/-- `n` invocations of `__gc` on one userdata: total destructor runs -/
def gcRuns : Nat → Obj → Nat
  | 0, _ => 0
  | n + 1, o => (gcStep o).2 + gcRuns n (gcStep o).1

/-! ### the metatable NAME at every site

The registry of Lua maps names to metatables; a userdata carries the table that was found under the
name its constructor asked for, and `luaL_checkudata(L, i, name)` compares with the table found
under `name`.  The identity of a metatable therefore is its name (`Val.cls`), `noMeta` stands for
"no metatable" (what `luaL_getmetatable` of a name nobody created leaves on the userdata).
`LUA_metadata` is user-visible (`format: LUA_metadata`, `LUA_metadata_template` at library,
namespace or class level), so the sites are modelled one by one. -/

def noMeta : Nat := 0

/-- the names written for one class: `luaL_newmetatable` in `luaopen_<lib>` (written by `wrap_class`
    for every wrapped class, whether or not its method table is empty), `luaL_getmetatable` in each of
    its constructors, `luaL_checkudata(L, 1, ..)` in each of its methods and its destructor -/
structure ClassSites where
  created : Option Nat
  attached : Nat
  demanded : Nat
  deriving DecidableEq, Repr

def classSites (c : ClassD) : ClassSites := ⟨some c.mt, c.mt, c.mt⟩

/-- `class_arg_pop`: a class-pointer argument of the `i`-th wrapped class demands that class's name -/
def argDemanded (classes : List ClassD) (i : Nat) : Option Nat := (classes[i]?).map (·.mt)

/-- the names `luaopen_<lib>` registers -/
def registry (classes : List ClassD) : List Nat := classes.filterMap (fun c => (classSites c).created)

/-- what a constructor leaves: a userdata carrying the metatable registered under `name`, if any -/
def attachedValue (reg : List Nat) (name data : Nat) : Val :=
  ⟨.userdata, if name ∈ reg then name else noMeta, data⟩

/-- `luaL_checkudata(L, i, name)` -/
def demands (name : Nat) (v : Val) : Bool := v.ty == .userdata && v.cls == name

/-! ### which class a class argument means (`find_lua_classes`, `class_arg_pop`)

`find_lua_classes` walks the visited scopes and stores every wrapped class in the dict `lua_classes` under
`cls.typemap.name`, the fully qualified C++ name (`inner::Node`), here the list of its interned components.
A Python dict keeps one value per key: a later insert under an equal key replaces the earlier one.
`class_arg_pop` looks the argument's `typemap.name` up: a hit gives the userdata struct and the metatable
name of THAT class; a miss is "a class wrapped by another library": the default metatable name built from
the last component, and the userdata read as a bare object pointer.  `keyOf` is what both sites use as key
(the identity on the current code; `unqualKey` is the unqualified name, kept for the negation witness). -/

abbrev QName := List Nat

/-- dict lookup after the inserts `tbl` (in order): the last entry with the key -/
def dictGet {α : Type} : List (QName × α) → QName → Option α
  | [], _ => none
  | (k, v) :: rest, x =>
    match dictGet rest x with
    | some w => some w
    | none => if k = x then some v else none

/-- the dict after `find_lua_classes`: key of the i-th visited class -> i -/
def luaClassesFrom (keyOf : QName → QName) (i : Nat) : List QName → List (QName × Nat)
  | [] => []
  | q :: qs => (keyOf q, i) :: luaClassesFrom keyOf (i + 1) qs

/-- what a class argument is read as -/
inductive ArgClass
  | own (idx : Nat)          -- userdata struct and metatable of the idx-th wrapped class of this library
  | foreign (short : Nat)    -- default metatable name of the unqualified name; bare object pointer
  deriving DecidableEq, Repr

def classArgPopBy (keyOf : QName → QName) (classes : List QName) (ty : QName) : ArgClass :=
  match dictGet (luaClassesFrom keyOf 0 classes) (keyOf ty) with
  | some i => .own i
  | none => .foreign (ty.getLast?.getD 0)

/-- the current code: both sites use the typemap name itself -/
def classArgPop (classes : List QName) (ty : QName) : ArgClass := classArgPopBy id classes ty

/-- a keying by the unqualified class name (`cls.name` / last `::` component) -/
def unqualKey (q : QName) : QName := match q.getLast? with | some n => [n] | none => []

/-- the metatable name a class argument of type `ty` demands (`none`: not a class of this library) -/
def argDemandedByName (names : List QName) (classes : List ClassD) (ty : QName) : Option Nat :=
  match classArgPop names ty with
  | .own i => argDemanded classes i
  | .foreign _ => none

/-! ### the names a class contributes (default templates)

`LUA_userdata_type_template = "{LUA_prefix}{cxx_class}_Type"`, `LUA_class_reg_template =
"{LUA_prefix}{cxx_class}_Reg"`, `LUA_metadata_template = "{cxx_class}.metatable"`, `LUA_ctor_name_template =
"{cxx_class}"`: every default is a function of the UNQUALIFIED class name only (injective in it).  The userdata
struct is a `typedef` in the header and the method table a `static const` array in the module file: two equal
names are a C redefinition.  `luaL_newmetatable` of a name that exists returns the existing table. -/

structure ClassNames where
  udt : Nat        -- typedef struct {..} <udt>;
  reg : Nat        -- static const struct luaL_Reg <reg> [] = ..
  mt : Nat         -- luaL_newmetatable(L, "<mt>")
  ctor : Nat       -- {"<ctor>", ..} in the module table
  deriving DecidableEq, Repr

/-- the default names of a class whose (interned) unqualified name is `n`; four disjoint injective families -/
def defaultNamesOf (n : Nat) : ClassNames := ⟨4 * n, 4 * n + 1, 4 * n + 2, 4 * n + 3⟩

/-- the names of a class: `format:` fields given by the user, else the defaults of the last component -/
def classNames (q : QName) (user : Option ClassNames) : ClassNames :=
  match user with
  | some u => u
  | none => defaultNamesOf (q.getLast?.getD 0)

/-- the translation unit has no redefinition: typedef names pairwise distinct and array names pairwise distinct -/
def noRedefinition (cs : List ClassNames) : Prop := (cs.map (·.udt)).Nodup ∧ (cs.map (·.reg)).Nodup

/-! ### the namespace tree

`wrap_namespace(node)` handles the classes of `node`, then its functions, then calls itself for every
nested namespace whose `wrap.lua` is on -- unconditionally: a scope without functions, without
classes or without anything of its own still has its nested namespaces visited.  The tree is given in
pre-order with the depth of every node (library = depth 0); the subtree of a namespace that is
switched off is skipped. -/

structure NsNode where
  depth : Nat
  wrapLua : Bool
  scope : ScopeD
  deriving Repr

/-- the scopes `wrap_namespace` visits, in order; `skip = some d`: inside a switched-off subtree whose
    root has depth `d` -/
def visit : Option Nat → List NsNode → List ScopeD
  | _, [] => []
  | sk, n :: rest =>
    if (match sk with | some d => decide (d < n.depth) | none => false) then visit sk rest
    else if n.wrapLua then n.scope :: visit none rest
    else visit (some n.depth) rest

/-- `luaL_Reg_module` of a library given as a tree -/
def moduleRegsTree (nodes : List NsNode) : List (Nat × Nat) := moduleRegs (visit none nodes)

/-- the classes that get a userdata type, a metatable and a method table -/
def classesTree (nodes : List NsNode) : List ClassD := (visit none nodes).flatMap (·.classes)

end Shroud.LuaDispatch
