import ShroudVerif.Model.Splicer
import ShroudVerif.Lemmas.Lines
/-! Helper lemmas for C12 (string primitives, dictionary operations). -/
namespace Shroud.Splicer
open Shroud.Lines

/-! ### write_lines on hint-free text -/

theorem splitParts_noHint (cs : List Char) : ∀ cur : List Char,
    (∀ c ∈ cs, c ≠ TAB ∧ c ≠ FF) → splitParts cur cs = flush (cur ++ cs) := by
  induction cs with
  | nil => intro cur _; simp [splitParts]
  | cons c cs ih =>
    intro cur h
    have hc := h c (by simp)
    simp only [splitParts, hc.1, hc.2, if_false]
    rw [ih (cur ++ [c]) (fun x hx => h x (by simp [hx]))]
    simp

theorem splitNL_noNL (cs : List Char) : ∀ cur : List Char,
    (∀ c ∈ cs, c ≠ '\n') → splitNL cur cs = [cur ++ cs] := by
  induction cs with
  | nil => intro cur _; simp [splitNL]
  | cons c cs ih =>
    intro cur h
    have hc := h c (by simp)
    simp only [splitNL, hc, if_false]
    rw [ih (cur ++ [c]) (fun x hx => h x (by simp [hx]))]
    simp

/-! ### find -/

theorem findSub_shift (pat : Str) (s : Str) : ∀ k, findSub pat s k = (findSub pat s 0).map (· + k) := by
  induction s with
  | nil => intro k; simp only [findSub]; split <;> simp
  | cons c cs ih =>
    intro k
    simp only [findSub]
    split
    · simp
    · rw [ih (k + 1), ih (0 + 1)]
      cases findSub pat cs 0 <;> simp
      omega

theorem findSub_none_shift (pat s : Str) (k k' : Nat) (h : findSub pat s k = none) :
    findSub pat s k' = none := by
  rw [findSub_shift] at h ⊢
  cases hh : findSub pat s 0 <;> simp_all

/-- no occurrence can start inside a prefix that lacks the pattern's first character -/
theorem findSub_skip (p : Char) (ps pre rest : Str) (hpre : ∀ c ∈ pre, c ≠ p) : ∀ k,
    findSub (p :: ps) (pre ++ (p :: ps) ++ rest) k = some (k + pre.length) := by
  induction pre with
  | nil =>
    intro k
    have : (p :: ps).isPrefixOf (p :: (ps ++ rest)) = true := by
      rw [List.isPrefixOf_iff_prefix]; exact List.prefix_append (p :: ps) rest
    show findSub (p :: ps) (p :: (ps ++ rest)) k = _
    simp only [findSub, this, if_true]; simp
  | cons c cs ih =>
    intro k
    have hc : c ≠ p := hpre c (by simp)
    have hne : (p == c) = false := by simp [Ne.symm hc]
    simp only [List.cons_append, findSub, List.isPrefixOf_cons_cons, hne, Bool.false_and,
      Bool.false_eq_true, if_false]
    have := ih (fun x hx => hpre x (by simp [hx])) (k + 1)
    rw [this]; simp; omega

theorem findSub_none_prefix (p : Char) (ps pre s : Str) (hpre : ∀ c ∈ pre, c ≠ p) : ∀ k,
    findSub (p :: ps) s k = none → findSub (p :: ps) (pre ++ s) k = none := by
  induction pre with
  | nil => intro k h; simpa using h
  | cons c cs ih =>
    intro k h
    have hc : c ≠ p := hpre c (by simp)
    have hne : (p == c) = false := by simp [Ne.symm hc]
    simp only [List.cons_append, findSub, List.isPrefixOf_cons_cons, hne, Bool.false_and,
      Bool.false_eq_true, if_false]
    exact ih (fun x hx => hpre x (by simp [hx])) (k + 1) (findSub_none_shift _ _ _ _ h)

theorem isPrefixOf_snoc (e : Char) : ∀ (pat s : Str), e ∉ pat →
    pat.isPrefixOf (s ++ [e]) = true → pat.isPrefixOf s = true := by
  intro pat
  induction pat with
  | nil => intro s _ _; simp
  | cons p ps ih =>
    intro s hne h
    cases s with
    | nil =>
      simp only [List.nil_append, List.isPrefixOf_cons_cons, Bool.and_eq_true, beq_iff_eq] at h
      exact absurd h.1 (by intro hh; exact hne (by simp [hh]))
    | cons x xs =>
      simp only [List.cons_append, List.isPrefixOf_cons_cons, Bool.and_eq_true] at h ⊢
      exact ⟨h.1, ih xs (fun hh => hne (by simp [hh])) h.2⟩

theorem findSub_none_snoc (e : Char) (pat : Str) (hne : e ∉ pat) (hpat : pat ≠ []) : ∀ (s : Str) (k : Nat),
    findSub pat s k = none → findSub pat (s ++ [e]) k = none := by
  intro s
  induction s with
  | nil =>
    intro k _
    cases pat with
    | nil => exact absurd rfl hpat
    | cons p ps =>
      have hpe : p ≠ e := by intro hh; exact hne (by simp [hh])
      simp [findSub, hpe]
  | cons c cs ih =>
    intro k h
    simp only [findSub] at h
    split at h
    · simp at h
    · rename_i hp
      simp only [List.cons_append, findSub]
      have : ¬ pat.isPrefixOf (c :: (cs ++ [e])) = true := by
        intro hh
        exact hp (isPrefixOf_snoc e pat (c :: cs) hne (by simpa using hh))
      simp only [this]
      exact ih (k + 1) h

/-! ### rstrip, firstField -/

theorem rstrip_snoc_space (s : Str) (c : Char) (h : isPySpace c = true) : rstrip (s ++ [c]) = rstrip s := by
  simp [rstrip, h]

theorem rstrip_of_last_nonspace (s : Str) (c : Char) (h : isPySpace c = false) : rstrip (s ++ [c]) = s ++ [c] := by
  simp [rstrip, h]

theorem firstField_tag (tag post : Str) (htag : tag ≠ []) (hns : ∀ c ∈ tag, isPySpace c = false)
    (hpost : ∀ c, post.head? = some c → isPySpace c = true) :
    firstField (' ' :: tag ++ post) = some tag := by
  have hsp : isPySpace ' ' = true := by decide
  cases tag with
  | nil => exact absurd rfl htag
  | cons t ts =>
    have ht : isPySpace t = false := hns t (by simp)
    have htw : List.takeWhile (fun c => !isPySpace c) (t :: ts ++ post) = t :: ts := by
      rw [List.takeWhile_append_of_pos (l₁ := t :: ts)]
      · cases post with
        | nil => simp
        | cons q qs =>
          have := hpost q rfl
          simp [this]
      · intro a ha; simp [hns a ha]
    simp only [firstField, List.cons_append, List.dropWhile_cons, hsp, if_true, ht, Bool.false_eq_true,
      if_false, List.isEmpty_cons]
    simpa using htw

/-! ### dictionary operations -/

theorem lookup_append_some (d e : Dict) (p : Path) (v : Val) (h : d.lookup p = some v) :
    (d ++ e).lookup p = some v := by
  simp [List.lookup_append, h]

theorem ensureDict_lookup (d : Dict) (x p : Path) (v : Val) (h : d.lookup p = some v) :
    (ensureDict d x).lookup p = some v := by
  unfold ensureDict
  split
  · exact h
  · exact lookup_append_some _ _ _ _ h

theorem ensureDict_self (d : Dict) (x : Path) : ((ensureDict d x).lookup x).isSome = true := by
  unfold ensureDict
  split
  · rename_i v hv; simp [hv]
  · rename_i hv; simp [List.lookup_append, hv]

theorem descend_spec : ∀ (ks : List Str) (d : Dict) (p : Path) (d' : Dict) (top : Path),
    descend d p ks = .ok (d', top) →
      top = p ++ ks ∧ ∀ r v, d.lookup r = some v → d'.lookup r = some v := by
  intro ks
  induction ks with
  | nil =>
    intro d p d' top h
    simp only [descend, Res.ok.injEq, Prod.mk.injEq] at h
    obtain ⟨rfl, rfl⟩ := h
    exact ⟨by simp, fun _ _ h => h⟩
  | cons k ks ih =>
    intro d p d' top h
    simp only [descend] at h
    split at h
    · obtain ⟨h1, h2⟩ := ih _ _ _ _ h
      refine ⟨by simp [h1], ?_⟩
      intro r v hr
      exact h2 r v (ensureDict_lookup _ _ _ _ hr)
    · simp at h

theorem lookup_setLeaf_self (d : Dict) (q : Path) (b : List Str) :
    (setLeaf d q b).lookup q = some (.leaf b) := by
  unfold setLeaf
  split
  · rename_i hn; simp [List.lookup_append, hn]
  · rename_i v hv
    have hsp : isStrictPrefix q q = false := by simp [isStrictPrefix]
    have : ∀ (l : Dict), (l.lookup q).isSome = true →
        (List.map (fun e : Path × Val => if e.1 = q then (q, Val.leaf b) else e)
          (l.filter (fun e => !(isStrictPrefix q e.1)))).lookup q = some (.leaf b) := by
      intro l
      induction l with
      | nil => simp
      | cons e l ih =>
        intro h
        obtain ⟨k, v⟩ := e
        by_cases hk : k = q
        · subst hk
          simp [hsp]
        · have hk' : (q == k) = false := by simp [Ne.symm hk]
          simp only [List.lookup_cons, hk'] at h
          simp only [List.filter_cons]
          split
          · simp only [List.map_cons, hk, if_false, List.lookup_cons, hk']
            exact ih h
          · exact ih h
    apply this
    simp [hv]

theorem lookup_setLeaf_other (d : Dict) (q p : Path) (b : List Str)
    (hnp : q.isPrefixOf p = false) : (setLeaf d q b).lookup p = d.lookup p := by
  have hpq : (p == q) = false := by
    simp only [beq_eq_false_iff_ne, ne_eq]
    intro h; subst h
    have : p.isPrefixOf p = true := by rw [List.isPrefixOf_iff_prefix]; exact List.prefix_refl _
    simp [this] at hnp
  unfold setLeaf
  split
  · simp [List.lookup_append, List.lookup_cons, hpq]
  · have main : ∀ l : Dict, (List.map (fun e : Path × Val => if e.1 = q then (q, Val.leaf b) else e)
          (l.filter (fun e => !(isStrictPrefix q e.1)))).lookup p = l.lookup p := by
     intro l
     induction l with
     | nil => simp
     | cons e l ih =>
      obtain ⟨k, v⟩ := e
      simp only [List.filter_cons]
      by_cases hkp : k = p
      · subst hkp
        have : isStrictPrefix q k = false := by simp [isStrictPrefix, hnp]
        have hkq : ¬ k = q := by intro h; simp [h] at hpq
        simp [this, hkq]
      · have hpk : (p == k) = false := by simp [Ne.symm hkp]
        split
        · by_cases hkq : k = q
          · subst hkq
            simp only [List.map_cons, if_true, List.lookup_cons, hpk]; exact ih
          · simp only [List.map_cons, hkq, if_false, List.lookup_cons, hpk]; exact ih
        · simp only [List.lookup_cons, hpk]; exact ih
    exact main d

theorem lookup_setDict_other (d : Dict) (q p : Path) (hne : p ≠ q) :
    (setDict d q).lookup p = d.lookup p := by
  have hpq : (p == q) = false := by simpa using hne
  unfold setDict
  split
  · simp [List.lookup_append, List.lookup_cons, hpq]
  · rfl
  · have main : ∀ l : Dict,
        (l.map (fun e : Path × Val => if e.1 = q then (q, Val.dict) else e)).lookup p = l.lookup p := by
      intro l
      induction l with
      | nil => rfl
      | cons e l ih =>
        obtain ⟨k, v⟩ := e
        by_cases hkq : k = q
        · subst hkq
          simp only [List.map_cons, if_true, List.lookup_cons, hpq]; exact ih
        · simp only [List.map_cons, hkq, if_false, List.lookup_cons]
          split
          · rfl
          · exact ih
    exact main d

/-- a `splicer_code` entry that is neither a body at/above `p` nor a level at `p` itself leaves `p` alone -/
def Spares (p : Path) (e : Path × Val) : Prop :=
  match e.2 with
  | .leaf _ => e.1.isPrefixOf p = false
  | .dict => e.1 ≠ p

theorem mergeEntry_spares (d : Dict) (e : Path × Val) (p : Path) (h : Spares p e) :
    (mergeEntry d e).lookup p = d.lookup p := by
  obtain ⟨q, v⟩ := e
  cases v with
  | leaf b => exact lookup_setLeaf_other d q p b h
  | dict => exact lookup_setDict_other d q p (fun hh => h hh.symm)

theorem mergeCode_spares (c : Dict) : ∀ (d : Dict) (p : Path), (∀ e ∈ c, Spares p e) →
    (mergeCode d c).lookup p = d.lookup p := by
  induction c with
  | nil => intro d p _; rfl
  | cons e c ih =>
    intro d p h
    simp only [mergeCode, List.foldl_cons]
    have := ih (mergeEntry d e) p (fun x hx => h x (by simp [hx]))
    simp only [mergeCode] at this
    rw [this, mergeEntry_spares d e p (h e (by simp))]

/-! ### success of `descend` -/

theorem lookup_mem (d : Dict) (p : Path) (v : Val) (h : d.lookup p = some v) : (p, v) ∈ d := by
  induction d with
  | nil => simp at h
  | cons e l ih =>
    obtain ⟨k, w⟩ := e
    simp only [List.lookup_cons] at h
    split at h
    · rename_i hk
      simp only [beq_iff_eq] at hk
      simp only [Option.some.injEq] at h
      subst hk; subst h; simp
    · exact List.mem_cons_of_mem _ (ih h)

theorem lookup_append_cases (a b : Dict) (p : Path) (v : Val) (h : (a ++ b).lookup p = some v) :
    a.lookup p = some v ∨ (a.lookup p = none ∧ b.lookup p = some v) := by
  rw [List.lookup_append] at h
  cases ha : a.lookup p with
  | none => right; simpa [ha] using h
  | some w => left; simpa [ha] using h

theorem ensureDict_eq (d : Dict) (x : Path) :
    ensureDict d x = d ∨ ensureDict d x = d ++ [(x, .dict)] := by
  unfold ensureDict
  split <;> simp

/-- `descend` succeeds when no level on the way is occupied by a body; it only
    appends empty levels lying on the way. -/
theorem descend_total : ∀ (ks : List Str) (d : Dict) (p : Path),
    (p = [] ∨ (d.lookup p).isSome = true) →
    (∀ i, i < ks.length → ∀ b, d.lookup (p ++ ks.take i) ≠ some (.leaf b)) →
    ∃ ex : Dict, descend d p ks = .ok (d ++ ex, p ++ ks) ∧
      ∀ e ∈ ex, e.2 = .dict ∧ e.1.isPrefixOf (p ++ ks) = true := by
  intro ks
  induction ks with
  | nil => intro d p _ _; exact ⟨[], by simp [descend], by simp⟩
  | cons k ks ih =>
    intro d p hp hnl
    have hobj : objAt d p = some .dict := by
      rcases hp with rfl | hp
      · simp [objAt]
      · unfold objAt
        by_cases hpe : p = []
        · simp [hpe]
        · simp only [hpe, if_false]
          cases hv : d.lookup p with
          | none => simp [hv] at hp
          | some v =>
            cases v with
            | dict => rfl
            | leaf b => exact absurd (by simpa using hv) (hnl 0 (by simp) b)
    have hself : ((ensureDict d (p ++ [k])).lookup (p ++ [k])).isSome = true := ensureDict_self _ _
    have hnl1 : ∀ i, i < ks.length → ∀ b,
        (ensureDict d (p ++ [k])).lookup ((p ++ [k]) ++ ks.take i) ≠ some (.leaf b) := by
      intro i hi b hb
      have hold := hnl (i + 1) (by simp; omega) b
      simp only [List.take_succ_cons] at hold
      rcases ensureDict_eq d (p ++ [k]) with e | e
      · rw [e] at hb; exact hold (by simpa using hb)
      · rw [e] at hb
        rcases lookup_append_cases _ _ _ _ hb with h1 | ⟨_, h2⟩
        · exact hold (by simpa using h1)
        · simp only [List.lookup_cons] at h2
          split at h2 <;> simp at h2
    obtain ⟨ex1, h1, h2⟩ := ih (ensureDict d (p ++ [k])) (p ++ [k]) (Or.inr hself) hnl1
    have hassoc : (p ++ [k]) ++ ks = p ++ k :: ks := by simp
    simp only [descend, hobj]
    rw [hassoc] at h1 h2
    rcases ensureDict_eq d (p ++ [k]) with e | e
    · exact ⟨ex1, by rw [h1, e], h2⟩
    · refine ⟨(p ++ [k], .dict) :: ex1, by rw [h1, e]; simp, ?_⟩
      intro x hx
      simp only [List.mem_cons] at hx
      rcases hx with rfl | hx
      · refine ⟨rfl, ?_⟩
        rw [List.isPrefixOf_iff_prefix]
        exact ⟨ks, by simp⟩
      · exact h2 x hx

end Shroud.Splicer
