import ShroudVerif.Model.Decl
/-! Printer/parser round trip of the declaration model: helper lemmas. -/
namespace Shroud.Decl

theorem Decl.induct {P : Decl → Prop}
    (h : ∀ s dr params fc arr attrs init, (∀ ps, params = some ps → ∀ p ∈ ps, P p) →
      P (.mk s dr params fc arr attrs init)) : ∀ d, P d := by
  intro d
  refine Decl.rec (motive_1 := P) (motive_2 := fun o => ∀ ps, o = some ps → ∀ p ∈ ps, P p)
    (motive_3 := fun l => ∀ p ∈ l, P p) ?_ ?_ ?_ ?_ ?_ d
  · intro s dr params fc arr attrs init ih; exact h _ _ _ _ _ _ _ ih
  · intro ps h; cases h
  · intro l ih ps h; cases h; exact ih
  · intro p h; cases h
  · intro a t iha iht p hp
    cases hp with
    | head => exact iha
    | tail _ h => exact iht p h

/-! ### pointer chains -/

/-- the text after a pointer chain does not continue it -/
def PtrStop : Toks → Prop
  | [] => True
  | t :: _ => t.typ ≠ .TYPE_QUALIFIER ∧ t.typ ≠ .STAR ∧ t.typ ≠ .REF

theorem qualsPtrs_stop {rest : Toks} (h : PtrStop rest) : qualsPtrs rest = (false, false, [], rest) := by
  cases rest with
  | nil => rfl
  | cons t ts =>
    obtain ⟨h1, h2, h3⟩ := h
    simp [qualsPtrs, h1, h2, h3]

theorem qualsPtrs_print (ps : List Ptr) (rest : Toks) (h : PtrStop rest) :
    ∀ c v, qualsPtrs (cvToks c v ++ ptrsToks false ps ++ rest) = (c, v, ps, rest) := by
  induction ps with
  | nil =>
    intro c v
    cases c <;> cases v <;> simp [cvToks, ptrsToks, qualsPtrs, tk, qualsPtrs_stop h]
  | cons p ps ih =>
    intro c v
    have key : qualsPtrs (ptrsToks false (p :: ps) ++ rest) = (false, false, p :: ps, rest) := by
      obtain ⟨k, pc, pv⟩ := p
      have := ih pc pv
      cases k <;>
        simp [ptrsToks, Ptr.toks, qualsPtrs, tk, cvToks, List.append_assoc] at this ⊢ <;>
        simp [this]
    cases c <;> cases v <;> simp [cvToks, qualsPtrs, tk, key]

theorem pointer_print (ps : List Ptr) (rest : Toks) (h : PtrStop rest) :
    pointer (ptrsToks false ps ++ rest) = (ps, rest) := by
  cases ps with
  | nil =>
    cases rest with
    | nil => rfl
    | cons t ts =>
      obtain ⟨_, h2, h3⟩ := h
      simp only [ptrsToks, List.nil_append, pointer, peekTyp]
      split <;> simp_all
  | cons p ps' =>
    have := qualsPtrs_print (p :: ps') rest h false false
    simp only [cvToks, Bool.false_eq_true, if_false, List.nil_append, List.append_nil] at this
    obtain ⟨k, pc, pv⟩ := p
    cases k <;> simp [pointer, peekTyp, ptrsToks, Ptr.toks, tk] at this ⊢ <;> simp [this]

/-! ### declarators -/

def Declarator.depth : Declarator → Nat
  | .leaf _ _ => 0
  | .wrap _ i => i.depth + 1

/-- well-formed declarator: names are plain identifiers that are not symbols of the
    environment; the empty declarator `()` does not occur (it renders to nothing) -/
def WFD (env : Env) : Declarator → Prop
  | .leaf ps (some n) => classify n = .ID ∧ env.unq n = none ∧ True ∧ ps = ps
  | .leaf ps none => ps ≠ []
  | .wrap _ i => WFD env i

/-- the text after an abstract declarator does not continue it -/
def AbsStop : Toks → Prop
  | [] => True
  | t :: _ => t.typ ≠ .TYPE_QUALIFIER ∧ t.typ ≠ .STAR ∧ t.typ ≠ .REF ∧ t.typ ≠ .ID ∧ t.typ ≠ .LPAREN

def Declarator.named : Declarator → Bool
  | .leaf _ (some _) => true
  | .leaf _ none => false
  | .wrap _ _ => true

theorem AbsStop.ptrStop {rest : Toks} (h : AbsStop rest) : PtrStop rest := by
  cases rest with
  | nil => trivial
  | cons t ts => exact ⟨h.1, h.2.1, h.2.2.1⟩

theorem declStarts_WFD (env : Env) (d : Declarator) (hwf : WFD env d) (rest : Toks) :
    declStarts env (d.toks false ++ rest) = true := by
  cases d with
  | leaf ps name =>
    cases ps with
    | cons p ps' =>
      obtain ⟨k, c, v⟩ := p
      cases k <;> simp [Declarator.toks, ptrsToks, Ptr.toks, declStarts, tk]
    | nil =>
      cases name with
      | none => exact absurd rfl hwf
      | some n =>
        obtain ⟨hc, hu, _⟩ := hwf
        simp [Declarator.toks, ptrsToks, declStarts, nameTok, hc, hu]
  | wrap ps i =>
    cases ps with
    | cons p ps' =>
      obtain ⟨k, c, v⟩ := p
      cases k <;> simp [Declarator.toks, ptrsToks, Ptr.toks, declStarts, tk]
    | nil => simp [Declarator.toks, ptrsToks, declStarts, tk]

theorem declarator_print (env : Env) : ∀ (dr : Declarator) (rest : Toks) (n : Nat),
    WFD env dr → (dr.named = false → AbsStop rest) → n > dr.depth →
    declarator env n (dr.toks false ++ rest) = .ok (some dr, rest) := by
  intro dr
  induction dr with
  | leaf ps name =>
    intro rest n wf hstop hn
    obtain ⟨m, rfl⟩ : ∃ m, n = m + 1 := ⟨n - 1, by omega⟩
    cases name with
    | some nm =>
      obtain ⟨hc, _⟩ := wf
      have hp : pointer (ptrsToks false ps ++ (nameTok nm :: rest)) = (ps, nameTok nm :: rest) :=
        pointer_print ps _ (by simp [PtrStop, nameTok, hc])
      simp only [Declarator.toks, List.append_assoc, List.cons_append, List.nil_append]
      unfold declarator
      rw [hp]
      simp [nameTok, hc]
    | none =>
      have hs := hstop rfl
      have hp : pointer (ptrsToks false ps ++ rest) = (ps, rest) := pointer_print ps _ hs.ptrStop
      have hne : ps.isEmpty = false := by
        cases ps with
        | nil => exact absurd rfl wf
        | cons _ _ => rfl
      simp only [Declarator.toks, List.append_assoc, List.cons_append, List.nil_append]
      unfold declarator
      rw [hp]
      cases rest with
      | nil => simp [hne]
      | cons t ts =>
        obtain ⟨_, _, _, h4, h5⟩ := hs
        simp [hne, h4, h5]
  | wrap ps inner ih =>
    intro rest n wf _ hn
    obtain ⟨m, rfl⟩ : ∃ m, n = m + 1 := ⟨n - 1, by omega⟩
    simp only [Declarator.depth] at hn
    have hp : pointer (ptrsToks false ps ++ (tk .LPAREN "(" :: (inner.toks false ++ tk .RPAREN ")" :: rest)))
        = (ps, tk .LPAREN "(" :: (inner.toks false ++ tk .RPAREN ")" :: rest)) :=
      pointer_print ps _ (by simp [PtrStop, tk])
    have hi := ih (tk .RPAREN ")" :: rest) m wf (fun _ => by simp [AbsStop, tk]) (by omega)
    simp only [Declarator.toks, List.append_assoc, List.cons_append, List.nil_append]
    unfold declarator
    rw [hp]
    have e1 : (tk Kind.LPAREN "(").typ = .LPAREN := rfl
    have hst := declStarts_WFD env inner wf (tk .RPAREN ")" :: rest)
    simp only [e1, hst, hi]
    simp [mustbe, tk]

/-! ### declaration specifiers -/

def stopKind : Kind → Bool
  | .STAR | .REF | .LPAREN | .LBRACKET | .PLUS | .COMMA | .RPAREN | .SEMICOLON => true
  | _ => false

/-- the text after the specifiers starts a declarator / array / attribute / ends the
    declaration, and a following identifier is not a symbol of the environment -/
def SpecStop (env : Env) : Toks → Prop
  | [] => True
  | t :: _ => stopKind t.typ = true ∨ (t.typ = .ID ∧ env.unq t.val = none)

theorem specLoop_done (env : Env) (n : Nat) (st : SpecSt) (rest : Toks)
    (hs : st.specifier.isEmpty = false) (h : SpecStop env rest) :
    specLoop env (n + 1) st rest = .ok (st, rest) := by
  unfold specLoop
  cases rest with
  | nil => simp [hs]
  | cons t ts =>
    rcases h with h | ⟨h1, h2⟩
    · have : t.typ ≠ .ID ∧ t.typ ≠ .TYPE_SPECIFIER ∧ t.typ ≠ .TYPE_QUALIFIER ∧ t.typ ≠ .STORAGE_CLASS := by
        cases ht : t.typ <;> simp [ht, stopKind] at h ⊢
      simp [this, hs]
    · simp [h1, h2, hs]

theorem specLoop_specifiers (env : Env) (rest : Toks) : ∀ (xs : List Str) (st : SpecSt) (n : Nat),
    (∀ v ∈ xs, classify v = .TYPE_SPECIFIER) → st.typemap = none →
    specLoop env (n + xs.length) st (xs.map nameTok ++ rest)
      = specLoop env n { st with specifier := st.specifier ++ xs, found := st.found || !xs.isEmpty } rest := by
  intro xs
  induction xs with
  | nil => intro st n _ _; simp
  | cons v xs ih =>
    intro st n h htm
    have hv : classify v = .TYPE_SPECIFIER := h v (by simp)
    have e : n + (v :: xs).length = (n + xs.length) + 1 := by simp; omega
    rw [e]
    simp only [List.map_cons, List.cons_append]
    rw [specLoop]
    have := ih { st with specifier := st.specifier ++ [v], found := true } n (fun w hw => h w (by simp [hw])) htm
    simp [nameTok, hv, htm]
    simpa [nameTok, htm] using this

theorem specLoop_storage (env : Env) (rest : Toks) : ∀ (xs : List Str) (st : SpecSt) (n : Nat),
    (∀ v ∈ xs, classify v = .STORAGE_CLASS) →
    specLoop env (n + xs.length) st (xs.map nameTok ++ rest)
      = specLoop env n { st with storage := st.storage ++ xs } rest := by
  intro xs
  induction xs with
  | nil => intro st n _; simp
  | cons v xs ih =>
    intro st n h
    have hv : classify v = .STORAGE_CLASS := h v (by simp)
    have e : n + (v :: xs).length = (n + xs.length) + 1 := by simp; omega
    rw [e]
    simp only [List.map_cons, List.cons_append]
    rw [specLoop]
    simp only [nameTok, hv]
    have := ih { st with storage := st.storage ++ [v] } n (fun w hw => h w (by simp [hw]))
    simp [nameTok] at this
    simp [this]

theorem specLoop_cv (env : Env) (rest : Toks) (c v : Bool) (st : SpecSt) (n : Nat) :
    specLoop env (n + 2) st (cvToks c v ++ rest)
      = specLoop env (n + (if c then 0 else 1) + (if v then 0 else 1))
          { st with const := st.const || c, volatile := st.volatile || v } rest := by
  cases c <;> cases v <;> simp [cvToks, tk]
  · rw [specLoop]; simp
  · rw [specLoop]; simp
  · rw [specLoop]; simp
    rw [specLoop]; simp

theorem nestedNs_stop (sym : Sym) (nested : List Str) (rest : Toks)
    (h : ∀ t ts, rest = t :: ts → t.typ ≠ .SCOPE) : nestedNs sym nested rest = .ok (sym, nested, rest) := by
  cases rest with
  | nil => unfold nestedNs; rfl
  | cons t ts => unfold nestedNs; simp [h t ts rfl]

theorem SpecStop.notNs {env : Env} {rest : Toks} (h : SpecStop env rest) :
    ∀ t ts, rest = t :: ts → t.typ ≠ .SCOPE ∧ t.typ ≠ .LT := by
  intro t ts e; subst e
  rcases h with h | ⟨h1, _⟩
  · cases ht : t.typ <;> simp [ht, stopKind] at h ⊢
  · simp [h1]

theorem specLoop_typedef (env : Env) (name tm : Str) (st : SpecSt) (rest : Toks) (m : Nat)
    (hc : classify name = .ID) (hf : st.found = false) (hu : env.unq name = some (.type tm))
    (hstop : SpecStop env rest) :
    specLoop env (m + 2) st (nameTok name :: rest)
      = specLoop env (m + 1) { st with specifier := st.specifier ++ [name], typemap := some tm, found := true } rest := by
  rw [specLoop]
  have hn := nestedNs_stop (.type tm) [name] rest (fun t ts e => (hstop.notNs t ts e).1)
  have ht : templateArgs env (m + 1) rest = .ok ([], rest) := by
    unfold templateArgs
    cases rest with
    | nil => simp [have?]
    | cons t ts => simp [have?, (hstop.notNs t ts rfl).2]
  simp [nameTok, hc, hf, hu, hn, ht, joinStr]

/-- well-formed specifier part (token-level domain: no template arguments, no qualified
    names): either built-in type specifier keywords that `get_canonical_typemap` resolves to
    the recorded typemap, or one unqualified name that the environment resolves to a type -/
def WFSpec (env : Env) (s : Spec) : Prop :=
  s.targs = [] ∧ (∀ v ∈ s.storage, classify v = .STORAGE_CLASS) ∧
  ((s.specifier ≠ [] ∧ (∀ v ∈ s.specifier, classify v = .TYPE_SPECIFIER) ∧
      canonical env { specifier := s.specifier, storage := s.storage, const := s.const,
                      volatile := s.volatile } = .ok s)
   ∨ (∃ name, s.specifier = [name] ∧ classify name = .ID ∧ env.unq name = some (.type s.typemap)))

theorem declSpec_print (env : Env) (s : Spec) (rest : Toks) (n : Nat)
    (wf : WFSpec env s) (hstop : SpecStop env rest) (hn : n ≥ s.toks.length + 6) :
    declSpec env n (s.toks ++ rest) = .ok (s, rest) := by
  obtain ⟨sp, sto, c, v, targs, tm⟩ := s
  obtain ⟨ht, hsto, hsp⟩ := wf
  simp only [Spec.targs] at ht
  subst ht
  simp only [Spec.toks, Spec.const, Spec.volatile, Spec.storage, Spec.specifier, Spec.typemap,
    List.length_append, List.length_map] at *
  have hcv : (cvToks c v).length ≤ 2 := by cases c <;> cases v <;> simp [cvToks]
  obtain ⟨k, rfl⟩ : ∃ k, n = k + sp.length + sto.length + 4 := ⟨n - sp.length - sto.length - 4, by omega⟩
  have hspne : sp ≠ [] := by
    rcases hsp with ⟨h, _⟩ | ⟨name, h, _⟩
    · exact h
    · simp [h]
  have hsp0 : ∀ x xs, sp = x :: xs → classify x = .TYPE_SPECIFIER ∨ classify x = .ID := by
    intro x xs e
    rcases hsp with ⟨_, h, _⟩ | ⟨name, h, hc, _⟩
    · exact Or.inl (h x (by simp [e]))
    · rw [e] at h; cases h; exact Or.inr hc
  have hpeek : peekTyp (cvToks c v ++ List.map nameTok sto ++ List.map nameTok sp ++ rest) ≠ some .TILDE := by
    cases c <;> cases v <;> simp [cvToks, peekTyp, tk]
    cases sto with
    | cons a as => simp [peekTyp, nameTok, hsto a (by simp)]
    | nil =>
      cases sp with
      | nil => exact absurd rfl hspne
      | cons x xs =>
        rcases hsp0 x xs rfl with h | h <;> simp [peekTyp, nameTok, h]
  have e0 : k + sp.length + sto.length + 4 = (k + sp.length + sto.length + 3) + 1 := by omega
  rw [e0, declSpec]
  split
  · rename_i h; exact absurd h hpeek
  clear hpeek
  have e1 : k + sp.length + sto.length + 3 = (k + sp.length + sto.length + 1) + 2 := by omega
  simp only [List.append_assoc]
  rw [e1, specLoop_cv]
  generalize (if c = true then 0 else 1) = a
  generalize (if v = true then 0 else 1) = b
  have e2 : k + sp.length + sto.length + 1 + a + b = (k + sp.length + 1 + a + b) + sto.length := by omega
  rw [e2, specLoop_storage env _ sto _ _ hsto]
  rcases hsp with ⟨_, hall, hcan⟩ | ⟨name, hname, hc, hu⟩
  · have e3 : k + sp.length + 1 + a + b = (k + 1 + a + b) + sp.length := by omega
    rw [e3, specLoop_specifiers env _ sp _ _ hall rfl]
    have e4 : k + 1 + a + b = (k + a + b) + 1 := by omega
    rw [e4, specLoop_done env _ _ rest (by cases sp <;> simp_all) hstop]
    have hcan' : ∀ (b : Bool), canonical env ({ specifier := sp, storage := sto, const := c, volatile := v, found := b } : SpecSt)
        = .ok (.mk sp sto c v [] tm) := by
      intro b; simpa [canonical] using hcan
    simp
    simp [hcan']
  · subst hname
    have e3 : k + [name].length + 1 + a + b = (k + a + b) + 2 := by simp; omega
    simp only [List.map_cons, List.map_nil, List.cons_append, List.nil_append]
    rw [e3, specLoop_typedef env name tm _ rest _ hc rfl hu hstop]
    rw [specLoop_done env _ _ rest (by simp) hstop]
    simp [canonical]

/-! ### array dimensions (simple: a constant or a plain identifier) -/

def SimpleDim : Expr → Prop
  | .const _ => True
  | .ident n => classify n = .ID
  | _ => False

theorem expr_simple (e : Expr) (h : SimpleDim e) (m : Nat) (rest : Toks) :
    expression (m + 3) 0 (e.toks ++ tk .RBRACKET "]" :: rest) = .ok (e, tk .RBRACKET "]" :: rest) := by
  cases e with
  | const v =>
    by_cases hr : isRealText v = true <;>
      simp [Expr.toks, expression, primary, exprLoop, tkv, tk, hr, opPrec]
  | ident n =>
    simp only [SimpleDim] at h
    simp [Expr.toks, expression, primary, exprLoop, nameTok, tk, h, opPrec, peekTyp]
  | call _ _ => exact absurd h (by simp [SimpleDim])
  | paren _ => exact absurd h (by simp [SimpleDim])
  | unary _ _ => exact absurd h (by simp [SimpleDim])
  | binary _ _ _ => exact absurd h (by simp [SimpleDim])

def NotKind (k : Kind) : Toks → Prop
  | [] => True
  | t :: _ => t.typ ≠ k

theorem arrays_print : ∀ (arr : List Expr) (rest : Toks) (n : Nat),
    (∀ e ∈ arr, SimpleDim e) → NotKind .LBRACKET rest → n ≥ arr.length + 4 →
    arrays n (arraysToks arr ++ rest) = .ok (arr, rest) := by
  intro arr
  induction arr with
  | nil =>
    intro rest n _ hr hn
    obtain ⟨m, rfl⟩ : ∃ m, n = m + 1 := ⟨n - 1, by omega⟩
    cases rest with
    | nil => simp [arrays, arraysToks, have?]
    | cons t ts => simp only [NotKind] at hr; simp [arrays, arraysToks, have?, hr]
  | cons e es ih =>
    intro rest n hs hr hn
    obtain ⟨m, rfl⟩ : ∃ m, n = m + 4 := ⟨n - 4, by simp at hn; omega⟩
    have he := expr_simple e (hs e (by simp)) m (arraysToks es ++ rest)
    have hi := ih rest (m + 3) (fun x hx => hs x (by simp [hx])) hr (by simp at hn ⊢; omega)
    simp only [arraysToks, List.append_assoc, List.cons_append, List.nil_append]
    rw [arrays]
    simp only [have?, tk, if_true]
    simp only [tk] at he
    simp only [he, Res.bind_ok, mustbe, if_true, hi]

/-! ### attributes -/

/-- balanced attribute text: scanning with the counter at `p`, the counter never reaches 0
    inside the text and is back at 1 at its end (so the next `)` closes the attribute) -/
def Bal : Nat → Toks → Prop
  | p, [] => p = 1
  | p, t :: ts =>
    if t.typ = .LPAREN then Bal (p + 1) ts
    else if t.typ = .RPAREN then 2 ≤ p ∧ Bal (p - 1) ts
    else Bal p ts

theorem attrScan_print (name : Str) : ∀ (parts : Toks) (p : Nat) (rest : Toks), Bal p parts →
    attrScan name p (parts ++ tk .RPAREN ")" :: rest) = .ok (parts, rest) := by
  intro parts
  induction parts with
  | nil =>
    intro p rest h
    simp only [Bal] at h
    subst h
    simp [attrScan, tk]
  | cons t ts ih =>
    intro p rest h
    simp only [Bal] at h
    simp only [List.cons_append]
    rw [attrScan]
    by_cases h1 : t.typ = .LPAREN
    · simp only [h1, if_true] at h ⊢
      simp [ih _ rest h]
    · by_cases h2 : t.typ = .RPAREN
      · have h' : 2 ≤ p ∧ Bal (p - 1) ts := by simpa [h1, h2] using h
        have : ¬ p ≤ 1 := by omega
        simp [h2, this, ih _ rest h'.2]
      · simp only [h1, h2, if_false] at h ⊢
        simp [ih _ rest h]

def WFAttr : Str × AttrVal → Prop
  | (k, .flag) => classify k = .ID ∧ k.head? ≠ some '_' ∧ k ≠ sp "template"
  | (k, .text parts) => classify k = .ID ∧ k.head? ≠ some '_' ∧ k ≠ sp "template" ∧ Bal 1 parts
  | (_, .init _) => False

/-- names in rendering order: distinct and never out of order (what `sorted()` yields) -/
def AttrsOrdered (attrs : List (Str × AttrVal)) : Prop :=
  attrs.Pairwise (fun a b => a.1 ≠ b.1 ∧ strLt b.1 a.1 = false)

theorem attrSet_append (k : Str) (v : AttrVal) : ∀ (acc : List (Str × AttrVal)),
    (∀ a ∈ acc, a.1 ≠ k ∧ strLt k a.1 = false) → attrSet k v acc = acc ++ [(k, v)] := by
  intro acc
  induction acc with
  | nil => intro _; rfl
  | cons a t ih =>
    intro h
    obtain ⟨a1, a2⟩ := a
    have ha := h (a1, a2) (by simp)
    simp only [attrSet, ha.1, ha.2, if_false, List.cons_append]
    rw [ih (fun x hx => h x (by simp [hx]))]
    simp

/-- the text after the attributes does not continue them -/
def AttrStop : Toks → Prop
  | [] => True
  | t :: _ => t.typ ≠ .PLUS ∧ t.typ ≠ .LPAREN ∧ t.typ ≠ .EQUALS

def NoParenEq : Toks → Prop
  | [] => True
  | t :: _ => t.typ ≠ .LPAREN ∧ t.typ ≠ .EQUALS

theorem attrsToks_head (as : List (Str × AttrVal)) (rest : Toks)
    (hwf : ∀ a ∈ as, WFAttr a) (hr : AttrStop rest) : NoParenEq (attrsToks as ++ rest) := by
  cases as with
  | nil =>
    cases rest with
    | nil => trivial
    | cons t ts => exact ⟨hr.2.1, hr.2.2⟩
  | cons a as' =>
    obtain ⟨k, v⟩ := a
    have hk := hwf (k, v) (by simp)
    cases v with
    | init _ => exact absurd hk (by simp [WFAttr])
    | flag => obtain ⟨_, h1, h2⟩ := hk; simp [attrsToks, h1, h2, NoParenEq, tk]
    | text parts => obtain ⟨_, h1, h2, _⟩ := hk; simp [attrsToks, h1, h2, NoParenEq, tk]

theorem attribute_print : ∀ (attrs acc : List (Str × AttrVal)) (rest : Toks) (n : Nat),
    (∀ a ∈ attrs, WFAttr a) → AttrsOrdered (acc ++ attrs) → AttrStop rest → n ≥ attrs.length + 1 →
    attributeP n acc (attrsToks attrs ++ rest) = .ok (acc ++ attrs, rest) := by
  intro attrs
  induction attrs with
  | nil =>
    intro acc rest n _ _ hr hn
    obtain ⟨m, rfl⟩ : ∃ m, n = m + 1 := ⟨n - 1, by omega⟩
    cases rest with
    | nil => simp [attributeP, attrsToks, have?]
    | cons t ts => simp only [AttrStop] at hr; simp [attributeP, attrsToks, have?, hr.1]
  | cons a as ih =>
    intro acc rest n hwf hord hr hn
    obtain ⟨m, rfl⟩ : ∃ m, n = m + 1 := ⟨n - 1, by omega⟩
    obtain ⟨k, v⟩ := a
    have hk := hwf (k, v) (by simp)
    have hset : attrSet k v acc = acc ++ [(k, v)] := by
      apply attrSet_append
      intro x hx
      have := List.pairwise_append.mp hord
      have h3 := this.2.2 x hx (k, v) (by simp)
      exact h3
    have hi := ih (acc ++ [(k, v)]) rest m (fun x hx => hwf x (by simp [hx]))
      (by simpa [List.append_assoc] using hord) hr (by simp at hn; omega)
    have hnext := attrsToks_head as rest (fun x hx => hwf x (by simp [hx])) hr
    cases v with
    | init _ => exact absurd hk (by simp [WFAttr])
    | flag =>
      obtain ⟨hc, h1, h2⟩ := hk
      simp only [attrsToks, h1, h2, or_self, if_false, AttrVal.toks, List.append_assoc, List.cons_append,
        List.nil_append]
      rw [attributeP]
      simp only [have?, tk, if_true, mustbe, nameTok, hc, Res.bind_ok]
      generalize hts : attrsToks as ++ rest = ts at hnext hi
      cases ts with
      | nil => simp [have?, h1, hset, hi]
      | cons t ts' =>
        obtain ⟨n1, n2⟩ := hnext
        simp [have?, h1, n1, n2, hset, hi]
    | text parts =>
      obtain ⟨hc, h1, h2, hb⟩ := hk
      simp only [attrsToks, h1, h2, or_self, if_false, AttrVal.toks, List.append_assoc, List.cons_append,
        List.nil_append]
      rw [attributeP]
      have hsc := attrScan_print k parts 1 (attrsToks as ++ rest) hb
      simp only [tk] at hsc
      simp only [have?, tk, if_true, mustbe, nameTok, hc, Res.bind_ok, h1, if_false, hsc, hset, hi]
      simp

/-! ### declarations -/

def K4 : Kind → Bool
  | .LBRACKET | .PLUS | .COMMA | .RPAREN => true
  | _ => false

def Hd (P : Kind → Bool) : Toks → Prop
  | [] => True
  | t :: _ => P t.typ = true

/-- what may follow a declaration: the end, `,` or `)` -/
def DeclFollow : Toks → Prop
  | [] => True
  | t :: _ => t.typ = .COMMA ∨ t.typ = .RPAREN

theorem Hd_attrs (attrs : List (Str × AttrVal)) (rest : Toks) (hwf : ∀ a ∈ attrs, WFAttr a)
    (hr : DeclFollow rest) : Hd (fun k => k = .PLUS ∨ k = .COMMA ∨ k = .RPAREN) (attrsToks attrs ++ rest) := by
  cases attrs with
  | nil =>
    cases rest with
    | nil => trivial
    | cons t ts => rcases hr with h | h <;> simp [attrsToks, Hd, h]
  | cons a as' =>
    obtain ⟨k, v⟩ := a
    have hk := hwf (k, v) (by simp)
    cases v with
    | init _ => exact absurd hk (by simp [WFAttr])
    | flag => obtain ⟨_, h1, h2⟩ := hk; simp [attrsToks, h1, h2, Hd, tk]
    | text parts => obtain ⟨_, h1, h2, _⟩ := hk; simp [attrsToks, h1, h2, Hd, tk]

theorem Hd_tail (arr : List Expr) (attrs : List (Str × AttrVal)) (rest : Toks)
    (hwf : ∀ a ∈ attrs, WFAttr a) (hr : DeclFollow rest) :
    Hd K4 (arraysToks arr ++ (attrsToks attrs ++ rest)) := by
  cases arr with
  | cons e es => simp [arraysToks, Hd, tk, K4]
  | nil =>
    have := Hd_attrs attrs rest hwf hr
    simp only [arraysToks, List.nil_append]
    generalize attrsToks attrs ++ rest = ts at this
    cases ts with
    | nil => trivial
    | cons t ts' =>
      simp only [Hd] at this ⊢
      rcases (by simpa using this : t.typ = .PLUS ∨ t.typ = .COMMA ∨ t.typ = .RPAREN) with h | h | h <;> simp [h, K4]

theorem Hd_K4_cases {ts : Toks} (h : Hd K4 ts) :
    SpecStop env ts ∧ AbsStop ts ∧ peekTyp ts ≠ some .LPAREN ∧ NotKind .TYPE_QUALIFIER ts := by
  cases ts with
  | nil => simp [SpecStop, AbsStop, peekTyp, NotKind]
  | cons t ts' =>
    simp only [Hd] at h
    cases ht : t.typ <;> simp [ht, K4] at h <;> simp [SpecStop, AbsStop, peekTyp, NotKind, ht, stopKind]

theorem Declarator.depth_le (d : Declarator) : d.depth ≤ (d.toks false).length := by
  induction d with
  | leaf _ _ => simp [Declarator.depth]
  | wrap ps i ih => simp [Declarator.depth, Declarator.toks]; omega

theorem arraysToks_len (arr : List Expr) : arr.length ≤ (arraysToks arr).length := by
  induction arr with
  | nil => simp
  | cons e es ih => simp [arraysToks]; omega

theorem attrsToks_len (attrs : List (Str × AttrVal)) (hwf : ∀ a ∈ attrs, WFAttr a) :
    attrs.length ≤ (attrsToks attrs).length := by
  induction attrs with
  | nil => simp
  | cons a as ih =>
    obtain ⟨k, v⟩ := a
    have hk := hwf (k, v) (by simp)
    have := ih (fun x hx => hwf x (by simp [hx]))
    cases v with
    | init _ => exact absurd hk (by simp [WFAttr])
    | flag => obtain ⟨_, h1, h2⟩ := hk; simp [attrsToks, h1, h2]; omega
    | text parts => obtain ⟨_, h1, h2, _⟩ := hk; simp [attrsToks, h1, h2]; omega

/-- head of a rendered declarator: `*`, `&`, `(`, or a name that is not a symbol -/
theorem Declarator.toks_head (env : Env) (d : Declarator) (hwf : WFD env d) (rest : Toks) :
    SpecStop env (d.toks false ++ rest) := by
  cases d with
  | leaf ps name =>
    cases ps with
    | cons p ps' =>
      obtain ⟨k, c, v⟩ := p
      cases k <;> simp [Declarator.toks, ptrsToks, Ptr.toks, SpecStop, tk, stopKind]
    | nil =>
      cases name with
      | none => exact absurd rfl hwf
      | some n =>
        obtain ⟨hc, hu, _⟩ := hwf
        simp [Declarator.toks, ptrsToks, SpecStop, nameTok, hc, hu]
  | wrap ps i =>
    cases ps with
    | cons p ps' =>
      obtain ⟨k, c, v⟩ := p
      cases k <;> simp [Declarator.toks, ptrsToks, Ptr.toks, SpecStop, tk, stopKind]
    | nil => simp [Declarator.toks, ptrsToks, SpecStop, tk, stopKind]

/-- tokens between the parentheses of a parameter list -/
def paramsInner : List Decl → Toks
  | [] => [tk .TYPE_SPECIFIER "void"]
  | p :: ps => p.toks ++ paramsTailToks ps

theorem Decl.toks_eq (s : Spec) (dr : Option Declarator) (params : Option (List Decl)) (fc : Bool)
    (arr : List Expr) (attrs : List (Str × AttrVal)) (init : Option Init) :
    (Decl.mk s dr params fc arr attrs init).toks
      = s.toks ++ ((match dr with | some d => d.toks false | none => [])
        ++ ((match params with
            | none => []
            | some ps => tk .LPAREN "(" :: (paramsInner ps ++ tk .RPAREN ")" :: fcToks fc))
          ++ (arraysToks arr ++ attrsToks attrs))) := by
  cases dr <;> cases params with
  | none => simp [Decl.toks]
  | some ps => cases ps <;> simp [Decl.toks, paramsInner]

theorem declarator_abs_none (env : Env) (m : Nat) (ts : Toks) (h : Hd K4 ts) : declarator env (m + 1) ts = .ok (none, ts) := by
  have hp : pointer ts = ([], ts) := by
    have := pointer_print [] ts (Hd_K4_cases (env := default) h).2.1.ptrStop
    simpa [ptrsToks] using this
  unfold declarator
  rw [hp]
  cases ts with
  | nil => simp
  | cons t ts' =>
    obtain ⟨_, h2, _, _⟩ := Hd_K4_cases (env := default) h
    obtain ⟨_, _, _, h4, h5⟩ := h2
    simp [h4, h5]

theorem declaration_step (env : Env) (s : Spec) (dr : Option Declarator) (params : Option (List Decl))
    (fc : Bool) (arr : List Expr) (attrs : List (Str × AttrVal)) (rest : Toks) (m : Nat)
    (hs : WFSpec env s) (hd : ∀ d, dr = some d → WFD env d)
    (harr : ∀ e ∈ arr, SimpleDim e) (hattr : ∀ a ∈ attrs, WFAttr a) (hord : AttrsOrdered attrs)
    (hpar : match params with | none => fc = false | some _ => ∃ d, dr = some d ∧ d.named = true)
    (hrest : DeclFollow rest)
    (hm : m ≥ (Decl.mk s dr params fc arr attrs none).toks.length + 8)
    (HP : ∀ ps, params = some ps → ∃ ps', isDecoratedVoid ps' = false ∧ (if isVoidOnly ps' then [] else ps') = ps ∧
            ∀ X, paramList env m [] (paramsInner ps ++ tk .RPAREN ")" :: X) = .ok (ps', X)) :
    declaration env (m + 1) ((Decl.mk s dr params fc arr attrs none).toks ++ rest)
      = .ok (.mk s dr params fc arr attrs none, rest) := by
  rw [Decl.toks_eq] at hm ⊢
  simp only [List.append_assoc, List.length_append] at hm ⊢
  have hT4 := Hd_tail arr attrs rest hattr hrest
  have hA := Hd_attrs attrs rest hattr hrest
  have hlen1 := arraysToks_len arr
  have hlen2 := attrsToks_len attrs hattr
  -- arrays / attributes / default value
  have h4 : arrays m (arraysToks arr ++ (attrsToks attrs ++ rest)) = .ok (arr, attrsToks attrs ++ rest) := by
    apply arrays_print arr _ m harr
    · generalize attrsToks attrs ++ rest = ts at hA
      cases ts with
      | nil => trivial
      | cons t ts' =>
        simp only [Hd] at hA
        rcases (by simpa using hA : t.typ = .PLUS ∨ t.typ = .COMMA ∨ t.typ = .RPAREN) with h | h | h <;>
          simp [NotKind, h]
    · omega
  have h5 : attributeP m [] (attrsToks attrs ++ rest) = .ok (attrs, rest) := by
    have := attribute_print attrs [] rest m hattr (by simpa using hord)
      (by cases rest with
          | nil => trivial
          | cons t ts => rcases hrest with h | h <;> simp [AttrStop, h]) (by omega)
    simpa using this
  have h6 : have? .EQUALS rest = (false, rest) := by
    cases rest with
    | nil => rfl
    | cons t ts => rcases hrest with h | h <;> simp [have?, h]
  rw [declaration]
  cases params with
  | none =>
    simp only at hpar
    subst hpar
    simp only [List.nil_append]
    obtain ⟨k1, k2, k3, k4⟩ := Hd_K4_cases (env := env) hT4
    cases dr with
    | none =>
      simp only [List.nil_append, List.length_nil, Nat.zero_add] at hm ⊢
      obtain ⟨m', rfl⟩ : ∃ m', m = m' + 1 := ⟨m - 1, by omega⟩
      rw [declSpec_print env s _ _ hs k1 (by omega), Res.bind_ok]
      simp only []
      rw [declarator_abs_none env m' _ hT4, Res.bind_ok]
      simp only []
      simp only [Res.bind_ok, h4, h5, h6]
    | some d =>
      have hwd := hd d rfl
      have hdl := d.depth_le
      simp only at hm ⊢
      obtain ⟨m', rfl⟩ : ∃ m', m = m' + 1 := ⟨m - 1, by omega⟩
      rw [declSpec_print env s _ _ hs (d.toks_head env hwd _) (by omega), Res.bind_ok]
      simp only []
      rw [declarator_print env d _ _ hwd (fun _ => k2) (by omega), Res.bind_ok]
      simp only []
      simp only [Res.bind_ok, h4, h5, h6]
  | some ps =>
    obtain ⟨d, rfl, hnamed⟩ := hpar
    obtain ⟨ps', hdv, hps', hpl⟩ := HP ps rfl
    have hwd := hd d rfl
    have hdl := d.depth_le
    simp only [List.length_cons, List.length_append] at hm ⊢
    obtain ⟨m', rfl⟩ : ∃ m', m = m' + 1 := ⟨m - 1, by omega⟩
    rw [declSpec_print env s _ _ hs (d.toks_head env hwd _) (by omega), Res.bind_ok]
    simp only []
    rw [declarator_print env d _ _ hwd (fun h => by simp [hnamed] at h) (by omega), Res.bind_ok]
    simp only [peekTyp, tk, List.cons_append, List.append_assoc, List.drop_succ_cons, List.drop_zero]
    have hpl' := hpl (fcToks fc ++ (arraysToks arr ++ (attrsToks attrs ++ rest)))
    simp only [tk] at hpl'
    rw [hpl', Res.bind_ok]
    simp only [hdv, Bool.false_eq_true, if_false, hps']
    obtain ⟨k1, k2, k3, k4⟩ := Hd_K4_cases (env := env) hT4
    cases fc with
    | true =>
      simp only [fcToks, if_true, tk, List.cons_append, List.nil_append]
      simp only [Res.bind_ok, h4, h5, h6]
    | false =>
      simp only [fcToks, Bool.false_eq_true, if_false, List.nil_append]
      generalize hT : arraysToks arr ++ (attrsToks attrs ++ rest) = T4 at k4 h4 ⊢
      cases T4 with
      | nil => simp only [Res.bind_ok, h4, h5, h6]
      | cons t ts =>
        simp only [NotKind] at k4
        simp only [k4, if_false, Res.bind_ok, h4, h5, h6]

/-- parameter names (as `get_name(use_attr=False)` sees them) are pairwise different and not in `names` -/
def DistinctFrom : List Str → List Decl → Prop
  | _, [] => True
  | names, p :: ps =>
    match p.shallowName with
    | some nm => names.contains nm = false ∧ DistinctFrom (nm :: names) ps
    | none => DistinctFrom names ps

mutual
/-- well-formed declaration (the domain of the round-trip theorem): no default value,
    simple array dimensions, rendered attributes, a named declarator when there are
    parameters, and a parameter list that is not the single `void` -/
def WF (env : Env) : Decl → Prop
  | .mk s dr params fc arr attrs init =>
    WFSpec env s ∧ (∀ d, dr = some d → WFD env d) ∧ (∀ e ∈ arr, SimpleDim e) ∧
    (∀ a ∈ attrs, WFAttr a) ∧ AttrsOrdered attrs ∧ init = none ∧ WFo env dr fc params
def WFo (env : Env) (dr : Option Declarator) (fc : Bool) : Option (List Decl) → Prop
  | none => fc = false
  | some ps => (∃ d, dr = some d ∧ d.named = true) ∧ isVoidOnly ps = false ∧ WFs env ps ∧ DistinctFrom [] ps
def WFs (env : Env) : List Decl → Prop
  | [] => True
  | p :: ps => WF env p ∧ WFs env ps
end

theorem WFs_mem {env : Env} : ∀ {ps : List Decl}, WFs env ps → ∀ p ∈ ps, WF env p := by
  intro ps
  induction ps with
  | nil => intro _ p hp; cases hp
  | cons a t ih =>
    intro h p hp
    simp only [WFs] at h
    cases hp with
    | head => exact h.1
    | tail _ h' => exact ih h.2 p h'

theorem specToks_head (env : Env) (s : Spec) (wf : WFSpec env s) :
    ∃ t ts, s.toks = t :: ts ∧ (t.typ = .TYPE_QUALIFIER ∨ t.typ = .STORAGE_CLASS ∨ t.typ = .TYPE_SPECIFIER ∨ t.typ = .ID) := by
  obtain ⟨sp, sto, c, v, targs, tm⟩ := s
  obtain ⟨_, hsto, hsp⟩ := wf
  simp only [Spec.toks, Spec.const, Spec.volatile, Spec.storage, Spec.specifier] at *
  cases c
  · cases v
    · cases sto with
      | cons a as => exact ⟨nameTok a, _, rfl, by simp [nameTok, hsto a (by simp)]⟩
      | nil =>
        cases sp with
        | nil =>
          rcases hsp with ⟨h, _⟩ | ⟨name, h, _⟩
          · exact absurd rfl h
          · cases h
        | cons x xs =>
          refine ⟨nameTok x, _, rfl, ?_⟩
          rcases hsp with ⟨_, h, _⟩ | ⟨name, h, hc, _⟩
          · simp [nameTok, h x (by simp)]
          · cases h; simp [nameTok, hc]
    · exact ⟨_, _, rfl, by simp [tk]⟩
  · exact ⟨_, _, rfl, by simp [tk]⟩

theorem declToks_head (env : Env) (d : Decl) (wf : WF env d) :
    ∃ t ts, d.toks = t :: ts ∧ t.typ ≠ .RPAREN ∧ t.typ ≠ .VARARG := by
  obtain ⟨s, dr, params, fc, arr, attrs, init⟩ := d
  simp only [WF] at wf
  obtain ⟨t, ts, e, h⟩ := specToks_head env s wf.1
  rw [Decl.toks_eq, e]
  exact ⟨t, _, rfl, by rcases h with h | h | h | h <;> simp [h]⟩

theorem declToks_head' (env : Env) (d : Decl) (wf : WF env d) :
    ∃ t ts, d.toks = t :: ts ∧ (t.typ = .TYPE_QUALIFIER ∨ t.typ = .STORAGE_CLASS ∨ t.typ = .TYPE_SPECIFIER ∨ t.typ = .ID) := by
  obtain ⟨s, dr, params, fc, arr, attrs, init⟩ := d
  simp only [WF] at wf
  obtain ⟨t, ts, e, h⟩ := specToks_head env s wf.1
  rw [Decl.toks_eq, e]
  exact ⟨t, _, rfl, h⟩

/-- the environment resolves `void` (needed to re-read the rendering `(void)`) -/
def EnvVoid (env : Env) : Prop :=
  ∃ tm, canonical env { specifier := [sp "void"] } = .ok (.mk [sp "void"] [] false false [] tm)

def RT (env : Env) (d : Decl) : Prop :=
  ∀ (rest : Toks) (m : Nat), DeclFollow rest → m ≥ d.toks.length + 8 →
    declaration env (m + 1) (d.toks ++ rest) = .ok (d, rest)

theorem paramList_print (env : Env) : ∀ (ps : List Decl) (p : Decl) (m : Nat) (X : Toks) (names : List Str),
    (∀ q ∈ p :: ps, WF env q ∧ RT env q) → DistinctFrom names (p :: ps) →
    m ≥ (p.toks ++ paramsTailToks ps).length + 10 →
    paramList env m names (p.toks ++ paramsTailToks ps ++ tk .RPAREN ")" :: X) = .ok (p :: ps, X) := by
  intro ps
  induction ps with
  | nil =>
    intro p m X names h hdist hm
    obtain ⟨hwf, hrt⟩ := h p (by simp)
    obtain ⟨t, ts, e, h1, _⟩ := declToks_head env p hwf
    simp only [paramsTailToks, List.append_nil, List.length_append] at hm ⊢
    obtain ⟨m', rfl⟩ : ∃ m', m = m' + 2 := ⟨m - 2, by omega⟩
    have hd := hrt (tk .RPAREN ")" :: X) m' (by simp [DeclFollow, tk]) (by omega)
    rw [paramList]
    rw [e] at hd ⊢
    simp only [List.cons_append, peekTyp]
    split
    · rename_i hh; simp at hh; exact absurd hh h1
    · simp [tk] at hd
      simp only [DistinctFrom] at hdist
      cases hsn : p.shallowName with
      | none => simp [hd, hsn, have?, mustbe, tk]
      | some nm =>
        rw [hsn] at hdist
        simp only [] at hdist
        have hnot : nm ∉ names := by simpa using hdist.1
        simp [hd, hsn, hnot, have?, mustbe, tk]
  | cons q qs ih =>
    intro p m X names h hdist hm
    obtain ⟨hwf, hrt⟩ := h p (by simp)
    obtain ⟨hwfq, _⟩ := h q (by simp)
    obtain ⟨t, ts, e, h1, _⟩ := declToks_head env p hwf
    obtain ⟨t2, ts2, e2, h2r, h2⟩ := declToks_head env q hwfq
    simp only [paramsTailToks, List.length_append, List.length_cons, List.append_assoc, List.cons_append,
      List.nil_append] at hm ⊢
    obtain ⟨m', rfl⟩ : ∃ m', m = m' + 2 := ⟨m - 2, by omega⟩
    have hd := hrt (tk .COMMA "," :: (q.toks ++ (paramsTailToks qs ++ tk .RPAREN ")" :: X))) m'
      (by simp [DeclFollow, tk]) (by omega)
    have hi := fun names' hdq => ih q (m' + 1) X names' (fun x hx => h x (by simp at hx ⊢; exact Or.inr hx)) hdq
      (by simp only [List.length_append]; omega)
    simp only [List.append_assoc] at hi
    rw [DistinctFrom] at hdist
    rw [paramList]
    rw [e] at hd ⊢
    simp only [List.cons_append, peekTyp]
    split
    · rename_i hh; simp at hh; exact absurd hh h1
    · rw [e2] at hd hi ⊢
      simp [tk] at hd hi
      cases hsn : p.shallowName with
      | none =>
        rw [hsn] at hdist
        simp only [] at hdist
        have hi' := hi names hdist
        simp [hd, hsn, have?, tk, h2, peekTyp]
        split
        · rename_i hh; exact absurd (by simpa using hh) h2r
        · simp [hi']
      | some nm =>
        rw [hsn] at hdist
        simp only [] at hdist
        have hnot : nm ∉ names := by simpa using hdist.1
        have hi' := hi (nm :: names) hdist.2
        simp [hd, hsn, hnot, have?, tk, h2, peekTyp]
        split
        · rename_i hh; exact absurd (by simpa using hh) h2r
        · simp [hi']

theorem decorated_imp_voidOnly (ps : List Decl) (h : isVoidOnly ps = false) : isDecoratedVoid ps = false := by
  cases ps with
  | nil => rfl
  | cons p t =>
    cases t with
    | cons _ _ => obtain ⟨_, dr, _, _, _, _, _⟩ := p; cases dr <;> rfl
    | nil =>
      obtain ⟨sp', dr, _, _, _, _, _⟩ := p
      cases dr with
      | some _ => rfl
      | none =>
        simp only [isVoidOnly] at h
        simp only [isDecoratedVoid, h, Bool.false_and]

theorem roundtrip_all (env : Env) (hv : EnvVoid env) : ∀ d, WF env d → RT env d := by
  intro d
  induction d using Decl.induct with
  | _ s dr params fc arr attrs init ih =>
    intro wf rest m hrest hm
    simp only [WF] at wf
    obtain ⟨hs, hd, harr, hattr, hord, hinit, hpar⟩ := wf
    subst hinit
    apply declaration_step env s dr params fc arr attrs rest m hs hd harr hattr hord ?_ hrest hm ?_
    · cases params with
      | none => simpa [WFo] using hpar
      | some ps => simp only [WFo] at hpar; exact hpar.1
    · intro ps hps
      subst hps
      simp only [WFo] at hpar
      obtain ⟨_, hvo, hwfs, hdist⟩ := hpar
      cases ps with
      | nil =>
        obtain ⟨tm, htm⟩ := hv
        refine ⟨[.mk (.mk [sp "void"] [] false false [] tm) none none false [] [] none],
          by simp [isDecoratedVoid, Spec.specifier, Spec.const, Spec.volatile, Spec.storage],
          by simp [isVoidOnly, Spec.specifier, sp], ?_⟩
        intro X
        have hm' : m ≥ 11 := by
          rw [Decl.toks_eq] at hm
          simp only [List.length_append, List.length_cons, paramsInner] at hm
          omega
        obtain ⟨m', rfl⟩ : ∃ m', m = m' + 2 := ⟨m - 2, by omega⟩
        have hwfs : WFSpec env (.mk [sp "void"] [] false false [] tm) := by
          refine ⟨rfl, by simp [Spec.storage], Or.inl ⟨by simp [Spec.specifier], ?_, ?_⟩⟩
          · intro v hv'
            simp only [Spec.specifier, List.mem_singleton] at hv'
            subst hv'; decide
          · simpa [Spec.specifier, Spec.storage, Spec.const, Spec.volatile] using htm
        have hstep := declaration_step env (.mk [sp "void"] [] false false [] tm) none none false [] []
          (tk .RPAREN ")" :: X) m' hwfs (by intro d h; cases h) (by intro e h; cases h) (by intro a h; cases h)
          (by simp [AttrsOrdered]) (by simp) (by simp [DeclFollow, tk])
          (by rw [Decl.toks_eq]; simp [Spec.toks, cvToks, Spec.const, Spec.volatile, Spec.storage, Spec.specifier, arraysToks, attrsToks]; omega)
          (by intro ps h; cases h)
        have htoks : (Decl.mk (.mk [sp "void"] [] false false [] tm) none none false [] [] none).toks
            = [tk .TYPE_SPECIFIER "void"] := by
          rw [Decl.toks_eq]
          simp [Spec.toks, cvToks, Spec.const, Spec.volatile, Spec.storage, Spec.specifier, arraysToks, attrsToks, nameTok, tk, sp]
          decide
        rw [htoks] at hstep
        simp [tk] at hstep
        rw [paramList]
        simp [paramsInner, peekTyp, tk, hstep, have?, mustbe, Decl.shallowName]
      | cons p ps' =>
        refine ⟨p :: ps', decorated_imp_voidOnly _ hvo, by simp [hvo], ?_⟩
        intro X
        simp only [paramsInner]
        apply paramList_print env ps' p m X []
        · intro q hq
          exact ⟨WFs_mem hwfs q hq, ih (p :: ps') rfl q hq (WFs_mem hwfs q hq)⟩
        · exact hdist
        · rw [Decl.toks_eq] at hm
          simp only [List.length_append, List.length_cons, paramsInner] at hm ⊢
          omega

end Shroud.Decl
