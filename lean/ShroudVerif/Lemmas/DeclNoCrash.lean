import ShroudVerif.Model.Decl
/-! No-crash invariant of the declaration parser model: helper lemmas. -/
namespace Shroud.Decl

/-- the result is not an internal Python exception -/
def NC {α} (r : Res α) : Prop := ∀ e, r ≠ .crash e

@[simp] theorem NC_ok {α} (a : α) : NC (Res.ok a) := by intro e h; cases h
@[simp] theorem NC_reject {α} (m : String) : NC (Res.reject m : Res α) := by intro e h; cases h
@[simp] theorem NC_fuel {α} : NC (Res.fuel : Res α) := by intro e h; cases h
@[simp] theorem NC_unmodelled {α} (m : String) : NC (Res.unmodelled m : Res α) := by intro e h; cases h

theorem NC_bind {α β} {m : Res α} {f : α → Res β} (hm : NC m) (hf : ∀ a, NC (f a)) : NC (m >>= f) := by
  cases m with
  | ok a => simpa using hf a
  | reject m => simp
  | crash e => exact absurd rfl (hm e)
  | fuel => simp
  | unmodelled w => simp

theorem NC_mustbe (k : Kind) (ts : Toks) : NC (mustbe k ts) := by
  unfold mustbe; split
  · split <;> simp
  · simp

attribute [irreducible] NC

macro "nc_step" : tactic =>
  `(tactic| first
    | (apply NC_ok) | (apply NC_reject) | (apply NC_fuel) | (apply NC_unmodelled) | (apply NC_mustbe)
    | assumption
    | (apply NC_bind)
    | (intro _)
    | split)

theorem NC_expr : ∀ n,
    (∀ mp ts, NC (expression n mp ts)) ∧ (∀ mp l ts, NC (exprLoop n mp l ts)) ∧
    (∀ ts, NC (primary n ts)) ∧ (∀ ts, NC (argList n ts)) := by
  intro n
  induction n with
  | zero => refine ⟨?_, ?_, ?_, ?_⟩ <;> intros <;> simp [expression, exprLoop, primary, argList]
  | succ n ih =>
    obtain ⟨h1, h2, h3, h4⟩ := ih
    refine ⟨?_, ?_, ?_, ?_⟩
    · intro mp ts; unfold expression
      apply NC_bind (h3 ts); intro a; exact h2 _ _ _
    · intro mp l ts; unfold exprLoop
      repeat (first | exact h1 _ _ | exact h2 _ _ _ | nc_step)
    · intro ts; unfold primary
      repeat (first | exact h1 _ _ | exact h3 _ | exact h4 _ | nc_step)
    · intro ts; unfold argList
      repeat (first | exact h1 _ _ | exact h4 _ | nc_step)

theorem NC_expression (n mp ts) : NC (expression n mp ts) := (NC_expr n).1 mp ts

theorem NC_declarator (env : Env) : ∀ n ts, NC (declarator env n ts) := by
  intro n
  induction n with
  | zero => intro ts; simp [declarator]
  | succ n ih =>
    intro ts; unfold declarator
    repeat (first | exact ih _ | nc_step)

theorem NC_nestedNs : ∀ sym nested ts, NC (nestedNs sym nested ts) := by
  intro sym nested ts
  fun_induction nestedNs sym nested ts <;> simp_all

theorem NC_canonical (env : Env) (st : SpecSt) : NC (canonical env st) := by
  unfold canonical
  split
  · simp
  · simp only []; split <;> simp

theorem NC_spec (env : Env) : ∀ n,
    (∀ st ts, NC (specLoop env n st ts)) ∧ (∀ ts, NC (declSpec env n ts)) ∧
    (∀ ts, NC (templateArgs env n ts)) := by
  intro n
  induction n with
  | zero => refine ⟨?_, ?_, ?_⟩ <;> intros <;> simp [specLoop, declSpec, templateArgs]
  | succ n ih =>
    obtain ⟨h1, h2, h3⟩ := ih
    refine ⟨?_, ?_, ?_⟩
    · intro st ts; unfold specLoop
      repeat (first | exact h1 _ _ | exact h3 _ | apply NC_nestedNs | nc_step)
    · intro ts; unfold declSpec
      repeat (first | exact h1 _ _ | apply NC_canonical | nc_step)
    · intro ts; unfold templateArgs
      repeat (first | exact h2 _ | nc_step)

theorem NC_declSpec (env n ts) : NC (declSpec env n ts) := (NC_spec env n).2.1 ts

theorem NC_initializer (ts : Toks) : NC (initializer ts) := by
  unfold initializer; repeat nc_step

theorem NC_attrScan (name : Str) : ∀ ts p, NC (attrScan name p ts) := by
  intro ts
  induction ts with
  | nil => intro p; simp [attrScan]
  | cons t ts ih =>
    intro p; unfold attrScan
    repeat (first | exact ih _ | nc_step)

theorem NC_attributeP : ∀ n attrs ts, NC (attributeP n attrs ts) := by
  intro n
  induction n with
  | zero => intros; simp [attributeP]
  | succ n ih =>
    intro attrs ts; unfold attributeP
    repeat (first | exact ih _ _ | apply NC_attrScan | apply NC_initializer | nc_step)

theorem NC_arrays : ∀ n ts, NC (arrays n ts) := by
  intro n
  induction n with
  | zero => intros; simp [arrays]
  | succ n ih =>
    intro ts; unfold arrays
    repeat (first | exact ih _ | apply NC_expression | nc_step)

theorem NC_decl (env : Env) : ∀ n,
    (∀ ts, NC (declaration env n ts)) ∧ (∀ names ts, NC (paramList env n names ts)) := by
  intro n
  induction n with
  | zero => refine ⟨?_, ?_⟩ <;> intros <;> simp [declaration, paramList]
  | succ n ih =>
    obtain ⟨h1, h2⟩ := ih
    refine ⟨?_, ?_⟩
    · intro ts; unfold declaration
      repeat (first | exact h2 _ _ | apply NC_declSpec | apply NC_declarator | apply NC_arrays
                    | apply NC_attributeP | apply NC_initializer | nc_step)
    · intro names ts; unfold paramList
      repeat (first | exact h1 _ | exact h2 _ _ | nc_step)

theorem NC_declaration (env n ts) : NC (declaration env n ts) := (NC_decl env n).1 ts

theorem NC_declStatement (env n ts) : NC (declStatement env n ts) := by
  unfold declStatement
  repeat (first | apply NC_declaration | nc_step)

end Shroud.Decl
