import ShroudVerif.Model.FModule
import ShroudVerif.Lemmas.Helpers
/-! Lemmas for the USE/IMPORT bookkeeping (C05). -/
namespace Shroud.FModule
open Shroud.Helpers (sortNat mem_sortNat)

theorem mem_insertAll (syms : List Nat) : ∀ (ss : List Nat) (x : Nat),
    x ∈ insertAll ss syms ↔ x ∈ ss ∨ x ∈ syms := by
  induction syms with
  | nil => intro ss x; simp [insertAll]
  | cons s rest ih =>
    intro ss x
    simp only [insertAll]
    rw [ih]
    by_cases h : s ∈ ss
    · simp only [if_pos h, List.mem_cons]
      constructor
      · rintro (h1 | h1)
        · exact Or.inl h1
        · exact Or.inr (Or.inr h1)
      · rintro (h1 | h1 | h1)
        · exact Or.inl h1
        · subst h1; exact Or.inl h
        · exact Or.inr h1
    · simp only [if_neg h, List.mem_append, List.mem_cons, List.not_mem_nil, or_false]
      constructor
      · rintro ((h1 | h1) | h1)
        · exact Or.inl h1
        · exact Or.inr (Or.inl h1)
        · exact Or.inr (Or.inr h1)
      · rintro (h1 | h1 | h1)
        · exact Or.inl (Or.inl h1)
        · exact Or.inl (Or.inr h1)
        · exact Or.inr h1

theorem symsOf_addSyms (m : Nat) (syms : List Nat) : ∀ (M : Mods) (k x : Nat),
    x ∈ symsOf (addSyms m syms M) k ↔ x ∈ symsOf M k ∨ (k = m ∧ x ∈ syms) := by
  intro M
  induction M with
  | nil =>
    intro k x
    by_cases hk : k = m
    · subst hk; simp [addSyms, symsOf, List.lookup, mem_insertAll]
    · have : (k == m) = false := by simpa using hk
      simp [addSyms, symsOf, List.lookup, this, hk]
  | cons e rest ih =>
    intro k x
    obtain ⟨q, ss⟩ := e
    simp only [addSyms]
    by_cases hq : q = m
    · subst hq
      simp only [if_true]
      by_cases hk : k = q
      · subst hk; simp [symsOf, List.lookup, mem_insertAll]
      · have : (k == q) = false := by simpa using hk
        simp [symsOf, List.lookup, this, hk]
    · simp only [if_neg hq]
      by_cases hk : k = q
      · subst hk
        have : k ≠ m := hq
        simp [symsOf, List.lookup, this]
      · have hb : (k == q) = false := by simpa using hk
        have := ih k x
        simp only [symsOf, List.lookup, hb] at this ⊢
        exact this

theorem hasMod_addSyms (m : Nat) (syms : List Nat) : ∀ (M : Mods) (k : Nat),
    hasMod (addSyms m syms M) k = (hasMod M k || decide (k = m)) := by
  intro M
  induction M with
  | nil =>
    intro k
    by_cases hk : k = m
    · subst hk; simp [addSyms, hasMod, List.lookup]
    · have : (k == m) = false := by simpa using hk
      simp [addSyms, hasMod, List.lookup, this, hk]
  | cons e rest ih =>
    intro k
    obtain ⟨q, ss⟩ := e
    simp only [addSyms]
    by_cases hq : q = m
    · subst hq
      by_cases hk : k = q
      · subst hk; simp [hasMod, List.lookup]
      · have : (k == q) = false := by simpa using hk
        simp [hasMod, List.lookup, this, hk]
    · simp only [if_neg hq]
      by_cases hk : k = q
      · subst hk; simp [hasMod, List.lookup]
      · have hb : (k == q) = false := by simpa using hk
        have := ih k
        simp only [hasMod, List.lookup, hb] at this ⊢
        exact this

theorem mem_updateFModule (imp : Nat) (fm : List (Nat × List Nat)) : ∀ (st : St) (k x : Nat),
    x ∈ symsOf (updateFModule imp st fm).mods k ↔
      x ∈ symsOf st.mods k ∨ ∃ only, (k, only) ∈ fm ∧ k ≠ imp ∧ x ∈ only := by
  induction fm with
  | nil => intro st k x; simp [updateFModule]
  | cons e rest ih =>
    intro st k x
    obtain ⟨m, only⟩ := e
    simp only [updateFModule]
    rw [ih]
    by_cases hm : m = imp
    · subst hm
      simp only [if_true, List.mem_cons]
      constructor
      · rintro (h | ⟨o, h1, h2, h3⟩)
        · exact Or.inl h
        · exact Or.inr ⟨o, Or.inr h1, h2, h3⟩
      · rintro (h | ⟨o, h1 | h1, h2, h3⟩)
        · exact Or.inl h
        · cases h1; exact absurd rfl h2
        · exact Or.inr ⟨o, h1, h2, h3⟩
    · simp only [if_neg hm, symsOf_addSyms, List.mem_cons]
      constructor
      · rintro ((h | ⟨rfl, h⟩) | ⟨o, h1, h2, h3⟩)
        · exact Or.inl h
        · exact Or.inr ⟨only, Or.inl rfl, hm, h⟩
        · exact Or.inr ⟨o, Or.inr h1, h2, h3⟩
      · rintro (h | ⟨o, h1 | h1, h2, h3⟩)
        · exact Or.inl (Or.inl h)
        · cases h1; exact Or.inl (Or.inr ⟨rfl, h3⟩)
        · exact Or.inr ⟨o, h1, h2, h3⟩

theorem mem_updateFModuleLine (us : List (Nat × List Nat)) : ∀ (st : St) (k x : Nat),
    x ∈ symsOf (updateFModuleLine st us).mods k ↔
      x ∈ symsOf st.mods k ∨ ∃ syms, (k, syms) ∈ us ∧ x ∈ syms := by
  induction us with
  | nil => intro st k x; simp [updateFModuleLine]
  | cons e rest ih =>
    intro st k x
    obtain ⟨m, syms⟩ := e
    simp only [updateFModuleLine]
    rw [ih]
    simp only [symsOf_addSyms, List.mem_cons]
    constructor
    · rintro ((h | ⟨rfl, h⟩) | ⟨o, h1, h2⟩)
      · exact Or.inl h
      · exact Or.inr ⟨syms, Or.inl rfl, h⟩
      · exact Or.inr ⟨o, Or.inr h1, h2⟩
    · rintro (h | ⟨o, h1 | h1, h2⟩)
      · exact Or.inl (Or.inl h)
      · cases h1; exact Or.inl (Or.inr ⟨rfl, h2⟩)
      · exact Or.inr ⟨o, h1, h2⟩

/-- the symbols one call asks for, per module -/
def Upd.asks (imp : Nat) (u : Upd) (k x : Nat) : Prop :=
  match u with
  | .dict fm => ∃ only, (k, only) ∈ fm ∧ k ≠ imp ∧ x ∈ only
  | .line us => ∃ syms, (k, syms) ∈ us ∧ x ∈ syms

theorem mem_applyUpd (imp : Nat) (st : St) (u : Upd) (k x : Nat) :
    x ∈ symsOf (applyUpd imp st u).mods k ↔ x ∈ symsOf st.mods k ∨ u.asks imp k x := by
  cases u with
  | dict fm => exact mem_updateFModule imp fm st k x
  | line us => exact mem_updateFModuleLine us st k x

theorem mem_runUpds (imp : Nat) (us : List Upd) : ∀ (st : St) (k x : Nat),
    x ∈ symsOf (runUpds imp st us).mods k ↔ x ∈ symsOf st.mods k ∨ ∃ u ∈ us, u.asks imp k x := by
  induction us with
  | nil => intro st k x; simp [runUpds]
  | cons u rest ih =>
    intro st k x
    have := ih (applyUpd imp st u) k x
    simp only [runUpds, List.foldl] at this ⊢
    rw [this, mem_applyUpd]
    constructor
    · rintro ((h | h) | ⟨v, hv, h⟩)
      · exact Or.inl h
      · exact Or.inr ⟨u, by simp, h⟩
      · exact Or.inr ⟨v, List.mem_cons_of_mem _ hv, h⟩
    · rintro (h | ⟨v, hv, h⟩)
      · exact Or.inl (Or.inl h)
      · rcases List.mem_cons.1 hv with rfl | hv
        · exact Or.inl (Or.inr h)
        · exact Or.inr ⟨v, hv, h⟩

end Shroud.FModule
