import ShroudVerif.Model.Names
import Std.Data.String.ToNat
/-!
Helper lemmas for property C08 (model `Model/Names.lean`).
-/
namespace Shroud.Names

/-! ### characters -/

theorem toLower_of_not_upper {c : Char} (h : isUpper c = false) : toLower c = c := by
  simp [toLower, h]

theorem toNat_ofNat_small {n : Nat} (h : n < 55296) : (Char.ofNat n).toNat = n := by
  have hv : n.isValidChar := Or.inl h
  simp [Char.ofNat, hv, Char.ofNatAux, Char.toNat]

theorem isUpper_toLower (c : Char) : isUpper (toLower c) = false := by
  unfold toLower
  split
  · rename_i h
    simp only [isUpper, Bool.and_eq_true, decide_eq_true_eq] at h
    have : (Char.ofNat (c.toNat + 32)).toNat = c.toNat + 32 := toNat_ofNat_small (by omega)
    simp only [isUpper, this]
    simp; omega
  · rename_i h; simpa using h

theorem toLower_idem (c : Char) : toLower (toLower c) = toLower c :=
  toLower_of_not_upper (isUpper_toLower c)

/-! ### `un_camel` -/

/-- `t` is `s` with some `'_'` characters inserted. -/
inductive Inserts : Str → Str → Prop
  | nil : Inserts [] []
  | keep (c : Char) {s t : Str} : Inserts s t → Inserts (c :: s) (c :: t)
  | ins {s t : Str} : Inserts s t → Inserts s ('_' :: t)

theorem unCamelAux_inserts (pos : Nat) (prev : Option Char) (s : Str) :
    Inserts (s.map toLower) (unCamelAux pos prev s) := by
  induction s generalizing pos prev with
  | nil => exact .nil
  | cons c rest ih =>
    simp only [List.map_cons, unCamelAux]
    split
    · split
      · exact .ins (.keep _ (ih _ _))
      · exact .keep _ (ih _ _)
    · rename_i h
      rw [toLower_of_not_upper (by simpa using h)]
      exact .keep _ (ih _ _)

theorem unCamelAux_noUpper (pos : Nat) (prev : Option Char) (s : Str) :
    ∀ c ∈ unCamelAux pos prev s, isUpper c = false := by
  induction s generalizing pos prev with
  | nil => simp [unCamelAux]
  | cons c rest ih =>
    intro x hx
    simp only [unCamelAux, List.mem_append] at hx
    rcases hx with hx | hx
    · split at hx
      · split at hx
        · simp at hx
          rcases hx with rfl | rfl
          · decide
          · exact isUpper_toLower _
        · simp at hx; subst hx; exact isUpper_toLower _
      · rename_i h
        simp at hx; subst hx; simpa using h
    · exact ih _ _ x hx

theorem unCamelAux_id_of_noUpper (pos : Nat) (prev : Option Char) (s : Str)
    (h : ∀ c ∈ s, isUpper c = false) : unCamelAux pos prev s = s := by
  induction s generalizing pos prev with
  | nil => rfl
  | cons c rest ih =>
    have hc : isUpper c = false := h c (by simp)
    simp [unCamelAux, hc, ih _ _ (fun x hx => h x (by simp [hx]))]

/-! ### decimal numbering -/

theorem decimal_injective {m n : Nat} (h : decimal m = decimal n) : m = n := by
  apply Nat.repr_injective
  rw [Nat.repr_eq_ofList_toDigits, Nat.repr_eq_ofList_toDigits]
  simp only [decimal] at h
  rw [h]

theorem decimal_ne_nil (n : Nat) : decimal n ≠ [] := Nat.toDigits_ne_nil

theorem decimal_digits (n : Nat) : ∀ c ∈ decimal n, c.isDigit = true :=
  fun _ hc => Nat.isDigit_of_mem_toDigits (by decide) (by decide) hc


/-- The form of an automatically generated suffix: `_` followed by at least one digit. -/
def isAuto : Str → Bool
  | '_' :: d :: ds => (d :: ds).all Char.isDigit
  | _ => false

theorem autoSuffix_isAuto' (n : Nat) : isAuto (autoSuffix n) = true := by
  unfold autoSuffix
  have h1 := decimal_ne_nil n
  have h2 := decimal_digits n
  cases hd : decimal n with
  | nil => exact absurd hd h1
  | cons d ds =>
    rw [hd] at h2
    simp only [isAuto, List.all_eq_true]
    exact h2

theorem autoSuffix_inj {m n : Nat} (h : autoSuffix m = autoSuffix n) : m = n := by
  simp only [autoSuffix, List.cons.injEq, true_and] at h
  exact decimal_injective h

/-! ### overload numbering -/

@[simp] theorem renumber_name (s i : Nat) (r : Rec) : (renumber s i r).name = r.name := by
  unfold renumber; repeat' split
  all_goals rfl
@[simp] theorem renumber_tsfx (s i : Nat) (r : Rec) : (renumber s i r).tsfx = r.tsfx := by
  unfold renumber; repeat' split
  all_goals rfl
@[simp] theorem renumber_wrap (s i : Nat) (r : Rec) : (renumber s i r).wrap = r.wrap := by
  unfold renumber; repeat' split
  all_goals rfl
@[simp] theorem renumber_gen (s i : Nat) (r : Rec) : (renumber s i r).gen = r.gen := by
  unfold renumber; repeat' split
  all_goals rfl
@[simp] theorem renumber_hasBuf (s i : Nat) (r : Rec) : (renumber s i r).hasBuf = r.hasBuf := by
  unfold renumber; repeat' split
  all_goals rfl
@[simp] theorem renumber_generics (s i : Nat) (r : Rec) : (renumber s i r).generics = r.generics := by
  unfold renumber; repeat' split
  all_goals rfl
@[simp] theorem renumber_cfi (s i : Nat) (r : Rec) : (renumber s i r).cfi = r.cfi := by
  unfold renumber; repeat' split
  all_goals rfl
@[simp] theorem renumber_hasClone (s i : Nat) (r : Rec) : hasClone (renumber s i r) = hasClone r := by
  simp [hasClone]
@[simp] theorem renumber_cloneSuffix (s i : Nat) (r : Rec) : cloneSuffix (renumber s i r) = cloneSuffix r := by
  simp [cloneSuffix]

theorem renumber_sfx_templated {s i : Nat} {r : Rec} (h : eligible r = false) :
    (renumber s i r).sfx = r.sfx := by
  simp [renumber, h]

theorem renumber_sfx_local {s i : Nat} {r : Rec} (h : r.sfxLocal = true) :
    (renumber s i r).sfx = r.sfx := by
  unfold renumber; repeat' split
  all_goals simp_all

theorem renumber_sfx_auto {s i : Nat} {r : Rec} (he : eligible r = true) (hs : s > 1)
    (h : r.sfxLocal = false) : (renumber s i r).sfx = autoSuffix i := by
  unfold renumber; repeat' split
  all_goals simp_all

theorem mem_numberAux {all : List Rec} {b' : Rec} :
    ∀ (rest seen : List Rec), b' ∈ numberAux all seen rest →
      ∃ b ∈ rest, ∃ i, seen.countP (inGroup b.key) ≤ i ∧
        b' = renumber (all.countP (inGroup b.key)) i b := by
  intro rest
  induction rest with
  | nil => intro seen h; simp [numberAux] at h
  | cons r rest ih =>
    intro seen h
    simp only [numberAux, List.mem_cons] at h
    rcases h with h | h
    · exact ⟨r, by simp, _, Nat.le_refl _, h⟩
    · obtain ⟨b, hb, i, hi, e⟩ := ih _ h
      refine ⟨b, by simp [hb], i, ?_, e⟩
      rw [List.countP_append] at hi
      omega

theorem numberAux_length (all : List Rec) : ∀ (rest seen : List Rec),
    (numberAux all seen rest).length = rest.length := by
  intro rest
  induction rest with
  | nil => intro _; rfl
  | cons r rest ih => intro seen; simp [numberAux, ih]

theorem numberAux_map_wrap (all : List Rec) (f : Rec → α)
    (hf : ∀ s i r, f (renumber s i r) = f r) : ∀ (rest seen : List Rec),
    (numberAux all seen rest).map f = rest.map f := by
  intro rest
  induction rest with
  | nil => intro _; rfl
  | cons r rest ih => intro seen; simp [numberAux, ih, hf]

/-- The name a record gets from a template `prefix ++ underscore_name ++ function_suffix ++
    template_suffix`. -/
def nameWith (pre : Str) (r : Rec) : Str := pre ++ (unCamel r.name ++ (r.sfx ++ r.tsfx))

/-- Domain hypothesis of the distinctness theorem, stated on the entry points produced by
    default-argument and template expansion (`stage1`) that are visible to the wrapper in
    question (`vis` looks at the wrap flags). -/
structure CoreOK (vis : Wrap → Bool) (l : List Rec) : Prop where
  /-- the overload table is keyed consistently with the C++ name -/
  key_name : ∀ a ∈ l, ∀ b ∈ l, eligible a = true → eligible b = true →
    (a.key = b.key ↔ a.name = b.name)
  /-- underscore forms of different names are not prefixes of one another -/
  prefix_free : ∀ a ∈ l, ∀ b ∈ l, a.name ≠ b.name → ¬ (unCamel a.name <+: unCamel b.name)
  /-- explicit suffixes attached to two entry points of one name differ -/
  explicit_distinct : l.Pairwise fun a b => eligible a = true → eligible b = true →
    a.key = b.key → a.sfxLocal = true → b.sfxLocal = true → a.sfx ≠ b.sfx
  /-- explicit suffixes are not of the automatically numbered form -/
  explicit_not_auto : ∀ a ∈ l, eligible a = true → a.sfxLocal = true → isAuto a.sfx = false
  /-- numbered entry points share the template suffix (empty, or the one inherited from a
      class instantiation); only template clones get their own -/
  eligible_tsfx : ∀ a ∈ l, ∀ b ∈ l, eligible a = true → eligible b = true → a.tsfx = b.tsfx
  /-- a templated entry point shares its name only with templated entry points of
      different suffixes -/
  templated_alone : l.Pairwise fun a b => a.name = b.name → vis a.wrap = true → vis b.wrap = true →
    (eligible a = false ∨ eligible b = false) →
    (eligible a = false ∧ eligible b = false ∧ a.sfx ++ a.tsfx ≠ b.sfx ++ b.tsfx)

theorem append_ne_of_not_prefix {u1 u2 t1 t2 : Str} (h1 : ¬ u1 <+: u2) (h2 : ¬ u2 <+: u1) :
    u1 ++ t1 ≠ u2 ++ t2 := by
  intro h
  rcases List.append_eq_append_iff.1 h with ⟨a, ha, _⟩ | ⟨a, ha, _⟩
  · exact h1 ⟨a, ha.symm⟩
  · exact h2 ⟨a, ha.symm⟩


theorem isAuto_ne {s : Str} {i : Nat} (h : isAuto s = false) : s ≠ autoSuffix i := by
  intro e; rw [e, autoSuffix_isAuto'] at h; exact absurd h (by decide)

/-- Two entry points at different positions of the stage-1 list get different names. -/
theorem pair_names_ne {vis : Wrap → Bool} {seen rest : List Rec} {r b : Rec} (pre : Str)
    (ok : CoreOK vis (seen ++ r :: rest)) (hb : b ∈ rest) {i : Nat}
    (hi : (seen ++ [r]).countP (inGroup b.key) ≤ i)
    (vr : vis r.wrap = true) (vb : vis b.wrap = true) :
    nameWith pre (renumber ((seen ++ r :: rest).countP (inGroup r.key)) (seen.countP (inGroup r.key)) r)
      ≠ nameWith pre (renumber ((seen ++ r :: rest).countP (inGroup b.key)) i b) := by
  have hrm : r ∈ seen ++ r :: rest := by simp
  have hbm : b ∈ seen ++ r :: rest := by simp [hb]
  have hED := (List.pairwise_cons.1 (List.pairwise_append.1 ok.explicit_distinct).2.1).1 b hb
  have hTA := (List.pairwise_cons.1 (List.pairwise_append.1 ok.templated_alone).2.1).1 b hb
  unfold nameWith
  by_cases hn : r.name = b.name
  · -- same C++ name
    simp only [renumber_name, renumber_tsfx, hn]
    intro h
    have h := List.append_cancel_left (List.append_cancel_left h)
    by_cases he : eligible r = true ∧ eligible b = true
    · obtain ⟨her, heb⟩ := he
      have hk : r.key = b.key := (ok.key_name r hrm b hbm her heb).2 hn
      have gr : inGroup b.key r = true := by simp [inGroup, her, hk]
      have gb : inGroup b.key b = true := by simp [inGroup, heb]
      have hsize : (seen ++ r :: rest).countP (inGroup b.key) > 1 := by
        rw [List.countP_append, List.countP_cons]
        have : 0 < rest.countP (inGroup b.key) := List.countP_pos_iff.2 ⟨b, hb, gb⟩
        simp only [gr, if_true]; omega
      have hgt : seen.countP (inGroup b.key) < i := by
        rw [List.countP_append] at hi
        simp [gr] at hi; omega
      rw [ok.eligible_tsfx r hrm b hbm her heb] at h
      have h := List.append_cancel_right h
      rw [hk] at h
      cases hlr : r.sfxLocal <;> cases hlb : b.sfxLocal
      · rw [renumber_sfx_auto her hsize hlr, renumber_sfx_auto heb hsize hlb] at h
        have := autoSuffix_inj h; omega
      · rw [renumber_sfx_auto her hsize hlr, renumber_sfx_local hlb] at h
        exact isAuto_ne (ok.explicit_not_auto b hbm heb hlb) h.symm
      · rw [renumber_sfx_local hlr, renumber_sfx_auto heb hsize hlb] at h
        exact isAuto_ne (ok.explicit_not_auto r hrm her hlr) h
      · rw [renumber_sfx_local hlr, renumber_sfx_local hlb] at h
        exact hED her heb hk hlr hlb h
    · have hor : eligible r = false ∨ eligible b = false := by
        cases h1 : eligible r <;> cases h2 : eligible b <;> simp_all
      obtain ⟨h1, h2, h3⟩ := hTA hn vr vb hor
      rw [renumber_sfx_templated h1, renumber_sfx_templated h2] at h
      exact h3 h
  · -- different names: neither underscore form is a prefix of the other
    simp only [renumber_name]
    intro h
    have h := List.append_cancel_left h
    exact append_ne_of_not_prefix (ok.prefix_free r hrm b hbm hn)
      (ok.prefix_free b hbm r hrm (Ne.symm hn)) h

theorem numberAux_pairwise {vis : Wrap → Bool} (pre : Str) (all : List Rec) :
    ∀ (rest seen : List Rec), all = seen ++ rest → CoreOK vis all →
      (numberAux all seen rest).Pairwise
        (fun a' b' => vis a'.wrap = true → vis b'.wrap = true → nameWith pre a' ≠ nameWith pre b') := by
  intro rest
  induction rest with
  | nil => intro _ _ _; simp [numberAux]
  | cons r rest ih =>
    intro seen hall ok
    simp only [numberAux]
    refine List.pairwise_cons.2 ⟨?_, ih (seen ++ [r]) (by simp [hall]) ok⟩
    intro b' hb' va vb
    obtain ⟨b, hb, i, hi, e⟩ := mem_numberAux _ _ hb'
    subst e
    simp only [renumber_wrap] at va vb
    subst hall
    exact pair_names_ne pre ok hb hi va vb

/-- Names built from `prefix ++ underscore_name ++ function_suffix ++ template_suffix` of the
    visible entry points after overload numbering are pairwise distinct. -/
theorem number_names_nodup {vis : Wrap → Bool} (pre : Str) (l : List Rec) (ok : CoreOK vis l) :
    (((number l).filter (fun r => vis r.wrap)).map (nameWith pre)).Nodup := by
  unfold List.Nodup
  rw [List.pairwise_map, List.pairwise_filter]
  exact (numberAux_pairwise pre l l [] (by simp) ok).imp (fun h a b => h a b)


/-! ### counting -/

/-- C entry points one stage-1 record ends up with. -/
def cw (r : Rec) : Nat := (if r.wrap.c then 1 else 0) + (if hasClone r then 1 else 0)
/-- Fortran specifics one stage-1 record ends up with. -/
def fw (r : Rec) : Nat :=
  if r.wrap.f then (if r.generics.isEmpty then 1 else r.generics.length) else 0

theorem sum_map_const {α} (g : α → Nat) (k : Nat) (l : List α) (h : ∀ x ∈ l, g x = k) :
    (l.map g).sum = l.length * k := by
  induction l with
  | nil => simp
  | cons a l ih =>
    simp only [List.map_cons, List.sum_cons, List.length_cons]
    rw [ih (fun x hx => h x (by simp [hx])), h a (by simp)]
    rw [Nat.add_mul]; omega

theorem countP_c_genericRec (r : Rec) :
    (genericRec r).countP (fun x => x.wrap.c) = if r.wrap.c then 1 else 0 := by
  unfold genericRec
  split
  · rw [List.countP_cons]
    have : (r.generics.map fun g =>
        { r with gen := .fortranGeneric, wrap := ⟨false, true, false, false⟩, overloaded := true,
                 sfx := r.sfx ++ g, sfxLocal := true, arity := r.fullArity, generics := [] }).countP
          (fun x => x.wrap.c) = 0 := by
      apply List.countP_eq_zero.2
      intro a ha
      simp only [List.mem_map] at ha
      obtain ⟨x, _, rfl⟩ := ha
      simp
    rw [this]; simp
  · simp [List.countP_cons]

theorem countP_f_genericRec (r : Rec) :
    (genericRec r).countP (fun x => x.wrap.f) = fw r := by
  unfold genericRec fw
  split
  · rename_i h
    simp only [Bool.and_eq_true, Bool.not_eq_true', List.isEmpty_eq_false_iff] at h
    rw [List.countP_cons]
    have : (r.generics.map fun g =>
        { r with gen := .fortranGeneric, wrap := ⟨false, true, false, false⟩, overloaded := true,
                 sfx := r.sfx ++ g, sfxLocal := true, arity := r.fullArity, generics := [] }).countP
          (fun x => x.wrap.f) = r.generics.length := by
      rw [List.countP_eq_length.2]
      · simp
      · intro a ha
        simp only [List.mem_map] at ha
        obtain ⟨x, _, rfl⟩ := ha
        simp
    rw [this]
    have hne : r.generics.isEmpty = false := by simpa using h.2
    simp [h.1, hne]
  · rename_i h
    simp only [Bool.and_eq_true, Bool.not_eq_true', not_and, Bool.not_eq_false] at h
    by_cases hf : r.wrap.f = true
    · simp [hf, h hf]
    · simp [hf]

theorem countP_c_flatMap_genericRec (l : List Rec) :
    (l.flatMap genericRec).countP (fun x => x.wrap.c) = l.countP (fun x => x.wrap.c) := by
  induction l with
  | nil => rfl
  | cons r l ih =>
    rw [List.flatMap_cons, List.countP_append, ih, countP_c_genericRec, List.countP_cons]
    omega

theorem countP_f_flatMap_genericRec (l : List Rec) :
    (l.flatMap genericRec).countP (fun x => x.wrap.f) = (l.map fw).sum := by
  induction l with
  | nil => rfl
  | cons r l ih =>
    rw [List.flatMap_cons, List.countP_append, ih, countP_f_genericRec]; simp

theorem countP_c_flatMap_bufferifyRec (l : List Rec) :
    (l.flatMap bufferifyRec).countP (fun x => x.wrap.c) = (l.map cw).sum := by
  induction l with
  | nil => rfl
  | cons r l ih =>
    rw [List.flatMap_cons, List.countP_append, ih]
    have : (bufferifyRec r).countP (fun x => x.wrap.c) = cw r := by
      unfold bufferifyRec cw
      by_cases hk : hasClone r = true <;> by_cases hc : r.wrap.c = true <;> simp [hk, hc]
    rw [this]; simp

theorem sum_fw_flatMap_bufferifyRec (l : List Rec) :
    ((l.flatMap bufferifyRec).map fw).sum = (l.map fw).sum := by
  induction l with
  | nil => rfl
  | cons r l ih =>
    rw [List.flatMap_cons, List.map_append, List.sum_append, ih]
    have : ((bufferifyRec r).map fw).sum = fw r := by
      unfold bufferifyRec
      split
      · simp [fw]
      · simp
    rw [this]; simp

theorem number_map_cw (l : List Rec) : (number l).map cw = l.map cw :=
  numberAux_map_wrap l cw (by intro s i r; simp [cw]) l []

theorem number_map_fw (l : List Rec) : (number l).map fw = l.map fw :=
  numberAux_map_wrap l fw (by intro s i r; simp [fw]) l []

theorem genericSuffixes_length (l : List (Option Str)) : ∀ i, (genericSuffixes i l).length = l.length := by
  induction l with
  | nil => intro _; rfl
  | cons a l ih => intro i; cases a <;> simp [genericSuffixes, ih]

theorem original_wrap (sc : Scope) (f : Fn) : (original sc f).wrap = f.w0 sc := by
  unfold original; repeat' split
  all_goals rfl
theorem original_hasBuf (sc : Scope) (f : Fn) : (original sc f).hasBuf = f.hasBuf := by
  unfold original; repeat' split
  all_goals rfl
theorem original_generics (sc : Scope) (f : Fn) :
    (original sc f).generics = genericSuffixes 0 f.generics := by
  unfold original; repeat' split
  all_goals rfl

theorem templateClones_sum (g : Rec → Nat) (k : Nat) (o : Rec) (w : Wrap)
    (h : ∀ t, g { o with gen := .cxxTemplate, wrap := w, tsfx := t, overloaded := true } = k) :
    ∀ (l : List TInst) (i : Nat), ((templateClones o w i l).map g).sum = l.length * k := by
  intro l
  induction l with
  | nil => intro _; simp [templateClones]
  | cons t ts ih =>
    intro i
    simp only [templateClones, List.map_cons, List.sum_cons, List.length_cons, ih]
    rw [h (t.suffix o.tsfx i), Nat.add_mul]; omega


/-! ### generic-interface table -/

theorem tableGet_tableAdd (key k : Str) (v : Str) (t : List (Str × List Str)) :
    tableGet key (tableAdd k v t) = if k = key then tableGet key t ++ [v] else tableGet key t := by
  induction t with
  | nil => by_cases h : k = key <;> simp [tableAdd, tableGet, h]
  | cons p t ih =>
    obtain ⟨k', vs⟩ := p
    by_cases h1 : k' = k
    · subst h1
      by_cases h2 : k' = key <;> simp [tableAdd, tableGet, h2]
    · by_cases h2 : k' = key
      · subst h2
        have : ¬ k = k' := fun e => h1 e.symm
        simp [tableAdd, tableGet, h1, this]
      · simp [tableAdd, tableGet, h1, h2, ih]

theorem tableGet_genericTable (sc : Scope) (sel : Rec → Bool) (key : Str) (l : List Rec) :
    ∀ t, tableGet key (genericTable sc sel l t)
      = tableGet key t ++
        ((l.filter fun r => r.wrap.f && sel r && genericKey sc r == key).map (genericMember sc)) := by
  induction l with
  | nil => intro t; simp [genericTable]
  | cons r l ih =>
    intro t
    simp only [genericTable]
    rw [ih]
    by_cases hf : r.wrap.f = true
    · by_cases hs : sel r = true
      · by_cases hk : genericKey sc r = key
        · simp [hf, hs, hk, tableGet_tableAdd, List.filter_cons]
        · simp [hf, hs, hk, tableGet_tableAdd, List.filter_cons]
      · simp [hf, hs, List.filter_cons]
    · simp [hf, List.filter_cons]

/-! ### suffix extensions (`_bufferify`, `fortran_generic` suffixes) -/

/-- A single `_token`: an underscore followed by characters other than `_`. -/
def isTok : Str → Bool
  | '_' :: w => !w.contains '_'
  | _ => false

/-- Empty, or beginning with an underscore. -/
def extLike : Str → Bool
  | [] => true
  | c :: _ => c == '_'

theorem noUs_cancel : ∀ (wa wb x y : Str), (∀ c ∈ wa, c ≠ '_') → (∀ c ∈ wb, c ≠ '_') →
    extLike x = true → extLike y = true → wa ++ x = wb ++ y → wa = wb := by
  intro wa
  induction wa with
  | nil =>
    intro wb x y _ hb hx _ h
    cases wb with
    | nil => rfl
    | cons d wb =>
      simp only [List.nil_append, List.cons_append] at h
      subst h
      simp only [extLike, beq_iff_eq] at hx
      exact absurd hx (hb d (by simp))
  | cons c wa ih =>
    intro wb x y ha hb hx hy h
    cases wb with
    | nil =>
      simp only [List.nil_append, List.cons_append] at h
      subst h
      simp only [extLike, beq_iff_eq] at hy
      exact absurd hy (ha c (by simp))
    | cons d wb =>
      simp only [List.cons_append, List.cons.injEq] at h
      obtain ⟨rfl, h⟩ := h
      rw [ih wb x y (fun c hc => ha c (by simp [hc])) (fun c hc => hb c (by simp [hc])) hx hy h]

theorem tok_shape {a : Str} (h : isTok a = true) : ∃ w, a = '_' :: w ∧ ∀ c ∈ w, c ≠ '_' := by
  cases a with
  | nil => simp [isTok] at h
  | cons a0 w =>
    by_cases h0 : a0 = '_'
    · subst h0
      refine ⟨w, rfl, ?_⟩
      simp only [isTok, Bool.not_eq_true', List.contains_eq_mem, decide_eq_false_iff_not] at h
      intro c hc e
      exact h (e ▸ hc)
    · exfalso
      unfold isTok at h
      split at h
      · rename_i heq
        simp only [List.cons.injEq] at heq
        exact h0 heq.1
      · simp at h

theorem tok_cancel {a b x y : Str} (ha : isTok a = true) (hb : isTok b = true)
    (hx : extLike x = true) (hy : extLike y = true) (h : a ++ x = b ++ y) : a = b := by
  obtain ⟨wa, rfl, ha'⟩ := tok_shape ha
  obtain ⟨wb, rfl, hb'⟩ := tok_shape hb
  simp only [List.cons_append, List.cons.injEq, true_and] at h
  rw [noUs_cancel wa wb x y ha' hb' hx hy h]

theorem autoSuffix_isTok (n : Nat) : isTok (autoSuffix n) = true := by
  simp only [autoSuffix, isTok, Bool.not_eq_true', List.contains_eq_mem, decide_eq_false_iff_not]
  intro h
  have := decimal_digits n _ h
  exact absurd this (by decide)

theorem bufSuffix_extLike : extLike bufSuffix = true := by decide
theorem cfiSuffix_extLike : extLike cfiSuffix = true := by decide
theorem cloneSuffix_extLike (r : Rec) : extLike (cloneSuffix r) = true := by
  unfold cloneSuffix; split
  · exact cfiSuffix_extLike
  · exact bufSuffix_extLike
theorem cloneSuffix_ne_nil (r : Rec) : ([] : Str) ≠ cloneSuffix r := by
  unfold cloneSuffix; split <;> decide

/-- Name of a variant of a record: the function suffix extended by `e`. -/
def nameExt (pre : Str) (r : Rec) (e : Str) : Str :=
  pre ++ (unCamel r.name ++ (r.sfx ++ (e ++ r.tsfx)))

/-- Hypotheses on the suffix extensions `ext r` attached to the visible entry points. -/
structure ExtOK (ext : Rec → List Str) (l : List Rec) : Prop where
  /-- every extension is empty or starts with `_` -/
  ext_like : ∀ r ∈ l, ∀ e ∈ ext r, extLike e = true
  /-- the extensions of one entry point are pairwise distinct -/
  ext_nodup : ∀ r ∈ l, (ext r).Nodup
  /-- templated entry points are not extended -/
  ext_templated : ∀ r ∈ l, eligible r = false → ∀ e ∈ ext r, e = []
  /-- explicit suffixes are single `_token`s -/
  local_tok : ∀ r ∈ l, eligible r = true → r.sfxLocal = true → isTok r.sfx = true

theorem pair_names_ne_ext {vis : Wrap → Bool} {ext : Rec → List Str} {seen rest : List Rec} {r b : Rec}
    (pre : Str) (ok : CoreOK vis (seen ++ r :: rest)) (xo : ExtOK ext (seen ++ r :: rest))
    (hb : b ∈ rest) {i : Nat} (hi : (seen ++ [r]).countP (inGroup b.key) ≤ i)
    (vr : vis r.wrap = true) (vb : vis b.wrap = true)
    {e1 e2 : Str} (he1 : e1 ∈ ext r) (he2 : e2 ∈ ext b) :
    nameExt pre (renumber ((seen ++ r :: rest).countP (inGroup r.key)) (seen.countP (inGroup r.key)) r) e1
      ≠ nameExt pre (renumber ((seen ++ r :: rest).countP (inGroup b.key)) i b) e2 := by
  have hrm : r ∈ seen ++ r :: rest := by simp
  have hbm : b ∈ seen ++ r :: rest := by simp [hb]
  have hED := (List.pairwise_cons.1 (List.pairwise_append.1 ok.explicit_distinct).2.1).1 b hb
  have hTA := (List.pairwise_cons.1 (List.pairwise_append.1 ok.templated_alone).2.1).1 b hb
  have hx1 := xo.ext_like r hrm e1 he1
  have hx2 := xo.ext_like b hbm e2 he2
  unfold nameExt
  by_cases hn : r.name = b.name
  · simp only [renumber_name, renumber_tsfx, hn]
    intro h
    have h := List.append_cancel_left (List.append_cancel_left h)
    by_cases he : eligible r = true ∧ eligible b = true
    · obtain ⟨her, heb⟩ := he
      have hk : r.key = b.key := (ok.key_name r hrm b hbm her heb).2 hn
      have gr : inGroup b.key r = true := by simp [inGroup, her, hk]
      have gb : inGroup b.key b = true := by simp [inGroup, heb]
      have hsize : (seen ++ r :: rest).countP (inGroup b.key) > 1 := by
        rw [List.countP_append, List.countP_cons]
        have : 0 < rest.countP (inGroup b.key) := List.countP_pos_iff.2 ⟨b, hb, gb⟩
        simp only [gr, if_true]; omega
      have hgt : seen.countP (inGroup b.key) < i := by
        rw [List.countP_append] at hi
        simp [gr] at hi; omega
      rw [ok.eligible_tsfx r hrm b hbm her heb] at h
      have h : _ ++ e1 = _ ++ e2 := List.append_cancel_right
        (by simpa only [List.append_assoc] using h)
      rw [hk] at h
      have fin : ∀ s1 s2 : Str, isTok s1 = true → isTok s2 = true → s1 ≠ s2 → s1 ++ e1 = s2 ++ e2 → False :=
        fun s1 s2 t1 t2 ne hh => ne (tok_cancel t1 t2 hx1 hx2 hh)
      cases hlr : r.sfxLocal <;> cases hlb : b.sfxLocal
      · rw [renumber_sfx_auto her hsize hlr, renumber_sfx_auto heb hsize hlb] at h
        exact fin _ _ (autoSuffix_isTok _) (autoSuffix_isTok _)
          (fun e => by have := autoSuffix_inj e; omega) h
      · rw [renumber_sfx_auto her hsize hlr, renumber_sfx_local hlb] at h
        exact fin _ _ (autoSuffix_isTok _) (xo.local_tok b hbm heb hlb)
          (fun e => isAuto_ne (ok.explicit_not_auto b hbm heb hlb) e.symm) h
      · rw [renumber_sfx_local hlr, renumber_sfx_auto heb hsize hlb] at h
        exact fin _ _ (xo.local_tok r hrm her hlr) (autoSuffix_isTok _)
          (fun e => isAuto_ne (ok.explicit_not_auto r hrm her hlr) e) h
      · rw [renumber_sfx_local hlr, renumber_sfx_local hlb] at h
        exact fin _ _ (xo.local_tok r hrm her hlr) (xo.local_tok b hbm heb hlb)
          (hED her heb hk hlr hlb) h
    · have hor : eligible r = false ∨ eligible b = false := by
        cases h1 : eligible r <;> cases h2 : eligible b <;> simp_all
      obtain ⟨h1, h2, h3⟩ := hTA hn vr vb hor
      rw [renumber_sfx_templated h1, renumber_sfx_templated h2,
        xo.ext_templated r hrm h1 e1 he1, xo.ext_templated b hbm h2 e2 he2] at h
      exact h3 (by simpa using h)
  · simp only [renumber_name]
    intro h
    have h := List.append_cancel_left h
    exact append_ne_of_not_prefix (ok.prefix_free r hrm b hbm hn)
      (ok.prefix_free b hbm r hrm (Ne.symm hn)) h

theorem numberAux_pairwise_ext {vis : Wrap → Bool} {ext : Rec → List Str}
    (hext : ∀ s i r, ext (renumber s i r) = ext r) (pre : Str) (all : List Rec) :
    ∀ (rest seen : List Rec), all = seen ++ rest → CoreOK vis all → ExtOK ext all →
      (numberAux all seen rest).Pairwise
        (fun a' b' => vis a'.wrap = true → vis b'.wrap = true →
          ∀ e1 ∈ ext a', ∀ e2 ∈ ext b', nameExt pre a' e1 ≠ nameExt pre b' e2) := by
  intro rest
  induction rest with
  | nil => intro _ _ _ _; simp [numberAux]
  | cons r rest ih =>
    intro seen hall ok xo
    simp only [numberAux]
    refine List.pairwise_cons.2 ⟨?_, ih (seen ++ [r]) (by simp [hall]) ok xo⟩
    intro b' hb' va vb e1 he1 e2 he2
    obtain ⟨b, hb, i, hi, e⟩ := mem_numberAux _ _ hb'
    subst e
    simp only [renumber_wrap] at va vb
    rw [hext] at he1 he2
    subst hall
    exact pair_names_ne_ext pre ok xo hb hi va vb he1 he2

theorem nameExt_inj (pre : Str) (r : Rec) {e1 e2 : Str} (h : nameExt pre r e1 = nameExt pre r e2) : e1 = e2 := by
  unfold nameExt at h
  exact List.append_cancel_right
    (List.append_cancel_left (List.append_cancel_left (List.append_cancel_left h)))

/-- All variant names (`function_suffix` extended by the extensions of each visible entry
    point) are pairwise distinct after overload numbering. -/
theorem number_ext_names_nodup {vis : Wrap → Bool} {ext : Rec → List Str}
    (hext : ∀ s i r, ext (renumber s i r) = ext r) (pre : Str) (l : List Rec)
    (ok : CoreOK vis l) (xo : ExtOK ext l) :
    (((number l).filter (fun r => vis r.wrap)).flatMap
        (fun r => (ext r).map (nameExt pre r))).Nodup := by
  unfold List.Nodup
  rw [List.pairwise_flatMap]
  constructor
  · intro r' hr'
    have hm := (List.mem_filter.1 hr').1
    obtain ⟨r, hr, i, _, e⟩ := mem_numberAux (all := l) l [] hm
    rw [List.pairwise_map]
    have hn : (ext r').Nodup := by rw [e, hext]; exact xo.ext_nodup r hr
    exact hn.imp (fun hne h => hne (nameExt_inj pre r' h))
  · rw [List.pairwise_filter]
    refine (numberAux_pairwise_ext hext pre l l [] (by simp) ok xo).imp ?_
    intro a b h va vb x hx y hy
    simp only [List.mem_map] at hx hy
    obtain ⟨e1, he1, rfl⟩ := hx
    obtain ⟨e2, he2, rfl⟩ := hy
    exact h va vb e1 he1 e2 he2


/-! ### Python / Lua method tables -/

theorem dedupAux_spec : ∀ (l seen : List Str),
    (dedupAux seen l).Nodup ∧ ∀ a ∈ dedupAux seen l, a ∉ seen ∧ a ∈ l := by
  intro l
  induction l with
  | nil => intro _; simp [dedupAux]
  | cons a l ih =>
    intro seen
    unfold dedupAux
    split
    · obtain ⟨h1, h2⟩ := ih seen
      exact ⟨h1, fun x hx => ⟨(h2 x hx).1, by simp [(h2 x hx).2]⟩⟩
    · rename_i hs
      obtain ⟨h1, h2⟩ := ih (a :: seen)
      refine ⟨List.nodup_cons.2 ⟨fun hm => ?_, h1⟩, ?_⟩
      · exact (h2 a hm).1 (by simp)
      · intro x hx
        simp only [List.mem_cons] at hx
        rcases hx with rfl | hx
        · exact ⟨hs, by simp⟩
        · have := h2 x hx
          exact ⟨fun hm => this.1 (by simp [hm]), by simp [this.2]⟩

theorem dedup_nodup (l : List Str) : (dedup l).Nodup := (dedupAux_spec l []).1

theorem mem_dedup {l : List Str} {a : Str} (h : a ∈ dedup l) : a ∈ l := ((dedupAux_spec l []).2 a h).2

theorem single_names_nodup (recs : List Rec) :
    ((recs.filter (pySingle recs)).map (·.name)).Nodup := by
  rw [List.nodup_iff_count]
  intro n
  rw [List.count_eq_countP, List.countP_map, List.countP_filter]
  by_cases h : pyCount recs n = 1
  · have : List.countP (fun a => ((fun x => x == n) ∘ fun r => r.name) a && pySingle recs a) recs
        ≤ pyCount recs n := by
      unfold pyCount
      apply List.countP_mono_left
      intro r _ hr
      simp only [Function.comp, pySingle, Bool.and_eq_true, beq_iff_eq] at hr
      simp [hr.1, hr.2.1.1]
    omega
  · have : List.countP (fun a => ((fun x => x == n) ∘ fun r => r.name) a && pySingle recs a) recs = 0 := by
      apply List.countP_eq_zero.2
      intro r _
      simp only [Function.comp, pySingle, Bool.and_eq_true, beq_iff_eq, not_and]
      intro hn _
      subst hn
      exact h
    omega

end Shroud.Names
