import ShroudVerif.Model.Enum
/-!
Helper lemmas for C11: fuel monotonicity of the two token evaluators and their
correctness on the token sequence of a printed expression.
-/
namespace Shroud.Enum

/-! ### tokens of a printed expression -/

def Op.tok : Op → Tok
  | .add => .plus | .sub => .minus | .mul => .star | .div => .slash
def Sign.tok : Sign → Tok
  | .pos => .plus | .neg => .minus

def headSign : List Tok → Bool
  | .plus :: _ | .minus :: _ => true
  | _ => false

def wrapT (ts : List Tok) : List Tok := if headSign ts then .lp :: ts ++ [.rp] else ts

def toks (fid flit : Str → Str) : Expr → List Tok
  | .lit t => [.num (flit t)]
  | .id n => [.ident (fid n)]
  | .paren e => .lp :: toks fid flit e ++ [.rp]
  | .un s e => s.tok :: wrapT (toks fid flit e)
  | .bin l op r => toks fid flit l ++ op.tok :: wrapT (toks fid flit r)

/-- fuel needed by the recursive-descent evaluators on `toks e` -/
def need : Expr → Nat
  | .lit _ | .id _ => 1
  | .paren e => need e + 3
  | .un _ e => need e + 4
  | .bin l _ r => need l + need r + 5

def noMul : List Tok → Bool
  | .star :: _ | .slash :: _ => false
  | _ => true

/-! ### C evaluator: more fuel never changes a result -/

theorem c_mono (f : Nat) :
    (∀ env ts x, cExpr f env ts = some x → cExpr (f+1) env ts = some x) ∧
    (∀ env acc ts x, cAddRest f env acc ts = some x → cAddRest (f+1) env acc ts = some x) ∧
    (∀ env ts x, cTerm f env ts = some x → cTerm (f+1) env ts = some x) ∧
    (∀ env acc ts x, cMulRest f env acc ts = some x → cMulRest (f+1) env acc ts = some x) ∧
    (∀ env ts x, cUnary f env ts = some x → cUnary (f+1) env ts = some x) := by
  induction f with
  | zero =>
    refine ⟨?_, ?_, ?_, ?_, ?_⟩
    · intro env ts x h; simp [cExpr] at h
    · intro env acc ts x h
      unfold cAddRest at h ⊢
      split at h <;> simp_all
    · intro env ts x h; simp [cTerm] at h
    · intro env acc ts x h
      unfold cMulRest at h ⊢
      split at h <;> simp_all
    · intro env ts x h; simp [cUnary] at h
  | succ f ih =>
    obtain ⟨ihE, ihA, ihT, ihM, ihU⟩ := ih
    refine ⟨?_, ?_, ?_, ?_, ?_⟩
    · intro env ts x h
      rw [cExpr] at h ⊢
      obtain ⟨p, hp, hx⟩ := Option.bind_eq_some_iff.mp h
      rw [ihT _ _ _ hp]; simpa using ihA _ _ _ _ hx
    · intro env acc ts x h
      match ts with
      | .plus :: ts' =>
        rw [cAddRest] at h ⊢
        obtain ⟨p, hp, hx⟩ := Option.bind_eq_some_iff.mp h
        rw [ihT _ _ _ hp]; simpa using ihA _ _ _ _ hx
      | .minus :: ts' =>
        rw [cAddRest] at h ⊢
        obtain ⟨p, hp, hx⟩ := Option.bind_eq_some_iff.mp h
        rw [ihT _ _ _ hp]; simpa using ihA _ _ _ _ hx
      | [] => simp [cAddRest] at h ⊢; exact h
      | .num _ :: _ | .ident _ :: _ | .star :: _ | .slash :: _ | .lp :: _ | .rp :: _ | .bad :: _ =>
        simp [cAddRest] at h ⊢; exact h
    · intro env ts x h
      rw [cTerm] at h ⊢
      obtain ⟨p, hp, hx⟩ := Option.bind_eq_some_iff.mp h
      rw [ihU _ _ _ hp]; simpa using ihM _ _ _ _ hx
    · intro env acc ts x h
      match ts with
      | .star :: ts' =>
        rw [cMulRest] at h ⊢
        obtain ⟨p, hp, hx⟩ := Option.bind_eq_some_iff.mp h
        rw [ihU _ _ _ hp]; simpa using ihM _ _ _ _ hx
      | .slash :: ts' =>
        rw [cMulRest] at h ⊢
        obtain ⟨p, hp, hx⟩ := Option.bind_eq_some_iff.mp h
        obtain ⟨q, hq, hx⟩ := Option.bind_eq_some_iff.mp hx
        rw [ihU _ _ _ hp]; simp [hq]; exact ihM _ _ _ _ hx
      | [] => simp [cMulRest] at h ⊢; exact h
      | .num _ :: _ | .ident _ :: _ | .plus :: _ | .minus :: _ | .lp :: _ | .rp :: _ | .bad :: _ =>
        simp [cMulRest] at h ⊢; exact h
    · intro env ts x h
      match ts with
      | .plus :: ts' => rw [cUnary] at h ⊢; exact ihU _ _ _ h
      | .minus :: ts' =>
        rw [cUnary] at h ⊢
        obtain ⟨p, hp, hx⟩ := Option.bind_eq_some_iff.mp h
        rw [ihU _ _ _ hp]; simpa using hx
      | .lp :: ts' =>
        rw [cUnary] at h ⊢
        obtain ⟨p, hp, hx⟩ := Option.bind_eq_some_iff.mp h
        rw [ihE _ _ _ hp]; simpa using hx
      | [] => simp [cUnary] at h
      | .num _ :: _ | .ident _ :: _ => simp [cUnary] at h ⊢; exact h
      | .star :: _ | .slash :: _ | .rp :: _ | .bad :: _ => simp [cUnary] at h

theorem cExpr_mono {f g env ts x} (h : cExpr f env ts = some x) (hle : f ≤ g) : cExpr g env ts = some x := by
  induction hle with
  | refl => exact h
  | step _ ih => exact (c_mono _).1 _ _ _ ih
theorem cAddRest_mono {f g env acc ts x} (h : cAddRest f env acc ts = some x) (hle : f ≤ g) :
    cAddRest g env acc ts = some x := by
  induction hle with
  | refl => exact h
  | step _ ih => exact (c_mono _).2.1 _ _ _ _ ih
theorem cTerm_mono {f g env ts x} (h : cTerm f env ts = some x) (hle : f ≤ g) : cTerm g env ts = some x := by
  induction hle with
  | refl => exact h
  | step _ ih => exact (c_mono _).2.2.1 _ _ _ ih
theorem cMulRest_mono {f g env acc ts x} (h : cMulRest f env acc ts = some x) (hle : f ≤ g) :
    cMulRest g env acc ts = some x := by
  induction hle with
  | refl => exact h
  | step _ ih => exact (c_mono _).2.2.2.1 _ _ _ _ ih
theorem cUnary_mono {f g env ts x} (h : cUnary f env ts = some x) (hle : f ≤ g) : cUnary g env ts = some x := by
  induction hle with
  | refl => exact h
  | step _ ih => exact (c_mono _).2.2.2.2 _ _ _ ih

theorem cAddRest_stop (f env acc) {ts : List Tok} (h : headSign ts = false) :
    cAddRest f env acc ts = some (acc, ts) := by
  unfold cAddRest
  split <;> simp_all [headSign]

theorem cMulRest_stop (f env acc) {ts : List Tok} (h : noMul ts = true) :
    cMulRest f env acc ts = some (acc, ts) := by
  unfold cMulRest
  split <;> simp_all [noMul]

theorem cUnary_lp (f env ts) : cUnary (f+1) env (.lp :: ts) = (cExpr f env ts).bind fun p => expectRp p.1 p.2 := by
  simp only [cUnary]
theorem cUnary_plus (f env ts) : cUnary (f+1) env (.plus :: ts) = cUnary f env ts := by
  simp only [cUnary]
theorem cUnary_minus (f env ts) : cUnary (f+1) env (.minus :: ts) = (cUnary f env ts).bind fun p => some (-p.1, p.2) := by
  simp only [cUnary]
theorem cUnary_num (f env s ts) : cUnary (f+1) env (.num s :: ts) = (litVal s).map (fun n => (Int.ofNat n, ts)) := by
  simp only [cUnary]
theorem cUnary_ident (f env s ts) : cUnary (f+1) env (.ident s :: ts) = (env.lookup s).map (fun v => (v, ts)) := by
  simp only [cUnary]
theorem cAddRest_plus (f env acc ts) : cAddRest (f+1) env acc (.plus :: ts) =
    (cTerm f env ts).bind fun p => cAddRest f env (acc + p.1) p.2 := by simp only [cAddRest]
theorem cAddRest_minus (f env acc ts) : cAddRest (f+1) env acc (.minus :: ts) =
    (cTerm f env ts).bind fun p => cAddRest f env (acc - p.1) p.2 := by simp only [cAddRest]
theorem cMulRest_star (f env acc ts) : cMulRest (f+1) env acc (.star :: ts) =
    (cUnary f env ts).bind fun p => cMulRest f env (acc * p.1) p.2 := by simp only [cMulRest]
theorem cMulRest_slash (f env acc ts) : cMulRest (f+1) env acc (.slash :: ts) =
    (cUnary f env ts).bind fun p => (divC acc p.1).bind fun q => cMulRest f env q p.2 := by simp only [cMulRest]

/-! ### C evaluator on printed tokens -/

section C
variable (env env' : Env) (fid flit : Str → Str)

def ClU (e : Expr) (v : Int) : Prop :=
  ∀ R f, need e ≤ f → cUnary f env' (toks fid flit e ++ R) = some (v, R)
def ClM (e : Expr) (v : Int) : Prop :=
  ∀ R g x f, cMulRest g env' v R = some x → g + need e + 1 ≤ f → cTerm f env' (toks fid flit e ++ R) = some x
def ClA (e : Expr) (v : Int) : Prop :=
  ∀ R g x f, noMul R = true → cAddRest g env' v R = some x → g + need e + 2 ≤ f →
    cExpr f env' (toks fid flit e ++ R) = some x

variable {env' fid flit}

theorem clM_of_clU {e v} (h : ClU env' fid flit e v) : ClM env' fid flit e v := by
  intro R g x f hx hf
  obtain ⟨f', rfl⟩ : ∃ f', f = f' + 1 := ⟨f - 1, by omega⟩
  rw [cTerm, h R f' (by omega)]
  simpa using cMulRest_mono hx (by omega)

theorem clA_of_clM {e v} (h : ClM env' fid flit e v) : ClA env' fid flit e v := by
  intro R g x f hR hx hf
  obtain ⟨f', rfl⟩ : ∃ f', f = f' + 1 := ⟨f - 1, by omega⟩
  rw [cExpr, h R 0 (v, R) f' (cMulRest_stop _ _ _ hR) (by omega)]
  simpa using cAddRest_mono hx (by omega)

theorem noMul_rp (R : List Tok) : noMul (.rp :: R) = true := rfl
theorem headSign_rp (R : List Tok) : headSign (.rp :: R) = false := rfl

/-- a parenthesised expression as a unary operand -/
theorem paren_unary {e v} (h : ClA env' fid flit e v) (R : List Tok) (f : Nat) (hf : need e + 3 ≤ f) :
    cUnary f env' (.lp :: (toks fid flit e ++ .rp :: R)) = some (v, R) := by
  obtain ⟨f', rfl⟩ : ∃ f', f = f' + 1 := ⟨f - 1, by omega⟩
  rw [cUnary_lp, h (.rp :: R) 0 (v, .rp :: R) f' rfl (cAddRest_stop _ _ _ rfl) (by omega)]
  simp [expectRp]

theorem wrap_unary {e v} (hA : ClA env' fid flit e v) (hU : ClU env' fid flit e v)
    (R : List Tok) (f : Nat) (hf : need e + 3 ≤ f) :
    cUnary f env' (wrapT (toks fid flit e) ++ R) = some (v, R) := by
  unfold wrapT
  split
  · simpa using paren_unary hA R f hf
  · exact hU R f (by omega)

theorem wrap_term {e v} (hA : ClA env' fid flit e v) (hM : ClM env' fid flit e v)
    (R : List Tok) (hR : noMul R = true) (f : Nat) (hf : need e + 4 ≤ f) :
    cTerm f env' (wrapT (toks fid flit e) ++ R) = some (v, R) := by
  unfold wrapT
  split
  · obtain ⟨f', rfl⟩ : ∃ f', f = f' + 1 := ⟨f - 1, by omega⟩
    have := paren_unary hA R f' (by omega)
    simp only [List.cons_append, List.append_assoc, List.nil_append] at this ⊢
    rw [cTerm, this]
    simpa using cMulRest_stop _ _ _ hR
  · exact hM R 0 (v, R) f (cMulRest_stop _ _ _ hR) (by omega)

end C


structure LeafC (env env' : Env) (fid flit : Str → Str) : Prop where
  lit : ∀ t n, litVal t = some n → litVal (flit t) = some n
  idn : ∀ n v, env.lookup n = some v → env'.lookup (fid n) = some v

theorem level_le (e : Expr) : e.level ≤ 3 := by
  cases e with
  | bin l op r => cases op <;> simp [Expr.level]
  | _ => simp [Expr.level]

theorem toks_bin_append (fid flit l op r) (R : List Tok) :
    toks fid flit (.bin l op r) ++ R = toks fid flit l ++ (op.tok :: (wrapT (toks fid flit r) ++ R)) := by
  simp [toks]

theorem c_correct {env env' : Env} {fid flit : Str → Str} (hl : LeafC env env' fid flit) :
    ∀ e : Expr, e.wf = true → ∀ v, evalExpr env e = some v →
      ClA env' fid flit e v ∧ (2 ≤ e.level → ClM env' fid flit e v) ∧ (e.level = 3 → ClU env' fid flit e v) := by
  intro e
  induction e with
  | lit t =>
    intro _ v hv
    have hU : ClU env' fid flit (.lit t) v := by
      intro R f hf
      obtain ⟨f', rfl⟩ : ∃ f', f = f' + 1 := ⟨f - 1, by simp [need] at hf; omega⟩
      simp only [evalExpr, Option.map_eq_some_iff] at hv
      obtain ⟨n, hn, rfl⟩ := hv
      simp [toks, cUnary_num, hl.lit t n hn]
    exact ⟨clA_of_clM (clM_of_clU hU), fun _ => clM_of_clU hU, fun _ => hU⟩
  | id n =>
    intro _ v hv
    have hU : ClU env' fid flit (.id n) v := by
      intro R f hf
      obtain ⟨f', rfl⟩ : ∃ f', f = f' + 1 := ⟨f - 1, by simp [need] at hf; omega⟩
      simp only [evalExpr] at hv
      simp [toks, cUnary_ident, hl.idn n v hv]
    exact ⟨clA_of_clM (clM_of_clU hU), fun _ => clM_of_clU hU, fun _ => hU⟩
  | paren e ih =>
    intro hwf v hv
    simp only [Expr.wf] at hwf
    simp only [evalExpr] at hv
    obtain ⟨hA, _, _⟩ := ih hwf v hv
    have hU : ClU env' fid flit (.paren e) v := by
      intro R f hf
      have := paren_unary hA R f (by simp [need] at hf; omega)
      simpa [toks] using this
    exact ⟨clA_of_clM (clM_of_clU hU), fun _ => clM_of_clU hU, fun _ => hU⟩
  | un s e ih =>
    intro hwf v hv
    simp only [Expr.wf, Bool.and_eq_true, beq_iff_eq] at hwf
    obtain ⟨hwe, hlev⟩ := hwf
    have hU : ClU env' fid flit (.un s e) v := by
      intro R f hf
      obtain ⟨f', rfl⟩ : ∃ f', f = f' + 1 := ⟨f - 1, by simp [need] at hf; omega⟩
      simp only [need] at hf
      cases s with
      | pos =>
        simp only [evalExpr] at hv
        obtain ⟨hA, _, hU⟩ := ih hwe v hv
        simp only [toks, Sign.tok, List.cons_append, cUnary_plus]
        exact wrap_unary hA (hU hlev) R f' (by omega)
      | neg =>
        simp only [evalExpr, Option.map_eq_some_iff] at hv
        obtain ⟨w, hw, rfl⟩ := hv
        obtain ⟨hA, _, hU⟩ := ih hwe w hw
        simp only [toks, Sign.tok, List.cons_append, cUnary_minus]
        rw [wrap_unary hA (hU hlev) R f' (by omega)]
        simp
    exact ⟨clA_of_clM (clM_of_clU hU), fun _ => clM_of_clU hU, fun _ => hU⟩
  | bin l op r ihl ihr =>
    intro hwf v hv
    simp only [Expr.wf, Bool.and_eq_true, decide_eq_true_eq] at hwf
    obtain ⟨⟨⟨hwl, hwr⟩, hpl⟩, hpr⟩ := hwf
    simp only [evalExpr] at hv
    cases hel : evalExpr env l with
    | none => simp [hel] at hv
    | some a =>
    cases her : evalExpr env r with
    | none => simp [hel, her] at hv
    | some b =>
    simp only [hel, her] at hv
    obtain ⟨hAl, hMl, _⟩ := ihl hwl a hel
    obtain ⟨hAr, hMr, hUr⟩ := ihr hwr b her
    have hr3 := level_le r
    -- additive operators
    have addCase : ∀ (tk : Tok) (comb : Int → Int → Int),
        (∀ f acc ts, cAddRest (f+1) env' acc (tk :: ts) = (cTerm f env' ts).bind fun p => cAddRest f env' (comb acc p.1) p.2) →
        (∀ ts, noMul (tk :: ts) = true) →
        op.tok = tk → op.prec = 1 → v = comb a b → ClA env' fid flit (.bin l op r) v := by
      intro tk comb hstep hnm htk hprec hvv R g x f hR hx hf
      simp only [need] at hf
      rw [toks_bin_append, htk]
      refine hAl _ (g + need r + 5) x f (hnm _) ?_ (by omega)
      rw [hstep, wrap_term hAr (hMr (by omega)) R hR _ (by omega)]
      simp only [Option.bind_some]
      rw [← hvv]
      exact cAddRest_mono hx (by omega)
    have mulCase : ∀ (tk : Tok) (comb : Int → Int → Option Int),
        (∀ f acc ts, cMulRest (f+1) env' acc (tk :: ts) =
            (cUnary f env' ts).bind fun p => (comb acc p.1).bind fun q => cMulRest f env' q p.2) →
        op.tok = tk → op.prec = 2 → comb a b = some v → ClM env' fid flit (.bin l op r) v := by
      intro tk comb hstep htk hprec hvv R g x f hx hf
      simp only [need] at hf
      rw [toks_bin_append, htk]
      refine hMl (by omega) _ (g + need r + 4) x f ?_ (by omega)
      rw [hstep, wrap_unary hAr (hUr (by omega)) R _ (by omega)]
      simp only [Option.bind_some, hvv]
      exact cMulRest_mono hx (by omega)
    cases op with
    | add =>
      simp only [applyOp, Option.some.injEq] at hv
      refine ⟨addCase .plus (· + ·) (fun f acc ts => cAddRest_plus f env' acc ts) (fun _ => rfl) rfl rfl hv.symm, by simp [Expr.level], by simp [Expr.level]⟩
    | sub =>
      simp only [applyOp, Option.some.injEq] at hv
      refine ⟨addCase .minus (· - ·) (fun f acc ts => cAddRest_minus f env' acc ts) (fun _ => rfl) rfl rfl hv.symm, by simp [Expr.level], by simp [Expr.level]⟩
    | mul =>
      simp only [applyOp, Option.some.injEq] at hv
      have hM := mulCase .star (fun x y => some (x * y)) (by intro f acc ts; simp [cMulRest_star]) rfl rfl (by simp [hv])
      exact ⟨clA_of_clM hM, fun _ => hM, by simp [Expr.level]⟩
    | div =>
      have hM := mulCase .slash divC (by intro f acc ts; simp [cMulRest_slash]) rfl rfl (by simpa [applyOp, divC] using hv)
      exact ⟨clA_of_clM hM, fun _ => hM, by simp [Expr.level]⟩



/-! ### Fortran evaluator: equations, fuel monotonicity -/

theorem fExpr_plus (f env ts) : fExpr (f+1) env (.plus :: ts) =
    (fTerm f env ts).bind fun p => fAddRest f env p.1 p.2 := by simp only [fExpr]
theorem fExpr_minus (f env ts) : fExpr (f+1) env (.minus :: ts) =
    (fTerm f env ts).bind fun p => fAddRest f env (-p.1) p.2 := by simp only [fExpr]
theorem fExpr_nosign (f env) {ts : List Tok} (h : headSign ts = false) : fExpr (f+1) env ts =
    (fTerm f env ts).bind fun p => fAddRest f env p.1 p.2 := by
  unfold fExpr
  split <;> simp_all [headSign]
theorem fAddRest_plus (f env acc ts) : fAddRest (f+1) env acc (.plus :: ts) =
    (fTerm f env ts).bind fun p => fAddRest f env (acc + p.1) p.2 := by simp only [fAddRest]
theorem fAddRest_minus (f env acc ts) : fAddRest (f+1) env acc (.minus :: ts) =
    (fTerm f env ts).bind fun p => fAddRest f env (acc - p.1) p.2 := by simp only [fAddRest]
theorem fMulRest_star (f env acc ts) : fMulRest (f+1) env acc (.star :: ts) =
    (fPrim f env ts).bind fun p => fMulRest f env (acc * p.1) p.2 := by simp only [fMulRest]
theorem fMulRest_slash (f env acc ts) : fMulRest (f+1) env acc (.slash :: ts) =
    (fPrim f env ts).bind fun p => (divC acc p.1).bind fun q => fMulRest f env q p.2 := by simp only [fMulRest]
theorem fPrim_lp (f env ts) : fPrim (f+1) env (.lp :: ts) = (fExpr f env ts).bind fun p => expectRp p.1 p.2 := by
  simp only [fPrim]
theorem fPrim_num (f env s ts) : fPrim (f+1) env (.num s :: ts) = (litValF s).map (fun n => (Int.ofNat n, ts)) := by
  simp only [fPrim]
theorem fPrim_ident (f env s ts) : fPrim (f+1) env (.ident s :: ts) = (env.lookup s).map (fun v => (v, ts)) := by
  simp only [fPrim]

theorem fAddRest_stop (f env acc) {ts : List Tok} (h : headSign ts = false) :
    fAddRest f env acc ts = some (acc, ts) := by
  unfold fAddRest
  split <;> simp_all [headSign]

theorem fMulRest_stop (f env acc) {ts : List Tok} (h : noMul ts = true) :
    fMulRest f env acc ts = some (acc, ts) := by
  unfold fMulRest
  split <;> simp_all [noMul]

theorem f_mono (f : Nat) :
    (∀ env ts x, fExpr f env ts = some x → fExpr (f+1) env ts = some x) ∧
    (∀ env acc ts x, fAddRest f env acc ts = some x → fAddRest (f+1) env acc ts = some x) ∧
    (∀ env ts x, fTerm f env ts = some x → fTerm (f+1) env ts = some x) ∧
    (∀ env acc ts x, fMulRest f env acc ts = some x → fMulRest (f+1) env acc ts = some x) ∧
    (∀ env ts x, fPrim f env ts = some x → fPrim (f+1) env ts = some x) := by
  induction f with
  | zero =>
    refine ⟨?_, ?_, ?_, ?_, ?_⟩
    · intro env ts x h; simp [fExpr] at h
    · intro env acc ts x h
      unfold fAddRest at h ⊢
      split at h <;> simp_all
    · intro env ts x h; simp [fTerm] at h
    · intro env acc ts x h
      unfold fMulRest at h ⊢
      split at h <;> simp_all
    · intro env ts x h; simp [fPrim] at h
  | succ f ih =>
    obtain ⟨ihE, ihA, ihT, ihM, ihP⟩ := ih
    refine ⟨?_, ?_, ?_, ?_, ?_⟩
    · intro env ts x h
      match ts with
      | .plus :: ts' =>
        rw [fExpr_plus] at h ⊢
        obtain ⟨p, hp, hx⟩ := Option.bind_eq_some_iff.mp h
        rw [ihT _ _ _ hp]; simpa using ihA _ _ _ _ hx
      | .minus :: ts' =>
        rw [fExpr_minus] at h ⊢
        obtain ⟨p, hp, hx⟩ := Option.bind_eq_some_iff.mp h
        rw [ihT _ _ _ hp]; simpa using ihA _ _ _ _ hx
      | [] | .num _ :: _ | .ident _ :: _ | .star :: _ | .slash :: _ | .lp :: _ | .rp :: _ | .bad :: _ =>
        rw [fExpr_nosign _ _ rfl] at h ⊢
        obtain ⟨p, hp, hx⟩ := Option.bind_eq_some_iff.mp h
        rw [ihT _ _ _ hp]; simpa using ihA _ _ _ _ hx
    · intro env acc ts x h
      match ts with
      | .plus :: ts' =>
        rw [fAddRest_plus] at h ⊢
        obtain ⟨p, hp, hx⟩ := Option.bind_eq_some_iff.mp h
        rw [ihT _ _ _ hp]; simpa using ihA _ _ _ _ hx
      | .minus :: ts' =>
        rw [fAddRest_minus] at h ⊢
        obtain ⟨p, hp, hx⟩ := Option.bind_eq_some_iff.mp h
        rw [ihT _ _ _ hp]; simpa using ihA _ _ _ _ hx
      | [] | .num _ :: _ | .ident _ :: _ | .star :: _ | .slash :: _ | .lp :: _ | .rp :: _ | .bad :: _ =>
        rw [fAddRest_stop _ _ _ rfl] at h ⊢; exact h
    · intro env ts x h
      rw [fTerm] at h ⊢
      obtain ⟨p, hp, hx⟩ := Option.bind_eq_some_iff.mp h
      rw [ihP _ _ _ hp]; simpa using ihM _ _ _ _ hx
    · intro env acc ts x h
      match ts with
      | .star :: ts' =>
        rw [fMulRest_star] at h ⊢
        obtain ⟨p, hp, hx⟩ := Option.bind_eq_some_iff.mp h
        rw [ihP _ _ _ hp]; simpa using ihM _ _ _ _ hx
      | .slash :: ts' =>
        rw [fMulRest_slash] at h ⊢
        obtain ⟨p, hp, hx⟩ := Option.bind_eq_some_iff.mp h
        obtain ⟨q, hq, hx⟩ := Option.bind_eq_some_iff.mp hx
        rw [ihP _ _ _ hp]; simp [hq]; exact ihM _ _ _ _ hx
      | [] | .num _ :: _ | .ident _ :: _ | .plus :: _ | .minus :: _ | .lp :: _ | .rp :: _ | .bad :: _ =>
        rw [fMulRest_stop _ _ _ rfl] at h ⊢; exact h
    · intro env ts x h
      match ts with
      | .lp :: ts' =>
        rw [fPrim_lp] at h ⊢
        obtain ⟨p, hp, hx⟩ := Option.bind_eq_some_iff.mp h
        rw [ihE _ _ _ hp]; simpa using hx
      | [] => simp [fPrim] at h
      | .num _ :: _ | .ident _ :: _ => simp [fPrim] at h ⊢; exact h
      | .plus :: _ | .minus :: _ | .star :: _ | .slash :: _ | .rp :: _ | .bad :: _ => simp [fPrim] at h

theorem fExpr_mono {f g env ts x} (h : fExpr f env ts = some x) (hle : f ≤ g) : fExpr g env ts = some x := by
  induction hle with
  | refl => exact h
  | step _ ih => exact (f_mono _).1 _ _ _ ih
theorem fAddRest_mono {f g env acc ts x} (h : fAddRest f env acc ts = some x) (hle : f ≤ g) :
    fAddRest g env acc ts = some x := by
  induction hle with
  | refl => exact h
  | step _ ih => exact (f_mono _).2.1 _ _ _ _ ih
theorem fTerm_mono {f g env ts x} (h : fTerm f env ts = some x) (hle : f ≤ g) : fTerm g env ts = some x := by
  induction hle with
  | refl => exact h
  | step _ ih => exact (f_mono _).2.2.1 _ _ _ ih
theorem fMulRest_mono {f g env acc ts x} (h : fMulRest f env acc ts = some x) (hle : f ≤ g) :
    fMulRest g env acc ts = some x := by
  induction hle with
  | refl => exact h
  | step _ ih => exact (f_mono _).2.2.2.1 _ _ _ _ ih
theorem fPrim_mono {f g env ts x} (h : fPrim f env ts = some x) (hle : f ≤ g) : fPrim g env ts = some x := by
  induction hle with
  | refl => exact h
  | step _ ih => exact (f_mono _).2.2.2.2 _ _ _ ih



/-! ### Fortran evaluator on printed tokens -/

def sgn : Sign → Int → Int
  | .pos, u => u
  | .neg, u => -u

theorem toks_ne_nil (fid flit e) : toks fid flit e ≠ [] := by
  cases e <;> simp [toks]

theorem headSign_append {ts : List Tok} (h : ts ≠ []) (R : List Tok) : headSign (ts ++ R) = headSign ts := by
  cases ts with
  | nil => exact absurd rfl h
  | cons t ts => cases t <;> rfl

theorem headSign_bin (fid flit l op r) : headSign (toks fid flit (.bin l op r)) = headSign (toks fid flit l) := by
  simp only [toks]; exact headSign_append (toks_ne_nil _ _ _) _

section F
variable (env env' : Env) (fid flit : Str → Str)

def FlP (e : Expr) (v : Int) : Prop :=
  ∀ R f, need e ≤ f → fPrim f env' (toks fid flit e ++ R) = some (v, R)
/-- continuation form of "the tokens `T` are a term of value `u`" -/
def FCont (T : List Tok) (u : Int) (n : Nat) : Prop :=
  ∀ R g x f, fMulRest g env' u R = some x → g + n + 1 ≤ f → fTerm f env' (T ++ R) = some x
def FlM (e : Expr) (v : Int) : Prop := FCont env' (toks fid flit e) v (need e)
def FlS (e : Expr) (v : Int) : Prop :=
  ∃ s T u, toks fid flit e = s.tok :: T ∧ v = sgn s u ∧ FCont env' T u (need e)
def FlA (e : Expr) (v : Int) : Prop :=
  ∀ R g x f, noMul R = true → fAddRest g env' v R = some x → g + need e + 2 ≤ f →
    fExpr f env' (toks fid flit e ++ R) = some x

variable {env' fid flit}

theorem flM_of_flP {e v} (h : FlP env' fid flit e v) : FlM env' fid flit e v := by
  intro R g x f hx hf
  obtain ⟨f', rfl⟩ : ∃ f', f = f' + 1 := ⟨f - 1, by omega⟩
  rw [fTerm, h R f' (by omega)]
  simpa using fMulRest_mono hx (by omega)

theorem flA_of_flM {e v} (hs : headSign (toks fid flit e) = false) (h : FlM env' fid flit e v) :
    FlA env' fid flit e v := by
  intro R g x f hR hx hf
  obtain ⟨f', rfl⟩ : ∃ f', f = f' + 1 := ⟨f - 1, by omega⟩
  rw [fExpr_nosign _ _ (by rw [headSign_append (toks_ne_nil _ _ _)]; exact hs),
    h R 0 (v, R) f' (fMulRest_stop _ _ _ hR) (by omega)]
  simpa using fAddRest_mono hx (by omega)

theorem flA_of_flS {e v} (h : FlS env' fid flit e v) : FlA env' fid flit e v := by
  obtain ⟨s, T, u, ht, hv, hc⟩ := h
  intro R g x f hR hx hf
  obtain ⟨f', rfl⟩ : ∃ f', f = f' + 1 := ⟨f - 1, by omega⟩
  have := hc R 0 (u, R) f' (fMulRest_stop _ _ _ hR) (by omega)
  rw [ht]
  cases s with
  | pos =>
    simp only [Sign.tok, List.cons_append, fExpr_plus, this, Option.bind_some]
    simp only [sgn] at hv; rw [← hv]; exact fAddRest_mono hx (by omega)
  | neg =>
    simp only [Sign.tok, List.cons_append, fExpr_minus, this, Option.bind_some]
    simp only [sgn] at hv; rw [← hv]; exact fAddRest_mono hx (by omega)

theorem paren_prim {e v} (h : FlA env' fid flit e v) (R : List Tok) (f : Nat) (hf : need e + 3 ≤ f) :
    fPrim f env' (.lp :: (toks fid flit e ++ .rp :: R)) = some (v, R) := by
  obtain ⟨f', rfl⟩ : ∃ f', f = f' + 1 := ⟨f - 1, by omega⟩
  rw [fPrim_lp, h (.rp :: R) 0 (v, .rp :: R) f' rfl (fAddRest_stop _ _ _ rfl) (by omega)]
  simp [expectRp]

theorem wrap_primF {e v} (hA : FlA env' fid flit e v)
    (hP : headSign (toks fid flit e) = false → FlP env' fid flit e v)
    (R : List Tok) (f : Nat) (hf : need e + 3 ≤ f) :
    fPrim f env' (wrapT (toks fid flit e) ++ R) = some (v, R) := by
  unfold wrapT
  split
  · simpa using paren_prim hA R f hf
  · exact hP (by simpa using ‹¬ headSign (toks fid flit e) = true›) R f (by omega)

theorem wrap_termF {e v} (hA : FlA env' fid flit e v)
    (hM : headSign (toks fid flit e) = false → FlM env' fid flit e v)
    (R : List Tok) (hR : noMul R = true) (f : Nat) (hf : need e + 4 ≤ f) :
    fTerm f env' (wrapT (toks fid flit e) ++ R) = some (v, R) := by
  unfold wrapT
  split
  · obtain ⟨f', rfl⟩ : ∃ f', f = f' + 1 := ⟨f - 1, by omega⟩
    have := paren_prim hA R f' (by omega)
    simp only [List.cons_append, List.append_assoc, List.nil_append] at this ⊢
    rw [fTerm, this]
    simpa using fMulRest_stop _ _ _ hR
  · exact hM (by simpa using ‹¬ headSign (toks fid flit e) = true›) R 0 (v, R) f (fMulRest_stop _ _ _ hR) (by omega)

/-- one more factor after a term -/
theorem mulStep {Tl : List Tok} {ul : Int} {nl : Nat} (hc : FCont env' Tl ul nl)
    {r : Expr} {b : Int} (hAr : FlA env' fid flit r b)
    (hPr : headSign (toks fid flit r) = false → FlP env' fid flit r b)
    (tk : Tok) (comb : Int → Int → Option Int) (w : Int)
    (hstep : ∀ f acc ts, fMulRest (f+1) env' acc (tk :: ts) =
        (fPrim f env' ts).bind fun p => (comb acc p.1).bind fun q => fMulRest f env' q p.2)
    (hw : comb ul b = some w) :
    FCont env' (Tl ++ tk :: wrapT (toks fid flit r)) w (nl + need r + 5) := by
  intro R g x f hx hf
  have : (Tl ++ tk :: wrapT (toks fid flit r)) ++ R = Tl ++ (tk :: (wrapT (toks fid flit r) ++ R)) := by simp
  rw [this]
  refine hc _ (g + need r + 4) x f ?_ (by omega)
  rw [hstep, wrap_primF hAr hPr R _ (by omega)]
  simp only [Option.bind_some, hw]
  exact fMulRest_mono hx (by omega)

end F


structure LeafF (env env' : Env) (fid flit : Str → Str) : Prop where
  lit : ∀ t n, litVal t = some n → litValF (flit t) = some n
  idn : ∀ n v, env.lookup n = some v → env'.lookup (fid n) = some v

theorem sgn_mul (s : Sign) (u b : Int) : sgn s u * b = sgn s (u * b) := by
  cases s <;> simp [sgn, Int.neg_mul]

theorem divC_sgn {s : Sign} {u b v : Int} (h : divC (sgn s u) b = some v) :
    ∃ w, divC u b = some w ∧ v = sgn s w := by
  unfold divC at h ⊢
  split at h
  · simp at h
  · rename_i hb
    simp only [Option.some.injEq] at h
    refine ⟨u.tdiv b, by simp [hb], ?_⟩
    cases s <;> simp [sgn] at h ⊢ <;> exact h.symm

theorem f_correct {env env' : Env} {fid flit : Str → Str} (hl : LeafF env env' fid flit) :
    ∀ e : Expr, e.wf = true → ∀ v, evalExpr env e = some v →
      FlA env' fid flit e v ∧
      (2 ≤ e.level → headSign (toks fid flit e) = false → FlM env' fid flit e v) ∧
      (2 ≤ e.level → headSign (toks fid flit e) = true → FlS env' fid flit e v) ∧
      (e.level = 3 → headSign (toks fid flit e) = false → FlP env' fid flit e v) := by
  intro e
  induction e with
  | lit t =>
    intro _ v hv
    have hP : FlP env' fid flit (.lit t) v := by
      intro R f hf
      obtain ⟨f', rfl⟩ : ∃ f', f = f' + 1 := ⟨f - 1, by simp [need] at hf; omega⟩
      simp only [evalExpr, Option.map_eq_some_iff] at hv
      obtain ⟨n, hn, rfl⟩ := hv
      simp [toks, fPrim_num, hl.lit t n hn]
    have hs : headSign (toks fid flit (.lit t)) = false := rfl
    exact ⟨flA_of_flM hs (flM_of_flP hP), fun _ _ => flM_of_flP hP, fun _ h => by simp [hs] at h, fun _ _ => hP⟩
  | id n =>
    intro _ v hv
    have hP : FlP env' fid flit (.id n) v := by
      intro R f hf
      obtain ⟨f', rfl⟩ : ∃ f', f = f' + 1 := ⟨f - 1, by simp [need] at hf; omega⟩
      simp only [evalExpr] at hv
      simp [toks, fPrim_ident, hl.idn n v hv]
    have hs : headSign (toks fid flit (.id n)) = false := rfl
    exact ⟨flA_of_flM hs (flM_of_flP hP), fun _ _ => flM_of_flP hP, fun _ h => by simp [hs] at h, fun _ _ => hP⟩
  | paren e ih =>
    intro hwf v hv
    simp only [Expr.wf] at hwf
    simp only [evalExpr] at hv
    obtain ⟨hA, _, _, _⟩ := ih hwf v hv
    have hP : FlP env' fid flit (.paren e) v := by
      intro R f hf
      have := paren_prim hA R f (by simp [need] at hf; omega)
      simpa [toks] using this
    have hs : headSign (toks fid flit (.paren e)) = false := rfl
    exact ⟨flA_of_flM hs (flM_of_flP hP), fun _ _ => flM_of_flP hP, fun _ h => by simp [hs] at h, fun _ _ => hP⟩
  | un s e ih =>
    intro hwf v hv
    simp only [Expr.wf, Bool.and_eq_true, beq_iff_eq] at hwf
    obtain ⟨hwe, hlev⟩ := hwf
    have hs : headSign (toks fid flit (.un s e)) = true := by cases s <;> rfl
    obtain ⟨u, hu, hvu⟩ : ∃ u, evalExpr env e = some u ∧ v = sgn s u := by
      cases s with
      | pos => exact ⟨v, by simpa [evalExpr] using hv, rfl⟩
      | neg =>
        simp only [evalExpr, Option.map_eq_some_iff] at hv
        obtain ⟨w, hw, rfl⟩ := hv
        exact ⟨w, hw, rfl⟩
    obtain ⟨hA, _, _, hP⟩ := ih hwe u hu
    have hS : FlS env' fid flit (.un s e) v := by
      refine ⟨s, wrapT (toks fid flit e), u, rfl, hvu, ?_⟩
      intro R g x f hx hf
      simp only [need] at hf
      obtain ⟨f', rfl⟩ : ∃ f', f = f' + 1 := ⟨f - 1, by omega⟩
      rw [fTerm, wrap_primF hA (hP hlev) R f' (by omega)]
      simpa using fMulRest_mono hx (by omega)
    exact ⟨flA_of_flS hS, fun _ h => by simp [hs] at h, fun _ _ => hS, fun _ h => by simp [hs] at h⟩
  | bin l op r ihl ihr =>
    intro hwf v hv
    simp only [Expr.wf, Bool.and_eq_true, decide_eq_true_eq] at hwf
    obtain ⟨⟨⟨hwl, hwr⟩, hpl⟩, hpr⟩ := hwf
    simp only [evalExpr] at hv
    cases hel : evalExpr env l with
    | none => simp [hel] at hv
    | some a =>
    cases her : evalExpr env r with
    | none => simp [hel, her] at hv
    | some b =>
    simp only [hel, her] at hv
    obtain ⟨hAl, hMl, hSl, _⟩ := ihl hwl a hel
    obtain ⟨hAr, hMr, _, hPr⟩ := ihr hwr b her
    have hr3 := level_le r
    have hsb := headSign_bin fid flit l op r
    have addCase : ∀ (tk : Tok) (comb : Int → Int → Int),
        (∀ f acc ts, fAddRest (f+1) env' acc (tk :: ts) = (fTerm f env' ts).bind fun p => fAddRest f env' (comb acc p.1) p.2) →
        (∀ ts, noMul (tk :: ts) = true) →
        op.tok = tk → op.prec = 1 → v = comb a b → FlA env' fid flit (.bin l op r) v := by
      intro tk comb hstep hnm htk hprec hvv R g x f hR hx hf
      simp only [need] at hf
      rw [toks_bin_append, htk]
      refine hAl _ (g + need r + 5) x f (hnm _) ?_ (by omega)
      rw [hstep, wrap_termF hAr (hMr (by omega)) R hR _ (by omega)]
      simp only [Option.bind_some]
      rw [← hvv]
      exact fAddRest_mono hx (by omega)
    have mulCase : ∀ (tk : Tok) (comb : Int → Int → Option Int),
        (∀ f acc ts, fMulRest (f+1) env' acc (tk :: ts) =
            (fPrim f env' ts).bind fun p => (comb acc p.1).bind fun q => fMulRest f env' q p.2) →
        op.tok = tk → op.prec = 2 → comb a b = some v →
        (∀ s u, comb (sgn s u) b = some v → ∃ w, comb u b = some w ∧ v = sgn s w) →
        (headSign (toks fid flit (.bin l op r)) = false → FlM env' fid flit (.bin l op r) v) ∧
        (headSign (toks fid flit (.bin l op r)) = true → FlS env' fid flit (.bin l op r) v) := by
      intro tk comb hstep htk hprec hvv hsg
      constructor
      · intro hs
        have := mulStep (hMl (by omega) (by rw [← hsb]; exact hs)) hAr (hPr (by omega)) tk comb v hstep hvv
        simpa [FlM, toks, htk, need] using this
      · intro hs
        obtain ⟨s, Tl, ul, hT, hau, hc⟩ := hSl (by omega) (by rw [← hsb]; exact hs)
        subst hau
        obtain ⟨w, hw, hvw⟩ := hsg s ul hvv
        refine ⟨s, Tl ++ tk :: wrapT (toks fid flit r), w, by simp [toks, hT, htk], hvw, ?_⟩
        have := mulStep hc hAr (hPr (by omega)) tk comb w hstep hw
        simpa [need] using this
    cases op with
    | add =>
      simp only [applyOp, Option.some.injEq] at hv
      refine ⟨addCase .plus (· + ·) (fun f acc ts => fAddRest_plus f env' acc ts) (fun _ => rfl) rfl rfl hv.symm,
        by simp [Expr.level], by simp [Expr.level], by simp [Expr.level]⟩
    | sub =>
      simp only [applyOp, Option.some.injEq] at hv
      refine ⟨addCase .minus (· - ·) (fun f acc ts => fAddRest_minus f env' acc ts) (fun _ => rfl) rfl rfl hv.symm,
        by simp [Expr.level], by simp [Expr.level], by simp [Expr.level]⟩
    | mul =>
      simp only [applyOp, Option.some.injEq] at hv
      obtain ⟨hM, hS⟩ := mulCase .star (fun x y => some (x * y)) (by intro f acc ts; simp [fMulRest_star]) rfl rfl
        (by simp [hv]) (by intro s u h; exact ⟨u * b, rfl, by simpa [sgn_mul] using h.symm⟩)
      refine ⟨?_, fun _ => hM, fun _ => hS, by simp [Expr.level]⟩
      cases hh : headSign (toks fid flit (.bin l .mul r)) with
      | false => exact flA_of_flM hh (hM hh)
      | true => exact flA_of_flS (hS hh)
    | div =>
      obtain ⟨hM, hS⟩ := mulCase .slash divC (by intro f acc ts; simp [fMulRest_slash]) rfl rfl
        (by simpa [applyOp, divC] using hv) (by intro s u h; exact divC_sgn h)
      refine ⟨?_, fun _ => hM, fun _ => hS, by simp [Expr.level]⟩
      cases hh : headSign (toks fid flit (.bin l .div r)) with
      | false => exact flA_of_flM hh (hM hh)
      | true => exact flA_of_flS (hS hh)



/-! ### scanner on printed text -/

def Expr.ids : Expr → List Str
  | .lit _ => []
  | .id n => [n]
  | .paren e => e.ids
  | .un _ e => e.ids
  | .bin l _ r => l.ids ++ r.ids

/-- `rest` does not continue a word -/
def wordEnd : Str → Bool
  | [] => true
  | c :: _ => !isWordChar c

def okNext (d : Char) : Bool := isWordChar d || d = '('
def okFirst (d : Char) : Bool := isWordChar d || d = '(' || d = '+' || d = '-'

structure PunctOK (punct : Char → Option Char → Tok) : Prop where
  sign : ∀ (s : Sign) d, okNext d = true → punct s.ch (some d) = s.tok
  op : ∀ (o : Op) d, okNext d = true → punct o.ch (some d) = o.tok
  lp : ∀ d, okFirst d = true → punct '(' (some d) = .lp
  rp : ∀ nx, punct ')' nx = .rp

section Lex
variable {mk : Str → Tok} {punct : Char → Option Char → Tok}

theorem lex_word (w : Str) (hw : ∀ c ∈ w, isWordChar c = true) (cur rest : Str) :
    lexWith mk punct cur (w ++ rest) = lexWith mk punct (cur ++ w) rest := by
  induction w generalizing cur with
  | nil => simp
  | cons c w ih =>
    have hc := hw c (by simp)
    simp only [List.cons_append, lexWith, hc, if_true]
    rw [ih (fun d hd => hw d (by simp [hd]))]
    simp

theorem lex_flush (cur rest : Str) (h : wordEnd rest = true) :
    lexWith mk punct cur rest = flushWith mk cur ++ lexWith mk punct [] rest := by
  cases rest with
  | nil => simp [lexWith, flushWith]
  | cons c cs =>
    simp only [wordEnd, Bool.not_eq_true'] at h
    simp [lexWith, h, flushWith]
    split <;> simp

theorem lex_token (w : Str) (hne : w ≠ []) (hw : ∀ c ∈ w, isWordChar c = true) (rest : Str)
    (h : wordEnd rest = true) :
    lexWith mk punct [] (w ++ rest) = mk w :: lexWith mk punct [] rest := by
  rw [lex_word w hw, lex_flush _ _ h]
  simp [flushWith, hne]

theorem lex_punct (c : Char) (cs : Str) (h1 : isWordChar c = false) (h2 : c ≠ ' ') :
    lexWith mk punct [] (c :: cs) = punct c cs.head? :: lexWith mk punct [] cs := by
  simp [lexWith, h1, h2, flushWith]

end Lex


/-- what the scanner needs to know about a word written for a leaf -/
def GoodWord (mk : Str → Tok) (w : Str) (t : Tok) : Prop :=
  w ≠ [] ∧ (∀ c ∈ w, isWordChar c = true) ∧ mk w = t

structure LexLeaf (mk : Str → Tok) (fid flit fid' : Str → Str) (e : Expr) : Prop where
  lit : ∀ t, t ≠ [] → t.all Char.isDigit = true → GoodWord mk (flit t) (.num (flit t))
  idn : ∀ n ∈ e.ids, GoodWord mk (fid n) (.ident (fid' n))

theorem word_head {mk w t} (h : GoodWord mk w t) :
    ∃ d ds, w = d :: ds ∧ isWordChar d = true := by
  obtain ⟨hne, hw, _⟩ := h
  cases w with
  | nil => exact absurd rfl hne
  | cons d ds => exact ⟨d, ds, rfl, hw d (by simp)⟩

theorem not_sign_of_word {d : Char} (h : isWordChar d = true) : d ≠ '+' ∧ d ≠ '-' := by
  constructor <;> (intro hd; subst hd; revert h; decide)

section LexE
variable {mk : Str → Tok} {punct : Char → Option Char → Tok} {fid flit fid' : Str → Str}

theorem print_head : ∀ e : Expr, e.wf = true → LexLeaf mk fid flit fid' e →
    ∃ d ds, printWith fid flit e = d :: ds ∧ okFirst d = true ∧
      startsSign (d :: ds) = headSign (toks fid' flit e) := by
  intro e
  induction e with
  | lit t =>
    intro hwf hl
    simp only [Expr.wf, Bool.and_eq_true, decide_eq_true_eq] at hwf
    obtain ⟨d, ds, hd, hwd⟩ := word_head (hl.lit t (by simpa using hwf.1) hwf.2)
    have := not_sign_of_word hwd
    exact ⟨d, ds, by simpa [printWith] using hd, by simp [okFirst, hwd], by simp [startsSign, this, toks, headSign]⟩
  | id n =>
    intro hwf hl
    obtain ⟨d, ds, hd, hwd⟩ := word_head (hl.idn n (by simp [Expr.ids]))
    have := not_sign_of_word hwd
    exact ⟨d, ds, by simpa [printWith] using hd, by simp [okFirst, hwd], by simp [startsSign, this, toks, headSign]⟩
  | paren e _ =>
    intro _ _
    exact ⟨'(', printWith fid flit e ++ [')'], by simp [printWith], by decide, by simp [startsSign, toks, headSign]⟩
  | un s e _ =>
    intro _ _
    refine ⟨s.ch, wrapSigned (printWith fid flit e), by simp [printWith], by cases s <;> decide, ?_⟩
    cases s <;> simp [startsSign, Sign.ch, toks, Sign.tok, headSign]
  | bin l op r ihl _ =>
    intro hwf hl
    simp only [Expr.wf, Bool.and_eq_true, decide_eq_true_eq] at hwf
    obtain ⟨d, ds, hd, hok, hs⟩ := ihl hwf.1.1.1 ⟨hl.lit, fun n hn => hl.idn n (by simp [Expr.ids, hn])⟩
    refine ⟨d, ds ++ op.ch :: wrapSigned (printWith fid flit r), by simp [printWith, hd], hok, ?_⟩
    rw [headSign_bin, ← hs]; rfl

theorem lex_wrap (hp : PunctOK punct) {e : Expr} (hwf : e.wf = true) (hl : LexLeaf mk fid flit fid' e)
    (hL : ∀ rest, wordEnd rest = true →
      lexWith mk punct [] (printWith fid flit e ++ rest) = toks fid' flit e ++ lexWith mk punct [] rest)
    (rest : Str) (hr : wordEnd rest = true) :
    lexWith mk punct [] (wrapSigned (printWith fid flit e) ++ rest)
      = wrapT (toks fid' flit e) ++ lexWith mk punct [] rest ∧
    ∃ d ds, wrapSigned (printWith fid flit e) ++ rest = d :: ds ∧ okNext d = true := by
  obtain ⟨d, ds, hd, hok, hs⟩ := print_head (mk := mk) e hwf hl
  have hstart : startsSign (printWith fid flit e) = headSign (toks fid' flit e) := by rw [hd]; exact hs
  unfold wrapSigned wrapT
  rw [hstart]
  cases hh : headSign (toks fid' flit e) with
  | true =>
    simp only [if_true]
    refine ⟨?_, '(', (printWith fid flit e ++ [')']) ++ rest, by simp, by decide⟩
    have h1 : (('(' :: printWith fid flit e ++ [')']) ++ rest) = '(' :: (printWith fid flit e ++ (')' :: rest)) := by simp
    rw [h1, lex_punct _ _ (by decide) (by decide), hL _ (by simp [wordEnd]; decide),
      lex_punct _ _ (by decide) (by decide), hp.rp]
    have : ((printWith fid flit e ++ ')' :: rest).head?) = some d := by simp [hd]
    rw [this, hp.lp d hok]
    simp
  | false =>
    simp only [Bool.false_eq_true, if_false]
    refine ⟨hL rest hr, d, ds ++ rest, by simp [hd], ?_⟩
    rw [hh] at hs
    simp only [startsSign, Bool.or_eq_false_iff, decide_eq_false_iff_not] at hs
    simp only [okFirst, Bool.or_eq_true, decide_eq_true_eq] at hok
    simp only [okNext, Bool.or_eq_true, decide_eq_true_eq]
    rcases hok with ((h | h) | h) | h
    · exact Or.inl h
    · exact Or.inr h
    · exact absurd h hs.1
    · exact absurd h hs.2

theorem lex_print (hp : PunctOK punct) : ∀ e : Expr, e.wf = true → LexLeaf mk fid flit fid' e →
    ∀ rest, wordEnd rest = true →
      lexWith mk punct [] (printWith fid flit e ++ rest) = toks fid' flit e ++ lexWith mk punct [] rest := by
  intro e
  induction e with
  | lit t =>
    intro hwf hl rest hr
    simp only [Expr.wf, Bool.and_eq_true, decide_eq_true_eq] at hwf
    obtain ⟨hne, hw, hmk⟩ := hl.lit t (by simpa using hwf.1) hwf.2
    simp [printWith, toks, lex_token _ hne hw rest hr, hmk]
  | id n =>
    intro hwf hl rest hr
    obtain ⟨hne, hw, hmk⟩ := hl.idn n (by simp [Expr.ids])
    simp [printWith, toks, lex_token _ hne hw rest hr, hmk]
  | paren e ih =>
    intro hwf hl rest hr
    simp only [Expr.wf] at hwf
    have hle : LexLeaf mk fid flit fid' e := ⟨hl.lit, fun n hn => hl.idn n (by simpa [Expr.ids] using hn)⟩
    obtain ⟨d, ds, hd, hok, _⟩ := print_head (mk := mk) e hwf hle
    have h1 : printWith fid flit (.paren e) ++ rest = '(' :: (printWith fid flit e ++ (')' :: rest)) := by
      simp [printWith]
    rw [h1, lex_punct _ _ (by decide) (by decide), ih hwf hle _ (by simp [wordEnd]; decide),
      lex_punct _ _ (by decide) (by decide), hp.rp]
    have : ((printWith fid flit e ++ ')' :: rest).head?) = some d := by simp [hd]
    rw [this, hp.lp d hok]
    simp [toks]
  | un s e ih =>
    intro hwf hl rest hr
    simp only [Expr.wf, Bool.and_eq_true, beq_iff_eq] at hwf
    have hle : LexLeaf mk fid flit fid' e := ⟨hl.lit, fun n hn => hl.idn n (by simpa [Expr.ids] using hn)⟩
    obtain ⟨hw, d, ds, hd, hok⟩ := lex_wrap hp hwf.1 hle (ih hwf.1 hle) rest hr
    have h1 : printWith fid flit (.un s e) ++ rest = s.ch :: (wrapSigned (printWith fid flit e) ++ rest) := by
      simp [printWith]
    rw [h1, lex_punct _ _ (by cases s <;> decide) (by cases s <;> decide), hw, hd]
    simp [hp.sign s d hok, toks]
  | bin l op r ihl ihr =>
    intro hwf hl rest hr
    simp only [Expr.wf, Bool.and_eq_true, decide_eq_true_eq] at hwf
    have hll : LexLeaf mk fid flit fid' l := ⟨hl.lit, fun n hn => hl.idn n (by simp [Expr.ids, hn])⟩
    have hlr : LexLeaf mk fid flit fid' r := ⟨hl.lit, fun n hn => hl.idn n (by simp [Expr.ids, hn])⟩
    obtain ⟨hw, d, ds, hd, hok⟩ := lex_wrap hp hwf.1.1.2 hlr (ihr hwf.1.1.2 hlr) rest hr
    have h1 : printWith fid flit (.bin l op r) ++ rest =
        printWith fid flit l ++ (op.ch :: (wrapSigned (printWith fid flit r) ++ rest)) := by
      simp [printWith]
    rw [h1, ihl hwf.1.1.1 hll _ (by cases op <;> simp [wordEnd, Op.ch] <;> decide),
      lex_punct _ _ (by cases op <;> decide) (by cases op <;> decide), hw, hd]
    simp [hp.op op d hok, toks]

end LexE


theorem okNext_ne {d : Char} (h : okNext d = true) :
    d ≠ '+' ∧ d ≠ '-' ∧ d ≠ '*' ∧ d ≠ '/' ∧ d ≠ '=' ∧ d ≠ '>' ∧ d ≠ ')' := by
  refine ⟨?_, ?_, ?_, ?_, ?_, ?_, ?_⟩ <;> (intro hd; subst hd; revert h; decide)

theorem okFirst_ne {d : Char} (h : okFirst d = true) : d ≠ '/' := by
  intro hd; subst hd; revert h; decide

theorem punctC_ok : PunctOK punctC where
  sign := by
    intro s d h
    obtain ⟨h1, h2, h3, h4, h5, h6, h7⟩ := okNext_ne h
    cases s <;> simp [punctC, Sign.ch, Sign.tok, h1, h2, h5, h6]
  op := by
    intro o d h
    obtain ⟨h1, h2, h3, h4, h5, h6, h7⟩ := okNext_ne h
    cases o <;> simp [punctC, Op.ch, Op.tok, h1, h2, h3, h4, h5, h6]
  lp := by intro d _; simp [punctC]
  rp := by intro nx; simp [punctC]

theorem punctF_ok : PunctOK punctF where
  sign := by
    intro s d _
    cases s <;> simp [punctF, Sign.ch, Sign.tok]
  op := by
    intro o d h
    obtain ⟨h1, h2, h3, h4, h5, h6, h7⟩ := okNext_ne h
    cases o <;> simp [punctF, Op.ch, Op.tok, h3, h4, h5, h7]
  lp := by intro d h; simp [punctF, okFirst_ne h]
  rp := by intro nx; simp [punctF]

theorem length_wrapT (ts : List Tok) : ts.length ≤ (wrapT ts).length := by
  unfold wrapT; split <;> simp <;> omega

theorem need_le (fid flit : Str → Str) : ∀ e : Expr, need e + 1 ≤ 4 * (toks fid flit e).length := by
  intro e
  induction e with
  | lit t => simp [need, toks]
  | id n => simp [need, toks]
  | paren e ih => simp [need, toks]; omega
  | un s e ih =>
    have := length_wrapT (toks fid flit e)
    simp [need, toks]; omega
  | bin l op r ihl ihr =>
    have := length_wrapT (toks fid flit r)
    simp [need, toks]; omega

/-- C: the printed text of a well-formed expression evaluates to its value. -/
theorem evalTextC_print {env env' : Env} {fid flit : Str → Str} (hleaf : LeafC env env' fid flit)
    {e : Expr} (hwf : e.wf = true) (hlex : LexLeaf mkWordC fid flit fid e)
    {v : Int} (hv : evalExpr env e = some v) :
    evalTextC env' (printWith fid flit e) = some v := by
  have hL := lex_print punctC_ok e hwf hlex [] rfl
  simp only [List.append_nil, lexWith, flushWith] at hL
  have hA := (c_correct hleaf e hwf v hv).1 [] 0 (v, []) (fuelFor (toks fid flit e)) rfl
    (cAddRest_stop _ _ _ rfl) (by have := need_le fid flit e; simp [fuelFor]; omega)
  simp only [List.append_nil] at hA
  simp [evalTextC, lexC, hL, hA]

/-- Fortran: same, the scanner lower-cases names. -/
theorem evalTextF_print {env env' : Env} {fid flit fid' : Str → Str} (hleaf : LeafF env env' fid' flit)
    {e : Expr} (hwf : e.wf = true) (hlex : LexLeaf mkWordF fid flit fid' e)
    {v : Int} (hv : evalExpr env e = some v) :
    evalTextF env' (printWith fid flit e) = some v := by
  have hL := lex_print punctF_ok e hwf hlex [] rfl
  simp only [List.append_nil, lexWith, flushWith] at hL
  have hA := (f_correct hleaf e hwf v hv).1 [] 0 (v, []) (fuelFor (toks fid' flit e)) rfl
    (fAddRest_stop _ _ _ rfl) (by have := need_le fid' flit e; simp [fuelFor]; omega)
  simp only [List.append_nil] at hA
  simp [evalTextF, lexF, hL, hA]



/-! ### decimal text of a number -/

theorem digitChar_facts : ∀ d : Fin 10, (digitChar d.val).isDigit = true ∧ digitVal (digitChar d.val) = d.val ∧
    (digitChar d.val = '0' ↔ d.val = 0) := by decide

abbrev decStep : Nat → Char → Nat := fun a c => a * 10 + digitVal c

theorem showNatAux_spec : ∀ f n, n < f → ∃ ds : Str, (∀ acc, showNatAux f n acc = ds ++ acc) ∧ ds ≠ [] ∧
    (∀ c ∈ ds, c.isDigit = true) ∧ ds.foldl decStep 0 = n ∧ (n ≠ 0 → ds.head? ≠ some '0') ∧ (n = 0 → ds = ['0']) := by
  intro f
  induction f with
  | zero => intro n h; omega
  | succ f ih =>
    intro n hn
    by_cases h10 : n < 10
    · obtain ⟨h1, h2, h3⟩ := digitChar_facts ⟨n, h10⟩
      simp only at h1 h2 h3
      refine ⟨[digitChar n], by intro acc; simp [showNatAux, h10], by simp, by simpa using h1, by simp [decStep, h2],
        by intro hn0; simp; exact fun h => hn0 (h3.mp h), by intro hn0; subst hn0; rfl⟩
    · obtain ⟨ds, hs, hne, hd, hv, hh, _⟩ := ih (n / 10) (by omega)
      obtain ⟨h1, h2, _⟩ := digitChar_facts ⟨n % 10, by omega⟩
      simp only at h1 h2
      refine ⟨ds ++ [digitChar (n % 10)], by intro acc; simp [showNatAux, h10, hs], by simp, ?_, ?_, ?_, by intro h; omega⟩
      · intro c hc
        simp only [List.mem_append, List.mem_singleton] at hc
        rcases hc with hc | hc
        · exact hd c hc
        · rw [hc]; exact h1
      · simp [List.foldl_append, hv, decStep, h2]; omega
      · intro _
        have := hh (by omega)
        cases ds with
        | nil => exact absurd rfl hne
        | cons c cs => simpa using this

theorem showNat_spec (n : Nat) : showNat n ≠ [] ∧ (∀ c ∈ showNat n, c.isDigit = true) ∧ decVal (showNat n) = n ∧
    (n ≠ 0 → (showNat n).head? ≠ some '0') ∧ (n = 0 → showNat n = ['0']) := by
  obtain ⟨ds, hs, hne, hd, hv, hh, h0⟩ := showNatAux_spec (n + 1) n (by omega)
  have : showNat n = ds := by simp [showNat, hs]
  rw [this]
  exact ⟨hne, hd, hv, hh, h0⟩

theorem litVal_showNat (n : Nat) : litVal (showNat n) = some n := by
  obtain ⟨hne, hd, hv, hh, h0⟩ := showNat_spec n
  by_cases hn : n = 0
  · subst hn; rw [h0 rfl]; decide
  · have hh := hh hn
    cases hs : showNat n with
    | nil => exact absurd hs hne
    | cons c cs =>
      rw [hs] at hd hv hh
      have hc : c ≠ '0' := by simpa using hh
      have : (c :: cs).all Char.isDigit = true := by simpa using hd
      simp only [litVal, hc, false_and, if_false, this, if_true, hv]

theorem litValF_showNat (n : Nat) : litValF (showNat n) = some n := by
  obtain ⟨hne, hd, hv, _, _⟩ := showNat_spec n
  have : (showNat n).all Char.isDigit = true := by simpa using hd
  simp [litValF, hne, this, hv]

theorem isDigit_word {c : Char} (h : c.isDigit = true) : isWordChar c = true := by
  simp only [Char.isDigit, Bool.and_eq_true, decide_eq_true_eq] at h
  simp only [isWordChar, Char.isAlphanum, Char.isAlpha, Char.isUpper, Char.isLower, Char.isDigit, Bool.or_eq_true,
    Bool.and_eq_true, decide_eq_true_eq]
  left; right; exact h

theorem goodWord_digits {mk : Str → Tok} {w : Str} (hne : w ≠ []) (hd : w.all Char.isDigit = true)
    (hmk : mk w = .num w) : GoodWord mk w (.num w) :=
  ⟨hne, fun c hc => isDigit_word (List.all_eq_true.mp hd c hc), hmk⟩

theorem mkWordC_digits {w : Str} (hne : w ≠ []) (hd : w.all Char.isDigit = true) : mkWordC w = .num w := by
  cases w with
  | nil => exact absurd rfl hne
  | cons c cs =>
    have hc : c.isDigit = true := by simp at hd; exact hd.1
    simp [mkWordC, hc, hd]

theorem mkWordF_digits {w : Str} (hne : w ≠ []) (hd : w.all Char.isDigit = true) : mkWordF w = .num w := by
  cases w with
  | nil => exact absurd rfl hne
  | cons c cs =>
    have hc : c.isDigit = true := by simp at hd; exact hd.1
    simp [mkWordF, hc, hd]

/-! ### PrintNodeIdentifier.visit_Constant -/

theorem o2d_cons (c : Char) (cs : Str) : octalToDecimal (c :: cs) =
    if cs ≠ [] ∧ c = '0' ∧ (c :: cs).all Char.isDigit = true then
      (if (c :: cs).all isOctDigit = true then showNat (octVal (c :: cs)) else c :: cs)
    else c :: cs := rfl

theorem o2d_digits {t : Str} (hne : t ≠ []) (hd : t.all Char.isDigit = true) :
    octalToDecimal t ≠ [] ∧ (octalToDecimal t).all Char.isDigit = true := by
  cases t with
  | nil => exact absurd rfl hne
  | cons c cs =>
    rw [o2d_cons]
    split
    · split
      · obtain ⟨h1, h2, _⟩ := showNat_spec (octVal (c :: cs))
        exact ⟨h1, by simpa using h2⟩
      · exact ⟨by simp, hd⟩
    · exact ⟨by simp, hd⟩

theorem litVal_cons (c : Char) (cs : Str) : litVal (c :: cs) =
    if c = '0' ∧ cs ≠ [] then
      (if (c :: cs).all isOctDigit = true then some (octVal (c :: cs)) else none)
    else if (c :: cs).all Char.isDigit = true then some (decVal (c :: cs)) else none := rfl

theorem o2d_litVal {t : Str} (hd : t.all Char.isDigit = true) {n : Nat} (h : litVal t = some n) :
    litVal (octalToDecimal t) = some n ∧ litValF (octalToDecimal t) = some n := by
  cases t with
  | nil => simp [litVal] at h
  | cons c cs =>
    rw [o2d_cons]
    by_cases hz : c = '0' ∧ cs ≠ []
    · have hcond : cs ≠ [] ∧ c = '0' ∧ (c :: cs).all Char.isDigit = true := ⟨hz.2, hz.1, hd⟩
      rw [if_pos hcond]
      rw [litVal_cons, if_pos hz] at h
      by_cases ho : (c :: cs).all isOctDigit = true
      · rw [if_pos ho] at h ⊢
        simp only [Option.some.injEq] at h
        subst h
        exact ⟨litVal_showNat _, litValF_showNat _⟩
      · rw [if_neg ho] at h; exact absurd h (by simp)
    · have hcond : ¬ (cs ≠ [] ∧ c = '0' ∧ (c :: cs).all Char.isDigit = true) := fun hh => hz ⟨hh.2.1, hh.1⟩
      rw [if_neg hcond]
      refine ⟨h, ?_⟩
      rw [litVal_cons, if_neg hz, if_pos hd] at h
      have : (c :: cs) ≠ [] ∧ (c :: cs).all Char.isDigit = true := ⟨by simp, hd⟩
      rw [litValF, if_pos this]
      exact h



/-! ### symbol tables, environments -/

theorem lookup_map_self (g : Str → Str) (l : List Str) (n : Str) (h : n ∈ l) :
    (l.map (fun k => (k, g k))).lookup n = some (g n) := by
  induction l with
  | nil => simp at h
  | cons a l ih =>
    simp only [List.map_cons, List.lookup_cons]
    by_cases ha : n = a
    · subst ha; simp
    · have : (n == a) = false := by simpa using ha
      rw [this]
      exact ih (by simpa [ha] using h)

def names (ms : List Member) : List Str := ms.map (·.1)

theorem rename_csyms (c : Cfg) (ms : List Member) (n : Str) (h : n ∈ names ms) :
    rename (csyms c ms) n = cName c n := by
  have : csyms c ms = ((names ms).reverse).map (fun k => (k, cName c k)) := by
    simp [csyms, names, List.map_reverse, Function.comp_def]
  rw [rename, this, lookup_map_self _ _ _ (by simpa using h)]; rfl

theorem rename_fsyms (c : Cfg) (ms : List Member) (n : Str) (h : n ∈ names ms) :
    rename (fsyms c ms) n = fName c n := by
  have : fsyms c ms = ((names ms).reverse).map (fun k => (k, fName c k)) := by
    simp [fsyms, names, List.map_reverse, Function.comp_def]
  rw [rename, this, lookup_map_self _ _ _ (by simpa using h)]; rfl

theorem hasKey_of_lookup {env : Env} {n : Str} {v : Int} (h : env.lookup n = some v) : hasKey env n = true := by
  induction env with
  | nil => simp at h
  | cons p env ih =>
    obtain ⟨k, w⟩ := p
    simp only [List.lookup_cons] at h
    simp only [hasKey, List.any_cons, Bool.or_eq_true]
    by_cases hk : n = k
    · subst hk; left; simp
    · have : (n == k) = false := by simpa using hk
      rw [this] at h
      right; exact ih h

theorem ids_of_eval {env : Env} : ∀ (e : Expr) {v : Int}, evalExpr env e = some v →
    ∀ n ∈ e.ids, hasKey env n = true := by
  intro e
  induction e with
  | lit t => intro v _ n hn; simp [Expr.ids] at hn
  | id m => intro v h n hn; simp [Expr.ids] at hn; subst hn; exact hasKey_of_lookup h
  | paren e ih => intro v h n hn; exact ih (by simpa [evalExpr] using h) n hn
  | un s e ih =>
    intro v h n hn
    cases s with
    | pos => exact ih (by simpa [evalExpr] using h) n hn
    | neg =>
      simp only [evalExpr, Option.map_eq_some_iff] at h
      obtain ⟨w, hw, _⟩ := h
      exact ih hw n hn
  | bin l op r ihl ihr =>
    intro v h n hn
    simp only [evalExpr] at h
    cases hel : evalExpr env l with
    | none => simp [hel] at h
    | some a =>
    cases her : evalExpr env r with
    | none => simp [hel, her] at h
    | some b =>
    simp only [Expr.ids, List.mem_append] at hn
    rcases hn with hn | hn
    · exact ihl hel n hn
    · exact ihr her n hn

theorem evalExpr_cons_fresh {env : Env} (k : Str) (w : Int) : ∀ e : Expr, k ∉ e.ids →
    evalExpr ((k, w) :: env) e = evalExpr env e := by
  intro e
  induction e with
  | lit t => intro _; rfl
  | id m =>
    intro h
    have : (m == k) = false := by simp [Expr.ids] at h; simpa using fun hh => h hh.symm
    simp [evalExpr, List.lookup_cons, this]
  | paren e ih => intro h; simpa [evalExpr] using ih h
  | un s e ih => intro h; cases s <;> simp [evalExpr, ih h]
  | bin l op r ihl ihr =>
    intro h
    simp only [Expr.ids, List.mem_append, not_or] at h
    simp [evalExpr, ihl h.1, ihr h.2]

theorem level_ge_one (e : Expr) : 1 ≤ e.level := by
  cases e with
  | bin l op r => cases op <;> simp [Expr.level]
  | _ => simp [Expr.level]

/-! ### names as words -/

def isIdentF (s : Str) : Bool :=
  match s with
  | c :: cs => c.isAlpha && cs.all isWordChar
  | [] => false

theorem alpha_facts {c : Char} (h : c.isAlpha = true ∨ c = '_') : c.isDigit = false ∧ isWordChar c = true := by
  rcases h with h | h
  · constructor
    · simp only [Char.isAlpha, Char.isUpper, Char.isLower, Bool.or_eq_true, Bool.and_eq_true, decide_eq_true_eq] at h
      simp only [Char.isDigit, Bool.and_eq_false_iff, decide_eq_false_iff_not]
      rcases h with h | h
      · right; have := h.1; intro hh; exact absurd (Nat.le_trans this hh) (by decide)
      · right; have := h.1; intro hh; exact absurd (Nat.le_trans this hh) (by decide)
    · simp [isWordChar, Char.isAlphanum, h]
  · subst h; decide

theorem goodWord_identC {w : Str} (h : isIdent w = true) : GoodWord mkWordC w (.ident w) := by
  cases w with
  | nil => simp [isIdent] at h
  | cons c cs =>
    simp only [isIdent, Bool.and_eq_true, Bool.or_eq_true, decide_eq_true_eq, List.all_eq_true] at h
    obtain ⟨hd, hw⟩ := alpha_facts h.1
    refine ⟨by simp, ?_, by simp [mkWordC, hd]⟩
    intro d hdm
    simp only [List.mem_cons] at hdm
    rcases hdm with rfl | hdm
    · exact hw
    · exact h.2 d hdm

theorem goodWord_identF {w : Str} (h : isIdentF w = true) : GoodWord mkWordF w (.ident (lowerS w)) := by
  cases w with
  | nil => simp [isIdentF] at h
  | cons c cs =>
    simp only [isIdentF, Bool.and_eq_true, List.all_eq_true] at h
    obtain ⟨hd, hw⟩ := alpha_facts (Or.inl h.1)
    refine ⟨by simp, ?_, by simp [mkWordF, hd, h.1]⟩
    intro d hdm
    simp only [List.mem_cons] at hdm
    rcases hdm with rfl | hdm
    · exact hw
    · exact h.2 d hdm



/-! ### numbers written by Shroud -/

theorem digit_not_sign {c : Char} (h : c.isDigit = true) : c ≠ '+' ∧ c ≠ '-' ∧ c ≠ '(' := by
  refine ⟨?_, ?_, ?_⟩ <;> (intro hc; subst hc; revert h; decide)

theorem o2d_showNat (m : Nat) : octalToDecimal (showNat m) = showNat m := by
  obtain ⟨hne, hd, _, hh, h0⟩ := showNat_spec m
  by_cases hm : m = 0
  · rw [h0 hm]; rfl
  · have hh := hh hm
    cases hs : showNat m with
    | nil => exact absurd hs hne
    | cons c cs =>
      rw [hs] at hh
      have hc : c ≠ '0' := by simpa using hh
      rw [o2d_cons, if_neg (fun h => hc h.2.1)]

theorem wrapSigned_digits {w : Str} (hne : w ≠ []) (hd : ∀ c ∈ w, c.isDigit = true) : wrapSigned w = w := by
  cases w with
  | nil => exact absurd rfl hne
  | cons c cs =>
    have := digit_not_sign (hd c (by simp))
    simp [wrapSigned, startsSign, this.1, this.2.1]

theorem wrapSigned_showNat (m : Nat) : wrapSigned (showNat m) = showNat m :=
  wrapSigned_digits (showNat_spec m).1 (showNat_spec m).2.1

theorem lit_showNat_wf (m : Nat) : (Expr.lit (showNat m)).wf = true := by
  obtain ⟨hne, hd, _⟩ := showNat_spec m
  simp only [Expr.wf, Bool.and_eq_true, decide_eq_true_eq, List.all_eq_true]
  exact ⟨by simpa using hne, hd⟩

theorem wf_un (s : Sign) (e : Expr) : (Expr.un s e).wf = (e.wf && e.level == 3) := rfl
theorem wf_bin (l : Expr) (op : Op) (r : Expr) :
    (Expr.bin l op r).wf = (l.wf && r.wf && decide (op.prec ≤ l.level) && decide (op.prec < r.level)) := rfl

/-- the expression whose printed form is `str(v)` -/
def intExpr : Int → Expr
  | .ofNat n => .lit (showNat n)
  | .negSucc n => .un .neg (.lit (showNat (n + 1)))

theorem intExpr_spec (v : Int) (fid : Str → Str) (env : Env) :
    (intExpr v).wf = true ∧ (intExpr v).ids = [] ∧ printWith fid octalToDecimal (intExpr v) = showInt v ∧
    evalExpr env (intExpr v) = some v := by
  cases v with
  | ofNat n =>
    refine ⟨lit_showNat_wf n, rfl, by simp [intExpr, printWith, o2d_showNat, showInt], ?_⟩
    simp [intExpr, evalExpr, litVal_showNat]
  | negSucc n =>
    have hw := lit_showNat_wf (n + 1)
    refine ⟨by rw [intExpr, wf_un, hw]; rfl, rfl,
      by simp [intExpr, printWith, o2d_showNat, showInt, wrapSigned_showNat, Sign.ch], ?_⟩
    simp [intExpr, evalExpr, litVal_showNat, Int.negSucc_eq]

/-- `base+incr` as an expression -/
theorem plusN_spec (fid : Str → Str) (env : Env) (e : Expr) (hwf : e.wf = true) (b : Int)
    (hb : evalExpr env e = some b) (k : Nat) :
    (Expr.bin e .add (.lit (showNat k))).wf = true ∧ (Expr.bin e .add (.lit (showNat k))).ids = e.ids ∧
    printWith fid octalToDecimal (.bin e .add (.lit (showNat k))) = plusN (printWith fid octalToDecimal e) k ∧
    evalExpr env (.bin e .add (.lit (showNat k))) = some (b + k) := by
  refine ⟨?_, by simp [Expr.ids], by simp [printWith, plusN, o2d_showNat, wrapSigned_showNat, Op.ch], ?_⟩
  · have h1 := level_ge_one e
    have hw := lit_showNat_wf k
    have h3 : (Expr.lit (showNat k)).level = 3 := rfl
    rw [wf_bin, hwf, hw, h3]
    simp [Op.prec, h1]
  · simp [evalExpr, hb, litVal_showNat, applyOp]



/-! ### ast.int_literal on printed text -/

theorem oct_isDigit {c : Char} (h : isOctDigit c = true) : c.isDigit = true := by
  simp only [isOctDigit, Bool.and_eq_true] at h; exact h.1.1

theorem pyDigits_eq_litVal (X : Str) : pyDigits X = litVal X := by
  cases X with
  | nil => rfl
  | cons c cs =>
    rw [litVal_cons]
    simp only [pyDigits]
    by_cases h : c = '0' ∧ cs ≠ []
    · rw [if_pos h, if_pos ⟨h.2, h.1⟩]
    · rw [if_neg h, if_neg (fun hh => h ⟨hh.2, hh.1⟩)]

theorem litVal_digits {X : Str} {m : Nat} (h : litVal X = some m) : X ≠ [] ∧ ∀ c ∈ X, c.isDigit = true := by
  cases X with
  | nil => simp [litVal] at h
  | cons c cs =>
    refine ⟨by simp, ?_⟩
    rw [litVal_cons] at h
    split at h
    · split at h
      · rename_i ho
        intro d hd
        exact oct_isDigit (List.all_eq_true.mp ho d hd)
      · simp at h
    · split at h
      · rename_i hd
        exact fun d hdm => List.all_eq_true.mp hd d hdm
      · simp at h

theorem pyInt_cases {text : Str} {pv : Int} (h : pyIntLiteral text = some pv) :
    ∃ X m, litVal X = some m ∧
      ((text = X ∧ pv = m) ∨ (text = '+' :: X ∧ pv = m) ∨ (text = '-' :: X ∧ pv = -(m : Int))) := by
  unfold pyIntLiteral at h
  split at h
  · rename_i ds
    simp only [Option.map_eq_some_iff, pyDigits_eq_litVal] at h
    obtain ⟨m, hm, rfl⟩ := h
    exact ⟨ds, m, hm, Or.inr (Or.inl ⟨rfl, by simp [applySign]⟩)⟩
  · rename_i ds
    simp only [Option.map_eq_some_iff, pyDigits_eq_litVal] at h
    obtain ⟨m, hm, rfl⟩ := h
    exact ⟨ds, m, hm, Or.inr (Or.inr ⟨rfl, by simp [applySign]⟩)⟩
  · simp only [Option.map_eq_some_iff, pyDigits_eq_litVal] at h
    obtain ⟨m, hm, rfl⟩ := h
    exact ⟨_, m, hm, Or.inl ⟨rfl, by simp [applySign]⟩⟩

theorem isIdent_head {n : Str} (h : isIdent n = true) :
    ∃ c cs, n = c :: cs ∧ c.isDigit = false ∧ isWordChar c = true := by
  cases n with
  | nil => simp [isIdent] at h
  | cons c cs =>
    simp only [isIdent, Bool.and_eq_true, Bool.or_eq_true, decide_eq_true_eq] at h
    exact ⟨c, cs, rfl, alpha_facts h.1⟩

theorem printNode_ne_nil : ∀ e : Expr, e.wf = true → printNode e ≠ [] := by
  intro e
  induction e with
  | lit t => intro h; simp only [Expr.wf, Bool.and_eq_true, decide_eq_true_eq] at h; simpa [printNode, printWith] using h.1
  | id n => intro h; obtain ⟨c, cs, rfl, _⟩ := isIdent_head (by simpa [Expr.wf] using h); simp [printNode, printWith]
  | paren e _ => intro _; simp [printNode, printWith]
  | un s e _ => intro _; simp [printNode, printWith]
  | bin l op r _ _ => intro _; simp [printNode, printWith]

theorem op_not_digit (op : Op) : op.ch.isDigit = false := by cases op <;> decide

/-- When `int_literal` accepts the printed value, it returns the C++ value. -/
theorem pyInt_sound {env : Env} {e : Expr} (hwf : e.wf = true) {pv v : Int}
    (hp : pyIntLiteral (printNode e) = some pv) (hv : evalExpr env e = some v) : pv = v := by
  obtain ⟨X, m, hm, hc⟩ := pyInt_cases hp
  obtain ⟨hXne, hXd⟩ := litVal_digits hm
  have lit_case : ∀ t (w : Int), evalExpr env (.lit t) = some w → t = X → w = m := by
    intro t w hw ht
    subst ht
    simp only [evalExpr, hm, Option.map_some, Option.some.injEq] at hw
    exact hw.symm
  cases e with
  | lit t =>
    have ht : printNode (.lit t) = t := rfl
    rw [ht] at hc
    simp only [Expr.wf, Bool.and_eq_true, decide_eq_true_eq, List.all_eq_true] at hwf
    rcases hc with ⟨h1, h2⟩ | ⟨h1, _⟩ | ⟨h1, _⟩
    · rw [h2]; exact (lit_case t v hv h1).symm
    · exact absurd (hwf.2 '+' (by simp [h1])) (by decide)
    · exact absurd (hwf.2 '-' (by simp [h1])) (by decide)
  | id n =>
    have ht : printNode (.id n) = n := rfl
    rw [ht] at hc
    obtain ⟨c, cs, rfl, hcd, hcw⟩ := isIdent_head (by simpa [Expr.wf] using hwf)
    have hs := not_sign_of_word hcw
    rcases hc with ⟨h1, _⟩ | ⟨h1, _⟩ | ⟨h1, _⟩
    · have := hXd c (by simp [← h1]); simp [hcd] at this
    · simp at h1; exact absurd h1.1 hs.1
    · simp at h1; exact absurd h1.1 hs.2
  | paren e1 =>
    have ht : printNode (.paren e1) = '(' :: (printNode e1 ++ [')']) := rfl
    rw [ht] at hc
    rcases hc with ⟨h1, _⟩ | ⟨h1, _⟩ | ⟨h1, _⟩
    · exact absurd (hXd '(' (by simp [← h1])) (by decide)
    · simp at h1
    · simp at h1
  | bin l op r =>
    have ht : printNode (.bin l op r) = printNode l ++ op.ch :: wrapSigned (printNode r) := rfl
    rw [ht] at hc
    simp only [Expr.wf, Bool.and_eq_true, decide_eq_true_eq] at hwf
    have hne := printNode_ne_nil l hwf.1.1.1
    have hmem : op.ch ∈ X := by
      cases hl : printNode l with
      | nil => exact absurd hl hne
      | cons d ds =>
        rw [hl] at hc
        rcases hc with ⟨h1, _⟩ | ⟨h1, _⟩ | ⟨h1, _⟩
        · rw [← h1]; simp
        · simp only [List.cons_append, List.cons.injEq] at h1; rw [← h1.2]; simp
        · simp only [List.cons_append, List.cons.injEq] at h1; rw [← h1.2]; simp
    have := hXd _ hmem
    rw [op_not_digit] at this; exact absurd this (by simp)
  | un s e1 =>
    have ht : printNode (.un s e1) = s.ch :: wrapSigned (printNode e1) := rfl
    rw [ht] at hc
    rw [wf_un] at hwf
    simp only [Bool.and_eq_true, beq_iff_eq] at hwf
    -- the digits are the (possibly wrapped) operand
    have hX : wrapSigned (printNode e1) = X ∧ pv = sgn s (m : Int) := by
      rcases hc with ⟨h1, _⟩ | ⟨h1, h2⟩ | ⟨h1, h2⟩
      · have := hXd s.ch (by simp [← h1]); cases s <;> exact absurd this (by decide)
      · cases s with
        | pos => simp only [Sign.ch, List.cons.injEq, true_and] at h1; exact ⟨h1, h2⟩
        | neg => simp [Sign.ch] at h1
      · cases s with
        | pos => simp [Sign.ch] at h1
        | neg => simp only [Sign.ch, List.cons.injEq, true_and] at h1; exact ⟨h1, h2⟩
    obtain ⟨hX, hpv⟩ := hX
    -- the head of X is a digit, so the operand is a literal
    have hhead : ∀ d ds, wrapSigned (printNode e1) = d :: ds → d.isDigit = true := by
      intro d ds h; exact hXd d (by rw [← hX, h]; simp)
    cases e1 with
    | lit t =>
      have h1 : printNode (.lit t) = t := rfl
      have hwt := hwf.1
      simp only [Expr.wf, Bool.and_eq_true, decide_eq_true_eq, List.all_eq_true] at hwt
      rw [h1, wrapSigned_digits (by simpa using hwt.1) hwt.2] at hX
      cases s with
      | pos =>
        have hv' : evalExpr env (.lit t) = some v := hv
        rw [hpv, sgn]; exact (lit_case t v hv' hX).symm
      | neg =>
        have hv' : (evalExpr env (.lit t)).map (fun v => -v) = some v := hv
        rw [Option.map_eq_some_iff] at hv'
        obtain ⟨w, hw, rfl⟩ := hv'
        rw [hpv, sgn, lit_case t w hw hX]
    | id n =>
      obtain ⟨c, cs, rfl, hcd, hcw⟩ := isIdent_head (by simpa [Expr.wf] using hwf.1)
      have hs := not_sign_of_word hcw
      have h1 : wrapSigned (printNode (.id (c :: cs))) = c :: cs := by
        simp [printNode, printWith, wrapSigned, startsSign, hs.1, hs.2]
      have := hhead c cs h1
      simp [hcd] at this
    | paren e2 =>
      have h1 : wrapSigned (printNode (.paren e2)) = '(' :: (printNode e2 ++ [')']) := by
        simp [printNode, printWith, wrapSigned, startsSign]
      exact absurd (hhead _ _ h1) (by decide)
    | un s2 e2 =>
      have h1 : wrapSigned (printNode (.un s2 e2)) = '(' :: (printNode (.un s2 e2) ++ [')']) := by
        cases s2 <;> simp [printNode, printWith, wrapSigned, startsSign, Sign.ch]
      exact absurd (hhead _ _ h1) (by decide)
    | bin l op r =>
      have := hwf.2
      cases op <;> simp [Expr.level] at this



/-! ### the loop of EnumNode.__init__ -/

/-- Accepted enumerations: values in the parser's expression grammar; the
    generated names are identifiers (Fortran: start with a letter) and the
    Fortran names do not clash case-insensitively. -/
structure EnumOK (c : Cfg) (ms : List Member) : Prop where
  wf : ∀ m ∈ ms, ∀ e, m.2 = some e → e.wf = true
  cident : ∀ n ∈ names ms, isIdent (cName c n) = true
  fident : ∀ n ∈ names ms, isIdentF (fName c n) = true
  fdistinct : ∀ a ∈ names ms, ∀ b ∈ names ms, lowerS (fName c a) = lowerS (fName c b) → a = b

/-- what the generated scopes know about the enumerators declared so far -/
def Rel (c : Cfg) (env envC envF : Env) : Prop :=
  ∀ n v, env.lookup n = some v →
    envC.lookup (cName c n) = some v ∧ envF.lookup (lowerS (fName c n)) = some v

/-- loop invariant: the state determines the value of the next implicit member -/
def Inv (c : Cfg) (ms : List Member) (env : Env) (next : Int) : St → Prop
  | .int n => n = next
  | .text cb fb k => ∃ e b, e.wf = true ∧ evalExpr env e = some b ∧
      cb = printNodeIdentifier (csyms c ms) e ∧ fb = printNodeIdentifier (fsyms c ms) e ∧ next = b + (k : Int)

theorem cName_inj (c : Cfg) {a b : Str} (h : cName c a = cName c b) : a = b := by
  unfold cName at h; exact List.append_cancel_left h

section Loop
variable {c : Cfg} {ms : List Member} (hok : EnumOK c ms)
include hok

theorem textC {env envC envF : Env} (hkeys : ∀ n, hasKey env n = true → n ∈ names ms)
    (hrel : Rel c env envC envF) {e : Expr} (hwf : e.wf = true) {v : Int} (hv : evalExpr env e = some v) :
    evalTextC envC (printNodeIdentifier (csyms c ms) e) = some v := by
  have hid : ∀ n ∈ e.ids, n ∈ names ms := fun n hn => hkeys n (ids_of_eval e hv n hn)
  refine evalTextC_print (env := env) ⟨?_, ?_⟩ hwf ⟨?_, ?_⟩ hv
  · intro t n h
    exact (o2d_litVal (by simpa using (litVal_digits h).2) h).1
  · intro n w h
    rw [rename_csyms c ms n (hkeys n (hasKey_of_lookup h))]
    exact (hrel n w h).1
  · intro t hne hd
    obtain ⟨h1, h2⟩ := o2d_digits hne hd
    exact goodWord_digits h1 h2 (mkWordC_digits h1 h2)
  · intro n hn
    rw [rename_csyms c ms n (hid n hn)]
    exact goodWord_identC (hok.cident n (hid n hn))

theorem textF {env envC envF : Env} (hkeys : ∀ n, hasKey env n = true → n ∈ names ms)
    (hrel : Rel c env envC envF) {e : Expr} (hwf : e.wf = true) {v : Int} (hv : evalExpr env e = some v) :
    evalTextF envF (printNodeIdentifier (fsyms c ms) e) = some v := by
  have hid : ∀ n ∈ e.ids, n ∈ names ms := fun n hn => hkeys n (ids_of_eval e hv n hn)
  refine evalTextF_print (env := env) (fid' := fun n => lowerS (rename (fsyms c ms) n)) ⟨?_, ?_⟩ hwf ⟨?_, ?_⟩ hv
  · intro t n h
    exact (o2d_litVal (by simpa using (litVal_digits h).2) h).2
  · intro n w h
    simp only [rename_fsyms c ms n (hkeys n (hasKey_of_lookup h))]
    exact (hrel n w h).2
  · intro t hne hd
    obtain ⟨h1, h2⟩ := o2d_digits hne hd
    exact goodWord_digits h1 h2 (mkWordF_digits h1 h2)
  · intro n hn
    simp only [rename_fsyms c ms n (hid n hn)]
    exact goodWord_identF (hok.fident n (hid n hn))

theorem step_env {env envC envF : Env} (hkeys : ∀ n, hasKey env n = true → n ∈ names ms)
    (hrel : Rel c env envC envF) {n : Str} (hn : n ∈ names ms) (v : Int) :
    (∀ x, hasKey ((n, v) :: env) x = true → x ∈ names ms) ∧
    Rel c ((n, v) :: env) ((cName c n, v) :: envC) ((lowerS (fName c n), v) :: envF) := by
  constructor
  · intro x hx
    simp only [hasKey, List.any_cons, Bool.or_eq_true, beq_iff_eq] at hx
    rcases hx with hx | hx
    · rw [← hx]; exact hn
    · exact hkeys x hx
  · intro x w hx
    simp only [List.lookup_cons] at hx ⊢
    by_cases hxn : x = n
    · subst hxn
      simp only [beq_self_eq_true] at hx ⊢
      exact ⟨hx, hx⟩
    · have h1 : (x == n) = false := by simpa using hxn
      rw [h1] at hx
      have hxm := hkeys x (hasKey_of_lookup hx)
      have h2 : (cName c x == cName c n) = false := by
        simpa using fun h => hxn (cName_inj c h)
      have h3 : (lowerS (fName c x) == lowerS (fName c n)) = false := by
        simpa using fun h => hxn (hok.fdistinct x hxm n hn h)
      rw [h2, h3]
      exact hrel x w hx

end Loop

theorem fresh_eval {env : Env} {n : Str} (hk : hasKey env n = false) (w : Int) {e : Expr} {b : Int}
    (hb : evalExpr env e = some b) : evalExpr ((n, w) :: env) e = some b := by
  rw [evalExpr_cons_fresh n w e]
  · exact hb
  · intro hmem
    have := ids_of_eval e hb n hmem
    rw [hk] at this; exact absurd this (by simp)




theorem cxx_none_step {env : Env} {next : Int} {n : Str} {rest : List Member} {vs : List Int}
    (h : cxxEnumFrom env next ((n, none) :: rest) = some vs) :
    hasKey env n = false ∧ ∃ vs', cxxEnumFrom ((n, next) :: env) (next + 1) rest = some vs' ∧ vs = next :: vs' := by
  simp only [cxxEnumFrom] at h
  split at h
  · simp at h
  · rename_i hk
    simp only [Option.map_eq_some_iff] at h
    obtain ⟨vs', h1, h2⟩ := h
    exact ⟨by simpa using hk, vs', h1, h2.symm⟩

theorem cxx_some_step {env : Env} {next : Int} {n : Str} {e : Expr} {rest : List Member} {vs : List Int}
    (h : cxxEnumFrom env next ((n, some e) :: rest) = some vs) :
    hasKey env n = false ∧ ∃ v vs', evalExpr env e = some v ∧
      cxxEnumFrom ((n, v) :: env) (v + 1) rest = some vs' ∧ vs = v :: vs' := by
  simp only [cxxEnumFrom] at h
  split at h
  · simp at h
  · rename_i hk
    split at h
    · simp at h
    · rename_i v hv
      simp only [Option.map_eq_some_iff] at h
      obtain ⟨vs', h1, h2⟩ := h
      exact ⟨by simpa using hk, v, vs', hv, h1, h2.symm⟩

theorem loop_correct {c : Cfg} {ms : List Member} (hok : EnumOK c ms) :
    ∀ (rest : List Member) (env envC envF : Env) (next : Int) (st : St) (vs : List Int),
      (∀ m ∈ rest, m ∈ ms) → (∀ n, hasKey env n = true → n ∈ names ms) → Rel c env envC envF →
      Inv c ms env next st → cxxEnumFrom env next rest = some vs →
      evalHeaderC envC next (header (enumLoop c (csyms c ms) (fsyms c ms) st rest)) = some vs ∧
      evalModuleF envF (fmodule (enumLoop c (csyms c ms) (fsyms c ms) st rest)) = some vs := by
  intro rest
  induction rest with
  | nil =>
    intro env envC envF next st vs _ _ _ _ h
    simp only [cxxEnumFrom, Option.some.injEq] at h
    subst h
    simp [enumLoop, header, fmodule, evalHeaderC, evalModuleF]
  | cons m rest ih =>
    intro env envC envF next st vs hmem hkeys hrel hinv h
    obtain ⟨n, oe⟩ := m
    have hn : n ∈ names ms := by
      have := hmem (n, oe) (by simp)
      exact List.mem_map.mpr ⟨(n, oe), this, rfl⟩
    have hmem' : ∀ m ∈ rest, m ∈ ms := fun m hm => hmem m (by simp [hm])
    cases oe with
    | none =>
      obtain ⟨hk, vs', hrec, rfl⟩ := cxx_none_step h
      obtain ⟨hkeys', hrel'⟩ := step_env hok hkeys hrel hn next
      -- the Fortran text of an implicit member
      have hF : evalTextF envF (stValueF st) = some next := by
        cases st with
        | int k =>
          simp only [Inv] at hinv
          subst hinv
          obtain ⟨h1, _, h3, h4⟩ := intExpr_spec k (rename (fsyms c ms)) env
          simp only [stValueF]
          rw [← h3]
          exact textF hok hkeys hrel h1 h4
        | text cb fb k =>
          obtain ⟨e, b, hwf, hb, _, hfb, hnext⟩ := hinv
          obtain ⟨h1, _, h3, h4⟩ := plusN_spec (rename (fsyms c ms)) env e hwf b hb k
          simp only [stValueF]
          rw [hfb, hnext, printNodeIdentifier, ← h3]
          exact textF hok hkeys hrel h1 h4
      have hinv' : Inv c ms ((n, next) :: env) (next + 1) (stNext st) := by
        cases st with
        | int k => simp only [Inv] at hinv; simp [stNext, Inv, hinv]
        | text cb fb k =>
          obtain ⟨e, b, hwf, hb, hcb, hfb, hnext⟩ := hinv
          exact ⟨e, b, hwf, fresh_eval hk next hb, hcb, hfb, by rw [hnext]; push_cast; omega⟩
      obtain ⟨ihC, ihF⟩ := ih _ _ _ _ _ _ hmem' hkeys' hrel' hinv' hrec
      simp only [enumLoop, header, fmodule, List.map_cons, evalHeaderC, evalModuleF, hF]
      simp only [header, fmodule] at ihC ihF
      simp [ihC, ihF]
    | some e =>
      obtain ⟨hk, v, vs', hv, hrec, rfl⟩ := cxx_some_step h
      obtain ⟨hkeys', hrel'⟩ := step_env hok hkeys hrel hn v
      have hwf : e.wf = true := hok.wf (n, some e) (hmem _ (by simp)) e rfl
      cases hpy : pyIntLiteral (printNode e) with
      | some pv =>
        have hpv : pv = v := pyInt_sound hwf hpy hv
        subst hpv
        obtain ⟨h1, _, h3, h4⟩ := intExpr_spec pv (rename (csyms c ms)) env
        obtain ⟨g1, _, g3, g4⟩ := intExpr_spec pv (rename (fsyms c ms)) env
        have hC : evalTextC envC (showInt pv) = some pv := by
          rw [← h3]; exact textC hok hkeys hrel h1 h4
        have hF : evalTextF envF (showInt pv) = some pv := by
          rw [← g3]; exact textF hok hkeys hrel g1 g4
        have hinv' : Inv c ms ((n, pv) :: env) (pv + 1) (.int (pv + 1)) := rfl
        obtain ⟨ihC, ihF⟩ := ih _ _ _ _ _ _ hmem' hkeys' hrel' hinv' hrec
        simp only [enumLoop, hpy, header, fmodule, List.map_cons, evalHeaderC, evalModuleF, hC, hF]
        simp only [header, fmodule] at ihC ihF
        simp [ihC, ihF]
      | none =>
        have hC := textC hok hkeys hrel hwf hv
        have hF := textF hok hkeys hrel hwf hv
        have hinv' : Inv c ms ((n, v) :: env) (v + 1)
            (.text (printNodeIdentifier (csyms c ms) e) (printNodeIdentifier (fsyms c ms) e) 1) :=
          ⟨e, v, hwf, fresh_eval hk v hv, rfl, rfl, by simp⟩
        obtain ⟨ihC, ihF⟩ := ih _ _ _ _ _ _ hmem' hkeys' hrel' hinv' hrec
        simp only [enumLoop, hpy, header, fmodule, List.map_cons, evalHeaderC, evalModuleF, hC, hF]
        simp only [header, fmodule] at ihC ihF
        simp [ihC, ihF]


end Shroud.Enum
