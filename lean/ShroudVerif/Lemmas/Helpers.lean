import ShroudVerif.Model.Helpers
/-! Lemmas for C05: DFS with a `done` set (spec, order, fuel), include lists. -/
namespace Shroud.Helpers

/-- `x` is a requested helper or a transitive dependency of one -/
inductive Reach (G : Graph) (ts : List Nat) : Nat → Prop where
  | base {x} : x ∈ ts → Reach G ts x
  | step {y x} : Reach G ts y → x ∈ deps G y → Reach G ts x

theorem Reach.trans {G : Graph} {ts us : List Nat} {x : Nat}
    (h : Reach G us x) (hu : ∀ u ∈ us, Reach G ts u) : Reach G ts x := by
  induction h with
  | base hx => exact hu _ hx
  | step _ hd ih => exact Reach.step ih hd

theorem Reach.mono {G : Graph} {ts us : List Nat} {x : Nat}
    (h : Reach G us x) (hsub : ∀ u ∈ us, u ∈ ts) : Reach G ts x :=
  h.trans (fun u hu => Reach.base (hsub u hu))

/-- what a successful traversal of the targets `ts` does to the state -/
def StepP (G : Graph) (ts : List Nat) (st st' : St) : Prop :=
  ∃ delta : List Nat,
    st'.out = st.out ++ delta ∧ delta.Nodup ∧ (∀ x ∈ delta, x ∉ st.done) ∧
    (∀ x, x ∈ st'.done ↔ x ∈ st.done ∨ x ∈ delta) ∧
    (∀ x ∈ delta, ∀ d ∈ deps G x, d ∈ st'.done) ∧
    (∀ t ∈ ts, t ∈ st'.done) ∧
    (∀ x ∈ delta, Reach G ts x)

theorem stepP_refl (G : Graph) (st : St) : StepP G [] st st :=
  ⟨[], by simp, by simp, by simp, by simp, by simp, by simp, by simp⟩

theorem stepP_cons {G : Graph} {d : Nat} {ds : List Nat} {st st1 st2 : St}
    (h1 : StepP G [d] st st1) (h2 : StepP G ds st1 st2) : StepP G (d :: ds) st st2 := by
  obtain ⟨e1, o1, n1, f1, d1, c1, t1, r1⟩ := h1
  obtain ⟨e2, o2, n2, f2, d2, c2, t2, r2⟩ := h2
  refine ⟨e1 ++ e2, ?_, ?_, ?_, ?_, ?_, ?_, ?_⟩
  · rw [o2, o1, List.append_assoc]
  · rw [List.nodup_append]
    refine ⟨n1, n2, ?_⟩
    intro a ha b hb hab
    subst hab
    exact f2 a hb ((d1 a).2 (Or.inr ha))
  · intro x hx
    rcases List.mem_append.1 hx with h | h
    · exact f1 x h
    · intro hd; exact f2 x h ((d1 x).2 (Or.inl hd))
  · intro x
    rw [d2, d1, List.mem_append]
    constructor
    · rintro ((h | h) | h)
      · exact Or.inl h
      · exact Or.inr (Or.inl h)
      · exact Or.inr (Or.inr h)
    · rintro (h | h | h)
      · exact Or.inl (Or.inl h)
      · exact Or.inl (Or.inr h)
      · exact Or.inr h
  · intro x hx dd hdd
    rcases List.mem_append.1 hx with h | h
    · exact (d2 dd).2 (Or.inl (c1 x h dd hdd))
    · exact c2 x h dd hdd
  · intro t ht
    rcases List.mem_cons.1 ht with h | h
    · subst h; exact (d2 t).2 (Or.inl (t1 t (by simp)))
    · exact t2 t h
  · intro x hx
    rcases List.mem_append.1 hx with h | h
    · exact (r1 x h).mono (by intro u hu; simp at hu; simp [hu])
    · exact (r2 x h).mono (by intro u hu; exact List.mem_cons_of_mem _ hu)

theorem loop_ok_inv {v : Nat → St → Res St} {ds : List Nat} {st st' : St}
    (h : loop v (d :: ds) st = .ok st') : ∃ st1, v d st = .ok st1 ∧ loop v ds st1 = .ok st' := by
  simp only [loop] at h
  split at h
  · exact ⟨_, by assumption, h⟩
  · cases h
  · cases h

theorem loop_stepP {G : Graph} {v : Nat → St → Res St}
    (hv : ∀ d st st', v d st = .ok st' → StepP G [d] st st') :
    ∀ (ds : List Nat) (st st' : St), loop v ds st = .ok st' → StepP G ds st st' := by
  intro ds
  induction ds with
  | nil => intro st st' h; simp [loop] at h; subst h; exact stepP_refl G st
  | cons d ds ih =>
    intro st st' h
    obtain ⟨st1, h1, h2⟩ := loop_ok_inv h
    exact stepP_cons (hv d st st1 h1) (ih st1 st' h2)

theorem visit_ok_inv {G : Graph} {f n : Nat} {st st' : St} (h : visit G (f + 1) n st = .ok st') :
    (n ∈ st.done ∧ st' = st) ∨
    (n ∉ st.done ∧ ∃ ds st1, G.lookup n = some ds ∧
      loop (visit G f) ds { st with done := n :: st.done } = .ok st1 ∧
      st' = { st1 with out := st1.out ++ [n] }) := by
  simp only [visit] at h
  split at h
  · left; exact ⟨by assumption, by cases h; rfl⟩
  · right
    refine ⟨by assumption, ?_⟩
    split at h
    · cases h
    · rename_i ds hl
      split at h
      · rename_i st1 hloop
        exact ⟨ds, st1, hl, hloop, by cases h; rfl⟩
      · cases h
      · cases h

theorem visit_stepP (G : Graph) : ∀ (f n : Nat) (st st' : St),
    visit G f n st = .ok st' → StepP G [n] st st' := by
  intro f
  induction f with
  | zero => intro n st st' h; simp [visit] at h
  | succ f ih =>
    intro n st st' h
    rcases visit_ok_inv h with ⟨hin, rfl⟩ | ⟨hnot, ds, st1, hl, hloop, rfl⟩
    · exact ⟨[], by simp, by simp, by simp, by simp, by simp, by simpa using hin, by simp⟩
    · have hs := loop_stepP (G := G) (ih) ds _ st1 hloop
      obtain ⟨e, o, nd, fr, di, cl, tg, rc⟩ := hs
      have hdeps : deps G n = ds := by simp [deps, hl]
      refine ⟨e ++ [n], ?_, ?_, ?_, ?_, ?_, ?_, ?_⟩
      · simp [o]
      · rw [List.nodup_append]
        refine ⟨nd, by simp, ?_⟩
        intro a ha b hb hab
        simp at hb; subst hb; subst hab
        exact fr a ha (by simp)
      · intro x hx
        rcases List.mem_append.1 hx with h | h
        · intro hd; exact fr x h (List.mem_cons_of_mem _ hd)
        · simp at h; subst h; exact hnot
      · intro x
        simp only [di, List.mem_cons, List.mem_append, List.not_mem_nil, or_false]
        constructor
        · rintro ((h | h) | h)
          · exact Or.inr (Or.inr h)
          · exact Or.inl h
          · exact Or.inr (Or.inl h)
        · rintro (h | h | h)
          · exact Or.inl (Or.inr h)
          · exact Or.inr h
          · exact Or.inl (Or.inl h)
      · intro x hx dd hdd
        rcases List.mem_append.1 hx with h | h
        · exact cl x h dd hdd
        · simp at h; subst h
          rw [hdeps] at hdd
          exact tg dd hdd
      · intro t ht
        simp at ht; subst ht
        exact (di t).2 (Or.inl (by simp))
      · intro x hx
        rcases List.mem_append.1 hx with h | h
        · refine (rc x h).trans ?_
          intro u hu
          exact Reach.step (y := n) (Reach.base (by simp)) (by rw [hdeps]; exact hu)
        · simp at h; subst h; exact Reach.base (by simp)

/-! ### emission order on acyclic graphs -/

/-- every helper appears after all of its dependencies -/
def EmittedAfterDeps (G : Graph) (out : List Nat) : Prop :=
  ∀ pre x post, out = pre ++ x :: post → ∀ d ∈ deps G x, d ∈ pre

theorem emittedAfterDeps_nil (G : Graph) : EmittedAfterDeps G [] := by
  intro pre x post h; simp at h

theorem emittedAfterDeps_snoc {G : Graph} {l : List Nat} {n : Nat}
    (hl : EmittedAfterDeps G l) (hn : ∀ d ∈ deps G n, d ∈ l) : EmittedAfterDeps G (l ++ [n]) := by
  intro pre x post h d hd
  rcases List.eq_nil_or_concat post with hp | ⟨post', b, hp⟩
  · subst hp
    have := List.append_inj' (show l ++ [n] = pre ++ [x] from h) (by simp)
    obtain ⟨h1, h2⟩ := this
    simp at h2; subst h1; subst h2
    exact hn d hd
  · subst hp
    have h' : l ++ [n] = (pre ++ x :: post') ++ [b] := by simpa using h
    have := List.append_inj' h' (by simp)
    exact hl pre x post' this.1 d hd

/-- the nodes on the recursion stack (marked, not yet emitted) all have a larger rank than `n` -/
def GrayAbove (rank : Nat → Nat) (st : St) (n : Nat) : Prop :=
  ∀ g ∈ st.done, g ∉ st.out → rank n < rank g

theorem grayAbove_of_stepP {G : Graph} {rank : Nat → Nat} {ts : List Nat} {st st' : St} {n : Nat}
    (hs : StepP G ts st st') (hg : GrayAbove rank st n) : GrayAbove rank st' n := by
  obtain ⟨e, o, _, _, di, _, _, _⟩ := hs
  intro g hgd hgo
  rw [o, List.mem_append] at hgo
  rcases (di g).1 hgd with h | h
  · exact hg g h (fun hh => hgo (Or.inl hh))
  · exact absurd (Or.inr h) hgo

theorem loop_order {G : Graph} {rank : Nat → Nat} {v : Nat → St → Res St}
    (hstep : ∀ d st st', v d st = .ok st' → StepP G [d] st st')
    (hord : ∀ d st st', EmittedAfterDeps G st.out → GrayAbove rank st d → v d st = .ok st' →
      EmittedAfterDeps G st'.out) :
    ∀ (ds : List Nat) (st st' : St), EmittedAfterDeps G st.out → (∀ d ∈ ds, GrayAbove rank st d) →
      loop v ds st = .ok st' → EmittedAfterDeps G st'.out := by
  intro ds
  induction ds with
  | nil => intro st st' ho _ h; simp [loop] at h; subst h; exact ho
  | cons d ds ih =>
    intro st st' ho hg h
    obtain ⟨st1, h1, h2⟩ := loop_ok_inv h
    have ho1 := hord d st st1 ho (hg d (by simp)) h1
    have hs1 := hstep d st st1 h1
    exact ih st1 st' ho1 (fun x hx => grayAbove_of_stepP hs1 (hg x (List.mem_cons_of_mem _ hx))) h2

theorem lookup_mem {G : Graph} {n : Nat} {ds : List Nat} (h : G.lookup n = some ds) : (n, ds) ∈ G := by
  induction G with
  | nil => simp at h
  | cons e es ih =>
    obtain ⟨k, v⟩ := e
    simp only [List.lookup] at h
    split at h
    · rename_i heq
      have : n = k := by simpa using heq
      cases h; subst this; simp
    · exact List.mem_cons_of_mem _ (ih h)

theorem visit_order (G : Graph) (rank : Nat → Nat)
    (hacyc : ∀ n ds, (n, ds) ∈ G → ∀ d ∈ ds, rank d < rank n) :
    ∀ (f n : Nat) (st st' : St), EmittedAfterDeps G st.out → GrayAbove rank st n →
      visit G f n st = .ok st' → EmittedAfterDeps G st'.out := by
  intro f
  induction f with
  | zero => intro n st st' _ _ h; simp [visit] at h
  | succ f ih =>
    intro n st st' ho hg h
    rcases visit_ok_inv h with ⟨_, rfl⟩ | ⟨hnot, ds, st1, hl, hloop, rfl⟩
    · exact ho
    · have hdeps : deps G n = ds := by simp [deps, hl]
      have hrank : ∀ d ∈ ds, rank d < rank n := hacyc n ds (lookup_mem hl)
      -- gray nodes of the state in which the dependencies are visited
      have hg0 : ∀ d ∈ ds, GrayAbove rank { st with done := n :: st.done } d := by
        intro d hd g hgd hgo
        simp only [List.mem_cons] at hgd
        rcases hgd with rfl | hgd
        · exact hrank d hd
        · exact Nat.lt_trans (hrank d hd) (hg g hgd hgo)
      have hs := loop_stepP (G := G) (visit_stepP G f) ds _ st1 hloop
      have ho1 : EmittedAfterDeps G st1.out :=
        loop_order (rank := rank) (visit_stepP G f) (ih) ds { st with done := n :: st.done } st1 ho hg0 hloop
      refine emittedAfterDeps_snoc ho1 ?_
      intro d hd
      rw [hdeps] at hd
      -- d is marked; if it were not emitted it would still be gray, with rank above its own
      have hg1 := grayAbove_of_stepP hs (hg0 d hd)
      obtain ⟨_, _, _, _, _, _, tg, _⟩ := hs
      apply Classical.byContradiction
      intro hno
      exact Nat.lt_irrefl _ (hg1 d (tg d hd) hno)

/-! ### fuel: the recursion depth is bounded by the number of unmarked keys -/

/-- number of keys not yet marked -/
def countFree (done : List Nat) : List Nat → Nat
  | [] => 0
  | k :: ks => (if k ∈ done then 0 else 1) + countFree done ks

def remaining (G : Graph) (done : List Nat) : Nat := countFree done (keys G)

theorem filter_len_mono (ks : List Nat) (d1 d2 : List Nat) (h : ∀ x ∈ d1, x ∈ d2) :
    countFree d2 ks ≤ countFree d1 ks := by
  induction ks with
  | nil => simp [countFree]
  | cons k ks ih =>
    simp only [countFree]
    by_cases h1 : k ∈ d1
    · have h2 := h k h1
      rw [if_pos h1, if_pos h2]; omega
    · by_cases h2 : k ∈ d2
      · rw [if_neg h1, if_pos h2]; omega
      · rw [if_neg h1, if_neg h2]; omega

theorem filter_len_strict (ks : List Nat) (d : List Nat) (n : Nat) (hk : n ∈ ks) (hn : n ∉ d) :
    countFree (n :: d) ks < countFree d ks := by
  induction ks with
  | nil => simp at hk
  | cons k ks ih =>
    have hmono := filter_len_mono ks d (n :: d) (fun x hx => List.mem_cons_of_mem _ hx)
    simp only [countFree]
    by_cases hkn : k = n
    · subst hkn
      rw [if_pos (by simp), if_neg hn]; omega
    · have hk' : n ∈ ks := by
        rcases List.mem_cons.1 hk with h | h
        · exact absurd h.symm hkn
        · exact h
      have := ih hk'
      by_cases h1 : k ∈ d
      · rw [if_pos (List.mem_cons_of_mem _ h1), if_pos h1]; omega
      · rw [if_neg (by simp [hkn, h1]), if_neg h1]; omega

theorem remaining_mono (G : Graph) (d1 d2 : List Nat) (h : ∀ x ∈ d1, x ∈ d2) :
    remaining G d2 ≤ remaining G d1 := filter_len_mono _ _ _ h

theorem lookup_some_mem_keys {G : Graph} {n : Nat} {ds : List Nat} (h : G.lookup n = some ds) :
    n ∈ keys G := by
  have := lookup_mem h
  exact List.mem_map.2 ⟨(n, ds), this, rfl⟩

theorem remaining_strict (G : Graph) (d : List Nat) (n : Nat) (hk : n ∈ keys G) (hn : n ∉ d) :
    remaining G (n :: d) < remaining G d := filter_len_strict _ _ _ hk hn

/-- a loop whose body never runs out of fuel while `P` holds, and keeps `P` -/
theorem loop_no_fuel {v : Nat → St → Res St} {P : St → Prop}
    (hv : ∀ d st, P st → v d st ≠ .outOfFuel ∧ ∀ st', v d st = .ok st' → P st') :
    ∀ (ds : List Nat) (st : St), P st → loop v ds st ≠ .outOfFuel := by
  intro ds
  induction ds with
  | nil => intro st _; simp [loop]
  | cons d ds ih =>
    intro st hp
    simp only [loop]
    have := hv d st hp
    split
    · rename_i st' heq; exact ih st' (this.2 st' heq)
    · simp
    · rename_i heq; exact absurd heq this.1

theorem visit_no_fuel (G : Graph) : ∀ (f n : Nat) (st : St), remaining G st.done < f →
    visit G f n st ≠ .outOfFuel := by
  intro f
  induction f with
  | zero => intro n st h; omega
  | succ f ih =>
    intro n st hrem
    simp only [visit]
    split
    · simp
    · rename_i hnot
      split
      · simp
      · rename_i ds hl
        have hk := lookup_some_mem_keys hl
        have hlt := remaining_strict G st.done n hk hnot
        have hloop : loop (visit G f) ds { st with done := n :: st.done } ≠ .outOfFuel := by
          refine loop_no_fuel (P := fun s => remaining G s.done < f) ?_ ds _ (by simp; omega)
          intro d s hp
          refine ⟨ih d s hp, ?_⟩
          intro s' hs'
          obtain ⟨e, _, _, _, di, _, _, _⟩ := visit_stepP G f d s s' hs'
          have := remaining_mono G s.done s'.done (fun x hx => (di x).2 (Or.inl hx))
          show remaining G s'.done < f
          omega
        split
        · simp
        · simp
        · rename_i heq; exact absurd heq hloop

/-! ### no KeyError on closed graphs -/

def Closed (G : Graph) : Prop := ∀ n ds, (n, ds) ∈ G → ∀ d ∈ ds, (G.lookup d).isSome

theorem loop_no_keyError {v : Nat → St → Res St} {ds : List Nat}
    (hv : ∀ d ∈ ds, ∀ st k, v d st ≠ .keyError k) :
    ∀ (st : St) k, loop v ds st ≠ .keyError k := by
  induction ds with
  | nil => intro st k; simp [loop]
  | cons d ds ih =>
    intro st k
    simp only [loop]
    split
    · exact ih (fun x hx => hv x (List.mem_cons_of_mem _ hx)) _ k
    · rename_i heq; exact absurd heq (hv d (by simp) st _)
    · simp

theorem visit_no_keyError (G : Graph) (hc : Closed G) : ∀ (f n : Nat), (G.lookup n).isSome →
    ∀ st k, visit G f n st ≠ .keyError k := by
  intro f
  induction f with
  | zero => intro n _ st k; simp [visit]
  | succ f ih =>
    intro n hn st k
    simp only [visit]
    split
    · simp
    · split
      · rename_i hl; simp [hl] at hn
      · rename_i ds hl
        have hds : ∀ d ∈ ds, (G.lookup d).isSome := hc n ds (lookup_mem hl)
        have := loop_no_keyError (v := visit G f) (ds := ds) (fun d hd => ih d (hds d hd))
        split
        · simp
        · rename_i heq; exact absurd heq (this _ _)
        · simp

/-! ### sorting keeps the request set -/

theorem mem_insertSorted (a x : Nat) (l : List Nat) : x ∈ insertSorted a l ↔ x = a ∨ x ∈ l := by
  induction l with
  | nil => simp [insertSorted]
  | cons b bs ih =>
    simp only [insertSorted]
    split
    · simp
    · simp [ih]; constructor
      · rintro (h | h | h) <;> simp [h]
      · rintro (h | h | h) <;> simp [h]

theorem mem_sortNat (x : Nat) (l : List Nat) : x ∈ sortNat l ↔ x ∈ l := by
  induction l with
  | nil => simp [sortNat]
  | cons a as ih => simp [sortNat, mem_insertSorted, ih]

/-! ### include lists and bracket counters -/

theorem ifDepth_append (l1 l2 : List HLine) : ∀ (d d1 : Nat), ifDepth d l1 = some d1 →
    ifDepth d (l1 ++ l2) = ifDepth d1 l2 := by
  induction l1 with
  | nil => intro d d1 h; simp [ifDepth] at h; subst h; rfl
  | cons x xs ih =>
    intro d d1 h
    cases x <;> simp only [ifDepth, List.cons_append] at h ⊢ <;> (try exact ih _ _ h)
    all_goals
      split at h
      · cases h
      · rename_i hne; rw [if_neg hne]; exact ih _ _ h

theorem externDepth_append (l1 l2 : List HLine) : ∀ (d d1 : Nat), externDepth d l1 = some d1 →
    externDepth d (l1 ++ l2) = externDepth d1 l2 := by
  induction l1 with
  | nil => intro d d1 h; simp [externDepth] at h; subst h; rfl
  | cons x xs ih =>
    intro d d1 h
    cases x <;> simp only [externDepth, List.cons_append] at h ⊢ <;> (try exact ih _ _ h)
    all_goals
      split at h
      · cases h
      · rename_i hne; rw [if_neg hne]; exact ih _ _ h

theorem ifDepth_append_eq (a b : List HLine) : ∀ d, ifDepth d (a ++ b) = (ifDepth d a).bind (fun d1 => ifDepth d1 b) := by
  induction a with
  | nil => intro d; simp [ifDepth]
  | cons x xs ih =>
    intro d
    cases x <;> simp only [ifDepth, List.cons_append] <;> (try exact ih _)
    all_goals
      split
      · simp
      · exact ih _

theorem externDepth_append_eq (a b : List HLine) : ∀ d, externDepth d (a ++ b) = (externDepth d a).bind (fun d1 => externDepth d1 b) := by
  induction a with
  | nil => intro d; simp [externDepth]
  | cons x xs ih =>
    intro d
    cases x <;> simp only [externDepth, List.cons_append] <;> (try exact ih _)
    all_goals
      split
      · simp
      · exact ih _

/-- neutral for the `#if` counter from every depth -/
def IfBal (l : List HLine) : Prop := ∀ d, ifDepth d l = some d
/-- neutral for the extern "C" counter from every depth -/
def ExtBal (l : List HLine) : Prop := ∀ d, externDepth d l = some d

theorem IfBal.append {a b : List HLine} (ha : IfBal a) (hb : IfBal b) : IfBal (a ++ b) := by
  intro d; rw [ifDepth_append a b d d (ha d)]; exact hb d
theorem ExtBal.append {a b : List HLine} (ha : ExtBal a) (hb : ExtBal b) : ExtBal (a ++ b) := by
  intro d; rw [externDepth_append a b d d (ha d)]; exact hb d

theorem ifBal_nil : IfBal [] := fun _ => rfl
theorem extBal_nil : ExtBal [] := fun _ => rfl

/-- an `#if ... #endif` pair around a neutral block is neutral -/
theorem IfBal.wrap {a : List HLine} (k : Nat) (ha : IfBal a) : IfBal ([.ifOpen k] ++ a ++ [.endif]) := by
  intro d
  have : ifDepth d ([HLine.ifOpen k] ++ a ++ [.endif]) = ifDepth (d + 1) (a ++ [.endif]) := by
    simp [ifDepth]
  rw [this, ifDepth_append a _ (d + 1) (d + 1) (ha _)]
  simp [ifDepth]

theorem IfBal.wrapElse {a b : List HLine} (k : Nat) (ha : IfBal a) (hb : IfBal b) :
    IfBal ([.ifOpen k] ++ a ++ ([.elseL] ++ b) ++ [.endif]) := by
  intro d
  have : ifDepth d ([HLine.ifOpen k] ++ a ++ ([.elseL] ++ b) ++ [.endif])
      = ifDepth (d + 1) (a ++ (([.elseL] ++ b) ++ [.endif])) := by
    simp [ifDepth]
  rw [this, ifDepth_append a _ (d + 1) (d + 1) (ha _)]
  have h2 : ifDepth (d + 1) (([HLine.elseL] ++ b) ++ [.endif]) = ifDepth (d + 1) (b ++ [.endif]) := by
    simp [ifDepth]
  rw [h2, ifDepth_append b _ (d + 1) (d + 1) (hb _)]
  simp [ifDepth]

theorem ifBal_bodies (k n : Nat) : IfBal (bodies k n) := by
  intro d; induction n with
  | zero => rfl
  | succ n ih => simpa [bodies, List.replicate_succ, ifDepth] using ih
theorem extBal_bodies (k n : Nat) : ExtBal (bodies k n) := by
  intro d; induction n with
  | zero => rfl
  | succ n ih => simpa [bodies, List.replicate_succ, externDepth] using ih

theorem ifBal_group (skip : List Nat) (g : List (Nat × List TM)) : IfBal (writeIncludeGroup skip g) := by
  induction g with
  | nil => exact ifBal_nil
  | cons e es ih =>
    obtain ⟨h, us⟩ := e
    simp only [writeIncludeGroup]
    refine IfBal.append ?_ ih
    split
    · exact ifBal_nil
    · split
      · split
        · intro d; simp [ifDepth]
        · intro d; simp [ifDepth]
      · intro d; simp [ifDepth]

theorem extBal_group (skip : List Nat) (g : List (Nat × List TM)) : ExtBal (writeIncludeGroup skip g) := by
  induction g with
  | nil => exact extBal_nil
  | cons e es ih =>
    obtain ⟨h, us⟩ := e
    simp only [writeIncludeGroup]
    refine ExtBal.append ?_ ih
    split
    · exact extBal_nil
    · split
      · split
        · intro d; simp [externDepth]
        · intro d; simp [externDepth]
      · intro d; simp [externDepth]

theorem ifBal_includesForHeader (langC : Bool) (u : Nat) (tms : List TM) :
    IfBal (writeIncludesForHeader langC u tms) := by
  unfold writeIncludesForHeader
  simp only []
  refine IfBal.append (IfBal.append (ifBal_group _ _) (ifBal_group _ _)) ?_
  split
  · exact ifBal_group _ _
  · split
    · split
      · exact IfBal.wrapElse 0 (ifBal_group _ _) (ifBal_group _ _)
      · have := IfBal.wrap 0 (ifBal_group [] (List.filter (fun e => !(List.lookup e.1 (groupHeaders TM.cHeader tms)).isSome) (groupHeaders TM.cxxHeader tms)))
        simpa using this
    · split
      · exact IfBal.wrap 1 (ifBal_group _ _)
      · exact ifBal_nil

theorem extBal_includesForHeader (langC : Bool) (u : Nat) (tms : List TM) :
    ExtBal (writeIncludesForHeader langC u tms) := by
  unfold writeIncludesForHeader
  simp only []
  have one : ∀ (x : HLine), x ≠ .externOpen → x ≠ .externClose → ExtBal [x] := by
    intro x h1 h2 d; cases x <;> simp_all [externDepth]
  refine ExtBal.append (ExtBal.append (extBal_group _ _) (extBal_group _ _)) ?_
  split
  · exact extBal_group _ _
  · split
    · refine ExtBal.append (ExtBal.append (ExtBal.append (one _ (by simp) (by simp)) (extBal_group _ _)) ?_) (one _ (by simp) (by simp))
      split
      · exact ExtBal.append (one _ (by simp) (by simp)) (extBal_group _ _)
      · exact extBal_nil
    · split
      · exact ExtBal.append (ExtBal.append (one _ (by simp) (by simp)) (extBal_group _ _)) (one _ (by simp) (by simp))
      · exact extBal_nil

theorem dictLoop_bal (names found : List Nat) : IfBal (dictLoop names found).1 ∧ ExtBal (dictLoop names found).1 := by
  induction names generalizing found with
  | nil => exact ⟨ifBal_nil, extBal_nil⟩
  | cons h hs ih =>
    simp only [dictLoop]
    split
    · exact ih found
    · have := ih (h :: found)
      constructor
      · intro d; simp only [ifDepth]; exact this.1 d
      · intro d; simp only [externDepth]; exact this.2 d

theorem category_ifBal (debug : Bool) (cat : Nat) (pre : List HLine) (names : List Nat)
    (acc : List HLine × Bool × List Nat) (ha : IfBal acc.1) (hp : IfBal pre) :
    IfBal (category debug cat pre names acc).1 := by
  unfold category
  simp only []
  split
  · exact ha
  · refine IfBal.append (IfBal.append (IfBal.append ha ?_) ?_) (IfBal.append hp (dictLoop_bal _ _).1)
    · split
      · intro d; simp [ifDepth]
      · exact ifBal_nil
    · split
      · intro d; simp [ifDepth]
      · exact ifBal_nil

theorem category_extBal (debug : Bool) (cat : Nat) (pre : List HLine) (names : List Nat)
    (acc : List HLine × Bool × List Nat) (ha : ExtBal acc.1) (hp : ExtBal pre) :
    ExtBal (category debug cat pre names acc).1 := by
  unfold category
  simp only []
  split
  · exact ha
  · refine ExtBal.append (ExtBal.append (ExtBal.append ha ?_) ?_) (ExtBal.append hp (dictLoop_bal _ _).2)
    · split
      · intro d; simp [externDepth]
      · exact extBal_nil
    · split
      · intro d; simp [externDepth]
      · exact extBal_nil

theorem writeHeaders_ifBal (h : Hdr) : IfBal (writeHeaders h) := by
  unfold writeHeaders
  simp only []
  refine category_ifBal _ _ _ _ _ (category_ifBal _ _ _ _ _ (category_ifBal _ _ _ _ _ ifBal_nil ifBal_nil) ?_) ifBal_nil
  unfold typemapLines
  split
  · exact ifBal_group _ _
  · exact ifBal_includesForHeader _ _ _

theorem writeHeaders_extBal (h : Hdr) : ExtBal (writeHeaders h) := by
  unfold writeHeaders
  simp only []
  refine category_extBal _ _ _ _ _ (category_extBal _ _ _ _ _ (category_extBal _ _ _ _ _ extBal_nil extBal_nil) ?_) extBal_nil
  unfold typemapLines
  split
  · exact extBal_group _ _
  · exact extBal_includesForHeader _ _ _

/-! ### each header at most once -/

theorem includes_append (a b : List HLine) : includes (a ++ b) = includes a ++ includes b := by
  induction a with
  | nil => rfl
  | cons x xs ih => cases x <;> simp [includes, ih]

theorem dictLoop_spec (names : List Nat) : ∀ found : List Nat,
    (includes (dictLoop names found).1).Nodup ∧
    (∀ x ∈ includes (dictLoop names found).1, x ∈ names ∧ x ∉ found) ∧
    (∀ x, x ∈ (dictLoop names found).2 ↔ x ∈ found ∨ x ∈ names) ∧
    ((dictLoop names found).1 = [] → includes (dictLoop names found).1 = []) := by
  induction names with
  | nil => intro found; simp [dictLoop, includes]
  | cons h hs ih =>
    intro found
    simp only [dictLoop]
    split
    · rename_i hin
      obtain ⟨a, b, c, d⟩ := ih found
      refine ⟨a, ?_, ?_, d⟩
      · intro x hx; exact ⟨List.mem_cons_of_mem _ (b x hx).1, (b x hx).2⟩
      · intro x; rw [c]; constructor
        · rintro (h1 | h1)
          · exact Or.inl h1
          · exact Or.inr (List.mem_cons_of_mem _ h1)
        · rintro (h1 | h1)
          · exact Or.inl h1
          · rcases List.mem_cons.1 h1 with h2 | h2
            · subst h2; exact Or.inl hin
            · exact Or.inr h2
    · rename_i hnot
      obtain ⟨a, b, c, _⟩ := ih (h :: found)
      refine ⟨?_, ?_, ?_, by simp⟩
      · simp only [includes, List.nodup_cons]
        refine ⟨?_, a⟩
        intro hx; exact (b h hx).2 (by simp)
      · intro x hx
        simp only [includes, List.mem_cons] at hx
        rcases hx with rfl | hx
        · exact ⟨by simp, hnot⟩
        · exact ⟨List.mem_cons_of_mem _ (b x hx).1, fun hf => (b x hx).2 (List.mem_cons_of_mem _ hf)⟩
      · intro x; rw [c]; simp only [List.mem_cons]; constructor
        · rintro ((h1 | h1) | h1)
          · exact Or.inr (Or.inl h1)
          · exact Or.inl h1
          · exact Or.inr (Or.inr h1)
        · rintro (h1 | h1 | h1)
          · exact Or.inl (Or.inr h1)
          · exact Or.inl (Or.inl h1)
          · exact Or.inr h1

theorem includes_category (debug : Bool) (cat : Nat) (pre : List HLine) (names : List Nat)
    (acc : List HLine × Bool × List Nat) :
    includes (category debug cat pre names acc).1 =
      includes acc.1 ++ includes pre ++ includes (dictLoop names acc.2.2).1 ∧
    (category debug cat pre names acc).2.2 = (dictLoop names acc.2.2).2 := by
  unfold category
  simp only []
  split
  · rename_i hemp
    have : pre = [] ∧ (dictLoop names acc.2.2).1 = [] := by
      simpa [List.isEmpty_iff] using hemp
    simp [this.1, this.2, includes]
  · refine ⟨?_, rfl⟩
    simp only [includes_append]
    have h1 : includes (if acc.2.1 = true then [HLine.blank] else []) = [] := by
      split <;> rfl
    have h2 : includes (if debug = true then [HLine.comment cat] else []) = [] := by
      split <;> rfl
    simp [h1, h2]

end Shroud.Helpers
