import ShroudVerif.Model.Helpers
/-! Lemmas for C05: DFS with a `done` set (spec, order, fuel), include lists. -/
namespace Shroud.Helpers

/-- `x` is a requested helper or a transitive dependency of one -/
inductive Reach (G : Graph) (ts : List Nat) : Nat → Prop where
  | base {x} : x ∈ ts → Reach G ts x
  | step {y x} : Reach G ts y → x ∈ deps G y → Reach G ts x

theorem Reach.trans {G : Graph} {ts us : List Nat} {x : Nat}
    (h : Reach G us x) (hu : ∀ u ∈ us, Reach G ts u) : Reach G ts x := by
  induction h with
  | base hx => exact hu _ hx
  | step _ hd ih => exact Reach.step ih hd

theorem Reach.mono {G : Graph} {ts us : List Nat} {x : Nat}
    (h : Reach G us x) (hsub : ∀ u ∈ us, u ∈ ts) : Reach G ts x :=
  h.trans (fun u hu => Reach.base (hsub u hu))

/-- what a successful traversal of the targets `ts` does to the state -/
def StepP (G : Graph) (ts : List Nat) (st st' : St) : Prop :=
  ∃ delta : List Nat,
    st'.out = st.out ++ delta ∧ delta.Nodup ∧ (∀ x ∈ delta, x ∉ st.done) ∧
    (∀ x, x ∈ st'.done ↔ x ∈ st.done ∨ x ∈ delta) ∧
    (∀ x ∈ delta, ∀ d ∈ deps G x, d ∈ st'.done) ∧
    (∀ t ∈ ts, t ∈ st'.done) ∧
    (∀ x ∈ delta, Reach G ts x)

theorem stepP_refl (G : Graph) (st : St) : StepP G [] st st :=
  ⟨[], by simp, by simp, by simp, by simp, by simp, by simp, by simp⟩

theorem stepP_cons {G : Graph} {d : Nat} {ds : List Nat} {st st1 st2 : St}
    (h1 : StepP G [d] st st1) (h2 : StepP G ds st1 st2) : StepP G (d :: ds) st st2 := by
  obtain ⟨e1, o1, n1, f1, d1, c1, t1, r1⟩ := h1
  obtain ⟨e2, o2, n2, f2, d2, c2, t2, r2⟩ := h2
  refine ⟨e1 ++ e2, ?_, ?_, ?_, ?_, ?_, ?_, ?_⟩
  · rw [o2, o1, List.append_assoc]
  · rw [List.nodup_append]
    refine ⟨n1, n2, ?_⟩
    intro a ha b hb hab
    subst hab
    exact f2 a hb ((d1 a).2 (Or.inr ha))
  · intro x hx
    rcases List.mem_append.1 hx with h | h
    · exact f1 x h
    · intro hd; exact f2 x h ((d1 x).2 (Or.inl hd))
  · intro x
    rw [d2, d1, List.mem_append]
    constructor
    · rintro ((h | h) | h)
      · exact Or.inl h
      · exact Or.inr (Or.inl h)
      · exact Or.inr (Or.inr h)
    · rintro (h | h | h)
      · exact Or.inl (Or.inl h)
      · exact Or.inl (Or.inr h)
      · exact Or.inr h
  · intro x hx dd hdd
    rcases List.mem_append.1 hx with h | h
    · exact (d2 dd).2 (Or.inl (c1 x h dd hdd))
    · exact c2 x h dd hdd
  · intro t ht
    rcases List.mem_cons.1 ht with h | h
    · subst h; exact (d2 t).2 (Or.inl (t1 t (by simp)))
    · exact t2 t h
  · intro x hx
    rcases List.mem_append.1 hx with h | h
    · exact (r1 x h).mono (by intro u hu; simp at hu; simp [hu])
    · exact (r2 x h).mono (by intro u hu; exact List.mem_cons_of_mem _ hu)

theorem loop_ok_inv {v : Nat → St → Res St} {ds : List Nat} {st st' : St}
    (h : loop v (d :: ds) st = .ok st') : ∃ st1, v d st = .ok st1 ∧ loop v ds st1 = .ok st' := by
  simp only [loop] at h
  split at h
  · exact ⟨_, by assumption, h⟩
  · cases h
  · cases h

theorem loop_stepP {G : Graph} {v : Nat → St → Res St}
    (hv : ∀ d st st', v d st = .ok st' → StepP G [d] st st') :
    ∀ (ds : List Nat) (st st' : St), loop v ds st = .ok st' → StepP G ds st st' := by
  intro ds
  induction ds with
  | nil => intro st st' h; simp [loop] at h; subst h; exact stepP_refl G st
  | cons d ds ih =>
    intro st st' h
    obtain ⟨st1, h1, h2⟩ := loop_ok_inv h
    exact stepP_cons (hv d st st1 h1) (ih st1 st' h2)

theorem visit_ok_inv {G : Graph} {f n : Nat} {st st' : St} (h : visit G (f + 1) n st = .ok st') :
    (n ∈ st.done ∧ st' = st) ∨
    (n ∉ st.done ∧ ∃ ds st1, G.lookup n = some ds ∧
      loop (visit G f) ds { st with done := n :: st.done } = .ok st1 ∧
      st' = { st1 with out := st1.out ++ [n] }) := by
  simp only [visit] at h
  split at h
  · left; exact ⟨by assumption, by cases h; rfl⟩
  · right
    refine ⟨by assumption, ?_⟩
    split at h
    · cases h
    · rename_i ds hl
      split at h
      · rename_i st1 hloop
        exact ⟨ds, st1, hl, hloop, by cases h; rfl⟩
      · cases h
      · cases h

theorem visit_stepP (G : Graph) : ∀ (f n : Nat) (st st' : St),
    visit G f n st = .ok st' → StepP G [n] st st' := by
  intro f
  induction f with
  | zero => intro n st st' h; simp [visit] at h
  | succ f ih =>
    intro n st st' h
    rcases visit_ok_inv h with ⟨hin, rfl⟩ | ⟨hnot, ds, st1, hl, hloop, rfl⟩
    · exact ⟨[], by simp, by simp, by simp, by simp, by simp, by simpa using hin, by simp⟩
    · have hs := loop_stepP (G := G) (ih) ds _ st1 hloop
      obtain ⟨e, o, nd, fr, di, cl, tg, rc⟩ := hs
      have hdeps : deps G n = ds := by simp [deps, hl]
      refine ⟨e ++ [n], ?_, ?_, ?_, ?_, ?_, ?_, ?_⟩
      · simp [o]
      · rw [List.nodup_append]
        refine ⟨nd, by simp, ?_⟩
        intro a ha b hb hab
        simp at hb; subst hb; subst hab
        exact fr a ha (by simp)
      · intro x hx
        rcases List.mem_append.1 hx with h | h
        · intro hd; exact fr x h (List.mem_cons_of_mem _ hd)
        · simp at h; subst h; exact hnot
      · intro x
        simp only [di, List.mem_cons, List.mem_append, List.mem_singleton]
        constructor
        · rintro ((h | h) | h)
          · exact Or.inr (Or.inr h)
          · exact Or.inl h
          · exact Or.inr (Or.inl h)
        · rintro (h | h | h)
          · exact Or.inl (Or.inr h)
          · exact Or.inr h
          · exact Or.inl (Or.inl h)
      · intro x hx dd hdd
        rcases List.mem_append.1 hx with h | h
        · exact cl x h dd hdd
        · simp at h; subst h
          rw [hdeps] at hdd
          exact tg dd hdd
      · intro t ht
        simp at ht; subst ht
        exact (di t).2 (Or.inl (by simp))
      · intro x hx
        rcases List.mem_append.1 hx with h | h
        · refine (rc x h).trans ?_
          intro u hu
          exact Reach.step (Reach.base (by simp)) (by rw [hdeps]; exact hu)
        · simp at h; subst h; exact Reach.base (by simp)

/-! ### emission order on acyclic graphs -/

/-- every helper appears after all of its dependencies -/
def EmittedAfterDeps (G : Graph) (out : List Nat) : Prop :=
  ∀ pre x post, out = pre ++ x :: post → ∀ d ∈ deps G x, d ∈ pre

theorem emittedAfterDeps_nil (G : Graph) : EmittedAfterDeps G [] := by
  intro pre x post h; simp at h

theorem emittedAfterDeps_snoc {G : Graph} {l : List Nat} {n : Nat}
    (hl : EmittedAfterDeps G l) (hn : ∀ d ∈ deps G n, d ∈ l) : EmittedAfterDeps G (l ++ [n]) := by
  intro pre x post h d hd
  rcases List.eq_nil_or_concat post with hp | ⟨post', b, hp⟩
  · subst hp
    have := List.append_inj' (show l ++ [n] = pre ++ [x] from h) (by simp)
    obtain ⟨h1, h2⟩ := this
    simp at h2; subst h1; subst h2
    exact hn d hd
  · subst hp
    have h' : l ++ [n] = (pre ++ x :: post') ++ [b] := by simpa using h
    have := List.append_inj' h' (by simp)
    exact hl pre x post' this.1 d hd

/-- the nodes on the recursion stack (marked, not yet emitted) all have a larger rank than `n` -/
def GrayAbove (rank : Nat → Nat) (st : St) (n : Nat) : Prop :=
  ∀ g ∈ st.done, g ∉ st.out → rank n < rank g

theorem grayAbove_of_stepP {G : Graph} {rank : Nat → Nat} {ts : List Nat} {st st' : St} {n : Nat}
    (hs : StepP G ts st st') (hg : GrayAbove rank st n) : GrayAbove rank st' n := by
  obtain ⟨e, o, _, _, di, _, _, _⟩ := hs
  intro g hgd hgo
  rw [o, List.mem_append] at hgo
  rcases (di g).1 hgd with h | h
  · exact hg g h (fun hh => hgo (Or.inl hh))
  · exact absurd (Or.inr h) hgo

theorem loop_order {G : Graph} {rank : Nat → Nat} {v : Nat → St → Res St}
    (hstep : ∀ d st st', v d st = .ok st' → StepP G [d] st st')
    (hord : ∀ d st st', EmittedAfterDeps G st.out → GrayAbove rank st d → v d st = .ok st' →
      EmittedAfterDeps G st'.out) :
    ∀ (ds : List Nat) (st st' : St), EmittedAfterDeps G st.out → (∀ d ∈ ds, GrayAbove rank st d) →
      loop v ds st = .ok st' → EmittedAfterDeps G st'.out := by
  intro ds
  induction ds with
  | nil => intro st st' ho _ h; simp [loop] at h; subst h; exact ho
  | cons d ds ih =>
    intro st st' ho hg h
    obtain ⟨st1, h1, h2⟩ := loop_ok_inv h
    have ho1 := hord d st st1 ho (hg d (by simp)) h1
    have hs1 := hstep d st st1 h1
    exact ih st1 st' ho1 (fun x hx => grayAbove_of_stepP hs1 (hg x (List.mem_cons_of_mem _ hx))) h2

theorem lookup_mem {G : Graph} {n : Nat} {ds : List Nat} (h : G.lookup n = some ds) : (n, ds) ∈ G := by
  induction G with
  | nil => simp at h
  | cons e es ih =>
    obtain ⟨k, v⟩ := e
    simp only [List.lookup] at h
    split at h
    · rename_i heq
      have : n = k := by simpa using heq
      cases h; subst this; simp
    · exact List.mem_cons_of_mem _ (ih h)

theorem visit_order (G : Graph) (rank : Nat → Nat)
    (hacyc : ∀ n ds, (n, ds) ∈ G → ∀ d ∈ ds, rank d < rank n) :
    ∀ (f n : Nat) (st st' : St), EmittedAfterDeps G st.out → GrayAbove rank st n →
      visit G f n st = .ok st' → EmittedAfterDeps G st'.out := by
  intro f
  induction f with
  | zero => intro n st st' _ _ h; simp [visit] at h
  | succ f ih =>
    intro n st st' ho hg h
    rcases visit_ok_inv h with ⟨_, rfl⟩ | ⟨hnot, ds, st1, hl, hloop, rfl⟩
    · exact ho
    · have hdeps : deps G n = ds := by simp [deps, hl]
      have hrank : ∀ d ∈ ds, rank d < rank n := hacyc n ds (lookup_mem hl)
      -- gray nodes of the state in which the dependencies are visited
      have hg0 : ∀ d ∈ ds, GrayAbove rank { st with done := n :: st.done } d := by
        intro d hd g hgd hgo
        simp only [List.mem_cons] at hgd
        rcases hgd with rfl | hgd
        · exact hrank d hd
        · exact Nat.lt_trans (hrank d hd) (hg g hgd hgo)
      have hs := loop_stepP (G := G) (visit_stepP G f) ds _ st1 hloop
      have ho1 : EmittedAfterDeps G st1.out :=
        loop_order (rank := rank) (visit_stepP G f) (ih) ds _ st1 ho hg0 hloop
      refine emittedAfterDeps_snoc ho1 ?_
      intro d hd
      rw [hdeps] at hd
      -- d is marked; if it were not emitted it would still be gray, with rank above its own
      have hg1 := grayAbove_of_stepP hs (hg0 d hd)
      obtain ⟨_, _, _, _, _, _, tg, _⟩ := hs
      apply Classical.byContradiction
      intro hno
      exact Nat.lt_irrefl _ (hg1 d (tg d hd) hno)

/-! ### fuel: the recursion depth is bounded by the number of unmarked keys -/

def remaining (G : Graph) (done : List Nat) : Nat :=
  ((keys G).filter (fun k => !done.contains k)).length

theorem filter_len_mono (ks : List Nat) (d1 d2 : List Nat) (h : ∀ x ∈ d1, x ∈ d2) :
    (ks.filter (fun k => !d2.contains k)).length ≤ (ks.filter (fun k => !d1.contains k)).length := by
  induction ks with
  | nil => simp
  | cons k ks ih =>
    simp only [List.filter_cons]
    by_cases h1 : k ∈ d1
    · have h2 := h k h1
      simp [h1, h2]; exact ih
    · by_cases h2 : k ∈ d2
      · simp [h1, h2]; omega
      · simp [h1, h2]; exact ih

theorem filter_len_strict (ks : List Nat) (d : List Nat) (n : Nat) (hk : n ∈ ks) (hn : n ∉ d) :
    (ks.filter (fun k => !(n :: d).contains k)).length < (ks.filter (fun k => !d.contains k)).length := by
  induction ks with
  | nil => simp at hk
  | cons k ks ih =>
    have hmono := filter_len_mono ks d (n :: d) (fun x hx => List.mem_cons_of_mem _ hx)
    simp only [List.filter_cons]
    by_cases hkn : k = n
    · subst hkn
      simp [hn]; omega
    · have hk' : n ∈ ks := by
        rcases List.mem_cons.1 hk with h | h
        · exact absurd h.symm hkn
        · exact h
      have := ih hk'
      by_cases h1 : k ∈ d
      · simp [h1]; exact this
      · simp [h1, hkn]; exact this

theorem remaining_mono (G : Graph) (d1 d2 : List Nat) (h : ∀ x ∈ d1, x ∈ d2) :
    remaining G d2 ≤ remaining G d1 := filter_len_mono _ _ _ h

theorem lookup_some_mem_keys {G : Graph} {n : Nat} {ds : List Nat} (h : G.lookup n = some ds) :
    n ∈ keys G := by
  have := lookup_mem h
  exact List.mem_map.2 ⟨(n, ds), this, rfl⟩

theorem remaining_strict (G : Graph) (d : List Nat) (n : Nat) (hk : n ∈ keys G) (hn : n ∉ d) :
    remaining G (n :: d) < remaining G d := filter_len_strict _ _ _ hk hn

/-- a loop whose body never runs out of fuel while `P` holds, and keeps `P` -/
theorem loop_no_fuel {v : Nat → St → Res St} {P : St → Prop}
    (hv : ∀ d st, P st → v d st ≠ .outOfFuel ∧ ∀ st', v d st = .ok st' → P st') :
    ∀ (ds : List Nat) (st : St), P st → loop v ds st ≠ .outOfFuel := by
  intro ds
  induction ds with
  | nil => intro st _; simp [loop]
  | cons d ds ih =>
    intro st hp
    simp only [loop]
    have := hv d st hp
    split
    · rename_i st' heq; exact ih st' (this.2 st' heq)
    · simp
    · rename_i heq; exact absurd heq this.1

theorem visit_no_fuel (G : Graph) : ∀ (f n : Nat) (st : St), remaining G st.done < f →
    visit G f n st ≠ .outOfFuel := by
  intro f
  induction f with
  | zero => intro n st h; omega
  | succ f ih =>
    intro n st hrem
    simp only [visit]
    split
    · simp
    · rename_i hnot
      split
      · simp
      · rename_i ds hl
        have hk := lookup_some_mem_keys hl
        have hlt := remaining_strict G st.done n hk hnot
        have hloop : loop (visit G f) ds { st with done := n :: st.done } ≠ .outOfFuel := by
          refine loop_no_fuel (P := fun s => remaining G s.done < f) ?_ ds _ (by simp; omega)
          intro d s hp
          refine ⟨ih d s hp, ?_⟩
          intro s' hs'
          obtain ⟨e, _, _, _, di, _, _, _⟩ := visit_stepP G f d s s' hs'
          have := remaining_mono G s.done s'.done (fun x hx => (di x).2 (Or.inl hx))
          show remaining G s'.done < f
          omega
        split
        · simp
        · simp
        · rename_i heq; exact absurd heq hloop

/-! ### no KeyError on closed graphs -/

def Closed (G : Graph) : Prop := ∀ n ds, (n, ds) ∈ G → ∀ d ∈ ds, (G.lookup d).isSome

theorem loop_no_keyError {v : Nat → St → Res St} {ds : List Nat}
    (hv : ∀ d ∈ ds, ∀ st k, v d st ≠ .keyError k) :
    ∀ (st : St) k, loop v ds st ≠ .keyError k := by
  induction ds with
  | nil => intro st k; simp [loop]
  | cons d ds ih =>
    intro st k
    simp only [loop]
    split
    · exact ih (fun x hx => hv x (List.mem_cons_of_mem _ hx)) _ k
    · rename_i heq; exact absurd heq (hv d (by simp) st _)
    · simp

theorem visit_no_keyError (G : Graph) (hc : Closed G) : ∀ (f n : Nat), (G.lookup n).isSome →
    ∀ st k, visit G f n st ≠ .keyError k := by
  intro f
  induction f with
  | zero => intro n _ st k; simp [visit]
  | succ f ih =>
    intro n hn st k
    simp only [visit]
    split
    · simp
    · split
      · rename_i hl; simp [hl] at hn
      · rename_i ds hl
        have hds : ∀ d ∈ ds, (G.lookup d).isSome := hc n ds (lookup_mem hl)
        have := loop_no_keyError (v := visit G f) (ds := ds) (fun d hd => ih d (hds d hd))
        split
        · simp
        · rename_i heq; exact absurd heq (this _ _)
        · simp

/-! ### sorting keeps the request set -/

theorem mem_insertSorted (a x : Nat) (l : List Nat) : x ∈ insertSorted a l ↔ x = a ∨ x ∈ l := by
  induction l with
  | nil => simp [insertSorted]
  | cons b bs ih =>
    simp only [insertSorted]
    split
    · simp
    · simp [ih]; constructor
      · rintro (h | h | h) <;> simp [h]
      · rintro (h | h | h) <;> simp [h]

theorem mem_sortNat (x : Nat) (l : List Nat) : x ∈ sortNat l ↔ x ∈ l := by
  induction l with
  | nil => simp [sortNat]
  | cons a as ih => simp [sortNat, mem_insertSorted, ih]

end Shroud.Helpers
