import ShroudVerif.Model.Rewrite
import ShroudVerif.Lemmas.DeclRound
/-!
Well-formedness (the domain of the round-trip theorem) is preserved by the AST-rewriting
operations of `Model/Rewrite.lean`.
-/
namespace Shroud.Decl
open Shroud

/-- the environment resolves `void` to the typemap named `void` (what `lookup_type("void")` gives) -/
def EnvVoidT (env : Env) : Prop :=
  canonical env { specifier := [sp "void"] } = .ok (.mk [sp "void"] [] false false [] (sp "void"))

theorem EnvVoidT.envVoid {env : Env} (h : EnvVoidT env) : EnvVoid env := ⟨_, h⟩

/-- everything `WF` asks of a declaration except of its specifier part (which
    `set_return_to_void` replaces), plus a named declarator -/
def WFrest (env : Env) : Decl → Prop
  | .mk s dr params fc arr attrs init =>
    (∀ v ∈ s.storage, classify v = .STORAGE_CLASS) ∧ (∃ d, dr = some d ∧ d.named = true ∧ WFD env d) ∧
    (∀ e ∈ arr, SimpleDim e) ∧ (∀ a ∈ attrs, WFAttr a) ∧ AttrsOrdered attrs ∧ init = none ∧ WFo env dr fc params

theorem clearPointer_named (d : Declarator) (h : d.named = true) : d.clearPointer.named = true := by
  cases d with
  | leaf ps n => cases n <;> simp_all [Declarator.named, Declarator.clearPointer]
  | wrap ps i => simp [Declarator.named, Declarator.clearPointer]

theorem clearPointer_WFD (env : Env) (d : Declarator) (h : d.named = true) (wf : WFD env d) : WFD env d.clearPointer := by
  cases d with
  | leaf ps n =>
    cases n with
    | none => simp [Declarator.named] at h
    | some n => simp only [WFD, Declarator.clearPointer] at wf ⊢; exact ⟨wf.1, wf.2.1, trivial, by first | rfl | trivial⟩
  | wrap ps i => simpa [WFD, Declarator.clearPointer] using wf

theorem WFo_named (env : Env) (dr dr' : Option Declarator) (fc : Bool) (params : Option (List Decl))
    (h : WFo env dr fc params) (hn : ∃ d, dr' = some d ∧ d.named = true) : WFo env dr' fc params := by
  cases params with
  | none => simpa [WFo] using h
  | some ps => simp only [WFo] at h ⊢; exact ⟨hn, h.2⟩

theorem canonical_void_storage (env : Env) (hv : EnvVoidT env) (sto : List Str) :
    canonical env { specifier := [sp "void"], storage := sto, const := false, volatile := false }
      = .ok (.mk [sp "void"] sto false false [] (sp "void")) := by
  unfold EnvVoidT canonical at hv
  unfold canonical
  dsimp only at hv ⊢
  cases hti : env.typeInfo ((assoc (joinStr ['_'] [sp "void"]) env.canon).getD (joinStr ['_'] [sp "void"])) with
  | none => rw [hti] at hv; exact nomatch hv
  | some ti =>
    rw [hti] at hv
    have h2 : Res.ok (Spec.mk [sp "void"] [] false false [] ti.name) = Res.ok (Spec.mk [sp "void"] [] false false [] (sp "void")) := hv
    have h3 : ti.name = sp "void" := by injection h2 with h2; injection h2
    show Res.ok (Spec.mk [sp "void"] sto false false [] ti.name) = _
    rw [h3]

/-- `set_return_to_void` yields a well-formed declaration whatever the result type was
    (template arguments, qualified names, cv and pointers included) -/
theorem setReturnToVoid_WF (env : Env) (hv : EnvVoidT env) (d : Decl) (h : WFrest env d) :
    ∃ d', d.setReturnToVoid = .ok d' ∧ WF env d' ∧ d'.spec.targs = [] ∧ d'.spec.typemap = sp "void" := by
  obtain ⟨s, dr, params, fc, arr, attrs, init⟩ := d
  obtain ⟨hsto, ⟨dd, hdr, hnamed, hwfd⟩, harr, hattrs, hord, hinit, hwfo⟩ := h
  subst hdr
  refine ⟨_, rfl, ?_, rfl, rfl⟩
  simp only [WF]
  refine ⟨⟨rfl, hsto, Or.inl ⟨by simp [Spec.specifier], ?_, canonical_void_storage env hv _⟩⟩, ?_, harr, hattrs, hord, hinit, ?_⟩
  · intro v hv'
    simp only [Spec.specifier, List.mem_singleton] at hv'
    subst hv'
    rfl
  · intro d hd
    cases hd
    exact clearPointer_WFD env dd hnamed hwfd
  · exact WFo_named env _ _ fc params hwfo ⟨_, rfl, clearPointer_named dd hnamed⟩

theorem WFs_append (env : Env) : ∀ (ps : List Decl) (a : Decl), WFs env ps → WF env a → WFs env (ps ++ [a]) := by
  intro ps
  induction ps with
  | nil => intro a _ ha; simp only [List.nil_append, WFs]; exact ⟨ha, trivial⟩
  | cons p t ih =>
    intro a h ha
    simp only [WFs, List.cons_append] at h ⊢
    exact ⟨h.1, ih a h.2 ha⟩

theorem DistinctFrom_append (a : Decl) (nm : Str) (ha : a.shallowName = some nm) :
    ∀ (ps : List Decl) (names : List Str), DistinctFrom names ps → names.contains nm = false →
      (∀ p ∈ ps, p.shallowName ≠ some nm) → DistinctFrom names (ps ++ [a]) := by
  intro ps
  induction ps with
  | nil =>
    intro names _ hc _
    simp only [List.nil_append, DistinctFrom, ha]
    exact ⟨hc, trivial⟩
  | cons p t ih =>
    intro names h hc hf
    simp only [List.cons_append, DistinctFrom] at h ⊢
    cases hp : p.shallowName with
    | none =>
      simp only [hp] at h ⊢
      exact ih names h hc (fun q hq => hf q (List.mem_cons_of_mem _ hq))
    | some x =>
      simp only [hp] at h ⊢
      refine ⟨h.1, ih (x :: names) h.2 ?_ (fun q hq => hf q (List.mem_cons_of_mem _ hq))⟩
      have hx : x ≠ nm := by
        intro e
        exact hf p (List.mem_cons_self) (by rw [hp, e])
      simp only [List.contains_cons, Bool.or_eq_false_iff]
      exact ⟨by simpa [beq_eq_false_iff_ne] using Ne.symm hx, hc⟩

theorem isVoidOnly_append (ps : List Decl) (s : Spec) (d : Declarator) (pr : Option (List Decl)) (fc : Bool)
    (arr : List Expr) (attrs : List (Str × AttrVal)) (init : Option Init) :
    isVoidOnly (ps ++ [.mk s (some d) pr fc arr attrs init]) = false := by
  cases ps with
  | nil => simp [isVoidOnly]
  | cons p t =>
    cases t with
    | nil => simp [isVoidOnly]
    | cons q u => simp [isVoidOnly]

/-- `result_as_arg(name)` of a well-formed function declaration with a fresh argument name is a
    well-formed declaration -/
theorem resultAsArg_WF (env : Env) (hv : EnvVoidT env) (s : Spec) (ptrs : List Ptr) (fname : Str) (ps : List Decl)
    (fc : Bool) (arr : List Expr) (attrs : List (Str × AttrVal)) (init : Option Init) (name : Str)
    (wf : WF env (.mk s (some (.leaf ptrs (some fname))) (some ps) fc arr attrs init))
    (hid : classify name = .ID) (hunq : env.unq name = none) (hfresh : ∀ p ∈ ps, p.shallowName ≠ some name) :
    ∃ d', Decl.resultAsArg name (.mk s (some (.leaf ptrs (some fname))) (some ps) fc arr attrs init) = .ok d' ∧ WF env d' := by
  simp only [WF] at wf
  obtain ⟨hspec, hwfd, harr, hattrs, hord, hinit, hwfo⟩ := wf
  simp only [WFo] at hwfo
  obtain ⟨_, hvo, hwfs, hdist⟩ := hwfo
  -- the new argument
  let a : Decl := .mk s (some (.leaf (if ptrs.isEmpty then [{ kind := .star }] else ptrs) (some name))) none false [] attrs none
  have hwa : WF env a := by
    simp only [a, WF]
    refine ⟨hspec, ?_, by simp, hattrs, hord, by first | rfl | trivial, by simp [WFo]⟩
    intro d hd
    cases hd
    simp only [WFD]
    exact ⟨hid, hunq, trivial, by first | rfl | trivial⟩
  have hrest : WFrest env (.mk s (some (.leaf ptrs (some fname))) (some (ps ++ [a])) fc arr attrs init) := by
    refine ⟨hspec.2.1, ⟨_, rfl, rfl, hwfd _ rfl⟩, harr, hattrs, hord, hinit, ?_⟩
    simp only [WFo]
    refine ⟨⟨_, rfl, rfl⟩, isVoidOnly_append _ _ _ _ _ _ _ _, WFs_append env ps a hwfs hwa, ?_⟩
    exact DistinctFrom_append a name rfl ps [] hdist rfl hfresh
  obtain ⟨d', hd', hw, _⟩ := setReturnToVoid_WF env hv _ hrest
  exact ⟨d', by simpa [Decl.resultAsArg, Decl.asArg, a] using hd', hw⟩

end Shroud.Decl
