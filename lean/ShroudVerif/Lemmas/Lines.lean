import ShroudVerif.Model.Lines
/-! Helper definitions and lemmas for C13 (kept apart from the property theorems). -/
namespace Shroud.Lines

/-- The text parts of a part list (form feeds dropped). -/
def textParts : List Part → List (List Char)
  | [] => []
  | .text s :: ps => s :: textParts ps
  | .ff :: ps => textParts ps

/-- Witness recorded per physical line: the original parts placed on it, the
    whitespace removed in front of the first one, and the pieces actually written. -/
structure Grp where
  parts : List (List Char)
  lead  : List Char
  saved : List (List Char)
  deriving Repr

/-- `fill` with the witness carried along (same recursion, same decisions). -/
def fillG (linelen : Nat) (ci : List Char) : List Char → Grp → List Part → List Grp
  | _, g, [] => [g]
  | _, g, .ff :: ps => g :: fillG linelen ci ci ⟨[], [], []⟩ ps
  | sub, g, .text s :: ps =>
    if sub.length + s.length > linelen ∧ g.saved.length > 0 then
      let s' := lstrip s
      if s'.isEmpty then g :: fillG linelen ci ci ⟨[s], s, []⟩ ps
      else g :: fillG linelen ci (ci ++ s') ⟨[s], s.takeWhile isPySpace, [s']⟩ ps
    else fillG linelen ci (sub ++ s) ⟨g.parts ++ [s], g.lead, g.saved ++ [s]⟩ ps

/-- What it means for physical line `body` (indentation `ind`) to carry group `g`. -/
structure LineOK (linelen : Nat) (ind : List Char) (first : Bool) (body : List Char) (g : Grp) : Prop where
  body_eq   : body = ind ++ g.saved.flatten
  text_eq   : g.parts.flatten = g.lead ++ g.saved.flatten
  lead_ws   : ∀ c ∈ g.lead, isPySpace c = true
  lead_first : first = true → g.lead = []
  len_ok    : body.length ≤ linelen ∨ g.saved.length ≤ 1

/-- Pointwise relation between two lists (core Lean has no `Forall₂`). -/
inductive All2 {α β : Type} (R : α → β → Prop) : List α → List β → Prop where
  | nil : All2 R [] []
  | cons {a b as bs} : R a b → All2 R as bs → All2 R (a :: as) (b :: bs)

theorem All2.length_eq {α β : Type} {R : α → β → Prop} {as : List α} {bs : List β}
    (h : All2 R as bs) : as.length = bs.length := by
  induction h with
  | nil => rfl
  | cons _ _ ih => simp [ih]

theorem All2.get {α β : Type} {R : α → β → Prop} {as : List α} {bs : List β}
    (h : All2 R as bs) : ∀ (i : Nat) (h1 : i < as.length) (h2 : i < bs.length), R as[i] bs[i] := by
  induction h with
  | nil => intro i h1; simp at h1
  | cons hr _ ih =>
    intro i h1 h2
    cases i with
    | zero => simpa using hr
    | succ j => simpa using ih j (by simpa using h1) (by simpa using h2)

theorem takeWhile_all (p : Char → Bool) (s : List Char) : ∀ c ∈ s.takeWhile p, p c = true := by
  induction s with
  | nil => simp
  | cons a t ih =>
    intro c hc
    simp only [List.takeWhile_cons] at hc
    split at hc
    · simp only [List.mem_cons] at hc
      rcases hc with rfl | h
      · assumption
      · exact ih c h
    · simp at hc

theorem lstrip_empty_all (s : List Char) (h : (lstrip s).isEmpty = true) :
    ∀ c ∈ s, isPySpace c = true := by
  unfold lstrip at h
  induction s with
  | nil => simp
  | cons a t ih =>
    simp only [List.dropWhile_cons] at h
    split at h
    · intro c hc
      simp only [List.mem_cons] at hc
      rcases hc with rfl | hc
      · assumption
      · exact ih h c hc
    · simp at h

/-- Core invariant: `fill` and `fillG` produce lists related line by line. -/
theorem fill_spec (linelen : Nat) (ci : List Char) :
    ∀ (ps : List Part) (sub : List Char) (g : Grp) (ind : List Char) (first : Bool),
      LineOK linelen ind first sub g →
      ∃ b0 bs g0 gs,
        fill linelen ci sub g.saved.length ps = b0 :: bs ∧
        fillG linelen ci sub g ps = g0 :: gs ∧
        LineOK linelen ind first b0 g0 ∧
        All2 (LineOK linelen ci false) bs gs ∧
        ((g0 :: gs).map (·.parts)).flatten = g.parts ++ textParts ps := by
  intro ps
  induction ps with
  | nil =>
    intro sub g ind first h
    exact ⟨sub, [], g, [], rfl, rfl, h, .nil, by simp [textParts]⟩
  | cons p ps ih =>
    intro sub g ind first h
    cases p with
    | ff =>
      have h0 : LineOK linelen ci false ci ⟨[], [], []⟩ :=
        ⟨by simp, by simp, by simp, by simp, Or.inr (by simp)⟩
      obtain ⟨b0, bs, g0, gs, e1, e2, l0, lr, fl⟩ := ih ci ⟨[], [], []⟩ ci false h0
      refine ⟨sub, b0 :: bs, g, g0 :: gs, ?_, ?_, h, .cons l0 lr, ?_⟩
      · simp only [fill]; simpa using e1
      · simp only [fillG]; rw [e2]
      · simp only [List.map_cons, List.flatten_cons, textParts]
        simp only [List.map_cons, List.flatten_cons] at fl
        rw [fl]; simp
    | text s =>
      by_cases hov : sub.length + s.length > linelen ∧ g.saved.length > 0
      · by_cases hemp : (lstrip s).isEmpty = true
        · -- dumped, part is all whitespace
          have h0 : LineOK linelen ci false ci ⟨[s], s, []⟩ :=
            ⟨by simp, by simp, lstrip_empty_all s hemp, by simp, Or.inr (by simp)⟩
          obtain ⟨b0, bs, g0, gs, e1, e2, l0, lr, fl⟩ := ih ci ⟨[s], s, []⟩ ci false h0
          refine ⟨sub, b0 :: bs, g, g0 :: gs, ?_, ?_, h, .cons l0 lr, ?_⟩
          · simp only [fill, hov, and_self, if_true, hemp]; simpa using e1
          · simp only [fillG, hov, and_self, if_true, hemp]; rw [e2]
          · simp only [List.map_cons, List.flatten_cons, textParts]
            simp only [List.map_cons, List.flatten_cons] at fl
            rw [fl]; simp
        · have h0 : LineOK linelen ci false (ci ++ lstrip s)
              ⟨[s], s.takeWhile isPySpace, [lstrip s]⟩ :=
            ⟨by simp, by simp [lstrip, List.takeWhile_append_dropWhile],
             takeWhile_all _ _, by simp, Or.inr (by simp)⟩
          obtain ⟨b0, bs, g0, gs, e1, e2, l0, lr, fl⟩ :=
            ih (ci ++ lstrip s) ⟨[s], s.takeWhile isPySpace, [lstrip s]⟩ ci false h0
          refine ⟨sub, b0 :: bs, g, g0 :: gs, ?_, ?_, h, .cons l0 lr, ?_⟩
          · simp only [fill, hov, and_self, if_true, hemp, Bool.false_eq_true, if_false]; simpa using e1
          · simp only [fillG, hov, and_self, if_true, hemp, Bool.false_eq_true, if_false]; rw [e2]
          · simp only [List.map_cons, List.flatten_cons, textParts]
            simp only [List.map_cons, List.flatten_cons] at fl
            rw [fl]; simp
      · -- appended to the current line
        have h0 : LineOK linelen ind first (sub ++ s) ⟨g.parts ++ [s], g.lead, g.saved ++ [s]⟩ := by
          refine ⟨?_, ?_, h.lead_ws, h.lead_first, ?_⟩
          · simp [h.body_eq]
          · simp [h.text_eq]
          · simp only [List.length_append, List.length_cons, List.length_nil]
            rcases Nat.lt_or_ge linelen (sub.length + s.length) with hl | hl
            · right
              have : ¬ g.saved.length > 0 := fun hp => hov ⟨hl, hp⟩
              omega
            · left; exact hl
        obtain ⟨b0, bs, g0, gs, e1, e2, l0, lr, fl⟩ :=
          ih (sub ++ s) ⟨g.parts ++ [s], g.lead, g.saved ++ [s]⟩ ind first h0
        refine ⟨b0, bs, g0, gs, ?_, ?_, l0, lr, ?_⟩
        · simp only [fill, hov, if_false]
          simpa using e1
        · simp only [fillG, hov, if_false]; exact e2
        · rw [fl]; simp [textParts]

/-- `flush`/`splitParts`: the text parts, concatenated, are the line without hints. -/
theorem textParts_append (a b : List Part) : textParts (a ++ b) = textParts a ++ textParts b := by
  induction a with
  | nil => rfl
  | cons p ps ih => cases p <;> simp [textParts, ih]

theorem textParts_flush_flatten (cur : List Char) : (textParts (flush cur)).flatten = cur := by
  unfold flush
  split
  · rename_i h; simp at h; simp [textParts, h]
  · simp [textParts]

theorem splitParts_flatten (cs : List Char) : ∀ cur : List Char,
    (textParts (splitParts cur cs)).flatten = cur ++ cs.filter (fun c => c ≠ TAB ∧ c ≠ FF) := by
  induction cs with
  | nil => intro cur; simp [splitParts, textParts_flush_flatten]
  | cons c cs ih =>
    intro cur
    simp only [splitParts]
    by_cases h1 : c = TAB
    · simp [h1, textParts_append, textParts_flush_flatten, ih]
    · by_cases h2 : c = FF
      · have : (TAB : Char) ≠ FF := by decide
        simp [h2, textParts_append, textParts_flush_flatten, ih, textParts, this.symm]
      · simp [h1, h2, ih]

/-- No text part contains a break hint, and none is empty. -/
theorem splitParts_hint_free (cs : List Char) : ∀ cur : List Char,
    (∀ c ∈ cur, c ≠ TAB ∧ c ≠ FF) →
    ∀ s ∈ textParts (splitParts cur cs), s ≠ [] ∧ ∀ c ∈ s, c ≠ TAB ∧ c ≠ FF := by
  induction cs with
  | nil =>
    intro cur hc s hs
    simp only [splitParts, flush] at hs
    split at hs
    · simp [textParts] at hs
    · rename_i hne
      simp only [textParts, List.mem_singleton] at hs
      subst hs
      exact ⟨by simpa using hne, hc⟩
  | cons c cs ih =>
    intro cur hc s hs
    simp only [splitParts] at hs
    have hflush : ∀ s ∈ textParts (flush cur), s ≠ [] ∧ ∀ c ∈ s, c ≠ TAB ∧ c ≠ FF := by
      intro s hs
      simp only [flush] at hs
      split at hs
      · simp [textParts] at hs
      · rename_i hne
        simp only [textParts, List.mem_singleton] at hs
        subst hs
        exact ⟨by simpa using hne, hc⟩
    by_cases h1 : c = TAB
    · simp only [h1, if_true, textParts_append, List.mem_append] at hs
      rcases hs with hs | hs
      · exact hflush s hs
      · exact ih [] (by simp) s hs
    · by_cases h2 : c = FF
      · have hft : ¬ (FF = TAB) := by decide
        subst h2
        simp only [hft, if_true, if_false, textParts_append, List.mem_append, textParts] at hs
        rcases hs with hs | hs
        · exact hflush s hs
        · exact ih [] (by simp) s hs
      · simp only [h1, h2, if_false] at hs
        refine ih (cur ++ [c]) ?_ s hs
        intro d hd
        simp only [List.mem_append, List.mem_singleton] at hd
        rcases hd with hd | rfl
        · exact hc d hd
        · exact ⟨h1, h2⟩

end Shroud.Lines
