import ShroudVerif.Model.Capsule
/-! Helper lemmas for C06: the destructor-table invariant. -/
namespace Shroud.Capsule

variable {α β : Type} [DecidableEq α]

/-- the table invariant: both containers have the same length; every recorded index is the
    position of the entry's name in `capsule_order`; the dict lookup of that name finds the entry -/
structure Table.Inv (t : Table α β) : Prop where
  len : t.order.length = t.code.length
  pos : ∀ e ∈ t.code, t.order[e.index]? = some e.name ∧ t.lookup e.name = some e
  onto : ∀ i, i < t.order.length → ∃ e ∈ t.code, e.index = i

theorem Table.inv_empty : (Table.empty : Table α β).Inv :=
  ⟨rfl, by intro e he; simp [Table.empty] at he, by intro i hi; simp [Table.empty] at hi⟩

theorem lookup_some_mem {t : Table α β} {n : α} {e : Entry α β} (h : t.lookup n = some e) :
    e ∈ t.code ∧ e.name = n := by
  unfold Table.lookup at h
  have h1 := List.mem_of_find?_eq_some h
  have h2 := List.find?_some h
  exact ⟨h1, by simpa using h2⟩

theorem lookup_append_old {t : Table α β} {e e' : Entry α β} (h : t.lookup e.name = some e) :
    (⟨t.code ++ [e'], t.order ++ [e'.name]⟩ : Table α β).lookup e.name = some e := by
  unfold Table.lookup at *
  simp [List.find?_append, h]

theorem lookup_append_new {t : Table α β} {n : α} (e' : Entry α β) (hn : e'.name = n)
    (h : t.lookup n = none) :
    (⟨t.code ++ [e'], t.order ++ [n]⟩ : Table α β).lookup n = some e' := by
  unfold Table.lookup at *
  simp [List.find?_append, h, hn]

theorem add_inv {t : Table α β} (hi : t.Inv) (n : α) (l : β) : (addCapsuleCode t n l).1.Inv := by
  unfold addCapsuleCode
  cases hl : t.lookup n with
  | some e => simpa using hi
  | none =>
    simp only
    refine ⟨by simp [hi.len], ?_, ?_⟩
    · intro e he
      simp only [List.mem_append, List.mem_singleton] at he
      rcases he with he | rfl
      · obtain ⟨h1, h2⟩ := hi.pos e he
        refine ⟨?_, ?_⟩
        · have hlt : e.index < t.order.length := by
            rcases Nat.lt_or_ge e.index t.order.length with h | h
            · exact h
            · simp [List.getElem?_eq_none h] at h1
          simp [List.getElem?_append_left hlt, h1]
        · have := lookup_append_old (e' := ⟨n, t.code.length, l⟩) h2
          simpa using this
      · refine ⟨?_, ?_⟩
        · simp [← hi.len]
        · exact lookup_append_new ⟨n, t.code.length, l⟩ rfl hl
    · intro i hlt
      simp only [List.length_append, List.length_singleton] at hlt
      rcases Nat.lt_or_ge i t.order.length with h | h
      · obtain ⟨e, he, hei⟩ := hi.onto i h
        exact ⟨e, by simp [he], hei⟩
      · refine ⟨⟨n, t.code.length, l⟩, by simp, ?_⟩
        simp only
        have := hi.len
        omega

theorem regAll_inv {t : Table α β} (hi : t.Inv) (rs : List (α × β)) : (regAll t rs).Inv := by
  induction rs generalizing t with
  | nil => simpa [regAll] using hi
  | cons r rs ih => obtain ⟨n, l⟩ := r; exact ih (add_inv hi n l)

theorem caseBody_of_mem {t : Table α β} (hi : t.Inv) {e : Entry α β} (he : e ∈ t.code) :
    caseBody t e.index = some e.lines := by
  obtain ⟨h1, h2⟩ := hi.pos e he
  simp [caseBody, h1, h2]

theorem caseBody_add_stable {t : Table α β} (_hi : t.Inv) (n : α) (l : β) {i : Nat} {b : β}
    (h : caseBody t i = some b) : caseBody (addCapsuleCode t n l).1 i = some b := by
  unfold addCapsuleCode
  cases hl : t.lookup n with
  | some e => simpa using h
  | none =>
    simp only
    unfold caseBody at h ⊢
    cases ho : t.order[i]? with
    | none => simp [ho] at h
    | some m =>
      have hlt : i < t.order.length := by
        rcases Nat.lt_or_ge i t.order.length with h' | h'
        · exact h'
        · simp [List.getElem?_eq_none h'] at ho
      simp only [ho] at h
      cases hm : t.lookup m with
      | none => simp [hm] at h
      | some e =>
        obtain ⟨_, hen⟩ := lookup_some_mem hm
        subst hen
        have := lookup_append_old (e' := ⟨n, t.code.length, l⟩) hm
        simp only [hm, Option.map_some] at h
        simp [List.getElem?_append_left hlt, ho, this, h]

theorem caseBody_regAll_stable {t : Table α β} (hi : t.Inv) (rs : List (α × β)) {i : Nat} {b : β}
    (h : caseBody t i = some b) : caseBody (regAll t rs) i = some b := by
  induction rs generalizing t with
  | nil => simpa [regAll] using h
  | cons r rs ih =>
    obtain ⟨n, l⟩ := r
    exact ih (add_inv hi n l) (caseBody_add_stable hi n l h)


/-! ## Run-time invariant -/

/-- caller discipline of the `_partial` theorems: handles in `S` are never copied from or to;
    only handles in `S` are deleted / released -/
def Op.Disc (S : Nat → Prop) : Op → Prop
  | .copy s d => ¬ S s ∧ ¬ S d
  | .delete h _ => S h
  | .release h => S h
  | _ => True

/-- static typing of the handle variables (each C handle type belongs to one class / kind) -/
def Op.Typed (ht : Nat → Kind) : Op → Prop
  | .construct h ty _ => ht h = .cxx ty
  | .owned h k _ => ht h = k
  | .borrowed h k => ht h = k
  | .delete h ty => ht h = .cxx ty
  | _ => True

structure Good (tbl : List Dtor) (ht : Nat → Kind) (S : Nat → Prop) (s : St) : Prop where
  pos : 0 < s.next
  ptr : ∀ h, (s.hs h).addr ≠ 0 → (s.hs h).addr < s.next ∧ (s.heap (s.hs h).addr).frees = 0
  unal : ∀ h, S h → (s.hs h).addr ≠ 0 → ∀ h', h' ≠ h → (s.hs h').addr ≠ (s.hs h).addr
  once : ∀ a, (s.heap a).frees ≤ 1
  nouaf : s.uaf = false
  nomis : s.mismatch = false
  typed : ∀ h, S h → (s.hs h).addr ≠ 0 → (s.heap (s.hs h).addr).kind = ht h
  idt : ∀ h, S h → (s.hs h).addr ≠ 0 → ∀ d, tbl[(s.hs h).idtor]? = some d → d = .nothing ∨ d.Matches (ht h) = true

variable {tbl : List Dtor} {ht : Nat → Kind} {S : Nat → Prop}

theorem good_init : Good tbl ht S St.init :=
  ⟨by simp [St.init], by simp [St.init], by simp [St.init], by simp [St.init], rfl, rfl,
   by simp [St.init], by simp [St.init]⟩

theorem good_alloc {s : St} (g : Good tbl ht S s) (h : Nat) (k : Kind) (lib : Bool) (i : Nat)
    (hk : S h → k = ht h)
    (hi : S h → ∀ d, tbl[i]? = some d → d = .nothing ∨ d.Matches (ht h) = true) :
    Good tbl ht S ((s.alloc k lib).1.setH h ⟨(s.alloc k lib).2, i⟩) := by
  have hp := g.pos
  refine ⟨?_, ?_, ?_, ?_, ?_, ?_, ?_, ?_⟩
  · simp [St.alloc, St.setH]
  · intro h'
    simp only [St.alloc, St.setH, upd]
    by_cases e : h' = h
    · simp [e] <;> omega
    · simp only [e, if_false]
      intro hne
      obtain ⟨h1, h2⟩ := g.ptr h' hne
      have : (s.hs h').addr ≠ s.next := by omega
      simp [this, h2]; omega
  · intro h0 hS
    simp only [St.alloc, St.setH, upd]
    intro hne h' hh'
    by_cases e : h0 = h
    · subst e
      have e' : ¬ h' = h0 := hh'
      simp only [e', if_false, if_true]
      intro heq
      by_cases z : (s.hs h').addr = 0
      · omega
      · have := (g.ptr h' z).1; omega
    · simp only [e, if_false] at hne ⊢
      by_cases e' : h' = h
      · simp only [e', if_true]
        have := (g.ptr h0 hne).1; omega
      · simp only [e', if_false]
        exact g.unal h0 hS hne h' hh'
  · intro a
    simp only [St.alloc, St.setH, upd]
    split
    · simp
    · exact g.once a
  · simpa [St.alloc, St.setH] using g.nouaf
  · simpa [St.alloc, St.setH] using g.nomis
  · intro h0 hS
    simp only [St.alloc, St.setH, upd]
    by_cases e : h0 = h
    · subst e; simp [hk hS]
    · simp only [e, if_false]
      intro hne
      have := (g.ptr h0 hne).1
      have hn : (s.hs h0).addr ≠ s.next := by omega
      simp only [hn, if_false]
      exact g.typed h0 hS hne
  · intro h0 hS
    simp only [St.alloc, St.setH, upd]
    by_cases e : h0 = h
    · subst e; simp; intro _; exact hi hS
    · simp only [e, if_false]
      exact g.idt h0 hS


theorem good_null {s : St} (g : Good tbl ht S s) (h x : Nat) : Good tbl ht S (s.setH h ⟨0, x⟩) := by
  refine ⟨g.pos, ?_, ?_, g.once, g.nouaf, g.nomis, ?_, ?_⟩
  · intro h'
    simp only [St.setH, upd]
    by_cases e : h' = h
    · simp [e]
    · simp only [e, if_false]; exact g.ptr h'
  · intro h0 hS
    simp only [St.setH, upd]
    by_cases e : h0 = h
    · simp [e]
    · simp only [e, if_false]
      intro hne h' hh'
      by_cases e' : h' = h
      · simp only [e', if_true]; exact fun q => hne q.symm
      · simp only [e', if_false]; exact g.unal h0 hS hne h' hh'
  · intro h0 hS
    simp only [St.setH, upd]
    by_cases e : h0 = h
    · simp [e]
    · simp only [e, if_false]; exact g.typed h0 hS
  · intro h0 hS
    simp only [St.setH, upd]
    by_cases e : h0 = h
    · simp [e]
    · simp only [e, if_false]; exact g.idt h0 hS

theorem good_free {s : St} (g : Good tbl ht S s) (h x : Nat) (d : Dtor) (hS : S h)
    (hm : (s.hs h).addr ≠ 0 → d.Matches (ht h) = true) :
    Good tbl ht S ((s.freeAt (s.hs h).addr d).setH h ⟨0, x⟩) := by
  by_cases ha : (s.hs h).addr = 0
  · simp only [St.freeAt, ha, if_true]; exact good_null g h x
  · obtain ⟨hlt, hfr⟩ := g.ptr h ha
    have hun := g.unal h hS ha
    have hty := g.typed h hS ha
    refine ⟨by simpa [St.freeAt, ha, St.setH] using g.pos, ?_, ?_, ?_, ?_, ?_, ?_, ?_⟩
    · intro h'
      simp only [St.freeAt, ha, if_false, St.setH, upd]
      by_cases e : h' = h
      · simp [e]
      · simp only [e, if_false]
        intro hne
        have := hun h' e
        simp only [this, if_false]
        exact g.ptr h' hne
    · intro h0 hS0
      simp only [St.freeAt, ha, if_false, St.setH, upd]
      by_cases e : h0 = h
      · simp [e]
      · simp only [e, if_false]
        intro hne h' hh'
        by_cases e' : h' = h
        · simp only [e', if_true]; exact fun q => hne q.symm
        · simp only [e', if_false]; exact g.unal h0 hS0 hne h' hh'
    · intro a
      simp only [St.freeAt, ha, if_false, St.setH, upd]
      split
      · simp [hfr]
      · exact g.once a
    · simpa [St.freeAt, ha, St.setH] using g.nouaf
    · simp [St.freeAt, ha, St.setH, g.nomis, hty, hm ha]
    · intro h0 hS0
      simp only [St.freeAt, ha, if_false, St.setH, upd]
      by_cases e : h0 = h
      · simp [e]
      · simp only [e, if_false]
        intro hne
        have := g.typed h0 hS0 hne
        split <;> simp_all
    · intro h0 hS0
      simp only [St.freeAt, ha, if_false, St.setH, upd]
      by_cases e : h0 = h
      · simp [e]
      · simp only [e, if_false]; exact g.idt h0 hS0

theorem good_copy {s : St} (g : Good tbl ht S s) (src dst : Nat) (h1 : ¬ S src) (h2 : ¬ S dst) :
    Good tbl ht S (s.setH dst (s.hs src)) := by
  refine ⟨g.pos, ?_, ?_, g.once, g.nouaf, g.nomis, ?_, ?_⟩
  · intro h'
    simp only [St.setH, upd]
    by_cases e : h' = dst
    · simp only [e, if_true]; exact g.ptr src
    · simp only [e, if_false]; exact g.ptr h'
  · intro h0 hS0
    have e : ¬ h0 = dst := fun q => h2 (q ▸ hS0)
    have e2 : ¬ src = h0 := fun q => h1 (q ▸ hS0)
    simp only [St.setH, upd, e, if_false]
    intro hne h' hh'
    by_cases e' : h' = dst
    · simp only [e', if_true]; exact g.unal h0 hS0 hne src e2
    · simp only [e', if_false]; exact g.unal h0 hS0 hne h' hh'
  · intro h0 hS0
    have e : ¬ h0 = dst := fun q => h2 (q ▸ hS0)
    simp only [St.setH, upd, e, if_false]; exact g.typed h0 hS0
  · intro h0 hS0
    have e : ¬ h0 = dst := fun q => h2 (q ▸ hS0)
    simp only [St.setH, upd, e, if_false]; exact g.idt h0 hS0

/-- a temporary: allocated, never stored in a handle, released by the helper -/
theorem good_temp {s : St} (g : Good tbl ht S s) (k : Kind) (i : Nat)
    (hw : ∃ d, tbl[i]? = some d ∧ d ≠ .nothing ∧ d.Matches k = true) :
    Good tbl ht S ((s.alloc k false).1.runSwitch tbl ⟨(s.alloc k false).2, i⟩) ∧
    (((s.alloc k false).1.runSwitch tbl ⟨(s.alloc k false).2, i⟩).heap s.next).frees = 1 := by
  obtain ⟨d, hd, hn, hmt⟩ := hw
  have hp := g.pos
  have hne : s.next ≠ 0 := by omega
  have hrun : (s.alloc k false).1.runSwitch tbl ⟨(s.alloc k false).2, i⟩
      = (s.alloc k false).1.freeAt s.next d := by
    cases d <;> simp_all [St.runSwitch, St.alloc]
  rw [hrun]
  refine ⟨⟨?_, ?_, ?_, ?_, ?_, ?_, ?_, ?_⟩, ?_⟩
  · simp [St.freeAt, St.alloc, hne]
  · intro h'
    simp only [St.freeAt, St.alloc, hne, if_false, upd]
    intro hz
    obtain ⟨h1, h2⟩ := g.ptr h' hz
    have : (s.hs h').addr ≠ s.next := by omega
    simp [this, h2]; omega
  · intro h0 hS0
    simp only [St.freeAt, St.alloc, hne, if_false]
    exact g.unal h0 hS0
  · intro a
    simp only [St.freeAt, St.alloc, hne, if_false, upd]
    split
    · simp
    · exact g.once a
  · simpa [St.freeAt, St.alloc, hne] using g.nouaf
  · simp [St.freeAt, St.alloc, hne, upd, g.nomis, hmt]
  · intro h0 hS0
    simp only [St.freeAt, St.alloc, hne, if_false, upd]
    intro hz
    have := (g.ptr h0 hz).1
    have hn2 : (s.hs h0).addr ≠ s.next := by omega
    simp only [hn2, if_false]
    exact g.typed h0 hS0 hz
  · intro h0 hS0
    simp only [St.freeAt, St.alloc, hne, if_false]
    exact g.idt h0 hS0
  · simp [St.freeAt, St.alloc, hne, upd]



/-! ## Small facts about the run-time functions -/

@[simp] theorem freeAt_zero (s : St) (d : Dtor) : s.freeAt 0 d = s := by simp [St.freeAt]

@[simp] theorem freeAt_next (s : St) (x : Nat) (d : Dtor) : (s.freeAt x d).next = s.next := by
  unfold St.freeAt; split <;> rfl

@[simp] theorem freeAt_hs (s : St) (x : Nat) (d : Dtor) : (s.freeAt x d).hs = s.hs := by
  unfold St.freeAt; split <;> rfl

theorem freeAt_frees_le (s : St) (x : Nat) (d : Dtor) (a : Nat) :
    (s.heap a).frees ≤ ((s.freeAt x d).heap a).frees := by
  unfold St.freeAt
  split
  · exact Nat.le_refl _
  · simp only [upd]
    split
    · subst_vars; simp
    · exact Nat.le_refl _

@[simp] theorem runSwitch_null (tbl : List Dtor) (s : St) (i : Nat) : s.runSwitch tbl ⟨0, i⟩ = s := by
  unfold St.runSwitch; split <;> simp

@[simp] theorem runSwitch_next (tbl : List Dtor) (s : St) (c : Cap) : (s.runSwitch tbl c).next = s.next := by
  unfold St.runSwitch; split <;> simp

@[simp] theorem runSwitch_hs (tbl : List Dtor) (s : St) (c : Cap) : (s.runSwitch tbl c).hs = s.hs := by
  unfold St.runSwitch; split <;> simp

theorem runSwitch_frees_le (tbl : List Dtor) (s : St) (c : Cap) (a : Nat) :
    (s.heap a).frees ≤ ((s.runSwitch tbl c).heap a).frees := by
  unfold St.runSwitch
  split
  · exact Nat.le_refl _
  · exact Nat.le_refl _
  · exact freeAt_frees_le s _ _ a

@[simp] theorem setH_heap (s : St) (h : Nat) (c : Cap) : (s.setH h c).heap = s.heap := rfl
@[simp] theorem setH_next (s : St) (h : Nat) (c : Cap) : (s.setH h c).next = s.next := rfl
@[simp] theorem setH_hs_self (s : St) (h : Nat) (c : Cap) : (s.setH h c).hs h = c := by simp [St.setH, upd]

theorem setH_setH (s : St) (h : Nat) (c : Cap) : (s.setH h c).setH h c = s.setH h c := by
  simp only [St.setH]
  congr 1
  funext x
  simp only [upd]
  split <;> rfl

@[simp] theorem alloc_next (s : St) (k : Kind) (l : Bool) : (s.alloc k l).1.next = s.next + 1 := rfl
@[simp] theorem alloc_addr (s : St) (k : Kind) (l : Bool) : (s.alloc k l).2 = s.next := rfl
@[simp] theorem alloc_hs (s : St) (k : Kind) (l : Bool) : (s.alloc k l).1.hs = s.hs := rfl

theorem alloc_heap_old (s : St) (k : Kind) (l : Bool) (a : Nat) (ha : a < s.next) :
    (s.alloc k l).1.heap a = s.heap a := by
  have : a ≠ s.next := by omega
  simp [St.alloc, upd, this]

end Shroud.Capsule
