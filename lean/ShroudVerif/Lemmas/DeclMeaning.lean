import ShroudVerif.Model.CxxMeaning
import ShroudVerif.Lemmas.DeclRound
/-! `cxxMeaning` on Shroud's own rendering: helper lemmas (printer-side induction). -/
namespace Shroud.Cxx
open Shroud.Decl

/-! ### decl-specifier-seq -/

theorem cxxSpec_stop (env : Env) (a : SpecAcc) (rest : Toks) (h : SpecStop env rest) :
    cxxSpec env rest a = (a, rest) := by
  cases rest with
  | nil => rfl
  | cons t ts =>
    rcases h with h | ⟨h1, h2⟩
    · have : t.typ ≠ .ID ∧ t.typ ≠ .TYPE_SPECIFIER ∧ t.typ ≠ .TYPE_QUALIFIER ∧ t.typ ≠ .STORAGE_CLASS := by
        cases ht : t.typ <;> simp [ht, stopKind] at h ⊢
      simp [cxxSpec, this]
    · simp [cxxSpec, h1, h2]

theorem cxxSpec_storage (env : Env) (rest : Toks) : ∀ (xs : List Str) (a : SpecAcc),
    (∀ v ∈ xs, classify v = .STORAGE_CLASS) →
    cxxSpec env (xs.map nameTok ++ rest) a = cxxSpec env rest a := by
  intro xs
  induction xs with
  | nil => intro a _; rfl
  | cons v xs ih =>
    intro a h
    have hv : classify v = .STORAGE_CLASS := h v (by simp)
    simp only [List.map_cons, List.cons_append]
    rw [cxxSpec]
    simp [nameTok, hv]
    exact ih a (fun w hw => h w (by simp [hw]))

theorem cxxSpec_specifiers (env : Env) (rest : Toks) : ∀ (xs : List Str) (a : SpecAcc),
    (∀ v ∈ xs, classify v = .TYPE_SPECIFIER) → a.named = none →
    cxxSpec env (xs.map nameTok ++ rest) a = cxxSpec env rest { a with fund := a.fund ++ xs } := by
  intro xs
  induction xs with
  | nil => intro a _ _; simp
  | cons v xs ih =>
    intro a h hn
    have hv : classify v = .TYPE_SPECIFIER := h v (by simp)
    simp only [List.map_cons, List.cons_append]
    rw [cxxSpec]
    simp [nameTok, hv, hn]
    have := ih { a with fund := a.fund ++ [v] } (fun w hw => h w (by simp [hw])) hn
    simpa [hn] using this

theorem cxxSpec_cv (env : Env) (rest : Toks) (c v : Bool) (a : SpecAcc) :
    cxxSpec env (cvToks c v ++ rest) a = cxxSpec env rest { a with c := a.c || c, v := a.v || v } := by
  cases c <;> cases v <;> simp [cvToks, tk, cxxSpec]

/-- the typemap `get_canonical_typemap` selects for built-in specifiers has the C++ type
    the standard assigns to that specifier multiset (checked exhaustively for the extracted
    environment by the harness, `fund` op of the driver) -/
def BaseAgrees (env : Env) : Prop :=
  ∀ (sp sto : List Str) (c v : Bool) (s : Spec),
    (∀ x ∈ sp, classify x = .TYPE_SPECIFIER) →
    canonical env { specifier := sp, storage := sto, const := c, volatile := v } = .ok s →
    ∃ ti, env.typeInfo s.typemap = some ti ∧ ti.cxxType = fundName sp ∧ (fundName sp).isSome

theorem cxxSpec_print (env : Env) (hb : BaseAgrees env) (s : Spec) (rest : Toks)
    (wf : WFSpec env s) (hstop : SpecStop env rest) :
    ∃ acc b, cxxSpec env (s.toks ++ rest) {} = (acc, rest) ∧ acc.base = some b ∧ denoteBase env s = some b := by
  obtain ⟨sp, sto, c, v, targs, tm⟩ := s
  obtain ⟨ht, hsto, hsp⟩ := wf
  simp only [Spec.targs] at ht
  subst ht
  simp only [Spec.toks, Spec.const, Spec.volatile, Spec.storage, Spec.specifier, Spec.typemap,
    List.append_assoc] at *
  rw [cxxSpec_cv, cxxSpec_storage env _ sto _ hsto]
  rcases hsp with ⟨hne, hall, hcan⟩ | ⟨name, hname, hc, hu⟩
  · rw [cxxSpec_specifiers env _ sp _ hall rfl, cxxSpec_stop env _ rest hstop]
    obtain ⟨ti, h1, h2, h3⟩ := hb sp sto c v _ hall hcan
    simp only [Spec.typemap] at h1
    obtain ⟨nm, hnm⟩ := Option.isSome_iff_exists.mp h3
    refine ⟨_, .base c v (.fund nm), rfl, ?_, ?_⟩
    · simp [SpecAcc.base, hnm]
    · have hall' : sp.all (fun x => classify x = .TYPE_SPECIFIER) = true := by
        simp only [List.all_eq_true, decide_eq_true_eq]; exact hall
      simp [denoteBase, Spec.specifier, Spec.typemap, Spec.const, Spec.volatile, hall', h1, h2, hnm]
  · subst hname
    simp only [List.map_cons, List.map_nil, List.cons_append, List.nil_append]
    have key : cxxSpec env (nameTok name :: rest) { c := false || c, v := false || v }
        = ({ c := c, v := v, named := some tm }, rest) := by
      rw [cxxSpec]
      simp [nameTok, hc, hu, cxxSpec_stop env _ rest hstop]
    refine ⟨_, .base c v (.named tm), key, ?_, ?_⟩
    · simp [SpecAcc.base]
    · simp [denoteBase, Spec.specifier, Spec.typemap, Spec.const, Spec.volatile, hc]

/-! ### pointer operators -/

theorem cxxCv_print (c v : Bool) (rest : Toks) (h : NotKind .TYPE_QUALIFIER rest) :
    cxxCv (cvToks c v ++ rest) = (c, v, rest) := by
  have hr : cxxCv rest = (false, false, rest) := by
    cases rest with
    | nil => rfl
    | cons t ts => simp only [NotKind] at h; simp [cxxCv, h]
  cases c <;> cases v <;> simp [cvToks, tk, cxxCv, hr]

theorem ptrStop_notQual {rest : Toks} (h : PtrStop rest) : NotKind .TYPE_QUALIFIER rest := by
  cases rest with
  | nil => trivial
  | cons t ts => exact h.1

theorem ptrsToks_notQual (ps : List Ptr) (rest : Toks) (h : PtrStop rest) :
    NotKind .TYPE_QUALIFIER (ptrsToks false ps ++ rest) := by
  cases ps with
  | nil => exact ptrStop_notQual h
  | cons p ps' =>
    obtain ⟨k, c, v⟩ := p
    cases k <;> simp [ptrsToks, Ptr.toks, NotKind, tk]

/-- C++ has no cv-qualified references: `& const` is outside the meaning domain -/
def RefsPlain (ps : List Ptr) : Prop := ∀ p ∈ ps, p.kind = .ref → p.const = false ∧ p.volatile = false

theorem cxxPtrOps_print : ∀ (ps : List Ptr) (rest : Toks) (n : Nat), RefsPlain ps → PtrStop rest → n ≥ ps.length →
    cxxPtrOps n (ptrsToks false ps ++ rest) = (ps.map ptrOp, rest) := by
  intro ps
  induction ps with
  | nil =>
    intro rest n _ h hn
    cases n with
    | zero => rfl
    | succ m =>
      cases rest with
      | nil => rfl
      | cons t ts => obtain ⟨_, h2, h3⟩ := h; simp [ptrsToks, cxxPtrOps, h2, h3]
  | cons p ps' ih =>
    intro rest n hrp h hn
    obtain ⟨m, rfl⟩ : ∃ m, n = m + 1 := ⟨n - 1, by simp at hn; omega⟩
    have hi := ih rest m (fun q hq => hrp q (by simp [hq])) h (by simp at hn; omega)
    have hp := hrp p (by simp)
    obtain ⟨k, c, v⟩ := p
    have hcv := cxxCv_print c v (ptrsToks false ps' ++ rest) (ptrsToks_notQual ps' rest h)
    cases k
    · have e : ptrsToks false (⟨.star, c, v⟩ :: ps') ++ rest
          = ⟨.STAR, ['*'], []⟩ :: (cvToks c v ++ (ptrsToks false ps' ++ rest)) := by
        simp [ptrsToks, Ptr.toks, cvToks, tk]
      rw [e, cxxPtrOps]
      simp only [if_true, hcv, hi]
      simp [ptrOp]
    · obtain ⟨rfl, rfl⟩ := hp rfl
      have e : ptrsToks false (⟨.ref, false, false⟩ :: ps') ++ rest
          = ⟨.REF, ['&'], []⟩ :: (ptrsToks false ps' ++ rest) := by
        simp [ptrsToks, Ptr.toks, tk]
      rw [e, cxxPtrOps]
      simp [hi, ptrOp]

/-! ### array bounds, attributes -/

theorem cxxBound_simple (e : Expr) (h : SimpleDim e) (rest : Toks) :
    cxxBound 0 (e.toks ++ tk .RBRACKET "]" :: rest) = some (printExpr e, rest) := by
  cases e with
  | const v =>
    by_cases hr : isRealText v = true <;> simp [Expr.toks, cxxBound, tkv, tk, hr, printExpr]
  | ident n =>
    simp only [SimpleDim] at h
    simp [Expr.toks, cxxBound, nameTok, tk, h, printExpr]
  | call _ _ => exact absurd h (by simp [SimpleDim])
  | paren _ => exact absurd h (by simp [SimpleDim])
  | unary _ _ => exact absurd h (by simp [SimpleDim])
  | binary _ _ _ => exact absurd h (by simp [SimpleDim])

theorem skipParen_print : ∀ (parts : Toks) (d : Nat) (rest : Toks), Bal (d + 1) parts →
    skipParen d (parts ++ tk .RPAREN ")" :: rest) = some rest := by
  intro parts
  induction parts with
  | nil =>
    intro d rest h
    simp only [Bal] at h
    have : d = 0 := by omega
    subst this
    simp [skipParen, tk]
  | cons t ts ih =>
    intro d rest h
    simp only [Bal] at h
    simp only [List.cons_append]
    rw [skipParen]
    by_cases h1 : t.typ = .LPAREN
    · simp only [h1, if_true] at h ⊢
      exact ih _ rest h
    · by_cases h2 : t.typ = .RPAREN
      · have h' : 2 ≤ d + 1 ∧ Bal (d + 1 - 1) ts := by simpa [h1, h2] using h
        obtain ⟨d', rfl⟩ : ∃ d', d = d' + 1 := ⟨d - 1, by omega⟩
        simp [h2]
        exact ih d' rest (by simpa using h'.2)
      · simp only [h1, h2, if_false] at h ⊢
        exact ih _ rest h

theorem skipAttrs_print : ∀ (attrs : List (Str × AttrVal)) (rest : Toks) (n : Nat),
    (∀ a ∈ attrs, WFAttr a) → DeclFollow rest → n ≥ attrs.length + 1 →
    skipAttrs n (attrsToks attrs ++ rest) = some rest := by
  intro attrs
  induction attrs with
  | nil =>
    intro rest n _ hr hn
    obtain ⟨m, rfl⟩ : ∃ m, n = m + 1 := ⟨n - 1, by omega⟩
    simp only [attrsToks, List.nil_append]
    cases rest with
    | nil => rfl
    | cons t ts =>
      have : t.typ ≠ .PLUS := by rcases hr with h | h <;> simp [h]
      simp [skipAttrs, this]
  | cons a as ih =>
    intro rest n hwf hr hn
    obtain ⟨m, rfl⟩ : ∃ m, n = m + 1 := ⟨n - 1, by omega⟩
    obtain ⟨k, v⟩ := a
    have hk := hwf (k, v) (by simp)
    have hi := ih rest m (fun x hx => hwf x (by simp [hx])) hr (by simp at hn; omega)
    have hnext := attrsToks_head as rest (fun x hx => hwf x (by simp [hx]))
      (by cases rest with
          | nil => trivial
          | cons t ts => rcases hr with h | h <;> simp [AttrStop, h])
    cases v with
    | init _ => exact absurd hk (by simp [WFAttr])
    | flag =>
      obtain ⟨hc, h1, h2⟩ := hk
      simp only [attrsToks, h1, h2, or_self, if_false, AttrVal.toks, List.append_assoc, List.cons_append,
        List.nil_append]
      generalize hts : attrsToks as ++ rest = ts at hnext hi
      cases ts with
      | nil =>
        have : rest = [] := by
          cases as with
          | nil => simpa [attrsToks] using hts
          | cons a' as' => simp at hts; exact hts.2
        simp [skipAttrs, tk, nameTok, hc, this]
      | cons t ts' =>
        obtain ⟨n1, n2⟩ := hnext
        simp [skipAttrs, tk, nameTok, hc, n1, n2, hi]
    | text parts =>
      obtain ⟨hc, h1, h2, hb⟩ := hk
      simp only [attrsToks, h1, h2, or_self, if_false, AttrVal.toks, List.append_assoc, List.cons_append,
        List.nil_append]
      have hsp := skipParen_print parts 0 (attrsToks as ++ rest) hb
      simp [tk] at hsp
      simp [skipAttrs, tk, nameTok, hc, hsp, hi]

/-! ### suffixes -/

def NoSuffix : Toks → Prop
  | [] => True
  | t :: _ => t.typ ≠ .LBRACKET ∧ t.typ ≠ .LPAREN

theorem cxxSuffixes_none (env : Env) (m : Nat) (R : Toks) (h : NoSuffix R) :
    cxxSuffixes env (m + 1) R = some ([], R) := by
  cases R with
  | nil => rfl
  | cons t ts => simp [cxxSuffixes, h.1, h.2]

theorem cxxSuffixes_arrays (env : Env) : ∀ (arr : List Expr) (R : Toks) (n : Nat),
    (∀ e ∈ arr, SimpleDim e) → NoSuffix R → n ≥ arr.length + 1 →
    cxxSuffixes env n (arraysToks arr ++ R) = some (arr.map (fun e => Op.arr (printExpr e)), R) := by
  intro arr
  induction arr with
  | nil =>
    intro R n _ h hn
    obtain ⟨m, rfl⟩ : ∃ m, n = m + 1 := ⟨n - 1, by omega⟩
    simpa [arraysToks] using cxxSuffixes_none env m R h
  | cons e es ih =>
    intro R n hs h hn
    obtain ⟨m, rfl⟩ : ∃ m, n = m + 1 := ⟨n - 1, by omega⟩
    have hb := cxxBound_simple e (hs e (by simp)) (arraysToks es ++ R)
    have hi := ih R m (fun x hx => hs x (by simp [hx])) h (by simp at hn; omega)
    simp only [arraysToks, List.append_assoc, List.cons_append, List.nil_append]
    rw [cxxSuffixes]
    simp [tk] at hb
    simp [tk, hb, hi]

theorem arraysToks_noLParen (arr : List Expr) (R : Toks) (h : Hd K4 R) :
    NotKind .TYPE_QUALIFIER (arraysToks arr ++ R) ∧ Hd K4 (arraysToks arr ++ R) := by
  cases arr with
  | nil => exact ⟨(Hd_K4_cases (env := default) h).2.2.2, h⟩
  | cons e es => simp [arraysToks, NotKind, Hd, tk, K4]

theorem K4_noSuffixAfterArrays {R : Toks} (h : Hd (fun k => k = .PLUS ∨ k = .COMMA ∨ k = .RPAREN) R) : NoSuffix R := by
  cases R with
  | nil => trivial
  | cons t ts =>
    simp only [Hd] at h
    rcases (by simpa using h : t.typ = .PLUS ∨ t.typ = .COMMA ∨ t.typ = .RPAREN) with h | h | h <;> simp [NoSuffix, h]

/-- suffix part of a rendered declaration: `(params) const? [dims]` -/
theorem cxxSuffixes_func (env : Env) (ps : List Decl) (tys : List CxxType) (fc : Bool) (arr : List Expr)
    (R : Toks) (n : Nat)
    (hp : ∀ X, cxxParams env n (paramsInner ps ++ tk .RPAREN ")" :: X) = some (tys, X))
    (harr : ∀ e ∈ arr, SimpleDim e) (hR : Hd (fun k => k = .PLUS ∨ k = .COMMA ∨ k = .RPAREN) R)
    (hn : n ≥ arr.length + 1) :
    cxxSuffixes env (n + 1) (tk .LPAREN "(" :: (paramsInner ps ++ tk .RPAREN ")" :: (fcToks fc ++ (arraysToks arr ++ R))))
      = some (Op.func tys fc :: arr.map (fun e => Op.arr (printExpr e)), R) := by
  have ha := cxxSuffixes_arrays env arr R n harr (K4_noSuffixAfterArrays hR) hn
  rw [cxxSuffixes]
  simp only [tk] at hp
  simp only [tk, hp]
  cases fc with
  | true => simp [fcToks, tk, ha]
  | false =>
    simp only [fcToks, Bool.false_eq_true, if_false, List.nil_append]
    have hK : Hd K4 R := by
      cases R with
      | nil => trivial
      | cons t ts =>
        simp only [Hd] at hR ⊢
        rcases (by simpa using hR : t.typ = .PLUS ∨ t.typ = .COMMA ∨ t.typ = .RPAREN) with h | h | h <;> simp [h, K4]
    obtain ⟨hq, _⟩ := arraysToks_noLParen arr R hK
    generalize hT : arraysToks arr ++ R = T at ha hq
    cases T with
    | nil =>
      have : arr = [] := by
        cases arr with
        | nil => rfl
        | cons e es => simp [arraysToks] at hT
      subst this
      have hR' : R = [] := by simpa [arraysToks] using hT
      subst hR'
      simp
    | cons t ts =>
      simp only [NotKind] at hq
      simp [hq, ha]

/-! ### declarators -/

def refsPlainD : Declarator → Prop
  | .leaf ps _ => RefsPlain ps
  | .wrap ps i => RefsPlain ps ∧ refsPlainD i

theorem opsOf_nil (d : Declarator) : opsOf d [] = declaratorOps d := by
  cases d <;> simp [opsOf, declaratorOps]

theorem ptrsToks_len (ps : List Ptr) : ps.length ≤ (ptrsToks false ps).length := by
  induction ps with
  | nil => simp [ptrsToks]
  | cons p ps ih => simp [ptrsToks, Ptr.toks]; omega

theorem starts_WFD (env : Env) (d : Declarator) (hwf : WFD env d) (rest : Toks) :
    startsDeclarator env (d.toks false ++ rest) = true := by
  cases d with
  | leaf ps name =>
    cases ps with
    | cons p ps' =>
      obtain ⟨k, c, v⟩ := p
      cases k <;> simp [Declarator.toks, ptrsToks, Ptr.toks, startsDeclarator, tk]
    | nil =>
      cases name with
      | none => exact absurd rfl hwf
      | some n =>
        obtain ⟨hc, hu, _⟩ := hwf
        simp [Declarator.toks, ptrsToks, startsDeclarator, nameTok, hc, isTypeName, hu]
  | wrap ps i =>
    cases ps with
    | cons p ps' =>
      obtain ⟨k, c, v⟩ := p
      cases k <;> simp [Declarator.toks, ptrsToks, Ptr.toks, startsDeclarator, tk]
    | nil => simp [Declarator.toks, ptrsToks, startsDeclarator, tk]

theorem cxxDeclarator_print (env : Env) : ∀ (d : Declarator) (S R : Toks) (sfx : List Op) (n0 n : Nat),
    WFD env d → refsPlainD d → (d.named = false → AbsStop S) →
    (∀ m, m ≥ n0 → cxxSuffixes env m S = some (sfx, R)) → n0 ≥ 1 → n > d.depth + n0 →
    cxxDeclarator env n (d.toks false ++ S) = some (declaratorName d, opsOf d sfx, R) := by
  intro d
  induction d with
  | leaf ps name =>
    intro S R sfx n0 n wf hrp hstop hS hn0 hn
    obtain ⟨m, rfl⟩ : ∃ m, n = m + 1 := ⟨n - 1, by omega⟩
    simp only [Declarator.depth] at hn
    have hSm := hS m (by omega)
    cases name with
    | some nm =>
      obtain ⟨hc, _⟩ := wf
      simp only [Declarator.toks, List.append_assoc, List.cons_append, List.nil_append]
      have hp := cxxPtrOps_print ps (nameTok nm :: S) (ptrsToks false ps ++ nameTok nm :: S).length hrp
        (by simp [PtrStop, nameTok, hc]) (by have := ptrsToks_len ps; simp; omega)
      rw [cxxDeclarator]
      simp only [hp]
      simp [nameTok, hc, hSm, declaratorName, opsOf]
    | none =>
      have hs := hstop rfl
      simp only [Declarator.toks, List.append_nil]
      have hp := cxxPtrOps_print ps S (ptrsToks false ps ++ S).length hrp hs.ptrStop
        (by have := ptrsToks_len ps; simp; omega)
      rw [cxxDeclarator]
      simp only [hp]
      cases S with
      | nil =>
        have : cxxSuffixes env m [] = some ([], []) := by
          cases m <;> simp [cxxSuffixes] at hSm ⊢
        rw [this] at hSm
        cases hSm
        simp [declaratorName, opsOf]
      | cons t ts =>
        obtain ⟨_, _, _, h4, h5⟩ := hs
        simp [h4, h5, hSm, declaratorName, opsOf]
  | wrap ps inner ih =>
    intro S R sfx n0 n wf hrp _ hS hn0 hn
    obtain ⟨m, rfl⟩ : ∃ m, n = m + 1 := ⟨n - 1, by omega⟩
    simp only [Declarator.depth] at hn
    have hSm := hS m (by omega)
    have hi := ih (tk .RPAREN ")" :: S) (tk .RPAREN ")" :: S) [] 1 m wf hrp.2
      (fun _ => by simp [AbsStop, tk])
      (fun k hk => by
        obtain ⟨k', rfl⟩ : ∃ k', k = k' + 1 := ⟨k - 1, by omega⟩
        exact cxxSuffixes_none env k' _ (by simp [NoSuffix, tk])) (by omega) (by omega)
    rw [opsOf_nil] at hi
    simp only [Declarator.toks, List.append_assoc, List.cons_append, List.nil_append]
    have hp := cxxPtrOps_print ps (tk .LPAREN "(" :: (inner.toks false ++ tk .RPAREN ")" :: S))
      (ptrsToks false ps ++ tk .LPAREN "(" :: (inner.toks false ++ tk .RPAREN ")" :: S)).length hrp.1
      (by simp [PtrStop, tk]) (by have := ptrsToks_len ps; simp; omega)
    have hst := starts_WFD env inner wf (tk .RPAREN ")" :: S)
    rw [cxxDeclarator]
    simp only [hp]
    simp [tk] at hi hst
    simp [tk, hst, hi, hSm, declaratorName, opsOf]

/-! ### declarations -/

mutual
/-- meaning domain on top of `WF`: references carry no cv-qualifier, and a parameter whose
    specifier is just `void` has a declarator (`void *p`; a bare `void` parameter is only
    legal as the whole list `(void)`) -/
def RP : Decl → Prop
  | .mk _ dr params _ _ _ _ => (∀ d, dr = some d → refsPlainD d) ∧ RPo params
def RPo : Option (List Decl) → Prop
  | none => True
  | some ps => RPs ps
def RPs : List Decl → Prop
  | [] => True
  | p :: ps => RP p ∧ (p.spec.specifier = [sp "void"] → p.declarator ≠ none) ∧ RPs ps
end

theorem RPs_mem : ∀ {ps : List Decl}, RPs ps → ∀ p ∈ ps, RP p := by
  intro ps
  induction ps with
  | nil => intro _ p hp; cases hp
  | cons a t ih =>
    intro h p hp
    simp only [RPs] at h
    cases hp with
    | head => exact h.1
    | tail _ h' => exact ih h.2.2 p h'

def ptoks (params : Option (List Decl)) (fc : Bool) : Toks :=
  match params with
  | none => []
  | some ps => tk .LPAREN "(" :: (paramsInner ps ++ tk .RPAREN ")" :: fcToks fc)

def dtoks (dr : Option Declarator) : Toks :=
  match dr with
  | some d => d.toks false
  | none => []

/-- the tokens of a rendered declaration after its specifiers -/
def tailToks (dr : Option Declarator) (params : Option (List Decl)) (fc : Bool) (arr : List Expr) : Toks :=
  dtoks dr ++ (ptoks params fc ++ arraysToks arr)

theorem declaratorPart (env : Env) (dr : Option Declarator) (params : Option (List Decl)) (fc : Bool)
    (arr : List Expr) (R : Toks) (fo : List Op) (kp n : Nat)
    (hd : ∀ d, dr = some d → WFD env d ∧ refsPlainD d)
    (harr : ∀ e ∈ arr, SimpleDim e)
    (hpar : match params with | none => fo = [] | some _ => ∃ d, dr = some d ∧ d.named = true)
    (hR : Hd (fun k => k = .PLUS ∨ k = .COMMA ∨ k = .RPAREN) R)
    (HP : ∀ ps, params = some ps → ∃ tys, fo = [Op.func tys fc] ∧
            ∀ k, k ≥ kp → ∀ X, cxxParams env k (paramsInner ps ++ tk .RPAREN ")" :: X) = some (tys, X))
    (hn : n ≥ (dtoks dr).length + kp + arr.length + 6) :
    cxxDeclarator env n (tailToks dr params fc arr ++ R)
      = some (dr.bind declaratorName, denOps dr (fo ++ arr.map (fun e => Op.arr (printExpr e))), R) := by
  have hK : Hd K4 R := by
    cases R with
    | nil => trivial
    | cons t ts =>
      simp only [Hd] at hR ⊢
      rcases (by simpa using hR : t.typ = .PLUS ∨ t.typ = .COMMA ∨ t.typ = .RPAREN) with h | h | h <;> simp [h, K4]
  -- the suffix part
  have hS : ∀ m, m ≥ kp + arr.length + 2 →
      cxxSuffixes env m (ptoks params fc ++ arraysToks arr ++ R)
        = some (fo ++ arr.map (fun e => Op.arr (printExpr e)), R) := by
    intro m hm
    cases params with
    | none =>
      simp only at hpar
      subst hpar
      simpa [ptoks] using cxxSuffixes_arrays env arr R m harr (K4_noSuffixAfterArrays hR) (by omega)
    | some ps =>
      obtain ⟨tys, hfo, hp⟩ := HP ps rfl
      subst hfo
      obtain ⟨m', rfl⟩ : ∃ m', m = m' + 1 := ⟨m - 1, by omega⟩
      have := cxxSuffixes_func env ps tys fc arr R m' (fun X => hp m' (by omega) X) harr hR (by omega)
      simpa [ptoks, List.append_assoc] using this
  cases dr with
  | some d =>
    obtain ⟨hwd, hrp⟩ := hd d rfl
    have hdl := d.depth_le
    have hstop : d.named = false → AbsStop (ptoks params fc ++ arraysToks arr ++ R) := by
      intro hnm
      cases params with
      | none =>
        have := (arraysToks_noLParen arr R hK).2
        simpa [ptoks] using (Hd_K4_cases (env := env) this).2.1
      | some ps =>
        obtain ⟨d', hd', hn'⟩ := hpar
        cases hd'
        simp [hnm] at hn'
    have := cxxDeclarator_print env d _ R _ (kp + arr.length + 2) n hwd hrp hstop hS (by omega)
      (by simp only [dtoks] at hn; omega)
    simpa [tailToks, dtoks, denOps, List.append_assoc] using this
  | none =>
    have hpn : params = none := by
      cases params with
      | none => rfl
      | some ps => obtain ⟨d', hd', _⟩ := hpar; cases hd'
    subst hpn
    simp only at hpar
    subst hpar
    obtain ⟨m, rfl⟩ : ∃ m, n = m + 1 := ⟨n - 1, by omega⟩
    have hA := (arraysToks_noLParen arr R hK).2
    obtain ⟨_, k2, _, _⟩ := Hd_K4_cases (env := env) hA
    have hp := cxxPtrOps_print [] (arraysToks arr ++ R) (arraysToks arr ++ R).length (by intro p hp; cases hp)
      k2.ptrStop (by simp)
    simp only [ptrsToks, List.nil_append, List.map_nil] at hp
    have hSm := hS m (by simp only [dtoks, List.length_nil] at hn; omega)
    simp only [ptoks, List.nil_append] at hSm
    simp only [tailToks, dtoks, ptoks, List.nil_append, Option.bind, denOps]
    rw [cxxDeclarator]
    simp only [hp]
    generalize hT : arraysToks arr ++ R = T at hSm k2
    cases T with
    | nil =>
      have : arr = [] := by
        cases arr with
        | nil => rfl
        | cons e es => simp [arraysToks] at hT
      subst this
      have hR' : R = [] := by simpa [arraysToks] using hT
      simp [hR']
    | cons t ts =>
      obtain ⟨_, _, _, h4, h5⟩ := k2
      simp [h4, h5, hSm]

theorem toks_split (s : Spec) (dr : Option Declarator) (params : Option (List Decl)) (fc : Bool)
    (arr : List Expr) (attrs : List (Str × AttrVal)) (init : Option Init) (rest : Toks) :
    (Decl.mk s dr params fc arr attrs init).toks ++ rest
      = s.toks ++ (tailToks dr params fc arr ++ (attrsToks attrs ++ rest)) := by
  rw [Decl.toks_eq]
  cases dr <;> cases params <;> simp [tailToks, dtoks, ptoks, List.append_assoc]

theorem declCore (env : Env) (hb : BaseAgrees env) (s : Spec) (dr : Option Declarator)
    (params : Option (List Decl)) (fc : Bool) (arr : List Expr) (attrs : List (Str × AttrVal)) (rest : Toks)
    (fo : List Op) (kp n : Nat)
    (hs : WFSpec env s) (hd : ∀ d, dr = some d → WFD env d ∧ refsPlainD d)
    (harr : ∀ e ∈ arr, SimpleDim e) (hattr : ∀ a ∈ attrs, WFAttr a)
    (hpar : match params with | none => fo = [] | some _ => ∃ d, dr = some d ∧ d.named = true)
    (hrest : DeclFollow rest)
    (HP : ∀ ps, params = some ps → ∃ tys, fo = [Op.func tys fc] ∧
            ∀ k, k ≥ kp → ∀ X, cxxParams env k (paramsInner ps ++ tk .RPAREN ")" :: X) = some (tys, X))
    (hn : n ≥ (dtoks dr).length + kp + arr.length + 6) :
    ∃ acc b, cxxSpec env (s.toks ++ (tailToks dr params fc arr ++ (attrsToks attrs ++ rest))) {}
        = (acc, tailToks dr params fc arr ++ (attrsToks attrs ++ rest))
      ∧ acc.base = some b ∧ denoteBase env s = some b
      ∧ cxxDeclarator env n (tailToks dr params fc arr ++ (attrsToks attrs ++ rest))
          = some (dr.bind declaratorName, denOps dr (fo ++ arr.map (fun e => Op.arr (printExpr e))), attrsToks attrs ++ rest)
      ∧ skipAttrs ((attrsToks attrs ++ rest).length + 1) (attrsToks attrs ++ rest) = some rest := by
  have hA := Hd_attrs attrs rest hattr hrest
  have hT4 := Hd_tail arr attrs rest hattr hrest
  have hstop : SpecStop env (tailToks dr params fc arr ++ (attrsToks attrs ++ rest)) := by
    cases dr with
    | some d =>
      have := (hd d rfl).1
      simpa [tailToks, dtoks, List.append_assoc] using d.toks_head env this _
    | none =>
      have hpn : params = none := by
        cases params with
        | none => rfl
        | some ps => obtain ⟨d', hd', _⟩ := hpar; cases hd'
      subst hpn
      simpa [tailToks, dtoks, ptoks] using (Hd_K4_cases (env := env) hT4).1
  obtain ⟨acc, b, h1, h2, h3⟩ := cxxSpec_print env hb s _ hs hstop
  refine ⟨acc, b, h1, h2, h3, ?_, ?_⟩
  · exact declaratorPart env dr params fc arr _ fo kp n hd harr hpar hA HP hn
  · apply skipAttrs_print attrs rest _ hattr hrest
    have := attrsToks_len attrs hattr
    simp only [List.length_append]
    omega

theorem denote_mk (env : Env) (s : Spec) (dr : Option Declarator) (params : Option (List Decl)) (fc : Bool)
    (arr : List Expr) (attrs : List (Str × AttrVal)) (init : Option Init) (b : CxxType) (fo : List Op)
    (hb : denoteBase env s = some b) (hf : denoteParams env fc params = some fo) :
    denote env (.mk s dr params fc arr attrs init)
      = some (applyOps b (denOps dr (fo ++ arr.map (fun e => Op.arr (printExpr e))))) := by
  simp [denote, hb, hf]

/-! ### parameter lists -/

theorem starts_notRParen (env : Env) (ts : Toks) (h : startsDeclarator env ts = true) : nextIs .RPAREN ts = false := by
  cases ts with
  | nil => rfl
  | cons t r =>
    simp only [startsDeclarator, Bool.or_eq_true, beq_iff_eq, Bool.and_eq_true] at h
    rcases h with ((h | h) | h) | ⟨h, _⟩ <;> simp [nextIs, h]

theorem notBareVoid (env : Env) (p : Decl) (Y : Toks) (wf : WF env p)
    (hv : p.spec.specifier = [sp "void"] → p.declarator ≠ none) :
    ∃ t r, p.toks ++ Y = t :: r ∧ t.typ ≠ .RPAREN ∧
      ¬ (t.typ = .TYPE_SPECIFIER ∧ t.val = "void".toList ∧ nextIs .RPAREN r = true) := by
  obtain ⟨s, dr, params, fc, arr, attrs, init⟩ := p
  simp only [WF] at wf
  obtain ⟨hs, hd, _⟩ := wf
  rw [toks_split]
  obtain ⟨spc, sto, c, v, targs, tm⟩ := s
  obtain ⟨_, hsto, hsp⟩ := hs
  simp only [Spec.toks, Spec.const, Spec.volatile, Spec.storage, Spec.specifier, Decl.spec, Decl.declarator] at *
  cases c
  · cases v
    · cases sto with
      | cons a as => exact ⟨nameTok a, _, rfl, by simp [nameTok, hsto a (by simp)], by simp [nameTok, hsto a (by simp)]⟩
      | nil =>
        cases spc with
        | nil =>
          rcases hsp with ⟨h, _⟩ | ⟨name, h, _⟩
          · exact absurd rfl h
          · cases h
        | cons x xs =>
          refine ⟨nameTok x, _, rfl, ?_, ?_⟩
          · rcases hsp with ⟨_, h, _⟩ | ⟨name, h, hc, _⟩
            · simp [nameTok, h x (by simp)]
            · cases h; simp [nameTok, hc]
          · intro ⟨_, hval, hnext⟩
            simp only [nameTok] at hval
            cases xs with
            | cons y ys =>
              rcases hsp with ⟨_, h, _⟩ | ⟨name, h, _⟩
              · simp [nextIs, nameTok, h y (by simp)] at hnext
              · cases h
            | nil =>
              have hx : x = sp "void" := hval
              subst hx
              have hdr := hv rfl
              cases dr with
              | none => exact absurd rfl hdr
              | some d =>
                have := starts_notRParen env _ (starts_WFD env d (hd d rfl)
                  (ptoks params fc ++ arraysToks arr ++ (attrsToks attrs ++ Y)))
                simp [cvToks, tailToks, dtoks, List.append_assoc] at hnext
                simp [List.append_assoc] at this
                rw [this] at hnext
                cases hnext
    · exact ⟨_, _, rfl, by simp [tk], by simp [tk]⟩
  · exact ⟨_, _, rfl, by simp [tk], by simp [tk]⟩

/-- the reference meaning of the rendering of `d` as a parameter is what `d` denotes -/
def MT (env : Env) (d : Decl) : Prop :=
  ∀ (rest : Toks) (n : Nat), DeclFollow rest → n ≥ 4 * d.toks.length + 12 →
    ∃ T, denote env d = some T ∧ cxxParam env n (d.toks ++ rest) = some (T, rest)

theorem cxxParamsTail_print (env : Env) : ∀ (ps : List Decl) (p : Decl) (k : Nat) (X : Toks),
    (∀ q ∈ p :: ps, WF env q ∧ MT env q) → k ≥ 4 * (p.toks ++ paramsTailToks ps).length + 14 →
    ∃ tys, denoteList env (p :: ps) = some tys ∧
      cxxParamsTail env k (p.toks ++ paramsTailToks ps ++ tk .RPAREN ")" :: X) = some (tys, X) := by
  intro ps
  induction ps with
  | nil =>
    intro p k X h hk
    obtain ⟨hwf, hmt⟩ := h p (by simp)
    simp only [paramsTailToks, List.append_nil, List.length_append, List.length_nil] at hk ⊢
    obtain ⟨k', rfl⟩ : ∃ k', k = k' + 1 := ⟨k - 1, by omega⟩
    obtain ⟨T, hT, hp⟩ := hmt (tk .RPAREN ")" :: X) k' (by simp [DeclFollow, tk]) (by omega)
    refine ⟨[T], by simp [denoteList, hT], ?_⟩
    rw [cxxParamsTail]
    simp [tk] at hp
    simp [hp, tk]
  | cons q qs ih =>
    intro p k X h hk
    obtain ⟨hwf, hmt⟩ := h p (by simp)
    simp only [paramsTailToks, List.length_append, List.length_cons, List.append_assoc, List.cons_append,
      List.nil_append] at hk ⊢
    obtain ⟨k', rfl⟩ : ∃ k', k = k' + 1 := ⟨k - 1, by omega⟩
    obtain ⟨T, hT, hp⟩ := hmt (tk .COMMA "," :: (q.toks ++ (paramsTailToks qs ++ tk .RPAREN ")" :: X))) k'
      (by simp [DeclFollow, tk]) (by omega)
    obtain ⟨tys, hl, hi⟩ := ih q k' X (fun x hx => h x (by simp at hx ⊢; exact Or.inr hx))
      (by simp only [List.length_append]; omega)
    simp only [List.append_assoc] at hi
    refine ⟨T :: tys, by simp [denoteList, hT] at hl ⊢; simp [denoteList, hT, hl], ?_⟩
    rw [cxxParamsTail]
    simp [tk] at hp hi
    simp [hp, tk, hi]

theorem cxxParams_print (env : Env) (ps : List Decl) (k : Nat) (X : Toks)
    (h : ∀ q ∈ ps, WF env q ∧ MT env q) (hrp : RPs ps)
    (hk : k ≥ 4 * (paramsInner ps).length + 15) :
    ∃ tys, denoteList env ps = some tys ∧
      cxxParams env k (paramsInner ps ++ tk .RPAREN ")" :: X) = some (tys, X) := by
  obtain ⟨k', rfl⟩ : ∃ k', k = k' + 1 := ⟨k - 1, by omega⟩
  cases ps with
  | nil =>
    refine ⟨[], rfl, ?_⟩
    simp [paramsInner, cxxParams, tk, nextIs]
  | cons p ps' =>
    simp only [RPs] at hrp
    obtain ⟨t, r, e, h1, h2⟩ := notBareVoid env p (paramsTailToks ps' ++ tk .RPAREN ")" :: X) (h p (by simp)).1 hrp.2.1
    obtain ⟨tys, hl, ht⟩ := cxxParamsTail_print env ps' p k' X h (by simp only [paramsInner] at hk; omega)
    refine ⟨tys, hl, ?_⟩
    simp only [paramsInner, List.append_assoc] at ht ⊢
    rw [e] at ht ⊢
    have : ¬ (t.typ = .TYPE_SPECIFIER ∧ t.val = "void".toList ∧ nextIs .RPAREN r = true) := h2
    simp only [cxxParams, h1, this, if_false]
    exact ht

theorem specToks_len (env : Env) (s : Spec) (wf : WFSpec env s) : s.toks.length ≥ 1 := by
  obtain ⟨t, ts, e, _⟩ := specToks_head env s wf
  rw [e]; simp

theorem declFacts (env : Env) (hb : BaseAgrees env) (s : Spec) (dr : Option Declarator)
    (params : Option (List Decl)) (fc : Bool) (arr : List Expr) (attrs : List (Str × AttrVal))
    (rest : Toks) (n : Nat)
    (wf : WF env (.mk s dr params fc arr attrs none)) (rp : RP (.mk s dr params fc arr attrs none))
    (ih : ∀ ps, params = some ps → ∀ p ∈ ps, WF env p → RP p → MT env p)
    (hrest : DeclFollow rest) (hn : n ≥ 4 * (Decl.mk s dr params fc arr attrs none).toks.length + 11) :
    ∃ acc b ops,
      cxxSpec env ((Decl.mk s dr params fc arr attrs none).toks ++ rest) {}
        = (acc, tailToks dr params fc arr ++ (attrsToks attrs ++ rest))
      ∧ acc.base = some b
      ∧ denote env (.mk s dr params fc arr attrs none) = some (applyOps b ops)
      ∧ cxxDeclarator env n (tailToks dr params fc arr ++ (attrsToks attrs ++ rest))
          = some (dr.bind declaratorName, ops, attrsToks attrs ++ rest)
      ∧ skipAttrs ((attrsToks attrs ++ rest).length + 1) (attrsToks attrs ++ rest) = some rest := by
  simp only [WF] at wf
  obtain ⟨hs, hd, harr, hattr, _, _, hpar⟩ := wf
  simp only [RP] at rp
  obtain ⟨hrd, hrpo⟩ := rp
  have hlen : (Decl.mk s dr params fc arr attrs none).toks.length
      = s.toks.length + ((dtoks dr).length + ((ptoks params fc).length + (arraysToks arr).length)) + (attrsToks attrs).length := by
    have := toks_split s dr params fc arr attrs none []
    simp only [List.append_nil] at this
    rw [this]
    simp [tailToks, List.length_append]
    omega
  have hsl := specToks_len env s hs
  have hal := arraysToks_len arr
  rw [toks_split]
  cases params with
  | none =>
    obtain ⟨acc, b, h1, h2, h3, h4, h5⟩ := declCore env hb s dr none fc arr attrs rest [] 0 n hs
      (fun d h => ⟨hd d h, hrd d h⟩) harr hattr rfl hrest (by intro ps h; cases h)
      (by rw [hlen] at hn; omega)
    exact ⟨acc, b, _, h1, h2, denote_mk env s dr none fc arr attrs none b [] h3 rfl, h4, h5⟩
  | some ps =>
    simp only [WFo] at hpar
    obtain ⟨hnamed, _, hwfs, _⟩ := hpar
    simp only [RPo] at hrpo
    have hq : ∀ q ∈ ps, WF env q ∧ MT env q := fun q hq =>
      ⟨WFs_mem hwfs q hq, ih ps rfl q hq (WFs_mem hwfs q hq) (RPs_mem hrpo q hq)⟩
    obtain ⟨tys, hl, _⟩ := cxxParams_print env ps (4 * (paramsInner ps).length + 15) [] hq hrpo (by omega)
    have HP : ∀ ps', some ps = some ps' → ∃ tys', [Op.func tys fc] = [Op.func tys' fc] ∧
        ∀ k, k ≥ 4 * (paramsInner ps).length + 15 → ∀ X,
          cxxParams env k (paramsInner ps' ++ tk .RPAREN ")" :: X) = some (tys', X) := by
      intro ps' e
      cases e
      refine ⟨tys, rfl, ?_⟩
      intro k hk X
      obtain ⟨tys', hl', hp'⟩ := cxxParams_print env ps k X hq hrpo hk
      rw [hl] at hl'
      cases hl'
      exact hp'
    have hpl : (ptoks (some ps) fc).length ≥ (paramsInner ps).length + 2 := by
      simp [ptoks, List.length_append]
    obtain ⟨acc, b, h1, h2, h3, h4, h5⟩ := declCore env hb s dr (some ps) fc arr attrs rest [Op.func tys fc]
      (4 * (paramsInner ps).length + 15) n hs (fun d h => ⟨hd d h, hrd d h⟩) harr hattr hnamed hrest HP
      (by rw [hlen] at hn; omega)
    refine ⟨acc, b, _, h1, h2, denote_mk env s dr (some ps) fc arr attrs none b [Op.func tys fc] h3 ?_, h4, h5⟩
    simp [denoteParams, hl]

theorem meaning_all (env : Env) (hb : BaseAgrees env) : ∀ d, WF env d → RP d → MT env d := by
  intro d
  induction d using Decl.induct with
  | _ s dr params fc arr attrs init ih =>
    intro wf rp rest n hrest hn
    have hinit : init = none := by simp only [WF] at wf; exact wf.2.2.2.2.2.1
    subst hinit
    obtain ⟨m, rfl⟩ : ∃ m, n = m + 1 := ⟨n - 1, by omega⟩
    obtain ⟨acc, b, ops, h1, h2, h3, h4, h5⟩ := declFacts env hb s dr params fc arr attrs rest m wf rp
      (fun ps hps p hp hw hr => ih ps hps p hp hw hr) hrest (by omega)
    refine ⟨_, h3, ?_⟩
    rw [cxxParam]
    simp only [h1, h2, h4, h5]
    cases rest with
    | nil => rfl
    | cons t ts =>
      have : t.typ ≠ .EQUALS := by rcases hrest with h | h <;> simp [h]
      cases ts with
      | nil => rfl
      | cons t2 ts2 => simp [this]

end Shroud.Cxx
