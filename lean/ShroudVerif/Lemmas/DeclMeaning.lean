import ShroudVerif.Model.CxxMeaning
import ShroudVerif.Lemmas.DeclRound
/-! `cxxMeaning` on Shroud's own rendering: helper lemmas (printer-side induction). -/
namespace Shroud.Cxx
open Shroud.Decl

/-! ### decl-specifier-seq -/

theorem cxxSpec_stop (env : Env) (a : SpecAcc) (rest : Toks) (h : SpecStop env rest) :
    cxxSpec env rest a = (a, rest) := by
  cases rest with
  | nil => rfl
  | cons t ts =>
    rcases h with h | ⟨h1, h2⟩
    · have : t.typ ≠ .ID ∧ t.typ ≠ .TYPE_SPECIFIER ∧ t.typ ≠ .TYPE_QUALIFIER ∧ t.typ ≠ .STORAGE_CLASS := by
        cases ht : t.typ <;> simp [ht, stopKind] at h ⊢
      simp [cxxSpec, this]
    · simp [cxxSpec, h1, h2]

theorem cxxSpec_storage (env : Env) (rest : Toks) : ∀ (xs : List Str) (a : SpecAcc),
    (∀ v ∈ xs, classify v = .STORAGE_CLASS) →
    cxxSpec env (xs.map nameTok ++ rest) a = cxxSpec env rest a := by
  intro xs
  induction xs with
  | nil => intro a _; rfl
  | cons v xs ih =>
    intro a h
    have hv : classify v = .STORAGE_CLASS := h v (by simp)
    simp only [List.map_cons, List.cons_append]
    rw [cxxSpec]
    simp [nameTok, hv]
    exact ih a (fun w hw => h w (by simp [hw]))

theorem cxxSpec_specifiers (env : Env) (rest : Toks) : ∀ (xs : List Str) (a : SpecAcc),
    (∀ v ∈ xs, classify v = .TYPE_SPECIFIER) → a.named = none →
    cxxSpec env (xs.map nameTok ++ rest) a = cxxSpec env rest { a with fund := a.fund ++ xs } := by
  intro xs
  induction xs with
  | nil => intro a _ _; simp
  | cons v xs ih =>
    intro a h hn
    have hv : classify v = .TYPE_SPECIFIER := h v (by simp)
    simp only [List.map_cons, List.cons_append]
    rw [cxxSpec]
    simp [nameTok, hv, hn]
    have := ih { a with fund := a.fund ++ [v] } (fun w hw => h w (by simp [hw])) hn
    simpa [hn] using this

theorem cxxSpec_cv (env : Env) (rest : Toks) (c v : Bool) (a : SpecAcc) :
    cxxSpec env (cvToks c v ++ rest) a = cxxSpec env rest { a with c := a.c || c, v := a.v || v } := by
  cases c <;> cases v <;> simp [cvToks, tk, cxxSpec]

/-- the typemap `get_canonical_typemap` selects for built-in specifiers has the C++ type
    the standard assigns to that specifier multiset (checked exhaustively for the extracted
    environment by the harness, `fund` op of the driver) -/
def BaseAgrees (env : Env) : Prop :=
  ∀ (sp sto : List Str) (c v : Bool) (s : Spec),
    (∀ x ∈ sp, classify x = .TYPE_SPECIFIER) →
    canonical env { specifier := sp, storage := sto, const := c, volatile := v } = .ok s →
    ∃ ti, env.typeInfo s.typemap = some ti ∧ ti.cxxType = fundName sp ∧ (fundName sp).isSome

theorem cxxSpec_print (env : Env) (hb : BaseAgrees env) (s : Spec) (rest : Toks)
    (wf : WFSpec env s) (hstop : SpecStop env rest) :
    ∃ acc b, cxxSpec env (s.toks ++ rest) {} = (acc, rest) ∧ acc.base = some b ∧ denoteBase env s = some b := by
  obtain ⟨sp, sto, c, v, targs, tm⟩ := s
  obtain ⟨ht, hsto, hsp⟩ := wf
  simp only [Spec.targs] at ht
  subst ht
  simp only [Spec.toks, Spec.const, Spec.volatile, Spec.storage, Spec.specifier, Spec.typemap,
    List.append_assoc] at *
  rw [cxxSpec_cv, cxxSpec_storage env _ sto _ hsto]
  rcases hsp with ⟨hne, hall, hcan⟩ | ⟨name, hname, hc, hu⟩
  · rw [cxxSpec_specifiers env _ sp _ hall rfl, cxxSpec_stop env _ rest hstop]
    obtain ⟨ti, h1, h2, h3⟩ := hb sp sto c v _ hall hcan
    simp only [Spec.typemap] at h1
    obtain ⟨nm, hnm⟩ := Option.isSome_iff_exists.mp h3
    refine ⟨_, .base c v (.fund nm), rfl, ?_, ?_⟩
    · simp [SpecAcc.base, hnm]
    · have hall' : sp.all (fun x => classify x = .TYPE_SPECIFIER) = true := by
        simp only [List.all_eq_true, decide_eq_true_eq]; exact hall
      simp [denoteBase, Spec.specifier, Spec.typemap, Spec.const, Spec.volatile, hall', h1, h2, hnm]
  · subst hname
    simp only [List.map_cons, List.map_nil, List.cons_append, List.nil_append]
    have key : cxxSpec env (nameTok name :: rest) { c := false || c, v := false || v }
        = ({ c := c, v := v, named := some tm }, rest) := by
      rw [cxxSpec]
      simp [nameTok, hc, hu, cxxSpec_stop env _ rest hstop]
    refine ⟨_, .base c v (.named tm), key, ?_, ?_⟩
    · simp [SpecAcc.base]
    · simp [denoteBase, Spec.specifier, Spec.typemap, Spec.const, Spec.volatile, hc]

/-! ### pointer operators -/

theorem cxxCv_print (c v : Bool) (rest : Toks) (h : NotKind .TYPE_QUALIFIER rest) :
    cxxCv (cvToks c v ++ rest) = (c, v, rest) := by
  have hr : cxxCv rest = (false, false, rest) := by
    cases rest with
    | nil => rfl
    | cons t ts => simp only [NotKind] at h; simp [cxxCv, h]
  cases c <;> cases v <;> simp [cvToks, tk, cxxCv, hr]

theorem ptrStop_notQual {rest : Toks} (h : PtrStop rest) : NotKind .TYPE_QUALIFIER rest := by
  cases rest with
  | nil => trivial
  | cons t ts => exact h.1

theorem ptrsToks_notQual (ps : List Ptr) (rest : Toks) (h : PtrStop rest) :
    NotKind .TYPE_QUALIFIER (ptrsToks false ps ++ rest) := by
  cases ps with
  | nil => exact ptrStop_notQual h
  | cons p ps' =>
    obtain ⟨k, c, v⟩ := p
    cases k <;> simp [ptrsToks, Ptr.toks, NotKind, tk]

/-- C++ has no cv-qualified references: `& const` is outside the meaning domain -/
def RefsPlain (ps : List Ptr) : Prop := ∀ p ∈ ps, p.kind = .ref → p.const = false ∧ p.volatile = false

theorem cxxPtrOps_print : ∀ (ps : List Ptr) (rest : Toks) (n : Nat), RefsPlain ps → PtrStop rest → n ≥ ps.length →
    cxxPtrOps n (ptrsToks false ps ++ rest) = (ps.map ptrOp, rest) := by
  intro ps
  induction ps with
  | nil =>
    intro rest n _ h hn
    cases n with
    | zero => rfl
    | succ m =>
      cases rest with
      | nil => rfl
      | cons t ts => obtain ⟨_, h2, h3⟩ := h; simp [ptrsToks, cxxPtrOps, h2, h3]
  | cons p ps' ih =>
    intro rest n hrp h hn
    obtain ⟨m, rfl⟩ : ∃ m, n = m + 1 := ⟨n - 1, by simp at hn; omega⟩
    have hi := ih rest m (fun q hq => hrp q (by simp [hq])) h (by simp at hn; omega)
    have hp := hrp p (by simp)
    obtain ⟨k, c, v⟩ := p
    have hcv := cxxCv_print c v (ptrsToks false ps' ++ rest) (ptrsToks_notQual ps' rest h)
    cases k
    · have e : ptrsToks false (⟨.star, c, v⟩ :: ps') ++ rest
          = ⟨.STAR, ['*'], []⟩ :: (cvToks c v ++ (ptrsToks false ps' ++ rest)) := by
        simp [ptrsToks, Ptr.toks, cvToks, tk]
      rw [e, cxxPtrOps]
      simp only [if_true, hcv, hi]
      simp [ptrOp]
    · obtain ⟨rfl, rfl⟩ := hp rfl
      have e : ptrsToks false (⟨.ref, false, false⟩ :: ps') ++ rest
          = ⟨.REF, ['&'], []⟩ :: (ptrsToks false ps' ++ rest) := by
        simp [ptrsToks, Ptr.toks, tk]
      rw [e, cxxPtrOps]
      simp [hi, ptrOp]

/-! ### array bounds, attributes -/

theorem cxxBound_simple (e : Expr) (h : SimpleDim e) (rest : Toks) :
    cxxBound 0 (e.toks ++ tk .RBRACKET "]" :: rest) = some (printExpr e, rest) := by
  cases e with
  | const v =>
    by_cases hr : isRealText v = true <;> simp [Expr.toks, cxxBound, tkv, tk, hr, printExpr]
  | ident n =>
    simp only [SimpleDim] at h
    simp [Expr.toks, cxxBound, nameTok, tk, h, printExpr]
  | call _ _ => exact absurd h (by simp [SimpleDim])
  | paren _ => exact absurd h (by simp [SimpleDim])
  | unary _ _ => exact absurd h (by simp [SimpleDim])
  | binary _ _ _ => exact absurd h (by simp [SimpleDim])

theorem skipParen_print : ∀ (parts : Toks) (d : Nat) (rest : Toks), Bal (d + 1) parts →
    skipParen d (parts ++ tk .RPAREN ")" :: rest) = some rest := by
  intro parts
  induction parts with
  | nil =>
    intro d rest h
    simp only [Bal] at h
    have : d = 0 := by omega
    subst this
    simp [skipParen, tk]
  | cons t ts ih =>
    intro d rest h
    simp only [Bal] at h
    simp only [List.cons_append]
    rw [skipParen]
    by_cases h1 : t.typ = .LPAREN
    · simp only [h1, if_true] at h ⊢
      exact ih _ rest h
    · by_cases h2 : t.typ = .RPAREN
      · have h' : 2 ≤ d + 1 ∧ Bal (d + 1 - 1) ts := by simpa [h1, h2] using h
        obtain ⟨d', rfl⟩ : ∃ d', d = d' + 1 := ⟨d - 1, by omega⟩
        simp [h2]
        exact ih d' rest (by simpa using h'.2)
      · simp only [h1, h2, if_false] at h ⊢
        exact ih _ rest h

theorem skipAttrs_print : ∀ (attrs : List (Str × AttrVal)) (rest : Toks) (n : Nat),
    (∀ a ∈ attrs, WFAttr a) → DeclFollow rest → n ≥ attrs.length + 1 →
    skipAttrs n (attrsToks attrs ++ rest) = some rest := by
  intro attrs
  induction attrs with
  | nil =>
    intro rest n _ hr hn
    obtain ⟨m, rfl⟩ : ∃ m, n = m + 1 := ⟨n - 1, by omega⟩
    simp only [attrsToks, List.nil_append]
    cases rest with
    | nil => rfl
    | cons t ts =>
      have : t.typ ≠ .PLUS := by rcases hr with h | h <;> simp [h]
      simp [skipAttrs, this]
  | cons a as ih =>
    intro rest n hwf hr hn
    obtain ⟨m, rfl⟩ : ∃ m, n = m + 1 := ⟨n - 1, by omega⟩
    obtain ⟨k, v⟩ := a
    have hk := hwf (k, v) (by simp)
    have hi := ih rest m (fun x hx => hwf x (by simp [hx])) hr (by simp at hn; omega)
    have hnext := attrsToks_head as rest (fun x hx => hwf x (by simp [hx]))
      (by cases rest with
          | nil => trivial
          | cons t ts => rcases hr with h | h <;> simp [AttrStop, h])
    cases v with
    | init _ => exact absurd hk (by simp [WFAttr])
    | flag =>
      obtain ⟨hc, h1, h2⟩ := hk
      simp only [attrsToks, h1, h2, or_self, if_false, AttrVal.toks, List.append_assoc, List.cons_append,
        List.nil_append]
      generalize hts : attrsToks as ++ rest = ts at hnext hi
      cases ts with
      | nil =>
        have : rest = [] := by
          cases as with
          | nil => simpa [attrsToks] using hts
          | cons a' as' => simp at hts; exact hts.2
        simp [skipAttrs, tk, nameTok, hc, this]
      | cons t ts' =>
        obtain ⟨n1, n2⟩ := hnext
        simp [skipAttrs, tk, nameTok, hc, n1, n2, hi]
    | text parts =>
      obtain ⟨hc, h1, h2, hb⟩ := hk
      simp only [attrsToks, h1, h2, or_self, if_false, AttrVal.toks, List.append_assoc, List.cons_append,
        List.nil_append]
      have hsp := skipParen_print parts 0 (attrsToks as ++ rest) hb
      simp [tk] at hsp
      simp [skipAttrs, tk, nameTok, hc, hsp, hi]

/-! ### suffixes -/

def NoSuffix : Toks → Prop
  | [] => True
  | t :: _ => t.typ ≠ .LBRACKET ∧ t.typ ≠ .LPAREN

theorem cxxSuffixes_none (env : Env) (m : Nat) (R : Toks) (h : NoSuffix R) :
    cxxSuffixes env (m + 1) R = some ([], R) := by
  cases R with
  | nil => rfl
  | cons t ts => simp [cxxSuffixes, h.1, h.2]

theorem cxxSuffixes_arrays (env : Env) : ∀ (arr : List Expr) (R : Toks) (n : Nat),
    (∀ e ∈ arr, SimpleDim e) → NoSuffix R → n ≥ arr.length + 1 →
    cxxSuffixes env n (arraysToks arr ++ R) = some (arr.map (fun e => Op.arr (printExpr e)), R) := by
  intro arr
  induction arr with
  | nil =>
    intro R n _ h hn
    obtain ⟨m, rfl⟩ : ∃ m, n = m + 1 := ⟨n - 1, by omega⟩
    simpa [arraysToks] using cxxSuffixes_none env m R h
  | cons e es ih =>
    intro R n hs h hn
    obtain ⟨m, rfl⟩ : ∃ m, n = m + 1 := ⟨n - 1, by omega⟩
    have hb := cxxBound_simple e (hs e (by simp)) (arraysToks es ++ R)
    have hi := ih R m (fun x hx => hs x (by simp [hx])) h (by simp at hn; omega)
    simp only [arraysToks, List.append_assoc, List.cons_append, List.nil_append]
    rw [cxxSuffixes]
    simp [tk] at hb
    simp [tk, hb, hi]

theorem arraysToks_noLParen (arr : List Expr) (R : Toks) (h : Hd K4 R) :
    NotKind .TYPE_QUALIFIER (arraysToks arr ++ R) ∧ Hd K4 (arraysToks arr ++ R) := by
  cases arr with
  | nil => exact ⟨(Hd_K4_cases (env := default) h).2.2.2, h⟩
  | cons e es => simp [arraysToks, NotKind, Hd, tk, K4]

theorem K4_noSuffixAfterArrays {R : Toks} (h : Hd (fun k => k = .PLUS ∨ k = .COMMA ∨ k = .RPAREN) R) : NoSuffix R := by
  cases R with
  | nil => trivial
  | cons t ts =>
    simp only [Hd] at h
    rcases (by simpa using h : t.typ = .PLUS ∨ t.typ = .COMMA ∨ t.typ = .RPAREN) with h | h | h <;> simp [NoSuffix, h]

/-- suffix part of a rendered declaration: `(params) const? [dims]` -/
theorem cxxSuffixes_func (env : Env) (ps : List Decl) (tys : List CxxType) (fc : Bool) (arr : List Expr)
    (R : Toks) (n : Nat)
    (hp : ∀ X, cxxParams env n (paramsInner ps ++ tk .RPAREN ")" :: X) = some (tys, X))
    (harr : ∀ e ∈ arr, SimpleDim e) (hR : Hd (fun k => k = .PLUS ∨ k = .COMMA ∨ k = .RPAREN) R)
    (hn : n ≥ arr.length + 1) :
    cxxSuffixes env (n + 1) (tk .LPAREN "(" :: (paramsInner ps ++ tk .RPAREN ")" :: (fcToks fc ++ (arraysToks arr ++ R))))
      = some (Op.func tys fc :: arr.map (fun e => Op.arr (printExpr e)), R) := by
  have ha := cxxSuffixes_arrays env arr R n harr (K4_noSuffixAfterArrays hR) hn
  rw [cxxSuffixes]
  simp only [tk] at hp
  simp only [tk, hp]
  cases fc with
  | true => simp [fcToks, tk, ha]
  | false =>
    simp only [fcToks, Bool.false_eq_true, if_false, List.nil_append]
    have hK : Hd K4 R := by
      cases R with
      | nil => trivial
      | cons t ts =>
        simp only [Hd] at hR ⊢
        rcases (by simpa using hR : t.typ = .PLUS ∨ t.typ = .COMMA ∨ t.typ = .RPAREN) with h | h | h <;> simp [h, K4]
    obtain ⟨hq, _⟩ := arraysToks_noLParen arr R hK
    generalize hT : arraysToks arr ++ R = T at ha hq
    cases T with
    | nil =>
      have : arr = [] := by
        cases arr with
        | nil => rfl
        | cons e es => simp [arraysToks] at hT
      subst this
      have hR' : R = [] := by simpa [arraysToks] using hT
      subst hR'
      simp
    | cons t ts =>
      simp only [NotKind] at hq
      simp [hq, ha]

end Shroud.Cxx
