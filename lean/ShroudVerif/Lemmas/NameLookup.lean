import ShroudVerif.Model.NameLookup
/-!
Facts about the scope-chain lookup of `Model/NameLookup.lean`: the flattened symbol list is
read by `assoc` exactly as the chain is searched.
-/
namespace Shroud.Decl
open Shroud

theorem assoc_append {β} (k : Str) : ∀ (a b : List (Str × β)),
    assoc k (a ++ b) = (match assoc k a with | some s => some s | none => assoc k b) := by
  intro a
  induction a with
  | nil => intro b; rfl
  | cons x t ih =>
    intro b
    obtain ⟨n, v⟩ := x
    simp only [List.cons_append, assoc]
    split
    · rfl
    · exact ih b

theorem firstSome_own (name : Str) : ∀ (us : List Chain),
    firstSome (fun u => assoc name u.ownSymbols) us = assoc name (us.map Chain.ownSymbols).flatten := by
  intro us
  induction us with
  | nil => rfl
  | cons u t ih =>
    simp only [firstSome, List.map_cons, List.flatten_cons, assoc_append]
    cases assoc name u.ownSymbols with
    | some s => rfl
    | none => exact ih

mutual
theorem lookup_eq_visible (name : Str) : ∀ (c : Chain), c.lookup name = assoc name c.visible
  | .nil => rfl
  | .cons kind syms usings outer => by
    cases kind with
    | delegate => simp only [Chain.lookup, Chain.visible]; exact lookup_eq_visible name outer
    | cls =>
      simp only [Chain.lookup, Chain.visible, assoc_append]
      cases assoc name syms with
      | some s => rfl
      | none => exact lookup_eq_visible name outer
    | nspace =>
      simp only [Chain.lookup, Chain.visible, assoc_append]
      cases assoc name syms with
      | some s => rfl
      | none =>
        simp only [lookupUsing_eq_visible name usings]
        cases assoc name (visibleUsing usings) with
        | some s => rfl
        | none => exact lookup_eq_visible name outer
    | library =>
      simp only [Chain.lookup, Chain.visible, assoc_append, firstSome_own]
      cases assoc name syms <;> rfl
theorem lookupUsing_eq_visible (name : Str) : ∀ (us : List Chain), lookupUsing name us = assoc name (visibleUsing us)
  | [] => rfl
  | u :: t => by
    simp only [lookupUsing, visibleUsing, assoc_append, lookup_eq_visible name u]
    cases assoc name u.visible with
    | some s => rfl
    | none => exact lookupUsing_eq_visible name t
end

end Shroud.Decl
