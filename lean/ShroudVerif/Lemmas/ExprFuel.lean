import ShroudVerif.Model.Decl
/-! The expression parser consumes input and never runs out of its recursion budget. -/
namespace Shroud.Decl

theorem bind_eq_ok {α β} {m : Res α} {f : α → Res β} {b : β} (h : (m >>= f) = .ok b) :
    ∃ a, m = .ok a ∧ f a = .ok b := by
  cases m with
  | ok a => exact ⟨a, rfl, by simpa using h⟩
  | reject _ => simp at h
  | crash _ => simp at h
  | fuel => simp at h
  | unmodelled _ => simp at h

theorem mustbe_ok {k : Kind} {ts : Toks} {t : Token} {r : Toks} (h : mustbe k ts = .ok (t, r)) :
    ts = t :: r := by
  cases ts with
  | nil => simp [mustbe] at h
  | cons a as =>
    simp only [mustbe] at h
    split at h
    · cases h; rfl
    · cases h

theorem have?_len (k : Kind) (ts : Toks) : (have? k ts).2.length ≤ ts.length ∧
    ((have? k ts).1 = true → (have? k ts).2.length + 1 = ts.length) := by
  cases ts with
  | nil => simp [have?]
  | cons t r => by_cases h : t.typ = k <;> simp [have?, h]

/-- every successful parse consumes input -/
theorem expr_consumes : ∀ n,
    (∀ mp ts e r, expression n mp ts = .ok (e, r) → r.length < ts.length) ∧
    (∀ mp l ts e r, exprLoop n mp l ts = .ok (e, r) → r.length ≤ ts.length) ∧
    (∀ ts e r, primary n ts = .ok (e, r) → r.length < ts.length) ∧
    (∀ ts es r, argList n ts = .ok (es, r) → r.length < ts.length) := by
  intro n
  induction n with
  | zero => refine ⟨?_, ?_, ?_, ?_⟩ <;> intros <;> simp_all [expression, exprLoop, primary, argList]
  | succ n ih =>
    obtain ⟨h1, h2, h3, h4⟩ := ih
    refine ⟨?_, ?_, ?_, ?_⟩
    · intro mp ts e r h
      unfold expression at h
      obtain ⟨⟨l, ts1⟩, hp, hl⟩ := bind_eq_ok h
      have a := h3 _ _ _ hp
      have b := h2 _ _ _ _ _ hl
      omega
    · intro mp l ts e r h
      unfold exprLoop at h
      split at h
      · cases h; simp
      · rename_i t rest
        split at h
        · cases h; simp
        · split at h
          · cases h; simp
          · obtain ⟨⟨rhs, ts'⟩, he, hl⟩ := bind_eq_ok h
            have a := h1 _ _ _ _ he
            have b := h2 _ _ _ _ _ hl
            simp only [List.length_cons]; omega
    · intro ts e r h
      unfold primary at h
      split at h
      · cases h
      · rename_i t rest
        split at h
        · split at h
          · obtain ⟨⟨args, ts'⟩, ha, hk⟩ := bind_eq_ok h
            cases hk
            have a := h4 _ _ _ ha
            have : (rest.drop 1).length ≤ rest.length := by simp
            simp only [List.length_cons]; omega
          · cases h; simp
        · split at h
          · cases h; simp
          · split at h
            · obtain ⟨⟨e', ts'⟩, he, hk⟩ := bind_eq_ok h
              obtain ⟨⟨tk', ts''⟩, hm, hk2⟩ := bind_eq_ok hk
              cases hk2
              have a := h1 _ _ _ _ he
              have b := mustbe_ok hm
              rw [b] at a
              simp only [List.length_cons] at a ⊢; omega
            · split at h
              · obtain ⟨⟨e', ts'⟩, he, hk⟩ := bind_eq_ok h
                cases hk
                have a := h3 _ _ _ he
                simp only [List.length_cons]; omega
              · cases h
    · intro ts es r h
      unfold argList at h
      split at h
      · cases h
        rename_i hp
        cases ts with
        | nil => simp [peekTyp] at hp
        | cons t rest => simp
      · obtain ⟨⟨e', ts'⟩, he, hk⟩ := bind_eq_ok h
        have a := h1 _ _ _ _ he
        have hv := have?_len .COMMA ts'
        simp only [] at hk
        split at hk
        · rename_i ts'' heq
          rw [heq] at hv
          split at hk
          · cases hk
          · obtain ⟨⟨es', ts3⟩, ha, hk2⟩ := bind_eq_ok hk
            cases hk2
            have b := h4 _ _ _ ha
            have := hv.1
            dsimp only at this ⊢
            omega
        · rename_i ts'' heq
          rw [heq] at hv
          obtain ⟨⟨tk', ts3⟩, hm, hk2⟩ := bind_eq_ok hk
          cases hk2
          have b := mustbe_ok hm
          have := hv.1
          dsimp only at this ⊢
          rw [b] at this
          simp only [List.length_cons] at this
          omega

theorem bind_eq_fuel {α β} {m : Res α} {f : α → Res β} (h : (m >>= f) = .fuel) :
    m = .fuel ∨ ∃ a, m = .ok a ∧ f a = .fuel := by
  cases m with
  | ok a => exact Or.inr ⟨a, rfl, by simpa using h⟩
  | reject _ => simp at h
  | crash _ => simp at h
  | fuel => exact Or.inl rfl
  | unmodelled _ => simp at h

theorem mustbe_not_fuel (k : Kind) (ts : Toks) : mustbe k ts ≠ .fuel := by
  unfold mustbe; split
  · split <;> simp
  · simp

/-- the recursion budget suffices: with `4 * length + 3` units the expression parser never
    reports `fuel`, for every token list -/
theorem expr_fuel : ∀ n,
    (∀ mp ts, n ≥ 4 * ts.length + 2 → expression n mp ts ≠ .fuel) ∧
    (∀ mp l ts, n ≥ 4 * ts.length + 3 → exprLoop n mp l ts ≠ .fuel) ∧
    (∀ ts, n ≥ 4 * ts.length + 1 → primary n ts ≠ .fuel) ∧
    (∀ ts, n ≥ 4 * ts.length + 3 → argList n ts ≠ .fuel) := by
  intro n
  induction n with
  | zero => refine ⟨?_, ?_, ?_, ?_⟩ <;> intros <;> omega
  | succ n ih =>
    obtain ⟨h1, h2, h3, h4⟩ := ih
    obtain ⟨c1, c2, c3, c4⟩ := expr_consumes n
    refine ⟨?_, ?_, ?_, ?_⟩
    · intro mp ts hn h
      unfold expression at h
      rcases bind_eq_fuel h with hp | ⟨⟨l, ts1⟩, hp, hl⟩
      · exact h3 ts (by omega) hp
      · have := c3 _ _ _ hp
        exact h2 _ _ _ (by omega) hl
    · intro mp l ts hn h
      unfold exprLoop at h
      split at h
      · cases h
      · rename_i t rest
        split at h
        · cases h
        · split at h
          · cases h
          · simp only [List.length_cons] at hn
            rcases bind_eq_fuel h with he | ⟨⟨rhs, ts'⟩, he, hl⟩
            · exact h1 _ _ (by omega) he
            · have := c1 _ _ _ _ he
              exact h2 _ _ _ (by omega) hl
    · intro ts hn h
      unfold primary at h
      split at h
      · cases h
      · rename_i t rest
        simp only [List.length_cons] at hn
        split at h
        · split at h
          · rcases bind_eq_fuel h with ha | ⟨⟨args, ts'⟩, _, hk⟩
            · have : (rest.drop 1).length ≤ rest.length := by simp
              exact h4 _ (by omega) ha
            · cases hk
          · cases h
        · split at h
          · cases h
          · split at h
            · rcases bind_eq_fuel h with he | ⟨⟨e', ts'⟩, _, hk⟩
              · exact h1 _ _ (by omega) he
              · rcases bind_eq_fuel hk with hm | ⟨_, _, hk2⟩
                · exact mustbe_not_fuel _ _ hm
                · cases hk2
            · split at h
              · rcases bind_eq_fuel h with he | ⟨⟨e', ts'⟩, _, hk⟩
                · exact h3 _ (by omega) he
                · cases hk
              · cases h
    · intro ts hn h
      unfold argList at h
      split at h
      · cases h
      · rcases bind_eq_fuel h with he | ⟨⟨e', ts'⟩, he, hk⟩
        · exact h1 _ _ (by omega) he
        · have a := c1 _ _ _ _ he
          have hv := have?_len .COMMA ts'
          simp only [] at hk
          split at hk
          · rename_i ts'' heq
            rw [heq] at hv
            split at hk
            · cases hk
            · rcases bind_eq_fuel hk with ha | ⟨_, _, hk2⟩
              · have := hv.1
                dsimp only at this
                exact h4 _ (by omega) ha
              · cases hk2
          · rcases bind_eq_fuel hk with hm | ⟨_, _, hk2⟩
            · exact mustbe_not_fuel _ _ hm
            · cases hk2

theorem expression_not_fuel (mp : Nat) (ts : Toks) (n : Nat) (hn : n ≥ 4 * ts.length + 2) :
    expression n mp ts ≠ .fuel := (expr_fuel n).1 mp ts hn

end Shroud.Decl
